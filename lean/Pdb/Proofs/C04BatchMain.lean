/-
C04, GAP 2, part 2: `changeB` (the literal loop of `Node::change`, several changes per descent)
performs a `Run` of single changes on its node; the range tests of the loop (`stays`) are
sound: a change kept in the node (a) lies in the key range of the node, so the descent from
the root would reach the same node.
-/
import Pdb.Proofs.C04Batch

namespace Pdb.C04
variable {V : Type}

/-- keys strictly increasing: sorted and de-duplicated -/
def OpsStrict (l : List (Op V)) : Prop := l.Pairwise (fun a b => keyLt a.key b.key = true)

/-- the change after `last` (if any) has another key: `last` is the last operation on its key -/
def Boundary (last : Op V) (rest : List (Op V)) : Prop := ∀ b, rest.head? = some b → last.key ≠ b.key

/-- a convex set of keys (the key range of a node: between the separators of the ancestors) -/
def Conv (P : Key → Prop) : Prop :=
  ∀ a b k, P a → P b → keyLt a k = true → keyLt b k = false → P k

/-- The parent test of the loop is sound for the range `P` of the current node: a key above a
    key of the range that `position` sends into the same child slot `p`, with a separator to
    the right of the slot, is in the range. -/
def ParentOK (parent : Parent V) (P : Key → Prop) : Prop :=
  ∀ pseps p, parent = some (pseps, p) → ∀ prev k, P prev → keyLt prev k = true →
    (position pseps k).1 = false → (position pseps k).2 = p → p < pseps.length → P k

structure Pre (d lb : Nat) (n : Node V) (P : Key → Prop) : Prop where
  wf : WF d n
  sorted : Sorted (toList d n)
  occ : Occ lb d n
  lb1 : lb ≤ MIDDLE
  lb2 : 0 < d → 1 ≤ lb
  rng : ∀ x ∈ toList d n, P x.1

/-- What a `Node::change` call returns: a non-empty prefix `consumed` of the slice was consumed,
    its last operation per key (`dedupLast`) applied as a `Run`; the remaining slice starts
    with the last applied change, which is the last operation on its key; all consumed keys
    are in the range of the node. -/
def GoodRet (d : Nat) (n : Node V) (P : Key → Prop) (cs : List (Op V)) (ret : RetB V) : Prop :=
  ∃ consumed last rest, cs = consumed ++ rest ∧ consumed.getLast? = some last ∧
    Boundary last rest ∧ ret.2.2 = last :: rest ∧ Run d n (dedupLast consumed) ret.1 ret.2.1 ∧
    ∀ op ∈ consumed, P op.key

def CCSpec (d : Nat) (cc : Parent V → Node V → List (Op V) → RetB V) : Prop :=
  ∀ (lb : Nat) (n : Node V) (parent : Parent V) (P : Key → Prop) (a : Op V) (rest : List (Op V)),
    Pre d lb n P → Conv P → ParentOK parent P → OpsSorted (a :: rest) → P a.key →
    GoodRet d n P (a :: rest) (cc parent n (a :: rest))

/-! ### `dedupLast` -/

theorem dedupLast_cons_same (a b : Op V) (l : List (Op V)) (h : a.key = b.key) :
    dedupLast (a :: b :: l) = dedupLast (b :: l) := by
  simp [dedupLast, h]

theorem dedupLast_cons_ne (a b : Op V) (l : List (Op V)) (h : a.key ≠ b.key) :
    dedupLast (a :: b :: l) = a :: dedupLast (b :: l) := by
  simp [dedupLast, h]

theorem dedupLast_append {consumed rest : List (Op V)} {last : Op V}
    (hl : consumed.getLast? = some last) (hb : Boundary last rest) :
    dedupLast (consumed ++ rest) = dedupLast consumed ++ dedupLast rest := by
  induction consumed with
  | nil => simp at hl
  | cons a t ih =>
    cases t with
    | nil =>
      simp only [List.getLast?_singleton, Option.some.injEq] at hl
      subst hl
      cases rest with
      | nil => rfl
      | cons b r =>
        have := hb b rfl
        show dedupLast (a :: b :: r) = _
        rw [dedupLast_cons_ne a b r this]; rfl
    | cons c t =>
      have hl' : (c :: t).getLast? = some last := by
        rw [List.getLast?_cons_cons] at hl; exact hl
      have ih' := ih hl'
      by_cases h : a.key = c.key
      · show dedupLast (a :: c :: (t ++ rest)) = _
        rw [dedupLast_cons_same a c _ h, dedupLast_cons_same a c _ h]
        exact ih'
      · show dedupLast (a :: c :: (t ++ rest)) = _
        rw [dedupLast_cons_ne a c _ h, dedupLast_cons_ne a c _ h]
        show a :: dedupLast (c :: t ++ rest) = _
        rw [ih']; rfl

/-! ### `position` -/

theorem position_of_bounds (S1 S2 : List (Key × V)) (k : Key)
    (h1 : ∀ x ∈ S1, keyLt x.1 k = true) (h2 : ∀ x ∈ S2, keyLt k x.1 = true) :
    position (S1 ++ S2) k = (false, S1.length) := by
  induction S1 with
  | nil =>
    cases S2 with
    | nil => rfl
    | cons b S2 =>
      obtain ⟨k', v'⟩ := b
      have := h2 (k', v') List.mem_cons_self
      simp only at this
      simp [position, this]
  | cons a S1 ih =>
    obtain ⟨k', v'⟩ := a
    have ha := h1 (k', v') List.mem_cons_self
    simp only at ha
    have e1 : keyLt k k' = false := keyLt_asymm ha
    have e2 : ¬ k = k' := fun e => keyLt_ne ha e.symm
    have := ih (fun x hx => h1 x (List.mem_cons_of_mem _ hx))
    simp only [List.cons_append, position, e1, e2, if_false, this, List.length_cons,
      Bool.false_eq_true]

theorem position_hit (seps : List (Key × V)) (k : Key)
    (h : (position seps k).1 = true ∨ (position seps k).2 < seps.length) :
    ∃ s ∈ seps, keyLt s.1 k = false := by
  induction seps with
  | nil => simp [position] at h
  | cons a seps ih =>
    obtain ⟨k', v'⟩ := a
    by_cases h1 : keyLt k k' = true
    · exact ⟨(k', v'), List.mem_cons_self, keyLt_asymm h1⟩
    · by_cases h2 : k = k'
      · subst h2
        exact ⟨(k, v'), List.mem_cons_self, keyLt_irrefl k⟩
      · have e : position ((k', v') :: seps) k =
            ((position seps k).1, (position seps k).2 + 1) := by simp [position, h1, h2]
        rw [e] at h
        simp only [List.length_cons, Nat.add_lt_add_iff_right] at h
        obtain ⟨s, hs, hk⟩ := ih h
        exact ⟨s, List.mem_cons_of_mem _ hs, hk⟩

/-! ### separators and children inside the enumeration -/

theorem seps_mem_toList {d : Nat} {n : Node V} (hw : WF d n) : ∀ s ∈ n.seps, s ∈ toList d n := by
  cases d with
  | zero => intro s hs; exact hs
  | succ d =>
    intro s hs
    rw [toList_succ]
    obtain ⟨hlen, _⟩ := hw
    cases hc : n.children.map (toList d) with
    | nil => simp at hc; rw [hc] at hlen; simp at hlen
    | cons c cs =>
      have hl : n.seps.length ≤ cs.length := by
        have : (n.children.map (toList d)).length = n.seps.length + 1 := by simpa using hlen
        rw [hc] at this; simp at this; omega
      have : n.seps.Sublist (c ++ zipR n.seps cs) :=
        (zipR_sublist _ _ hl).trans (List.sublist_append_right c _)
      exact this.subset hs

theorem mem_zipL_seps {α : Type} {A : List (List α)} {S : List α} (h : A.length = S.length)
    {s : α} (hs : s ∈ S) : s ∈ zipL A S := by
  induction A generalizing S with
  | nil =>
    cases S with
    | nil => simp at hs
    | cons _ _ => simp at h
  | cons a A ih =>
    cases S with
    | nil => simp at hs
    | cons t S =>
      simp only [zipL, List.mem_append, List.mem_cons]
      rcases List.mem_cons.mp hs with e | e
      · exact Or.inr (Or.inl e)
      · exact Or.inr (Or.inr (ih (by simpa using h) e))

/-- the key range of child number `S1.length` inside the range `P` of its parent -/
def childRange (P : Key → Prop) (S1 S2 : List (Key × V)) (k : Key) : Prop :=
  P k ∧ (∀ s ∈ S1, keyLt s.1 k = true) ∧ (∀ s ∈ S2, keyLt k s.1 = true)

theorem childRange_conv {P : Key → Prop} (hP : Conv P) (S1 S2 : List (Key × V)) :
    Conv (childRange P S1 S2) := by
  intro a b k ha hb hak hbk
  refine ⟨hP a b k ha.1 hb.1 hak hbk, ?_, ?_⟩
  · intro s hs; exact keyLt_trans (ha.2.1 s hs) hak
  · intro s hs; exact keyLt_of_le_of_lt hbk (hb.2.2 s hs)

/-- Everything the descent into child `i` needs. -/
theorem child_pre {d lb : Nat} {seps : List (Key × V)} {cl : List (Node V)} {P : Key → Prop}
    (hp : Pre (d + 1) lb (.mk seps cl) P) (hP : Conv P) {k : Key}
    (hk : (position seps k).1 = false) (hPk : P k) :
    ∃ A c B S1 S2, cl = A ++ c :: B ∧ seps = S1 ++ S2 ∧ A.length = (position seps k).2 ∧
      S1.length = (position seps k).2 ∧
      Pre d MIDDLE c (childRange P S1 S2) ∧ childRange P S1 S2 k ∧
      ParentOK (some (seps, (position seps k).2)) (childRange P S1 S2) := by
  obtain ⟨hwf, hs, hocc, hlb1, hlb2, hrng⟩ := hp
  obtain ⟨hlen, hkids⟩ := hwf
  simp only [Node.children_mk, Node.seps_mk] at hlen hkids
  have hss : Sorted seps := seps_sorted (n := .mk seps cl) hlen hs
  obtain ⟨S1, S2, hseps, hS1, hb1, hb2⟩ := position_false hss hk
  have hi : (position seps k).2 ≤ seps.length := (position_spec hss k).1
  obtain ⟨A, c, B, hcl, hA, hB⟩ := split_children hlen hi
  have hAS : A.length = S1.length := by rw [hA, hS1]
  have htl := toList_node d A c B S1 S2 hAS
  rw [← hcl, ← hseps] at htl
  rw [htl] at hs hrng
  have hsc : Sorted (toList d c) :=
    (sorted_append.mp (sorted_append.mp hs).2.1).1
  have hBS : S2.length ≤ (B.map (toList d)).length := by
    have : (S1 ++ S2).length = seps.length := by rw [hseps]
    simp only [List.length_append, List.length_map] at this ⊢
    omega
  have hcm : c ∈ cl := by rw [hcl]; simp
  have hocc' : ∀ c ∈ cl, Occ MIDDLE d c := by
    have := hocc
    simp only [Occ, Node.children_mk] at this
    exact this.2.2
  refine ⟨A, c, B, S1, S2, hcl, hseps, hA, hS1, ⟨hkids c hcm, hsc, hocc' c hcm, Nat.le_refl _,
    fun _ => by decide, ?_⟩, ⟨hPk, hb1, hb2⟩, ?_⟩
  · -- elements of the child
    intro x hx
    refine ⟨hrng x (by simp [hx]), ?_, ?_⟩
    · intro s hs1
      have hsz : s ∈ zipL (A.map (toList d)) S1 :=
        mem_zipL_seps (by simpa using hAS) hs1
      exact (sorted_append.mp hs).2.2 s hsz x (by simp [hx])
    · intro s hs2
      have hsz : s ∈ zipR S2 (B.map (toList d)) := (zipR_sublist _ _ hBS).subset hs2
      exact (sorted_append.mp (sorted_append.mp hs).2.1).2.2 x hx s hsz
  · -- the parent test
    intro pseps p hpar prev k' hprev hlt hk1 hk2 hplen
    simp only [Option.some.injEq, Prod.mk.injEq] at hpar
    obtain ⟨rfl, rfl⟩ := hpar
    obtain ⟨_, q2, _, q4⟩ := position_spec hss k'
    have q4 := q4 hk1
    rw [hk2, ← hS1] at q2 q4
    have hlenS : seps.length = S1.length + S2.length := by rw [hseps]; simp
    have ht : seps.take S1.length = S1 := by rw [hseps]; simp
    have hd : seps.drop S1.length = S2 := by rw [hseps]; simp
    rw [ht] at q2
    rw [hd] at q4
    refine ⟨?_, q2, q4⟩
    -- S2 is not empty: its head is an element of the range above k'
    cases S2 with
    | nil =>
      simp only [List.length_nil] at hlenS
      omega
    | cons s0 S2 =>
      have hs0 : s0 ∈ seps := by rw [hseps]; simp
      have hP0 : P s0.1 := by
        have := seps_mem_toList (n := .mk seps cl) (d := d + 1) ⟨hlen, hkids⟩ s0 hs0
        rw [htl] at this
        exact hrng s0 this
      have hlt0 : keyLt k' s0.1 = true := q4 s0 List.mem_cons_self
      exact hP prev s0.1 k' hprev.1 hP0 hlt (keyLt_asymm hlt0)

/-! ### one `insert` / `on_existing` -/

theorem opB_nodescend (d : Nat) (cc : Parent V → Node V → List (Op V) → RetB V) (n : Node V)
    (a : Op V) (cs : List (Op V)) (h : (position n.seps a.key).1 = true ∨ d = 0) :
    opB d cc n a cs = ((change d n a).1, (change d n a).2, cs) := by
  cases a with
  | set k v =>
    simp only [Op.key] at h
    rcases h with h | h
    · simp [opB, change, Op.key, h]
    · subst h
      cases hp : (position n.seps k).1 <;> simp [opB, change, Op.key, hp]
  | del k =>
    simp only [Op.key] at h
    rcases h with h | h
    · cases d with
      | zero => simp [opB, change, Op.key, h]
      | succ d =>
        simp only [opB, change, Op.key, h]
        repeat' split
        all_goals simp_all
    · subst h
      cases hp : (position n.seps k).1 <;> simp [opB, change, Op.key, hp]

theorem opB_descend (d : Nat) (cc : Parent V → Node V → List (Op V) → RetB V) (n : Node V)
    (a : Op V) (cs : List (Op V)) (i : Nat) (child : Node V)
    (hp : position n.seps a.key = (false, i)) (hc : n.children[i]? = some child) :
    opB (d + 1) cc n a cs =
      ((afterChild (.mk n.seps (n.children.set i (cc (some (n.seps, i)) child cs).1)) i
          (cc (some (n.seps, i)) child cs).2.1).1,
       (afterChild (.mk n.seps (n.children.set i (cc (some (n.seps, i)) child cs).1)) i
          (cc (some (n.seps, i)) child cs).2.1).2,
       (cc (some (n.seps, i)) child cs).2.2) := by
  have h1 : (position n.seps a.key).1 = false := by rw [hp]
  have h2 : (position n.seps a.key).2 = i := by rw [hp]
  cases a with
  | set k v =>
    simp only [Op.key] at h1 h2
    simp only [opB, Op.key, h1, h2, hc]
  | del k =>
    simp only [Op.key] at h1 h2
    simp only [opB, Op.key, h1, h2, hc]

theorem skipDup_false {a : Op V} {rest : List (Op V)} (h : skipDup a rest = false) :
    Boundary a rest := by
  intro b hb
  cases rest with
  | nil => simp at hb
  | cons c r =>
    simp only [List.head?_cons, Option.some.injEq] at hb
    subst hb
    simpa [skipDup] using h

theorem opB_spec (d : Nat) (cc : Parent V → Node V → List (Op V) → RetB V)
    (hcc : ∀ d', d = d' + 1 → CCSpec d' cc) (lb : Nat) (n : Node V) (P : Key → Prop)
    (a : Op V) (rest : List (Op V)) (hp : Pre d lb n P) (hP : Conv P) (hPa : P a.key)
    (hst : OpsSorted (a :: rest)) (hskip : skipDup a rest = false) :
    GoodRet d n P (a :: rest) (opB d cc n a (a :: rest)) := by
  by_cases hnd : (position n.seps a.key).1 = true ∨ d = 0
  · rw [opB_nodescend d cc n a _ hnd]
    refine ⟨[a], a, rest, rfl, rfl, skipDup_false hskip, rfl, Run.one n a, ?_⟩
    intro op hop
    simp only [List.mem_singleton] at hop
    rw [hop]; exact hPa
  · have hk : (position n.seps a.key).1 = false := by
      cases h : (position n.seps a.key).1
      · rfl
      · exact absurd (Or.inl h) hnd
    obtain ⟨d', rfl⟩ : ∃ d', d = d' + 1 := by
      cases d with
      | zero => exact absurd (Or.inr rfl) hnd
      | succ d' => exact ⟨d', rfl⟩
    obtain ⟨seps, cl⟩ := n
    simp only [Node.seps_mk] at hk
    obtain ⟨A, c, B, S1, S2, hcl, hseps, hA, hS1, hpre, hPc, hpar⟩ := child_pre hp hP hk hPa
    generalize hi : (position seps a.key).2 = i at hA hS1 hpar
    have hc : (Node.mk seps cl).children[i]? = some c := by
      simp only [Node.children_mk, hcl]
      exact getElem?_mid hA
    have hpos : position (Node.mk seps cl).seps a.key = (false, i) := by
      simp only [Node.seps_mk]
      exact Prod.ext hk hi
    rw [opB_descend d' cc _ a _ i c hpos hc]
    obtain ⟨consumed, last, rest', e1, e2, e3, e4, hrun, hall⟩ :=
      hcc d' rfl MIDDLE c (some (seps, i)) (childRange P S1 S2) a rest hpre
        (childRange_conv hP S1 S2) hpar hst hPc
    refine ⟨consumed, last, rest', e1, e2, e3, e4, ?_, fun op hop => (hall op hop).1⟩
    refine hrun.replay (.mk seps cl) i hc ?_
    intro op hop
    obtain ⟨_, b1, b2⟩ := hall op ((dedupLast_sublist consumed).subset hop)
    simp only [Node.seps_mk]
    rw [hseps, ← hS1]
    exact position_of_bounds S1 S2 op.key b1 b2

/-! ### the loop -/

theorem loopB_cons (d : Nat) (cc : Parent V → Node V → List (Op V) → RetB V) (parent : Parent V)
    (fuel : Nat) (n : Node V) (a : Op V) (rest : List (Op V)) :
    loopB d cc parent (fuel + 1) n (a :: rest) =
      if skipDup a rest = true then loopB d cc parent fuel n rest
      else
        match (opB d cc n a (a :: rest)).2.1 with
        | .ok =>
          (match (opB d cc n a (a :: rest)).2.2 with
           | x :: nxt :: rest' =>
             if stays parent (opB d cc n a (a :: rest)).1 nxt.key then
               loopB d cc parent fuel (opB d cc n a (a :: rest)).1 (nxt :: rest')
             else ((opB d cc n a (a :: rest)).1, .ok, x :: nxt :: rest')
           | cs' => ((opB d cc n a (a :: rest)).1, .ok, cs'))
        | res => ((opB d cc n a (a :: rest)).1, res, (opB d cc n a (a :: rest)).2.2) := rfl

theorem stays_sound {parent : Parent V} {P : Key → Prop} (hP : Conv P) (hpar : ParentOK parent P)
    {d : Nat} {n : Node V} (hw : WF d n) (hrng : ∀ x ∈ toList d n, P x.1) {prev k : Key}
    (hprev : P prev) (hlt : keyLt prev k = true) (h : stays parent n k = true) : P k := by
  unfold stays at h
  cases parent with
  | none => simp at h
  | some pp =>
    obtain ⟨pseps, p⟩ := pp
    simp only at h
    by_cases hA : ((position n.seps k).1 || decide ((position n.seps k).2 < n.seps.length)) = true
    · have hA' : (position n.seps k).1 = true ∨ (position n.seps k).2 < n.seps.length := by
        simpa using hA
      obtain ⟨s, hs, hk⟩ := position_hit n.seps k hA'
      exact hP prev s.1 k hprev (hrng s (seps_mem_toList hw s hs)) hlt hk
    · rw [if_neg hA] at h
      simp only [Bool.and_eq_true, Bool.not_eq_true', decide_eq_true_eq] at h
      obtain ⟨⟨h1, h2⟩, h3⟩ := h
      exact hpar pseps p rfl prev k hprev hlt h1 h2 (by omega)

theorem loopB_spec (d : Nat) (cc : Parent V → Node V → List (Op V) → RetB V)
    (hcc : ∀ d', d = d' + 1 → CCSpec d' cc) (parent : Parent V) (P : Key → Prop) (hP : Conv P)
    (hpar : ParentOK parent P) (lb : Nat) :
    ∀ (fuel : Nat) (n : Node V) (a : Op V) (rest : List (Op V)), (a :: rest).length ≤ fuel →
      Pre d lb n P → OpsSorted (a :: rest) → P a.key →
      GoodRet d n P (a :: rest) (loopB d cc parent fuel n (a :: rest)) := by
  intro fuel
  induction fuel with
  | zero => intro n a rest hl; simp at hl
  | succ fuel ih =>
    intro n a rest hl hp hst hPa
    rw [loopB_cons]
    by_cases hskip : skipDup a rest = true
    · -- the earlier operation on the key is dropped
      rw [if_pos hskip]
      cases rest with
      | nil => simp [skipDup] at hskip
      | cons b rest' =>
        have hab : a.key = b.key := by simpa [skipDup] using hskip
        have hl' : (b :: rest').length ≤ fuel := by simp only [List.length_cons] at hl ⊢; omega
        obtain ⟨consumed, last, rest2, e1, e2, e3, e4, hrun, hall⟩ :=
          ih n b rest' hl' hp (List.pairwise_cons.mp hst).2 (by rw [← hab]; exact hPa)
        -- `consumed` starts with `b`
        obtain ⟨ct, hct⟩ : ∃ ct, consumed = b :: ct := by
          cases consumed with
          | nil => simp at e2
          | cons x ct =>
            simp only [List.cons_append, List.cons.injEq] at e1
            exact ⟨ct, by rw [e1.1]⟩
        refine ⟨a :: consumed, last, rest2, by rw [e1]; rfl, ?_, e3, e4, ?_, ?_⟩
        · rw [hct, List.getLast?_cons_cons, ← hct]; exact e2
        · rw [hct, dedupLast_cons_same a b ct hab, ← hct]; exact hrun
        · intro op hop
          rcases List.mem_cons.mp hop with h | h
          · rw [h]; exact hPa
          · exact hall op h
    · have hskip' : skipDup a rest = false := by
        cases h : skipDup a rest
        · rfl
        · exact absurd h hskip
      rw [if_neg hskip]
      obtain ⟨consumed, last, rest1, e1, e2, eb, e3, hrun, hall⟩ :=
        opB_spec d cc hcc lb n P a rest hp hP hPa hst hskip'
      generalize opB d cc n a (a :: rest) = ret at e3 hrun
      obtain ⟨n1, r1, cs1⟩ := ret
      simp only at e3 hrun
      subst e3
      cases r1 with
      | split sep right => exact ⟨consumed, last, rest1, e1, e2, eb, rfl, hrun, hall⟩
      | underflow => exact ⟨consumed, last, rest1, e1, e2, eb, rfl, hrun, hall⟩
      | stuck => exact ⟨consumed, last, rest1, e1, e2, eb, rfl, hrun, hall⟩
      | ok =>
        simp only
        cases rest1 with
        | nil => exact ⟨consumed, last, [], e1, e2, eb, rfl, hrun, hall⟩
        | cons nxt rest' =>
          simp only
          by_cases hs : stays parent n1 nxt.key = true
          · rw [if_pos hs]
            obtain ⟨i1, i2, i3, _, i5⟩ := hrun.inv rfl hp.wf hp.sorted hp.occ hp.lb1 hp.lb2
            have hrng1 : ∀ x ∈ toList d n1, P x.1 := by
              intro x hx
              rcases i5 x hx with e | ⟨o, ho, e⟩
              · exact hp.rng x e
              · rw [e]; exact hall o ((dedupLast_sublist consumed).subset ho)
            obtain ⟨ap0, hap0⟩ := getLast?_decomp e2
            have hlast : last ∈ consumed := by rw [hap0]; simp
            have hst' : OpsSorted (consumed ++ nxt :: rest') := by rw [← e1]; exact hst
            have hle : keyLt nxt.key last.key = false :=
              (List.pairwise_append.mp hst').2.2 last hlast nxt List.mem_cons_self
            have hlt : keyLt last.key nxt.key = true := keyLt_of_not hle (fun e => eb nxt rfl e.symm)
            have hPn : P nxt.key := stays_sound hP hpar i1 hrng1 (hall last hlast) hlt hs
            have hl' : (nxt :: rest').length ≤ fuel := by
              have : (a :: rest).length = consumed.length + (nxt :: rest').length := by
                rw [e1]; simp
              have : 0 < consumed.length := by rw [hap0]; simp
              omega
            obtain ⟨ap2, last2, rest2, f1, f2, fb, f3, hrun2, hall2⟩ :=
              ih n1 nxt rest' hl' ⟨i1, i2, i3, hp.lb1, hp.lb2, hrng1⟩
                (List.pairwise_append.mp hst').2.1 hPn
            -- `ap2` starts with `nxt`
            have hb2 : Boundary last ap2 := by
              intro b hb
              cases ap2 with
              | nil => simp at hb
              | cons x t =>
                simp only [List.cons_append, List.cons.injEq] at f1
                simp only [List.head?_cons, Option.some.injEq] at hb
                rw [← hb, ← f1.1]
                exact eb nxt rfl
            refine ⟨consumed ++ ap2, last2, rest2, ?_, ?_, fb, f3, ?_, ?_⟩
            · rw [e1, f1, List.append_assoc]
            · rw [List.getLast?_append, f2]; rfl
            · rw [dedupLast_append e2 hb2]
              exact hrun.append hrun2
            · intro op hop
              rcases List.mem_append.mp hop with h | h
              · exact hall op h
              · exact hall2 op h
          · rw [if_neg hs]
            exact ⟨consumed, last, nxt :: rest', e1, e2, eb, rfl, hrun, hall⟩

theorem changeB_spec : ∀ d : Nat, CCSpec d (changeB d : Parent V → Node V → List (Op V) → RetB V) := by
  intro d
  induction d with
  | zero =>
    intro lb n parent P a rest hp hP hpar hst hPa
    show GoodRet 0 n P (a :: rest) (loopB 0 _ parent (a :: rest).length n (a :: rest))
    exact loopB_spec 0 _ (fun d' h => by omega) parent P hP hpar lb _ n a rest (Nat.le_refl _) hp hst hPa
  | succ d ih =>
    intro lb n parent P a rest hp hP hpar hst hPa
    show GoodRet (d + 1) n P (a :: rest)
      (loopB (d + 1) (changeB d) parent (a :: rest).length n (a :: rest))
    exact loopB_spec (d + 1) _ (fun d' h => by
      have : d' = d := by omega
      subst this; exact ih) parent P hP hpar lb _ n a rest (Nat.le_refl _) hp hst hPa

/-! ### the root: `write_sorted_changes` -/

theorem writeSortedLoop_nil (fuel : Nat) (t : Tree V) : writeSortedLoop fuel t [] = (t, true) := by
  cases fuel <;> rfl

theorem writeSortedLoop_cons (fuel : Nat) (t : Tree V) (a : Op V) (rest : List (Op V)) :
    writeSortedLoop (fuel + 1) t (a :: rest) =
      if (finishRoot t.depth (changeB t.depth none t.root (a :: rest)).1
            (changeB t.depth none t.root (a :: rest)).2.1).2 = true then
        writeSortedLoop fuel
          (finishRoot t.depth (changeB t.depth none t.root (a :: rest)).1
            (changeB t.depth none t.root (a :: rest)).2.1).1
          (changeB t.depth none t.root (a :: rest)).2.2.tail
      else finishRoot t.depth (changeB t.depth none t.root (a :: rest)).1
            (changeB t.depth none t.root (a :: rest)).2.1 := rfl

theorem rootLb_pos (d : Nat) (h : 0 < d) : 1 ≤ rootLb d := by
  unfold rootLb
  rw [if_neg (by omega)]
  exact Nat.le_refl 1

theorem writeSortedLoop_eq : ∀ (fuel : Nat) (t : Tree V) (cs : List (Op V)), cs.length ≤ fuel →
    TreeWF t → TreeOcc t → OpsSorted cs →
    writeSortedLoop fuel t cs = applyList t (dedupLast cs) := by
  intro fuel
  induction fuel with
  | zero =>
    intro t cs hl _ _ _
    cases cs with
    | nil => rfl
    | cons a rest => simp at hl
  | succ fuel ih =>
    intro t cs hl hw ho hst
    cases cs with
    | nil => rfl
    | cons a rest =>
      have hpre : Pre t.depth (rootLb t.depth) t.root (fun _ => True) :=
        ⟨hw.1, hw.2, ho, rootLb_le _, rootLb_pos _, fun _ _ => trivial⟩
      obtain ⟨consumed, last, rest', e1, e2, eb, e3, hrun, _⟩ :=
        changeB_spec t.depth (rootLb t.depth) t.root none (fun _ => True) a rest hpre
          (fun _ _ _ _ _ _ _ => trivial) (fun _ _ h => by cases h) hst trivial
      rw [writeSortedLoop_cons]
      generalize changeB t.depth none t.root (a :: rest) = ret at e3 hrun
      rw [e3, List.tail_cons, e1, dedupLast_append e2 eb]
      have hap := hrun.toApplyList (dedupLast rest')
      have hnil := hrun.toApplyList_nil
      change applyList t (dedupLast consumed ++ dedupLast rest') = _ at hap
      change applyList t (dedupLast consumed) = _ at hnil
      rw [hap]
      by_cases hf : (finishRoot t.depth ret.1 ret.2.1).2 = true
      · rw [if_pos hf, if_pos hf]
        obtain ⟨o1, o2⟩ := applyList_occ (dedupLast consumed) t hw ho
        obtain ⟨_, w2⟩ := applyList_spec (dedupLast consumed) t hw o1
        rw [hnil] at o2 w2
        have hst' : OpsSorted (consumed ++ rest') := by rw [← e1]; exact hst
        have hl' : rest'.length ≤ fuel := by
          have : (a :: rest).length = consumed.length + rest'.length := by rw [e1]; simp
          obtain ⟨ap0, hap0⟩ := getLast?_decomp e2
          have : 0 < consumed.length := by rw [hap0]; simp
          omega
        exact ih _ rest' hl' w2 o2 (List.pairwise_append.mp hst').2.1
      · rw [if_neg hf, if_neg hf]

theorem dedupLast_strict {l : List (Op V)} (h : OpsStrict l) : dedupLast l = l := by
  induction l with
  | nil => rfl
  | cons a t ih =>
    cases t with
    | nil => rfl
    | cons b t =>
      have hab := (List.pairwise_cons.mp h).1 b List.mem_cons_self
      rw [dedupLast_cons_ne a b t (keyLt_ne hab), ih (List.pairwise_cons.mp h).2]

theorem OpsStrict.sorted {l : List (Op V)} (h : OpsStrict l) : OpsSorted l :=
  List.Pairwise.imp (fun hab => keyLt_asymm hab) h

/-- The batched `write_sorted_changes` on a key-sorted slice builds exactly the tree of the
    one-change-per-descent model applied to the last operation per key. -/
theorem writeSortedB_eq (t : Tree V) (cs : List (Op V)) (hw : TreeWF t) (ho : TreeOcc t)
    (hs : OpsSorted cs) : writeSortedB t cs = applyList t (dedupLast cs) :=
  writeSortedLoop_eq cs.length t cs (Nat.le_refl _) hw ho hs

theorem applyChangesB_eq (t : Tree V) (cs : List (Op V)) (h : treeInvB t = true) :
    applyChangesB t cs = applyChanges t cs := by
  obtain ⟨hw, ho⟩ := (treeInvB_iff t).mp h
  exact writeSortedB_eq t (stableSort cs) hw ho (stableSort_sorted cs)

end Pdb.C04
