/-
C06 helper lemmas, part 2: the size tiers (`SIZES`) and the tier selection of `Column::compress`.
-/
import Pdb.Model.ValueTable

namespace Pdb.ValueTable
open Pdb.Gen

set_option maxRecDepth 20000 in
theorem sizes_length : SIZES.length = SIZE_TIERS - 1 := by decide

set_option maxRecDepth 20000 in
theorem tableSizes_length : tableSizes.length = SIZE_TIERS := by decide

/-- adjacent entries of `SIZES` increase strictly (checked on the generated list) -/
def adjacentLt : List Nat → Bool
  | a :: b :: r => decide (a < b) && adjacentLt (b :: r)
  | _ => true

theorem adjacentLt_getD (l : List Nat) (h : adjacentLt l = true) (i : Nat) (hi : i + 1 < l.length) :
    l.getD i 0 < l.getD (i + 1) 0 := by
  induction l generalizing i with
  | nil => simp at hi
  | cons a r ih =>
    cases r with
    | nil => simp at hi
    | cons b r' =>
      simp only [adjacentLt, Bool.and_eq_true, decide_eq_true_eq] at h
      cases i with
      | zero => simpa using h.1
      | succ i =>
        have := ih h.2 i (by simp at hi ⊢; omega)
        simpa using this

set_option maxRecDepth 20000 in
theorem sizes_adjacentLt : adjacentLt SIZES = true := by decide

theorem sizes_adjacent : ∀ i, i + 1 < SIZES.length → SIZES.getD i 0 < SIZES.getD (i + 1) 0 :=
  adjacentLt_getD SIZES sizes_adjacentLt

theorem sizes_strict_mono_getD (i j : Nat) (hij : i < j) (hj : j < SIZES.length) :
    SIZES.getD i 0 < SIZES.getD j 0 := by
  induction j with
  | zero => omega
  | succ j ih =>
    have hadj := sizes_adjacent j hj
    by_cases h : i = j
    · subst h; exact hadj
    · exact Nat.lt_trans (ih (by omega) (by omega)) hadj

set_option maxRecDepth 20000 in
theorem sizes_range : ∀ s ∈ SIZES, MIN_ENTRY_SIZE ≤ s ∧ s ≤ MAX_ENTRY_SIZE := by decide

set_option maxRecDepth 20000 in
theorem max_size_mem : MAX_ENTRY_SIZE ∈ SIZES := by decide

theorem multipart_size_range :
    MIN_ENTRY_SIZE ≤ MULTIPART_ENTRY_SIZE ∧ MULTIPART_ENTRY_SIZE ≤ MAX_ENTRY_SIZE := by decide

theorem valueSizeOf_some (es : Nat) (rc : Bool) (key : TKey) (s : Nat)
    (h : valueSizeOf es rc key = some s) :
    s = es - SIZE_SIZE - (if rc = true then REFS_SIZE else 0) - key.encodedSize ∧
      key.encodedSize ≤ es - SIZE_SIZE - (if rc = true then REFS_SIZE else 0) := by
  unfold valueSizeOf at h
  by_cases hlt : es - SIZE_SIZE - (if rc = true then REFS_SIZE else 0) < key.encodedSize
  · simp only [hlt, if_true] at h
    exact absurd h (by simp)
  · simp only [hlt, if_false, Option.some.injEq] at h
    exact ⟨h.symm, by omega⟩

/-- what `tierFits` means -/
theorem tierFits_iff (rc : Bool) (key : TKey) (len es : Nat) :
    tierFits rc key len es = true ↔ ∃ s, valueSizeOf es rc key = some s ∧ len ≤ s := by
  unfold tierFits
  cases valueSizeOf es rc key <;> simp

theorem tierOfLen_lt (rc : Bool) (key : TKey) (len : Nat) : tierOfLen rc key len < SIZE_TIERS := by
  unfold tierOfLen
  cases h : tableSizes.findIdx? (tierFits rc key len) with
  | none => simp [tableSizes_length]; decide
  | some i =>
    obtain ⟨hlt, _⟩ := List.findIdx?_eq_some_iff_getElem.mp h
    rw [tableSizes_length] at hlt
    simpa using hlt

/-- no earlier table fits -/
theorem tierOfLen_minimal (rc : Bool) (key : TKey) (len : Nat) (j : Nat)
    (hj : j < tierOfLen rc key len) : tierFits rc key len (tableSizes.getD j 0) = false := by
  unfold tierOfLen at hj
  cases h : tableSizes.findIdx? (tierFits rc key len) with
  | none =>
    rw [h] at hj
    have hjl : j < tableSizes.length := by simp at hj; omega
    have := List.findIdx?_eq_none_iff.mp h (tableSizes.getD j 0)
      (by rw [List.getD_eq_getElem?_getD, List.getElem?_eq_getElem hjl]; simp)
    exact this
  | some i =>
    rw [h] at hj
    simp at hj
    obtain ⟨hlt, _, hmin⟩ := List.findIdx?_eq_some_iff_getElem.mp h
    have := hmin j hj
    have hjl : j < tableSizes.length := by omega
    rw [List.getD_eq_getElem?_getD, List.getElem?_eq_getElem hjl]
    simpa using this

/-- the chosen table fits unless it is the last (multipart) one -/
theorem tierOfLen_fits (rc : Bool) (key : TKey) (len : Nat)
    (h : tierOfLen rc key len < SIZE_TIERS - 1) :
    tierFits rc key len (tableSizes.getD (tierOfLen rc key len) 0) = true := by
  unfold tierOfLen at h ⊢
  cases hf : tableSizes.findIdx? (tierFits rc key len) with
  | none => rw [hf] at h; simp [tableSizes_length] at h
  | some i =>
    obtain ⟨hlt, hp, _⟩ := List.findIdx?_eq_some_iff_getElem.mp hf
    simp only [Option.getD_some]
    rw [List.getD_eq_getElem?_getD, List.getElem?_eq_getElem hlt]
    simpa using hp

theorem tableSizes_getD_lt (i : Nat) (h : i < SIZE_TIERS - 1) :
    tableSizes.getD i 0 = SIZES.getD i 0 := by
  have hl : i < SIZES.length := by rw [sizes_length]; exact h
  unfold tableSizes
  rw [List.getD_eq_getElem?_getD, List.getD_eq_getElem?_getD, List.getElem?_append_left hl]

end Pdb.ValueTable
