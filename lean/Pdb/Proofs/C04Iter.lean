/-
C04 (a): the iterator merge machine answers every step against `merged overlay backend`.

Invariant `Inv` (per iterator state, relative to the backend `beOf s.rid` the cursor was
built for):
  * a cached `pending_backend` item is the last answer of the cursor
    (`cur = curAfter pending.item`);
  * in each direction `d` in which the position is not the far edge (Start going backward,
    End going forward) the backend candidate the next call will use - the cached item if
    its direction is `d`, the cursor's answer otherwise - is the backend's first entry
    beyond `last_key` in direction `d`.
The invariant does not mention the commit overlay, so it survives arbitrary overlay
changes between calls; a backend change comes with a new record id, which makes the
machine drop the cache and re-position the cursor from `last_key`.
-/
import Pdb.Proofs.C04Order

namespace Pdb.C04
variable {V : Type}

/-! ### overlay and cursor answers as `pick` -/

theorem ovStep_eq (d : Dir) (ov : List (Key × Option V)) (L : LastKey) :
    ovStep d ov L = pick d (fun e => cand d L e.1) ov := by
  cases d <;> cases L <;> simp only [ovStep, ovNext, ovPrev, pick, cand, after, before]
  · exact head?_eq_first ov
  · exact (first_none.mpr (fun _ _ => rfl)).symm
  · exact (last_none.mpr (fun _ _ => rfl)).symm
  · exact getLast?_eq_last ov

/-- The backend's first entry beyond position `L` in direction `d`. -/
def beAns (d : Dir) (be : List (Key × V)) (L : LastKey) : Option (Key × V) :=
  pick d (fun e => cand d L e.1) be

/-- The logical position a cursor stands for, per direction. -/
def curPos : Cur → Dir → LastKey
  | .fresh, .fwd => .start
  | .fresh, .bwd => .end_
  | .incl k, _ => .seeked k
  | .excl k, _ => .at k
  | .afterAll, _ => .end_

theorem curAns_eq (be : List (Key × V)) (c : Cur) (d : Dir) :
    curAns be c d = beAns d be (curPos c d) := by
  cases c <;> cases d <;> simp only [curAns, beAns, curPos, pick, cand, after, before]
  · exact head?_eq_first be
  · exact getLast?_eq_last be
  · exact (first_none.mpr (fun _ _ => rfl)).symm
  · exact getLast?_eq_last be

def atEdge : Dir → LastKey → Bool
  | .bwd, .start => true
  | .fwd, .end_ => true
  | _, _ => false

theorem curAns_reseek (be : List (Key × V)) (L : LastKey) (d : Dir) (h : atEdge d L = false) :
    curAns be (reseek L) d = beAns d be L := by
  cases L with
  | start =>
    cases d with
    | bwd => simp [atEdge] at h
    | fwd =>
      simp only [reseek, curSeek, curAns, beAns, pick, cand, after]
      congr 1
      funext e
      simp [keyLt_nil_right]
  | end_ =>
    cases d with
    | fwd => simp [atEdge] at h
    | bwd =>
      simp only [reseek, curSeek, curAns, beAns, pick, cand, before]
      exact getLast?_eq_last be
  | «at» k => cases d <;> rfl
  | seeked k => cases d <;> rfl

/-! ### direction algebra -/

def opp : Dir → Dir
  | .fwd => .bwd
  | .bwd => .fwd

theorem dirLt_opp (d : Dir) (a b : Key) : dirLt (opp d) a b = dirLt d b a := by
  cases d <;> rfl

theorem eq_or_opp (d d' : Dir) : d' = d ∨ d' = opp d := by
  cases d <;> cases d' <;> simp [opp]

theorem pick_congr {α : Type} (d : Dir) {p q : α → Bool} {l : List α}
    (h : ∀ x ∈ l, p x = q x) : pick d p l = pick d q l := by
  cases d
  · simp only [pick]
    induction l with
    | nil => rfl
    | cons a l ih =>
      simp only [first]
      rw [h a (List.mem_cons.mpr (Or.inl rfl)), ih (fun x hx => h x (List.mem_cons_of_mem _ hx))]
  · simp only [pick]
    induction l with
    | nil => rfl
    | cons a l ih =>
      simp only [last]
      rw [h a (List.mem_cons.mpr (Or.inl rfl)), ih (fun x hx => h x (List.mem_cons_of_mem _ hx))]

/-! ### the invariant -/

/-- The backend candidate a call in direction `d` will use. -/
def ansOf (be : List (Key × V)) (s : IterSt V) (d : Dir) : Option (Key × V) :=
  match s.pending with
  | some p => if p.dir = d then p.item else curAns be s.cur d
  | none => curAns be s.cur d

structure Inv (beOf : Nat → List (Key × V)) (s : IterSt V) : Prop where
  pend : ∀ p, s.pending = some p → s.cur = curAfter p.item
  ans : ∀ d, atEdge d s.lastKey = false →
    ansOf (beOf s.rid) s d = beAns d (beOf s.rid) s.lastKey

theorem Inv.new (beOf : Nat → List (Key × V)) (rid : Nat) : Inv beOf (IterSt.new rid) := by
  refine ⟨fun p h => by simp [IterSt.new] at h, ?_⟩
  intro d hd
  cases d with
  | bwd => simp [IterSt.new, atEdge] at hd
  | fwd => simp only [IterSt.new, ansOf]; exact curAns_eq _ _ _

theorem Inv.seek (beOf : Nat → List (Key × V)) (s : IterSt V) (rid : Nat) (k : Key) :
    Inv beOf (seek s rid k) := by
  refine ⟨fun p h => by simp [C04.seek] at h, ?_⟩
  intro d _
  simp only [C04.seek, ansOf, curSeek]
  exact curAns_eq _ _ _

theorem Inv.seekToLast (beOf : Nat → List (Key × V)) (s : IterSt V) (rid : Nat) :
    Inv beOf (seekToLast patched s rid) := by
  refine ⟨fun p h => by simp [C04.seekToLast, patched] at h, ?_⟩
  intro d hd
  cases d with
  | fwd => simp [C04.seekToLast, atEdge] at hd
  | bwd => simp only [C04.seekToLast, patched, if_true, ansOf, curSeek]; exact curAns_eq _ _ _

/-! ### first half of a pass: the backend candidate -/

theorem backendItem_spec (beOf : Nat → List (Key × V)) (rid : Nat) (d : Dir) (s : IterSt V)
    (hinv : Inv beOf s) (hedge : atEdge d s.lastKey = false) :
    (backendItem (beOf rid) rid d s).1 = beAns d (beOf rid) s.lastKey ∧
    (backendItem (beOf rid) rid d s).2.cur = curAfter (backendItem (beOf rid) rid d s).1 ∧
    (backendItem (beOf rid) rid d s).2.rid = rid ∧
    (backendItem (beOf rid) rid d s).2.pending = none ∧
    (backendItem (beOf rid) rid d s).2.lastKey = s.lastKey := by
  by_cases hr : rid = s.rid
  · -- same record id: cached item or cursor
    have hans := hinv.ans d hedge
    rw [← hr] at hans
    cases hp : s.pending with
    | none =>
      have : backendItem (beOf rid) rid d s =
          (curAns (beOf rid) s.cur d,
            { s with pending := none, cur := curAfter (curAns (beOf rid) s.cur d), rid := rid }) := by
        simp [backendItem, hr, hp, nextBackend]
      rw [this]
      simp only [ansOf, hp] at hans
      exact ⟨hans, rfl, rfl, rfl, rfl⟩
    | some p =>
      by_cases hd : p.dir = d
      · have : backendItem (beOf rid) rid d s = (p.item, { s with pending := none }) := by
          simp [backendItem, hr, hp, hd]
        rw [this]
        simp only [ansOf, hp, hd, if_true] at hans
        exact ⟨hans, hinv.pend p hp, hr.symm, rfl, rfl⟩
      · have : backendItem (beOf rid) rid d s =
            (curAns (beOf rid) s.cur d,
              { s with pending := none, cur := curAfter (curAns (beOf rid) s.cur d), rid := rid }) := by
          simp [backendItem, hr, hp, hd, nextBackend]
        rw [this]
        simp only [ansOf, hp, hd, if_false] at hans
        exact ⟨hans, rfl, rfl, rfl, rfl⟩
  · -- record id changed: cache dropped, cursor re-positioned from `last_key`
    have : backendItem (beOf rid) rid d s =
        (curAns (beOf rid) (reseek s.lastKey) d,
          { s with pending := none, cur := curAfter (curAns (beOf rid) (reseek s.lastKey) d),
                   rid := rid }) := by
      simp [backendItem, hr, nextBackend]
    rw [this]
    exact ⟨curAns_reseek _ _ _ hedge, rfl, rfl, rfl, rfl⟩


/-! ### facts about the least candidate, in terms of `lookup` -/

variable {β : Type}

theorem pick_lookup {d : Dir} {L : LastKey} {l : List (Key × β)} {k : Key} {b : β}
    (hs : Sorted l) (h : pick d (fun e => cand d L e.1) l = some (k, b)) :
    lookup l k = some b ∧ cand d L k = true ∧
    (∀ k', cand d L k' = true → dirLt d k' k = true → lookup l k' = none) ∧
    (∀ x ∈ l, cand d L x.1 = true → dirLt d x.1 k = false) := by
  have h' := (pick_some hs).mp h
  refine ⟨(mem_iff_lookup hs k b).mp h'.1, h'.2.1, ?_, h'.2.2⟩
  intro k' hc hlt
  apply lookup_none.mpr
  intro x hx hxk
  have := h'.2.2 x hx (by rw [hxk]; exact hc)
  rw [hxk, hlt] at this
  exact absurd this (by decide)

theorem pick_none_lookup {d : Dir} {L : LastKey} {l : List (Key × β)}
    (h : pick d (fun e => cand d L e.1) l = none) :
    ∀ k', cand d L k' = true → lookup l k' = none := by
  intro k' hc
  apply lookup_none.mpr
  intro x hx hxk
  have := pick_none.mp h x hx
  simp only [hxk, hc] at this
  exact absurd this (by decide)

/-- Moving the position forward to a key `ck` that lies before the backend's least candidate
    does not change that candidate. -/
theorem beAns_shift {d : Dir} {L : LastKey} {be : List (Key × V)} (hs : Sorted be) {ck : Key}
    (hck : cand d L ck = true)
    (hb : ∀ e, beAns d be L = some e → dirLt d ck e.1 = true) :
    beAns d be (.at ck) = beAns d be L := by
  unfold beAns at *
  cases h : pick d (fun e => cand d L e.1) be with
  | none =>
    apply pick_none.mpr
    intro x hx
    have : cand d L x.1 = false := pick_none.mp h x hx
    show cand d (.at ck) x.1 = false
    rw [cand_at]
    cases hc : dirLt d ck x.1 with
    | false => rfl
    | true => rw [cand_mono hck hc] at this; exact absurd this (by decide)
  | some e =>
    have h' := (pick_some hs).mp h
    apply (pick_some hs).mpr
    refine ⟨h'.1, ?_, ?_⟩
    · simp only [cand_at]; exact hb e h
    · intro x hx hcx
      simp only [cand_at] at hcx
      exact h'.2.2 x hx (cand_mono hck hcx)

/-- The cursor left after the backend's least candidate beyond `L` was taken answers, in the
    opposite direction, as if it stood at any key `ck` between `L` and that candidate. -/
theorem curAfter_opp {d : Dir} {L : LastKey} {be : List (Key × V)} (hs : Sorted be) {ck : Key}
    (hck : cand d L ck = true)
    (hb : ∀ e, beAns d be L = some e → dirLt d ck e.1 = true) :
    curAns be (curAfter (beAns d be L)) (opp d) = beAns (opp d) be (.at ck) := by
  rw [curAns_eq]
  unfold beAns at *
  apply pick_congr
  intro x hx
  simp only [cand_at, dirLt_opp]
  cases h : pick d (fun e => cand d L e.1) be with
  | none =>
    have hn : cand d L x.1 = false := pick_none.mp h x hx
    have h1 : dirLt d x.1 ck = true := dirLt_of_not_cand hn hck
    rw [h1]
    cases d <;> rfl
  | some e =>
    have h' := (pick_some hs).mp h
    have hlt := hb e h
    simp only [curAfter, curPos, cand_at, dirLt_opp]
    cases hx1 : dirLt d x.1 ck with
    | true => exact dirLt_trans hx1 hlt
    | false =>
      cases hx2 : dirLt d x.1 e.1 with
      | false => rfl
      | true =>
        -- x is a candidate of L (it is not before ck), so it cannot be before e
        have hcx : cand d L x.1 = true := by
          by_cases hxe : x.1 = ck
          · rw [hxe]; exact hck
          · exact cand_mono hck (dirLt_of_not hx1 hxe)
        have := h'.2.2 x hx hcx
        rw [hx2] at this; exact absurd this (by decide)

/-! ### re-establishing the invariant at the end of a pass -/

/-- The result (or the continuation key) is the backend candidate itself. -/
theorem Inv.at_backend (beOf : Nat → List (Key × V)) (s : IterSt V) (k : Key)
    (hcur : s.cur = .excl k) (hp : s.pending = none) : Inv beOf { s with lastKey := .at k } := by
  refine ⟨fun p h => by simp [hp] at h, ?_⟩
  intro d _
  simp only [ansOf, hp, hcur]
  exact curAns_eq _ _ _

/-- The result (or the continuation key) `ck` is an overlay key lying before the backend
    candidate `b`, which is cached. -/
theorem Inv.at_overlay (beOf : Nat → List (Key × V)) (s : IterSt V) (d : Dir) (L : LastKey)
    (ck : Key) (b : Option (Key × V)) (rid : Nat) (hrid : s.rid = rid)
    (hs : Sorted (beOf rid)) (hck : cand d L ck = true)
    (hbeq : b = beAns d (beOf rid) L)
    (hb : ∀ e, b = some e → dirLt d ck e.1 = true)
    (hcur : s.cur = curAfter b) :
    Inv beOf { lastKey := .at ck, pending := some { item := b, dir := d }, cur := s.cur,
               rid := s.rid } := by
  subst hrid
  subst hbeq
  refine ⟨?_, ?_⟩
  · intro p h
    simp only [Option.some.injEq] at h
    subst h
    exact hcur
  · intro d' _
    simp only [ansOf]
    rcases eq_or_opp d d' with rfl | rfl
    · simp only [if_true]
      exact (beAns_shift hs hck hb).symm
    · have : ¬ d = opp d := by cases d <;> simp [opp]
      simp only [this, if_false, hcur]
      exact curAfter_opp hs hck hb

/-- Both sources are exhausted: position at the far edge, `None` cached. -/
theorem Inv.at_edge (beOf : Nat → List (Key × V)) (s : IterSt V) (d : Dir)
    (hcur : s.cur = .fresh) :
    Inv beOf { s with pending := some { item := none, dir := d },
                      lastKey := match d with
                                 | .bwd => .start
                                 | .fwd => .end_ } := by
  refine ⟨?_, ?_⟩
  · intro p h
    simp only [Option.some.injEq] at h
    subst h
    exact hcur
  · intro d' hd'
    cases d <;> cases d'
    · simp [atEdge] at hd'
    · simp only [ansOf, hcur, reduceCtorEq, if_false]
      exact curAns_eq _ _ _
    · simp only [ansOf, hcur, reduceCtorEq, if_false]
      exact curAns_eq _ _ _
    · simp [atEdge] at hd'

/-! ### answers against the merged map -/

/-- `r` is the first live entry beyond `L` in direction `d` of the map `mget ov be`. -/
def IsAns (d : Dir) (ov : List (Key × Option V)) (be : List (Key × V)) (L : LastKey)
    (r : Option (Key × V)) : Prop :=
  (∀ k v, r = some (k, v) → mget ov be k = some v ∧ cand d L k = true ∧
      ∀ k' v', mget ov be k' = some v' → cand d L k' = true → dirLt d k' k = false) ∧
  (r = none → ∀ k' v', mget ov be k' = some v' → cand d L k' = false)

/-- No live candidate of `L` lies strictly before `k`. -/
def NoLiveBefore (d : Dir) (ov : List (Key × Option V)) (be : List (Key × V)) (L : LastKey)
    (k : Key) : Prop :=
  ∀ k' v', mget ov be k' = some v' → cand d L k' = true → dirLt d k' k = false

theorem IsAns.of_least {d : Dir} {ov : List (Key × Option V)} {be : List (Key × V)}
    {L : LastKey} {k : Key} {v : V} (hl : mget ov be k = some v) (hc : cand d L k = true)
    (hn : NoLiveBefore d ov be L k) : IsAns d ov be L (some (k, v)) := by
  refine ⟨?_, fun h => by simp at h⟩
  intro k0 v0 h
  simp only [Option.some.injEq, Prod.mk.injEq] at h
  obtain ⟨rfl, rfl⟩ := h
  exact ⟨hl, hc, hn⟩

/-- A removed (or absent) key `ck` with no live candidate before it can be skipped. -/
theorem IsAns.continue {d : Dir} {ov : List (Key × Option V)} {be : List (Key × V)}
    {L : LastKey} {ck : Key} {r : Option (Key × V)} (hdead : mget ov be ck = none)
    (hc : cand d L ck = true) (hn : NoLiveBefore d ov be L ck)
    (h : IsAns d ov be (.at ck) r) : IsAns d ov be L r := by
  have key : ∀ k' v', mget ov be k' = some v' → cand d L k' = true →
      cand d (.at ck) k' = true := by
    intro k' v' hl hc'
    rw [cand_at]
    have h1 := hn k' v' hl hc'
    by_cases e : k' = ck
    · subst e; rw [hdead] at hl; exact absurd hl (by simp)
    · exact dirLt_of_not h1 e
  refine ⟨?_, ?_⟩
  · intro k v hr
    obtain ⟨h1, h2, h3⟩ := h.1 k v hr
    rw [cand_at] at h2
    refine ⟨h1, cand_mono hc h2, ?_⟩
    intro k' v' hl hc'
    exact h3 k' v' hl (key k' v' hl hc')
  · intro hr k' v' hl
    cases hc' : cand d L k' with
    | false => rfl
    | true =>
      have := h.2 hr k' v' hl
      rw [key k' v' hl hc'] at this
      exact absurd this (by decide)

theorem IsAns.none {d : Dir} {ov : List (Key × Option V)} {be : List (Key × V)} {L : LastKey}
    (h : ∀ k' v', mget ov be k' = some v' → cand d L k' = false) : IsAns d ov be L none :=
  ⟨fun k v h => by simp at h, fun _ => h⟩

/-- `IsAns` determines the answer: it is the `specAns` on the merged list. -/
theorem IsAns.eq_spec {d : Dir} {ov : List (Key × Option V)} {be : List (Key × V)}
    {L : LastKey} {r : Option (Key × V)} (ho : Sorted ov) (hb : Sorted be)
    (h : IsAns d ov be L r) : r = specAns d (merged ov be) L := by
  have hm := sorted_merged ov hb
  unfold specAns
  cases r with
  | none =>
    symm
    apply pick_none.mpr
    intro x hx
    exact h.2 rfl x.1 x.2 ((mem_merged ho hb x.1 x.2).mp hx)
  | some e =>
    obtain ⟨k, v⟩ := e
    obtain ⟨h1, h2, h3⟩ := h.1 k v rfl
    symm
    apply (pick_some hm).mpr
    refine ⟨(mem_merged ho hb k v).mpr h1, h2, ?_⟩
    intro x hx hcx
    exact h3 x.1 x.2 ((mem_merged ho hb x.1 x.2).mp hx) hcx


/-! ### the loop -/

/-- Number of overlay entries beyond `L`: bounds the number of passes of the `loop`. -/
def candCount (d : Dir) (ov : List (Key × Option V)) (L : LastKey) : Nat :=
  (ov.filter (fun e => cand d L e.1)).length

theorem filter_length_le {α : Type} {p q : α → Bool} {l : List α}
    (himp : ∀ x ∈ l, q x = true → p x = true) :
    (l.filter q).length ≤ (l.filter p).length := by
  induction l with
  | nil => simp
  | cons a l ih =>
    have ih' := ih (fun x hx => himp x (List.mem_cons_of_mem _ hx))
    have ha := himp a (List.mem_cons.mpr (Or.inl rfl))
    simp only [List.filter_cons]
    by_cases hq : q a = true
    · simp only [hq, ha hq, if_true, List.length_cons]; omega
    · by_cases hp : p a = true
      · simp only [hq, hp, if_true, List.length_cons]; simp only [Bool.false_eq_true, if_false]; omega
      · simp only [hq, hp]; exact ih'

theorem filter_length_lt {α : Type} {p q : α → Bool} {l : List α}
    (himp : ∀ x ∈ l, q x = true → p x = true) (x : α) (hx : x ∈ l) (hpx : p x = true)
    (hqx : q x = false) : (l.filter q).length < (l.filter p).length := by
  induction l with
  | nil => cases hx
  | cons a l ih =>
    have himp' : ∀ x ∈ l, q x = true → p x = true := fun x hx => himp x (List.mem_cons_of_mem _ hx)
    have hle := filter_length_le himp'
    have ha := himp a (List.mem_cons.mpr (Or.inl rfl))
    simp only [List.filter_cons]
    rcases List.mem_cons.mp hx with rfl | hx'
    · simp only [hpx, hqx, if_true, List.length_cons]
      simp only [Bool.false_eq_true, if_false]; omega
    · have ih' := ih himp' hx'
      by_cases hq : q a = true
      · simp only [hq, ha hq, if_true, List.length_cons]; omega
      · by_cases hp : p a = true
        · simp only [hq, hp, if_true, List.length_cons]
          simp only [Bool.false_eq_true, if_false]; omega
        · simp only [hq, hp]; exact ih'

theorem candCount_lt {d : Dir} {L : LastKey} {ov : List (Key × Option V)} {ck : Key}
    {cv : Option V} (hm : (ck, cv) ∈ ov) (hc : cand d L ck = true) :
    candCount d ov (.at ck) < candCount d ov L := by
  unfold candCount
  apply filter_length_lt (x := (ck, cv)) _ hm hc
  · show cand d (.at ck) ck = false
    rw [cand_at, dirLt_irrefl]
  · intro x _ hx
    rw [cand_at] at hx
    exact cand_mono hc hx

theorem candCount_le_length (d : Dir) (ov : List (Key × Option V)) (L : LastKey) :
    candCount d ov L ≤ ov.length := List.length_filter_le _ _

theorem noLive_of_lookups {d : Dir} {ov : List (Key × Option V)} {be : List (Key × V)}
    {L : LastKey} {k : Key}
    (h1 : ∀ k', cand d L k' = true → dirLt d k' k = true → lookup ov k' = none)
    (h2 : ∀ k', cand d L k' = true → dirLt d k' k = true → lookup be k' = none) :
    NoLiveBefore d ov be L k := by
  intro k' v' hl hc
  cases h : dirLt d k' k with
  | false => rfl
  | true =>
    simp only [mget, h1 k' hc h, h2 k' hc h] at hl
    exact absurd hl (by simp)

theorem finish_fst (d : Dir) (s : IterSt V) (r : Option (Key × V)) :
    (finish d s r).1 = { s with lastKey := posAfter d s.lastKey r } := by
  cases r <;> cases d <;> rfl

theorem finish_snd (d : Dir) (s : IterSt V) (r : Option (Key × V)) :
    (finish d s r).2 = .ok r := rfl

theorem atEdge_at (d : Dir) (k : Key) : atEdge d (.at k) = false := by cases d <;> rfl

/-- Every pass of the loop either returns the first live entry beyond the position or
    advances the position over a removed overlay key; the fuel is never exhausted. -/
theorem iterLoop_spec (beOf : Nat → List (Key × V)) (ov : List (Key × Option V)) (rid : Nat)
    (d : Dir) (hov : Sorted ov) (hbe : Sorted (beOf rid)) :
    ∀ (fuel : Nat) (s : IterSt V), Inv beOf s → atEdge d s.lastKey = false →
      candCount d ov s.lastKey < fuel →
      ∃ r, (iterLoop ov (beOf rid) rid d fuel s).2 = .ok r ∧
        IsAns d ov (beOf rid) s.lastKey r ∧
        Inv beOf (iterLoop ov (beOf rid) rid d fuel s).1 ∧
        (iterLoop ov (beOf rid) rid d fuel s).1.lastKey = posAfter d s.lastKey r := by
  intro fuel
  induction fuel with
  | zero => intro s _ _ h; exact absurd h (Nat.not_lt_zero _)
  | succ fuel ih =>
    intro s hinv hedge hfuel
    obtain ⟨hb1, hb2, hb3, hb4, hb5⟩ := backendItem_spec beOf rid d s hinv hedge
    have ho0 := ovStep_eq d ov s.lastKey
    rw [iterLoop]
    generalize hbs : backendItem (beOf rid) rid d s = bs at hb1 hb2 hb3 hb4 hb5
    obtain ⟨b, s1⟩ := bs
    simp only at hb1 hb2 hb3 hb4 hb5
    generalize ho : ovStep d ov s.lastKey = o at ho0
    simp only []
    -- the recursive call, packaged
    have recur : ∀ (ck : Key) (cv : Option V) (s' : IterSt V), (ck, cv) ∈ ov →
        cand d s.lastKey ck = true → s'.lastKey = .at ck → Inv beOf s' →
        mget ov (beOf rid) ck = none → NoLiveBefore d ov (beOf rid) s.lastKey ck →
        ∃ r, (iterLoop ov (beOf rid) rid d fuel s').2 = .ok r ∧
          IsAns d ov (beOf rid) s.lastKey r ∧
          Inv beOf (iterLoop ov (beOf rid) rid d fuel s').1 ∧
          (iterLoop ov (beOf rid) rid d fuel s').1.lastKey = posAfter d s.lastKey r := by
      intro ck cv s' hm hc hl hi hdead hnl
      have hcnt : candCount d ov s'.lastKey < fuel := by
        rw [hl]
        have := candCount_lt hm hc
        omega
      obtain ⟨r, h1, h2, h3, h4⟩ := ih s' hi (by rw [hl]; exact atEdge_at d ck) hcnt
      rw [hl] at h2
      exact ⟨r, h1, IsAns.continue hdead hc hnl h2, h3, h4⟩
    cases o with
    | none =>
      have hon := pick_none_lookup ho0.symm
      cases b with
      | none =>
        -- both exhausted
        have hbn := pick_none_lookup (L := s.lastKey) (d := d) hb1.symm
        refine ⟨none, rfl, ?_, ?_, ?_⟩
        · apply IsAns.none
          intro k' v' hl
          cases hc : cand d s.lastKey k' with
          | false => rfl
          | true =>
            simp only [mget, hon k' hc, hbn k' hc] at hl
            exact absurd hl (by simp)
        · rw [finish_fst]
          have := Inv.at_edge beOf s1 d hb2
          cases d <;> exact this
        · rw [finish_fst]; rfl
      | some e =>
        obtain ⟨bk, bv⟩ := e
        obtain ⟨hl1, hl2, hl3, _⟩ := pick_lookup hbe hb1.symm
        refine ⟨some (bk, bv), rfl, ?_, ?_, ?_⟩
        · apply IsAns.of_least
          · simp only [mget, hon bk hl2, hl1]
          · exact hl2
          · exact noLive_of_lookups (fun k' hc _ => hon k' hc) hl3
        · rw [finish_fst]
          exact Inv.at_backend beOf s1 bk hb2 hb4
        · rw [finish_fst]; rfl
    | some oe =>
      obtain ⟨ck, cv⟩ := oe
      obtain ⟨ho1, ho2, ho3, _⟩ := pick_lookup hov ho0.symm
      have hmem : (ck, cv) ∈ ov := (mem_iff_lookup hov ck cv).mpr ho1
      cases b with
      | none =>
        have hbn := pick_none_lookup (L := s.lastKey) (d := d) hb1.symm
        have hnl : NoLiveBefore d ov (beOf rid) s.lastKey ck :=
          noLive_of_lookups ho3 (fun k' hc _ => hbn k' hc)
        have hinv' : Inv beOf { lastKey := .at ck, pending := some { item := none, dir := d },
                                cur := s1.cur, rid := s1.rid } :=
          Inv.at_overlay beOf s1 d s.lastKey ck none rid hb3 hbe ho2 hb1
            (fun e h => by simp at h) hb2
        cases cv with
        | none =>
          simp only []
          exact recur ck none _ hmem ho2 rfl hinv' (by simp only [mget, ho1]) hnl
        | some v =>
          simp only []
          refine ⟨some (ck, v), rfl, ?_, ?_, ?_⟩
          · exact IsAns.of_least (by simp only [mget, ho1]) ho2 hnl
          · rw [finish_fst]; exact hinv'
          · rw [finish_fst]; rfl
      | some e =>
        obtain ⟨bk, bv⟩ := e
        obtain ⟨hl1, hl2, hl3, _⟩ := pick_lookup hbe hb1.symm
        simp only []
        by_cases hlt : dirLt d ck bk = true
        · -- overlay key first; backend item cached
          rw [if_pos hlt]
          have hnl : NoLiveBefore d ov (beOf rid) s.lastKey ck :=
            noLive_of_lookups ho3 (fun k' hc h => hl3 k' hc (dirLt_trans h hlt))
          have hinv' : Inv beOf { lastKey := .at ck,
                                  pending := some { item := some (bk, bv), dir := d },
                                  cur := s1.cur, rid := s1.rid } :=
            Inv.at_overlay beOf s1 d s.lastKey ck (some (bk, bv)) rid hb3 hbe ho2 hb1
              (fun e h => by cases h; exact hlt) hb2
          cases cv with
          | none =>
            simp only []
            exact recur ck none _ hmem ho2 rfl hinv' (by simp only [mget, ho1]) hnl
          | some v =>
            simp only []
            refine ⟨some (ck, v), rfl, ?_, ?_, ?_⟩
            · exact IsAns.of_least (by simp only [mget, ho1]) ho2 hnl
            · rw [finish_fst]; exact hinv'
            · rw [finish_fst]; rfl
        · rw [if_neg hlt]
          by_cases hgt : dirLt d bk ck = true
          · -- backend key first
            rw [if_pos hgt]
            refine ⟨some (bk, bv), rfl, ?_, ?_, ?_⟩
            · apply IsAns.of_least
              · simp only [mget, ho3 bk hl2 hgt, hl1]
              · exact hl2
              · exact noLive_of_lookups (fun k' hc h => ho3 k' hc (dirLt_trans h hgt)) hl3
            · rw [finish_fst]
              exact Inv.at_backend beOf s1 bk hb2 hb4
            · rw [finish_fst]; rfl
          · -- same key: the overlay entry overrides the backend entry
            rw [if_neg hgt]
            have hEq : ck = bk := by
              rcases dirLt_total d ck bk with h | h | h
              · exact absurd h hlt
              · exact h
              · exact absurd h hgt
            subst hEq
            have hnl : NoLiveBefore d ov (beOf rid) s.lastKey ck := noLive_of_lookups ho3 hl3
            cases cv with
            | none =>
              simp only []
              refine recur ck none _ hmem ho2 rfl ?_ (by simp only [mget, ho1]) hnl
              have := Inv.at_backend beOf s1 ck hb2 hb4
              rw [hb4] at this ⊢
              exact this
            | some v =>
              simp only []
              refine ⟨some (ck, v), rfl, ?_, ?_, ?_⟩
              · exact IsAns.of_least (by simp only [mget, ho1]) ho2 hnl
              · rw [finish_fst]
                exact Inv.at_backend beOf s1 ck hb2 hb4
              · rw [finish_fst]; rfl


/-! ### one call, sequences of calls -/

theorem guard_eq_atEdge (d : Dir) (L : LastKey) :
    ((decide (L = .start) && decide (d = .bwd)) || (decide (L = .end_) && decide (d = .fwd))) =
      atEdge d L := by
  cases d <;> cases L <;> simp [atEdge]

theorem cand_atEdge {d : Dir} {L : LastKey} (h : atEdge d L = true) (k : Key) :
    cand d L k = false := by
  cases d <;> cases L <;> simp [atEdge] at h <;> rfl

/-- `iter_inner` (patched): the answer is the first live entry beyond the position, the new
    position is that entry (or the far edge), the invariant is kept, fuel is never exhausted. -/
theorem iterInner_spec (beOf : Nat → List (Key × V)) (ov : List (Key × Option V)) (rid : Nat)
    (d : Dir) (hov : Sorted ov) (hbe : Sorted (beOf rid)) (s : IterSt V) (hinv : Inv beOf s) :
    ∃ r, (iterInner patched ov (beOf rid) rid d s).2 = .ok r ∧
      IsAns d ov (beOf rid) s.lastKey r ∧
      Inv beOf (iterInner patched ov (beOf rid) rid d s).1 ∧
      (iterInner patched ov (beOf rid) rid d s).1.lastKey = posAfter d s.lastKey r := by
  unfold iterInner
  simp only [patched, Bool.true_and, guard_eq_atEdge]
  cases he : atEdge d s.lastKey with
  | true =>
    simp only [if_true]
    refine ⟨none, rfl, IsAns.none (fun k' _ _ => cand_atEdge he k'), hinv, ?_⟩
    cases d <;> cases hl : s.lastKey <;> simp [hl, atEdge] at he <;> simp [posAfter]
  | false =>
    simp only [Bool.false_eq_true, if_false]
    exact iterLoop_spec beOf ov rid d hov hbe _ s hinv he
      (Nat.lt_succ_of_le (candCount_le_length d ov s.lastKey))

theorem step_spec (beOf : Nat → List (Key × V)) (hbe : ∀ r, Sorted (beOf r)) (s : IterSt V)
    (hinv : Inv beOf s) (e : Env V) (he : Sorted e.ov) (c : Call) :
    (step beOf s e c).2 = (specStep (merged e.ov (beOf e.rid)) s.lastKey c).2 ∧
    (step beOf s e c).1.lastKey = (specStep (merged e.ov (beOf e.rid)) s.lastKey c).1 ∧
    Inv beOf (step beOf s e c).1 := by
  cases c with
  | seek k => exact ⟨rfl, rfl, Inv.seek beOf s e.rid k⟩
  | seekFirst => exact ⟨rfl, rfl, Inv.seek beOf s e.rid []⟩
  | seekLast => exact ⟨rfl, rfl, Inv.seekToLast beOf s e.rid⟩
  | next =>
    obtain ⟨r, h1, h2, h3, h4⟩ := iterInner_spec beOf e.ov e.rid .fwd he (hbe e.rid) s hinv
    have hr := h2.eq_spec he (hbe e.rid)
    simp only [step, stepV, specStep]
    rw [h1] at *
    refine ⟨?_, ?_, h3⟩
    · simp only [outOf, hr]
    · rw [h4, hr]
  | prev =>
    obtain ⟨r, h1, h2, h3, h4⟩ := iterInner_spec beOf e.ov e.rid .bwd he (hbe e.rid) s hinv
    have hr := h2.eq_spec he (hbe e.rid)
    simp only [step, stepV, specStep]
    rw [h1] at *
    refine ⟨?_, ?_, h3⟩
    · simp only [outOf, hr]
    · rw [h4, hr]

theorem run_spec (beOf : Nat → List (Key × V)) (hbe : ∀ r, Sorted (beOf r))
    (cs : List (Env V × Call)) (hcs : ∀ c ∈ cs, Sorted c.1.ov) (s : IterSt V)
    (hinv : Inv beOf s) :
    (run beOf s cs).2 = (specRun beOf s.lastKey cs).2 ∧
    (run beOf s cs).1.lastKey = (specRun beOf s.lastKey cs).1 ∧
    Inv beOf (run beOf s cs).1 := by
  induction cs generalizing s with
  | nil => exact ⟨rfl, rfl, hinv⟩
  | cons ec cs ih =>
    obtain ⟨e, c⟩ := ec
    obtain ⟨h1, h2, h3⟩ := step_spec beOf hbe s hinv e (hcs (e, c) (List.mem_cons.mpr (Or.inl rfl))) c
    have ih' := ih (fun c hc => hcs c (List.mem_cons_of_mem _ hc)) (step beOf s e c).1 h3
    have hrun : run beOf s ((e, c) :: cs) =
        ((run beOf (step beOf s e c).1 cs).1, (step beOf s e c).2 :: (run beOf (step beOf s e c).1 cs).2) := rfl
    have hspec : specRun beOf s.lastKey ((e, c) :: cs) =
        ((specRun beOf (specStep (merged e.ov (beOf e.rid)) s.lastKey c).1 cs).1,
          (specStep (merged e.ov (beOf e.rid)) s.lastKey c).2 ::
            (specRun beOf (specStep (merged e.ov (beOf e.rid)) s.lastKey c).1 cs).2) := rfl
    rw [hrun, hspec, ← h2, ← h1]
    exact ⟨by rw [ih'.1], ih'.2.1, ih'.2.2⟩

end Pdb.C04
