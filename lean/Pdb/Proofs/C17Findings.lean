/-
C17: corner cases of the modelled Rust code, and the former findings F8, F9, F13..F17 as
they behave with the fixes applied (fixes/fix-c17-*.diff).  Each theorem names the Rust
anchor.  Before the fixes the model proved the opposite statements (panic on an unknown
compression code / a short salt, `lock` created by a failed open, `clear_column` independent
of `replay`, salt and version overwritten, `drop_last_column` on 257 columns deleting column
0); the harness scenarios `findings` replay those inputs on the real crate.
-/
import Pdb.Props.C17

namespace Pdb.C17

/-! ### F16 / F17: bad metadata is an error, not a panic -/

/-- F16 fixed: a compression code outside 0..2 makes `from_string` return `None`
(-> `Corruption("Bad column metadata")`), it no longer reaches `From<u8>`'s panic. -/
theorem fixed_F16_unknown_compression :
    fromString t!"preimage: true, uniform: false, refc: false, compression: 3" = .none ∧
    decodeMeta (joinLines [t!"version=8", t!"salt=" ++ hexEncode (List.replicate 32 0),
      t!"col0=preimage: true, uniform: false, refc: false, compression: 3"]) =
        .err .corruptionBadColumn := by
  constructor
  · decide
  · decide +kernel

/-- ... while an unparsable or out-of-`u8`-range code still silently becomes `NoCompression`. -/
theorem finding_fromString_default :
    fromString t!"preimage: true, uniform: false, refc: false, compression: 256" =
      .ok ⟨true, false, false, .NoCompression, false, false, false, false⟩ := by
  decide

/-- F17 fixed: a salt that is valid hex but not 32 bytes long is `Corruption("Bad salt string")`. -/
theorem fixed_F17_short_salt :
    decodeMeta t!"version=8\nsalt=00ff" = .err .corruptionBadSalt := by
  decide

/-- `from_string` never panics, hence neither does `load_metadata_file`: every code that
passes the guard is a known discriminant (`guard_no_panic`, an obligation on the generated
guard variant and discriminant table). -/
theorem fromString_ne_panic (s : Text) : fromString s ≠ .panic := by
  intro h
  simp only [fromString] at h
  split at h
  · cases h
  · split at h
    · cases h
    · rename_i hle
      split at h
      · cases h
      · cases h
      · rename_i hp
        exact guard_no_panic _ (Nat.le_of_not_gt hle) hp

theorem stepLine_ne_panic (st : MetaAcc) (l : Text) : stepLine st l ≠ .panic := by
  unfold stepLine
  intro h
  split at h
  · split at h
    · split at h <;> cases h
    · split at h
      · split at h
        · cases h
        · split at h <;> cases h
      · split at h
        · split at h
          · cases h
          · cases h
          · rename_i hp; exact fromString_ne_panic _ hp
        · cases h
  · cases h

theorem decodeMeta_ne_panic (t : Text) : decodeMeta t ≠ .panic := by
  have hfold : ∀ (ls : List Text) (st : MetaAcc), foldLines st ls ≠ .panic := by
    intro ls
    induction ls with
    | nil => intro st h; simp [foldLines] at h
    | cons l r ih =>
      intro st h
      simp only [foldLines] at h
      split at h
      · exact ih _ h
      · cases h
      · rename_i hp; exact stepLine_ne_panic _ _ hp
  unfold decodeMeta
  intro h
  split at h
  · split at h
    · cases h
    · split at h <;> cases h
  · cases h
  · rename_i hp; exact hfold _ _ hp

/-- `load_metadata_file` ignores the number in `col<i>`: columns are taken in line order,
and any key starting with `col` counts. -/
theorem finding_decodeMeta_ignores_index :
    (decodeMeta (joinLines [t!"version=8", t!"salt=" ++ hexEncode (List.replicate 32 0),
      t!"col7=" ++ asString ⟨true, false, false, .NoCompression, false, false, false, false⟩,
      t!"colour=" ++ asString ⟨false, true, false, .NoCompression, false, false, false, false⟩])) =
    .ok ⟨List.replicate 32 0, 8,
      [⟨true, false, false, .NoCompression, false, false, false, false⟩,
       ⟨false, true, false, .NoCompression, false, false, false, false⟩]⟩ := by
  decide +kernel

/-! ### F9 fixed: a failed open of a directory without metadata creates nothing -/

theorem fixed_F9_open_creates_nothing {β : Type} (replay : Dir β → Dir β)
    (requested : List ColumnOptions) (salt : Option (List Nat)) (fresh : List Nat) :
    openDb replay (some Dir.empty) requested salt false fresh =
      ⟨.err .databaseNotFound, some (Dir.empty : Dir β)⟩ :=
  openDb_no_metadata replay Dir.empty requested salt fresh rfl

/-! ### F8 fixed: `clear_column` replays pending logs first -/

/-- With loadable metadata and a column index in range `clear_column` succeeds, and what it
leaves is the directory produced by a full open + close (`replay`: pending logs applied and
removed) minus the files of that column. -/
theorem fixed_F8_clear_replays {β : Type} (replay : Dir β → Dir β) (d : Dir β) (column : Nat)
    {m : Metadata} (hm : loadMetadataFile (d metadataName) = .ok (some m))
    (hc : column < m.columns.length) :
    clearColumn replay (some d) column =
      ⟨.ok (), some (dropFiles column (replay (ensureLock d)))⟩ := by
  have hp : clearPrecheck replay (some d) m =
      ⟨.ok (m.salt, m.version), some (replay (ensureLock d))⟩ := precheck_ok replay d _ hm
  have hc' : ¬ column ≥ m.columns.length := Nat.not_le.mpr hc
  simp only [clearColumn, hm, hc', if_false, hp]

/-! ### F13 / F14 fixed: salt and format version survive the administration calls -/

/-- Whatever `options.salt` the caller passes, a successful `add_column` /
`drop_last_column` / `reset_column(.., Some)` leaves the stored salt and the stored format
version in the metadata file. -/
theorem fixed_F13_F14_salt_version_kept {β : Type} (replay : Dir β → Dir β)
    (fs : Option (Dir β)) (requested : List ColumnOptions) (salt : Option (List Nat))
    (op : AdminOp) (cols : List ColumnOptions)
    (hok : (applyAdmin replay fs requested salt op).result = .ok ())
    (hcols : op.newColumns requested = some cols) :
    ∃ d m m', fs = some d ∧ loadMetadataFile (d metadataName) = .ok (some m) ∧
      loadMetadataFile (fsGet (applyAdmin replay fs requested salt op).fs metadataName) =
        .ok (some m') ∧
      m'.salt = m.salt ∧ m'.version = m.version ∧ m'.columns = cols := by
  obtain ⟨d, m, hfs, hm, _, h⟩ := C17_admin_metadata replay fs requested salt op cols hok hcols
  exact ⟨d, m, _, hfs, hm, h, rfl, rfl, rfl⟩

/-- The precheck accepts any `options.salt` and returns the stored one. -/
theorem fixed_F13_open_returns_stored_salt (s : Option (List Nat)) :
    (precheck id (some exampleDir) exampleCols s).result = .ok (List.replicate 32 1, 8) := by
  rw [example_precheck]

/-- Databases of an older supported version exist: version 5 metadata loads. -/
theorem finding_F14_old_version_loads :
    decodeMeta (encodeMeta 5 (List.replicate 32 1) exampleCols) =
      .ok ⟨List.replicate 32 1, 5, exampleCols⟩ :=
  C17_meta_roundtrip 5 _ _ (by decide) ⟨by decide, by decide⟩

/-! ### F15 fixed: more than 256 columns -/

/-- `add_column` refuses a 257th column, and `drop_last_column` on more than 256 columns
fails without deleting anything (before the fix it deleted the files of column 0). -/
theorem fixed_F15_column_count {β : Type} (replay : Dir β → Dir β) (fs : Option (Dir β))
    (requested : List ColumnOptions) (salt : Option (List Nat)) (new : ColumnOptions)
    {x : List Nat × Nat} {d : Dir β}
    (hp : precheck replay fs requested salt = ⟨.ok x, some d⟩) :
    (requested.length ≥ 256 →
      addColumn replay fs requested salt new = ⟨.err .invalidConfigTooManyColumns, some d⟩) ∧
    (requested.length ≥ 257 →
      dropLastColumn replay fs requested salt = ⟨.err .invalidConfigTooManyColumns, some d⟩ ∧
      AdminOp.dropLast.affected requested = none) := by
  obtain ⟨s, v⟩ := x
  constructor
  · intro h
    rw [addColumn_ok replay fs requested salt new hp]
    have : requested.length > 255 := by omega
    simp [this]
  · intro h
    refine ⟨?_, ?_⟩
    · rw [dropLastColumn_ok replay fs requested salt hp]
      have h0 : requested.length ≠ 0 := by omega
      have h1 : requested.length > 256 := by omega
      simp [h0, h1]
    · have h1 : requested.length > 256 := by omega
      simp [AdminOp.affected, h1]

end Pdb.C17
