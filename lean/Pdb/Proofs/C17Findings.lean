/-
C17: behaviours of the modelled Rust code that deviate from (or are corner cases of) the
prose property, proved about the model.  Each theorem names the Rust anchor; whether it is
a defect is judged in the report, not here.
-/
import Pdb.Props.C17

namespace Pdb.C17

/-! ### Panics instead of errors while reading metadata -/

/-- `from_string` panics (`panic!("Unknown compression.")` in `From<u8> for
CompressionType`) on a well-formed text with a compression code outside 0..2. -/
theorem finding_fromString_panics :
    fromString t!"preimage: true, uniform: false, refc: false, compression: 3" = .panic := by
  decide

/-- ... but an unparsable or out-of-`u8`-range code silently becomes `NoCompression`. -/
theorem finding_fromString_default :
    fromString t!"preimage: true, uniform: false, refc: false, compression: 256" =
      .ok ⟨true, false, false, .NoCompression, false, false, false, false⟩ := by
  decide

/-- `load_metadata_file` panics (`copy_from_slice` length mismatch) on a salt that is valid
hex but not 32 bytes long. -/
theorem finding_decodeMeta_short_salt_panics : decodeMeta t!"version=8\nsalt=00ff" = .panic := by
  decide

/-- `load_metadata_file` ignores the number in `col<i>`: columns are taken in line order,
and any key starting with `col` counts. -/
theorem finding_decodeMeta_ignores_index :
    (decodeMeta (joinLines [t!"version=8", t!"salt=" ++ hexEncode (List.replicate 32 0),
      t!"col7=" ++ asString ⟨true, false, false, .NoCompression, false, false, false, false⟩,
      t!"colour=" ++ asString ⟨false, true, false, .NoCompression, false, false, false, false⟩])) =
    .ok ⟨List.replicate 32 0, 8,
      [⟨true, false, false, .NoCompression, false, false, false, false⟩,
       ⟨false, true, false, .NoCompression, false, false, false, false⟩]⟩ := by
  decide +kernel

/-! ### F9: a failed open of an existing directory without metadata creates `lock` -/

theorem finding_F9_open_creates_lock {β : Type} (replay : Dir β → Dir β)
    (requested : List ColumnOptions) (salt : Option (List Nat)) (fresh : List Nat) :
    (openDb replay (some Dir.empty) requested salt false fresh).result = .err .databaseNotFound ∧
    fsGet (openDb replay (some Dir.empty) requested salt false fresh).fs lockName =
      some (.text []) := by
  rw [openDb_no_metadata replay Dir.empty requested salt fresh rfl]
  exact ⟨rfl, rfl⟩

/-! ### F8: `clear_column` does not replay (or remove) pending logs -/

/-- `clear_column` is independent of `replay` (it never opens the database) and leaves every
log file in place: records for the cleared column that were pending are still pending and
are applied by the next open, to a column whose files were deleted. -/
theorem finding_F8_clear_keeps_logs {β : Type} (fs : Option (Dir β)) (column i : Nat) :
    fsGet (clearColumn fs column).fs (logName i) = fsGet fs (logName i) := by
  have := (C17_admin_other_columns (fun d => d) fs [] none (.clear column)).2.2 i
  simpa [applyAdmin, adminBase] using this

/-! ### F13 (new): administration calls overwrite the stored salt with `options.salt` -/

/-- `DbInner::open` never compares `options.salt` with the stored salt (columns hash with the
stored one, src/column.rs:479), but `precheck_column_operation` returns `options.salt` when
it is set and `add_column` / `drop_last_column` / `reset_column(.., Some)` write it to the
metadata file.  After the call every column is read with the new salt: keys of all hash
columns written before are no longer found. -/
theorem finding_F13_salt_overwritten {β : Type} (replay : Dir β → Dir β) (fs : Option (Dir β))
    (requested : List ColumnOptions) (s : List Nat) (op : AdminOp) (cols : List ColumnOptions)
    (hs : s.length = 32 ∧ ∀ b ∈ s, b < 256)
    (hok : (applyAdmin replay fs requested (some s) op).result = .ok ())
    (hcols : op.newColumns requested = some cols) :
    ∃ m', loadMetadataFile (fsGet (applyAdmin replay fs requested (some s) op).fs metadataName) =
        .ok (some m') ∧ m'.salt = s := by
  obtain ⟨d, m, _, _, _, h⟩ := C17_admin_metadata replay fs requested (some s) op cols
    (fun x hx => by cases hx; exact hs) hok hcols
  exact ⟨_, h, rfl⟩

/-- The precheck accepts the mismatching salt: with the stored columns requested it
succeeds whatever `options.salt` is, and returns `options.salt`. -/
theorem finding_F13_open_accepts_any_salt (s : List Nat) :
    (precheck id (some exampleDir) exampleCols (some s)).result = .ok s := by
  rw [example_precheck]; rfl

/-! ### F14 (new): administration calls rewrite the version to `CURRENT_VERSION` -/

/-- A database with stored version 4..7 is opened in its old format (`hash_key`,
`is_multi` depend on `db_version`), but after `add_column` / `drop_last_column` /
`reset_column(.., Some)` the metadata says `CURRENT_VERSION` although no file was converted. -/
theorem finding_F14_version_bumped {β : Type} (replay : Dir β → Dir β) (fs : Option (Dir β))
    (requested : List ColumnOptions) (op : AdminOp) (cols : List ColumnOptions)
    (hok : (applyAdmin replay fs requested none op).result = .ok ())
    (hcols : op.newColumns requested = some cols) :
    ∃ d m m', fs = some d ∧ loadMetadataFile (d metadataName) = .ok (some m) ∧
      loadMetadataFile (fsGet (applyAdmin replay fs requested none op).fs metadataName) =
        .ok (some m') ∧
      m'.version = Pdb.Gen.CURRENT_VERSION ∧ m'.salt = m.salt := by
  obtain ⟨d, m, hfs, hm, _, h⟩ := C17_admin_metadata replay fs requested none op cols
    (fun x hx => by cases hx) hok hcols
  exact ⟨d, m, _, hfs, hm, h, rfl, rfl⟩

/-- Such databases exist: version 5 metadata loads. -/
theorem finding_F14_old_version_loads :
    decodeMeta (encodeMeta 5 (List.replicate 32 1) exampleCols) =
      .ok ⟨List.replicate 32 1, 5, exampleCols⟩ :=
  C17_meta_roundtrip 5 _ _ (by decide) ⟨by decide, by decide⟩

/-! ### F15 (new, corner case): `index as u8` in `drop_last_column` -/

/-- With 257 columns (nothing in `add_column` or `open` limits the count to 256)
`drop_last_column` deletes the files of column 0, not of column 256. -/
theorem finding_F15_drop_last_wraps (requested : List ColumnOptions)
    (h : requested.length = 257) : AdminOp.dropLast.affected requested = some 0 := by
  simp [AdminOp.affected, h]

end Pdb.C17
