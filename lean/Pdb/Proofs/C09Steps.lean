/-
C09: how `IdxInv` reacts to the elementary changes every operation is composed of:
  * the stored tails do not change (`IdxInv.congr`),
  * a value disappears (`IdxInv.del_val`) / appears at an address the current table points to
    (`IdxInv.add_val`),
  * index entries / tables are added (`IdxInv.ext`),
  * tables change only in entries whose address holds no value (`IdxInv.pointwise`).
-/
import Pdb.Proofs.C09Growth

namespace Pdb.Index
open Pdb.Gen Pdb.IndexPage

theorem IdxInv.shape {U : Key → Prop} {s : Col} (h : IdxInv U s) : Shape s := ⟨h.wf, h.order⟩

theorem IdxInv.congr {U : Key → Prop} {s s' : Col} (h : IdxInv U s) (hc : s'.current = s.current)
    (ho : s'.older = s.older) (hp : s'.progress = s.progress)
    (ht : ∀ x, s'.tailAt x = s.tailAt x) : IdxInv U s' := by
  have htab : s'.tables = s.tables := by simp [Col.tables, hc, ho]
  refine ⟨by rw [htab]; exact h.wf, by rw [hc, ho]; exact h.order, ?_, ?_, ?_, ?_⟩
  · intro a tl ha
    rw [ht] at ha
    rw [htab]
    exact h.reach a tl ha
  · intro a1 a2 tl h1 h2
    rw [ht] at h1 h2
    exact h.inj a1 a2 tl h1 h2
  · intro t0 rest hol k a hk hh hch hta
    rw [ho] at hol
    rw [hp] at hch
    rw [ht] at hta
    rw [hc]
    exact h.prog t0 rest hol k a hk hh hch hta
  · intro hol
    rw [ho] at hol
    rw [hp]
    exact h.prog0 hol

/-- A value disappears (its index entries may stay: they are inert). -/
theorem IdxInv.del_val {U : Key → Prop} {s s' : Col} (h : IdxInv U s) (hc : s'.current = s.current)
    (ho : s'.older = s.older) (hp : s'.progress = s.progress) (a0 : Nat)
    (ht : ∀ x, s'.tailAt x = if x = a0 then none else s.tailAt x) : IdxInv U s' := by
  have htab : s'.tables = s.tables := by simp [Col.tables, hc, ho]
  have hsub : ∀ x tl, s'.tailAt x = some tl → s.tailAt x = some tl := by
    intro x tl hx
    rw [ht] at hx
    by_cases hxa : x = a0
    · simp [hxa] at hx
    · simpa [hxa] using hx
  refine ⟨by rw [htab]; exact h.wf, by rw [hc, ho]; exact h.order, ?_, ?_, ?_, ?_⟩
  · intro a tl ha
    rw [htab]
    exact h.reach a tl (hsub a tl ha)
  · intro a1 a2 tl h1 h2
    exact h.inj a1 a2 tl (hsub _ _ h1) (hsub _ _ h2)
  · intro t0 rest hol k a hk hh hch hta
    rw [ho] at hol
    rw [hp] at hch
    rw [hc]
    exact h.prog t0 rest hol k a hk hh hch (hsub _ _ hta)
  · intro hol
    rw [ho] at hol
    rw [hp]
    exact h.prog0 hol

/-- A value appears at an address for which the current table holds an entry of its key. -/
theorem IdxInv.add_val {U : Key → Prop} {s s' : Col} (hU : Univ U) (h : IdxInv U s)
    (hc : s'.current = s.current) (ho : s'.older = s.older) (hp : s'.progress = s.progress)
    (a0 : Nat) (k : Key) (hk : U k)
    (ht : ∀ x, s'.tailAt x = if x = a0 then some k.tail else s.tailAt x)
    (hnew : ∀ x, x ≠ a0 → s.tailAt x ≠ some k.tail) (hhas : s.current.Has k.pre a0) : IdxInv U s' := by
  have htab : s'.tables = s.tables := by simp [Col.tables, hc, ho]
  refine ⟨by rw [htab]; exact h.wf, by rw [hc, ho]; exact h.order, ?_, ?_, ?_, ?_⟩
  · intro a tl ha
    rw [ht] at ha
    rw [htab]
    by_cases hxa : a = a0
    · subst hxa
      simp only [if_true] at ha
      injection ha with ha
      exact ⟨k, hk, ha, s.current, by simp [Col.tables], hhas⟩
    · simp only [hxa, if_false] at ha
      exact h.reach a tl ha
  · intro a1 a2 tl h1 h2
    rw [ht] at h1 h2
    by_cases e1 : a1 = a0 <;> by_cases e2 : a2 = a0
    · rw [e1, e2]
    · simp only [e1, if_true] at h1
      simp only [e2, if_false] at h2
      injection h1 with h1
      rw [← h1] at h2
      exact absurd h2 (hnew a2 e2)
    · simp only [e2, if_true] at h2
      simp only [e1, if_false] at h1
      injection h2 with h2
      rw [← h2] at h1
      exact absurd h1 (hnew a1 e1)
    · simp only [e1, if_false] at h1
      simp only [e2, if_false] at h2
      exact h.inj a1 a2 tl h1 h2
  · intro t0 rest hol k' a hk' hh hch hta
    rw [ho] at hol
    rw [hp] at hch
    rw [hc]
    rw [ht] at hta
    by_cases hxa : a = a0
    · subst hxa
      simp only [if_true] at hta
      injection hta with hta
      have : k = k' := hU.atail k k' hk hk' hta
      subst this
      exact ⟨s.current, by simp, hhas⟩
    · simp only [hxa, if_false] at hta
      exact h.prog t0 rest hol k' a hk' hh hch hta
  · intro hol
    rw [ho] at hol
    rw [hp]
    exact h.prog0 hol

/-- Index entries / tables are added. -/
theorem IdxInv.ext {U : Key → Prop} {s s' : Col} (h : IdxInv U s) (hE : Ext s s') (hS : Shape s') :
    IdxInv U s' := by
  obtain ⟨p, hol', hm⟩ := hE.tables
  refine ⟨hS.wf, hS.order, ?_, ?_, ?_, ?_⟩
  · intro a tl ha
    rw [hE.tailAt] at ha
    obtain ⟨k, hk, htl, t, ht, hh⟩ := h.reach a tl ha
    obtain ⟨t', ht', hh'⟩ := hE.has_all k.pre a t ht hh
    exact ⟨k, hk, htl, t', ht', hh'⟩
  · intro a1 a2 tl h1 h2
    rw [hE.tailAt] at h1 h2
    exact h.inj a1 a2 tl h1 h2
  · intro t0 rest hol k a hk hh hch hta
    rw [hE.progress] at hch
    rw [hE.tailAt] at hta
    cases hso : s.older with
    | nil =>
      have := h.prog0 hso
      rw [this] at hch
      exact absurd hch (Nat.not_lt_zero _)
    | cons u us =>
      rw [hol', hso] at hol
      simp only [List.cons_append] at hol
      injection hol with e1 e2
      subst e1
      obtain ⟨t, ht, hht⟩ := h.prog u us hso k a hk hh hch hta
      rcases List.mem_cons.1 ht with h1 | h1
      · subst h1
        obtain ⟨t', ht', hh'⟩ := hm k.pre a hht
        refine ⟨t', ?_, hh'⟩
        rcases List.mem_cons.1 ht' with h2 | h2
        · subst h2; simp
        · rw [← e2]; exact List.mem_cons_of_mem _ (List.mem_append_right _ h2)
      · exact ⟨t, by rw [← e2]; exact List.mem_cons_of_mem _ (List.mem_append_left _ h1), hht⟩
  · intro hol
    rw [hol'] at hol
    have : s.older = [] := (List.append_eq_nil_iff.1 hol).1
    rw [hE.progress]
    exact h.prog0 this

/-! ## pointwise change of tables -/

/-- `t'` is `t` up to entries whose address holds no value. -/
structure TabRel (s : Col) (t t' : Table) : Prop where
  bits : t'.bits = t.bits
  wf : TableWF t'
  fwd : ∀ kp a, t.Has kp a → s.tailAt a ≠ none → t'.Has kp a
  bwd : ∀ kp a, t'.Has kp a → s.tailAt a ≠ none → t.Has kp a

theorem TabRel.refl (s : Col) (t : Table) (h : TableWF t) : TabRel s t t :=
  ⟨rfl, h, fun _ _ hh _ => hh, fun _ _ hh _ => hh⟩

inductive RelL (R : Table → Table → Prop) : List Table → List Table → Prop
  | nil : RelL R [] []
  | cons {a b : Table} {as bs : List Table} : R a b → RelL R as bs → RelL R (a :: as) (b :: bs)

theorem RelL.cons_right {R : Table → Table → Prop} {l : List Table} {b : Table} {bs : List Table}
    (h : RelL R l (b :: bs)) : ∃ a as, l = a :: as ∧ R a b ∧ RelL R as bs := by
  generalize hl' : b :: bs = l' at h
  cases h with
  | nil => exact absurd hl' (by simp)
  | cons hab hr =>
    injection hl' with e1 e2
    subst e1; subst e2
    exact ⟨_, _, rfl, hab, hr⟩

theorem RelL.nil_right {R : Table → Table → Prop} {l : List Table} (h : RelL R l []) : l = [] := by
  generalize hl' : ([] : List Table) = l' at h
  cases h with
  | nil => rfl
  | cons _ _ => exact absurd hl' (by simp)

theorem RelL.mem_left {R : Table → Table → Prop} {l l' : List Table} (h : RelL R l l') :
    ∀ t ∈ l, ∃ t' ∈ l', R t t' := by
  induction h with
  | nil => intro t ht; simp at ht
  | cons hab _ ih =>
    intro t ht
    rcases List.mem_cons.1 ht with h1 | h1
    · subst h1; exact ⟨_, by simp, hab⟩
    · obtain ⟨t', ht', hr⟩ := ih t h1
      exact ⟨t', List.mem_cons_of_mem _ ht', hr⟩

theorem RelL.mem_right {R : Table → Table → Prop} {l l' : List Table} (h : RelL R l l') :
    ∀ t' ∈ l', ∃ t ∈ l, R t t' := by
  induction h with
  | nil => intro t ht; simp at ht
  | cons hab _ ih =>
    intro t ht
    rcases List.mem_cons.1 ht with h1 | h1
    · subst h1; exact ⟨_, by simp, hab⟩
    · obtain ⟨t', ht', hr⟩ := ih t h1
      exact ⟨t', List.mem_cons_of_mem _ ht', hr⟩

theorem RelL.map_bits {s : Col} {l l' : List Table} (h : RelL (TabRel s) l l') :
    l'.map (·.bits) = l.map (·.bits) := by
  induction h with
  | nil => rfl
  | cons hab _ ih => simp only [List.map_cons, ih, hab.bits]

theorem RelL.refl_of {s : Col} (l : List Table) (h : ∀ t ∈ l, TableWF t) : RelL (TabRel s) l l := by
  induction l with
  | nil => exact .nil
  | cons a as ih =>
    exact .cons (TabRel.refl s a (h a (by simp))) (ih (fun t ht => h t (List.mem_cons_of_mem _ ht)))

/-- replacing element `j` by a related table -/
theorem RelL.set {s : Col} (l : List Table) (h : ∀ t ∈ l, TableWF t) (j : Nat) (t t' : Table)
    (hj : l[j]? = some t) (hr : TabRel s t t') : RelL (TabRel s) l (l.set j t') := by
  induction l generalizing j with
  | nil => simp at hj
  | cons a as ih =>
    cases j with
    | zero =>
      simp only [List.getElem?_cons_zero, Option.some.injEq] at hj
      subst hj
      exact .cons hr (RelL.refl_of as (fun t ht => h t (List.mem_cons_of_mem _ ht)))
    | succ j =>
      simp only [List.getElem?_cons_succ] at hj
      exact .cons (TabRel.refl s a (h a (by simp)))
        (ih (fun t ht => h t (List.mem_cons_of_mem _ ht)) j hj)

theorem IdxInv.pointwise {U : Key → Prop} {s s' : Col} (h : IdxInv U s)
    (hp : s'.progress = s.progress) (ht : ∀ x, s'.tailAt x = s.tailAt x)
    (hc : TabRel s s.current s'.current) (ho : RelL (TabRel s) s.older s'.older) : IdxInv U s' := by
  refine ⟨?_, ?_, ?_, ?_, ?_, ?_⟩
  · intro t' ht'
    simp only [Col.tables] at ht'
    rcases List.mem_cons.1 ht' with h1 | h1
    · rw [h1]; exact hc.wf
    · obtain ⟨t, _, hr⟩ := ho.mem_right t' h1
      exact hr.wf
  · have := h.order
    simp only [List.map_append, List.map_cons, List.map_nil] at this ⊢
    rw [ho.map_bits, hc.bits]
    exact this
  · intro a tl ha
    rw [ht] at ha
    obtain ⟨k, hk, htl, t, htm, hh⟩ := h.reach a tl ha
    have hlive : s.tailAt a ≠ none := by rw [ha]; simp
    simp only [Col.tables] at htm
    rcases List.mem_cons.1 htm with h1 | h1
    · subst h1
      exact ⟨k, hk, htl, s'.current, by simp [Col.tables], hc.fwd _ _ hh hlive⟩
    · obtain ⟨t', ht', hr⟩ := ho.mem_left t h1
      exact ⟨k, hk, htl, t', by simp [Col.tables, ht'], hr.fwd _ _ hh hlive⟩
  · intro a1 a2 tl h1 h2
    rw [ht] at h1 h2
    exact h.inj a1 a2 tl h1 h2
  · intro t0' rest' hol' k a hk hh hch hta
    rw [hp] at hch
    rw [ht] at hta
    have hlive : s.tailAt a ≠ none := by rw [hta]; simp
    rw [hol'] at ho
    obtain ⟨t0, rest, hol, hab, hrest⟩ := ho.cons_right
    have hch' : t0.chunk k.pre < s.progress := by
      have : t0'.chunk k.pre = t0.chunk k.pre := by simp [Table.chunk, hab.bits]
      rw [← this]; exact hch
    obtain ⟨t, htm, hht⟩ := h.prog t0 rest hol k a hk (hab.bwd _ _ hh hlive) hch' hta
    rcases List.mem_cons.1 htm with h1 | h1
    · subst h1
      exact ⟨s'.current, by simp, hc.fwd _ _ hht hlive⟩
    · obtain ⟨t', ht', hr⟩ := hrest.mem_left t h1
      exact ⟨t', List.mem_cons_of_mem _ ht', hr.fwd _ _ hht hlive⟩
  · intro hol'
    rw [hol'] at ho
    rw [hp]
    exact h.prog0 ho.nil_right

end Pdb.Index
