/-
R2, operations: insert / replace in place / remove on the byte-level table commute with the
abstract store of the index model (`AStore.insert / replace / remove`: head slot by `alloc`,
continuation slots by `Tier.resize`, whole chain released), for single-slot tables AND for the
multipart table (chains).  The representation relation `RepL` is in Pdb/Proofs/Refine2.lean.
-/
import Pdb.Proofs.Refine2
import Pdb.Proofs.C09Slots

namespace Pdb.Refine
open Pdb.Gen Pdb.Index Pdb.ValueTable

/-! ## the chain / free-list formulas of C06 for a chain given as head :: rest -/

theorem newChain_nil (t : VT) (F : List Nat) (n : Nat) :
    newChain t F [] n = F.take n ++ List.range' t.filled (n - F.length) := by
  simp [newChain, extChain]

theorem newFree_nil (F : List Nat) (n : Nat) : newFree F [] n = F.drop n := by
  simp [newFree]

theorem newChain_cons (t : VT) (F : List Nat) (a : Nat) (rest : List Nat) (m : Nat) :
    newChain t F (a :: rest) (m + 1) =
      a :: (rest.take m ++ (F.take (m - rest.length) ++
        List.range' t.filled (m - rest.length - F.length))) := by
  unfold newChain extChain
  simp only [List.take_succ_cons, List.length_cons, List.length_take, List.cons_append]
  have e : m + 1 - (min m rest.length + 1) = m - rest.length := by omega
  rw [e]

theorem newFree_cons (F : List Nat) (a : Nat) (rest : List Nat) (m : Nat) :
    newFree F (a :: rest) (m + 1) = (rest.drop m).reverse ++ F.drop (m - rest.length) := by
  unfold newFree
  simp only [List.drop_succ_cons, List.length_cons]
  have e : m + 1 - (rest.length + 1) = m - rest.length := by omega
  rw [e]

/-! ## the allocator of the index model on one tier, in closed form -/

theorem AStore.alloc_nil (A : AStore) (h : A.tier.free = []) :
    A.alloc = (A.tier.filled, { A with tier := ⟨A.tier.filled + 1, [], A.tier.chains⟩ }) := by
  simp only [AStore.alloc, h]

theorem AStore.alloc_cons (A : AStore) (o : Nat) (rest : List Nat) (h : A.tier.free = o :: rest) :
    A.alloc = (o, { A with tier := ⟨A.tier.filled, rest, A.tier.chains⟩ }) := by
  simp only [AStore.alloc, h]

/-- the slot `alloc` returns is on the free list or at the fill mark -/
theorem AStore.alloc_dead (A : AStore) : A.alloc.1 ∈ A.tier.free ∨ A.tier.filled ≤ A.alloc.1 := by
  cases hf : A.tier.free with
  | nil => rw [AStore.alloc_nil A hf]; exact Or.inr (Nat.le_refl _)
  | cons o rest => rw [AStore.alloc_cons A o rest hf]; exact Or.inl (by simp)

/-- `alloc` + `setCell` + `resize` when no chain is recorded for the allocated slot: the slots
are the first `m + 1` of the free list, then fresh ones -/
theorem AStore.insert_spec (A : AStore) (x : Bytes × Bytes × Bool) (m : Nat)
    (hrest : chainRest A.tier.chains A.alloc.1 = []) :
    (A.insert x m).1 =
      (A.tier.free.take (m + 1) ++ List.range' A.tier.filled (m + 1 - A.tier.free.length)).headD 0 ∧
    (∀ i, (A.insert x m).2.cell i = if i = (A.insert x m).1 then some x else A.cell i) ∧
    (A.insert x m).2.tier = ⟨A.tier.filled + (m + 1 - A.tier.free.length), A.tier.free.drop (m + 1),
      chainPut A.tier.chains (A.insert x m).1
        (A.tier.free.take (m + 1) ++ List.range' A.tier.filled (m + 1 - A.tier.free.length)).tail⟩ := by
  cases hf : A.tier.free with
  | nil =>
    have ha := AStore.alloc_nil A hf
    rw [ha] at hrest
    simp only at hrest
    simp only [AStore.insert, ha, AStore.resize, AStore.setCell, Tier.resize, hrest,
      List.length_nil, List.take_nil, List.drop_nil, List.reverse_nil, List.nil_append,
      Nat.sub_zero, List.range'_succ, List.headD_cons, List.tail_cons]
    refine ⟨trivial, fun i => trivial, ?_⟩
    congr 1
    omega
  | cons o rest =>
    have ha := AStore.alloc_cons A o rest hf
    rw [ha] at hrest
    simp only at hrest
    simp only [AStore.insert, ha, AStore.resize, AStore.setCell, Tier.resize, hrest,
      List.length_nil, List.take_nil, List.drop_nil, List.reverse_nil, List.nil_append,
      Nat.sub_zero, List.take_succ_cons, List.drop_succ_cons, List.cons_append, List.headD_cons,
      List.tail_cons, List.length_cons, Nat.add_sub_add_right]
    exact ⟨trivial, fun i => trivial, trivial⟩

/-! ## the table after `overwrite_chain` represents the updated store -/

/-- Common part of insert and replace.  `Lr` = the live chains the write does not touch. -/
theorem RepL.after_write {t : VT} {A A' : AStore} {Lr : List (List Nat)} {r : WrOk}
    {tl v : Bytes} {c : Bool} {F' : List Nat}
    (hparts : ∀ c' ∈ Lr, ∀ j ∈ c'.tail, t.multipart = true ∧ ¬ isMultiHead (t.slots j))
    (hheads : ∀ c' ∈ Lr, absVT t (c'.headD 0) = A.cell (c'.headD 0) ∧
      (A.cell (c'.headD 0)).isSome = true ∧ c'.tail = chainRest A.tier.chains (c'.headD 0))
    (hchains : ∀ c' ∈ Lr, IsChain t c')
    (hlen : ∀ c' ∈ Lr, c'.length ≤ t.filled)
    (hblank : ∀ i, (i = 0 ∨ t.filled ≤ i) → t.slots i = [])
    (hok : WriteOk t (.partialKey tl) v)
    (hinv : ValueTable.SlotInv r.table F' (r.chain :: Lr))
    (hread : readChain r.table (.partialKey tl) r.addr = .ok (some (v, c, 1)))
    (haddr : r.addr = r.chain.headD 0)
    (hslots : ∀ i ∈ Lr.flatten, r.table.slots i = t.slots i)
    (hcfg : SameCfg t r.table)
    (hW : Written r.table c true r.chain (chunksOf t (.partialKey tl) v))
    (hframe : ∀ j, j ∉ r.chain → j ∉ r.freed → r.table.slots j = t.slots j)
    (hfreed : ∀ j ∈ r.freed, 1 ≤ j ∧ j < t.filled)
    (hfill : t.filled ≤ r.table.filled)
    (hcell : ∀ i, A'.cell i = if i = r.addr then some (tl, v, c) else A.cell i)
    (hoffA : ∀ i, i ≠ r.addr → (∀ c' ∈ Lr, c'.headD 0 ≠ i) → A.cell i = none)
    (htier : A'.tier = ⟨r.table.filled, F', chainPut A.tier.chains r.addr r.chain.tail⟩)
    (hrec : ∀ h ∈ A.tier.chains.map (·.1), h = r.addr ∨ ∃ c' ∈ Lr, c'.headD 0 = h)
    (hnd : (A.tier.chains.map (·.1)).Nodup) :
    RepL r.table A' (r.chain :: Lr) := by
  have hne : r.chain ≠ [] := IsChain_ne_nil r.table r.chain (hinv.chains r.chain (by simp))
  have hndf : (r.chain ++ Lr.flatten).Nodup := by
    have := (List.nodup_append.mp hinv.nodup).2.1
    simpa using this
  have hother : ∀ c' ∈ Lr, c'.headD 0 ≠ r.addr := by
    intro c' hc'
    rw [haddr]
    exact head_not_in_others r.chain Lr hndf hne c' hc' (IsChain_ne_nil t c' (hchains c' hc'))
  obtain ⟨_, hfs, _, _, _, _⟩ := hok.facts
  obtain ⟨hg, _⟩ := chunksOf_shape hok
  refine ⟨by rw [htier], by rw [htier]; exact hinv, ?_, ?_, ?_, ?_, ?_, ?_⟩
  · -- parts
    intro c' hc' j hj
    rcases List.mem_cons.mp hc' with e | hc'
    · subst e
      have hnh := Written_tail_plain r.table c (by rw [hcfg.freeSpace_eq]; exact hfs) r.chain true _ hW
        (by rw [hcfg.freeSpace_eq, hcfg.partCap_eq]; exact hg) j hj
      refine ⟨?_, hnh⟩
      rw [hcfg.2.1]
      cases hm : t.multipart with
      | true => rfl
      | false =>
        exfalso
        have h1 := numParts_single hok hm
        have h2 := Written_length _ _ _ _ _ hW
        unfold numParts at h1
        rw [h1] at h2
        cases hch : r.chain with
        | nil => rw [hch] at hj; simp at hj
        | cons a rest =>
          rw [hch] at h2 hj
          cases rest with
          | nil => simp at hj
          | cons b rest' => simp at h2
    · obtain ⟨a, b⟩ := hparts c' hc' j hj
      have hjm : j ∈ Lr.flatten := List.mem_flatten.mpr ⟨c', hc', List.mem_of_mem_tail hj⟩
      exact ⟨by rw [hcfg.2.1]; exact a, by rw [hslots j hjm]; exact b⟩
  · -- heads
    intro c' hc'
    rcases List.mem_cons.mp hc' with e | hc'
    · subst e
      rw [← haddr, hcell, if_pos rfl, htier]
      refine ⟨absVT_of_read _ tl _ v c 1 hread, rfl, ?_⟩
      simp only
      rw [chainRest_chainPut, if_pos rfl]
    · obtain ⟨a, b, d⟩ := hheads c' hc'
      have hne' := hother c' hc'
      rw [hcell, if_neg hne', htier]
      refine ⟨?_, b, ?_⟩
      · rw [← a]
        apply absVT_congr_read
        intro key'
        exact readChain_congr t r.table hcfg key' c' (hchains c' hc')
          (fun x hx => hslots x (List.mem_flatten.mpr ⟨c', hc', hx⟩)) (hlen c' hc')
          (Nat.le_trans (hlen c' hc') hfill)
      · simp only
        rw [chainRest_chainPut, if_neg hne']; exact d
  · -- off
    intro i hi
    have h1 : i ≠ r.addr := by
      intro e; exact hi r.chain (by simp) (by rw [e, haddr])
    rw [hcell, if_neg h1]
    exact hoffA i h1 (fun c' hc' => hi c' (List.mem_cons_of_mem _ hc'))
  · -- recorded
    intro h hm
    rw [htier] at hm
    rcases mem_heads_chainPut _ _ _ _ hm with e | ⟨hm1, _⟩
    · exact ⟨r.chain, by simp, by rw [e, haddr]⟩
    · rcases hrec h hm1 with e | ⟨c', hc', e⟩
      · exact ⟨r.chain, by simp, by rw [e, haddr]⟩
      · exact ⟨c', List.mem_cons_of_mem _ hc', e⟩
  · rw [htier]; exact nodup_heads_chainPut _ _ _ hnd
  · -- blank
    intro i hi
    have h1 : i ∉ r.chain := by
      intro hm
      have := hinv.range i (List.mem_append_right _ (by simp [hm]))
      omega
    have h2 : i ∉ r.freed := by
      intro hm
      have := hfreed i hm
      omega
    rw [hframe i h1 h2]
    exact hblank i (by omega)

/-- INSERT commutes with the abstraction: `write_insert_plan` succeeds, the head slot is the one
the index model's allocator returns, the continuation slots are those `Tier.resize` takes, and
the table represents the updated store. -/
theorem RepL.insert {t : VT} {A : AStore} {L : List (List Nat)} (h : RepL t A L) (tl v : Bytes)
    (c : Bool) (hok : WriteOk t (.partialKey tl) v)
    (hb : t.filled + numParts t (.partialKey tl) v ≤ 2 ^ 64) :
    ∃ r, writeChain t (.partialKey tl) v none c = .ok r ∧
      r.addr = (A.insert (tl, v, c) (numParts t (.partialKey tl) v - 1)).1 ∧
      RepL r.table (A.insert (tl, v, c) (numParts t (.partialKey tl) v - 1)).2 (r.chain :: L) ∧
      SameCfg t r.table ∧ r.addr = r.chain.headD 0 := by
  have hnd := h.inv.nodup
  have hrange := h.inv.range
  have hcount := h.inv.count
  obtain ⟨r, h1, h2, h3, h4, h5, h6, h7, h8⟩ := writeChain_spec t (.partialKey tl) v c A.tier.free []
    L hok h.inv.free (by simpa using hnd) (by simpa using hrange) (by simpa using hcount)
    h.inv.chains (Or.inl rfl) hb
  obtain ⟨r', g1, g2⟩ := writeChain_written t (.partialKey tl) v c A.tier.free []
    L hok h.inv.free (by simpa using hnd) (by simpa using hrange) (by simpa using hcount)
    h.inv.chains (Or.inl rfl) hb
  have er : r' = r := by rw [h1] at g1; injection g1 with e; exact e.symm
  subst er
  have h1' : writeChain t (.partialKey tl) v none c = .ok r' := h1
  have hpos : 0 < t.filled := by omega
  obtain ⟨hframe, hfill⟩ := writeChain_struct t _ v none c r' A.tier.free h.inv.free hpos h1'
  obtain ⟨m, hm⟩ : ∃ m, numParts t (.partialKey tl) v = m + 1 :=
    ⟨numParts t (.partialKey tl) v - 1, by have := @numParts_pos t (.partialKey tl) v; omega⟩
  have hm' : (chunksOf t (.partialKey tl) v).length = m + 1 := hm
  have hfill' : r'.table.filled = t.filled + (m + 1 - A.tier.free.length) := by
    rw [hfill, hm']; simp [oldWalk]
  rw [hm] at h2 h4 h6 ⊢
  rw [newChain_nil] at h2
  rw [newFree_nil] at h6
  simp only [Nat.add_sub_cancel]
  have hrest : chainRest A.tier.chains A.alloc.1 = [] := h.rest_of_dead _ (AStore.alloc_dead A)
  obtain ⟨e1, e2, e3⟩ := AStore.insert_spec A (tl, v, c) m hrest
  have haddr : r'.addr = (A.insert (tl, v, c) m).1 := by
    rw [e1, h3, h2, h.filled]
  refine ⟨r', h1', haddr, ?_, h8, h3⟩
  refine RepL.after_write h.parts h.heads h.inv.chains (fun c' hc' => ?_) h.blank hok h6 h5 h3 h7 h8 g2
    hframe (fun j hj => by rw [h4] at hj; simp at hj) (by omega) (fun i => by rw [e2 i, haddr])
    (fun i _ hi => h.off i hi) ?_ (fun hd hm' => Or.inr (h.recorded hd hm')) h.chainsNodup
  · have := length_le_flatten L c' hc'
    omega
  · rw [e3, ← haddr, hfill', h.filled, h2, h.filled]

/-- REPLACE IN PLACE commutes with the abstraction: `write_replace_plan` at the head of a live
chain keeps the address; the new chain keeps the first slots of the old one, the allocator state
is the one `Tier.resize` computes. -/
theorem RepL.replace {t : VT} {A : AStore} {L : List (List Nat)} (h : RepL t A L) (c0 : List Nat)
    (hc0 : c0 ∈ L) (tl v : Bytes) (c : Bool) (hok : WriteOk t (.partialKey tl) v)
    (hb : t.filled + numParts t (.partialKey tl) v ≤ 2 ^ 64) :
    ∃ r, writeChain t (.partialKey tl) v (some (c0.headD 0)) c = .ok r ∧ r.addr = c0.headD 0 ∧
      RepL r.table (A.replace (c0.headD 0) (tl, v, c) (numParts t (.partialKey tl) v - 1))
        (r.chain :: L.erase c0) ∧ SameCfg t r.table := by
  have hinv : ValueTable.SlotInv t A.tier.free (c0 :: L.erase c0) :=
    SlotInv_perm t _ _ _ (List.perm_cons_erase hc0) h.inv
  have hnd := hinv.nodup
  have hrange := hinv.range
  have hcount := hinv.count
  rw [List.flatten_cons] at hnd hrange hcount
  rw [List.length_append] at hcount
  have hchainsR : ∀ c' ∈ L.erase c0, IsChain t c' := fun c' hc' => hinv.chains c' (by simp [hc'])
  have hc0chain : IsChain t c0 := hinv.chains c0 (by simp)
  obtain ⟨r, h1, h2, h3, h4, h5, h6, h7, h8⟩ := writeChain_spec t (.partialKey tl) v c A.tier.free c0
    (L.erase c0) hok hinv.free hnd hrange hcount hchainsR (Or.inr hc0chain) hb
  obtain ⟨r', g1, g2⟩ := writeChain_written t (.partialKey tl) v c A.tier.free c0
    (L.erase c0) hok hinv.free hnd hrange hcount hchainsR (Or.inr hc0chain) hb
  have er : r' = r := by rw [h1] at g1; injection g1 with e; exact e.symm
  subst er
  -- the old chain as head :: rest
  have hdec := h.chain_eq c0 hc0
  generalize hrest : chainRest A.tier.chains (c0.headD 0) = rest at hdec
  generalize ha : c0.headD 0 = a at hdec hrest ⊢
  have hhead : c0.head? = some a := by rw [hdec]; rfl
  rw [hhead] at h1
  have hpos : 0 < t.filled := by omega
  obtain ⟨hframe, hfill⟩ := writeChain_struct t _ v (some a) c r' A.tier.free h.inv.free hpos h1
  obtain ⟨m, hm⟩ : ∃ m, numParts t (.partialKey tl) v = m + 1 :=
    ⟨numParts t (.partialKey tl) v - 1, by have := @numParts_pos t (.partialKey tl) v; omega⟩
  have hwalk : (oldWalk t (m + 1) (some a)).1 = c0.take (m + 1) := by
    have := oldWalk_spec t (m + 1) c0 (Or.inr hc0chain)
    rw [hhead] at this
    rw [this]
  have hm' : (chunksOf t (.partialKey tl) v).length = m + 1 := hm
  have hfill' : r'.table.filled = t.filled + (m - rest.length - A.tier.free.length) := by
    rw [hfill, hm', hwalk, hdec]
    simp only [List.take_succ_cons, List.length_cons, List.length_take]
    omega
  rw [hm] at h2 h4 h6 ⊢
  have e2 : newChain t A.tier.free c0 (m + 1) = a :: (rest.take m ++ (A.tier.free.take (m - rest.length) ++
      List.range' t.filled (m - rest.length - A.tier.free.length))) := by
    rw [hdec, newChain_cons]
  have e6 : newFree A.tier.free c0 (m + 1) =
      (rest.drop m).reverse ++ A.tier.free.drop (m - rest.length) := by
    rw [hdec, newFree_cons]
  rw [e2] at h2
  rw [e6] at h6
  simp only [Nat.add_sub_cancel]
  have haddr : r'.addr = a := by rw [h3, h2]; rfl
  refine ⟨r', h1, haddr, ?_, h8⟩
  have hmemL : ∀ c' ∈ L.erase c0, c' ∈ L := fun c' hc' => List.mem_of_mem_erase hc'
  have hndc : (c0 ++ (L.erase c0).flatten).Nodup := (List.nodup_append.mp hnd).2.1
  have hotherHead : ∀ c' ∈ L.erase c0, c'.headD 0 ≠ a := by
    intro c' hc'
    rw [← ha]
    exact head_not_in_others c0 _ hndc (h.ne_nil c0 hc0) c' hc' (h.ne_nil c' (hmemL c' hc'))
  refine RepL.after_write (fun c' hc' => h.parts c' (hmemL c' hc')) (fun c' hc' => h.heads c' (hmemL c' hc'))
    hchainsR (fun c' hc' => ?_) h.blank hok h6 h5 h3 h7 h8 g2 hframe (fun j hj => ?_) (by omega)
    (fun i => ?_) (fun i hi hi2 => ?_) ?_ (fun hd hm' => ?_) h.chainsNodup
  · have := length_le_flatten (L.erase c0) c' hc'
    omega
  · rw [h4, hdec] at hj
    have := hrange j (List.mem_append_right _ (List.mem_append_left _ (by
      rw [hdec]; exact List.mem_of_mem_drop hj)))
    exact this
  · simp only [AStore.replace, AStore.resize, AStore.setCell, haddr]
  · -- a cell off the remaining heads and off `a`
    apply h.off i
    intro c' hc' e
    by_cases ec : c' = c0
    · rw [ec, ha] at e; exact hi (by rw [haddr]; exact e.symm)
    · exact hi2 c' ((List.mem_erase_of_ne ec).mpr hc') e
  · simp only [AStore.replace, AStore.resize, AStore.setCell, Tier.resize, hrest, haddr]
    rw [hfill', h.filled, h2, h.filled]
    rfl
  · obtain ⟨c', hc', e⟩ := h.recorded hd hm'
    by_cases ec : c' = c0
    · left; rw [haddr, ← e, ec, ha]
    · exact Or.inr ⟨c', (List.mem_erase_of_ne ec).mpr hc', e⟩

/-- REMOVE commutes with the abstraction: `write_remove_plan` at the head of a live chain empties
the cell and pushes every slot of the chain on the free list, last part on top. -/
theorem RepL.remove {t : VT} {A : AStore} {L : List (List Nat)} (h : RepL t A L) (c0 : List Nat)
    (hc0 : c0 ∈ L) (hb : t.filled ≤ 2 ^ 64) :
    ∃ t', removePlan t (c0.headD 0) = .ok (t', c0) ∧
      RepL t' (A.remove (c0.headD 0)) (L.erase c0) ∧ SameCfg t t' ∧ t'.filled = t.filled := by
  have hinv : ValueTable.SlotInv t A.tier.free (c0 :: L.erase c0) :=
    SlotInv_perm t _ _ _ (List.perm_cons_erase hc0) h.inv
  have hnd := hinv.nodup
  have hrange := hinv.range
  have hcount := hinv.count
  rw [List.flatten_cons] at hnd hrange hcount
  rw [List.length_append] at hcount
  obtain ⟨t', h1, h2, h3, h4, h5⟩ := removePlan_spec t A.tier.free c0 (L.erase c0) hinv hb
  have h1' : removePlan t (c0.headD 0) = .ok (t', c0) := h1
  have hframe := removePlan_frame t _ t' c0 h1'
  have hdec := h.chain_eq c0 hc0
  have hmemL : ∀ c' ∈ L.erase c0, c' ∈ L := fun c' hc' => List.mem_of_mem_erase hc'
  have hndc : (c0 ++ (L.erase c0).flatten).Nodup := (List.nodup_append.mp hnd).2.1
  have hotherHead : ∀ c' ∈ L.erase c0, c'.headD 0 ≠ c0.headD 0 := fun c' hc' =>
    head_not_in_others c0 _ hndc (h.ne_nil c0 hc0) c' hc' (h.ne_nil c' (hmemL c' hc'))
  refine ⟨t', h1', ?_, h4, h5⟩
  refine ⟨by rw [h5, h.filled]; rfl, ?_, ?_, ?_, ?_, ?_, ?_, ?_⟩
  · show ValueTable.SlotInv t' ((c0.headD 0 :: chainRest A.tier.chains (c0.headD 0)).reverse ++ A.tier.free) _
    rw [← hdec]; exact h2
  · intro c' hc' j hj
    obtain ⟨a, b⟩ := h.parts c' (hmemL c' hc') j hj
    have hjm : j ∈ (L.erase c0).flatten := List.mem_flatten.mpr ⟨c', hc', List.mem_of_mem_tail hj⟩
    exact ⟨by rw [h4.2.1]; exact a, by rw [h3 j hjm]; exact b⟩
  · intro c' hc'
    obtain ⟨a, b, d⟩ := h.heads c' (hmemL c' hc')
    have hne' := hotherHead c' hc'
    simp only [AStore.remove, AStore.setCell, hne', if_false]
    refine ⟨?_, b, ?_⟩
    · rw [← a]
      apply absVT_congr_read
      intro key'
      have hl := length_le_flatten (L.erase c0) c' hc'
      exact readChain_congr t t' h4 key' c' (hinv.chains c' (by simp [hc']))
        (fun x hx => h3 x (List.mem_flatten.mpr ⟨c', hc', hx⟩)) (by omega) (by omega)
    · rw [chainRest_chainDrop, if_neg hne']; exact d
  · intro i hi
    simp only [AStore.remove, AStore.setCell]
    by_cases e : i = c0.headD 0
    · rw [if_pos e]
    · rw [if_neg e]
      apply h.off i
      intro c' hc' e'
      by_cases ec : c' = c0
      · rw [ec] at e'; exact e e'.symm
      · exact hi c' ((List.mem_erase_of_ne ec).mpr hc') e'
  · intro hd hm
    simp only [AStore.remove] at hm
    obtain ⟨hm1, hne'⟩ := (mem_heads_chainDrop _ _ _).1 hm
    obtain ⟨c', hc', e⟩ := h.recorded hd hm1
    have ec : c' ≠ c0 := by
      intro ec; rw [ec] at e; exact hne' e.symm
    exact ⟨c', (List.mem_erase_of_ne ec).mpr hc', e⟩
  · simp only [AStore.remove]
    exact nodup_heads_chainDrop _ _ h.chainsNodup
  · intro i hi
    have h1 : i ∉ c0 := by
      intro hm
      have := hrange i (List.mem_append_right _ (List.mem_append_left _ hm))
      omega
    rw [hframe i h1]
    exact h.blank i (by omega)

/-! ## chains: what C06 gives at the head slot, for any witnesses of its invariant -/

/-- INSERT, any table: the cell at the returned head slot holds the value whatever the number of
parts; the slots come off the free list first (the allocation order of the index model, repeated
once per part); the cells at the heads of the other live chains are unchanged. -/
theorem heads_insert (t : VT) (tl v : Bytes) (c : Bool) (F : List Nat) (L : List (List Nat))
    (hok : WriteOk t (.partialKey tl) v) (hinv : ValueTable.SlotInv t F L)
    (hb : t.filled + numParts t (.partialKey tl) v ≤ 2 ^ 64) :
    ∃ r, writeChain t (.partialKey tl) v none c = .ok r ∧ r.addr = r.chain.headD 0 ∧
      r.chain = F.take (numParts t (.partialKey tl) v) ++
        List.range' t.filled (numParts t (.partialKey tl) v - F.length) ∧
      absVT r.table r.addr = some (tl, v, c) ∧
      ValueTable.SlotInv r.table (F.drop (numParts t (.partialKey tl) v)) (r.chain :: L) ∧
      ∀ ch ∈ L, absVT r.table (ch.headD 0) = absVT t (ch.headD 0) := by
  obtain ⟨r, h1, h2, h3, _, h5, h6⟩ := C06_roundtrip t (.partialKey tl) v c F L hok hinv hb
  obtain ⟨r', g1, g2, _⟩ := C06_insert_reuses_free t (.partialKey tl) v c F L hok hinv hb
  have : r' = r := by rw [h1] at g1; injection g1 with e; exact e.symm
  subst this
  exact ⟨r', h1, h3, g2, absVT_of_read _ tl _ v c 1 h2, h5,
    fun ch hch => absVT_congr_read t r'.table _ (h6 ch hch)⟩

/-- REPLACE, any table: same address (the old head), the new value whatever the old and new
chain lengths. -/
theorem heads_replace (t : VT) (tl v : Bytes) (c : Bool) (F c0 : List Nat) (Lr : List (List Nat))
    (hok : WriteOk t (.partialKey tl) v) (hinv : ValueTable.SlotInv t F (c0 :: Lr))
    (hb : t.filled + numParts t (.partialKey tl) v ≤ 2 ^ 64) :
    ∃ r, writeChain t (.partialKey tl) v (some (c0.headD 0)) c = .ok r ∧ r.addr = c0.headD 0 ∧
      absVT r.table r.addr = some (tl, v, c) ∧
      ValueTable.SlotInv r.table (newFree F c0 (numParts t (.partialKey tl) v)) (r.chain :: Lr) ∧
      ∀ ch ∈ Lr, absVT r.table (ch.headD 0) = absVT t (ch.headD 0) := by
  obtain ⟨r, h1, h2, h3, _, h5, h6⟩ := C06_replace_roundtrip t (.partialKey tl) v c F c0 Lr hok hinv hb
  exact ⟨r, h1, h2, absVT_of_read _ tl _ v c 1 h3, h5,
    fun ch hch => absVT_congr_read t r.table _ (h6 ch hch)⟩

/-- REMOVE, any table: the cell at the head becomes empty, every slot of the chain goes to the
free list (last part on top). -/
theorem heads_remove (t : VT) (F c0 : List Nat) (Lr : List (List Nat))
    (hinv : ValueTable.SlotInv t F (c0 :: Lr)) (hb : t.filled ≤ 2 ^ 64) :
    ∃ t', removePlan t (c0.headD 0) = .ok (t', c0) ∧ absVT t' (c0.headD 0) = none ∧
      ValueTable.SlotInv t' (c0.reverse ++ F) Lr ∧
      ∀ ch ∈ Lr, absVT t' (ch.headD 0) = absVT t (ch.headD 0) := by
  obtain ⟨t', h1, h2, _, h4⟩ := C06_remove_frees t F c0 Lr hinv hb
  refine ⟨t', h1, ?_, h2, fun ch hch => absVT_congr_read t t' _ (h4 ch hch)⟩
  have hne := IsChain_ne_nil t c0 (hinv.chains c0 (by simp))
  have hmem : c0.headD 0 ∈ c0.reverse ++ F := by
    cases c0 with
    | nil => exact absurd rfl hne
    | cons a r => simp
  exact absVT_tombstone t' _ (FreeChain_mem t' _ _ h2.free _ hmem).2.2

end Pdb.Refine
