/-
R8 (physical btree column), part 4: the abstraction is untouched by a step that leaves the header
and the reachable nodes alone; owners are pairwise distinct; the owner list may be permuted; a
value rewritten in place keeps the joint invariant with the same tree.
-/
import Pdb.Proofs.RefineBt3

namespace Pdb.BTreePhys
open Pdb.Gen Pdb.ValueTable

/-! ## abstraction frame -/

theorem physHeader_congr {decomp : Bytes → Option Bytes} {c c' : PCol}
    (h : entryAt c' HEADER_ADDRESS = entryAt c HEADER_ADDRESS) :
    physHeader decomp c' = physHeader decomp c := by
  unfold physHeader; rw [valueAt_of_entryAt h]

/-- If the header and every reachable node read as before, the abstraction is the same tree with
the same node addresses. -/
theorem abs_frame (decomp : Bytes → Option Bytes) (c c' : PCol)
    (h : ∀ a ∈ HEADER_ADDRESS :: rootNodes decomp c, entryAt c' a = entryAt c a) :
    absTree decomp c' = absTree decomp c ∧ rootNodes decomp c' = rootNodes decomp c := by
  have hh := physHeader_congr (decomp := decomp) (h HEADER_ADDRESS (by simp))
  unfold absTree rootNodes at *
  rw [hh]
  cases hp : physHeader decomp c with
  | error e => exact ⟨rfl, rfl⟩
  | ok rd =>
    obtain ⟨root, depth⟩ := rd
    simp only
    by_cases h0 : root = NULL_ADDRESS
    · simp [h0]
    · rw [if_neg h0, if_neg h0]
      have := absNode_congr decomp c c' depth root (by
        intro x hx
        apply valueAt_of_entryAt
        apply h
        rw [hp]
        simp only [if_neg h0]
        exact List.mem_cons_of_mem _ hx)
      rw [this.1, this.2]
      exact ⟨rfl, rfl⟩

/-! ## owners are pairwise distinct -/

theorem owners_nodup_aux (c : PCol) : ∀ (own : List Nat),
    (∀ τ, (tierChains c own τ).flatten.Nodup) → (∀ τ, ∀ ch ∈ tierChains c own τ, ch ≠ []) →
    own.Nodup := by
  intro own
  induction own with
  | nil => intro _ _; exact List.nodup_nil
  | cons a own ih =>
    intro hnd hne
    have hsub : ∀ τ, ∃ pre, tierChains c (a :: own) τ = pre ++ tierChains c own τ := by
      intro τ
      by_cases e : Address.size_tier a = τ
      · exact ⟨[_], by rw [tierChains_cons_same _ _ _ _ e]; rfl⟩
      · exact ⟨[], by rw [tierChains_cons_other _ _ _ _ e]; rfl⟩
    refine List.nodup_cons.mpr ⟨?_, ih ?_ ?_⟩
    · intro hmem
      have hnd' := hnd (Address.size_tier a)
      rw [tierChains_cons_same _ _ _ _ rfl, List.flatten_cons] at hnd'
      have hin : chainOf (c.tables (Address.size_tier a)) (Address.offset a) ∈
          tierChains c own (Address.size_tier a) :=
        (mem_tierChains c own _ _).mpr ⟨a, hmem, rfl, rfl⟩
      have hnn := hne (Address.size_tier a) _ (by
        rw [tierChains_cons_same _ _ _ _ rfl]; exact List.mem_cons_self)
      have hx := headD_mem_of_ne_nil _ hnn
      exact (List.nodup_append.mp hnd').2.2 _ hx _ (List.mem_flatten.mpr ⟨_, hin, hx⟩) rfl
    · intro τ
      obtain ⟨pre, hp⟩ := hsub τ
      have := hnd τ
      rw [hp, List.flatten_append] at this
      exact (List.nodup_append.mp this).2.1
    · intro τ ch hch
      obtain ⟨pre, hp⟩ := hsub τ
      exact hne τ ch (by rw [hp]; exact List.mem_append_right _ hch)

theorem ColInv.nodup {c : PCol} {own : List Nat} (h : ColInv c own) : own.Nodup := by
  have hall : ∀ τ, (tierChains c own τ).flatten.Nodup ∧ ∀ ch ∈ tierChains c own τ, ch ≠ [] := by
    intro τ
    by_cases ht : τ < NTABLES
    · obtain ⟨F, hF⟩ := h.slots τ ht
      exact ⟨(List.nodup_append.mp hF.nodup).2.1, fun ch hc => IsChain_ne_nil _ _ (hF.chains ch hc)⟩
    · have : tierChains c own τ = [] := by
        unfold tierChains
        rw [List.map_eq_nil_iff, List.filter_eq_nil_iff]
        intro a ha
        have := h.tiers a ha
        simp only [beq_iff_eq]
        omega
      rw [this]; exact ⟨by simp, by simp⟩
  exact owners_nodup_aux c own (fun τ => (hall τ).1) (fun τ => (hall τ).2)

/-! ## the order of the owner list is irrelevant -/

theorem tierChains_perm (c : PCol) (own own' : List Nat) (hp : own.Perm own') (τ : Nat) :
    (tierChains c own τ).Perm (tierChains c own' τ) := by
  unfold tierChains
  exact (hp.filter _).map _

theorem ColInv.perm {c : PCol} {own own' : List Nat} (hp : own.Perm own') (h : ColInv c own) :
    ColInv c own' := by
  refine ⟨h.cfg, fun a ha => h.tiers a (hp.mem_iff.mpr ha), ?_⟩
  intro tier ht
  obtain ⟨F, hF⟩ := h.slots tier ht
  exact ⟨F, SlotInv_perm _ F _ _ (tierChains_perm c own own' hp tier) hF⟩

/-- the joint invariant of the model in terms of `ColInv` -/
theorem jointInv_iff (decomp : Bytes → Option Bytes) (c : PCol) (t : C04.Tree Nat)
    (hcfg : ∀ tier, SameCfg (tableOfTier c.rc tier) (c.tables tier)) :
    JointInv decomp c t ↔
      absTree decomp c = some t ∧ C04.treeInvB t = true ∧ ColInv c (owners decomp c t) := by
  unfold JointInv
  constructor
  · rintro ⟨h1, h2, h3, h4⟩; exact ⟨h1, h2, hcfg, h3, h4⟩
  · rintro ⟨h1, h2, h3⟩; exact ⟨h1, h2, h3.tiers, h3.slots⟩

/-! ## a value rewritten in place -/

/-- VALUE REPLACE.  Under the joint invariant for the tree `t`, rewriting the value stored at the
address `a` of a separator (`a ∈ valAddrs t`), when the new stored form stays in the tier of `a`,
succeeds in place, keeps the joint invariant WITH THE SAME TREE (no node, no header byte moves),
stores the new value at `a` and leaves every other owner's entry as it was. -/
theorem value_replace (decomp : Bytes → Option Bytes) (cp : Cmp) (c : PCol) (t : C04.Tree Nat)
    (a : Nat) (v : Bytes)
    (hcfg : ∀ tier, SameCfg (tableOfTier c.rc tier) (c.tables tier))
    (hj : JointInv decomp c t) (ha : a ∈ valAddrs t)
    (hτe : Address.size_tier a = newTier cp c v)
    (hb : (c.tables (newTier cp c v)).filled +
      numParts (c.tables (newTier cp c v)) .noHash (storedForm cp.cmp cp.threshold v).1 ≤ 2 ^ 56) :
    ∃ c', physWriteValue cp c (some a) v = .ok (c', none) ∧
      JointInv decomp c' t ∧
      (∀ tier, SameCfg (tableOfTier c'.rc tier) (c'.tables tier)) ∧
      entryAt c' a = .ok (some (storedForm cp.cmp cp.threshold v)) ∧
      (∀ b ∈ owners decomp c t, b ≠ a → entryAt c' b = entryAt c b) ∧
      rootNodes decomp c' = rootNodes decomp c ∧ c'.rc = c.rc ∧
      (∀ tier, (c'.tables tier).filled ≤ (c.tables tier).filled +
        numParts (c.tables (newTier cp c v)) .noHash (storedForm cp.cmp cp.threshold v).1) := by
  obtain ⟨habs, hti, hci⟩ := (jointInv_iff decomp c t hcfg).mp hj
  have hown : a ∈ owners decomp c t := by
    unfold owners
    exact List.mem_cons_of_mem _ (List.mem_append_right _ ha)
  have hnd := hci.nodup
  have hperm := List.perm_cons_erase hown
  have hci' := hci.perm hperm
  obtain ⟨c', hw, hrd, hinv', hfr, hrc, hfl⟩ := step_replace cp c a _ v hci' hτe hb
  have hmem_erase : ∀ b ∈ owners decomp c t, b ≠ a → b ∈ (owners decomp c t).erase a :=
    fun b hb hne => (hnd.mem_erase_iff).mpr ⟨hne, hb⟩
  -- the header and the nodes are owners different from `a`
  have ha_notnode : a ∉ HEADER_ADDRESS :: rootNodes decomp c := by
    intro hin
    unfold owners at hnd
    rw [← List.cons_append] at hnd
    exact (List.nodup_append.mp hnd).2.2 a hin a ha rfl
  have hframe : ∀ b ∈ HEADER_ADDRESS :: rootNodes decomp c, entryAt c' b = entryAt c b := by
    intro b hb
    have hbo : b ∈ owners decomp c t := by
      unfold owners
      rcases List.mem_cons.mp hb with rfl | hb
      · exact List.mem_cons_self
      · exact List.mem_cons_of_mem _ (List.mem_append_left _ hb)
    exact hfr b (hmem_erase b hbo (fun e => ha_notnode (e ▸ hb)))
  obtain ⟨hab', hrn'⟩ := abs_frame decomp c c' hframe
  have hown' : owners decomp c' t = owners decomp c t := by unfold owners; rw [hrn']
  refine ⟨c', ?_, ?_, hinv'.cfg, hrd, fun b hb hne => hfr b (hmem_erase b hb hne), hrn', hrc, hfl⟩
  · unfold physWriteValue; exact hw
  · refine (jointInv_iff decomp c' t hinv'.cfg).mpr ⟨hab'.trans habs, hti, ?_⟩
    rw [hown']
    exact hinv'.perm hperm.symm

end Pdb.BTreePhys
