/-
C06 helper lemmas, part 6: `writeChain` as a whole - preconditions the column code guarantees,
shape of the parts, and the combined specification (write, read back, invariant, frame).
-/
import Pdb.Proofs.C06Write
import Pdb.Proofs.C06Tier

namespace Pdb.ValueTable
open Pdb.Gen

/-- What the column code guarantees when it calls `overwrite_chain` on table `t`:
the table is one of the column's tables, the key tail has 26 bytes, the `assert!` holds, and a
value sent to the multipart table does not fit one entry (tier selection, see
`C06_multipart_tier_is_long`). -/
structure WriteOk (t : VT) (key : TKey) (v : Bytes) : Prop where
  wf : t.WF
  key_ok : key.Ok
  fits : FitsTable t key v
  long : t.multipart = true → freeSpace t < (bodyOf t key v).length

/-- number of slots the value occupies -/
def numParts (t : VT) (key : TKey) (v : Bytes) : Nat := (chunksOf t key v).length

theorem bodyOf_length (t : VT) (key : TKey) (v : Bytes) (hk : key.Ok) :
    (bodyOf t key v).length = refSize t + key.encodedSize + v.length := by
  unfold bodyOf
  simp only [List.length_append, rcBytes_length]
  rw [hk]

theorem WF_bounds (t : VT) (h : t.WF) : MIN_ENTRY_SIZE ≤ t.entrySize ∧ t.entrySize ≤ MAX_ENTRY_SIZE := by
  rcases h with ⟨_, h⟩ | ⟨_, h⟩
  · exact sizes_range _ h
  · rw [h]; exact multipart_size_range

theorem encodedSize_le (key : TKey) : key.encodedSize ≤ PARTIAL_SIZE := by
  cases key <;> simp [TKey.encodedSize]

theorem refSize_le (t : VT) : refSize t ≤ REFS_SIZE := by
  unfold refSize; split <;> simp

theorem WriteOk.facts {t : VT} {key : TKey} {v : Bytes} (h : WriteOk t key v) :
    SIZE_SIZE + INDEX_SIZE ≤ t.entrySize ∧ freeSpace t ≤ maxStoredLen ∧ 0 < partCap t ∧
    partCap t ≤ freeSpace t ∧
    (t.multipart = false → (bodyOf t key v).length ≤ freeSpace t) ∧
    (t.multipart = true → hdrLen t key < partCap t) := by
  have hb := WF_bounds t h.wf
  have hk := encodedSize_le key
  have hr := refSize_le t
  have hbl := bodyOf_length t key v h.key_ok
  simp only [MIN_ENTRY_SIZE, MAX_ENTRY_SIZE] at hb
  simp only [PARTIAL_SIZE] at hk
  simp only [REFS_SIZE] at hr
  simp only [partCap, freeSpace, maxStoredLen, hdrLen, SIZE_SIZE, INDEX_SIZE, MAX_ENTRY_SIZE]
  refine ⟨by omega, by omega, by omega, by omega, ?_, ?_⟩
  · intro hmp
    rcases h.fits with hm | ⟨s, hs, hle⟩
    · rw [hmp] at hm; exact absurd hm (by simp)
    · obtain ⟨e1, e2⟩ := valueSizeOf_some _ _ _ _ hs
      have hrs : (if t.refCounted = true then REFS_SIZE else 0) = refSize t := rfl
      rw [hrs] at e1 e2
      simp only [SIZE_SIZE] at e1 e2
      omega
  · intro hmp
    rcases h.wf with ⟨h1, _⟩ | ⟨_, h2⟩
    · rw [hmp] at h1; exact absurd h1 (by simp)
    · rw [h2]; simp only [MULTIPART_ENTRY_SIZE]; omega

/-- shape of the parts of a value -/
theorem chunksOf_shape {t : VT} {key : TKey} {v : Bytes} (h : WriteOk t key v) :
    GoodChunks (freeSpace t) (partCap t) (chunksOf t key v) ∧
    ∃ p0 cs, chunksOf t key v = (rcBytes t ++ key.bytes ++ p0) :: cs ∧ p0 ++ cs.flatten = v ∧
      ((t.multipart = false ∧ cs = []) ∨ (t.multipart = true ∧ cs ≠ [])) := by
  obtain ⟨_, _, hcap, hle, hshort, hhdr⟩ := h.facts
  have hbl := bodyOf_length t key v h.key_ok
  refine ⟨?_, ?_⟩
  · unfold chunksOf
    apply splitBody_good _ _ hcap hle
    have := Nat.le_mul_of_pos_right (bodyOf t key v).length hcap
    omega
  · cases hmp : t.multipart
    · refine ⟨v, [], ?_, by simp, Or.inl ⟨rfl, rfl⟩⟩
      unfold chunksOf
      rw [splitBody_short _ _ _ _ (hshort hmp)]
      rfl
    · have hlong := h.long hmp
      have hne : (bodyOf t key v).length = ((bodyOf t key v).length - 1) + 1 := by omega
      obtain ⟨r, hr, hrne⟩ := splitBody_long (freeSpace t) (partCap t) ((bodyOf t key v).length - 1)
        (bodyOf t key v) hlong
      rw [← hne] at hr
      have hflat := splitBody_flatten (freeSpace t) (partCap t) (bodyOf t key v).length (bodyOf t key v)
      rw [hr, List.flatten_cons] at hflat
      have hh := hhdr hmp
      have htake : (bodyOf t key v).take (partCap t) =
          rcBytes t ++ key.bytes ++ v.take (partCap t - hdrLen t key) := by
        unfold bodyOf
        rw [List.take_append]
        have hl : (rcBytes t ++ key.bytes).length = hdrLen t key := by
          simp [rcBytes_length, hdrLen, h.key_ok.symm]
        rw [hl, List.take_of_length_le (by omega)]
      refine ⟨v.take (partCap t - hdrLen t key), r, ?_, ?_, Or.inr ⟨rfl, hrne⟩⟩
      · unfold chunksOf; rw [hr, htake]
      · rw [htake] at hflat
        have : rcBytes t ++ key.bytes ++ (v.take (partCap t - hdrLen t key) ++ r.flatten) =
            rcBytes t ++ key.bytes ++ v := by
          rw [← List.append_assoc]; exact hflat
        exact List.append_cancel_left this

theorem numParts_pos {t : VT} {key : TKey} {v : Bytes} : 0 < numParts t key v := by
  unfold numParts chunksOf
  exact List.length_pos_iff.mpr (splitBody_ne_nil _ _ _ _)

theorem oldWalk_spec (t : VT) (k : Nat) (c0 : List Nat) (h : c0 = [] ∨ IsChain t c0) :
    oldWalk t k c0.head? = (c0.take k, c0[k]?) := by
  cases c0 with
  | nil => simp [oldWalk]
  | cons a r =>
    rcases h with h | h
    · exact absurd h (by simp)
    · simp only [List.head?_cons, oldWalk]
      exact walk_spec t k a r h

/-- slots of the value after the write: reused old slots, popped free slots, fresh slots -/
def newChain (t : VT) (F c0 : List Nat) (k : Nat) : List Nat := extChain t F (c0.take k) k

/-- free list after the write: freed tail of the old chain on top of the unpopped rest -/
def newFree (F c0 : List Nat) (k : Nat) : List Nat := (c0.drop k).reverse ++ F.drop (k - c0.length)

/-- `overwrite_chain` as a whole.  `c0` is the old chain (`[]` for an insert). -/
theorem writeChain_spec (t : VT) (key : TKey) (v : Bytes) (compressed : Bool)
    (F c0 : List Nat) (Lr : List (List Nat)) (hok : WriteOk t key v)
    (hF : FreeChain t t.lastRemoved F)
    (hnd : (F ++ (c0 ++ Lr.flatten)).Nodup)
    (hrange : ∀ i ∈ F ++ (c0 ++ Lr.flatten), 1 ≤ i ∧ i < t.filled)
    (hcount : F.length + (c0.length + Lr.flatten.length) + 1 = t.filled)
    (hchains : ∀ c ∈ Lr, IsChain t c)
    (hc0 : c0 = [] ∨ IsChain t c0)
    (hb : t.filled + numParts t key v ≤ 2 ^ 64) :
    ∃ r, writeChain t key v c0.head? compressed = .ok r ∧
      r.chain = newChain t F c0 (numParts t key v) ∧ r.addr = r.chain.headD 0 ∧
      r.freed = c0.drop (numParts t key v) ∧
      readChain r.table key r.addr = .ok (some (v, compressed, 1)) ∧
      SlotInv r.table (newFree F c0 (numParts t key v)) (r.chain :: Lr) ∧
      (∀ i ∈ Lr.flatten, r.table.slots i = t.slots i) ∧ SameCfg t r.table := by
  obtain ⟨hes, hfs, hcap, hle, hshort, hhdr⟩ := hok.facts
  obtain ⟨hg, p0, cs, hchunks, hval, hshape⟩ := chunksOf_shape hok
  have hkpos : 0 < numParts t key v := numParts_pos
  have hmp : 2 ≤ (chunksOf t key v).length → t.multipart = true := by
    intro h2
    rcases hshape with ⟨_, h⟩ | ⟨h, _⟩
    · rw [hchunks, h] at h2; simp at h2
    · exact h
  -- unfold the guards
  have hguard2 : ¬ (freeSpace t < (bodyOf t key v).length ∧ partCap t ≤ hdrLen t key) := by
    intro ⟨h1, h2⟩
    cases hm : t.multipart
    · have := hshort hm; omega
    · have := hhdr hm; omega
  have hwc : writeChain t key v c0.head? compressed =
      writeCore t compressed (chunksOf t key v) (c0.take (numParts t key v), c0[numParts t key v]?) := by
    unfold writeChain
    have hnp : ¬ writePanics t key v := by
      intro h
      rcases h with h | h
      · exact h hok.fits
      · exact hguard2 h
    rw [if_neg hnp, oldWalk_spec t _ c0 hc0]
    rfl
  -- common tail: reading back
  have hread : ∀ (r : WrOk), r.addr = r.chain.headD 0 →
      Written r.table compressed true r.chain (chunksOf t key v) →
      SlotInv r.table (newFree F c0 (numParts t key v)) (r.chain :: Lr) → SameCfg t r.table →
      r.table.filled ≤ t.filled + (chunksOf t key v).length →
      readChain r.table key r.addr = .ok (some (v, compressed, 1)) := by
    intro r haddr hW hinv hcfg hfill
    rw [hchunks] at hW hg
    cases hch : r.chain with
    | nil => rw [hch] at hW; simp [Written] at hW
    | cons i idxs =>
      rw [hch] at hW hinv
      rw [haddr, hch]
      simp only [List.headD_cons]
      rw [← hval]
      have hfill' : r.table.filled ≤ 2 ^ 64 := by unfold numParts at hb; omega
      refine readChain_written r.table key compressed hok.key_ok (by rw [hcfg.freeSpace_eq]; exact hfs)
        (by rw [hcfg.1]; exact hes) i idxs _ p0 cs hW
        (by rw [hcfg.freeSpace_eq, hcfg.partCap_eq]; exact hg) (by rw [hcfg.rcBytes_eq]) ?_ ?_ ?_
      · intro j hj
        have := hinv.range j (by simp [List.flatten_cons, hj])
        omega
      · have := hinv.count
        simp only [List.flatten_cons, List.length_append, List.length_cons] at this
        omega
      · rw [hcfg.2.1]
        have hlen : (i :: idxs).length = ((rcBytes t ++ key.bytes ++ p0) :: cs).length :=
          Written_length _ _ _ _ _ hW
        rcases hshape with ⟨h1, h2⟩ | ⟨h1, h2⟩
        · right; refine ⟨h1, ?_⟩
          rw [h2] at hlen; simp at hlen; exact hlen
        · left; refine ⟨h1, ?_⟩
          intro hnil; rw [hnil] at hlen
          cases cs with
          | nil => exact h2 rfl
          | cons _ _ => simp at hlen
  by_cases hm : c0.length ≤ numParts t key v
  · -- Case A
    have htake : c0.take (numParts t key v) = c0 := List.take_of_length_le hm
    have hget : c0[numParts t key v]? = none := List.getElem?_eq_none (by omega)
    have hdrop : c0.drop (numParts t key v) = [] := List.drop_of_length_le hm
    obtain ⟨r, h1, h2, h3, h4, h5, h6, h7, h8, h9⟩ := writeCore_extend t compressed (chunksOf t key v)
      F c0 Lr hfs hg hmp hF hnd hrange hcount hchains hb hm
    have hnc : newChain t F c0 (numParts t key v) = r.chain := by
      unfold newChain; rw [htake, h2]; rfl
    have hnf : newFree F c0 (numParts t key v) = F.drop ((chunksOf t key v).length - c0.length) := by
      unfold newFree; rw [hdrop]; rfl
    have hinv : SlotInv r.table (newFree F c0 (numParts t key v)) (r.chain :: Lr) := by
      rw [hnf, h2]; exact h6
    refine ⟨r, by rw [hwc, htake, hget]; exact h1, hnc.symm, by rw [h3, h2], by rw [h4, hdrop], ?_,
      hinv, h7, h8⟩
    exact hread r (by rw [h3, h2]) (by rw [h2]; exact h5) hinv h8 h9
  · -- Case B
    have hm' : (chunksOf t key v).length < c0.length := by unfold numParts at hm; omega
    have hc0' : IsChain t c0 := by
      rcases hc0 with h | h
      · rw [h] at hm'; simp at hm'
      · exact h
    obtain ⟨r, h1, h2, h3, h4, h5, h6, h7, h8, h9⟩ := writeCore_shrink t compressed (chunksOf t key v)
      F c0 Lr hfs hg hmp hF hnd hrange hcount hchains hc0' (by omega) hm'
    have hnc : newChain t F c0 (numParts t key v) = r.chain := by
      unfold newChain extChain numParts
      rw [h2]
      have : (chunksOf t key v).length - (c0.take (chunksOf t key v).length).length = 0 := by
        simp only [List.length_take]; omega
      rw [this]; simp
    have hnf : newFree F c0 (numParts t key v) = (c0.drop (chunksOf t key v).length).reverse ++ F := by
      unfold newFree numParts
      have : (chunksOf t key v).length - c0.length = 0 := by omega
      rw [this]; simp
    have hinv : SlotInv r.table (newFree F c0 (numParts t key v)) (r.chain :: Lr) := by
      rw [hnf, h2]; exact h6
    refine ⟨r, by rw [hwc]; exact h1, hnc.symm, by rw [h3, h2], by rw [h4]; rfl, ?_, hinv, h7, h8⟩
    exact hread r (by rw [h3, h2]) (by rw [h2]; exact h5) hinv h8 h9

end Pdb.ValueTable
