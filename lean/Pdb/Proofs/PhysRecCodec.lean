/-
R7_codec: the writes of a physical record, put into the record format of Pdb/Model/Wal.lean
(`toAction`) and read back from the parsed actions (`ofAction`), are the same writes; the write
function of replay (`stepAction`) folded over the actions of records is `applyWrites`.
-/
import Pdb.Proofs.PhysRec
import Pdb.Proofs.GenBits
import Pdb.Proofs.C13Codec

namespace Pdb.PhysRec
open Pdb.Gen Pdb.Index Pdb.ValueTable Pdb.Refine

theorem setBits_two_pow : ∀ i, i < 64 → Wal.setBits (2 ^ i) = [i] := by decide +kernel

theorem popcount_two_pow (i : Nat) (h : i < 64) : Wal.popcount (2 ^ i) = 1 := by
  have := setBits_two_pow i h
  simp only [Wal.setBits] at this
  simp [Wal.popcount, this]

theorem ofU8_toU8 (bs : Bytes) (h : ∀ x ∈ bs, x < 256) : ofU8 (toU8 bs) = bs := by
  induction bs with
  | nil => rfl
  | cons b bs ih =>
    have hb : b < 256 := h b List.mem_cons_self
    simp only [ofU8, toU8, List.map_cons, List.map_map] at ih ⊢
    rw [ih (fun x hx => h x (List.mem_cons_of_mem _ hx))]
    congr 1
    simp only [UInt8.toNat_ofNat']
    omega

/-- CODEC ROUND TRIP for one write (column id below 256). -/
theorem ofAction_toAction (col : Nat) (hcol : col < 256) (w : Write) (h : Write.Enc w) :
    ofAction (toAction col w) = [w] := by
  obtain ⟨wl, wi⟩ := w
  cases wl with
  | idx b c i =>
    obtain ⟨hb, hi, e, he, he64⟩ := h
    simp only at he
    subst he
    have hp := popcount_two_pow i hi
    have hs := setBits_two_pow i hi
    have hl : (Wal.leBytes 8 e).length = 8 := Wal.length_leBytes 8 e
    simp only [toAction, ofAction, hp, hs, Wal.pieces, List.headD_cons, INDEX_ENTRY_BYTES]
    have ht : (Wal.leBytes 8 e).take 8 = Wal.leBytes 8 e := List.take_of_length_le (by omega)
    rw [ht]
    simp only [List.zip_cons_cons, List.zip_nil_right, List.map_cons, List.map_nil,
      (tableId_roundtrip col b hcol hb).2]
    rw [Wal.leVal_leBytes_of_lt (by simpa using he64)]
  | val tier s =>
    obtain ⟨ht, hs, hby⟩ := h
    simp only [toAction, ofAction, if_neg hs, (tableId_roundtrip col tier hcol ht).2,
      ofU8_toU8 wi hby]
  | hdr tier =>
    obtain ⟨ht, lr, f, he, hlr, hf⟩ := h
    simp only at he
    subst he
    have hl : (Wal.leBytes 8 lr).length = 8 := Wal.length_leBytes 8 lr
    have hl2 : (Wal.leBytes 8 f).length = 8 := Wal.length_leBytes 8 f
    simp only [toAction, ofAction, if_true, List.headD_cons, List.getD_cons_succ, List.getD_cons_zero,
      (tableId_roundtrip col tier hcol ht).2]
    have t1 : (Wal.leBytes 8 lr ++ Wal.leBytes 8 f).take 8 = Wal.leBytes 8 lr := by
      rw [List.take_append_of_le_length (by omega), List.take_of_length_le (by omega)]
    have t2 : ((Wal.leBytes 8 lr ++ Wal.leBytes 8 f).drop 8).take 8 = Wal.leBytes 8 f := by
      rw [List.drop_append_of_le_length (by omega), List.drop_of_length_le (by omega),
        List.nil_append, List.take_of_length_le (by omega)]
    rw [t1, t2, Wal.leVal_leBytes_of_lt (by simpa using hlr), Wal.leVal_leBytes_of_lt (by simpa using hf)]

/-- the write function of replay, folded over the actions of a list of writes, applies the writes -/
theorem foldl_stepAction (col : Nat) (hcol : col < 256) (ws : List Write) (h : ∀ w ∈ ws, Write.Enc w) :
    ∀ p : PCol, (ws.map (toAction col)).foldl stepAction p = applyWrites p ws := by
  induction ws with
  | nil => intro p; rfl
  | cons w ws ih =>
    intro p
    simp only [List.map_cons, List.foldl_cons]
    rw [ih (fun x hx => h x (List.mem_cons_of_mem _ hx))]
    simp only [stepAction, ofAction_toAction col hcol w (h w List.mem_cons_self)]
    rfl

/-- ... and over the actions of a list of records -/
theorem foldl_stepAction_records (col : Nat) (hcol : col < 256) (recs : List (List Write))
    (h : ∀ w ∈ recs.flatten, Write.Enc w) :
    ∀ p : PCol, (recs.flatMap (fun ws => ws.map (toAction col))).foldl stepAction p =
      applyWrites p recs.flatten := by
  induction recs with
  | nil => intro p; rfl
  | cons r rs ih =>
    intro p
    simp only [List.flatMap_cons, List.foldl_append, List.flatten_cons]
    rw [foldl_stepAction col hcol r (fun w hw => h w (by simp [hw])),
      ih (fun w hw => h w (by
        rw [List.flatten_cons]; exact List.mem_append_right _ hw)), applyWrites_append]

end Pdb.PhysRec
