/-
R8 (physical btree column), part 5: the whole transaction `Set(k, v)` on a present key whose value
stays in its tier (`physSetExisting`, the function the harness runs against the real crate with
`c04b phys put`): descent to the node holding the key, value entry rewritten in place, node entry
rewritten at its address.  The joint invariant holds again with the same tree.
-/
import Pdb.Proofs.RefineBt4
import Pdb.Proofs.C04Node
import Pdb.Props.C04d

namespace Pdb.BTreePhys
open Pdb.Gen Pdb.ValueTable

/-! ## the abstraction depends on the nodes only through `fetchNode` -/

theorem absNode_congr_fetch (decomp : Bytes → Option Bytes) (c c' : PCol) :
    ∀ (d a : Nat), (∀ x ∈ reachNodes decomp c d a, fetchNode decomp c' x = fetchNode decomp c x) →
      absNode decomp c' d a = absNode decomp c d a ∧
      reachNodes decomp c' d a = reachNodes decomp c d a := by
  intro d
  induction d with
  | zero =>
    intro a h
    have hf := h a (by simp [reachNodes])
    refine ⟨?_, by simp [reachNodes]⟩
    rw [absNode, absNode, hf]
  | succ d ih =>
    intro a h
    have ha : a ∈ reachNodes decomp c (d + 1) a := by
      rw [reachNodes]; unfold reachStep; cases fetchNode decomp c a <;> simp
    have hf := h a ha
    rw [absNode, absNode, reachNodes, reachNodes, hf]
    cases hn : fetchNode decomp c a with
    | error e => simp [absStep, reachStep]
    | ok n =>
      have hch : ∀ x ∈ n.children, absNode decomp c' d x = absNode decomp c d x ∧
          reachNodes decomp c' d x = reachNodes decomp c d x := by
        intro x hx
        apply ih
        intro y hy
        apply h
        rw [reachNodes, hn]
        simp only [reachStep, List.mem_cons, List.mem_flatten, List.mem_map]
        exact Or.inr ⟨_, ⟨x, hx, rfl⟩, hy⟩
      have e1 : n.children.map (absNode decomp c' d) = n.children.map (absNode decomp c d) :=
        List.map_congr_left (fun x hx => (hch x hx).1)
      have e2 : n.children.map (reachNodes decomp c' d) = n.children.map (reachNodes decomp c d) :=
        List.map_congr_left (fun x hx => (hch x hx).2)
      simp only [absStep, reachStep, e1, e2]
      exact ⟨trivial, trivial⟩

theorem abs_frame_fetch (decomp : Bytes → Option Bytes) (c c' : PCol)
    (hh : entryAt c' HEADER_ADDRESS = entryAt c HEADER_ADDRESS)
    (hn : ∀ x ∈ rootNodes decomp c, fetchNode decomp c' x = fetchNode decomp c x) :
    absTree decomp c' = absTree decomp c ∧ rootNodes decomp c' = rootNodes decomp c := by
  have hh' := physHeader_congr (decomp := decomp) hh
  unfold absTree rootNodes at *
  rw [hh']
  cases hp : physHeader decomp c with
  | error e => exact ⟨rfl, rfl⟩
  | ok rd =>
    obtain ⟨root, depth⟩ := rd
    simp only
    by_cases h0 : root = NULL_ADDRESS
    · simp [h0]
    · rw [if_neg h0, if_neg h0]
      have := absNode_congr_fetch decomp c c' depth root (by
        intro x hx
        apply hn
        rw [hp]
        simp only [if_neg h0]
        exact hx)
      rw [this.1, this.2]
      exact ⟨rfl, rfl⟩

/-! ## the descent to the node that holds the key -/

theorem mem_reachNodes_self (decomp : Bytes → Option Bytes) (c : PCol) (d a : Nat) :
    a ∈ reachNodes decomp c d a := by
  cases d with
  | zero => simp [reachNodes]
  | succ d => rw [reachNodes]; unfold reachStep; cases fetchNode decomp c a <;> simp

theorem physFind_abs (decomp : Bytes → Option Bytes) (c : PCol) (k : Key) (va : Nat) :
    ∀ (d fuel a : Nat) (n : C04.RawNode) (N : C04.Node Nat), d < fuel →
      fetchNode decomp c a = .ok n → absNode decomp c d a = some N →
      C04.nodeGet d N k = some va →
      ∃ na n' i key, physFind decomp c fuel a n k = .ok (some (na, n', i)) ∧
        na ∈ reachNodes decomp c d a ∧ fetchNode decomp c na = .ok n' ∧
        n'.seps[i]? = some (key, va) := by
  intro d
  induction d with
  | zero =>
    intro fuel a n N hf hn hN hget
    obtain ⟨n', h1, h2, h3⟩ := absNode_zero hN
    rw [hn] at h1
    obtain rfl : n = n' := Except.ok.inj h1
    subst h3
    obtain ⟨f, rfl⟩ : ∃ f, fuel = f + 1 := ⟨fuel - 1, by omega⟩
    rw [C04.nodeGet] at hget
    simp only [C04.Node.seps] at hget
    by_cases hp : (C04.position n.seps k).1 = true
    · simp only [hp, if_true] at hget
      obtain ⟨s, hs1, hs2⟩ := Option.map_eq_some_iff.mp hget
      refine ⟨a, n, (C04.position n.seps k).2, s.1, ?_, mem_reachNodes_self decomp c 0 a, hn, ?_⟩
      · rw [physFind]; simp only [findStep, hp, if_true]
      · rw [hs1, ← hs2]
    · simp [hp] at hget
  | succ d ih =>
    intro fuel a n N hf hn hN hget
    obtain ⟨n', L, h1, h2, h3, h4⟩ := absNode_succ hN
    rw [hn] at h1
    obtain rfl : n = n' := Except.ok.inj h1
    subst h4
    obtain ⟨f, rfl⟩ : ∃ f, fuel = f + 1 := ⟨fuel - 1, by omega⟩
    rw [C04.nodeGet] at hget
    simp only [C04.Node.seps, C04.Node.children] at hget
    by_cases hp : (C04.position n.seps k).1 = true
    · simp only [hp, if_true] at hget
      obtain ⟨s, hs1, hs2⟩ := Option.map_eq_some_iff.mp hget
      refine ⟨a, n, (C04.position n.seps k).2, s.1, ?_, mem_reachNodes_self decomp c _ a, hn, ?_⟩
      · rw [physFind]; simp only [findStep, hp, if_true]
      · rw [hs1, ← hs2]
    · simp only [hp] at hget
      rw [physFind]
      simp only [findStep, hp]
      generalize (C04.position n.seps k).2 = i at hget ⊢
      cases hl : L[i]? with
      | none => rw [hl] at hget; simp at hget
      | some Ni =>
        rw [hl] at hget
        simp only at hget
        have hLi : (L.map some)[i]? = some (some Ni) := by rw [List.getElem?_map, hl]; rfl
        rw [← h3, List.getElem?_map] at hLi
        cases hi : n.children[i]? with
        | none => rw [hi] at hLi; simp at hLi
        | some x =>
          rw [hi] at hLi
          have hNi : absNode decomp c d x = some Ni := by simpa using hLi
          have hx : x ∈ n.children := List.mem_of_getElem? hi
          have hx0 : x ≠ 0 := by
            have := List.all_eq_true.mp h2 x hx
            simpa using this
          have hs : n.slot i = x := by
            unfold C04.RawNode.slot
            rw [List.getD_eq_getElem?_getD, hi]; rfl
          obtain ⟨ch, hch⟩ := absNode_fetch hNi
          obtain ⟨na, n'', j, key, e1, e2, e3, e4⟩ := ih f x ch Ni (by omega) hch hNi hget
          refine ⟨na, n'', j, key, ?_, ?_, e3, e4⟩
          · rw [hs]
            simp only [Bool.false_eq_true, if_false, if_neg hx0, hch]
            exact e1
          · rw [reachNodes, hn]
            simp only [reachStep, List.mem_cons, List.mem_flatten, List.mem_map]
            exact Or.inr ⟨_, ⟨x, hx, rfl⟩, e2⟩

theorem set_self {α : Type} : ∀ (l : List α) (i : Nat) (x : α), l[i]? = some x → l.set i x = l := by
  intro l
  induction l with
  | nil => intro i x h; simp at h
  | cons a r ih =>
    intro i x h
    cases i with
    | zero => simp at h; simp [h]
    | succ i => simp at h; simp [ih i x h]

/-- bounds a node must satisfy to be written (true of every decoded node: 8-byte addresses, key
lengths below the entry length) -/
def NodeBounds (n : C04.RawNode) : Prop :=
  (∀ s ∈ n.seps, s.1.length < 2 ^ 32 ∧ s.2 < 2 ^ 64) ∧ ∀ x ∈ n.children, x < 2 ^ 64

theorem abs_header (decomp : Bytes → Option Bytes) (c : PCol) (t : C04.Tree Nat)
    (h : absTree decomp c = some t) :
    ∃ root, physHeader decomp c = .ok (root, t.depth) ∧
      (root = NULL_ADDRESS → t.root = .empty) ∧
      (root ≠ NULL_ADDRESS → absNode decomp c t.depth root = some t.root) := by
  unfold absTree at h
  cases hp : physHeader decomp c with
  | error e => rw [hp] at h; simp at h
  | ok rd =>
    obtain ⟨root, depth⟩ := rd
    rw [hp] at h
    simp only at h
    by_cases h0 : root = NULL_ADDRESS
    · rw [if_pos h0] at h
      obtain rfl := Option.some.inj h
      exact ⟨root, rfl, fun _ => rfl, fun x => absurd h0 x⟩
    · rw [if_neg h0] at h
      obtain ⟨n, hn, rfl⟩ := Option.map_eq_some_iff.mp h
      exact ⟨root, rfl, fun x => absurd x h0, fun _ => hn⟩

theorem nodeGet_empty (d : Nat) (k : Key) : C04.nodeGet d (C04.Node.empty : C04.Node Nat) k = none := by
  cases d <;> simp [C04.nodeGet, C04.Node.empty, C04.Node.seps, C04.Node.children, C04.position]

theorem node_stored (b : Bytes) :
    storedForm noCompression.cmp noCompression.threshold b = (b, false) := by
  unfold storedForm noCompression
  simp only [id]
  split
  · rw [if_neg (Nat.lt_irrefl _)]
  · rfl

theorem node_fetch (decomp : Bytes → Option Bytes) (c' : PCol) (a : Nat) (n : C04.RawNode)
    (hlen : n.seps.length ≤ C04.ORDER) (hch : n.children.length = n.seps.length + 1)
    (hk : ∀ s ∈ n.seps, s.1.length < 2 ^ 32 ∧ 0 < s.2 ∧ s.2 < 2 ^ 64)
    (hc : ∀ x ∈ n.children, x < 2 ^ 64)
    (h : entryAt c' a = .ok (some (storedForm noCompression.cmp noCompression.threshold
      (C04.encodeNode n)))) :
    fetchNode decomp c' a = .ok n := by
  rw [node_stored] at h
  unfold fetchNode valueAt
  rw [h]
  simp only [decodeEntry]
  rw [C04.C04_node_roundtrip_exact n hlen hch hk hc]

theorem fetchNode_shape {decomp : Bytes → Option Bytes} {c : PCol} {a : Nat} {n : C04.RawNode}
    (h : fetchNode decomp c a = .ok n) :
    n.seps.length ≤ C04.ORDER ∧ n.children.length = n.seps.length + 1 ∧ ∀ s ∈ n.seps, 0 < s.2 := by
  unfold fetchNode at h
  cases hv : valueAt decomp c a with
  | error e => rw [hv] at h; simp at h
  | ok o =>
    rw [hv] at h
    cases o with
    | none => simp at h
    | some b =>
      simp only at h
      cases hd : C04.decodeNode b with
      | ok m =>
        rw [hd] at h
        obtain rfl : m = n := Except.ok.inj h
        obtain ⟨h1, h2, _, h4⟩ := (C04.C04_node_decode_total b).2.1 m hd
        exact ⟨h1, h2, h4⟩
      | corrupt => rw [hd] at h; simp at h
      | outOfFuel => rw [hd] at h; simp at h

theorem sameCfg_of_tier {c c1 : PCol} (hrc : c1.rc = c.rc) (tier : Nat)
    (h : SameCfg (tableOfTier c.rc tier) (c.tables tier))
    (h1 : SameCfg (tableOfTier c1.rc tier) (c1.tables tier)) :
    SameCfg (c.tables tier) (c1.tables tier) := by
  rw [hrc] at h1
  exact ⟨h1.1.trans h.1.symm, h1.2.1.trans h.2.1.symm, h1.2.2.trans h.2.2.symm⟩

/-- WHOLE TRANSACTION `Set(k, v)`, present key, value stays in its tier.  `hnode`: every reachable
node, as decoded, satisfies `NodeBounds`, its entry lives in the tier `Column::compress` selects for
its re-encoding (what `write_node_plan` established when it wrote the node; the harness checks
`enc=same` for every real node), and there is room in the 56-bit offset space. -/
theorem set_existing_inplace (decomp : Bytes → Option Bytes) (cp : Cmp) (c : PCol) (t : C04.Tree Nat)
    (k : Key) (va : Nat) (v : Bytes)
    (hcfg : ∀ tier, SameCfg (tableOfTier c.rc tier) (c.tables tier))
    (hj : JointInv decomp c t) (hk : C04.nodeGet t.depth t.root k = some va)
    (hva : va ∈ valAddrs t)
    (hτe : Address.size_tier va = newTier cp c v)
    (hb : (c.tables (newTier cp c v)).filled +
      numParts (c.tables (newTier cp c v)) .noHash (storedForm cp.cmp cp.threshold v).1 ≤ 2 ^ 56)
    (hnode : ∀ na ∈ rootNodes decomp c, ∀ n, fetchNode decomp c na = .ok n →
      NodeBounds n ∧ Address.size_tier na = newTier noCompression c (C04.encodeNode n) ∧
      (c.tables (Address.size_tier na)).filled +
        numParts (c.tables (newTier cp c v)) .noHash (storedForm cp.cmp cp.threshold v).1 +
        numParts (c.tables (Address.size_tier na)) .noHash (C04.encodeNode n) ≤ 2 ^ 56) :
    ∃ c2, physSetExisting decomp cp c k v = .ok (some (c2, false)) ∧
      JointInv decomp c2 t ∧
      (∀ tier, SameCfg (tableOfTier c2.rc tier) (c2.tables tier)) ∧
      entryAt c2 va = .ok (some (storedForm cp.cmp cp.threshold v)) := by
  obtain ⟨habs, hti, hci⟩ := (jointInv_iff decomp c t hcfg).mp hj
  obtain ⟨root, hp, h0, h1⟩ := abs_header decomp c t habs
  have hr : root ≠ NULL_ADDRESS := by
    intro e
    rw [h0 e, nodeGet_empty] at hk
    exact absurd hk (by simp)
  obtain ⟨rn, hrn⟩ := absNode_fetch (h1 hr)
  obtain ⟨na, n, i, key, e1, e2, e3, e4⟩ := physFind_abs decomp c k va t.depth (getFuel c t.depth)
    root rn t.root (Nat.lt_of_lt_of_le (Nat.lt_succ_self _) (Nat.le_max_left _ _)) hrn (h1 hr) hk
  have hroot : rootNodes decomp c = reachNodes decomp c t.depth root := by
    unfold rootNodes; rw [hp]; simp only [if_neg hr]
  have hna : na ∈ rootNodes decomp c := by rw [hroot]; exact e2
  -- step 1: the value
  obtain ⟨c1, hw1, hj1, hcfg1, hrd1, hfr1, hrn1, hrc1, hfl1⟩ :=
    value_replace decomp cp c t va v hcfg hj hva hτe hb
  have hnd := hci.nodup
  have hdisj : ∀ x ∈ HEADER_ADDRESS :: rootNodes decomp c, x ≠ va := by
    intro x hx e
    have hnd' := hnd
    unfold owners at hnd'
    rw [← List.cons_append] at hnd'
    exact (List.nodup_append.mp hnd').2.2 x hx va hva e
  have hmem_own : ∀ x ∈ HEADER_ADDRESS :: rootNodes decomp c, x ∈ owners decomp c t := by
    intro x hx
    unfold owners
    rcases List.mem_cons.mp hx with rfl | hx
    · exact List.mem_cons_self
    · exact List.mem_cons_of_mem _ (List.mem_append_left _ hx)
  have hva_own : va ∈ owners decomp c t := by
    unfold owners; exact List.mem_cons_of_mem _ (List.mem_append_right _ hva)
  have hfetch1 : ∀ x ∈ rootNodes decomp c, fetchNode decomp c1 x = fetchNode decomp c x := by
    intro x hx
    have hx' : x ∈ HEADER_ADDRESS :: rootNodes decomp c := List.mem_cons_of_mem _ hx
    exact fetchNode_congr (valueAt_of_entryAt (hfr1 x (hmem_own x hx') (hdisj x hx')))
  have e3' : fetchNode decomp c1 na = .ok n := by rw [hfetch1 na hna]; exact e3
  -- step 2: the node, rewritten with the same content
  obtain ⟨hbnd, hτn, hspace⟩ := hnode na hna n e3
  obtain ⟨hs1, hs2, hs3⟩ := fetchNode_shape e3
  obtain ⟨habs1, _, hci1⟩ := (jointInv_iff decomp c1 t hcfg1).mp hj1
  have hown1 : owners decomp c1 t = owners decomp c t := by unfold owners; rw [hrn1]
  rw [hown1] at hci1
  have hna_own : na ∈ owners decomp c t := hmem_own na (List.mem_cons_of_mem _ hna)
  have hperm := List.perm_cons_erase hna_own
  have hci1' := hci1.perm hperm
  have hτn1 : Address.size_tier na = newTier noCompression c1 (C04.encodeNode n) := by
    rw [hτn]; unfold newTier; rw [hrc1]
  have hsc : SameCfg (c.tables (Address.size_tier na)) (c1.tables (Address.size_tier na)) :=
    sameCfg_of_tier hrc1 _ (hcfg _) (hcfg1 _)
  have hbn : (c1.tables (newTier noCompression c1 (C04.encodeNode n))).filled +
      numParts (c1.tables (newTier noCompression c1 (C04.encodeNode n))) .noHash
        (storedForm noCompression.cmp noCompression.threshold (C04.encodeNode n)).1 ≤ 2 ^ 56 := by
    rw [← hτn1, node_stored, Refine.numParts_cfg _ _ _ _ hsc]
    dsimp only
    have := hfl1 (Address.size_tier na)
    omega
  obtain ⟨c2, hw2, hrd2, hinv2, hfr2, hrc2, _⟩ :=
    step_replace noCompression c1 na _ (C04.encodeNode n) hci1' hτn1 hbn
  have hfetch2na : fetchNode decomp c2 na = .ok n :=
    node_fetch decomp c2 na n hs1 hs2
      (fun s hs => ⟨(hbnd.1 s hs).1, hs3 s hs, (hbnd.1 s hs).2⟩) hbnd.2 hrd2
  have hmem_erase : ∀ b ∈ owners decomp c t, b ≠ na → b ∈ (owners decomp c t).erase na :=
    fun b hb hne => (hnd.mem_erase_iff).mpr ⟨hne, hb⟩
  have hfetch2 : ∀ x ∈ rootNodes decomp c1, fetchNode decomp c2 x = fetchNode decomp c1 x := by
    intro x hx
    rw [hrn1] at hx
    by_cases e : x = na
    · subst e; rw [hfetch2na, e3']
    · exact fetchNode_congr (valueAt_of_entryAt
        (hfr2 x (hmem_erase x (hmem_own x (List.mem_cons_of_mem _ hx)) e)))
  have hhdr_ne : HEADER_ADDRESS ≠ na := by
    intro e
    have hnd' := hnd
    unfold owners at hnd'
    exact (List.nodup_cons.mp hnd').1 (by rw [e]; exact List.mem_append_left _ hna)
  have hh2 : entryAt c2 HEADER_ADDRESS = entryAt c1 HEADER_ADDRESS :=
    hfr2 _ (hmem_erase _ (hmem_own _ List.mem_cons_self) hhdr_ne)
  obtain ⟨hab2, hrn2⟩ := abs_frame_fetch decomp c1 c2 hh2 hfetch2
  have hown2 : owners decomp c2 t = owners decomp c t := by unfold owners; rw [hrn2, hrn1]
  have hva_ne : va ≠ na := fun e => hdisj na (List.mem_cons_of_mem _ hna) e.symm
  refine ⟨c2, ?_, ?_, hinv2.cfg, ?_⟩
  · -- the function computes exactly these two steps
    have hn' : ({ n with seps := n.seps.set i (key, (none : Option Nat).getD va) } : C04.RawNode) = n := by
      simp only [Option.getD_none, set_self n.seps i (key, va) e4]
    have hw1' : physWriteValue cp c (some va) v = .ok (c1, none) := hw1
    have hw2' : physWriteNode c1 n (some na) = .ok (c2, none) := hw2
    unfold physSetExisting
    simp only [hp, if_neg hr, hrn, e1, e4, hw1', hn', hw2', Option.isSome_none]
  · refine (jointInv_iff decomp c2 t hinv2.cfg).mpr ⟨hab2.trans habs1, hti, ?_⟩
    rw [hown2]
    exact hinv2.perm hperm.symm
  · rw [hfr2 va (hmem_erase va hva_own hva_ne)]
    exact hrd1

end Pdb.BTreePhys
