/-
C04 (b) separator codec round trip; (c) stable sort / de-duplication of a change list.
-/
import Pdb.Model.BTree
import Pdb.Proofs.C04Order

namespace Pdb.C04

/-! ## (b) codec -/

theorem leBytes_length (n x : Nat) : (leBytes n x).length = n := by
  induction n generalizing x with
  | zero => rfl
  | succ n ih => simp [leBytes, ih]

theorem fromLe_leBytes (n x : Nat) : fromLe (leBytes n x) = x % 256 ^ n := by
  induction n generalizing x with
  | zero => simp [leBytes, fromLe, Nat.mod_one]
  | succ n ih =>
    simp only [leBytes, fromLe, ih]
    rw [Nat.pow_succ, Nat.mul_comm (256 ^ n) 256, Nat.mod_mul]

theorem take_append_len {α : Type} {l1 l2 : List α} {n : Nat} (h : l1.length = n) :
    (l1 ++ l2).take n = l1 := by
  subst h; simp

theorem drop_append_len {α : Type} {l1 l2 : List α} {n : Nat} (h : l1.length = n) :
    (l1 ++ l2).drop n = l2 := by
  subst h; simp

theorem separator_roundtrip (key : List Nat) (value : Nat) (rest : List Nat)
    (hk : key.length < 2 ^ 32) (hv : 0 < value) (hv' : value < 2 ^ 64) :
    readSeparator (writeSeparator key value ++ rest) = .some key value rest := by
  have h8 : (leBytes 8 value).length = 8 := leBytes_length 8 value
  have hval : fromLe (leBytes 8 value) = value := by
    rw [fromLe_leBytes]; exact Nat.mod_eq_of_lt (by simpa using hv')
  have hv0 : value ≠ 0 := by omega
  unfold writeSeparator readSeparator
  by_cases hs : key.length ≥ U8_MAX
  · -- escaped length
    have h4 : (leBytes 4 key.length).length = 4 := leBytes_length 4 key.length
    have hsz : fromLe (leBytes 4 key.length) = key.length := by
      rw [fromLe_leBytes]; exact Nat.mod_eq_of_lt (by simpa using hk)
    simp only [hs, if_true]
    have e : leBytes 8 value ++ U8_MAX :: leBytes 4 key.length ++ key ++ rest =
        leBytes 8 value ++ (U8_MAX :: (leBytes 4 key.length ++ (key ++ rest))) := by
      simp [List.append_assoc]
    rw [e]
    have hlen : (leBytes 8 value ++ (U8_MAX :: (leBytes 4 key.length ++ (key ++ rest)))).length =
        8 + (1 + (4 + (key.length + rest.length))) := by
      simp [h8, h4]; omega
    have ht : (leBytes 8 value ++ (U8_MAX :: (leBytes 4 key.length ++ (key ++ rest)))).take 8 =
        leBytes 8 value := take_append_len h8
    have hd8 : (leBytes 8 value ++ (U8_MAX :: (leBytes 4 key.length ++ (key ++ rest)))).drop 8 =
        U8_MAX :: (leBytes 4 key.length ++ (key ++ rest)) := drop_append_len h8
    have hd9 : (leBytes 8 value ++ (U8_MAX :: (leBytes 4 key.length ++ (key ++ rest)))).drop 9 =
        leBytes 4 key.length ++ (key ++ rest) := by
      have : (9 : Nat) = 8 + 1 := rfl
      rw [this, ← List.drop_drop, hd8]; rfl
    rw [hlen, ht, hd8, hd9, hval]
    have t4 : (leBytes 4 key.length ++ (key ++ rest)).take 4 = leBytes 4 key.length :=
      take_append_len h4
    have d4 : (leBytes 4 key.length ++ (key ++ rest)).drop 4 = key ++ rest := drop_append_len h4
    have l4 : (leBytes 4 key.length ++ (key ++ rest)).length = 4 + (key.length + rest.length) := by
      simp [h4]
    simp only [List.headD_cons, if_true, t4, d4, l4, hsz, List.length_append,
      take_append_len (rfl : key.length = key.length),
      drop_append_len (rfl : key.length = key.length)]
    have c1 : ¬ (8 + (1 + (4 + (key.length + rest.length))) = 0) := by omega
    have c2 : ¬ (8 + (1 + (4 + (key.length + rest.length))) < 8 + 1) := by omega
    have c3 : ¬ (4 + (key.length + rest.length) < 4) := by omega
    have c4 : ¬ (key.length + rest.length < key.length) := by omega
    simp only [c1, c2, c3, c4, hv0, if_false]
  · -- one length byte
    have hs' : key.length < U8_MAX := by omega
    simp only [hs, if_false]
    have e : leBytes 8 value ++ [key.length] ++ key ++ rest =
        leBytes 8 value ++ (key.length :: (key ++ rest)) := by
      simp [List.append_assoc]
    rw [e]
    have hlen : (leBytes 8 value ++ (key.length :: (key ++ rest))).length =
        8 + (1 + (key.length + rest.length)) := by
      simp [h8]; omega
    have ht : (leBytes 8 value ++ (key.length :: (key ++ rest))).take 8 = leBytes 8 value :=
      take_append_len h8
    have hd8 : (leBytes 8 value ++ (key.length :: (key ++ rest))).drop 8 =
        key.length :: (key ++ rest) := drop_append_len h8
    have hd9 : (leBytes 8 value ++ (key.length :: (key ++ rest))).drop 9 = key ++ rest := by
      have : (9 : Nat) = 8 + 1 := rfl
      rw [this, ← List.drop_drop, hd8]; rfl
    rw [hlen, ht, hd8, hd9, hval]
    have hne : ¬ key.length = U8_MAX := by omega
    have c1 : ¬ (8 + (1 + (key.length + rest.length)) = 0) := by omega
    have c2 : ¬ (8 + (1 + (key.length + rest.length)) < 8 + 1) := by omega
    have c4 : ¬ (key.length + rest.length < key.length) := by omega
    simp only [List.headD_cons, hne, c1, c2, c4, hv0, if_false, List.length_append,
      take_append_len (rfl : key.length = key.length),
      drop_append_len (rfl : key.length = key.length)]

/-! ## (c) the change list: stable sort, last operation per key -/

variable {V : Type}

/-- operations sorted by key, not strictly (`changes.sort()` result) -/
def OpsSorted (l : List (Op V)) : Prop := l.Pairwise (fun a b => keyLt b.key a.key = false)

theorem insertFront_perm (x : Op V) (l : List (Op V)) : (insertFront x l).Perm (x :: l) := by
  induction l with
  | nil => exact List.Perm.refl _
  | cons y ys ih =>
    simp only [insertFront]
    by_cases h : keyLt y.key x.key = true
    · rw [if_pos h]
      exact (List.Perm.cons y ih).trans (List.Perm.swap x y ys)
    · rw [if_neg h]

theorem stableSort_perm (cs : List (Op V)) : (stableSort cs).Perm cs := by
  induction cs with
  | nil => exact List.Perm.refl _
  | cons x xs ih =>
    simp only [stableSort]
    exact (insertFront_perm x _).trans (List.Perm.cons x ih)

theorem insertFront_filter (x : Op V) (l : List (Op V)) (k : Key) :
    (insertFront x l).filter (fun op => op.key = k) =
      (x :: l).filter (fun op => op.key = k) := by
  induction l with
  | nil => rfl
  | cons y ys ih =>
    simp only [insertFront]
    by_cases h : keyLt y.key x.key = true
    · rw [if_pos h]
      have hne : y.key ≠ x.key := keyLt_ne h
      simp only [List.filter_cons] at ih ⊢
      rw [ih]
      by_cases hx : x.key = k
      · have hy : ¬ y.key = k := fun e => hne (e.trans hx.symm)
        simp [hx, hy]
      · simp [hx]
    · rw [if_neg h]

theorem stableSort_filter (cs : List (Op V)) (k : Key) :
    (stableSort cs).filter (fun op => op.key = k) = cs.filter (fun op => op.key = k) := by
  induction cs with
  | nil => rfl
  | cons x xs ih =>
    simp only [stableSort]
    rw [insertFront_filter]
    simp only [List.filter_cons, ih]

theorem insertFront_sorted (x : Op V) {l : List (Op V)} (h : OpsSorted l) :
    OpsSorted (insertFront x l) := by
  induction l with
  | nil => simp [insertFront, OpsSorted]
  | cons y ys ih =>
    have hy := List.pairwise_cons.mp h
    simp only [insertFront]
    by_cases hlt : keyLt y.key x.key = true
    · rw [if_pos hlt]
      refine List.pairwise_cons.mpr ⟨?_, ih hy.2⟩
      intro z hz
      have := (insertFront_perm x ys).mem_iff.mp hz
      rcases List.mem_cons.mp this with rfl | hz'
      · exact keyLt_asymm hlt
      · exact hy.1 z hz'
    · rw [if_neg hlt]
      refine List.pairwise_cons.mpr ⟨?_, h⟩
      intro z hz
      rcases List.mem_cons.mp hz with rfl | hz'
      · simpa using hlt
      · -- x ≤ y ≤ z
        have h1 : keyLt y.key x.key = false := by simpa using hlt
        have h2 := hy.1 z hz'
        cases hc : keyLt z.key x.key with
        | false => rfl
        | true =>
          -- z < x ≤ y, contradiction with y ≤ z
          have : keyLt z.key y.key = true := keyLt_of_lt_of_le hc h1
          rw [this] at h2; exact absurd h2 (by decide)

theorem stableSort_sorted (cs : List (Op V)) : OpsSorted (stableSort cs) := by
  induction cs with
  | nil => exact List.Pairwise.nil
  | cons x xs ih => exact insertFront_sorted x ih

/-! ### the last operation on a key decides -/

def lastOp (cs : List (Op V)) (x : Key) : Option (Op V) :=
  (cs.filter (fun op => op.key = x)).getLast?

def effect (o : Option (Op V)) (old : Option V) : Option V :=
  match o with
  | some (.set _ v) => some v
  | some (.del _) => none
  | none => old

theorem sorted_specApply (cs : List (Op V)) {l : List (Key × V)} (hl : Sorted l) :
    Sorted (specApply cs l) := by
  unfold specApply
  induction cs generalizing l with
  | nil => exact hl
  | cons op cs ih =>
    simp only [List.foldl_cons]
    apply ih
    cases op with
    | set k v => exact sorted_put hl k v
    | del k => exact sorted_del hl k

theorem lastOp_cons (op : Op V) (cs : List (Op V)) (x : Key) :
    lastOp (op :: cs) x = (lastOp cs x).or (if op.key = x then some op else none) := by
  unfold lastOp
  simp only [List.filter_cons]
  by_cases h : op.key = x
  · simp only [h, decide_true, if_true]
    cases hf : cs.filter (fun op => decide (op.key = x)) with
    | nil => rfl
    | cons a l =>
      rw [List.getLast?_cons_cons]
      cases h' : (a :: l).getLast? with
      | none => simp at h'
      | some z => rfl
  · simp only [h, decide_false, Bool.false_eq_true, if_false]
    cases (cs.filter (fun op => decide (op.key = x))).getLast? <;> rfl

theorem lookup_specApply (cs : List (Op V)) {l : List (Key × V)} (hl : Sorted l) (x : Key) :
    lookup (specApply cs l) x = effect (lastOp cs x) (lookup l x) := by
  induction cs generalizing l with
  | nil => rfl
  | cons op cs ih =>
    have hstep : specApply (op :: cs) l =
        specApply cs (match op with
                      | .set k v => put l k v
                      | .del k => del l k) := rfl
    rw [hstep, lastOp_cons]
    cases op with
    | set k v =>
      rw [ih (sorted_put hl k v), lookup_put]
      cases lastOp cs x with
      | some o => rw [Option.some_or]; cases o <;> rfl
      | none =>
        by_cases h : k = x <;> simp [effect, Op.key, h]
    | del k =>
      rw [ih (sorted_del hl k), lookup_del hl]
      cases lastOp cs x with
      | some o => rw [Option.some_or]; cases o <;> rfl
      | none =>
        by_cases h : k = x <;> simp [effect, Op.key, h]

theorem sorted_ext {β : Type} {l1 l2 : List (Key × β)} (h1 : Sorted l1) (h2 : Sorted l2)
    (h : ∀ x, lookup l1 x = lookup l2 x) : l1 = l2 := by
  induction l1 generalizing l2 with
  | nil =>
    cases l2 with
    | nil => rfl
    | cons b t =>
      have := h b.1
      simp [lookup] at this
  | cons a t1 ih =>
    cases l2 with
    | nil =>
      have := h a.1
      simp [lookup] at this
    | cons b t2 =>
      obtain ⟨k1, v1⟩ := a
      obtain ⟨k2, v2⟩ := b
      have hk : k1 = k2 := by
        rcases keyLt_total k1 k2 with hlt | he | hgt
        · -- k1 is not in l2
          exfalso
          have e1 : lookup ((k1, v1) :: t1) k1 = some v1 := by simp [lookup]
          have e2 : lookup ((k2, v2) :: t2) k1 = none := by
            apply lookup_none.mpr
            intro y hy hyk
            rcases List.mem_cons.mp hy with rfl | hy'
            · simp only at hyk; rw [hyk, keyLt_irrefl] at hlt; exact absurd hlt (by decide)
            · have := h2.head_lt y hy'
              simp only at this
              rw [hyk] at this
              rw [keyLt_asymm hlt] at this; exact absurd this (by decide)
          rw [h k1, e2] at e1; exact absurd e1 (by simp)
        · exact he
        · exfalso
          have e1 : lookup ((k2, v2) :: t2) k2 = some v2 := by simp [lookup]
          have e2 : lookup ((k1, v1) :: t1) k2 = none := by
            apply lookup_none.mpr
            intro y hy hyk
            rcases List.mem_cons.mp hy with rfl | hy'
            · simp only at hyk; rw [hyk, keyLt_irrefl] at hgt; exact absurd hgt (by decide)
            · have := h1.head_lt y hy'
              simp only at this
              rw [hyk] at this
              rw [keyLt_asymm hgt] at this; exact absurd this (by decide)
          rw [← h k2, e2] at e1; exact absurd e1 (by simp)
      subst hk
      have hv : v1 = v2 := by
        have := h k1
        simpa [lookup] using this
      subst hv
      congr 1
      apply ih h1.tail h2.tail
      intro x
      by_cases hx : k1 = x
      · subst hx
        have n1 : lookup t1 k1 = none := lookup_none.mpr (fun y hy e => by
          have := h1.head_lt y hy
          simp only at this
          rw [e, keyLt_irrefl] at this; exact absurd this (by decide))
        have n2 : lookup t2 k1 = none := lookup_none.mpr (fun y hy e => by
          have := h2.head_lt y hy
          simp only at this
          rw [e, keyLt_irrefl] at this; exact absurd this (by decide))
        rw [n1, n2]
      · have := h x
        simpa [lookup, hx] using this

theorem lastOp_stableSort (cs : List (Op V)) (x : Key) :
    lastOp (stableSort cs) x = lastOp cs x := by
  unfold lastOp
  rw [stableSort_filter]

theorem dedupLast_sublist (l : List (Op V)) : (dedupLast l).Sublist l := by
  induction l with
  | nil => exact List.Sublist.slnil
  | cons a t ih =>
    cases t with
    | nil => exact List.Sublist.refl _
    | cons b rest =>
      simp only [dedupLast]
      by_cases h : a.key = b.key
      · rw [if_pos h]; exact ih.cons _
      · rw [if_neg h]; exact ih.cons_cons _

theorem lastOp_dedupLast {l : List (Op V)} (hs : OpsSorted l) (x : Key) :
    lastOp (dedupLast l) x = lastOp l x := by
  induction l with
  | nil => rfl
  | cons a t ih =>
    cases t with
    | nil => rfl
    | cons b rest =>
      have hs' : OpsSorted (b :: rest) := (List.pairwise_cons.mp hs).2
      have ih' := ih hs'
      simp only [dedupLast]
      by_cases h : a.key = b.key
      · rw [if_pos h, ih', lastOp_cons a (b :: rest), lastOp_cons b rest]
        by_cases hx : b.key = x
        · have hax : a.key = x := h.trans hx
          cases lastOp rest x <;> simp [hx, hax]
        · have hax : ¬ a.key = x := fun e => hx (h.symm.trans e)
          simp [hax]
      · rw [if_neg h, lastOp_cons a (dedupLast (b :: rest)), lastOp_cons a (b :: rest), ih']

theorem specApply_prepare (cs : List (Op V)) (l : List (Key × V)) (hl : Sorted l) :
    specApply (dedupLast (stableSort cs)) l = specApply cs l := by
  apply sorted_ext (sorted_specApply _ hl) (sorted_specApply _ hl)
  intro x
  rw [lookup_specApply _ hl, lookup_specApply _ hl,
    lastOp_dedupLast (stableSort_sorted cs), lastOp_stableSort]

end Pdb.C04
