/-
C04 (gap 4): node codec. `decodeNode (encodeNode n) = .ok n.normal`, fuel facts, shape facts of
every successful decoding. Model: Pdb/Model/BTreeNode.lean; statements: Pdb/Props/C04d.lean.
-/
import Pdb.Model.BTreeNode
import Pdb.Proofs.C04Tree

namespace Pdb.C04

theorem orderChild_eq : ORDER_CHILD = ORDER + 1 := by decide

/-! ## child index codec -/

theorem writeChildIndex_length (c : Nat) : (writeChildIndex c).length = 8 := leBytes_length 8 c

theorem readChildIndex_write (c : Nat) (rest : List Nat) (hc : c < 2 ^ 64) :
    readChildIndex (writeChildIndex c ++ rest) = some (c, rest) := by
  have h8 : (writeChildIndex c).length = 8 := writeChildIndex_length c
  have hl : ¬ ((writeChildIndex c ++ rest).length < 8) := by
    rw [List.length_append, h8]; omega
  unfold readChildIndex
  rw [if_neg hl, take_append_len h8, drop_append_len h8]
  unfold writeChildIndex
  rw [fromLe_leBytes, Nat.mod_eq_of_lt (by simpa using hc)]

theorem readChildIndex_short (enc : List Nat) (h : enc.length < 8) : readChildIndex enc = none := by
  unfold readChildIndex; rw [if_pos h]

theorem readChildIndex_some {enc : List Nat} {c : Nat} {rest : List Nat}
    (h : readChildIndex enc = some (c, rest)) :
    8 ≤ enc.length ∧ c = fromLe (enc.take 8) ∧ rest = enc.drop 8 := by
  unfold readChildIndex at h
  by_cases hl : enc.length < 8
  · rw [if_pos hl] at h; cases h
  · rw [if_neg hl] at h
    simp only [Option.some.injEq, Prod.mk.injEq] at h
    exact ⟨by omega, h.1.symm, h.2.symm⟩

/-! ## round trip -/

/-- Generalised round trip: iteration `i` of both loops, with the accumulated decoder state.
    `tail` = bytes after the node: allowed (and ignored) only when the node is full. -/
theorem decode_encode_loop (n : RawNode)
    (hlen : n.seps.length ≤ ORDER)
    (hk : ∀ s ∈ n.seps, s.1.length < 2 ^ 32 ∧ 0 < s.2 ∧ s.2 < 2 ^ 64)
    (hc : ∀ i, n.slot i < 2 ^ 64)
    (tail : List Nat) (htail : n.seps.length < ORDER → tail = []) :
    ∀ (F i : Nat) (accS : List (Key × Nat)) (accC : List Nat),
      i ≤ n.seps.length → ORDER_CHILD ≤ F + i →
      decodeLoop F (encodeLoop n F i i ++ tail) i i accS accC =
        .ok ⟨accS ++ n.seps.drop i,
             accC ++ (List.range' i (n.seps.length + 1 - i)).map n.slot⟩ := by
  intro F
  induction F with
  | zero =>
    intro i accS accC hi hF
    rw [orderChild_eq] at hF; omega
  | succ F ih =>
    intro i accS accC hi hF
    by_cases hfull : i + 1 = ORDER_CHILD
    · -- the ORDER_CHILD-th child index: the node is full
      have hil : i = n.seps.length := by rw [orderChild_eq] at hfull; omega
      have henc : encodeLoop n (F + 1) i i = writeChildIndex (n.slot i) := by
        simp only [encodeLoop, hfull, if_true]
      rw [henc]
      simp only [decodeLoop, readChildIndex_write _ _ (hc i), hfull, if_true]
      have hd : n.seps.drop i = [] := by rw [hil]; exact List.drop_length
      have hr : n.seps.length + 1 - i = 1 := by omega
      rw [hd, hr]
      simp
    · by_cases hlt : i < n.seps.length
      · -- a separator follows
        have hget : n.seps[i]? = some n.seps[i] := List.getElem?_eq_getElem hlt
        have hmem : n.seps[i] ∈ n.seps := List.getElem_mem hlt
        obtain ⟨hk1, hk2, hk3⟩ := hk _ hmem
        have henc : encodeLoop n (F + 1) i i =
            writeChildIndex (n.slot i) ++ writeSeparator n.seps[i].1 n.seps[i].2 ++
              encodeLoop n F (i + 1) (i + 1) := by
          simp only [encodeLoop, hfull, if_false, hget]
        have hassoc : encodeLoop n (F + 1) i i ++ tail =
            writeChildIndex (n.slot i) ++ (writeSeparator n.seps[i].1 n.seps[i].2 ++
              (encodeLoop n F (i + 1) (i + 1) ++ tail)) := by
          rw [henc]; simp only [List.append_assoc]
        rw [hassoc]
        simp only [decodeLoop, readChildIndex_write _ _ (hc i), hfull, if_false,
          separator_roundtrip _ _ _ hk1 hk2 hk3]
        rw [ih (i + 1) _ _ (by omega) (by omega)]
        have hd : n.seps.drop i = n.seps[i] :: n.seps.drop (i + 1) :=
          List.drop_eq_getElem_cons hlt
        have hr : n.seps.length + 1 - i = (n.seps.length + 1 - (i + 1)) + 1 := by omega
        rw [hd, hr, List.range'_succ]
        simp only [List.append_assoc, List.singleton_append, List.map_cons, Prod.eta]
      · -- the separator slot is empty: end of the node, end of the entry
        have hil : i = n.seps.length := by omega
        have hget : n.seps[i]? = none := List.getElem?_eq_none (by omega)
        have henc : encodeLoop n (F + 1) i i = writeChildIndex (n.slot i) := by
          simp only [encodeLoop, hfull, if_false, hget]
        have ht : tail = [] := htail (by rw [orderChild_eq] at hfull; omega)
        rw [henc, ht]
        have hrs : readSeparator [] = .none := by decide
        simp only [decodeLoop, readChildIndex_write _ _ (hc i), hfull, if_false, hrs]
        have hd : n.seps.drop i = [] := by rw [hil]; exact List.drop_length
        have hr : n.seps.length + 1 - i = 1 := by omega
        rw [hd, hr]
        simp

theorem slot_lt (n : RawNode) (hc : ∀ c ∈ n.children, c < 2 ^ 64) (i : Nat) :
    n.slot i < 2 ^ 64 := by
  unfold RawNode.slot
  by_cases h : i < n.children.length
  · rw [List.getD_eq_getElem?_getD, List.getElem?_eq_getElem h]
    exact hc _ (List.getElem_mem h)
  · rw [List.getD_eq_getElem?_getD, List.getElem?_eq_none (by omega)]
    exact Nat.pos_of_ne_zero (by decide)

theorem node_roundtrip_tail (n : RawNode)
    (hlen : n.seps.length ≤ ORDER)
    (hk : ∀ s ∈ n.seps, s.1.length < 2 ^ 32 ∧ 0 < s.2 ∧ s.2 < 2 ^ 64)
    (hc : ∀ c ∈ n.children, c < 2 ^ 64)
    (tail : List Nat) (htail : n.seps.length < ORDER → tail = []) :
    decodeNode (encodeNode n ++ tail) = .ok n.normal := by
  unfold decodeNode encodeNode
  rw [decode_encode_loop n hlen hk (slot_lt n hc) tail htail ORDER_CHILD 0 [] []
    (Nat.zero_le _) (Nat.le_refl _)]
  simp [RawNode.normal, List.range_eq_range']

theorem node_roundtrip (n : RawNode)
    (hlen : n.seps.length ≤ ORDER)
    (hk : ∀ s ∈ n.seps, s.1.length < 2 ^ 32 ∧ 0 < s.2 ∧ s.2 < 2 ^ 64)
    (hc : ∀ c ∈ n.children, c < 2 ^ 64) :
    decodeNode (encodeNode n) = .ok n.normal := by
  have := node_roundtrip_tail n hlen hk hc [] (fun _ => rfl)
  rwa [List.append_nil] at this

/-- a node that has exactly `seps.length + 1` child slots is its own normal form -/
theorem normal_eq_self (n : RawNode) (h : n.children.length = n.seps.length + 1) :
    n.normal = n := by
  cases n with
  | mk seps children =>
    simp only [RawNode.normal, RawNode.mk.injEq, true_and]
    simp only at h
    apply List.ext_getElem
    · simp [h]
    · intro i h1 h2
      simp [RawNode.slot, List.getD_eq_getElem?_getD, List.getElem?_eq_getElem h2]

/-! ## fuel -/

theorem encodeLoop_succ (n : RawNode) (F i j : Nat) :
    encodeLoop n (F + 1) i j =
      if i + 1 = ORDER_CHILD then writeChildIndex (n.slot i)
      else match n.seps[j]? with
        | some sep => writeChildIndex (n.slot i) ++ writeSeparator sep.1 sep.2 ++
            encodeLoop n F (i + 1) (j + 1)
        | none => writeChildIndex (n.slot i) := by
  rw [encodeLoop]; rfl

/-- more fuel than `ORDER_CHILD - i` iterations changes nothing in the encoder -/
theorem encodeLoop_fuel (n : RawNode) :
    ∀ (F i j : Nat), ORDER_CHILD ≤ F + i → i < ORDER_CHILD →
      encodeLoop n (F + 1) i j = encodeLoop n F i j := by
  intro F
  induction F with
  | zero => intro i j h1 h2; omega
  | succ F ih =>
    intro i j h1 h2
    by_cases hfull : i + 1 = ORDER_CHILD
    · simp only [encodeLoop, hfull, if_true]
    · cases hget : n.seps[j]? with
      | none => simp only [encodeLoop, hfull, if_false, hget]
      | some sep =>
        have := ih (i + 1) (j + 1) (by omega) (by omega)
        rw [encodeLoop_succ n (F + 1) i j, encodeLoop_succ n F i j]
        simp only [hfull, if_false, hget, this]

theorem encodeNode_fuel (n : RawNode) (F : Nat) (h : ORDER_CHILD ≤ F) :
    encodeLoop n F 0 0 = encodeNode n := by
  unfold encodeNode
  induction F with
  | zero => exact absurd h (by decide)
  | succ F ih =>
    by_cases h' : ORDER_CHILD ≤ F
    · rw [encodeLoop_fuel n F 0 0 (by omega) (by decide), ih h']
    · have : F + 1 = ORDER_CHILD := by omega
      rw [this]

/-! ## closed form of the layout -/

theorem encodeLoop_layout (n : RawNode) (hlen : n.seps.length ≤ ORDER) :
    ∀ (F i : Nat), i ≤ n.seps.length → ORDER_CHILD ≤ F + i →
      encodeLoop n F i i = writeChildIndex (n.slot i) ++ layoutFrom n (n.seps.drop i) i := by
  intro F
  induction F with
  | zero => intro i hi hF; rw [orderChild_eq] at hF; omega
  | succ F ih =>
    intro i hi hF
    rw [encodeLoop_succ]
    by_cases hfull : i + 1 = ORDER_CHILD
    · have hd : n.seps.drop i = [] := by
        have : i = n.seps.length := by rw [orderChild_eq] at hfull; omega
        rw [this]; exact List.drop_length
      rw [if_pos hfull, hd]; simp [layoutFrom]
    · rw [if_neg hfull]
      by_cases hlt : i < n.seps.length
      · have hget : n.seps[i]? = some n.seps[i] := List.getElem?_eq_getElem hlt
        have hd : n.seps.drop i = n.seps[i] :: n.seps.drop (i + 1) :=
          List.drop_eq_getElem_cons hlt
        rw [hd]
        simp only [hget, layoutFrom, ih (i + 1) (by omega) (by omega), List.append_assoc]
      · have hget : n.seps[i]? = none := List.getElem?_eq_none (by omega)
        have hd : n.seps.drop i = [] := List.drop_eq_nil_of_le (by omega)
        rw [hd]; simp [hget, layoutFrom]

theorem encodeNode_layout (n : RawNode) (hlen : n.seps.length ≤ ORDER) :
    encodeNode n = nodeLayout n := by
  unfold encodeNode nodeLayout
  rw [encodeLoop_layout n hlen ORDER_CHILD 0 (Nat.zero_le _) (Nat.le_refl _), List.drop_zero]

/-- The decoder never runs out of fuel, and a successful decoding has `k <= ORDER` separators
    and exactly `k + 1` child slots. -/
theorem decodeLoop_shape :
    ∀ (F : Nat) (enc : List Nat) (i : Nat) (accS : List (Key × Nat)) (accC : List Nat),
      ORDER_CHILD ≤ F + i → i < ORDER_CHILD → accS.length = i → accC.length = i →
      decodeLoop F enc i i accS accC ≠ .outOfFuel ∧
      ∀ m, decodeLoop F enc i i accS accC = .ok m →
        m.seps.length ≤ ORDER ∧ m.children.length = m.seps.length + 1 := by
  intro F
  induction F with
  | zero => intro enc i accS accC h1 h2; omega
  | succ F ih =>
    intro enc i accS accC h1 h2 hS hC
    rw [decodeLoop.eq_2]
    cases hr : readChildIndex enc with
    | none => exact ⟨by simp, by intro m hm; cases hm⟩
    | some p =>
      obtain ⟨c, rest⟩ := p
      by_cases hfull : i + 1 = ORDER_CHILD
      · simp only [hfull, if_true]
        refine ⟨by simp, ?_⟩
        intro m hm
        simp only [DecNode.ok.injEq] at hm
        subst hm
        simp only [List.length_append, List.length_cons, List.length_nil]
        rw [orderChild_eq] at hfull
        omega
      · simp only [hfull, if_false]
        cases hs : readSeparator rest with
        | corrupt => exact ⟨by simp, by intro m hm; cases hm⟩
        | none =>
          refine ⟨by simp, ?_⟩
          intro m hm
          simp only [DecNode.ok.injEq] at hm
          subst hm
          simp only [List.length_append, List.length_cons, List.length_nil]
          rw [orderChild_eq] at h2
          omega
        | some key value rest' =>
          exact ih rest' (i + 1) _ _ (by omega) (by omega) (by simp [hS]) (by simp [hC])

theorem decodeNode_ne_outOfFuel (enc : List Nat) : decodeNode enc ≠ .outOfFuel :=
  (decodeLoop_shape ORDER_CHILD enc 0 [] [] (Nat.le_refl _) (by decide) rfl rfl).1

theorem decodeNode_shape (enc : List Nat) (m : RawNode) (h : decodeNode enc = .ok m) :
    m.seps.length ≤ ORDER ∧ m.children.length = m.seps.length + 1 :=
  (decodeLoop_shape ORDER_CHILD enc 0 [] [] (Nat.le_refl _) (by decide) rfl rfl).2 m h

/-- an entry shorter than one child index is corrupt (`Entry too small for Index`) -/
theorem decodeNode_short (enc : List Nat) (h : enc.length < 8) : decodeNode enc = .corrupt := by
  unfold decodeNode
  rw [orderChild_eq, decodeLoop.eq_2, readChildIndex_short enc h]

/-! ## decoded separators are never null -/

theorem readSeparator_some_pos {enc key rest : List Nat} {value : Nat}
    (h : readSeparator enc = .some key value rest) : 0 < value := by
  unfold readSeparator at h
  simp only at h
  split at h
  · cases h
  · split at h
    · cases h
    · split at h
      · split at h
        · cases h
        · split at h
          · cases h
          · split at h
            · cases h
            · cases h; omega
      · split at h
        · cases h
        · split at h
          · cases h
          · cases h; omega

theorem decodeLoop_seps_pos :
    ∀ (F : Nat) (enc : List Nat) (i j : Nat) (accS : List (Key × Nat)) (accC : List Nat),
      (∀ s ∈ accS, 0 < s.2) →
      ∀ m, decodeLoop F enc i j accS accC = .ok m → ∀ s ∈ m.seps, 0 < s.2 := by
  intro F
  induction F with
  | zero => intro enc i j accS accC _ m hm; cases hm
  | succ F ih =>
    intro enc i j accS accC hacc m hm
    rw [decodeLoop.eq_2] at hm
    cases hr : readChildIndex enc with
    | none => rw [hr] at hm; cases hm
    | some p =>
      obtain ⟨c, rest⟩ := p
      rw [hr] at hm
      simp only at hm
      by_cases hfull : i + 1 = ORDER_CHILD
      · simp only [hfull, if_true, DecNode.ok.injEq] at hm
        subst hm; exact hacc
      · simp only [hfull, if_false] at hm
        cases hs : readSeparator rest with
        | corrupt => rw [hs] at hm; cases hm
        | none =>
          rw [hs] at hm
          simp only [DecNode.ok.injEq] at hm
          subst hm; exact hacc
        | some key value rest' =>
          rw [hs] at hm
          refine ih rest' _ _ _ _ ?_ m hm
          intro s hsm
          rcases List.mem_append.1 hsm with h1 | h1
          · exact hacc s h1
          · simp only [List.mem_singleton] at h1
            subst h1
            exact readSeparator_some_pos hs

theorem decodeNode_seps_pos (enc : List Nat) (m : RawNode) (h : decodeNode enc = .ok m) :
    ∀ s ∈ m.seps, 0 < s.2 :=
  decodeLoop_seps_pos ORDER_CHILD enc 0 0 [] [] (by intro s hs; cases hs) m h

end Pdb.C04
