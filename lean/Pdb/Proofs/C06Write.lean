/-
C06 helper lemmas, part 5: `writeCore` (allocate / write / clear) establishes the written chain and
preserves the structural invariant.  Case A: the new chain is at least as long as the old one
(insert = empty old chain).  Case B: the new chain is shorter, the tail of the old one is freed.
-/
import Pdb.Proofs.C06Alloc

namespace Pdb.ValueTable
open Pdb.Gen

/-- slots of the new chain when `k` parts are written over the old chain `c0` (`c0.length ≤ k`):
the old slots, then popped free slots, then fresh slots -/
def extChain (t : VT) (F c0 : List Nat) (k : Nat) : List Nat :=
  c0 ++ (F.take (k - c0.length) ++ List.range' t.filled (k - c0.length - F.length))

theorem nodup_extend (F c0 Lf : List Nat) (n filled x : Nat)
    (h2 : (F ++ (c0 ++ Lf)).Nodup) (h3 : ∀ i ∈ F ++ (c0 ++ Lf), 1 ≤ i ∧ i < filled) :
    (F.drop n ++ ((c0 ++ (F.take n ++ List.range' filled x)) ++ Lf)).Nodup := by
  have hperm : (F.drop n ++ ((c0 ++ (F.take n ++ List.range' filled x)) ++ Lf)).Perm
      ((F ++ (c0 ++ Lf)) ++ List.range' filled x) := by
    have hF : F = F.take n ++ F.drop n := (List.take_append_drop n F).symm
    generalize F.take n = A at *
    generalize F.drop n = B at *
    subst hF
    simp only [List.perm_iff_count]
    intro a
    simp only [List.count_append]
    omega
  rw [hperm.nodup_iff, List.nodup_append]
  refine ⟨h2, List.nodup_range', ?_⟩
  intro a ha b hb hab
  have := h3 a ha
  rw [List.mem_range'_1] at hb
  omega

theorem mem_extChain_range (t : VT) (F c0 : List Nat) (Lf : List Nat) (k : Nat) (hpos : 0 < t.filled)
    (h3 : ∀ i ∈ F ++ (c0 ++ Lf), 1 ≤ i ∧ i < t.filled) :
    ∀ x ∈ extChain t F c0 k, 1 ≤ x ∧ x < t.filled + (k - c0.length - F.length) := by
  intro x hx
  unfold extChain at hx
  rcases List.mem_append.mp hx with h | h
  · have := h3 x (by simp [h]); omega
  · rcases List.mem_append.mp h with h | h
    · have := h3 x (by simp [List.mem_of_mem_take h]); omega
    · rw [List.mem_range'_1] at h
      omega

theorem extChain_length (t : VT) (F c0 : List Nat) (k : Nat) (hm : c0.length ≤ k) :
    (extChain t F c0 k).length = k := by
  unfold extChain
  simp only [List.length_append, List.length_take, List.length_range']
  omega

/-- Case A: the old chain (possibly empty) is completely reused and extended. -/
theorem writeCore_extend (t : VT) (compressed : Bool) (chunks : List Bytes) (F c0 : List Nat)
    (Lr : List (List Nat))
    (hfs : freeSpace t ≤ maxStoredLen)
    (hg : GoodChunks (freeSpace t) (partCap t) chunks)
    (hmp : 2 ≤ chunks.length → t.multipart = true)
    (hF : FreeChain t t.lastRemoved F)
    (hnd : (F ++ (c0 ++ Lr.flatten)).Nodup)
    (hrange : ∀ i ∈ F ++ (c0 ++ Lr.flatten), 1 ≤ i ∧ i < t.filled)
    (hcount : F.length + (c0.length + Lr.flatten.length) + 1 = t.filled)
    (hchains : ∀ c ∈ Lr, IsChain t c)
    (hb : t.filled + chunks.length ≤ 2 ^ 64)
    (hm : c0.length ≤ chunks.length) :
    ∃ r, writeCore t compressed chunks (c0, none) = .ok r ∧
      r.chain = extChain t F c0 chunks.length ∧ r.addr = (extChain t F c0 chunks.length).headD 0 ∧
      r.freed = [] ∧
      Written r.table compressed true (extChain t F c0 chunks.length) chunks ∧
      SlotInv r.table (F.drop (chunks.length - c0.length)) (extChain t F c0 chunks.length :: Lr) ∧
      (∀ i ∈ Lr.flatten, r.table.slots i = t.slots i) ∧ SameCfg t r.table ∧
      r.table.filled ≤ t.filled + chunks.length := by
  have hpos : 0 < t.filled := by omega
  obtain ⟨t1, ha, hs1, hc1, hf1, hfree1⟩ := allocN_spec (chunks.length - c0.length) t F hF hpos
  have hND := nodup_extend F c0 Lr.flatten (chunks.length - c0.length) t.filled
    (chunks.length - c0.length - F.length) hnd hrange
  have hlen := extChain_length t F c0 chunks.length hm
  have hmemr := mem_extChain_range t F c0 Lr.flatten chunks.length hpos hrange
  have hidxnd : (extChain t F c0 chunks.length).Nodup :=
    (List.nodup_append.mp (List.nodup_append.mp hND).2.1).1
  have hdisjF : ∀ x ∈ F.drop (chunks.length - c0.length), x ∉ extChain t F c0 chunks.length := by
    intro x hx hx'
    exact (List.nodup_append.mp hND).2.2 x hx x (List.mem_append_left _ hx') rfl
  have hdisjL : ∀ x ∈ Lr.flatten, x ∉ extChain t F c0 chunks.length := by
    intro x hx hx'
    exact (List.nodup_append.mp (List.nodup_append.mp hND).2.1).2.2 x hx' x hx rfl
  have hwcfg := writeParts_cfg compressed t1 true (extChain t F c0 chunks.length) chunks
  have hslotsL : ∀ i ∈ Lr.flatten,
      (writeParts compressed t1 true (extChain t F c0 chunks.length) chunks).slots i = t.slots i := by
    intro i hi
    rw [writeParts_notin _ _ _ _ _ _ (hdisjL i hi), hs1]
  have hcfg : SameCfg t (writeParts compressed t1 true (extChain t F c0 chunks.length) chunks) :=
    SameCfg.trans hc1 hwcfg.1
  have hW := writeParts_written compressed t1 true (extChain t F c0 chunks.length) chunks hidxnd hlen
  refine ⟨⟨writeParts compressed t1 true (extChain t F c0 chunks.length) chunks,
      (extChain t F c0 chunks.length).headD 0, extChain t F c0 chunks.length, []⟩,
    ?_, rfl, rfl, rfl, hW, ?_, hslotsL, hcfg, ?_⟩
  · simp only [writeCore]
    rw [ha]
    rfl
  rotate_left
  · show (writeParts compressed t1 true (extChain t F c0 chunks.length) chunks).filled ≤ _
    rw [hwcfg.2.1, hf1]; omega
  · refine ⟨?_, ?_, ?_, ?_, ?_⟩
    · rw [hwcfg.2.2]
      refine FreeChain_congr t1 _ _ (fun x hx => ?_) (by rw [hwcfg.2.1]; exact Nat.le_refl _) _ hfree1
      exact writeParts_notin _ _ _ _ _ _ (hdisjF x hx)
    · rw [List.flatten_cons]; exact hND
    · intro i hi
      rw [hwcfg.2.1, hf1]
      rcases List.mem_append.mp hi with h | h
      · have := hrange i (by simp [List.mem_of_mem_drop h]); omega
      · rw [List.flatten_cons] at h
        rcases List.mem_append.mp h with h | h
        · exact hmemr i h
        · have := hrange i (by simp [h]); omega
    · rw [hwcfg.2.1, hf1, List.flatten_cons, List.length_append, hlen, List.length_drop]
      omega
    · intro c hc
      rcases List.mem_cons.mp hc with rfl | hc
      · refine Written_isChain _ compressed (by rw [hcfg.freeSpace_eq]; exact hfs) _ true chunks hW
          (by rw [hcfg.freeSpace_eq, hcfg.partCap_eq]; exact hg) ?_ ?_
        · intro j hj
          have := hmemr j (List.mem_of_mem_tail hj)
          omega
        · intro h2; rw [hcfg.2.1]; exact hmp (by omega)
      · refine IsChain_congr t _ c (fun x hx => hslotsL x ?_) hcfg.2.1 (hchains c hc)
        exact List.mem_flatten.mpr ⟨c, hc, hx⟩

theorem IsChain_drop (t : VT) : ∀ (k : Nat) (c : List Nat), IsChain t c → k < c.length →
    IsChain t (c.drop k) := by
  intro k
  induction k with
  | zero => intro c h _; simpa using h
  | succ k ih =>
    intro c h hk
    cases c with
    | nil => simp at hk
    | cons a r =>
      cases r with
      | nil => simp at hk
      | cons b r' =>
        simp only [IsChain] at h
        simp only [List.drop_succ_cons]
        exact ih (b :: r') h.2 (by simp at hk ⊢; omega)

theorem nodup_shrink (F c0 Lf : List Nat) (k : Nat) (h2 : (F ++ (c0 ++ Lf)).Nodup) :
    (((c0.drop k).reverse ++ F) ++ (c0.take k ++ Lf)).Nodup := by
  have hperm : (((c0.drop k).reverse ++ F) ++ (c0.take k ++ Lf)).Perm (F ++ (c0 ++ Lf)) := by
    have hc : c0 = c0.take k ++ c0.drop k := (List.take_append_drop k c0).symm
    generalize c0.take k = A at *
    generalize c0.drop k = B at *
    subst hc
    simp only [List.perm_iff_count]
    intro a
    simp only [List.count_append, List.count_reverse]
    omega
  rw [hperm.nodup_iff]; exact h2

/-- Case B: the new chain is shorter than the old one; the rest of the old chain is freed. -/
theorem writeCore_shrink (t : VT) (compressed : Bool) (chunks : List Bytes) (F c0 : List Nat)
    (Lr : List (List Nat))
    (hfs : freeSpace t ≤ maxStoredLen)
    (hg : GoodChunks (freeSpace t) (partCap t) chunks)
    (hmp : 2 ≤ chunks.length → t.multipart = true)
    (hF : FreeChain t t.lastRemoved F)
    (hnd : (F ++ (c0 ++ Lr.flatten)).Nodup)
    (hrange : ∀ i ∈ F ++ (c0 ++ Lr.flatten), 1 ≤ i ∧ i < t.filled)
    (hcount : F.length + (c0.length + Lr.flatten.length) + 1 = t.filled)
    (hchains : ∀ c ∈ Lr, IsChain t c)
    (hc0 : IsChain t c0)
    (hb : t.filled ≤ 2 ^ 64)
    (hm : chunks.length < c0.length) :
    ∃ r, writeCore t compressed chunks (c0.take chunks.length, c0[chunks.length]?) = .ok r ∧
      r.chain = c0.take chunks.length ∧ r.addr = (c0.take chunks.length).headD 0 ∧
      r.freed = c0.drop chunks.length ∧
      Written r.table compressed true (c0.take chunks.length) chunks ∧
      SlotInv r.table ((c0.drop chunks.length).reverse ++ F) (c0.take chunks.length :: Lr) ∧
      (∀ i ∈ Lr.flatten, r.table.slots i = t.slots i) ∧ SameCfg t r.table ∧
      r.table.filled ≤ t.filled + chunks.length := by
  -- notation
  have hc0split : c0 = c0.take chunks.length ++ c0.drop chunks.length :=
    (List.take_append_drop _ c0).symm
  have hND := nodup_shrink F c0 Lr.flatten chunks.length hnd
  have hc0nd : c0.Nodup := (List.nodup_append.mp (List.nodup_append.mp hnd).2.1).1
  have htakelen : (c0.take chunks.length).length = chunks.length := by
    simp only [List.length_take]; omega
  have hdisjTD : ∀ x ∈ c0.drop chunks.length, x ∉ c0.take chunks.length := by
    intro x hx hx'
    rw [hc0split] at hc0nd
    exact (List.nodup_append.mp hc0nd).2.2 x hx' x hx rfl
  have hdisjTL : ∀ x ∈ Lr.flatten, x ∉ c0.take chunks.length := by
    intro x hx hx'
    exact (List.nodup_append.mp (List.nodup_append.mp hnd).2.1).2.2 x (List.mem_of_mem_take hx') x hx rfl
  have hdisjDL : ∀ x ∈ Lr.flatten, x ∉ c0.drop chunks.length := by
    intro x hx hx'
    exact (List.nodup_append.mp (List.nodup_append.mp hnd).2.1).2.2 x (List.mem_of_mem_drop hx') x hx rfl
  have hdisjFT : ∀ x ∈ F, x ∉ c0.take chunks.length := by
    intro x hx hx'
    exact (List.nodup_append.mp hnd).2.2 x hx x (by simp [List.mem_of_mem_take hx']) rfl
  have hdisjDF : ∀ x ∈ c0.drop chunks.length, x ∉ F := by
    intro x hx hx'
    exact (List.nodup_append.mp hnd).2.2 x hx' x (by simp [List.mem_of_mem_drop hx]) rfl
  -- the continuation
  have hdropeq : c0.drop chunks.length = c0[chunks.length] :: c0.drop (chunks.length + 1) :=
    List.drop_eq_getElem_cons hm
  have hnxmem : c0[chunks.length] ∈ c0 := List.getElem_mem hm
  have hnx0 : c0[chunks.length] ≠ 0 := by
    have := hrange c0[chunks.length] (by simp [hnxmem]); omega
  -- phase 2: writing over the reused slots
  let t2 := writeParts compressed t true (c0.take chunks.length) chunks
  have hwcfg := writeParts_cfg compressed t true (c0.take chunks.length) chunks
  have hW2 : Written t2 compressed true (c0.take chunks.length) chunks :=
    writeParts_written compressed t true _ chunks
      (List.nodup_append.mp (hc0split ▸ hc0nd)).1 htakelen
  have ht2slots : ∀ j, j ∉ c0.take chunks.length → t2.slots j = t.slots j :=
    fun j hj => writeParts_notin _ _ _ _ _ _ hj
  -- phase 3: clearing the tail
  have hchain2 : IsChain t2 (c0[chunks.length] :: c0.drop (chunks.length + 1)) := by
    rw [← hdropeq]
    exact IsChain_congr t t2 _ (fun x hx => ht2slots x (hdisjTD x hx)) hwcfg.1.2.1
      (IsChain_drop t _ c0 hc0 hm)
  have hF2 : FreeChain t2 t2.lastRemoved F := by
    have : t2.lastRemoved = t.lastRemoved := hwcfg.2.2
    rw [this]
    exact FreeChain_congr t t2 F (fun x hx => ht2slots x (hdisjFT x hx))
      (by have : t2.filled = t.filled := hwcfg.2.1
          rw [this]; exact Nat.le_refl _) _ hF
  have hfilled2 : t2.filled = t.filled := hwcfg.2.1
  obtain ⟨t3, h1, h2, h3, h4, h5⟩ := clearChain_spec (c0.drop (chunks.length + 1)) c0[chunks.length]
    t2 F t2.filled hchain2
    (by rw [← hdropeq]; exact (List.nodup_append.mp (hc0split ▸ hc0nd)).2.1)
    (by rw [← hdropeq, hfilled2]; intro x hx
        have := hrange x (by simp [List.mem_of_mem_drop hx]); omega)
    (by rw [← hdropeq]; exact hdisjDF)
    hF2 (by rw [hfilled2]; exact hb)
    (by rw [← hdropeq, hfilled2, List.length_drop]; omega)
  rw [← hdropeq] at h1 h4 h5
  have hcfg : SameCfg t t3 := SameCfg.trans hwcfg.1 h2
  have hW3 : Written t3 compressed true (c0.take chunks.length) chunks :=
    Written_congr t2 t3 compressed true _ chunks
      (fun i hi => h4 i (fun hd => hdisjTD i hd hi)) hW2
  have hslotsL : ∀ i ∈ Lr.flatten, t3.slots i = t.slots i := by
    intro i hi
    rw [h4 i (hdisjDL i hi), ht2slots i (hdisjTL i hi)]
  refine ⟨⟨t3, (c0.take chunks.length).headD 0, c0.take chunks.length, c0.drop chunks.length⟩,
    ?_, rfl, rfl, rfl, hW3, ?_, hslotsL, hcfg, by show t3.filled ≤ _; rw [h3, hfilled2]; omega⟩
  · simp only [writeCore, htakelen, Nat.sub_self, allocN, List.append_nil,
      List.getElem?_eq_getElem hm, if_neg hnx0]
    show (match clearChain t2 t2.filled c0[chunks.length] with
      | .ok (t3, freed) => Except.ok (WrOk.mk t3 ((c0.take chunks.length).headD 0) (c0.take chunks.length) freed)
      | .error e => .error e) = _
    rw [h1]
  · refine ⟨h5, ?_, ?_, ?_, ?_⟩
    · rw [List.flatten_cons]; exact hND
    · intro i hi
      rw [h3, hfilled2]
      apply hrange
      rcases List.mem_append.mp hi with h | h
      · rcases List.mem_append.mp h with h | h
        · simp [List.mem_of_mem_drop (List.mem_reverse.mp h)]
        · simp [h]
      · rw [List.flatten_cons] at h
        rcases List.mem_append.mp h with h | h
        · simp [List.mem_of_mem_take h]
        · simp [h]
    · rw [h3, hfilled2, List.flatten_cons]
      simp only [List.length_append, List.length_reverse, List.length_drop, List.length_take]
      omega
    · intro c hc
      rcases List.mem_cons.mp hc with rfl | hc
      · refine Written_isChain _ compressed (by rw [hcfg.freeSpace_eq]; exact hfs) _ true chunks hW3
          (by rw [hcfg.freeSpace_eq, hcfg.partCap_eq]; exact hg) ?_ ?_
        · intro j hj
          have := hrange j (by simp [List.mem_of_mem_take (List.mem_of_mem_tail hj)])
          omega
        · intro h2'; rw [hcfg.2.1]; exact hmp (by omega)
      · refine IsChain_congr t _ c (fun x hx => hslotsL x ?_) hcfg.2.1 (hchains c hc)
        exact List.mem_flatten.mpr ⟨c, hc, hx⟩

end Pdb.ValueTable
