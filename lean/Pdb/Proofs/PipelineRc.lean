/-
Reads on preimage and reference-counted columns (C07), under the preimage contract
"the value is a function of the key".
-/
import Pdb.Proofs.PipelineThm

set_option linter.unusedSectionVars false
set_option linter.unusedSimpArgs false
namespace Pdb
variable {K V : Type} [DecidableEq K]

/-- The preimage contract on a list of operations: on columns that are not plain, every
    `Set k v` carries `v = valueOf k`. -/
def OpsContract (valueOf : K → V) (kind : K → Kind) (ops : List (Op K V)) : Prop :=
  ∀ k v, Op.set k v ∈ ops → kind k ≠ .plain → v = valueOf k

def Contract (valueOf : K → V) (kind : K → Kind) (txs : List (List (Op K V))) : Prop :=
  OpsContract valueOf kind txs.flatten

/-- Stored values obey the contract; stored counts are positive. -/
def TblOk (valueOf : K → V) (kind : K → Kind) (t : Tbl K V) : Prop :=
  ∀ k v n, t k = some (v, n) → (kind k ≠ .plain → v = valueOf k) ∧ 1 ≤ n

theorem incRc_pos (n : Nat) : 1 ≤ incRc n := by
  unfold incRc LOCKED
  split
  · decide
  · omega

theorem applyOp_ok (valueOf : K → V) (kind : K → Kind) (t : Tbl K V) (op : Op K V)
    (ht : TblOk valueOf kind t) (hop : OpsContract valueOf kind [op]) :
    TblOk valueOf kind (applyOp kind t op) := by
  intro k v n h
  unfold applyOp at h
  by_cases hk : k = op.key
  · subst hk
    rw [upd_same] at h
    cases op with
    | set k' v' =>
      simp only [Op.key] at h ⊢
      have hc := hop k' v' (by simp)
      cases hkind : kind k' with
      | plain => simp [applyCell, hkind] at h; simp [h.2.symm]
      | preimage =>
        cases htk : t k' with
        | none =>
          simp [applyCell, hkind, htk] at h
          refine ⟨fun _ => ?_, by omega⟩
          rw [← h.1]; exact hc (by simp [hkind])
        | some c =>
          simp [applyCell, hkind, htk] at h
          obtain ⟨v0, n0⟩ := c
          have := ht k' v0 n0 htk
          simp at h
          rw [← h.1, ← h.2]
          exact ⟨fun _ => this.1 (by simp [hkind]), this.2⟩
      | rc =>
        cases htk : t k' with
        | none =>
          simp [applyCell, hkind, htk] at h
          refine ⟨fun _ => ?_, by omega⟩
          rw [← h.1]; exact hc (by simp [hkind])
        | some c =>
          obtain ⟨v0, n0⟩ := c
          simp [applyCell, hkind, htk] at h
          have := ht k' v0 n0 htk
          rw [← h.1, ← h.2]
          exact ⟨fun _ => this.1 (by simp [hkind]), incRc_pos n0⟩
    | deref k' =>
      simp only [Op.key] at h ⊢
      cases hkind : kind k' with
      | plain => simp [applyCell, hkind] at h
      | preimage => simp [applyCell, hkind] at h
      | rc =>
        cases htk : t k' with
        | none => simp [applyCell, hkind, htk] at h
        | some c =>
          obtain ⟨v0, n0⟩ := c
          have := ht k' v0 n0 htk
          simp only [applyCell, hkind, htk] at h
          split at h
          · simp at h; rw [← h.1, ← h.2]; exact ⟨fun _ => this.1 (by simp [hkind]), this.2⟩
          · split at h
            · simp at h
            · simp at h; rw [← h.1, ← h.2]
              exact ⟨fun _ => this.1 (by simp [hkind]), by omega⟩
    | ref k' =>
      simp only [Op.key] at h ⊢
      cases hkind : kind k' with
      | plain => simp [applyCell, hkind] at h; have := ht k' v n h; rw [hkind] at this; exact this
      | preimage => simp [applyCell, hkind] at h; have := ht k' v n h; rw [hkind] at this; exact this
      | rc =>
        cases htk : t k' with
        | none => simp [applyCell, hkind, htk] at h
        | some c =>
          obtain ⟨v0, n0⟩ := c
          simp [applyCell, hkind, htk] at h
          have := ht k' v0 n0 htk
          rw [← h.1, ← h.2]
          exact ⟨fun _ => this.1 (by simp [hkind]), incRc_pos n0⟩
  · rw [upd_other _ _ _ _ hk] at h
    exact ht k v n h

theorem applyOps_ok (valueOf : K → V) (kind : K → Kind) (ops : List (Op K V)) (t : Tbl K V)
    (ht : TblOk valueOf kind t) (hop : OpsContract valueOf kind ops) :
    TblOk valueOf kind (applyOps kind t ops) := by
  induction ops generalizing t with
  | nil => exact ht
  | cons op ops ih =>
    have : applyOps kind t (op :: ops) = applyOps kind (applyOp kind t op) ops := rfl
    rw [this]
    apply ih
    · exact applyOp_ok valueOf kind t op ht (fun k v hm hk => hop k v (by
        simp only [List.mem_singleton] at hm; simp [hm]) hk)
    · exact fun k v hm hk => hop k v (List.mem_cons_of_mem _ hm) hk

theorem spec_ok (valueOf : K → V) (kind : K → Kind) (txs : List (List (Op K V)))
    (hc : Contract valueOf kind txs) : TblOk valueOf kind (spec kind txs) := by
  apply applyOps_ok valueOf kind _ _ _ hc
  intro k v n h
  simp at h

theorem Contract.take {valueOf : K → V} {kind : K → Kind} {txs : List (List (Op K V))}
    (hc : Contract valueOf kind txs) (n : Nat) : Contract valueOf kind (txs.take n) := by
  intro k v hm hk
  apply hc k v _ hk
  rw [List.mem_flatten] at hm ⊢
  obtain ⟨l, hl, hm⟩ := hm
  exact ⟨l, List.mem_of_mem_take hl, hm⟩

/-! ### no queued `Set` on a key that is absent from the overlay -/

theorem lastW_opsW_none (kind : K → Kind) (id : Nat) (ops : List (Op K V)) (k : K)
    (h : lastW (opsW kind id ops) k = none) : ∀ v, Op.set k v ∉ ops := by
  induction ops with
  | nil => simp
  | cons op ops ih =>
    rw [opsW_cons, lastW_append] at h
    cases h2 : lastW (opsW kind id ops) k with
    | some x => rw [h2] at h; simp at h
    | none =>
      rw [h2] at h
      simp only [Option.none_or] at h
      intro v hm
      rw [List.mem_cons] at hm
      rcases hm with hm | hm
      · subst hm
        simp [opW, lastW] at h
      · exact ih h2 v hm

theorem lastW_queueW_none (kind : K → Kind) (q : List (Commit K V)) (k : K)
    (h : lastW (queueW kind q) k = none) : ∀ v, Op.set k v ∉ qops q := by
  induction q with
  | nil => simp [qops]
  | cons c q ih =>
    have e : queueW kind (c :: q) = opsW kind c.id c.ops ++ queueW kind q := by simp [queueW]
    rw [e, lastW_append] at h
    cases h2 : lastW (queueW kind q) k with
    | some x => rw [h2] at h; simp at h
    | none =>
      rw [h2] at h
      simp only [Option.none_or] at h
      intro v hm
      have e1 : qops (c :: q) = c.ops ++ qops q := by simp [qops]
      rw [e1, List.mem_append] at hm
      rcases hm with hm | hm
      · exact lastW_opsW_none kind c.id c.ops k h v hm
      · exact ih h2 v hm

/-- Without a `Set`, an absent key of a ref-counted column stays absent. -/
theorem applyOps_rc_absent (kind : K → Kind) (ops : List (Op K V)) (t : Tbl K V) (k : K)
    (hk : kind k = .rc) (hno : ∀ v, Op.set k v ∉ ops) (ht : t k = none) :
    applyOps kind t ops k = none := by
  induction ops generalizing t with
  | nil => exact ht
  | cons op ops ih =>
    have : applyOps kind t (op :: ops) = applyOps kind (applyOp kind t op) ops := rfl
    rw [this]
    apply ih
    · exact fun v hm => hno v (List.mem_cons_of_mem _ hm)
    · unfold applyOp
      by_cases hkk : k = op.key
      · subst hkk
        rw [upd_same]
        cases op with
        | set k' v => exact absurd List.mem_cons_self (hno v)
        | deref k' => simp only [Op.key] at hk ht ⊢; simp [applyCell, hk, ht]
        | ref k' => simp only [Op.key] at hk ht ⊢; simp [applyCell, hk, ht]
      · rw [upd_other _ _ _ _ hkk]; exact ht

/-- A queued `Set` is what the overlay of a ref-counted column shows. -/
theorem lastW_queueW_rc (kind : K → Kind) (q : List (Commit K V)) (k : K) (i : Nat)
    (ov : Option V) (hk : kind k = .rc) (h : lastW (queueW kind q) k = some (i, ov)) :
    ∃ v, ov = some v ∧ Op.set k v ∈ qops q := by
  induction q with
  | nil => simp [queueW, lastW] at h
  | cons c q ih =>
    have e : queueW kind (c :: q) = opsW kind c.id c.ops ++ queueW kind q := by simp [queueW]
    have e1 : qops (c :: q) = c.ops ++ qops q := by simp [qops]
    rw [e, lastW_append] at h
    cases h2 : lastW (queueW kind q) k with
    | some x =>
      rw [h2] at h; simp at h; subst h
      obtain ⟨v, hv, hm⟩ := ih h2
      exact ⟨v, hv, by rw [e1]; exact List.mem_append_right _ hm⟩
    | none =>
      rw [h2] at h
      simp only [Option.none_or] at h
      -- inside one commit
      have aux : ∀ ops : List (Op K V), lastW (opsW kind c.id ops) k = some (i, ov) →
          ∃ v, ov = some v ∧ Op.set k v ∈ ops := by
        intro ops
        induction ops with
        | nil => simp [opsW, lastW]
        | cons op ops ih2 =>
          intro hh
          rw [opsW_cons, lastW_append] at hh
          cases h3 : lastW (opsW kind c.id ops) k with
          | some x =>
            rw [h3] at hh; simp at hh; subst hh
            obtain ⟨v, hv, hm⟩ := ih2 h3
            exact ⟨v, hv, List.mem_cons_of_mem _ hm⟩
          | none =>
            rw [h3] at hh
            simp only [Option.none_or] at hh
            cases op with
            | set k' v' =>
              by_cases hkk : k' = k
              · subst hkk
                simp [opW, lastW] at hh
                exact ⟨v', hh.2.symm, List.mem_cons_self⟩
              · simp [opW, lastW, hkk] at hh
            | deref k' =>
              by_cases hkk : k' = k
              · subst hkk; simp [opW, lastW, hk] at hh
              · by_cases hr : kind k' = .rc <;> simp [opW, lastW, hkk, hr] at hh
            | ref k' => simp [opW, lastW] at hh
      obtain ⟨v, hv, hm⟩ := aux c.ops h
      exact ⟨v, hv, by rw [e1]; exact List.mem_append_left _ hm⟩

theorem mem_qops_hist {kind : K → Kind} {s : St K V} (h : Inv kind s) (op : Op K V)
    (hm : op ∈ qops s.queue) : op ∈ s.hist.flatten := by
  rw [qops_eq, h.queue] at hm
  rw [List.mem_flatten] at hm ⊢
  obtain ⟨l, hl, hm⟩ := hm
  exact ⟨l, List.mem_of_mem_drop hl, hm⟩

/-- C07 (first half): a key whose committed count is positive is readable with its value,
    at every stage of the pipeline. -/
theorem Inv.get_rc_positive {kind : K → Kind} {s : St K V} (h : Inv kind s) (valueOf : K → V)
    (hc : Contract valueOf kind s.hist) (k : K) (hk : kind k = .rc)
    (hpos : (spec kind s.hist k).isSome) : get s k = some (valueOf k) := by
  unfold get
  have hov := h.ov k
  cases ho : s.overlay k with
  | some x =>
    obtain ⟨i, ov⟩ := x
    rw [ho] at hov
    obtain ⟨v, hv, hm⟩ := lastW_queueW_rc kind s.queue k i ov hk hov.symm
    subst hv
    have := hc k v (mem_qops_hist h _ hm) (by simp [hk])
    simp [this]
  | none =>
    rw [ho] at hov
    have hno := lastW_queueW_none kind s.queue k hov.symm
    simp only
    rw [h.spec_hist] at hpos
    cases hv : view s k with
    | none =>
      rw [applyOps_rc_absent kind _ _ k hk hno hv] at hpos
      simp at hpos
    | some c =>
      obtain ⟨v0, n0⟩ := c
      have hok := spec_ok valueOf kind _ (hc.take (s.nEnacted + s.logged.length))
      rw [← h.view_eq] at hok
      have := (hok k v0 n0 hv).1 (by simp [hk])
      simp [this]

/-- C07 (second half): once every accepted commit has been written to the log (empty
    queue; in particular after any reopen) a key is readable iff its count is positive. -/
theorem Inv.get_rc_iff {kind : K → Kind} {s : St K V} (h : Inv kind s) (k : K)
    (hq : s.queue = []) : (get s k).isSome = (spec kind s.hist k).isSome := by
  have hov := h.ov k
  rw [hq] at hov
  simp only [queueW, List.flatMap_nil, lastW] at hov
  have hs := h.spec_hist
  rw [hq] at hs
  simp only [qops, List.flatMap_nil, applyOps, List.foldl_nil] at hs
  unfold get
  rw [hov, hs]
  cases view s k <;> rfl

end Pdb
