/-
C09, finding F28 in the model: with more than 64 live keys that agree on all 50 index-visible
bits the growth of the index never completes.

  * `never_settles`   pigeonhole: in a state satisfying the invariants the 65 keys cannot all have
    their entry in the current table (one page, 64 entries), so the queue of older tables is
    never empty;
  * `round_grows`     a reindex pass over the queue front followed by the enactment of its
    `DropTable` removes the table with the fewest index bits, so the least number of index bits
    among the tables goes up with every completed pass;
  * `rounds_bits`     after `n` passes the current table has at least `16 + n` index bits.
-/
import Pdb.Proofs.C09Total

namespace Pdb.Index
open Pdb.Gen Pdb.IndexPage

/-! ## pigeonhole -/

theorem pigeon {α : Type} (R : α → Nat → Prop) (n : Nat) :
    ∀ (ks : List α), ks.Nodup → (∀ k ∈ ks, ∃ i, i < n ∧ R k i) →
      (∀ k k' i, k ∈ ks → k' ∈ ks → R k i → R k' i → k = k') → ks.length ≤ n := by
  have key : ∀ (ks : List α), ks.Nodup → (∀ k ∈ ks, ∃ i, i < n ∧ R k i) →
      (∀ k k' i, k ∈ ks → k' ∈ ks → R k i → R k' i → k = k') →
      ∃ is : List Nat, is.length = ks.length ∧ is.Nodup ∧ (∀ i ∈ is, i < n) ∧
        (∀ i ∈ is, ∃ k ∈ ks, R k i) := by
    intro ks
    induction ks with
    | nil => intro _ _ _; exact ⟨[], rfl, List.nodup_nil, by simp, by simp⟩
    | cons k rest ih =>
      intro hnd hex hinj
      obtain ⟨hk, hnd'⟩ := List.nodup_cons.1 hnd
      obtain ⟨is, hl, hn, hlt, hR⟩ := ih hnd' (fun k' hk' => hex k' (List.mem_cons_of_mem _ hk'))
        (fun a b i ha hb => hinj a b i (List.mem_cons_of_mem _ ha) (List.mem_cons_of_mem _ hb))
      obtain ⟨i, hi, hRi⟩ := hex k (by simp)
      have hni : i ∉ is := by
        intro hmem
        obtain ⟨k', hk', hR'⟩ := hR i hmem
        have := hinj k k' i (by simp) (List.mem_cons_of_mem _ hk') hRi hR'
        rw [this] at hk
        exact hk hk'
      refine ⟨i :: is, by simp [hl], List.nodup_cons.2 ⟨hni, hn⟩, ?_, ?_⟩
      · intro j hj
        rcases List.mem_cons.1 hj with h | h
        · rw [h]; exact hi
        · exact hlt j h
      · intro j hj
        rcases List.mem_cons.1 hj with h | h
        · rw [h]; exact ⟨k, by simp, hRi⟩
        · obtain ⟨k', hk', hR'⟩ := hR j h
          exact ⟨k', List.mem_cons_of_mem _ hk', hR'⟩
  intro ks hnd hex hinj
  obtain ⟨is, hl, hn, hlt, _⟩ := key ks hnd hex hinj
  have hsub : is ⊆ List.range n := fun i hi => List.mem_range.2 (hlt i hi)
  have := hn.length_le_of_subset hsub
  rw [List.length_range] at this
  omega

/-- More than 64 live keys sharing all 50 index-visible bits: some of them have their entry in an
older table, whatever happened before. -/
theorem never_settles {U : Key → Prop} {s : Col} {m : Key → Option Val} (hU : Univ U)
    (hG : Good U s m) (ks : List Key) (hnd : ks.Nodup) (hlen : 65 ≤ ks.length)
    (hlive : ∀ k ∈ ks, U k ∧ (m k).isSome = true) (c50 : Nat)
    (hcls : ∀ k ∈ ks, k.pre >>> 14 = c50) : s.older ≠ [] := by
  intro hol
  have hwf := hG.idx.wf s.current (by simp [Col.tables])
  have hchunk : ∀ k ∈ ks, s.current.chunk k.pre = c50 >>> (50 - s.current.bits) := by
    intro k hk
    show chunk_index s.current.bits k.pre = _
    rw [chunk_index_eq _ _ (by have := hwf.lo; omega) (by have := hwf.hi; omega), ← hcls k hk,
      ← Nat.shiftRight_add]
    congr 1
    have := hwf.hi
    omega
  have := pigeon (fun (k : Key) (i : Nat) => ∃ a, s.tailAt a = some k.tail ∧
      Entry.address ((s.current.page (c50 >>> (50 - s.current.bits))).getD i 0) s.current.bits = a) 64 ks hnd
    (fun k hk => by
      obtain ⟨hUk, hm⟩ := hlive k hk
      obtain ⟨v, hv⟩ := Option.isSome_iff_exists.1 hm
      obtain ⟨a, ha⟩ := (hG.abs k hUk v).1 hv
      have hta : s.tailAt a = some k.tail := (tailAt_eq_some s a k.tail).2 ⟨v, ha⟩
      obtain ⟨k', hk', htl, t, ht, hh⟩ := hG.idx.reach a k.tail hta
      have hkk : k' = k := hU.atail k' k hk' hUk htl
      subst hkk
      have htc : t = s.current := by
        simp only [Col.tables, hol] at ht
        simpa using ht
      subst htc
      obtain ⟨i, hi, _, haddr⟩ := hh
      rw [hchunk k' hk] at haddr
      exact ⟨i, hi, a, hta, haddr⟩)
    (fun k k' i hk hk' ⟨a, hta, ha⟩ ⟨a', hta', ha'⟩ => by
      have haa : a = a' := by rw [← ha, ← ha']
      subst haa
      have : k.tail = k'.tail := by
        rw [hta] at hta'
        exact Option.some.inj hta'
      exact hU.atail k k' (hlive k hk).1 (hlive k' hk').1 this)
  omega

/-! ## progress of a reindex pass -/

theorem collectPlan_snd_le (t : Table) : ∀ (f c : Nat) (acc : List (Nat × Nat)) (n : Nat),
    c ≤ total_chunks t.bits → (collectPlan t f c acc n).2 ≤ total_chunks t.bits := by
  intro f
  induction f with
  | zero => intro c acc n h; simpa [collectPlan] using h
  | succ f ih =>
    intro c acc n h
    unfold collectPlan
    by_cases hc : c < total_chunks t.bits ∧ n < MAX_REINDEX_BATCH
    · simp only [hc, and_self, if_true]
      exact ih _ _ _ (by omega)
    · simp only [hc, if_false]; exact h

theorem collectPlan_snd_gt (t : Table) (f c : Nat) (hc : c < total_chunks t.bits) :
    c < (collectPlan t (f + 1) c [] 0).2 := by
  unfold collectPlan
  have : c < total_chunks t.bits ∧ 0 < MAX_REINDEX_BATCH := ⟨hc, by decide⟩
  simp only [this, and_self, if_true]
  have := (collectPlan_spec t f (c + 1) ((collectChunk t.bits c (t.page c)).reverse ++ [])
    (0 + (collectChunk t.bits c (t.page c)).length)).1
  omega

/-- one batch over a queue front that is not exhausted: the front stays, progress advances -/
theorem reindexBatch_progress {U : Key → Prop} {s s' : Col} {m : Key → Option Val}
    (hG : Good U s m) (hx : ExactCur s) (t0 : Table) (rest : List Table) (hol : s.older = t0 :: rest)
    (hlt : s.progress < total_chunks t0.bits) (h : reindexBatch s = .ok s') (hB : Bounded s') :
    ∃ pushed, s'.older = t0 :: (rest ++ pushed) ∧ s.progress < s'.progress ∧
      s'.progress ≤ total_chunks t0.bits := by
  unfold reindexBatch at h
  rw [hol] at h
  simp only at h
  have hp : ¬ s.progress = total_chunks t0.bits := by omega
  simp only [hp, if_false] at h
  rw [← hol] at h
  have hI := hG.idx
  have hSp : Shape ({ s with progress :=
      (collectPlan t0 (total_chunks t0.bits - s.progress) s.progress [] 0).2 } : Col) := ⟨hI.wf, hI.order⟩
  have hne : ({ s with progress :=
      (collectPlan t0 (total_chunks t0.bits - s.progress) s.progress [] 0).2 } : Col).older ≠ [] := by
    show s.older ≠ []
    rw [hol]; simp
  obtain ⟨hE, _, _⟩ := applyPlan_ok _ _ s' hSp hx hne h hB.bits
  obtain ⟨pushed, hol', _⟩ := hE.tables
  refine ⟨pushed, ?_, ?_, ?_⟩
  · rw [hol']; show s.older ++ pushed = _; rw [hol]; rfl
  · rw [hE.progress]
    show s.progress < (collectPlan t0 (total_chunks t0.bits - s.progress) s.progress [] 0).2
    have : total_chunks t0.bits - s.progress = (total_chunks t0.bits - s.progress - 1) + 1 := by omega
    rw [this]
    exact collectPlan_snd_gt t0 _ _ hlt
  · rw [hE.progress]
    exact collectPlan_snd_le t0 _ _ _ _ (Nat.le_of_lt hlt)

/-! ## runs -/

theorem runA_append (s : Col) (a b : List Action) :
    runA s (a ++ b) = (runA s a).bind (fun s1 => runA s1 b) := by
  induction a generalizing s with
  | nil => rfl
  | cons x xs ih =>
    simp only [List.cons_append, runA]
    cases stepA s x with
    | ok s1 => simp only [Res.bind]; exact ih s1
    | panic => rfl
    | diverge => rfl

theorem AllBounded_append (s : Col) (a b : List Action) (h : AllBounded s (a ++ b)) :
    AllBounded s a ∧ ∀ s1, runA s a = .ok s1 → AllBounded s1 b := by
  induction a generalizing s with
  | nil =>
    refine ⟨trivial, fun s1 h1 => ?_⟩
    simp only [runA] at h1
    injection h1 with h1; subst h1
    exact h
  | cons x xs ih =>
    simp only [List.cons_append, AllBounded] at h
    refine ⟨fun s1 h1 => ⟨(h s1 h1).1, (ih s1 (h s1 h1).2).1⟩, fun s2 h2 => ?_⟩
    simp only [runA] at h2
    obtain ⟨s1, h1, h3⟩ := Res.bind_ok h2
    exact (ih s1 (h s1 h1).2).2 s2 h3

/-- every table has at least `n` index bits -/
def LB (s : Col) (n : Nat) : Prop := ∀ t ∈ s.older ++ [s.current], n ≤ t.bits

/-- what the passes keep: the invariants, the fixed configuration, the progress counter within
the queue front -/
structure PassInv (U : Key → Prop) (s : Col) (m : Key → Option Val) : Prop where
  good : Good U s m
  exact : s.cfg.exact = true
  grow : s.cfg.growOnMove = true
  prog : ∀ t0 rest, s.older = t0 :: rest → s.progress ≤ total_chunks t0.bits

/-- `R` reindex batches on a non-empty queue: the front is still there and either exhausted or
`R` chunks further -/
theorem batches_progress {U : Key → Prop} (hU : Univ U) {m : Key → Option Val} :
    ∀ (R : Nat) (s s' : Col), PassInv U s m → ∀ t0 rest, s.older = t0 :: rest →
      runA s (List.replicate R Action.reindex) = .ok s' →
      AllBounded s (List.replicate R Action.reindex) →
      PassInv U s' m ∧ (∃ pushed, s'.older = t0 :: (rest ++ pushed)) ∧
        (s'.progress = total_chunks t0.bits ∨ s.progress + R ≤ s'.progress) := by
  intro R
  induction R with
  | zero =>
    intro s s' hP t0 rest hol h _
    simp only [List.replicate, runA] at h
    injection h with h; subst h
    exact ⟨hP, ⟨[], by simp [hol]⟩, Or.inr (by omega)⟩
  | succ R ih =>
    intro s s' hP t0 rest hol h hb
    simp only [List.replicate, runA] at h
    obtain ⟨s1, h1, h2⟩ := Res.bind_ok h
    simp only [List.replicate, AllBounded] at hb
    obtain ⟨hB1, hb1⟩ := hb s1 h1
    have hx : ExactCur s := Or.inl hP.exact
    have h1' : reindexBatch s = .ok s1 := h1
    have hG1 : Good U s1 m := (reindexBatch_ok hU hP.good hx h1' hB1).1
    have hc1 := reindexBatch_cfg s s1 h1'
    by_cases hlt : s.progress < total_chunks t0.bits
    · obtain ⟨pushed, hol1, hp1, hp2⟩ := reindexBatch_progress hP.good hx t0 rest hol hlt h1' hB1
      have hP1 : PassInv U s1 m := ⟨hG1, by rw [hc1]; exact hP.exact, by rw [hc1]; exact hP.grow,
        fun t0' rest' e => by
          rw [hol1] at e
          injection e with e1 _
          rw [← e1]; exact hp2⟩
      obtain ⟨hP', ⟨pushed', hol'⟩, hpr⟩ := ih s1 s' hP1 t0 (rest ++ pushed) hol1 h2 hb1
      refine ⟨hP', ⟨pushed ++ pushed', by rw [hol', List.append_assoc]⟩, ?_⟩
      rcases hpr with h3 | h3
      · exact Or.inl h3
      · exact Or.inr (by omega)
    · -- exhausted: the batch is a no-op
      have hpe : s.progress = total_chunks t0.bits := by
        have := hP.prog t0 rest hol
        omega
      have hs1 : s1 = s := by
        unfold reindexBatch at h1'
        rw [hol] at h1'
        simp only [hpe, if_true] at h1'
        injection h1' with e; exact e.symm
      subst hs1
      obtain ⟨hP', hol', hpr⟩ := ih s1 s' hP t0 rest hol h2 hb1
      refine ⟨hP', hol', ?_⟩
      rcases hpr with h3 | h3
      · exact Or.inl h3
      · left
        have := hP'.prog
        obtain ⟨pushed, hol''⟩ := hol'
        have := this t0 _ hol''
        omega

/-- one pass = `R` batches and the enactment of the logged `DropTable` -/
def pass (R : Nat) : List Action := List.replicate R Action.reindex ++ [Action.enact]

theorem pass_grows {U : Key → Prop} (hU : Univ U) {m : Key → Option Val} (R : Nat) (s s' : Col)
    (hP : PassInv U s m) (hne : s.older ≠ []) (n : Nat) (hLB : LB s n)
    (hR : ∀ t ∈ s.older, total_chunks t.bits ≤ R)
    (h : runA s (pass R) = .ok s') (hb : AllBounded s (pass R)) :
    PassInv U s' m ∧ LB s' (n + 1) := by
  unfold pass at h hb
  rw [runA_append] at h
  obtain ⟨s1, h1, h2⟩ := Res.bind_ok h
  obtain ⟨hb1, _⟩ := AllBounded_append s _ _ hb
  cases hol : s.older with
  | nil => exact absurd hol hne
  | cons t0 rest =>
    obtain ⟨hP1, ⟨pushed, hol1⟩, hpr⟩ := batches_progress hU R s s1 hP t0 rest hol h1 hb1
    have hfull : s1.progress = total_chunks t0.bits := by
      rcases hpr with h3 | h3
      · exact h3
      · have h4 := hP1.prog t0 _ hol1
        have h5 := hR t0 (by rw [hol]; simp)
        omega
    have hdp : dropPending s1 = true := (dropPending_iff s1).2 ⟨t0, _, hol1, hfull⟩
    simp only [runA, stepA, Res.bind] at h2
    injection h2 with h2
    have hs' : s' = { s1 with older := s1.older.tail, progress := 0 } := by
      rw [← h2]; unfold enactDrop; simp only [hdp, if_true]
    have hG' : Good U s' m := by rw [← h2]; exact enactDrop_ok hU hP1.good
    refine ⟨⟨hG', ?_, ?_, ?_⟩, ?_⟩
    · rw [hs']; exact hP1.exact
    · rw [hs']; exact hP1.grow
    · intro t0' rest' _
      rw [hs']; exact Nat.zero_le _
    · -- every remaining table has more bits than the dropped front
      have hord := hP1.good.idx.order
      rw [hol1] at hord
      simp only [List.cons_append, List.map_cons] at hord
      have hall := (List.pairwise_cons.1 hord).1
      have ht0 : n ≤ t0.bits := hLB t0 (by rw [hol]; simp)
      intro t ht
      have hmem : t.bits ∈ List.map (fun x => x.bits) (rest ++ pushed ++ [s1.current]) := by
        apply List.mem_map.2
        refine ⟨t, ?_, rfl⟩
        rw [hs'] at ht
        simp only [hol1, List.tail_cons] at ht
        exact ht
      have := hall _ hmem
      omega

/-- `n` passes -/
def passes (R : Nat) : Nat → List Action
  | 0 => []
  | n + 1 => pass R ++ passes R n

/-- With 65 live keys of one class every pass finds a non-empty queue, so after `n` passes every
table has at least `b + n` index bits. -/
theorem passes_bits {U : Key → Prop} (hU : Univ U) {m : Key → Option Val} (R : Nat)
    (hR : 2 ^ 49 ≤ R) (ks : List Key) (hnd : ks.Nodup) (hlen : 65 ≤ ks.length)
    (hlive : ∀ k ∈ ks, U k ∧ (m k).isSome = true) (c50 : Nat) (hcls : ∀ k ∈ ks, k.pre >>> 14 = c50) :
    ∀ (n : Nat) (s s' : Col) (b : Nat), PassInv U s m → LB s b →
      runA s (passes R n) = .ok s' → AllBounded s (passes R n) →
      PassInv U s' m ∧ LB s' (b + n) ∧ s'.older ≠ [] := by
  intro n
  induction n with
  | zero =>
    intro s s' b hP hLB h _
    simp only [passes, runA] at h
    injection h with h; subst h
    exact ⟨hP, hLB, never_settles hU hP.good ks hnd hlen hlive c50 hcls⟩
  | succ n ih =>
    intro s s' b hP hLB h hb
    simp only [passes] at h hb
    rw [runA_append] at h
    obtain ⟨s1, h1, h2⟩ := Res.bind_ok h
    obtain ⟨hb1, hb2⟩ := AllBounded_append s _ _ hb
    have hne := never_settles hU hP.good ks hnd hlen hlive c50 hcls
    have hRt : ∀ t ∈ s.older, total_chunks t.bits ≤ R := by
      intro t ht
      have hwf := hP.good.idx.wf t (by simp [Col.tables, ht])
      have : total_chunks t.bits = 2 ^ t.bits := by
        simp only [total_chunks, wshl]
        rw [Nat.mod_eq_of_lt (by have := hwf.hi; omega : t.bits < 64), Nat.one_shiftLeft,
          Nat.mod_eq_of_lt (Nat.pow_lt_pow_right (by omega) (by have := hwf.hi; omega))]
      rw [this]
      exact Nat.le_trans (Nat.pow_le_pow_right (by omega) hwf.hi) hR
    obtain ⟨hP1, hLB1⟩ := pass_grows hU R s s1 hP hne b hLB hRt h1 hb1
    obtain ⟨hP', hLB', hne'⟩ := ih s1 s' (b + 1) hP1 hLB1 h2 (hb2 s1 h1)
    exact ⟨hP', by rw [show b + (n + 1) = b + 1 + n by omega]; exact hLB', hne'⟩

end Pdb.Index
