/-
R6 lemmas, part 17: saturation of the stored root counter of a `ref_counted` multitree column at `LOCKED_REF`.
-/
import Pdb.Proofs.RefineMt16

namespace Pdb.MultiTreePhys
open Pdb.Gen Pdb.ValueTable Pdb.MultiTree Pdb.RefineRc

/-- the counter field of the head slot of a live keyed value overwritten by ANY positive u32 (a ghost step: it shows that
    every stored count is a represented state) -/
theorem tier_poke (t : VT) (F C : List Nat) (L : List (List Nat)) (hinv : TierInv t F C L)
    (hrc : t.refCounted = true) (c0 : List Nat) (hc0 : c0 ∈ L) (i : Nat) (hhd : c0.headD 0 = i)
    (tl v : Bytes) (cf : Bool) (n : Nat) (htl : tl.length = PARTIAL_SIZE)
    (hrd : readChain t (.partialKey tl) i = .ok (some (v, cf, n))) (c' : Nat)
    (hc : c' < 256 ^ REFS_SIZE) (hpos : 0 < c') :
      TierInv (bumped t i (c')) F C L ∧
      readChain (bumped t i (c')) (.partialKey tl) i = .ok (some (v, cf, c')) ∧
      (∀ c1 ∈ L, c1 ≠ c0 → ∀ key', readChain (bumped t i (c')) key' (c1.headD 0) =
        readChain t key' (c1.headD 0)) ∧
      (bumped t i (c')).filled = t.filled := by
  obtain ⟨f1, _, _, f4, f5, f6, f7⟩ := head_facts t tl i v cf n htl hrc hrd
  have hb : BumpOk t i := ⟨hrc, f5, f4⟩
  obtain ⟨g1, g2, g3, _, _⟩ := bumped_spec t i (c') F (singles C ++ L) c0 hinv.slot
    (List.mem_append_right _ hc0) hhd hb hc hpos
  refine ⟨⟨g1, ?_⟩, g2 _ v cf n hrd, ?_, rfl⟩
  · intro j hj
    have hi : i < t.filled := by
      have hne := IsChain_ne_nil t c0 (hinv.slot.chains c0 (List.mem_append_right _ hc0))
      have hmem : i ∈ c0 := by
        cases hcc : c0 with
        | nil => exact absurd hcc hne
        | cons x xs => rw [hcc] at hhd; simp only [List.headD_cons] at hhd; rw [← hhd]; exact List.mem_cons_self
      exact (hinv.slot.range i (List.mem_append_right _ (List.mem_flatten.mpr
        ⟨c0, List.mem_append_right _ hc0, hmem⟩))).2
    have hj' : t.filled ≤ j := hj
    rw [bumped_ne t i _ j (by omega)]
    exact hinv.fresh j hj'
  · intro c1 hc1 hne key'
    exact g3 c1 (List.mem_append_right _ hc1) hne key'


/-- any positive u32 in the counter field of a live root of a `ref_counted` column is a represented state: the heap with that
    root count -/
theorem sim_rootPoke (p : PCol) (h : Heap Key Bytes) (ly : Layout) (r : Rep p h ly) (k : Key) (n : Node Bytes)
    (c : Nat) (hk : k.length = 32) (hrcol : p.isRc = true) (hg : h.roots.get k = some (n, c)) (c' : Nat)
    (hc' : c' < 256 ^ REFS_SIZE) (hpos' : 0 < c') :
    ∃ a, p.index.get k = some a ∧
      Rep (p.setVT (Address.size_tier a) (bumped (p.vt (Address.size_tier a)) (Address.offset a) (c')))
        { h with roots := h.roots.set k (some (n, c')) } ly := by
  obtain ⟨a, ha, hok, hhd, hrd⟩ := r.roots.root k n c hg
  have hm : k ∈ ly.rootKeys (Address.size_tier a) := (r.roots.rdom _ k).mpr ⟨a, ha, rfl⟩
  have hc0 : ly.rchain k ∈ (ly.nodes (Address.size_tier a)).map ly.chain ++ ly.other (Address.size_tier a) := by
    rw [r.roots.otherEq]; exact List.mem_append_right _ (List.mem_map.mpr ⟨k, hm, rfl⟩)
  have hrcT : (p.vt (Address.size_tier a)).refCounted = true := by
    have := (r.cfg (Address.size_tier a)).2.2
    rw [this, hrcol]
    unfold tableOfTier; split <;> rfl
  have htl : (k.drop 6).length = PARTIAL_SIZE := by simp [hk, PARTIAL_SIZE]
  obtain ⟨b2, b3, b4, b5⟩ := tier_poke _ _ _ _ (r.tiers (Address.size_tier a)) hrcT (ly.rchain k) hc0
    (Address.offset a) hhd (k.drop 6) (encodeNode n) false c htl hrd c' hc' hpos'
  refine ⟨a, ha, ?_⟩
  -- chains of nodes differ from the root chain: they are in the same duplicate-free partition
  have hnodes_ne : ∀ b, b ∈ ly.nodes (Address.size_tier a) → ly.chain b ≠ ly.rchain k := by
    intro b hb e
    have hs := (r.tiers (Address.size_tier a)).slot
    have hnd := hs.nodup
    rw [List.flatten_append, List.flatten_append] at hnd
    have hnd2 := (List.nodup_append.mp (List.nodup_append.mp hnd).2.1).2.1
    have hdisj := (List.nodup_append.mp hnd2).2.2
    have hne0 := IsChain_ne_nil _ _ (hs.chains _ (List.mem_append_right _ hc0))
    obtain ⟨x, hx⟩ : ∃ x, x ∈ ly.rchain k := by
      cases hc : ly.rchain k with
      | nil => exact absurd hc hne0
      | cons x xs => exact ⟨x, List.mem_cons_self⟩
    exact hdisj x (List.mem_flatten.mpr ⟨ly.chain b, List.mem_map.mpr ⟨b, hb, rfl⟩, by rw [e]; exact hx⟩) x
      (List.mem_flatten.mpr ⟨ly.rchain k, by rw [r.roots.otherEq]; exact List.mem_map.mpr ⟨k, hm, rfl⟩, hx⟩) rfl
  refine ⟨?_, ?_, r.nodup, r.dom, ?_, r.rc, ?_, ?_, r.wf⟩
  · intro tier'
    by_cases he : tier' = Address.size_tier a
    · subst he; rw [setVT_same]; exact b2
    · rw [setVT_other _ _ _ _ he]; exact r.tiers tier'
  · intro tier'
    show SameCfg (tableOfTier p.isRc tier') ((p.setVT (Address.size_tier a) _).vt tier')
    by_cases he : tier' = Address.size_tier a
    · subst he; rw [setVT_same]; exact SameCfg.trans (r.cfg _) (bumped_cfg _ _ _)
    · rw [setVT_other _ _ _ _ he]; exact r.cfg tier'
  · intro b n' hgb
    obtain ⟨g1, g2, g3⟩ := r.node b n' hgb
    refine ⟨g1, g2, ?_⟩
    show readChain ((p.setVT (Address.size_tier a) _).vt (Address.size_tier b)) _ _ = _
    by_cases he : Address.size_tier b = Address.size_tier a
    · rw [he, setVT_same]
      have hmb : b ∈ ly.nodes (Address.size_tier a) := (r.dom _ b).mpr ⟨he, by simp [hgb]⟩
      have := b4 (ly.chain b) (List.mem_append_left _ (List.mem_map.mpr ⟨b, hmb, rfl⟩)) (hnodes_ne b hmb) .noHash
      rw [g2] at this
      rw [this, ← he]; exact g3
    · rw [setVT_other _ _ _ _ he]; exact g3
  · intro tier'
    show ((p.setVT (Address.size_tier a) _).vt tier').filled ≤ 2 ^ 56
    by_cases he : tier' = Address.size_tier a
    · subst he; rw [setVT_same, b5]; exact r.bound _
    · rw [setVT_other _ _ _ _ he]; exact r.bound tier'
  · refine ⟨r.roots.otherEq, r.roots.rnodup, r.roots.rdom, ?_, ?_⟩
    · intro k' n' c' hg'
      show ∃ a', p.index.get k' = some a' ∧ NodeOk n' ∧ (ly.rchain k').headD 0 = Address.offset a' ∧
        readChain ((p.setVT (Address.size_tier a) _).vt (Address.size_tier a')) (keyTail k') (Address.offset a') =
          .ok (some (encodeNode n', false, c'))
      simp only [FMap.get_set] at hg'
      by_cases hk' : k' = k
      · subst hk'
        simp only [if_true, Option.some.injEq, Prod.mk.injEq] at hg'
        obtain ⟨rfl, rfl⟩ := hg'
        refine ⟨a, ha, hok, hhd, ?_⟩
        rw [setVT_same]; exact b3
      · simp only [hk', if_false] at hg'
        obtain ⟨a', g1, g2, g3, g4⟩ := r.roots.root k' n' c' hg'
        refine ⟨a', g1, g2, g3, ?_⟩
        by_cases he : Address.size_tier a' = Address.size_tier a
        · rw [he, setVT_same]
          have hmk : k' ∈ ly.rootKeys (Address.size_tier a) := (r.roots.rdom _ k').mpr ⟨a', g1, he⟩
          have hc1 : ly.rchain k' ∈ (ly.nodes (Address.size_tier a)).map ly.chain ++ ly.other (Address.size_tier a) := by
            rw [r.roots.otherEq]; exact List.mem_append_right _ (List.mem_map.mpr ⟨k', hmk, rfl⟩)
          have := b4 (ly.rchain k') hc1 (rchain_ne r _ k k' hm hmk hk') (keyTail k')
          rw [g3] at this
          rw [this, ← he]; exact g4
        · rw [setVT_other _ _ _ _ he]; exact g4
    · intro k' hg'
      simp only [FMap.get_set] at hg'
      by_cases hk' : k' = k
      · subst hk'; simp at hg'
      · simp only [hk', if_false] at hg'; exact r.roots.rootNone k' hg'


theorem newCount_inc_sat (c : Nat) (h : LOCKED_REF ≤ c + 1) : newCount true c = LOCKED_REF := by
  unfold newCount
  simp only [if_true]
  rw [if_pos (by omega)]

theorem newCount_dec_locked : newCount false LOCKED_REF = LOCKED_REF := by
  unfold newCount; simp

theorem not_goes_locked : ¬ goes false LOCKED_REF := by
  unfold goes; simp

/-- `Operation::Set` / `Reference` on a live root whose stored count is `LOCKED_REF - 1` or `LOCKED_REF`: the counter field
    becomes (stays) `LOCKED_REF`; the column then represents the heap with count `LOCKED_REF`, NOT C10's `count + 1`. -/
theorem sim_root_saturates (p : PCol) (h : Heap Key Bytes) (ly : Layout) (r : Rep p h ly) (k : Key) (n root' : Node Bytes)
    (c : Nat) (hk : k.length = 32) (hv : p.variant = .rcRoots) (hg : h.roots.get k = some (n, c))
    (hlo : LOCKED_REF ≤ c + 1) (hhi : c ≤ LOCKED_REF) :
    ∃ p', physApplyRoot p (.set k root') = .ok p' ∧ physApplyRoot p (.reference k) = .ok p' ∧
      Rep p' { h with roots := h.roots.set k (some (n, LOCKED_REF)) } ly ∧ p'.variant = p.variant := by
  have hrcol : p.isRc = true := by simp [PCol.isRc, hv]
  obtain ⟨a, ha, hcr, r'⟩ := sim_rootBump p h ly r k n c hk hrcol hg true (not_goes_inc c) hhi
  rw [newCount_inc_sat c hlo] at hcr r'
  refine ⟨p.setVT (Address.size_tier a) (bumped (p.vt (Address.size_tier a)) (Address.offset a) LOCKED_REF), ?_, ?_, r',
    rfl⟩
  · simp only [physApplyRoot, physSetRoot, ha, hrcol, if_true, hcr]
  · simp only [physApplyRoot, physRefRoot, ha, hrcol, if_true, hcr]

/-- a locked root entry (`LOCKED_REF`) is never removed: `Operation::Dereference` leaves the counter and the value alone, no
    walk happens -/
theorem sim_root_locked_deref (p : PCol) (h : Heap Key Bytes) (ly : Layout) (r : Rep p h ly) (k : Key) (n : Node Bytes)
    (cs : List Nat) (hk : k.length = 32) (hv : p.variant = .rcRoots) (hg : h.roots.get k = some (n, LOCKED_REF)) :
    ∃ p', physApplyNode p (.derefChildren k cs) = .ok p' ∧ Rep p' h ly ∧ p'.variant = p.variant ∧
      physGetRoot p' k = some (n, LOCKED_REF) := by
  have hrcol : p.isRc = true := by simp [PCol.isRc, hv]
  obtain ⟨a, ha, hcr, r'⟩ := sim_rootBump p h ly r k n LOCKED_REF hk hrcol hg false not_goes_locked (Nat.le_refl _)
  rw [newCount_dec_locked] at hcr r'
  have hheap : ({ h with roots := h.roots.set k (some (n, LOCKED_REF)) } : Heap Key Bytes) =
      { h with roots := h.roots.set k (some (n, LOCKED_REF)) } := rfl
  -- the abstract heap with the same entry written again reads the same; keep the statement on that heap
  refine ⟨p.setVT (Address.size_tier a) (bumped (p.vt (Address.size_tier a)) (Address.offset a) LOCKED_REF), ?_, ?_, rfl,
    ?_⟩
  · simp only [physApplyNode, ha, physDerefRoot, hrcol, if_true, ValueTable.decRef, hcr]
  · -- `Rep` only looks at `roots.get`
    refine ⟨r'.tiers, r'.cfg, r'.nodup, r'.dom, r'.node, r'.rc, r'.bound, ?_, r'.wf⟩
    refine ⟨r'.roots.otherEq, r'.roots.rnodup, r'.roots.rdom, ?_, ?_⟩
    · intro k' n' c' hg'
      apply r'.roots.root k' n' c'
      show (h.roots.set k (some (n, LOCKED_REF))).get k' = some (n', c')
      rw [FMap.get_set]
      by_cases hk' : k' = k
      · subst hk'; rw [if_pos rfl, ← hg, hg']
      · rw [if_neg hk']; exact hg'
    · intro k' hg'
      apply r'.roots.rootNone k'
      show (h.roots.set k (some (n, LOCKED_REF))).get k' = none
      rw [FMap.get_set]
      by_cases hk' : k' = k
      · subst hk'; rw [hg] at hg'; cases hg'
      · rw [if_neg hk']; exact hg'
  · exact r'.getRoot k n LOCKED_REF (by
      show (h.roots.set k (some (n, LOCKED_REF))).get k = some (n, LOCKED_REF)
      rw [FMap.get_set_same])

end Pdb.MultiTreePhys
