/-
R6 lemmas, part 2: the representation relation `Rep` between a physical multitree column and the abstract heap of
Pdb/Model/MultiTree.lean, and the simulation of the node-level table effects (NewValue at a claimed slot,
IncrementReference, the dereference walk with slot release into the per-tier free lists, claims).
-/
import Pdb.Proofs.RefineMt
import Pdb.Proofs.C10Map
import Pdb.Proofs.C10Pack
import Pdb.Proofs.C09Bits

namespace Pdb.MultiTreePhys
open Pdb.Gen Pdb.ValueTable Pdb.MultiTree

/-- Ghost layout of a physical column: per tier the free list (= `free_entries.stack`, top first), the claimed slots,
    the addresses of the node entries, the chains of the other live values (root values); per node address the slots
    of its chain. -/
structure Layout where
  free : Nat → List Nat
  claimed : Nat → List Nat
  nodes : Nat → List Nat
  other : Nat → List (List Nat)
  chain : Nat → List Nat
  /-- hashed keys of the roots whose value lives in the tier -/
  rootKeys : Nat → List Key
  /-- root key -> slots of its value -/
  rchain : Key → List Nat

/-- what the codec can represent (`validate_change` guarantees the first, `u64` the second) -/
def NodeOk (n : Node Bytes) : Prop := n.children.length ≤ 255 ∧ ∀ c ∈ n.children, c < 2 ^ 64

/-- The root part of the representation: the hash index maps exactly the live root keys to the address of their value;
    the value is the packed root node stored under the key tail, with the root count in the counter field; the root value
    chains are the `other` chains of the tables. -/
structure RootRep (p : PCol) (h : Heap Key Bytes) (ly : Layout) : Prop where
  otherEq : ∀ tier, ly.other tier = (ly.rootKeys tier).map ly.rchain
  rnodup : ∀ tier, (ly.rootKeys tier).Nodup
  rdom : ∀ tier k, k ∈ ly.rootKeys tier ↔ ∃ a, p.index.get k = some a ∧ Address.size_tier a = tier
  root : ∀ k n c, h.roots.get k = some (n, c) → ∃ a, p.index.get k = some a ∧ NodeOk n ∧
    (ly.rchain k).headD 0 = Address.offset a ∧
    readChain (p.vt (Address.size_tier a)) (keyTail k) (Address.offset a) = .ok (some (encodeNode n, false, c))
  rootNone : ∀ k, h.roots.get k = none → p.index.get k = none

/-- node-level steps leave the root part alone as long as the root value chains read as before -/
theorem RootRep.frame {p p' : PCol} {h h' : Heap Key Bytes} {ly ly' : Layout} (rr : RootRep p h ly)
    (hidx : p'.index = p.index) (hroots : h'.roots = h.roots)
    (hother : ly'.other = ly.other) (hkeys : ly'.rootKeys = ly.rootKeys) (hrch : ly'.rchain = ly.rchain)
    (hread : ∀ tier, ∀ c ∈ ly.other tier, ∀ key',
      readChain (p'.vt tier) key' (c.headD 0) = readChain (p.vt tier) key' (c.headD 0)) :
    RootRep p' h' ly' := by
  refine ⟨?_, ?_, ?_, ?_, ?_⟩
  · intro tier; rw [hother, hkeys, hrch]; exact rr.otherEq tier
  · intro tier; rw [hkeys]; exact rr.rnodup tier
  · intro tier k; rw [hkeys, hidx]; exact rr.rdom tier k
  · intro k n c hg
    rw [hroots] at hg
    obtain ⟨a, h1, h2, h3, h4⟩ := rr.root k n c hg
    refine ⟨a, by rw [hidx]; exact h1, h2, by rw [hrch]; exact h3, ?_⟩
    have hm : k ∈ ly.rootKeys (Address.size_tier a) := (rr.rdom _ k).mpr ⟨a, h1, rfl⟩
    have hc : ly.rchain k ∈ ly.other (Address.size_tier a) := by
      rw [rr.otherEq]; exact List.mem_map.mpr ⟨k, hm, rfl⟩
    have := hread (Address.size_tier a) (ly.rchain k) hc (keyTail k)
    rw [h3] at this
    rw [this]; exact h4
  · intro k hg
    rw [hroots] at hg
    rw [hidx]; exact rr.rootNone k hg

/-- The physical column `p` represents the abstract heap `h` (nodes, roots and counts; addresses are the SAME numbers on both
    sides: `Address.new offset tier`). -/
structure Rep (p : PCol) (h : Heap Key Bytes) (ly : Layout) : Prop where
  tiers : ∀ tier, TierInv (p.vt tier) (ly.free tier) (ly.claimed tier)
    ((ly.nodes tier).map ly.chain ++ ly.other tier)
  cfg : ∀ tier, SameCfg (tableOfTier p.isRc tier) (p.vt tier)
  nodup : ∀ tier, (ly.nodes tier).Nodup
  dom : ∀ tier a, a ∈ ly.nodes tier ↔ (Address.size_tier a = tier ∧ (h.nodes.get a).isSome)
  node : ∀ a n, h.nodes.get a = some n → NodeOk n ∧ (ly.chain a).headD 0 = Address.offset a ∧
    readChain (p.vt (Address.size_tier a)) .noHash (Address.offset a) = .ok (some (encodeNode n, false, 1))
  rc : p.rc = h.rc
  bound : ∀ tier, (p.vt tier).filled ≤ 2 ^ 56
  roots : RootRep p h ly
  wf : h.nodes.WF

theorem decode_encode (n : Node Bytes) (h : NodeOk n) : decodeNode (encodeNode n) = some n := by
  unfold decodeNode encodeNode
  rw [C10_unpack_pack n.data n.children h.1 h.2]

/-- `get_node` on a live address returns the abstract node -/
theorem Rep.getNode {p : PCol} {h : Heap Key Bytes} {ly : Layout} (r : Rep p h ly) (a : Nat) (n : Node Bytes)
    (hn : h.nodes.get a = some n) : physGetNode p a = some n := by
  obtain ⟨hok, _, hrd⟩ := r.node a n hn
  unfold physGetNode physGetBytes
  rw [hrd]
  simp only [Option.bind_some]
  exact decode_encode n hok

theorem setVT_same (p : PCol) (tier : Nat) (t : VT) : (p.setVT tier t).vt tier = t := by
  simp [PCol.setVT]

theorem setVT_other (p : PCol) (tier : Nat) (t : VT) (i : Nat) (h : i ≠ tier) : (p.setVT tier t).vt i = p.vt i := by
  simp [PCol.setVT, h]

def upd {α : Type} (f : Nat → α) (i : Nat) (x : α) : Nat → α := fun j => if j = i then x else f j

theorem upd_same {α : Type} (f : Nat → α) (i : Nat) (x : α) : upd f i x i = x := by simp [upd]
theorem upd_other {α : Type} (f : Nat → α) (i j : Nat) (x : α) (h : j ≠ i) : upd f i x j = f j := by simp [upd, h]

theorem map_upd_of_not_mem (f : Nat → List Nat) (a : Nat) (x : List Nat) (l : List Nat) (h : a ∉ l) :
    l.map (upd f a x) = l.map f := by
  apply List.map_congr_left
  intro b hb
  exact upd_other f a b x (by intro e; exact h (e ▸ hb))

/-! ## IncrementReference -/

theorem sim_incRef (p : PCol) (h : Heap Key Bytes) (ly : Layout) (r : Rep p h ly) (a : Nat) :
    ∃ p', physApplyNode p (.incRef a) = .ok p' ∧ Rep p' (incRef h a) ly := by
  refine ⟨_, rfl, ?_⟩
  have hrc : (incRef (⟨.empty, p.rc, .empty, 0⟩ : Heap Key Bytes) a).rc = (incRef h a).rc := by
    simp only [incRef, r.rc]
  exact ⟨r.tiers, r.cfg, r.nodup, r.dom, r.node, hrc, r.bound,
    r.roots.frame rfl rfl rfl rfl rfl (fun _ _ _ _ => rfl), r.wf⟩

/-! ## NewValue at a claimed slot -/

theorem tier_write_filled (t : VT) (F C : List Nat) (L : List (List Nat)) (v : Bytes) (idx : Nat)
    (hinv : TierInv t F C L) (hidx : idx ∈ C) (hok : WriteOk t .noHash v)
    (hb : t.filled + numParts t .noHash v ≤ 2 ^ 64) (r : WrOk) (hw : writeClaimed t v idx = .ok r) :
    r.table.filled ≤ t.filled + numParts t .noHash v := by
  have hs : SlotInv t F ([idx] :: (singles (C.erase idx) ++ L)) :=
    SlotInv_perm t F _ _ (perm_front C idx L hidx) hinv.slot
  have hn : nextPart t idx = none := by
    have := hs.chains [idx] (by simp)
    simpa [IsChain] using this
  obtain ⟨r', g1, _, _, _, _, g6⟩ := C06_replace_frees t .noHash v false F [idx]
    (singles (C.erase idx) ++ L) hok hs hb
  simp only [List.headD_cons] at g1
  rw [writeClaimed_eq t v idx hn, g1] at hw
  have e : r' = r := by injection hw
  subst e
  rw [g6]; omega

/-- `write_address_value_plan(address, pack(n))` for a claimed address: simulated by `nodes.set a (some n)`; the free
    list of the tier loses the `numParts - 1` slots popped for the continuation parts (0 in a fixed-size tier). -/
theorem sim_newValue (p : PCol) (h : Heap Key Bytes) (ly : Layout) (r : Rep p h ly)
    (tier idx : Nat) (n : Node Bytes) (ht : tier < 256)
    (hidx : idx ∈ ly.claimed tier) (hn : NodeOk n)
    (hok : WriteOk (p.vt tier) .noHash (encodeNode n))
    (hb : (p.vt tier).filled + numParts (p.vt tier) .noHash (encodeNode n) ≤ 2 ^ 56) :
    ∃ p' c, physApplyNode p (.newValue (Address.new idx tier) n) = .ok p' ∧
      Rep p' { h with nodes := h.nodes.set (Address.new idx tier) (some n) }
        { ly with free := upd ly.free tier ((ly.free tier).drop (numParts (p.vt tier) .noHash (encodeNode n) - 1)),
                  claimed := upd ly.claimed tier ((ly.claimed tier).erase idx),
                  nodes := upd ly.nodes tier (Address.new idx tier :: ly.nodes tier),
                  chain := upd ly.chain (Address.new idx tier) c } ∧
      physGetNode p' (Address.new idx tier) = some n ∧ p'.variant = p.variant := by
  have hti := r.tiers tier
  have hidxlt : idx < 2 ^ 56 := by
    have := (hti.slot.range idx (by
      rw [List.flatten_append, singles_flatten]; simp [hidx])).2
    have := r.bound tier
    omega
  have hat : Address.size_tier (Address.new idx tier) = tier := Index.address_tier_new idx tier hidxlt ht
  have hao : Address.offset (Address.new idx tier) = idx := Index.address_offset_new idx tier hidxlt ht
  -- the address is not a live node
  have hnew : h.nodes.get (Address.new idx tier) = none := by
    cases hg : h.nodes.get (Address.new idx tier) with
    | none => rfl
    | some n' =>
      exfalso
      have hm : Address.new idx tier ∈ ly.nodes tier := (r.dom tier _).mpr ⟨hat, by simp [hg]⟩
      obtain ⟨_, hhd, _⟩ := r.node _ n' hg
      rw [hao] at hhd
      have hch : IsChain (p.vt tier) (ly.chain (Address.new idx tier)) :=
        hti.slot.chains _ (List.mem_append_right _ (List.mem_append_left _ (List.mem_map.mpr ⟨_, hm, rfl⟩)))
      have hne := IsChain_ne_nil _ _ hch
      have hin : idx ∈ ly.chain (Address.new idx tier) := by
        cases hc : ly.chain (Address.new idx tier) with
        | nil => exact absurd hc hne
        | cons x xs => rw [hc] at hhd; simp only [List.headD_cons] at hhd; rw [hhd]; exact List.mem_cons_self
      have hnd := hti.slot.nodup
      rw [List.flatten_append, singles_flatten] at hnd
      have hnd2 := (List.nodup_append.mp (List.nodup_append.mp hnd).2.1).2.2
      exact hnd2 idx hidx idx (by
        rw [List.flatten_append]
        exact List.mem_append_left _ (List.mem_flatten.mpr ⟨_, List.mem_map.mpr ⟨_, hm, rfl⟩, hin⟩)) rfl
  have hnotin : Address.new idx tier ∉ ly.nodes tier := by
    intro hm
    have := ((r.dom tier _).mp hm).2
    rw [hnew] at this; simp at this
  obtain ⟨w, hw, hrd, hhd, hinv', hframe, hcfg⟩ := tier_write (p.vt tier) (ly.free tier) (ly.claimed tier) _
    (encodeNode n) idx hti hidx hok (by omega)
  have hfl := tier_write_filled (p.vt tier) (ly.free tier) (ly.claimed tier) _ (encodeNode n) idx hti hidx hok
    (by omega) w hw
  refine ⟨p.setVT tier w.table, w.chain, ?_, ?_, ?_⟩
  · simp only [physApplyNode, physNewValue, hat, hao, hw]
  · refine ⟨?_, ?_, ?_, ?_, ?_, r.rc, ?_, ?_, FMap.WF_set h.nodes r.wf _ _⟩
    rotate_left 6
    · refine r.roots.frame rfl rfl rfl rfl rfl ?_
      intro tier' c hc key'
      by_cases he : tier' = tier
      · subst he; rw [setVT_same]; exact hframe c (List.mem_append_right _ hc) key'
      · rw [setVT_other _ _ _ _ he]
    · intro tier'
      by_cases he : tier' = tier
      · subst he
        simp only [setVT_same, upd_same]
        simp only [List.map_cons, upd_same, List.cons_append]
        rw [map_upd_of_not_mem _ _ _ _ hnotin]
        exact hinv'
      · simp only [setVT_other _ _ _ _ he, upd_other _ _ _ _ he]
        have : (ly.nodes tier').map (upd ly.chain (Address.new idx tier) w.chain) = (ly.nodes tier').map ly.chain := by
          apply map_upd_of_not_mem
          intro hm
          have := ((r.dom tier' _).mp hm).1
          rw [hat] at this; exact he this.symm
        rw [this]
        exact r.tiers tier'
    · intro tier'
      have hisrc : (p.setVT tier w.table).isRc = p.isRc := rfl
      rw [hisrc]
      by_cases he : tier' = tier
      · subst he; rw [setVT_same]; exact SameCfg.trans (r.cfg tier') hcfg
      · rw [setVT_other _ _ _ _ he]; exact r.cfg tier'
    · intro tier'
      by_cases he : tier' = tier
      · subst he; simp only [upd_same]; exact List.nodup_cons.mpr ⟨hnotin, r.nodup tier'⟩
      · simp only [upd_other _ _ _ _ he]; exact r.nodup tier'
    · intro tier' a
      simp only [FMap.get_set]
      by_cases he : tier' = tier
      · subst he
        simp only [upd_same, List.mem_cons]
        by_cases ha : a = Address.new idx tier'
        · subst ha; simp [hat]
        · simp only [ha, false_or, if_false]; exact r.dom tier' a
      · simp only [upd_other _ _ _ _ he]
        by_cases ha : a = Address.new idx tier
        · subst ha
          simp only [if_true, hat]
          constructor
          · intro hm; exact absurd ((r.dom tier' _).mp hm).1 (by rw [hat]; exact fun e => he e.symm)
          · intro hm; exact absurd hm.1.symm he
        · simp only [ha, if_false]; exact r.dom tier' a
    · intro a n' hg
      simp only [FMap.get_set] at hg
      by_cases ha : a = Address.new idx tier
      · subst ha
        simp only [if_true, Option.some.injEq] at hg
        subst hg
        simp only [upd_same, hat, hao, setVT_same]
        exact ⟨hn, hhd, hrd⟩
      · simp only [ha, if_false] at hg
        obtain ⟨g1, g2, g3⟩ := r.node a n' hg
        simp only [upd_other _ _ _ _ ha]
        refine ⟨g1, g2, ?_⟩
        by_cases he : Address.size_tier a = tier
        · rw [he, setVT_same]
          have hm : a ∈ ly.nodes tier := (r.dom tier a).mpr ⟨he, by simp [hg]⟩
          have := hframe (ly.chain a) (List.mem_append_left _ (List.mem_map.mpr ⟨a, hm, rfl⟩)) .noHash
          rw [g2] at this
          rw [this, ← he]; exact g3
        · rw [setVT_other _ _ _ _ he]; exact g3
    · intro tier'
      by_cases he : tier' = tier
      · subst he; rw [setVT_same]; omega
      · rw [setVT_other _ _ _ _ he]; exact r.bound tier'
  · refine ⟨?_, rfl⟩
    unfold physGetNode physGetBytes
    rw [hat, hao, setVT_same, hrd]
    simp only [Option.bind_some]
    exact decode_encode n hn

/-! ## the dereference walk -/

/-- how the layout changes along a walk: free lists only grow at the top (slots are pushed), claimed slots and root
    value chains are untouched -/
def Pushed (ly ly' : Layout) : Prop :=
  (∀ tier, ∃ pushed, ly'.free tier = pushed ++ ly.free tier) ∧ ly'.claimed = ly.claimed ∧ ly'.other = ly.other ∧
    ly'.rootKeys = ly.rootKeys ∧ ly'.rchain = ly.rchain

theorem Pushed.refl (ly : Layout) : Pushed ly ly := ⟨fun _ => ⟨[], rfl⟩, rfl, rfl, rfl, rfl⟩

theorem Pushed.trans {a b c : Layout} (h1 : Pushed a b) (h2 : Pushed b c) : Pushed a c := by
  refine ⟨fun tier => ?_, h2.2.1.trans h1.2.1, h2.2.2.1.trans h1.2.2.1, h2.2.2.2.1.trans h1.2.2.2.1,
    h2.2.2.2.2.trans h1.2.2.2.2⟩
  obtain ⟨x, hx⟩ := h1.1 tier
  obtain ⟨y, hy⟩ := h2.1 tier
  exact ⟨y ++ x, by rw [hy, hx, List.append_assoc]⟩

/-- `write_address_dec_ref_plan` on a live node without a ref-count entry: `write_remove_plan` pushes the slots of
    its chain on the free list of ITS tier (last part on top); simulated by `nodes.set a none`. -/
theorem sim_remove (p : PCol) (h : Heap Key Bytes) (ly : Layout) (r : Rep p h ly) (a : Nat) (n : Node Bytes)
    (hg : h.nodes.get a = some n) (hrc : h.rc.get a = none) :
    ∃ p', physDecRef p a = .ok (false, p') ∧
      Rep p' { h with nodes := h.nodes.set a none }
        { ly with free := upd ly.free (Address.size_tier a) ((ly.chain a).reverse ++ ly.free (Address.size_tier a)),
                  nodes := upd ly.nodes (Address.size_tier a) ((ly.nodes (Address.size_tier a)).erase a) } ∧
      p'.variant = p.variant := by
  obtain ⟨hok, hhd, hrd⟩ := r.node a n hg
  have hm : a ∈ ly.nodes (Address.size_tier a) := (r.dom _ a).mpr ⟨rfl, by simp [hg]⟩
  have hti := r.tiers (Address.size_tier a)
  have hperm : ((ly.nodes (Address.size_tier a)).map ly.chain ++ ly.other (Address.size_tier a)).Perm
      (ly.chain a :: (((ly.nodes (Address.size_tier a)).erase a).map ly.chain ++ ly.other (Address.size_tier a))) := by
    have := (List.perm_cons_erase hm).map ly.chain
    simpa using this.append_right (ly.other (Address.size_tier a))
  have hti' : TierInv (p.vt (Address.size_tier a)) (ly.free (Address.size_tier a)) (ly.claimed (Address.size_tier a))
      (ly.chain a :: (((ly.nodes (Address.size_tier a)).erase a).map ly.chain ++ ly.other (Address.size_tier a))) :=
    ⟨SlotInv_perm _ _ _ _ (List.Perm.append_left _ hperm) hti.slot, hti.fresh⟩
  obtain ⟨t', h1, h2, h3, h4, h5⟩ := tier_remove _ _ _ _ _ hti' (by have := r.bound (Address.size_tier a); omega)
  rw [hhd] at h1
  refine ⟨p.setVT (Address.size_tier a) t', ?_, ?_, rfl⟩
  · simp only [physDecRef, r.rc, hrc, h1]
  · have hnd := r.nodup (Address.size_tier a)
    refine ⟨?_, ?_, ?_, ?_, ?_, r.rc, ?_, ?_, FMap.WF_set h.nodes r.wf _ _⟩
    rotate_left 6
    · refine r.roots.frame rfl rfl rfl rfl rfl ?_
      intro tier' c hc key'
      by_cases he : tier' = Address.size_tier a
      · subst he; rw [setVT_same]; exact h5 c (List.mem_append_right _ hc) key'
      · rw [setVT_other _ _ _ _ he]
    · intro tier'
      by_cases he : tier' = Address.size_tier a
      · subst he; simp only [setVT_same, upd_same]; exact h2
      · simp only [setVT_other _ _ _ _ he, upd_other _ _ _ _ he]; exact r.tiers tier'
    · intro tier'
      have hisrc : (p.setVT (Address.size_tier a) t').isRc = p.isRc := rfl
      rw [hisrc]
      by_cases he : tier' = Address.size_tier a
      · subst he; rw [setVT_same]; exact SameCfg.trans (r.cfg _) h4
      · rw [setVT_other _ _ _ _ he]; exact r.cfg tier'
    · intro tier'
      by_cases he : tier' = Address.size_tier a
      · subst he; simp only [upd_same]; exact hnd.erase a
      · simp only [upd_other _ _ _ _ he]; exact r.nodup tier'
    · intro tier' b
      simp only [FMap.get_set]
      by_cases he : tier' = Address.size_tier a
      · subst he
        simp only [upd_same]
        by_cases hb : b = a
        · subst hb
          simp only [if_true, Option.isSome_none, Bool.false_eq_true, and_false, iff_false]
          exact fun hmem => (List.Nodup.mem_erase_iff hnd).mp hmem |>.1 rfl
        · simp only [hb, if_false]
          rw [List.Nodup.mem_erase_iff hnd]
          constructor
          · intro hh; exact (r.dom _ b).mp hh.2
          · intro hh; exact ⟨hb, (r.dom _ b).mpr hh⟩
      · simp only [upd_other _ _ _ _ he]
        by_cases hb : b = a
        · subst hb
          simp only [if_true, Option.isSome_none, Bool.false_eq_true, and_false, iff_false]
          intro hmem; exact he ((r.dom tier' b).mp hmem).1.symm
        · simp only [hb, if_false]; exact r.dom tier' b
    · intro b n' hgb
      simp only [FMap.get_set] at hgb
      by_cases hb : b = a
      · subst hb; simp at hgb
      · simp only [hb, if_false] at hgb
        obtain ⟨g1, g2, g3⟩ := r.node b n' hgb
        refine ⟨g1, g2, ?_⟩
        by_cases he : Address.size_tier b = Address.size_tier a
        · rw [he, setVT_same]
          have hmb : b ∈ (ly.nodes (Address.size_tier a)).erase a := by
            rw [List.Nodup.mem_erase_iff hnd]
            exact ⟨hb, (r.dom _ b).mpr ⟨he, by simp [hgb]⟩⟩
          have := h5 (ly.chain b) (List.mem_append_left _ (List.mem_map.mpr ⟨b, hmb, rfl⟩)) .noHash
          rw [g2] at this
          rw [this, ← he]; exact g3
        · rw [setVT_other _ _ _ _ he]; exact g3
    · intro tier'
      by_cases he : tier' = Address.size_tier a
      · subst he; rw [setVT_same, h3]; exact r.bound _
      · rw [setVT_other _ _ _ _ he]; exact r.bound tier'

/-- the statement of the walk simulation for one fuel value -/
def WalkSim (fuel : Nat) : Prop :=
  ∀ (cs : List Nat) (p : PCol) (h h' : Heap Key Bytes) (ly : Layout), Rep p h ly →
    derefChildren fuel h cs = .ok h' →
    ∃ p' ly', physDerefChildren fuel p cs = .ok p' ∧ Rep p' h' ly' ∧ Pushed ly ly' ∧ p'.variant = p.variant

theorem sim_step (rec : Heap Key Bytes → List Nat → Except Err (Heap Key Bytes))
    (prec : PCol → List Nat → Except PErr PCol)
    (hrec : ∀ (cs : List Nat) (p : PCol) (h h' : Heap Key Bytes) (ly : Layout), Rep p h ly → rec h cs = .ok h' →
      ∃ p' ly', prec p cs = .ok p' ∧ Rep p' h' ly' ∧ Pushed ly ly' ∧ p'.variant = p.variant)
    (p : PCol) (h h' : Heap Key Bytes) (ly : Layout) (r : Rep p h ly) (a : Nat)
    (hs : derefStep rec h a = .ok h') :
    ∃ p' ly', physDerefStep prec p a = .ok p' ∧ Rep p' h' ly' ∧ Pushed ly ly' ∧ p'.variant = p.variant := by
  unfold derefStep at hs
  simp only [MultiTree.decRef] at hs
  cases hrc : h.rc.get a with
  | some c =>
    simp only [hrc] at hs
    injection hs with hs
    subst hs
    refine ⟨{ p with rc := p.rc.set a (if c - 1 > 1 then some (c - 1) else none) }, ly, ?_, ?_, Pushed.refl ly, rfl⟩
    · simp only [physDerefStep, physDecRef, r.rc, hrc]
    · exact ⟨r.tiers, r.cfg, r.nodup, r.dom, r.node, by simp only [r.rc], r.bound,
        r.roots.frame rfl rfl rfl rfl rfl (fun _ _ _ _ => rfl), r.wf⟩
  | none =>
    simp only [hrc] at hs
    cases hg : h.nodes.get a with
    | none => simp [hg] at hs
    | some n =>
      simp only [hg, Option.map_some] at hs
      obtain ⟨p1, hd, r1, hv1⟩ := sim_remove p h ly r a n hg hrc
      obtain ⟨p', ly', hp, r', hpu, hv'⟩ := hrec n.children p1 _ h' _ r1 hs
      refine ⟨p', ly', ?_, r', ?_, hv'.trans hv1⟩
      · simp only [physDerefStep, physGetChildren, r.getNode a n hg, Option.map_some, hd]
        exact hp
      · have hp1 : Pushed ly
            { ly with free := upd ly.free (Address.size_tier a) ((ly.chain a).reverse ++ ly.free (Address.size_tier a)),
                      nodes := upd ly.nodes (Address.size_tier a) ((ly.nodes (Address.size_tier a)).erase a) } := by
          refine ⟨fun tier => ?_, rfl, rfl, rfl, rfl⟩
          by_cases he : tier = Address.size_tier a
          · subst he; exact ⟨(ly.chain a).reverse, by simp only [upd_same]⟩
          · exact ⟨[], by simp only [upd_other _ _ _ _ he, List.nil_append]⟩
        exact Pushed.trans hp1 hpu

theorem sim_fold (rec : Heap Key Bytes → List Nat → Except Err (Heap Key Bytes))
    (prec : PCol → List Nat → Except PErr PCol)
    (hrec : ∀ (cs : List Nat) (p : PCol) (h h' : Heap Key Bytes) (ly : Layout), Rep p h ly → rec h cs = .ok h' →
      ∃ p' ly', prec p cs = .ok p' ∧ Rep p' h' ly' ∧ Pushed ly ly' ∧ p'.variant = p.variant) :
    ∀ (cs : List Nat) (p : PCol) (h h' : Heap Key Bytes) (ly : Layout), Rep p h ly →
      cs.foldlM (derefStep rec) h = .ok h' →
      ∃ p' ly', cs.foldlM (physDerefStep prec) p = .ok p' ∧ Rep p' h' ly' ∧ Pushed ly ly' ∧ p'.variant = p.variant := by
  intro cs
  induction cs with
  | nil =>
    intro p h h' ly r hs
    simp only [List.foldlM_nil] at hs
    injection hs with hs
    subst hs
    exact ⟨p, ly, rfl, r, Pushed.refl ly, rfl⟩
  | cons a cs ih =>
    intro p h h' ly r hs
    simp only [List.foldlM_cons] at hs ⊢
    cases h1 : derefStep rec h a with
    | error e => rw [h1] at hs; simp [bind, Except.bind] at hs
    | ok hm =>
      rw [h1] at hs
      simp only [bind, Except.bind] at hs
      obtain ⟨pm, lym, hpm, rm, hpum, hvm⟩ := sim_step rec prec hrec p h hm ly r a h1
      obtain ⟨p', ly', hp', r', hpu', hv'⟩ := ih pm hm h' lym rm hs
      refine ⟨p', ly', ?_, r', Pushed.trans hpum hpu', hv'.trans hvm⟩
      rw [hpm]
      simp only [bind, Except.bind]
      exact hp'

theorem sim_walk : ∀ fuel, WalkSim fuel := by
  intro fuel
  induction fuel with
  | zero => intro cs p h h' ly _ hs; simp [derefChildren] at hs
  | succ f ih =>
    intro cs p h h' ly r hs
    simp only [derefChildren] at hs
    simp only [physDerefChildren]
    exact sim_fold (derefChildren f) (physDerefChildren f) ih cs p h h' ly r hs

/-! ## claims -/

/-- `claim_entries(n)` on one tier of a column -/
theorem sim_claim (p : PCol) (h : Heap Key Bytes) (ly : Layout) (r : Rep p h ly) (tier n : Nat)
    (hb : (p.vt tier).filled + n ≤ 2 ^ 56) :
    ∃ t', allocN (p.vt tier) n = .ok (t', (ly.free tier).take n ++
        List.range' (p.vt tier).filled (n - (ly.free tier).length)) ∧
      Rep (p.setVT tier t') h
        { ly with free := upd ly.free tier ((ly.free tier).drop n),
                  claimed := upd ly.claimed tier (ly.claimed tier ++ ((ly.free tier).take n ++
                    List.range' (p.vt tier).filled (n - (ly.free tier).length))) } ∧
      t'.filled = (p.vt tier).filled + (n - (ly.free tier).length) ∧ SameCfg (p.vt tier) t' := by
  obtain ⟨t', h1, h2, h3, h4, h5⟩ := tier_claim _ _ _ _ n (r.tiers tier)
  have hrd : ∀ c ∈ (ly.nodes tier).map ly.chain ++ ly.other tier, ∀ key',
      readChain t' key' (c.headD 0) = readChain (p.vt tier) key' (c.headD 0) := by
    intro c hc key'
    have hch := (r.tiers tier).slot.chains c (List.mem_append_right _ hc)
    have hc1 := (r.tiers tier).slot.count
    have hlen := length_le_flatten _ c (List.mem_append_right (singles (ly.claimed tier)) hc)
    exact readChain_congr (p.vt tier) t' h4 key' c hch (fun x _ => by rw [h3]) (by omega) (by rw [h5]; omega)
  refine ⟨t', h1, ⟨?_, ?_, r.nodup, r.dom, ?_, r.rc, ?_, ?_, r.wf⟩, h5, h4⟩
  · intro tier'
    by_cases he : tier' = tier
    · subst he; simp only [setVT_same, upd_same]; exact h2
    · simp only [setVT_other _ _ _ _ he, upd_other _ _ _ _ he]; exact r.tiers tier'
  · intro tier'
    have hisrc : (p.setVT tier t').isRc = p.isRc := rfl
    rw [hisrc]
    by_cases he : tier' = tier
    · subst he; rw [setVT_same]; exact SameCfg.trans (r.cfg _) h4
    · rw [setVT_other _ _ _ _ he]; exact r.cfg tier'
  · intro a n' hg
    obtain ⟨g1, g2, g3⟩ := r.node a n' hg
    refine ⟨g1, g2, ?_⟩
    by_cases he : Address.size_tier a = tier
    · rw [he, setVT_same]
      have hm : a ∈ ly.nodes tier := (r.dom tier a).mpr ⟨he, by simp [hg]⟩
      have := hrd (ly.chain a) (List.mem_append_left _ (List.mem_map.mpr ⟨a, hm, rfl⟩)) .noHash
      rw [g2] at this
      rw [this, ← he]; exact g3
    · rw [setVT_other _ _ _ _ he]; exact g3
  · intro tier'
    by_cases he : tier' = tier
    · subst he; rw [setVT_same, h5]; omega
    · rw [setVT_other _ _ _ _ he]; exact r.bound tier'
  · refine r.roots.frame rfl rfl rfl rfl rfl ?_
    intro tier' c hc key'
    by_cases he : tier' = tier
    · subst he; rw [setVT_same]; exact hrd c (List.mem_append_right _ hc) key'
    · rw [setVT_other _ _ _ _ he]

theorem numParts_cfg (t t' : VT) (hc : SameCfg t t') (key : TKey) (v : Bytes) :
    numParts t' key v = numParts t key v := by
  unfold numParts chunksOf bodyOf
  rw [hc.freeSpace_eq, hc.partCap_eq, hc.rcBytes_eq]

end Pdb.MultiTreePhys
