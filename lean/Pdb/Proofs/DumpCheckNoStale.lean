/-
T2 for `Pdb.Index.NoStale`: soundness of the executable `checkNoStale` (Pdb/Model/DumpCheck.lean,
driver command `t2 nostale`).  An accepted dump of the real files rebuilds a model state
`colOf d` that satisfies `NoStale`: every entry of every index table points to a live value
whose stored tail continues the recovered key bits, all entries of one slot agree on the
index-visible key bits, no table has two entries for one slot.
-/
import Pdb.Proofs.DumpCheckInv
import Pdb.Proofs.C09NoStale

namespace Pdb.DumpCheck
open Pdb.Gen Pdb.Index Pdb.IndexPage

theorem visOf_eq (b c e : Nat) : visOf b c e = vis (recover_index_key b c e) := rfl

theorem addEntry_getD (t : Table) (x : Nat × Nat × Nat) (c i : Nat) :
    ((addEntry t x).page c).getD i 0 = (t.page c).getD i 0 ∨
      (((addEntry t x).page c).getD i 0 = x.2.2 ∧ x.1 = c ∧ x.2.1 = i) := by
  unfold addEntry
  split
  · rw [Table.page_setPage]
    by_cases hc : x.1 = c
    · simp only [hc, if_true]
      by_cases hi : x.2.1 = i
      · by_cases hlen : x.2.1 < (t.page c).length
        · right
          refine ⟨?_, trivial, hi⟩
          rw [← hi, getD_set _ _ _ _ hlen]; simp
        · left
          rw [List.set_eq_of_length_le (Nat.le_of_not_lt hlen)]
      · left
        exact getD_set_ne _ _ _ _ hi
    · simp only [hc, if_false]
      exact Or.inl trivial
  · exact Or.inl rfl

/-- every non-empty entry of a rebuilt page was there before or is a dumped entry -/
theorem foldl_addEntry_src (l : List (Nat × Nat × Nat)) :
    ∀ (t : Table) (c i : Nat),
      ((l.foldl addEntry t).page c).getD i 0 = (t.page c).getD i 0 ∨
      (c, i, ((l.foldl addEntry t).page c).getD i 0) ∈ l := by
  induction l with
  | nil => intro t c i; exact Or.inl rfl
  | cons x r ih =>
    intro t c i
    rw [List.foldl_cons]
    rcases ih (addEntry t x) c i with h | h
    · rcases addEntry_getD t x c i with h2 | ⟨h2, h3, h4⟩
      · exact Or.inl (h.trans h2)
      · right
        rw [h, h2, ← h3, ← h4]
        exact List.mem_cons_self
    · exact Or.inr (List.mem_cons_of_mem _ h)

/-- every non-empty entry of a rebuilt table is a dumped entry -/
theorem indexOf_src (x : IndexDump) (c i : Nat) (h : ((indexOf x).page c).getD i 0 ≠ 0) :
    (c, i, ((indexOf x).page c).getD i 0) ∈ x.entries := by
  rcases foldl_addEntry_src x.entries (Table.new x.bits) c i with h1 | h1
  · exact absurd (h1.trans (by rw [Table.page_new]; exact emptyPage_getD i)) h
  · exact h1

theorem firstStale_none (s : Col) (own : Trie Nat) : ∀ (ds : List IndexDump) (n : Nat),
    firstStale s own ds n = none →
    ∀ x ∈ ds, ∀ y ∈ x.entries, entryFine s own (posOf x) x.bits y = true := by
  intro ds
  induction ds with
  | nil => intro _ _ x hx; cases hx
  | cons a r ih =>
    intro n h x hx y hy
    unfold firstStale at h
    split at h
    · cases h
    · rename_i hf
      rcases List.mem_cons.1 hx with rfl | hx'
      · unfold firstBadEntry at hf
        have := List.find?_eq_none.1 hf y hy
        simpa using this
      · exact ih _ h x hx' y hy

/-- what an accepted dump says about every dumped entry -/
structure NoStaleOk (d : ColumnDump) : Prop where
  nonempty : d.index.isEmpty = false
  bits : ∀ x ∈ d.index, 16 ≤ x.bits ∧ x.bits ≤ 49
  fine : ∀ x ∈ d.index, ∀ y ∈ x.entries,
    entryFine (colOf d) (ownersOf d.index) (posOf x) x.bits y = true

theorem nostaleReason_none (d : ColumnDump) (h : nostaleReason d = none) : NoStaleOk d := by
  rw [nostaleReason] at h
  rw [guardR_none] at h; obtain ⟨h1, h⟩ := h
  rw [guardR_none] at h; obtain ⟨h2, h⟩ := h
  rw [orR_none] at h; obtain ⟨_, h⟩ := h
  refine ⟨by simpa using h1, fun x hx => ?_, firstStale_none _ _ _ _ h⟩
  have := List.all_eq_true.1 h2 x hx
  simpa using this

theorem checkNoStale_iff (d : ColumnDump) : checkNoStale d = true ↔ nostaleReason d = none := by
  unfold checkNoStale
  cases nostaleReason d <;> simp

/-- a `Has` witness of a rebuilt table comes from a dumped entry -/
theorem indexOf_has_src (x : IndexDump) (kp a : Nat) (h : (indexOf x).Has kp a) :
    ∃ i e, (chunk_index x.bits kp, i, e) ∈ x.entries ∧ e ≠ 0 ∧
      Entry.partial_key e x.bits = Entry.extract_key kp x.bits ∧ Entry.address e x.bits = a := by
  obtain ⟨i, _, hm, ha⟩ := h
  have hc : (indexOf x).chunk kp = chunk_index x.bits kp := by
    simp only [Table.chunk, indexOf_bits]
  rw [hc, indexOf_bits] at hm ha
  exact ⟨i, _, indexOf_src x _ i hm.2, hm.2, hm.1, ha⟩

theorem NoStaleOk.noStale {d : ColumnDump} (ok : NoStaleOk d) : NoStale (colOf d) := by
  have htab := tables_colOf d ok.nonempty
  have hmem : ∀ t ∈ (colOf d).tables, ∃ x ∈ d.index, t = indexOf x := by
    intro t ht
    rw [htab, List.mem_map] at ht
    obtain ⟨x, hx, e⟩ := ht
    exact ⟨x, hx, e.symm⟩
  refine ⟨fun t ht kp a hkp hh => ?_, fun t1 ht1 t2 ht2 kp1 kp2 a h1 h2 hh1 hh2 => ?_,
    fun t ht => ?_⟩
  · obtain ⟨x, hx, rfl⟩ := hmem t ht
    obtain ⟨i, e, hmem', _, hpk, ha⟩ := indexOf_has_src x kp a hh
    have hf := ok.fine x hx _ hmem'
    simp only [entryFine, Bool.and_eq_true] at hf
    obtain ⟨⟨hl, _⟩, _⟩ := hf
    unfold entryLive at hl
    simp only at hl
    rw [ha] at hl
    have hb := ok.bits x hx
    cases htl : (colOf d).tailAt a with
    | none => rw [htl] at hl; cases hl
    | some tl =>
      rw [htl] at hl
      refine ⟨tl, rfl, ?_⟩
      rw [visOf_eq, vis_recover x.bits kp e hb.1 hb.2 hkp hpk] at hl
      simpa using hl
  · obtain ⟨x1, hx1, rfl⟩ := hmem t1 ht1
    obtain ⟨x2, hx2, rfl⟩ := hmem t2 ht2
    obtain ⟨i1, e1, hm1, _, hpk1, ha1⟩ := indexOf_has_src x1 kp1 a hh1
    obtain ⟨i2, e2, hm2, _, hpk2, ha2⟩ := indexOf_has_src x2 kp2 a hh2
    have hf1 := ok.fine x1 hx1 _ hm1
    have hf2 := ok.fine x2 hx2 _ hm2
    simp only [entryFine, Bool.and_eq_true] at hf1 hf2
    have o1 := hf1.1.2
    have o2 := hf2.1.2
    unfold entryOwner at o1 o2
    simp only [beq_iff_eq] at o1 o2
    rw [ha1] at o1
    rw [ha2, o1] at o2
    have hb1 := ok.bits x1 hx1
    have hb2 := ok.bits x2 hx2
    rw [visOf_eq, visOf_eq, vis_recover x1.bits kp1 e1 hb1.1 hb1.2 h1 hpk1,
      vis_recover x2.bits kp2 e2 hb2.1 hb2.2 h2 hpk2] at o2
    injection o2
  · obtain ⟨x, hx, rfl⟩ := hmem t ht
    intro c i j _ _ ni nj _ had
    rw [indexOf_bits] at had
    have s1 := ok.fine x hx _ (indexOf_src x c i ni)
    have s2 := ok.fine x hx _ (indexOf_src x c j nj)
    simp only [entryFine, Bool.and_eq_true] at s1 s2
    have p1 := s1.2
    have p2 := s2.2
    unfold entrySingle at p1 p2
    simp only [beq_iff_eq] at p1 p2
    rw [had, p2] at p1
    injection p1 with p1
    injection p1 with _ p1
    exact p1.symm

end Pdb.DumpCheck
