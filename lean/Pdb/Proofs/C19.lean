/-
C19 helper lemmas: characterisation of the two search loops of `Pdb.Model.IndexPage`.
Core Lean only.
-/
import Pdb.Model.IndexPage

namespace Pdb.IndexPage
open Pdb.Gen

theorem chunk_eq : INDEX_CHUNK_ENTRIES = 64 := rfl

/-! ## Scalar loop -/

theorem findBaseLoop_some (ib pkey : Nat) (page : List Nat) :
    ∀ fuel i r, findBaseLoop ib pkey page fuel i = some r →
      i ≤ r ∧ r < i + fuel ∧ baseHit ib pkey (entryAt page r) = true ∧
        ∀ j, i ≤ j → j < r → baseHit ib pkey (entryAt page j) = false := by
  intro fuel
  induction fuel with
  | zero => intro i r h; simp [findBaseLoop] at h
  | succ n ih =>
    intro i r h
    unfold findBaseLoop at h
    by_cases hh : baseHit ib pkey (entryAt page i) = true
    · simp only [hh, if_true, Option.some.injEq] at h
      subst h
      refine ⟨Nat.le_refl _, by omega, hh, ?_⟩
      intro j h1 h2; omega
    · simp only [hh] at h
      have := ih (i + 1) r h
      refine ⟨by omega, by omega, this.2.2.1, ?_⟩
      intro j h1 h2
      by_cases hj : j = i
      · subst hj; simpa using hh
      · exact this.2.2.2 j (by omega) h2

theorem findBaseLoop_none (ib pkey : Nat) (page : List Nat) :
    ∀ fuel i, findBaseLoop ib pkey page fuel i = none →
      ∀ j, i ≤ j → j < i + fuel → baseHit ib pkey (entryAt page j) = false := by
  intro fuel
  induction fuel with
  | zero => intro i _ j h1 h2; omega
  | succ n ih =>
    intro i h j h1 h2
    unfold findBaseLoop at h
    by_cases hh : baseHit ib pkey (entryAt page i) = true
    · simp [hh] at h
    · simp only [hh] at h
      by_cases hj : j = i
      · subst hj; simpa using hh
      · exact ih (i + 1) h j (by omega) (by omega)

/-! ## Lane arithmetic -/

theorem lo64_of64 (lo hi : Nat) : (M128.of64 lo hi).lo64 = lo % 2 ^ 64 := by
  simp only [M128.of64, M128.lo64, Nat.shiftRight_eq_div_pow]
  omega

theorem hi64_of64 (lo hi : Nat) : (M128.of64 lo hi).hi64 = hi % 2 ^ 64 := by
  simp only [M128.of64, M128.hi64, Nat.shiftRight_eq_div_pow]
  omega

/-- value compared by the vector path for slot `j`: the low 32 bits of `entry >> s` -/
def laneVal (s : Nat) (page : List Nat) (j : Nat) : Nat := (entryAt page j >>> s) % 2 ^ 32

/-- The `current` register of a block holds the low 32 bits of the four shifted entries. -/
theorem sse2Current_lanes (s : Nat) (page : List Nat) (i : Nat) (hs : s ≤ 63)
    (hpage : ∀ j, entryAt page j < 2 ^ 64) :
    sse2Current (mm_set_epi64x 0 s) page i =
      ⟨laneVal s page i, laneVal s page (i + 1), laneVal s page (i + 2), laneVal s page (i + 3)⟩ := by
  have hc : (mm_set_epi64x 0 s).lo64 = s := by
    rw [mm_set_epi64x, lo64_of64]; omega
  have h0 := hpage i
  have h1 := hpage (i + 1)
  have h2 := hpage (i + 2)
  have h3 := hpage (i + 3)
  have hnot : ¬ s > 63 := by omega
  simp only [sse2Current, mm_srl_epi64, hc, hnot, if_false, mm_loadu_si128, lo64_of64, hi64_of64,
    Nat.mod_eq_of_lt h0, Nat.mod_eq_of_lt h1, Nat.mod_eq_of_lt h2, Nat.mod_eq_of_lt h3,
    mm_unpacklo_epi64, mm_shuffle_epi32, laneVal, Nat.add_assoc]
  simp [M128.lane, M128.of64]

/-! ## The finite block table -/

/-- lane `k` of four booleans -/
def selB (b0 b1 b2 b3 : Bool) : Nat → Bool
  | 0 => b0
  | 1 => b1
  | 2 => b2
  | _ => b3

/-- movemask of a compare result given by four booleans -/
def maskB (b0 b1 b2 b3 : Bool) : Nat :=
  mm_movemask_epi8 ⟨if b0 then 0xFFFFFFFF else 0, if b1 then 0xFFFFFFFF else 0,
    if b2 then 0xFFFFFFFF else 0, if b3 then 0xFFFFFFFF else 0⟩

theorem movemask_cmpeq (a b : M128) :
    mm_movemask_epi8 (mm_cmpeq_epi32 a b) =
      maskB (decide (a.l0 = b.l0)) (decide (a.l1 = b.l1)) (decide (a.l2 = b.l2))
        (decide (a.l3 = b.l3)) := by
  simp [mm_cmpeq_epi32, maskB]

/-- `movemask >> 4*skip` is zero iff no lane `≥ skip` matches; otherwise
`skip + trailing_zeros / 4` is the least matching lane `≥ skip`.  Finite table
(Bool^4 x Fin 4 = 64 rows). -/
theorem block_table : ∀ (b0 b1 b2 b3 : Bool) (skip : Fin 4),
    (maskB b0 b1 b2 b3 >>> (skip.val * 4) = 0 →
      ∀ k : Fin 4, skip.val ≤ k.val → selB b0 b1 b2 b3 k.val = false) ∧
    (maskB b0 b1 b2 b3 >>> (skip.val * 4) ≠ 0 →
      skip.val + trailingZeros32 (maskB b0 b1 b2 b3 >>> (skip.val * 4)) / 4 < 4 ∧
      selB b0 b1 b2 b3
        (skip.val + trailingZeros32 (maskB b0 b1 b2 b3 >>> (skip.val * 4)) / 4) = true ∧
      ∀ k : Fin 4, skip.val ≤ k.val →
        k.val < skip.val + trailingZeros32 (maskB b0 b1 b2 b3 >>> (skip.val * 4)) / 4 →
        selB b0 b1 b2 b3 k.val = false) := by
  decide

/-! ## One block of the vector loop -/

/-- slot `j` matches the 32-bit pattern `t` after shifting by `s` -/
abbrev laneHit (s t : Nat) (page : List Nat) (j : Nat) : Prop := laneVal s page j = t

theorem selB_lanes (s t : Nat) (page : List Nat) (i k : Nat) (hk : k < 4) :
    selB (decide (laneVal s page i = t)) (decide (laneVal s page (i + 1) = t))
      (decide (laneVal s page (i + 2) = t)) (decide (laneVal s page (i + 3) = t)) k
      = decide (laneHit s t page (i + k)) := by
  have : k = 0 ∨ k = 1 ∨ k = 2 ∨ k = 3 := by omega
  rcases this with h | h | h | h <;> subst h <;> simp [selB, laneHit]

/-- Behaviour of one loop iteration, in terms of slots. -/
theorem block_step (s t : Nat) (page : List Nat) (i skip : Nat) (hs : s ≤ 63) (ht : t < 2 ^ 32)
    (hpage : ∀ j, entryAt page j < 2 ^ 64) (hskip : skip < 4) :
    let cmp := sse2Cmp (mm_set_epi64x 0 s) (mm_set1_epi32 t) page i skip
    (cmp = 0 → ∀ j, i + skip ≤ j → j < i + 4 → ¬ laneHit s t page j) ∧
    (cmp ≠ 0 →
      let r := i + skip + trailingZeros32 cmp / 4
      r < i + 4 ∧ laneHit s t page r ∧ ∀ j, i + skip ≤ j → j < r → ¬ laneHit s t page j) := by
  intro cmp
  have hcmp : cmp = maskB (decide (laneVal s page i = t)) (decide (laneVal s page (i + 1) = t))
      (decide (laneVal s page (i + 2) = t)) (decide (laneVal s page (i + 3) = t)) >>> (skip * 4) := by
    show sse2Cmp _ _ _ _ _ = _
    rw [sse2Cmp, movemask_cmpeq, sse2Current_lanes s page i hs hpage]
    simp [mm_set1_epi32, Nat.mod_eq_of_lt ht]
  have tab := block_table (decide (laneVal s page i = t)) (decide (laneVal s page (i + 1) = t))
      (decide (laneVal s page (i + 2) = t)) (decide (laneVal s page (i + 3) = t)) ⟨skip, hskip⟩
  simp only [← hcmp] at tab
  refine ⟨fun h0 j h1 h2 => ?_, fun h0 => ?_⟩
  · have := tab.1 h0 ⟨j - i, by omega⟩ (by simp; omega)
    rw [selB_lanes s t page i (j - i) (by omega)] at this
    have e : i + (j - i) = j := by omega
    rw [e] at this
    simpa using this
  · obtain ⟨a, b, c⟩ := tab.2 h0
    rw [selB_lanes s t page i _ a] at b
    refine ⟨by omega, ?_, fun j h1 h2 => ?_⟩
    · have e : i + skip + trailingZeros32 cmp / 4 = i + (skip + trailingZeros32 cmp / 4) := by omega
      rw [e]; simpa using b
    · have := c ⟨j - i, by omega⟩ (by simp; omega) (by simp; omega)
      rw [selB_lanes s t page i (j - i) (by omega)] at this
      have e : i + (j - i) = j := by omega
      rw [e] at this
      simpa using this

/-! ## The vector loop -/

theorem sse2Loop_some (s t : Nat) (page : List Nat) (hs : s ≤ 63) (ht : t < 2 ^ 32)
    (hpage : ∀ j, entryAt page j < 2 ^ 64) :
    ∀ fuel i skip r, skip < 4 →
      sse2Loop (mm_set_epi64x 0 s) (mm_set1_epi32 t) page fuel i skip = some r →
      i + skip ≤ r ∧ r < 64 ∧ laneHit s t page r ∧
        ∀ j, i + skip ≤ j → j < r → ¬ laneHit s t page j := by
  intro fuel
  induction fuel with
  | zero => intro i skip r _ h; simp [sse2Loop] at h
  | succ n ih =>
    intro i skip r hskip h
    unfold sse2Loop at h
    rw [chunk_eq] at h
    by_cases hi : i + 4 ≤ 64
    · simp only [hi, if_true] at h
      have st := block_step s t page i skip hs ht hpage hskip
      by_cases hc : sse2Cmp (mm_set_epi64x 0 s) (mm_set1_epi32 t) page i skip = 0
      · simp only [hc, ne_eq, not_true_eq_false, if_false] at h
        have := ih (i + 4) 0 r (by omega) h
        refine ⟨by omega, this.2.1, this.2.2.1, fun j h1 h2 => ?_⟩
        by_cases hj : j < i + 4
        · exact st.1 hc j h1 hj
        · exact this.2.2.2 j (by omega) h2
      · simp only [ne_eq, hc, not_false_eq_true, if_true, Option.some.injEq] at h
        have := st.2 hc
        simp only at this
        rw [h] at this
        refine ⟨by omega, by omega, this.2.1, this.2.2⟩
    · simp [hi] at h

theorem sse2Loop_none (s t : Nat) (page : List Nat) (hs : s ≤ 63) (ht : t < 2 ^ 32)
    (hpage : ∀ j, entryAt page j < 2 ^ 64) :
    ∀ fuel i skip, skip < 4 → i % 4 = 0 → 64 ≤ i + 4 * fuel →
      sse2Loop (mm_set_epi64x 0 s) (mm_set1_epi32 t) page fuel i skip = none →
      ∀ j, i + skip ≤ j → j < 64 → ¬ laneHit s t page j := by
  intro fuel
  induction fuel with
  | zero => intro i skip _ _ hf _ j h1 h2; omega
  | succ n ih =>
    intro i skip hskip hal hf h j h1 h2
    unfold sse2Loop at h
    rw [chunk_eq] at h
    by_cases hi : i + 4 ≤ 64
    · simp only [hi, if_true] at h
      have st := block_step s t page i skip hs ht hpage hskip
      by_cases hc : sse2Cmp (mm_set_epi64x 0 s) (mm_set1_epi32 t) page i skip = 0
      · simp only [hc, ne_eq, not_true_eq_false, if_false] at h
        by_cases hj : j < i + 4
        · exact st.1 hc j h1 hj
        · exact ih (i + 4) 0 (by omega) (by omega) (by omega) h j (by omega) h2
      · simp [hc] at h
    · omega

/-- `(p >> 2) << 2` is `p` rounded down to a multiple of 4. -/
theorem align4 (p : Nat) : (p >>> 2) <<< 2 = p - p % 4 := by
  simp only [Nat.shiftRight_eq_div_pow, Nat.shiftLeft_eq]
  omega

/-! ## Specification predicates -/

/-- What the vector path compares for slot `j`: the low 32 bits of `entry >> shift` against
the pattern `pk` (both taken from the generated Rust expressions). -/
def Sse2Match (ib kp : Nat) (page : List Nat) (j : Nat) : Prop :=
  (page.getD j 0 >>> sse2_shift ib kp) % 2 ^ 32 = sse2_pk ib kp

/-- What the scalar path tests for slot `j`. -/
def BaseMatch (ib kp : Nat) (page : List Nat) (j : Nat) : Prop :=
  Entry.partial_key (page.getD j 0) ib = Entry.extract_key kp ib ∧ page.getD j 0 ≠ 0

/-- `r` is the outcome of "first slot in `p .. 63` satisfying `P`". -/
def IsFirstFrom (P : Nat → Prop) (p : Nat) (r : Option Nat) : Prop :=
  (∀ i, r = some i → p ≤ i ∧ i < 64 ∧ P i ∧ ∀ j, p ≤ j → j < i → ¬ P j) ∧
  (r = none → ∀ j, p ≤ j → j < 64 → ¬ P j)

theorem IsFirstFrom.unique {P : Nat → Prop} {p : Nat} {r r' : Option Nat}
    (h : IsFirstFrom P p r) (h' : IsFirstFrom P p r') : r = r' := by
  cases r with
  | none =>
    cases r' with
    | none => rfl
    | some b =>
      have hb := h'.1 b rfl
      exact absurd hb.2.2.1 (h.2 rfl b hb.1 hb.2.1)
  | some a =>
    have ha := h.1 a rfl
    cases r' with
    | none => exact absurd ha.2.2.1 (h'.2 rfl a ha.1 ha.2.1)
    | some b =>
      have hb := h'.1 b rfl
      have h1 : ¬ a < b := fun hlt => hb.2.2.2 a ha.1 hlt ha.2.2.1
      have h2 : ¬ b < a := fun hlt => ha.2.2.2 b hb.1 hlt hb.2.2.1
      have : a = b := by omega
      rw [this]

theorem IsFirstFrom.congr {P Q : Nat → Prop} {p : Nat} {r : Option Nat}
    (hPQ : ∀ j, j < 64 → (P j ↔ Q j)) (h : IsFirstFrom P p r) : IsFirstFrom Q p r := by
  refine ⟨fun i hi => ?_, fun hn j h1 h2 => ?_⟩
  · have := h.1 i hi
    exact ⟨this.1, this.2.1, (hPQ i this.2.1).1 this.2.2.1,
      fun j h1 h2 hq => this.2.2.2 j h1 h2 ((hPQ j (by omega)).2 hq)⟩
  · exact fun hq => h.2 hn j h1 h2 ((hPQ j h2).2 hq)

/-! ## Bit facts about the generated expressions (index bits ≤ 49) -/

theorem address_bits_eq (ib : Nat) (hib : ib ≤ 49) : Entry.address_bits ib = ib + 14 := by
  simp only [Entry.address_bits, wadd, INDEX_CHUNK_ENTRIES_BITS, SIZE_TIERS_BITS]
  omega

theorem sse2_shift_eq (ib kp : Nat) (hib : ib ≤ 49) :
    sse2_shift ib kp = Nat.max 32 (ib + 14) := by
  simp only [sse2_shift, address_bits_eq ib hib]

theorem sse2_shift_bounds (ib kp : Nat) (hib : ib ≤ 49) :
    32 ≤ sse2_shift ib kp ∧ sse2_shift ib kp ≤ 63 ∧ Entry.address_bits ib ≤ sse2_shift ib kp := by
  rw [sse2_shift_eq ib kp hib, address_bits_eq ib hib]
  have : Nat.max 32 (ib + 14) = max 32 (ib + 14) := rfl
  omega

theorem shr_lt_of_lt (e s : Nat) (he : e < 2 ^ 64) (hs : 32 ≤ s) : e >>> s < 2 ^ 32 := by
  rw [Nat.shiftRight_eq_div_pow, Nat.div_lt_iff_lt_mul (Nat.two_pow_pos s), ← Nat.pow_add]
  exact Nat.lt_of_lt_of_le he (Nat.pow_le_pow_right (by omega) (by omega))

theorem wshl_lt (a b : Nat) : wshl 64 a b < 2 ^ 64 := by
  unfold wshl; exact Nat.mod_lt _ (Nat.two_pow_pos 64)

theorem sse2_pk_eq (ib kp : Nat) (hib : ib ≤ 49) :
    sse2_pk ib kp = wshl 64 kp ib >>> sse2_shift ib kp := by
  have := sse2_shift_bounds ib kp hib
  simp only [sse2_pk, wshr]
  rw [Nat.mod_eq_of_lt (by omega)]

theorem sse2_pk_lt (ib kp : Nat) (hib : ib ≤ 49) : sse2_pk ib kp < 2 ^ 32 := by
  rw [sse2_pk_eq ib kp hib]
  exact shr_lt_of_lt _ _ (wshl_lt _ _) (sse2_shift_bounds ib kp hib).1

theorem partial_key_eq (e ib : Nat) (hib : ib ≤ 49) :
    Entry.partial_key e ib = e >>> Entry.address_bits ib := by
  have := address_bits_eq ib hib
  simp only [Entry.partial_key, wshr]
  rw [Nat.mod_eq_of_lt (by omega)]

theorem extract_key_eq (kp ib : Nat) (hib : ib ≤ 49) :
    Entry.extract_key kp ib = wshl 64 kp ib >>> Entry.address_bits ib := by
  have := address_bits_eq ib hib
  simp only [Entry.extract_key, wshr]
  rw [Nat.mod_eq_of_lt (by omega)]

/-- The vector comparison, expressed on partial keys: the stored partial key and the key's
partial key agree after dropping their low `shift - address_bits` bits
(0 bits for index bits ≥ 18, 2 bits at 16, 1 bit at 17). -/
theorem sse2Match_iff (ib kp : Nat) (page : List Nat) (j : Nat) (hib : ib ≤ 49)
    (he : page.getD j 0 < 2 ^ 64) :
    Sse2Match ib kp page j ↔
      Entry.partial_key (page.getD j 0) ib >>> (sse2_shift ib kp - Entry.address_bits ib) =
        Entry.extract_key kp ib >>> (sse2_shift ib kp - Entry.address_bits ib) := by
  have hb := sse2_shift_bounds ib kp hib
  unfold Sse2Match
  rw [Nat.mod_eq_of_lt (shr_lt_of_lt _ _ he hb.1), sse2_pk_eq ib kp hib,
    partial_key_eq _ ib hib, extract_key_eq kp ib hib, ← Nat.shiftRight_add, ← Nat.shiftRight_add,
    Nat.add_sub_cancel' hb.2.2]

theorem baseMatch_imp_sse2Match (ib kp : Nat) (page : List Nat) (j : Nat) (hib : ib ≤ 49)
    (he : page.getD j 0 < 2 ^ 64) (h : BaseMatch ib kp page j) : Sse2Match ib kp page j := by
  rw [sse2Match_iff ib kp page j hib he, h.1]

theorem sse2Match_iff_baseMatch (ib kp : Nat) (page : List Nat) (j : Nat) (hib : ib ≤ 49)
    (hib18 : 18 ≤ ib) (hpk : sse2_pk ib kp ≠ 0) (he : page.getD j 0 < 2 ^ 64) :
    Sse2Match ib kp page j ↔ BaseMatch ib kp page j := by
  refine ⟨fun h => ?_, baseMatch_imp_sse2Match ib kp page j hib he⟩
  have h' := (sse2Match_iff ib kp page j hib he).1 h
  have hz : sse2_shift ib kp - Entry.address_bits ib = 0 := by
    rw [sse2_shift_eq ib kp hib, address_bits_eq ib hib]
    have : Nat.max 32 (ib + 14) = max 32 (ib + 14) := rfl
    omega
  rw [hz] at h'
  refine ⟨by simpa using h', fun h0 => hpk ?_⟩
  unfold Sse2Match at h
  rw [h0] at h
  simpa using h.symm

/-! ## Characterisation of the two search functions -/

theorem entryAt_lt (page : List Nat) (hpage : ∀ e ∈ page, e < 2 ^ 64) (j : Nat) :
    entryAt page j < 2 ^ 64 := by
  unfold entryAt
  rw [List.getD_eq_getElem?_getD]
  cases h : page[j]? with
  | none => simp
  | some e => exact hpage e (List.mem_of_getElem? h)

theorem baseHit_iff (ib kp : Nat) (page : List Nat) (j : Nat) :
    baseHit ib (Entry.extract_key kp ib) (entryAt page j) = true ↔ BaseMatch ib kp page j := by
  simp [baseHit, BaseMatch, entryAt]

theorem findBase_isFirst (ib kp p : Nat) (page : List Nat) :
    IsFirstFrom (BaseMatch ib kp page) p (findBase ib kp p page) := by
  unfold findBase
  rw [chunk_eq]
  refine ⟨fun i hi => ?_, fun hn j h1 h2 hm => ?_⟩
  · have := findBaseLoop_some ib _ page _ _ _ hi
    refine ⟨this.1, by omega, (baseHit_iff ib kp page i).1 this.2.2.1, fun j h1 h2 hm => ?_⟩
    have hf := this.2.2.2 j h1 h2
    rw [(baseHit_iff ib kp page j).2 hm] at hf
    exact Bool.noConfusion hf
  · have hf := findBaseLoop_none ib _ page _ _ hn j h1 (by omega)
    rw [(baseHit_iff ib kp page j).2 hm] at hf
    exact Bool.noConfusion hf

theorem findSse2_zero (ib kp p : Nat) (page : List Nat) (hpk : sse2_pk ib kp = 0) :
    findSse2 ib kp p page = findBase ib kp p page := by
  simp [findSse2, hpk]

theorem findSse2_isFirst (ib kp p : Nat) (page : List Nat) (hib : ib ≤ 49)
    (hpage : ∀ e ∈ page, e < 2 ^ 64) (hpk : sse2_pk ib kp ≠ 0) :
    IsFirstFrom (Sse2Match ib kp page) p (findSse2 ib kp p page) := by
  have hb := sse2_shift_bounds ib kp hib
  have hlt := sse2_pk_lt ib kp hib
  have hpg := entryAt_lt page hpage
  have hal := align4 p
  have key : findSse2 ib kp p page =
      sse2Loop (mm_set_epi64x 0 (sse2_shift ib kp)) (mm_set1_epi32 (sse2_pk ib kp)) page 64
        (p - p % 4) (p - (p - p % 4)) := by
    simp only [findSse2, hpk, if_false, hal, chunk_eq]
  rw [key]
  have hsk : p - (p - p % 4) < 4 := by omega
  refine ⟨fun i hi => ?_, fun hn j h1 h2 => ?_⟩
  · have := sse2Loop_some _ _ page hb.2.1 hlt hpg _ _ _ _ hsk hi
    exact ⟨by omega, this.2.1, this.2.2.1, fun j h1 h2 => this.2.2.2 j (by omega) h2⟩
  · exact sse2Loop_none _ _ page hb.2.1 hlt hpg _ _ _ hsk (by omega) (by omega) hn j (by omega) h2

/-! ## Concrete pages: sanity tests of the model against values computed by hand from the Rust
semantics, and witnesses for the non-vacuity examples in Pdb/Props/C19.lean -/

/-- ib = 16: address_bits = 30, shift = 32, the vector path drops the low 2 bits of the 34-bit
partial key.  Key partial key = 21 (`kpA = 21 << 14`), pattern pk = 21 >> 2 = 5.
slot 1: partial key 0, non-empty; slot 2: partial key 20 (differs from 21 only in the dropped
bits); slots 5 and 9: partial key 21 (duplicates); all other slots empty. -/
def pageA : List Nat :=
  ((((List.replicate 64 0).set 1 3).set 2 (20 <<< 30 ||| 7)).set 5 (21 <<< 30 ||| 9)).set 9
    (21 <<< 30 ||| 9)
def kpA : Nat := 21 <<< 14

/-- ib = 20: address_bits = shift = 34, 30-bit partial key `ekB`; slot 6 differs from the key in
the lowest partial-key bit, the match is in the last slot. -/
def ekB : Nat := 0x2ABCDEF1
def kpB : Nat := ekB <<< 14
def pageB : List Nat :=
  ((List.replicate 64 0).set 6 ((ekB ^^^ 1) <<< 34 ||| 5)).set 63 (ekB <<< 34 ||| 12345)

/-- zero patterns: slot 3 holds a non-empty entry with partial key 0 (any ib), slot 4 an entry
with partial key 2 at ib = 16 (pattern 2 >> 2 = 0 although the partial key is not 0). -/
def pageC : List Nat := ((List.replicate 64 0).set 3 77).set 4 (2 <<< 30 ||| 1)

-- intrinsics
example : mm_movemask_epi8 ⟨0xFFFFFFFF, 0, 0xFFFFFFFF, 0⟩ = 0x0F0F := by decide
example : mm_movemask_epi8 ⟨0x80000000, 0x00800000, 0x00008000, 0x00000080⟩ = 0x1248 := by decide
example : mm_shuffle_epi32 0b11011000 ⟨10, 11, 12, 13⟩ = ⟨10, 12, 11, 13⟩ := by decide
example : mm_srl_epi64 (M128.of64 0xFFFFFFFF00000000 0x123456789) (mm_set_epi64x 0 32)
    = M128.of64 0xFFFFFFFF 1 := by decide
example : mm_srl_epi64 (M128.of64 0xFFFFFFFF00000000 0x123456789) (mm_set_epi64x 0 64)
    = ⟨0, 0, 0, 0⟩ := by decide
example : trailingZeros32 0xF00 = 8 ∧ trailingZeros32 0 = 32 ∧ trailingZeros32 1 = 0 := by decide
-- ib = 16
example : Entry.address_bits 16 = 30 ∧ sse2_shift 16 kpA = 32 ∧ Entry.extract_key kpA 16 = 21 ∧
    sse2_pk 16 kpA = 5 := by decide
example : (List.range 12).map (fun p => findBase 16 kpA p pageA) =
    [some 5, some 5, some 5, some 5, some 5, some 5, some 9, some 9, some 9, some 9, none, none] := by
  decide
example : (List.range 12).map (fun p => findSse2 16 kpA p pageA) =
    [some 2, some 2, some 2, some 5, some 5, some 5, some 9, some 9, some 9, some 9, none, none] := by
  decide
-- ib = 20, match in the last slot, misaligned starts, start past the end
example : Entry.address_bits 20 = 34 ∧ sse2_shift 20 kpB = 34 ∧ Entry.extract_key kpB 20 = ekB ∧
    sse2_pk 20 kpB = ekB := by decide
example : [0, 6, 7, 61, 62, 63, 64, 65].map (fun p => findSse2 20 kpB p pageB) =
    [some 63, some 63, some 63, some 63, some 63, some 63, none, none] := by decide
example : [0, 6, 7, 61, 62, 63, 64, 65].map (fun p => findBase 20 kpB p pageB) =
    [some 63, some 63, some 63, some 63, some 63, some 63, none, none] := by decide
-- zero pattern: fallback to the scalar path, empty slots 0..2 are not returned
example : sse2_pk 20 0 = 0 ∧ findSse2 20 0 0 pageC = some 3 ∧ findBase 20 0 0 pageC = some 3 := by
  decide
example : Entry.extract_key (2 <<< 14) 16 = 2 ∧ sse2_pk 16 (2 <<< 14) = 0 ∧
    findSse2 16 (2 <<< 14) 0 pageC = some 4 ∧ findBase 16 (2 <<< 14) 0 pageC = some 4 := by decide
-- driver
#guard driverLine (["16", toString kpA, "1"] ++ pageA.map toString) = "5 2"
#guard driverLine (["20", toString kpB, "64"] ++ pageB.map toString) = "none none"
#guard driverLine ["16", "1", "0"] = "bad-op"
#guard driverLine (["16", "x", "1"] ++ pageA.map toString) = "bad-op"

end Pdb.IndexPage
