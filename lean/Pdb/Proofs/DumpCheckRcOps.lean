/-
The operations of the multitree model preserve the rank-generalised invariant `InvR`, with
NEW nodes stored at arbitrary free addresses (address reuse).

  referenceTree_invR        ReferenceTree
  dereferenceTree_okR       DereferenceTree: never fails / runs out of fuel, frees exactly the
                            nodes that become unreachable (the walk never looks at address order)
  insertTreeA_invR          InsertTree with the new nodes at any pairwise distinct free addresses
  insRefsA_range            with the supply [n, n+1, ...] `insRefsA` is the model's `insRefs`

The proofs follow Pdb/Proofs/C10Inv.lean / C10Walk.lean / C10Thm.lean with `Shape` replaced by
`ShapeC` + a rank witness.
-/
import Pdb.Model.DumpCheckRc
import Pdb.Proofs.DumpCheckRcInv

namespace Pdb.MultiTree
set_option linter.unusedSectionVars false
variable {K D : Type} [DecidableEq K]

/-! ### writing a new node at a free address -/

theorem nat_le_sum_of_mem (l : List Nat) (a : Nat) (h : a ∈ l) : a ≤ l.sum := by
  induction l with
  | nil => cases h
  | cons x l ih =>
    simp only [List.mem_cons] at h
    simp only [List.sum_cons]
    rcases h with rfl | h
    · omega
    · have := ih h; omega

theorem write_new_shapeC (h : Heap K D) (hs : ShapeC h) (b : Addr) (d : D)
    (cs : List Addr) (hcs : ∀ c ∈ cs, present h c) :
    ShapeC { h with nodes := h.nodes.set b (some ⟨d, cs⟩) } where
  wfN := FMap.WF_set _ hs.wfN _ _
  wfRc := hs.wfRc
  wfRoots := hs.wfRoots
  closedN := by
    intro a n hg c hc
    simp only [present, FMap.get_set]
    simp only [FMap.get_set] at hg
    by_cases hcb : c = b
    · simp [hcb]
    · simp only [hcb, if_false]
      split at hg
      · simp only [Option.some.injEq] at hg; subst hg; exact hcs c hc
      · exact hs.closedN a n hg c hc
  closedR := by
    intro k e hg c hc
    simp only [present, FMap.get_set]
    by_cases hcb : c = b
    · simp [hcb]
    · simp only [hcb, if_false]; exact hs.closedR k e hg c hc
  rootPos := hs.rootPos

/-- The new node gets a rank above all its children; nobody refers to the (absent) address `b`,
    so every other edge keeps its ranks. -/
theorem write_new_acyclicR (rank : Addr → Nat) (h : Heap K D) (hs : ShapeR rank h) (b : Addr)
    (hb : ¬ present h b) (d : D) (cs : List Addr) (hcs : ∀ c ∈ cs, present h c) :
    AcyclicR (fun x => if x = b then (cs.map rank).sum + 1 else rank x)
      { h with nodes := h.nodes.set b (some ⟨d, cs⟩) } := by
  intro a n hg c hc
  simp only [FMap.get_set] at hg
  split at hg
  · rename_i hab
    subst hab
    simp only [Option.some.injEq] at hg; subst hg
    have hcb : c ≠ a := fun e => hb (e ▸ hcs c hc)
    simp only [hcb, if_false, if_true]
    have : rank c ≤ (cs.map rank).sum := nat_le_sum_of_mem _ _ (List.mem_map.mpr ⟨c, hc, rfl⟩)
    omega
  · rename_i hab
    have hcb : c ≠ b := fun e => hb (e ▸ hs.core.closedN a n hg c hc)
    simp only [hcb, hab, if_false]
    exact hs.acyclic a n hg c hc

theorem write_new_shapeR (h : Heap K D) (hs : ∃ rank, ShapeR rank h) (b : Addr)
    (hb : ¬ present h b) (d : D) (cs : List Addr) (hcs : ∀ c ∈ cs, present h c) :
    ∃ rank, ShapeR rank { h with nodes := h.nodes.set b (some ⟨d, cs⟩) } := by
  obtain ⟨rank, hr⟩ := hs
  exact ⟨_, write_new_shapeC h hr.core b d cs hcs, write_new_acyclicR rank h hr b hb d cs hcs⟩

theorem write_new_countsC (h : Heap K D) (hs : ShapeC h) (b : Addr) (hbn : ¬ present h b) (d : D)
    (cs P : List Addr) (hc : Counts h (cs ++ P)) :
    Counts { h with nodes := h.nodes.set b (some ⟨d, cs⟩) } (b :: P) := by
  have hbnone : h.nodes.get b = none := (not_present_iff h b).mp hbn
  have hsum : ∀ a, nodeRefs { h with nodes := h.nodes.set b (some ⟨d, cs⟩) } a =
      nodeRefs h a + cs.count a := by
    intro a
    have := FMap.sum_set h.nodes hs.wfN b (some ⟨d, cs⟩) (fun n => n.children.count a)
    simp only [hbnone, Option.map_none, Option.getD_none, Option.map_some, Option.getD_some] at this
    simp only [nodeRefs]
    omega
  have hcsb : cs.count b = 0 := by
    apply List.count_eq_zero_of_not_mem
    intro hm
    exact hbn (hc.pend b (List.mem_append_left _ hm))
  have hPb : P.count b = 0 := by
    apply List.count_eq_zero_of_not_mem
    intro hm
    exact hbn (hc.pend b (List.mem_append_right _ hm))
  constructor
  · intro a c hg
    have := hc.rcEntries a c hg
    refine ⟨this.1, ?_⟩
    simp only [present, FMap.get_set]
    split
    · rfl
    · exact this.2
  · intro a ha
    simp only [refs, hsum, rootRefs]
    by_cases hab : a = b
    · subst hab
      have hrc : h.rc.get a = none := by
        cases hr : h.rc.get a with
        | none => rfl
        | some c => exact absurd (hc.rcEntries a c hr).2 hbn
      have h1 := nodeRefs_absentC h hs a hbn
      have h2 := rootRefs_absentC h hs a hbn
      simp only [rootRefs] at h2
      simp only [Heap.count, hrc, Option.getD_none, h1, hcsb, h2, List.count_cons_self, hPb]
    · have hpa : present h a := by
        simp only [present, FMap.get_set, hab, if_false] at ha
        exact ha
      have := hc.rcEq a hpa
      simp only [refs, rootRefs, List.count_append] at this
      have hne : (b == a) = false := by simp; exact fun e => hab e.symm
      simp only [Heap.count] at this ⊢
      rw [List.count_cons, hne]
      simp only [Bool.false_eq_true, if_false, Nat.add_zero]
      omega
  · intro a ha
    simp only [present, FMap.get_set]
    simp only [List.mem_cons] at ha
    rcases ha with rfl | ha
    · simp
    · split
      · rfl
      · exact hc.pend a (List.mem_append_right _ ha)

theorem incRef_shapeR (rank : Addr → Nat) (h : Heap K D) (hs : ShapeR rank h) (a : Addr) :
    ShapeR rank (incRef h a) :=
  ⟨⟨hs.core.wfN, FMap.WF_set _ hs.core.wfRc _ _, hs.core.wfRoots, hs.core.closedN,
    hs.core.closedR, hs.core.rootPos⟩, hs.acyclic⟩

/-! ### root entries -/

theorem rootRefs_setC (h : Heap K D) (hs : ShapeC h) (k : K) (e : Option (Node D × Nat))
    (a : Addr) :
    rootRefs { h with roots := h.roots.set k e } a +
        ((h.roots.get k).map (fun e => e.1.children.count a)).getD 0 =
      rootRefs h a + (e.map (fun e => e.1.children.count a)).getD 0 :=
  FMap.sum_set h.roots hs.wfRoots k e (fun e => e.1.children.count a)

theorem setRoot_shapeR (rank : Addr → Nat) (h : Heap K D) (hs : ShapeR rank h) (k : K)
    (e : Node D × Nat) (hpos : 1 ≤ e.2) (hcs : ∀ c ∈ e.1.children, present h c) :
    ShapeR rank { h with roots := h.roots.set k (some e) } where
  core := {
    wfN := hs.core.wfN
    wfRc := hs.core.wfRc
    wfRoots := FMap.WF_set _ hs.core.wfRoots _ _
    closedN := hs.core.closedN
    closedR := by
      intro k' e' hg c hc
      simp only [FMap.get_set] at hg
      split at hg
      · simp only [Option.some.injEq] at hg; subst hg; exact hcs c hc
      · exact hs.core.closedR k' e' hg c hc
    rootPos := by
      intro k' e' hg
      simp only [FMap.get_set] at hg
      split at hg
      · simp only [Option.some.injEq] at hg; subst hg; exact hpos
      · exact hs.core.rootPos k' e' hg }
  acyclic := hs.acyclic

theorem setRoot_new_countsC (h : Heap K D) (hs : ShapeC h) (k : K) (hk : h.roots.get k = none)
    (e : Node D × Nat) (P : List Addr) (hc : Counts h (e.1.children ++ P)) :
    Counts { h with roots := h.roots.set k (some e) } P where
  rcEntries := hc.rcEntries
  rcEq := by
    intro a ha
    have h1 := hc.rcEq a ha
    have h2 := rootRefs_setC h hs k (some e) a
    simp only [hk, Option.map_none, Option.getD_none, Option.map_some, Option.getD_some] at h2
    simp only [refs, List.count_append] at h1 ⊢
    have hn : nodeRefs { h with roots := h.roots.set k (some e) } a = nodeRefs h a := rfl
    have hcnt : Heap.count { h with roots := h.roots.set k (some e) } a = Heap.count h a := rfl
    omega
  pend := fun a ha => hc.pend a (List.mem_append_right _ ha)

theorem setRoot_count_countsC (h : Heap K D) (hs : ShapeC h) (k : K) (r : Node D) (c c' : Nat)
    (hk : h.roots.get k = some (r, c)) (P : List Addr) (hc : Counts h P) :
    Counts { h with roots := h.roots.set k (some (r, c')) } P where
  rcEntries := hc.rcEntries
  rcEq := by
    intro a ha
    have h1 := hc.rcEq a ha
    have h2 := rootRefs_setC h hs k (some (r, c')) a
    simp only [hk, Option.map_some, Option.getD_some] at h2
    simp only [refs] at h1 ⊢
    have hn : nodeRefs { h with roots := h.roots.set k (some (r, c')) } a = nodeRefs h a := rfl
    have hcnt : Heap.count { h with roots := h.roots.set k (some (r, c')) } a = Heap.count h a := rfl
    omega
  pend := hc.pend

theorem removeRoot_countsC (h : Heap K D) (hs : ShapeC h) (k : K) (e : Node D × Nat)
    (hk : h.roots.get k = some e) (hc : Counts h []) :
    Counts { h with roots := h.roots.set k none } e.1.children where
  rcEntries := hc.rcEntries
  rcEq := by
    intro a ha
    have h1 := hc.rcEq a ha
    have h2 := rootRefs_setC h hs k none a
    simp only [hk, Option.map_some, Option.getD_some, Option.map_none, Option.getD_none] at h2
    simp only [refs, List.count_nil] at h1 ⊢
    have hn : nodeRefs { h with roots := h.roots.set k none } a = nodeRefs h a := rfl
    have hcnt : Heap.count { h with roots := h.roots.set k none } a = Heap.count h a := rfl
    omega
  pend := fun a ha => hs.closedR k e hk a ha

theorem removeRoot_shapeR (rank : Addr → Nat) (h : Heap K D) (hs : ShapeR rank h) (k : K) :
    ShapeR rank { h with roots := h.roots.set k none } where
  core := {
    wfN := hs.core.wfN
    wfRc := hs.core.wfRc
    wfRoots := FMap.WF_set _ hs.core.wfRoots _ _
    closedN := hs.core.closedN
    closedR := by
      intro k' e' hg c hc
      simp only [FMap.get_set] at hg
      split at hg
      · cases hg
      · exact hs.core.closedR k' e' hg c hc
    rootPos := by
      intro k' e' hg
      simp only [FMap.get_set] at hg
      split at hg
      · cases hg
      · exact hs.core.rootPos k' e' hg }
  acyclic := hs.acyclic

/-! ### ReferenceTree -/

theorem referenceTree_invR (v : Variant) (h h' : Heap K D) (k : K) (hi : InvR v h)
    (he : referenceTree v h k = .ok h') : InvR v h' := by
  cases v with
  | appendOnly => simp only [referenceTree, Except.ok.injEq] at he; subst he; exact hi
  | plain => simp [referenceTree] at he
  | rcRoots =>
    simp only [referenceTree] at he
    split at he
    · rename_i r c hg
      simp only [Except.ok.injEq] at he
      subst he
      obtain ⟨rank, hs⟩ := hi.shape
      refine ⟨⟨rank, ?_⟩, ?_⟩
      · exact setRoot_shapeR rank h hs k (r, c + 1) (by simp) (hs.core.closedR k (r, c) hg)
      · intro hv
        exact setRoot_count_countsC h hs.core k r c (c + 1) hg [] (hi.counts hv)
    · simp only [Except.ok.injEq] at he; subst he; exact hi

/-! ### the dereference walk -/

/-- `WalkOk` of C10Walk with the rank-generalised shape (the rank function never changes:
    the walk only removes nodes and count entries). -/
structure WalkOkR (rank : Addr → Nat) (h h' : Heap K D) (P : List Addr) : Prop where
  shape : ShapeR rank h'
  counts : Counts h' P
  size : h'.nodes.size ≤ h.nodes.size
  roots : h'.roots = h.roots
  next : h'.next = h.next
  sub : ∀ b n, h'.nodes.get b = some n → h.nodes.get b = some n

theorem WalkOkR.trans {rank : Addr → Nat} {h h1 h2 : Heap K D} {P Q : List Addr}
    (w1 : WalkOkR rank h h1 P) (w2 : WalkOkR rank h1 h2 Q) : WalkOkR rank h h2 Q where
  shape := w2.shape
  counts := w2.counts
  size := Nat.le_trans w2.size w1.size
  roots := by rw [w2.roots, w1.roots]
  next := by rw [w2.next, w1.next]
  sub := fun b n hg => w1.sub b n (w2.sub b n hg)

theorem decRef_remainsR (rank : Addr → Nat) (h : Heap K D) (hs : ShapeR rank h) (a : Addr)
    (P : List Addr) (hc : Counts h (a :: P)) (c : Nat) (hr : h.rc.get a = some c) :
    decRef h a = (true, { h with rc := h.rc.set a (if c - 1 > 1 then some (c - 1) else none) }) ∧
    WalkOkR rank h { h with rc := h.rc.set a (if c - 1 > 1 then some (c - 1) else none) } P := by
  refine ⟨by simp only [decRef, hr], ?_⟩
  have hc2 := (hc.rcEntries a c hr).1
  exact {
    shape := ⟨⟨hs.core.wfN, FMap.WF_set _ hs.core.wfRc _ _, hs.core.wfRoots, hs.core.closedN,
      hs.core.closedR, hs.core.rootPos⟩, hs.acyclic⟩
    counts := {
      rcEntries := by
        intro b c' hg
        simp only [FMap.get_set] at hg
        split at hg
        · subst b
          split at hg
          · simp only [Option.some.injEq] at hg
            exact ⟨by omega, (hc.rcEntries a c hr).2⟩
          · cases hg
        · exact hc.rcEntries b c' hg
      rcEq := by
        intro b hb
        have := hc.rcEq b hb
        have hrefs : refs { h with rc := h.rc.set a (if c - 1 > 1 then some (c - 1) else none) } b =
          refs h b := rfl
        rw [hrefs]
        simp only [Heap.count, FMap.get_set] at this ⊢
        by_cases hba : b = a
        · subst hba
          simp only [hr, Option.getD_some, List.count_cons_self] at this
          simp only [if_true]
          split
          · simp only [Option.getD_some]; omega
          · simp only [Option.getD_none]; omega
        · have hne : (a == b) = false := by simp; exact fun e => hba e.symm
          rw [List.count_cons, hne] at this
          simp only [Bool.false_eq_true, if_false, Nat.add_zero] at this
          simp only [hba, if_false]
          exact this
      pend := fun b hb => hc.pend b (List.mem_cons_of_mem _ hb) }
    size := Nat.le_refl _
    roots := rfl
    next := rfl
    sub := fun _ _ hg => hg }

theorem decRef_freedR (rank : Addr → Nat) (h : Heap K D) (hs : ShapeR rank h) (a : Addr)
    (P : List Addr) (hc : Counts h (a :: P)) (hr : h.rc.get a = none) :
    ∃ n, h.nodes.get a = some n ∧
      decRef h a = (false, { h with nodes := h.nodes.set a none }) ∧
      WalkOkR rank h { h with nodes := h.nodes.set a none } (n.children ++ P) ∧
      ({ h with nodes := h.nodes.set a none } : Heap K D).nodes.size < h.nodes.size := by
  have hpa : present h a := hc.pend a (by simp)
  obtain ⟨n, hn⟩ := (present_iff h a).mp hpa
  refine ⟨n, hn, by simp only [decRef, hr], ?_, FMap.size_set_none_lt _ _ _ hn⟩
  have heq := hc.rcEq a hpa
  simp only [Heap.count, hr, Option.getD_none, List.count_cons_self, refs] at heq
  have hnr : nodeRefs h a = 0 := by omega
  have hrr : rootRefs h a = 0 := by omega
  have hPa : P.count a = 0 := by omega
  have hsum : ∀ b, nodeRefs { h with nodes := h.nodes.set a none } b + n.children.count b =
      nodeRefs h b := by
    intro b
    have := FMap.sum_set h.nodes hs.core.wfN a none (fun n => n.children.count b)
    simp only [hn, Option.map_some, Option.getD_some, Option.map_none, Option.getD_none] at this
    simp only [nodeRefs]
    omega
  have hkeep : ∀ b, b ≠ a → present h b → present { h with nodes := h.nodes.set a none } b := by
    intro b hba hb
    simp only [present, FMap.get_set, hba, if_false]
    exact hb
  exact {
    shape := {
      core := {
        wfN := FMap.WF_set _ hs.core.wfN _ _
        wfRc := hs.core.wfRc
        wfRoots := hs.core.wfRoots
        closedN := by
          intro b m hg c hcm
          simp only [FMap.get_set] at hg
          split at hg
          · cases hg
          · apply hkeep c _ (hs.core.closedN b m hg c hcm)
            intro hca
            subst hca
            have h1 := FMap.le_sum h.nodes b m (fun n => n.children.count c) hg
            have h2 : 0 < m.children.count c := List.count_pos_iff.mpr hcm
            simp only [nodeRefs] at hnr
            omega
        closedR := by
          intro k e hg c hce
          apply hkeep c _ (hs.core.closedR k e hg c hce)
          intro hca
          subst hca
          have h1 := FMap.le_sum h.roots k e (fun e => e.1.children.count c) hg
          have h2 : 0 < e.1.children.count c := List.count_pos_iff.mpr hce
          simp only [rootRefs] at hrr
          omega
        rootPos := hs.core.rootPos }
      acyclic := by
        intro b m hg c hcm
        simp only [FMap.get_set] at hg
        split at hg
        · cases hg
        · exact hs.acyclic b m hg c hcm }
    counts := {
      rcEntries := by
        intro b c hg
        have := hc.rcEntries b c hg
        refine ⟨this.1, hkeep b ?_ this.2⟩
        intro hba; subst hba
        have hg' : h.rc.get b = some c := hg
        rw [hr] at hg'; cases hg'
      rcEq := by
        intro b hb
        have hba : b ≠ a := by
          intro e; subst e
          simp [present, FMap.get_set] at hb
        have hb' : present h b := by
          simp only [present, FMap.get_set, hba, if_false] at hb
          exact hb
        have := hc.rcEq b hb'
        have hne : (a == b) = false := by simp; exact fun e => hba e.symm
        rw [List.count_cons, hne] at this
        simp only [Bool.false_eq_true, if_false, Nat.add_zero] at this
        have hsb := hsum b
        have hcnt : Heap.count { h with nodes := h.nodes.set a none } b = Heap.count h b := rfl
        have hroot : rootRefs { h with nodes := h.nodes.set a none } b = rootRefs h b := rfl
        simp only [refs, List.count_append] at this ⊢
        omega
      pend := by
        intro b hb
        simp only [List.mem_append] at hb
        rcases hb with hb | hb
        · exact hkeep b (hs.acyclic.ne a n hn b hb) (hs.core.closedN a n hn b hb)
        · apply hkeep b _ (hc.pend b (List.mem_cons_of_mem _ hb))
          intro e; subst e
          have : 0 < P.count b := List.count_pos_iff.mpr hb
          omega }
    size := FMap.size_set_none_le _ _
    roots := rfl
    next := rfl
    sub := by
      intro b m hg
      simp only [FMap.get_set] at hg
      split at hg
      · cases hg
      · exact hg }

/-- The whole walk under the rank-generalised shape: succeeds with fuel above the number of
    present nodes and leaves `P` pending. -/
theorem derefChildren_okR (rank : Addr → Nat) : ∀ (fuel : Nat) (cs : List Addr) (h : Heap K D)
    (P : List Addr), ShapeR rank h → Counts h (cs ++ P) → h.nodes.size < fuel →
    ∃ h', derefChildren fuel h cs = .ok h' ∧ WalkOkR rank h h' P
  | 0, _, _, _, _, _, hf => by omega
  | fuel + 1, cs, h, P, hs, hc, hf => by
    simp only [derefChildren]
    induction cs generalizing h with
    | nil =>
      exact ⟨h, rfl, ⟨hs, by simpa using hc, Nat.le_refl _, rfl, rfl, fun _ _ hg => hg⟩⟩
    | cons a rest ih =>
      simp only [List.foldlM_cons]
      have hc' : Counts h (a :: (rest ++ P)) := by simpa using hc
      have hstep : ∃ h2, derefStep (derefChildren fuel) h a = .ok h2 ∧
          WalkOkR rank h h2 (rest ++ P) := by
        cases hr : h.rc.get a with
        | some c =>
          obtain ⟨e, w⟩ := decRef_remainsR rank h hs a (rest ++ P) hc' c hr
          exact ⟨_, by simp only [derefStep, e], w⟩
        | none =>
          obtain ⟨n, hn, e, w, hsz⟩ := decRef_freedR rank h hs a (rest ++ P) hc' hr
          have hf1 : ({ h with nodes := h.nodes.set a none } : Heap K D).nodes.size < fuel := by omega
          obtain ⟨h2, e2, w2⟩ :=
            derefChildren_okR rank fuel n.children _ (rest ++ P) w.shape w.counts hf1
          refine ⟨h2, ?_, w.trans w2⟩
          simp only [derefStep, e, hn, Option.map_some]
          exact e2
      obtain ⟨h2, e2, w2⟩ := hstep
      have hf2 : h2.nodes.size < fuel + 1 := by have := w2.size; omega
      obtain ⟨h3, e3, w3⟩ := ih h2 w2.shape w2.counts hf2
      refine ⟨h3, ?_, w2.trans w3⟩
      rw [e2]
      exact e3

/-! ### DereferenceTree -/

theorem derefProcess_okR (v : Variant) (h : Heap K D) (k : K) (hv : v ≠ .appendOnly)
    (hi : InvR v h) (r : Node D) (c : Nat) (hk : h.roots.get k = some (r, c)) :
    ∃ h', derefProcess v h k r.children = .ok h' ∧ InvR v h' ∧
      h'.roots = h.roots.set k (if v = .rcRoots ∧ c > 1 then some (r, c - 1) else none) ∧
      (∀ b n, h'.nodes.get b = some n → h.nodes.get b = some n) := by
  obtain ⟨rank, hs⟩ := hi.shape
  simp only [derefProcess, hk]
  by_cases hcase : v = .rcRoots ∧ c > 1
  · simp only [hcase, and_self, if_true]
    refine ⟨_, rfl, ⟨⟨rank, ?_⟩, ?_⟩, rfl, fun _ _ hg => hg⟩
    · exact setRoot_shapeR rank h hs k (r, c - 1) (by simp; omega) (hs.core.closedR k (r, c) hk)
    · intro _
      exact setRoot_count_countsC h hs.core k r c (c - 1) hk [] (hi.counts hv)
  · simp only [hcase, if_false]
    have hs1 := removeRoot_shapeR rank h hs k
    have hc1 := removeRoot_countsC h hs.core k (r, c) hk (hi.counts hv)
    have hc1' : Counts { h with roots := h.roots.set k none } (r.children ++ []) := by
      simpa using hc1
    obtain ⟨h', e, w⟩ := derefChildren_okR rank (walkFuel { h with roots := h.roots.set k none })
      r.children _ [] hs1 hc1' (by simp [walkFuel])
    exact ⟨h', e, ⟨⟨rank, w.shape⟩, fun _ => w.counts⟩, w.roots, w.sub⟩

/-- DereferenceTree on a heap satisfying the rank-generalised invariant (addresses in any
    order): it succeeds, the invariant holds again, only nodes are removed, and exactly the nodes
    reachable from the remaining roots stay. -/
theorem dereferenceTree_okR (v : Variant) (h : Heap K D) (k : K) (hv : v ≠ .appendOnly)
    (hi : InvR v h) (r : Node D) (c : Nat) (hk : h.roots.get k = some (r, c)) :
    ∃ h', dereferenceTree v h k = .ok h' ∧ InvR v h' ∧
      h'.roots = h.roots.set k (if v = .rcRoots ∧ c > 1 then some (r, c - 1) else none) ∧
      (∀ b n, h'.nodes.get b = some n → h.nodes.get b = some n) ∧
      (∀ a, present h' a ↔ Reach h' a) := by
  simp only [dereferenceTree, hv, if_false, hk]
  obtain ⟨h', e, hi', hr, hsub⟩ := derefProcess_okR v h k hv hi r c hk
  exact ⟨h', e, hi', hr, hsub, present_iff_reachR v h' hi' hv⟩

/-! ### InsertTree at arbitrary free addresses -/

/-- What inserting a (list of) node reference(s) with the address supply `fresh` guarantees;
    `cnt` = number of addresses consumed. -/
structure InsOkA (ap : Bool) (h : Heap K D) (fresh : List Addr) (h' : Heap K D)
    (fresh' : List Addr) (as : List Addr) (cnt : Nat) : Prop where
  used : ∃ used, fresh = used ++ fresh' ∧ used.length = cnt ∧
    ∀ b, present h' b ↔ (present h b ∨ b ∈ used)
  frame : ∀ b, present h b → h'.nodes.get b = h.nodes.get b
  roots : h'.roots = h.roots
  next : h'.next = h.next
  shape : ∃ rank, ShapeR rank h'
  res : ∀ a ∈ as, present h' a
  counts : ∀ P, ap = false → Counts h P → Counts h' (as ++ P)

theorem InsOkA.present_mono {ap : Bool} {h : Heap K D} {fresh : List Addr} {h' : Heap K D}
    {fresh' as : List Addr} {cnt : Nat} (ok : InsOkA ap h fresh h' fresh' as cnt) :
    ∀ b, present h b → present h' b := by
  obtain ⟨used, _, _, hp⟩ := ok.used
  exact fun b hb => (hp b).mpr (Or.inl hb)

/-- the rest of the supply is still free and duplicate-free -/
theorem InsOkA.rest_fresh {ap : Bool} {h : Heap K D} {fresh : List Addr} {h' : Heap K D}
    {fresh' as : List Addr} {cnt : Nat} (ok : InsOkA ap h fresh h' fresh' as cnt)
    (hn : fresh.Nodup) (hf : ∀ b ∈ fresh, ¬ present h b) :
    fresh'.Nodup ∧ ∀ b ∈ fresh', ¬ present h' b := by
  obtain ⟨used, he, _, hp⟩ := ok.used
  rw [he] at hn
  refine ⟨(List.nodup_append.mp hn).2.1, ?_⟩
  intro b hb hpb
  rcases (hp b).mp hpb with h1 | h1
  · exact hf b (by rw [he]; exact List.mem_append_right _ hb) h1
  · exact (List.nodup_append.mp hn).2.2 b h1 b hb rfl

mutual
  theorem insRefA_ok (ap : Bool) : ∀ (r : NRef D) (h : Heap K D) (fresh : List Addr),
      (∃ rank, ShapeR rank h) → fresh.Nodup → (∀ b ∈ fresh, ¬ present h b) → r.live h →
      r.newCount ≤ fresh.length →
      InsOkA ap h fresh (insRefA ap h fresh r).1 (insRefA ap h fresh r).2.1
        [(insRefA ap h fresh r).2.2] r.newCount
    | .existing a, h, fresh, hs, _, _, hl, _ => by
      simp only [NRef.live] at hl
      cases ap with
      | true =>
        simp only [insRefA, if_true, NRef.newCount]
        exact { used := ⟨[], by simp⟩, frame := fun _ _ => rfl, roots := rfl, next := rfl,
                shape := hs, res := by simpa using hl,
                counts := by intro P h; cases h }
      | false =>
        simp only [insRefA, Bool.false_eq_true, if_false, NRef.newCount]
        obtain ⟨rank, hr⟩ := hs
        exact { used := ⟨[], by simp [present, incRef]⟩, frame := fun _ _ => rfl, roots := rfl,
                next := rfl, shape := ⟨rank, incRef_shapeR rank h hr a⟩,
                res := by intro x hx; simp only [List.mem_singleton] at hx; subst hx; exact hl,
                counts := by intro P _ hc; exact incRef_counts h a hl P hc }
    | .new d cs, h, fresh, hs, hn, hf, hl, hlen => by
      simp only [NRef.live] at hl
      simp only [NRef.newCount] at hlen
      have ih := insRefsA_ok ap cs h fresh hs hn hf hl (by omega)
      have hrest := ih.rest_fresh hn hf
      rcases hR : insRefsA ap h fresh cs with ⟨h1, f1, as⟩
      simp only [hR] at ih hrest
      simp only [insRefA, hR, NRef.newCount]
      obtain ⟨used, he, hul, hp⟩ := ih.used
      -- the supply is not exhausted
      have hf1 : f1 ≠ [] := by
        intro e
        rw [e, List.append_nil] at he
        rw [he, hul] at hlen
        omega
      obtain ⟨b, f2, rfl⟩ := List.exists_cons_of_ne_nil hf1
      simp only [List.headD_cons, List.tail_cons]
      have hbn : ¬ present h1 b := hrest.2 b (by simp)
      exact {
        used := by
          refine ⟨used ++ [b], by simp [he], by simp [hul], ?_⟩
          intro x
          simp only [present, FMap.get_set, List.mem_append, List.mem_singleton]
          by_cases hxb : x = b
          · simp [hxb]
          · simp only [hxb, if_false, or_false]
            exact hp x
        frame := by
          intro x hx
          have hne : x ≠ b := fun e => hbn (e ▸ ih.present_mono x hx)
          simp only [FMap.get_set, hne, if_false]
          exact ih.frame x hx
        roots := ih.roots
        next := ih.next
        shape := write_new_shapeR h1 ih.shape b hbn d as ih.res
        res := by
          intro a ha
          simp only [List.mem_singleton] at ha
          subst ha
          simp [present, FMap.get_set]
        counts := by
          intro P hap hc
          obtain ⟨rank1, hr1⟩ := ih.shape
          exact write_new_countsC h1 hr1.core b hbn d as P (ih.counts P hap hc) }
  theorem insRefsA_ok (ap : Bool) : ∀ (rs : NRefs D) (h : Heap K D) (fresh : List Addr),
      (∃ rank, ShapeR rank h) → fresh.Nodup → (∀ b ∈ fresh, ¬ present h b) → rs.live h →
      rs.newCount ≤ fresh.length →
      InsOkA ap h fresh (insRefsA ap h fresh rs).1 (insRefsA ap h fresh rs).2.1
        (insRefsA ap h fresh rs).2.2 rs.newCount
    | .nil, h, fresh, hs, _, _, _, _ => by
      simp only [insRefsA, NRefs.newCount]
      exact { used := ⟨[], by simp⟩, frame := fun _ _ => rfl, roots := rfl, next := rfl,
              shape := hs, res := by simp,
              counts := by intro P _ hc; simpa using hc }
    | .cons r rs, h, fresh, hs, hn, hf, hl, hlen => by
      simp only [NRefs.live] at hl
      simp only [NRefs.newCount] at hlen
      have ih1 := insRefA_ok ap r h fresh hs hn hf hl.1 (by omega)
      have hrest := ih1.rest_fresh hn hf
      rcases hR1 : insRefA ap h fresh r with ⟨h1, f1, a⟩
      simp only [hR1] at ih1 hrest
      have hl2 : rs.live h1 := NRefs.live_mono h h1 ih1.present_mono rs hl.2
      obtain ⟨used1, he1, hul1, hp1⟩ := ih1.used
      have hlen2 : rs.newCount ≤ f1.length := by
        have : fresh.length = used1.length + f1.length := by rw [he1, List.length_append]
        omega
      have ih2 := insRefsA_ok ap rs h1 f1 ih1.shape hrest.1 hrest.2 hl2 hlen2
      rcases hR2 : insRefsA ap h1 f1 rs with ⟨h2, f2, as⟩
      simp only [hR2] at ih2
      simp only [insRefsA, hR1, hR2, NRefs.newCount]
      obtain ⟨used2, he2, hul2, hp2⟩ := ih2.used
      exact {
        used := by
          refine ⟨used1 ++ used2, by rw [he1, he2, List.append_assoc], by simp [hul1, hul2], ?_⟩
          intro x
          rw [hp2 x, hp1 x, List.mem_append, or_assoc]
        frame := by
          intro x hx
          rw [ih2.frame x (ih1.present_mono x hx), ih1.frame x hx]
        roots := by rw [ih2.roots, ih1.roots]
        next := by rw [ih2.next, ih1.next]
        shape := ih2.shape
        res := by
          intro x hx
          simp only [List.mem_cons] at hx
          rcases hx with rfl | hx
          · exact ih2.present_mono x (ih1.res x (by simp))
          · exact ih2.res x hx
        counts := by
          intro P hap hc
          have := ih2.counts _ hap (ih1.counts P hap hc)
          apply Counts.congr _ _ _ _ this
          intro x
          simp only [List.count_append, List.count_cons, List.count_nil]
          omega }
end

/-- InsertTree under address reuse preserves the rank-generalised invariant: the new nodes may
    be stored at ANY pairwise distinct addresses that hold no node (`fresh`; at least as many as
    the tree has new nodes), in particular at addresses freed earlier that are larger or smaller
    than those of their children. -/
theorem insertTreeA_invR (v : Variant) (h : Heap K D) (fresh : List Addr) (k : K) (t : NewNode D)
    (hi : InvR v h) (hl : t.children.live h) (hk : h.roots.get k = none) (hn : fresh.Nodup)
    (hf : ∀ b ∈ fresh, ¬ present h b) (hlen : t.children.newCount ≤ fresh.length) :
    InvR v (insertTreeA v h fresh k t) := by
  have ok := insRefsA_ok (decide (v = .appendOnly)) t.children h fresh hi.shape hn hf hl hlen
  simp only [insertTreeA]
  rcases hR : insRefsA (decide (v = .appendOnly)) h fresh t.children with ⟨h1, f1, as⟩
  simp only [hR] at ok
  have hk1 : h1.roots.get k = none := by rw [ok.roots]; exact hk
  have hre : rootEntry v (h1.roots.get k) ⟨t.data, as⟩ = (⟨t.data, as⟩, 1) := by
    rw [hk1]; cases v <;> rfl
  simp only [hre]
  obtain ⟨rank1, hr1⟩ := ok.shape
  refine ⟨⟨rank1, setRoot_shapeR rank1 h1 hr1 k (⟨t.data, as⟩, 1) (Nat.le_refl 1) ok.res⟩, ?_⟩
  intro hv
  have hd : decide (v = .appendOnly) = false := by simp [hv]
  have := ok.counts [] hd (hi.counts hv)
  exact setRoot_new_countsC h1 hr1.core k hk1 (⟨t.data, as⟩, 1) [] this

/-- ... and what it stores: every old node unchanged, the root under `k` with count 1. -/
theorem insertTreeA_frame (v : Variant) (h : Heap K D) (fresh : List Addr) (k : K) (t : NewNode D)
    (hi : InvR v h) (hl : t.children.live h) (hn : fresh.Nodup)
    (hf : ∀ b ∈ fresh, ¬ present h b) (hlen : t.children.newCount ≤ fresh.length) :
    (∀ b, present h b → (insertTreeA v h fresh k t).nodes.get b = h.nodes.get b) ∧
    (∀ k', k' ≠ k → (insertTreeA v h fresh k t).roots.get k' = h.roots.get k') := by
  have ok := insRefsA_ok (decide (v = .appendOnly)) t.children h fresh hi.shape hn hf hl hlen
  simp only [insertTreeA]
  rcases hR : insRefsA (decide (v = .appendOnly)) h fresh t.children with ⟨h1, f1, as⟩
  simp only [hR] at ok
  refine ⟨fun b hb => ok.frame b hb, ?_⟩
  intro k' hk'
  simp only [FMap.get_set, hk', if_false, ok.roots]

/-! ### the counter of the model is one such supply -/

mutual
  theorem insRefA_range (ap : Bool) : ∀ (r : NRef D) (h : Heap K D) (n m : Nat),
      r.newCount ≤ m →
      insRefA ap h (List.range' n m) r =
        ((insRef ap h n r).1, List.range' (insRef ap h n r).2.1 (m - r.newCount),
          (insRef ap h n r).2.2) ∧
      (insRef ap h n r).2.1 = n + r.newCount
    | .existing a, h, n, m, _ => by simp [insRefA, insRef, NRef.newCount]
    | .new d cs, h, n, m, hm => by
      simp only [NRef.newCount] at hm
      obtain ⟨e1, e2⟩ := insRefsA_range ap cs h n m (by omega)
      rcases hR : insRefs ap h n cs with ⟨h1, n1, as⟩
      simp only [hR] at e1 e2
      simp only [insRefA, e1, insRef, hR, NRef.newCount]
      obtain ⟨j, hj⟩ : ∃ j, m - cs.newCount = j + 1 := ⟨m - cs.newCount - 1, by omega⟩
      rw [hj, List.range'_succ]
      simp only [List.headD_cons, List.tail_cons]
      refine ⟨?_, by omega⟩
      have : m - (cs.newCount + 1) = j := by omega
      rw [this]
  theorem insRefsA_range (ap : Bool) : ∀ (rs : NRefs D) (h : Heap K D) (n m : Nat),
      rs.newCount ≤ m →
      insRefsA ap h (List.range' n m) rs =
        ((insRefs ap h n rs).1, List.range' (insRefs ap h n rs).2.1 (m - rs.newCount),
          (insRefs ap h n rs).2.2) ∧
      (insRefs ap h n rs).2.1 = n + rs.newCount
    | .nil, h, n, m, _ => by simp [insRefsA, insRefs, NRefs.newCount]
    | .cons r rs, h, n, m, hm => by
      simp only [NRefs.newCount] at hm
      obtain ⟨e1, e2⟩ := insRefA_range ap r h n m (by omega)
      rcases hR1 : insRef ap h n r with ⟨h1, n1, a⟩
      simp only [hR1] at e1 e2
      obtain ⟨e3, e4⟩ := insRefsA_range ap rs h1 n1 (m - r.newCount) (by omega)
      rcases hR2 : insRefs ap h1 n1 rs with ⟨h2, n2, as⟩
      simp only [hR2] at e3 e4
      simp only [insRefsA, e1, e3, insRefs, hR1, hR2, NRefs.newCount]
      refine ⟨?_, by omega⟩
      have : m - r.newCount - rs.newCount = m - (r.newCount + rs.newCount) := by omega
      rw [this]
end

/-- With the supply `[n0, n0+1, ...]` InsertTree under address reuse stores exactly what the
    model's `insertTreeAt` stores (they differ only in the model's address counter `next`). -/
theorem insertTreeA_range (v : Variant) (h : Heap K D) (n0 m : Nat) (k : K) (t : NewNode D)
    (hm : t.children.newCount ≤ m) :
    (insertTreeA v h (List.range' n0 m) k t).nodes = (insertTreeAt v h n0 k t).nodes ∧
    (insertTreeA v h (List.range' n0 m) k t).rc = (insertTreeAt v h n0 k t).rc ∧
    (insertTreeA v h (List.range' n0 m) k t).roots = (insertTreeAt v h n0 k t).roots := by
  obtain ⟨e1, _⟩ := insRefsA_range (decide (v = .appendOnly)) t.children h n0 m hm
  rcases hR : insRefs (decide (v = .appendOnly)) h n0 t.children with ⟨h1, n1, as⟩
  simp only [hR] at e1
  simp [insertTreeA, e1, insertTreeAt, hR]

end Pdb.MultiTree
