/-
C02x: replay of multitree log records is an absolute overwrite, so it absorbs whatever part of an
interrupted enactment or of an interrupted earlier recovery already reached the table files.
-/
import Pdb.Model.MultiTreeCrash

namespace Pdb.MultiTree
set_option linter.unusedSectionVars false
variable {K D : Type} [DecidableEq K]

theorem Tbl.ext' (t t' : Tbl K D) (h : ∀ loc, t.agreeAt t' loc) : t = t' := by
  cases t with
  | mk n r ro =>
    cases t' with
    | mk n' r' ro' =>
      have h1 : n = n' := funext (fun a => h (.node a))
      have h2 : r = r' := funext (fun a => h (.rc a))
      have h3 : ro = ro' := funext (fun k => h (.root k))
      subst h1 h2 h3
      rfl

theorem Tbl.agreeAt_refl (t : Tbl K D) (loc : Loc K) : t.agreeAt t loc := by
  cases loc <;> rfl

theorem Tbl.agreeAt_symm {t t' : Tbl K D} {loc : Loc K} (h : t.agreeAt t' loc) :
    t'.agreeAt t loc := by
  cases loc <;> exact Eq.symm h

theorem Tbl.agreeAt_trans {t t' t'' : Tbl K D} {loc : Loc K} (h : t.agreeAt t' loc)
    (h' : t'.agreeAt t'' loc) : t.agreeAt t'' loc := by
  cases loc <;> exact Eq.trans h h'

/-- a written location holds the after-image -/
theorem applyRec_written (t : Tbl K D) (r : Rec K D) (loc : Loc K) (hw : r.W loc) :
    (applyRec t r).agreeAt r.img loc := by
  cases loc <;> simp [Tbl.agreeAt, applyRec, hw]

/-- every other location is untouched -/
theorem applyRec_other (t : Tbl K D) (r : Rec K D) (loc : Loc K) (hw : ¬ r.W loc) :
    (applyRec t r).agreeAt t loc := by
  cases loc <;> simp [Tbl.agreeAt, applyRec, hw]

/-- the tables only depend on the three maps -/
theorem tbl_of_core (h h' : Heap K D) (e : core h = core h') : h.tbl = h'.tbl := by
  simp only [core, Prod.mk.injEq] at e
  simp only [Heap.tbl, e.1, e.2.1, e.2.2]

/-- Enacting a record of `p` on the tables `h` gives the tables after processing `p`. -/
theorem applyRec_of (v : Variant) (h : Heap K D) (p : Pending K D) (r : Rec K D)
    (hr : RecOf v h p r) : applyRec h.tbl r = (applyPending v h p).tbl := by
  apply Tbl.ext'
  intro loc
  by_cases hw : r.W loc
  · exact Tbl.agreeAt_trans (applyRec_written _ r loc hw) (hr.1 loc hw)
  · exact Tbl.agreeAt_trans (applyRec_other _ r loc hw) (Tbl.agreeAt_symm (hr.2 loc hw))

/-- If the image `x` agrees with the tables `base` on every location that NO record writes,
    replaying the records over `x` gives exactly the tables after processing all the commits. -/
theorem replay_absorbs (v : Variant) (ps : List (Pending K D)) :
    ∀ (base : Heap K D) (rs : List (Rec K D)) (x : Tbl K D), RecsOf v base ps rs →
      (∀ loc, (∀ r ∈ rs, ¬ r.W loc) → x.agreeAt base.tbl loc) →
      replay x rs = (drainHeap v base ps).tbl := by
  induction ps with
  | nil =>
    intro base rs x hrs hx
    cases rs with
    | cons r rs => exact absurd hrs (by simp [RecsOf])
    | nil =>
      simp only [replay, List.foldl_nil, drainHeap]
      exact Tbl.ext' _ _ (fun loc => hx loc (by simp))
  | cons p ps ih =>
    intro base rs x hrs hx
    cases rs with
    | nil => exact absurd hrs (by simp [RecsOf])
    | cons r rs =>
      simp only [RecsOf] at hrs
      simp only [replay, List.foldl_cons, drainHeap]
      apply ih (applyPending v base p) rs (applyRec x r) hrs.2
      intro loc hloc
      by_cases hw : r.W loc
      · exact Tbl.agreeAt_trans (applyRec_written x r loc hw) (hrs.1.1 loc hw)
      · have hxb : x.agreeAt base.tbl loc := by
          apply hx loc
          intro r' hr'
          simp only [List.mem_cons] at hr'
          rcases hr' with rfl | hr'
          · exact hw
          · exact hloc r' hr'
        exact Tbl.agreeAt_trans (applyRec_other x r loc hw)
          (Tbl.agreeAt_trans hxb (Tbl.agreeAt_symm (hrs.1.2 loc hw)))

/-- replaying over the undamaged tables -/
theorem replay_of (v : Variant) (base : Heap K D) (ps : List (Pending K D)) (rs : List (Rec K D))
    (hrs : RecsOf v base ps rs) : replay base.tbl rs = (drainHeap v base ps).tbl :=
  replay_absorbs v ps base rs base.tbl hrs (fun loc _ => Tbl.agreeAt_refl _ loc)

/-- a location not written by any record keeps its content under replay -/
theorem replay_other (rs : List (Rec K D)) :
    ∀ (t : Tbl K D) (loc : Loc K), (∀ r ∈ rs, ¬ r.W loc) → (replay t rs).agreeAt t loc := by
  induction rs with
  | nil => intro t loc _; exact Tbl.agreeAt_refl _ loc
  | cons r rs ih =>
    intro t loc h
    simp only [replay, List.foldl_cons]
    exact Tbl.agreeAt_trans (ih (applyRec t r) loc (fun r' hr' => h r' (List.mem_cons_of_mem _ hr')))
      (applyRec_other t r loc (h r (by simp)))

/-- An interrupted enactment or an interrupted earlier recovery: the first `i` records applied
    completely, then an ARBITRARY subset `S` of the writes of one further record `r` of the log.
    Replaying all records over that image gives the same tables. -/
theorem replay_after_partial (v : Variant) (base : Heap K D) (ps : List (Pending K D))
    (rs : List (Rec K D)) (hrs : RecsOf v base ps rs) (i : Nat) (r : Rec K D) (hr : r ∈ rs)
    (S : Loc K → Prop) :
    replay (applyRec (replay base.tbl (rs.take i)) (r.restrict S)) rs =
      (drainHeap v base ps).tbl := by
  apply replay_absorbs v ps base rs _ hrs
  intro loc hloc
  have hw : ¬ (r.restrict S).W loc := fun h => hloc r hr h.1
  exact Tbl.agreeAt_trans (applyRec_other _ _ loc hw)
    (replay_other (rs.take i) base.tbl loc (fun r' hr' => hloc r' (List.mem_of_mem_take hr')))

/-- the smallest records are records -/
theorem minRec_of (v : Variant) (h : Heap K D) (p : Pending K D) : RecOf v h p (minRec v h p) :=
  ⟨fun loc _ => Tbl.agreeAt_refl _ loc, fun _ hw => Classical.not_not.mp hw⟩

theorem minRecs_of (v : Variant) (ps : List (Pending K D)) :
    ∀ h : Heap K D, RecsOf v h ps (minRecs v h ps) := by
  induction ps with
  | nil => intro h; trivial
  | cons p ps ih => intro h; exact ⟨minRec_of v h p, ih _⟩

end Pdb.MultiTree
