/-
RcInv generalised from address order to ranks (`ShapeR`, `InvR`).

The invariant `Inv` of the multitree model (Pdb/Proofs/C10Inv.lean) states acyclicity as
"every child address is smaller than its parent's" - true of the model, which numbers nodes in
creation order and never reuses an address, but not of the real database, whose value-table
slots are reused after a free and claimed parent-first.  Here:

  ShapeC h         `Shape h` without the acyclicity clause
  AcyclicR rank h  `rank child < rank parent` on every edge between present nodes
  ShapeR rank h    ShapeC + AcyclicR
  InvR v h         ∃ rank, ShapeR rank h; RcInv (`Counts h []`) on counting variants

  Inv.toInvR            Inv v h → InvR v h                      (rank = the address itself)
  reach_of_presentR     ShapeR + every present node referenced at least once → every present node
                        is reachable from a root (no garbage; needs NO counts: also append-only)
  present_iff_reachR    the C10 theorem (8) for InvR
-/
import Pdb.Proofs.C10Thm

namespace Pdb.MultiTree
set_option linter.unusedSectionVars false
variable {K D : Type} [DecidableEq K]

/-- `Shape` without acyclicity. -/
structure ShapeC (h : Heap K D) : Prop where
  wfN : h.nodes.WF
  wfRc : h.rc.WF
  wfRoots : h.roots.WF
  closedN : ∀ a n, h.nodes.get a = some n → ∀ c ∈ n.children, present h c
  closedR : ∀ k e, h.roots.get k = some e → ∀ c ∈ e.1.children, present h c
  rootPos : ∀ k e, h.roots.get k = some e → 1 ≤ e.2

/-- Acyclicity by a rank witness: the rank decreases strictly from parent to child. -/
def AcyclicR (rank : Addr → Nat) (h : Heap K D) : Prop :=
  ∀ a n, h.nodes.get a = some n → ∀ c ∈ n.children, rank c < rank a

structure ShapeR (rank : Addr → Nat) (h : Heap K D) : Prop where
  core : ShapeC h
  acyclic : AcyclicR rank h

/-- The invariant of C10 with acyclicity by rank: structural soundness and, on columns that
    count (everything except append-only), RcInv. -/
structure InvR (v : Variant) (h : Heap K D) : Prop where
  shape : ∃ rank, ShapeR rank h
  counts : v ≠ .appendOnly → Counts h []

theorem Shape.toShapeC {h : Heap K D} (hs : Shape h) : ShapeC h :=
  ⟨hs.wfN, hs.wfRc, hs.wfRoots, hs.closedN, hs.closedR, hs.rootPos⟩

/-- The model's own acyclicity is the instance `rank = id`. -/
theorem Shape.toShapeR {h : Heap K D} (hs : Shape h) : ShapeR (fun a => a) h :=
  ⟨hs.toShapeC, hs.acyclic⟩

/-- Conversely a rank-acyclic shape whose rank IS the address order is a `Shape`. -/
theorem ShapeR.toShape {h : Heap K D} (hs : ShapeR (fun a => a) h) : Shape h :=
  ⟨hs.core.wfN, hs.core.wfRc, hs.core.wfRoots, hs.acyclic, hs.core.closedN, hs.core.closedR,
    hs.core.rootPos⟩

/-- Every heap satisfying the model invariant satisfies the rank-generalised one, so every
    preservation theorem of C10 yields `InvR`. -/
theorem Inv.toInvR {v : Variant} {h : Heap K D} (hi : Inv v h) : InvR v h :=
  ⟨⟨fun a => a, hi.shape.toShapeR⟩, hi.counts⟩

theorem InvR.empty (v : Variant) : InvR v (Heap.empty : Heap K D) := (Inv.empty v).toInvR

/-! ### reachability -/

theorem present_of_reachC (h : Heap K D) (hs : ShapeC h) (a : Addr) (hr : Reach h a) :
    present h a := by
  induction hr with
  | root k e a hg hm => exact hs.closedR k e hg a hm
  | step b n a _ hg hm _ => exact hs.closedN b n hg a hm

/-- a bound of the rank over a finite list of nodes -/
theorem rank_bound_list (rank : Addr → Nat) (l : List (Addr × Node D)) :
    ∃ B, ∀ a n, (a, n) ∈ l → rank a < B := by
  induction l with
  | nil => exact ⟨0, by simp⟩
  | cons e l ih =>
    obtain ⟨B, hB⟩ := ih
    refine ⟨max B (rank e.1 + 1), ?_⟩
    intro a n hm
    simp only [List.mem_cons] at hm
    rcases hm with rfl | hm
    · exact Nat.lt_of_lt_of_le (Nat.lt_succ_self _) (Nat.le_max_right _ _)
    · exact Nat.lt_of_lt_of_le (hB a n hm) (Nat.le_max_left _ _)

theorem rank_bound (rank : Addr → Nat) (h : Heap K D) :
    ∃ B, ∀ a, present h a → rank a < B := by
  obtain ⟨B, hB⟩ := rank_bound_list rank h.nodes.l
  refine ⟨B, ?_⟩
  intro a ha
  obtain ⟨n, hn⟩ := (present_iff h a).mp ha
  exact hB a n (mem_of_alLookup h.nodes.l a n hn)

/-- No garbage, from acyclicity by rank: if every present node is referenced at least once (by
    a present node or a root entry) then every present node is reachable from a root. -/
theorem reach_of_presentR (rank : Addr → Nat) (h : Heap K D) (hs : ShapeR rank h)
    (hp : ∀ a, present h a → 0 < refs h a) : ∀ a, present h a → Reach h a := by
  obtain ⟨B, hB⟩ := rank_bound rank h
  have key : ∀ (m : Nat) (a : Addr), B - rank a ≤ m → present h a → Reach h a := by
    intro m
    induction m with
    | zero =>
      intro a hm ha
      have := hB a ha
      omega
    | succ m ih =>
      intro a hm ha
      have h1 := hp a ha
      simp only [refs] at h1
      by_cases hr : 0 < rootRefs h a
      · obtain ⟨k, e, hmem, hpos⟩ := FMap.exists_of_sum_pos h.roots _ hr
        exact Reach.root k e a ((FMap.mem_iff h.roots hs.core.wfRoots k e).mp hmem)
          (List.count_pos_iff.mp hpos)
      · have hn : 0 < nodeRefs h a := by omega
        obtain ⟨b, n, hmem, hpos⟩ := FMap.exists_of_sum_pos h.nodes _ hn
        have hg := (FMap.mem_iff h.nodes hs.core.wfN b n).mp hmem
        have hin : a ∈ n.children := List.count_pos_iff.mp hpos
        have hlt := hs.acyclic b n hg a hin
        have hpb : present h b := (present_iff h b).mpr ⟨n, hg⟩
        have hbB := hB b hpb
        exact Reach.step b n a (ih b (by omega) hpb) hg hin
  intro a ha
  exact key (B - rank a) a (Nat.le_refl _) ha

/-- RcInv gives every present node at least one reference. -/
theorem refs_pos_of_counts (h : Heap K D) (hc : Counts h []) (a : Addr) (ha : present h a) :
    0 < refs h a := by
  have h1 := hc.rcEq a ha
  have h2 := count_pos h [] hc a
  simp only [List.count_nil, Nat.add_zero] at h1
  omega

/-- Theorem (8) of C10 for the rank-generalised invariant: presence = reachability. -/
theorem present_iff_reachR (v : Variant) (h : Heap K D) (hi : InvR v h) (hv : v ≠ .appendOnly)
    (a : Addr) : present h a ↔ Reach h a := by
  obtain ⟨rank, hs⟩ := hi.shape
  exact ⟨reach_of_presentR rank h hs (refs_pos_of_counts h (hi.counts hv)) a,
    present_of_reachC h hs.core a⟩

/-- A node cannot be its own child. -/
theorem AcyclicR.ne {rank : Addr → Nat} {h : Heap K D} (hac : AcyclicR rank h) (a : Addr)
    (n : Node D) (hn : h.nodes.get a = some n) (c : Addr) (hc : c ∈ n.children) : c ≠ a := by
  intro e
  have := hac a n hn c hc
  rw [e] at this
  exact Nat.lt_irrefl _ this

/-- absent addresses are referenced by nobody -/
theorem nodeRefs_absentC (h : Heap K D) (hs : ShapeC h) (a : Addr) (ha : ¬ present h a) :
    nodeRefs h a = 0 := by
  apply FMap.sum_eq_zero
  intro k v hm
  have hg := (FMap.mem_iff h.nodes hs.wfN k v).mp hm
  apply List.count_eq_zero_of_not_mem
  intro hc
  exact ha (hs.closedN k v hg a hc)

theorem rootRefs_absentC (h : Heap K D) (hs : ShapeC h) (a : Addr) (ha : ¬ present h a) :
    rootRefs h a = 0 := by
  apply FMap.sum_eq_zero
  intro k v hm
  have hg := (FMap.mem_iff h.roots hs.wfRoots k v).mp hm
  apply List.count_eq_zero_of_not_mem
  intro hc
  exact ha (hs.closedR k v hg a hc)

end Pdb.MultiTree
