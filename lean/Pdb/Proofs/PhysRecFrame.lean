/-
R7, frame: a transaction changes no location outside `cands` (unconditionally).  Index part: a
chunk that was never written is empty in both states.  Value tables: `overwrite_chain` /
`write_remove_plan` write only the slots they report (ghost lists `chain`, `freed`).
-/
import Pdb.Proofs.PhysRec
import Pdb.Proofs.C09Page
import Pdb.Proofs.C06Alloc
import Pdb.Proofs.Refine3

namespace Pdb.PhysRec
open Pdb.Gen Pdb.Index Pdb.IndexPage Pdb.ValueTable Pdb.Refine

/-! ## index: chunks never written -/

theorem alGet_none {α : Type} (l : List (Nat × α)) (k : Nat) (h : k ∉ l.map (·.1)) :
    alGet l k = none := by
  induction l with
  | nil => rfl
  | cons x xs ih =>
    obtain ⟨k', v⟩ := x
    simp only [List.map_cons, List.mem_cons, not_or] at h
    simp only [alGet]
    rw [if_neg (fun e => h.1 e.symm)]
    exact ih h.2

theorem Trie.get_none {α : Type} (t : Trie α) : ∀ (k : Nat), k ∉ Trie.keys t → t.get k = none := by
  induction t with
  | bucket l => intro k h; exact alGet_none l k h
  | node l r ihl ihr =>
    intro k h
    simp only [Trie.keys, List.mem_append, List.mem_map, not_or, not_exists, not_and] at h
    simp only [Trie.get]
    split
    · rename_i hk
      apply ihl
      intro hm
      exact h.1 (k / 2) hm (by omega)
    · rename_i hk
      apply ihr
      intro hm
      exact h.2 (k / 2) hm (by omega)

theorem mem_unionL (a b : List Nat) (x : Nat) : x ∈ unionL a b ↔ x ∈ a ∨ x ∈ b := by
  simp only [unionL, List.mem_append, List.mem_filter, Bool.not_eq_true', List.contains_eq_mem,
    decide_eq_false_iff_not]
  constructor
  · rintro (h | ⟨h, _⟩)
    · exact Or.inl h
    · exact Or.inr h
  · rintro (h | h)
    · exact Or.inl h
    · by_cases ha : x ∈ a
      · exact Or.inl ha
      · exact Or.inr ⟨h, ha⟩

theorem mem_dedup (xs : List (Nat × Nat)) (x : Nat × Nat) : x ∈ dedup xs ↔ x ∈ xs := by
  induction xs with
  | nil => simp [dedup]
  | cons y ys ih =>
    simp only [dedup]
    split
    · rename_i h
      have hy : y ∈ ys := by simpa using h
      rw [ih]
      constructor
      · exact fun h => List.mem_cons_of_mem _ h
      · intro h
        rcases List.mem_cons.1 h with rfl | h
        · exact hy
        · exact h
    · simp [ih]

/-- an index location outside the chunks ever written reads as the empty entry -/
theorem mem_idx_unwritten (p : PCol) (b c i : Nat) (h : c ∉ keysB p b) : mem p (.idx b c i) = [0] := by
  simp only [mem]
  cases ht : tableByBits (PCol.tables p) b with
  | none => rfl
  | some t =>
    simp only [keysB, ht] at h
    have : t.page c = emptyPage := by
      simp only [Table.page, Trie.get_none _ _ h, Option.getD_none]
    simp only [this, entryAt, emptyPage_getD]

theorem keysB_nil_of_not_shape (p : PCol) (b : Nat) (h : b ∉ shape p) : keysB p b = [] := by
  simp only [keysB]
  cases ht : tableByBits (PCol.tables p) b with
  | none => rfl
  | some t => exact absurd (tableByBits_some_mem ht) h

theorem idx_mem_cands (T : List (Nat × Nat)) (p p' : PCol) (b c i : Nat) :
    Loc.idx b c i ∈ cands T p p' ↔
      (b ∈ shape p ∨ b ∈ shape p') ∧ (c ∈ keysB p b ∨ c ∈ keysB p' b) ∧ i < INDEX_CHUNK_ENTRIES := by
  simp only [cands, List.mem_append, List.mem_flatMap, List.mem_map, mem_unionL, subs,
    List.mem_range]
  constructor
  · rintro ((⟨b', hb, c', hc, i', hi, e⟩ | ⟨_, _, e⟩) | ⟨_, _, e⟩)
    · injection e with e1 e2 e3
      subst e1 e2 e3
      exact ⟨hb, hc, hi⟩
    · cases e
    · cases e
  · rintro ⟨hb, hc, hi⟩
    exact Or.inl (Or.inl ⟨b, hb, c, hc, i, hi, rfl⟩)

/-- INDEX FRAME (any two states): an index location that is not a candidate is empty in both. -/
theorem frame_idx (T : List (Nat × Nat)) (p p' : PCol) (b c i : Nat) (hi : i < INDEX_CHUNK_ENTRIES)
    (h : Loc.idx b c i ∉ cands T p p') : mem p' (.idx b c i) = mem p (.idx b c i) := by
  rw [idx_mem_cands] at h
  by_cases hb : b ∈ shape p ∨ b ∈ shape p'
  · have hc : ¬ (c ∈ keysB p b ∨ c ∈ keysB p' b) := fun hc => h ⟨hb, hc, hi⟩
    rw [mem_idx_unwritten p b c i (fun x => hc (Or.inl x)),
      mem_idx_unwritten p' b c i (fun x => hc (Or.inr x))]
  · have h1 : b ∉ shape p := fun x => hb (Or.inl x)
    have h2 : b ∉ shape p' := fun x => hb (Or.inr x)
    rw [mem_idx_unwritten p b c i (by rw [keysB_nil_of_not_shape p b h1]; simp),
      mem_idx_unwritten p' b c i (by rw [keysB_nil_of_not_shape p' b h2]; simp)]

/-! ## value tables: the writers touch only the slots they report -/

/-- frame of one value table w.r.t. a list of touched slots (0 = the header) -/
structure TFrame (L : List Nat) (t t' : VT) : Prop where
  cfg : SameCfg t t'
  slots : ∀ j, j ∉ L → t'.slots j = t.slots j
  hdr : 0 ∉ L → t'.filled = t.filled ∧ t'.lastRemoved = t.lastRemoved

theorem nextFree_frame (t t1 : VT) (a : Nat) (h : nextFree t = .ok (t1, a)) :
    SameCfg t t1 ∧ t1.slots = t.slots := by
  unfold nextFree at h
  split at h
  · simp only at h
    split at h
    · cases h
    · injection h with h; injection h with h1 _; subst h1; exact ⟨⟨rfl, rfl, rfl⟩, rfl⟩
  · injection h with h; injection h with h1 _; subst h1; exact ⟨⟨rfl, rfl, rfl⟩, rfl⟩

theorem allocN_frame : ∀ (n : Nat) (t t1 : VT) (l : List Nat), allocN t n = .ok (t1, l) →
    SameCfg t t1 ∧ t1.slots = t.slots := by
  intro n
  induction n with
  | zero => intro t t1 l h; simp only [allocN] at h; injection h with h; injection h with h1 _; subst h1; exact ⟨SameCfg.refl _, rfl⟩
  | succ n ih =>
    intro t t1 l h
    simp only [allocN] at h
    split at h
    · cases h
    · rename_i t0 a hnf
      split at h
      · cases h
      · rename_i t2 l2 hal
        injection h with h; injection h with h1 _; subst h1
        obtain ⟨c1, s1⟩ := nextFree_frame _ _ _ hnf
        obtain ⟨c2, s2⟩ := ih _ _ _ hal
        exact ⟨c1.trans c2, s2.trans s1⟩

theorem clearChain_frame : ∀ (f : Nat) (t : VT) (i : Nat) (t' : VT) (L : List Nat),
    clearChain t f i = .ok (t', L) → SameCfg t t' ∧ ∀ j, j ∉ L → t'.slots j = t.slots j := by
  intro f
  induction f with
  | zero => intro t i t' L h; simp [clearChain] at h
  | succ f ih =>
    intro t i t' L h
    simp only [clearChain] at h
    split at h
    · split at h
      · rename_i nx hn t2 l2 hc
        injection h with h; injection h with h1 h2; subst h1 h2
        obtain ⟨c, s⟩ := ih _ _ _ _ hc
        refine ⟨(clearSlot_cfg t i).1.trans c, fun j hj => ?_⟩
        simp only [List.mem_cons, not_or] at hj
        rw [s j hj.2, clearSlot_ne t i j hj.1]
      · cases h
    · injection h with h; injection h with h1 h2; subst h1 h2
      exact ⟨(clearSlot_cfg t i).1, fun j hj => clearSlot_ne t i j (by simpa using hj)⟩

theorem removePlan_frame (t : VT) (i : Nat) (t' : VT) (L : List Nat)
    (h : removePlan t i = .ok (t', L)) : TFrame (0 :: L) t t' := by
  unfold removePlan at h
  have key : SameCfg t t' ∧ ∀ j, j ∉ L → t'.slots j = t.slots j := by
    split at h
    · exact clearChain_frame _ _ _ _ _ h
    · injection h with h; injection h with h1 h2; subst h1 h2
      exact ⟨(clearSlot_cfg t i).1, fun j hj => clearSlot_ne t i j (by simpa using hj)⟩
  exact ⟨key.1, fun j hj => key.2 j (fun x => hj (List.mem_cons_of_mem _ x)),
    fun h0 => absurd List.mem_cons_self h0⟩

theorem writeCore_frame (t : VT) (c : Bool) (chunks : List Bytes) (w : List Nat × Option Nat)
    (r : WrOk) (h : writeCore t c chunks w = .ok r) :
    SameCfg t r.table ∧ ∀ j, j ∉ r.chain ++ r.freed → r.table.slots j = t.slots j := by
  unfold writeCore at h
  split at h
  · cases h
  · rename_i t1 fresh hal
    obtain ⟨c1, s1⟩ := allocN_frame _ _ _ _ hal
    have hwp : ∀ j, j ∉ w.1 ++ fresh →
        (writeParts c t1 true (w.1 ++ fresh) chunks).slots j = t.slots j := by
      intro j hj
      rw [writeParts_notin c t1 true _ chunks j hj, s1]
    have cwp := (writeParts_cfg c t1 true (w.1 ++ fresh) chunks).1
    split at h
    · injection h with h; subst h
      exact ⟨c1.trans cwp, fun j hj => hwp j (by simpa using hj)⟩
    · split at h
      · injection h with h; subst h
        exact ⟨c1.trans cwp, fun j hj => hwp j (by simpa using hj)⟩
      · split at h
        · rename_i t3 freed hcc
          injection h with h; subst h
          obtain ⟨c3, s3⟩ := clearChain_frame _ _ _ _ _ hcc
          refine ⟨(c1.trans cwp).trans c3, fun j hj => ?_⟩
          simp only [List.mem_append, not_or] at hj
          rw [s3 j hj.2]
          exact hwp j (by simpa using hj.1)
        · cases h

theorem writeChain_frame (t : VT) (key : TKey) (v : Bytes) (at_ : Option Nat) (c : Bool) (r : WrOk)
    (h : writeChain t key v at_ c = .ok r) : TFrame (0 :: (r.chain ++ r.freed)) t r.table := by
  unfold writeChain at h
  split at h
  · cases h
  · obtain ⟨c1, s1⟩ := writeCore_frame _ _ _ _ _ h
    exact ⟨c1, fun j hj => s1 j (fun x => hj (List.mem_cons_of_mem _ x)),
      fun h0 => absurd List.mem_cons_self h0⟩

/-! ## the column -/

/-- frame of the value tables of a column w.r.t. touched (tier, slot) pairs -/
def VFrame (T : List (Nat × Nat)) (p p' : PCol) : Prop :=
  ∀ tier, TFrame ((T.filter (fun ts => ts.1 == tier)).map (·.2)) (p.vt tier) (p'.vt tier)

theorem mem_tierSlots (T : List (Nat × Nat)) (tier s : Nat) :
    s ∈ (T.filter (fun ts => ts.1 == tier)).map (·.2) ↔ (tier, s) ∈ T := by
  simp only [List.mem_map, List.mem_filter, beq_iff_eq]
  constructor
  · rintro ⟨⟨a, b⟩, ⟨h1, h2⟩, h3⟩
    simp only at h2 h3
    subst h2 h3
    exact h1
  · intro h
    exact ⟨(tier, s), ⟨h, rfl⟩, rfl⟩

theorem TFrame.refl (t : VT) (L : List Nat) : TFrame L t t :=
  ⟨SameCfg.refl t, fun _ _ => rfl, fun _ => ⟨rfl, rfl⟩⟩

theorem TFrame.mono {L L' : List Nat} {t t' : VT} (h : TFrame L t t') (hs : ∀ x, x ∈ L → x ∈ L') :
    TFrame L' t t' :=
  ⟨h.cfg, fun j hj => h.slots j (fun x => hj (hs _ x)), fun h0 => h.hdr (fun x => h0 (hs _ x))⟩

theorem TFrame.trans {L1 L2 : List Nat} {a b c : VT} (h1 : TFrame L1 a b) (h2 : TFrame L2 b c) :
    TFrame (L1 ++ L2) a c :=
  ⟨h1.cfg.trans h2.cfg,
   fun j hj => by
     simp only [List.mem_append, not_or] at hj
     rw [h2.slots j hj.2, h1.slots j hj.1],
   fun h0 => by
     simp only [List.mem_append, not_or] at h0
     obtain ⟨f1, l1⟩ := h1.hdr h0.1
     obtain ⟨f2, l2⟩ := h2.hdr h0.2
     exact ⟨f2.trans f1, l2.trans l1⟩⟩

theorem VFrame.refl (p : PCol) (T : List (Nat × Nat)) : VFrame T p p := fun _ => TFrame.refl _ _

theorem VFrame.of_vt {p p' : PCol} (h : p'.vt = p.vt) (T : List (Nat × Nat)) : VFrame T p p' := by
  intro tier; rw [h]; exact TFrame.refl _ _

theorem VFrame.vt_congr {T : List (Nat × Nat)} {p p' q : PCol} (h : VFrame T p p') (hq : q.vt = p'.vt) :
    VFrame T p q := by
  intro tier; rw [hq]; exact h tier

theorem VFrame.mono {T T' : List (Nat × Nat)} {p p' : PCol} (h : VFrame T p p')
    (hs : ∀ x, x ∈ T → x ∈ T') : VFrame T' p p' := by
  intro tier
  refine (h tier).mono (fun s hs' => ?_)
  rw [mem_tierSlots] at hs' ⊢
  exact hs _ hs'

theorem VFrame.trans {T1 T2 : List (Nat × Nat)} {a b c : PCol} (h1 : VFrame T1 a b)
    (h2 : VFrame T2 b c) : VFrame (T1 ++ T2) a c := by
  intro tier
  refine ((h1 tier).trans (h2 tier)).mono (fun s hs => ?_)
  rw [mem_tierSlots]
  simp only [List.mem_append, mem_tierSlots] at hs
  exact List.mem_append.2 hs

/-- one table replaced, with its frame -/
theorem VFrame.setVT (p : PCol) (tier : Nat) (t' : VT) (L : List Nat)
    (h : TFrame L (p.vt tier) t') : VFrame (L.map (fun s => (tier, s))) p (p.setVT tier t') := by
  intro tr
  by_cases ht : tr = tier
  · subst ht
    simp only [PCol.setVT, if_true]
    refine h.mono (fun s hs => ?_)
    rw [mem_tierSlots]
    exact List.mem_map.2 ⟨s, hs, rfl⟩
  · simp only [PCol.setVT, if_neg ht]
    exact TFrame.refl _ _

theorem pInsertVal_frame (p : PCol) (k : Key) (tf : (Bytes × Bool) × Nat) (a : Nat) (p2 : PCol)
    (h : pInsertVal p k tf = .ok (a, p2)) : VFrame (insTouched p k tf) p p2 := by
  unfold pInsertVal at h
  split at h
  · rename_i r hw
    injection h with h; injection h with _ h2; subst h2
    have := VFrame.setVT p tf.2 r.table _ (writeChain_frame _ _ _ _ _ _ hw)
    simpa [insTouched, wcTouched, hw] using this
  · cases h

theorem pRemoveVal_frame (p : PCol) (a : Nat) (p1 : PCol) (h : pRemoveVal p a = .ok p1) :
    VFrame (remTouched p a) p p1 := by
  unfold pRemoveVal at h
  split at h
  · rename_i t L hr
    injection h with h; subst h
    have := VFrame.setVT p (Address.size_tier a) t _ (removePlan_frame _ _ _ _ hr)
    simpa [remTouched, rmTouched, hr] using this
  · cases h

theorem mapIx_ok {r : PRes} {f : Col → Col} {p' : PCol} (h : r.mapIx f = .ok p') :
    ∃ p0, r = .ok p0 ∧ p'.vt = p0.vt := by
  cases r with
  | ok p0 => simp only [PRes.mapIx] at h; injection h with h; subst h; exact ⟨p0, rfl, rfl⟩
  | panic => cases h
  | diverge => cases h
  | vtErr e => cases h

theorem pWriteExisting0_frame (p : PCol) (k : Key) (op : Option ((Bytes × Bool) × Nat))
    (j sub a : Nat) (p' : PCol) (h : pWriteExisting0 p k op j sub a = .ok p') :
    VFrame (existingTouched p k op a) p p' := by
  unfold pWriteExisting0 at h
  cases op with
  | some tf =>
    simp only at h
    by_cases ht : Address.size_tier a = tf.2
    · simp only [ht, if_true] at h
      split at h
      · rename_i r hw
        injection h with h; subst h
        have := VFrame.setVT p tf.2 r.table _ (writeChain_frame _ _ _ _ _ _ hw)
        simpa [existingTouched, ht, wcTouched, hw] using this
      · cases h
    · simp only [ht, if_false] at h
      split at h
      · cases h
      · rename_i p1 hr
        split at h
        · cases h
        · rename_i a' p2 hi
          have f1 := pRemoveVal_frame p a p1 hr
          have f2 := pInsertVal_frame p1 k tf a' p2 hi
          have f3 := (f1.trans f2).vt_congr (liftIx_vt h)
          simpa [existingTouched, ht, hr] using f3
  | none =>
    simp only at h
    split at h
    · cases h
    · rename_i p1 hr
      have f1 := pRemoveVal_frame p a p1 hr
      have hv : p'.vt = p1.vt := by
        split at h <;> (injection h with h; subst h; rfl)
      simpa [existingTouched] using f1.vt_congr hv

theorem pWrite_frame (cmp : Bytes → Bytes) (thr : Nat) (p : PCol) (k : Key) (op : Option Bytes)
    (p' : PCol) (h : pWrite cmp thr p k op = .ok p') : VFrame (vtTouched cmp thr p k op) p p' := by
  unfold pWrite at h
  unfold vtTouched
  split at h
  · rename_i j sub a hs
    simp only [hs]
    unfold pWriteExisting at h
    split at h
    · obtain ⟨p0, h0, hv⟩ := mapIx_ok h
      exact (pWriteExisting0_frame _ _ _ _ _ _ _ h0).vt_congr hv
    · exact pWriteExisting0_frame _ _ _ _ _ _ _ h
  · rename_i hs
    simp only [hs]
    cases op with
    | some v =>
      simp only at h ⊢
      unfold pWriteNew at h
      split at h
      · cases h
      · rename_i a p2 hi
        exact (pInsertVal_frame _ _ _ _ _ hi).vt_congr (liftIx_vt h)
    | none =>
      simp only at h ⊢
      injection h with h; subst h
      exact VFrame.refl _ _

theorem pStep_frame (cmp : Bytes → Bytes) (thr : Nat) (p : PCol) (a : PAction) (p' : PCol)
    (h : pStep cmp thr p a = .ok p') : VFrame (stepTouched cmp thr p a) p p' := by
  cases a with
  | set k v => exact pWrite_frame cmp thr p k (some v) p' h
  | del k => exact pWrite_frame cmp thr p k none p' h
  | reindex => exact VFrame.of_vt (liftIx_vt h) _
  | enact => simp only [pStep] at h; injection h with h; subst h; exact VFrame.of_vt rfl _
  | reopen => simp only [pStep] at h; injection h with h; subst h; exact VFrame.of_vt rfl _
  | relaunch => simp only [pStep] at h; injection h with h; subst h; exact VFrame.of_vt rfl _

theorem pRun_frame (cmp : Bytes → Bytes) (thr : Nat) : ∀ (tx : Tx) (p p' : PCol),
    pRun cmp thr p tx = .ok p' → VFrame (txTouched cmp thr p tx) p p' := by
  intro tx
  induction tx with
  | nil => intro p p' h; simp only [pRun] at h; injection h with h; subst h; exact VFrame.refl _ _
  | cons a as ih =>
    intro p p' h
    simp only [pRun] at h
    cases hs : pStep cmp thr p a with
    | ok p1 =>
      rw [hs] at h
      simp only [PRes.bind] at h
      simp only [txTouched, hs]
      exact (pStep_frame cmp thr p a p1 hs).trans (ih p1 p' h)
    | panic => rw [hs] at h; cases h
    | diverge => rw [hs] at h; cases h
    | vtErr e => rw [hs] at h; cases h

/-! ## the frame of a transaction -/

theorem val_mem_cands (T : List (Nat × Nat)) (p p' : PCol) (tier s : Nat) :
    Loc.val tier s ∈ cands T p p' ↔ (tier, s) ∈ T := by
  simp only [cands, List.mem_append, List.mem_flatMap, List.mem_map]
  constructor
  · rintro ((⟨_, _, _, _, _, _, e⟩ | ⟨ts, hts, e⟩) | ⟨_, _, e⟩)
    · cases e
    · injection e with e1 e2
      rw [mem_dedup] at hts
      obtain ⟨a, b⟩ := ts
      simp only at e1 e2
      subst e1 e2
      exact hts
    · cases e
  · intro h
    exact Or.inl (Or.inr ⟨(tier, s), (mem_dedup _ _).2 h, rfl⟩)

theorem hdr_mem_cands (T : List (Nat × Nat)) (p p' : PCol) (tier : Nat) :
    Loc.hdr tier ∈ cands T p p' ↔ ∃ s, (tier, s) ∈ T := by
  simp only [cands, List.mem_append, List.mem_flatMap, List.mem_map]
  constructor
  · rintro ((⟨_, _, _, _, _, _, e⟩ | ⟨_, _, e⟩) | ⟨ts, hts, e⟩)
    · cases e
    · cases e
    · injection e with e1
      rw [mem_dedup] at hts
      obtain ⟨x, hx, e2⟩ := List.mem_map.1 hts
      obtain ⟨a, b⟩ := ts
      obtain ⟨c, d⟩ := x
      simp only at e1
      injection e2 with e3 _
      simp only at e3
      subst e1 e3
      exact ⟨d, hx⟩
  · rintro ⟨s, hs⟩
    exact Or.inr ⟨(tier, 0), (mem_dedup _ _).2 (List.mem_map.2 ⟨(tier, s), hs, rfl⟩), rfl⟩

/-- THE FRAME HOLDS, for every transaction that plans without error, whatever the state. -/
theorem frame_holds (cmp : Bytes → Bytes) (thr : Nat) (p p' : PCol) (tx : Tx)
    (h : runTx cmp thr p tx = some p') : Frame (txTouched cmp thr p tx) p p' := by
  have hr : pRun cmp thr p tx = .ok p' := by
    unfold runTx at h
    split at h
    · injection h with h; subst h; assumption
    · cases h
  have hf := pRun_frame cmp thr tx p p' hr
  intro l hl hn
  cases l with
  | idx b c i => exact frame_idx _ p p' b c i hl hn
  | val tier s =>
    rw [val_mem_cands] at hn
    simp only [mem]
    exact (hf tier).slots s (by rw [mem_tierSlots]; exact hn)
  | hdr tier =>
    rw [hdr_mem_cands] at hn
    simp only [mem]
    obtain ⟨h1, h2⟩ := (hf tier).hdr (by rw [mem_tierSlots]; exact fun x => hn ⟨0, x⟩)
    rw [h1, h2]

/-- every write of a diff record over `cands` is one the enactment does not skip, in a column whose
tables are those of `p` and of `p'` -/
theorem diff_ok (T : List (Nat × Nat)) (p p' : PCol) (hng : shape p' = shape p) (w : Write)
    (h : w ∈ diffWrites (cands T p p') (mem p) (mem p')) : Write.Ok (shape p) w := by
  obtain ⟨hc, hv⟩ := mem_diffWrites h
  obtain ⟨wl, wi⟩ := w
  simp only at hc hv
  subst hv
  cases wl with
  | idx b c i =>
    rw [idx_mem_cands] at hc
    refine ⟨?_, hc.2.2, ?_⟩
    · rcases hc.1 with h | h
      · exact h
      · exact hng ▸ h
    · simp only [mem]
      split <;> exact ⟨_, rfl⟩
  | val tier s => trivial
  | hdr tier => exact ⟨_, _, rfl⟩

end Pdb.PhysRec
