/-
C12: the log-file part of the invariant is preserved by append, sync and reclaim.
-/
import Pdb.Proofs.C12Step

set_option linter.unusedSectionVars false
set_option linter.unusedSimpArgs false
set_option linter.unusedVariables false
namespace Pdb
namespace Dur
variable {V : Type}

theorem IsBlock.append_recs {recs : List (Rec Loc V)} {l : List (Nat × Rec Loc V)} {first : Nat}
    (h : IsBlock recs l first) (ws : Rec Loc V) (h1 : 1 ≤ first)
    (h2 : first + l.length ≤ recs.length + 1) : IsBlock (recs ++ [ws]) l first := by
  intro i hi
  rw [h i hi, recOf_append_le recs ws (first + i) (by omega) (by omega)]

theorem IsBlock.snoc {recs : List (Rec Loc V)} {l : List (Nat × Rec Loc V)} {first : Nat}
    (h : IsBlock recs l first) (ws : Rec Loc V) (h1 : 1 ≤ first)
    (h2 : first + l.length = recs.length + 1) :
    IsBlock (recs ++ [ws]) (l ++ [(recs.length + 1, ws)]) first := by
  intro i hi
  simp only [List.length_append, List.length_cons, List.length_nil] at hi
  by_cases hlt : i < l.length
  · rw [List.getElem?_append_left hlt, h i hlt,
      recOf_append_le recs ws (first + i) (by omega) (by omega)]
  · have e : i = l.length := by omega
    subst e
    rw [List.getElem?_append_right (Nat.le_refl _)]
    simp only [Nat.sub_self, List.getElem?_cons_zero, Option.some.injEq, Prod.mk.injEq]
    rw [h2, recOf_append_new]
    exact ⟨rfl, rfl⟩

theorem LogI.logSync {logs : List (LogFile V)} {recs : List (Rec Loc V)} {cleaned synced : Nat}
    {cur : Option Nat} (h : LogI logs recs cleaned cur synced) (f : Nat) :
    LogI (logsSync logs f) recs cleaned cur (if cur = some f then recs.length else synced) := by
  unfold logsSync
  refine ⟨?_, ?_, ?_, ?_⟩
  · rw [List.map_map]
    have : ((fun lf : LogFile V => lf.file) ∘
        (fun lf => if lf.file = f then { lf with nsynced := lf.recs.length } else lf)) =
        fun lf => lf.file := by
      funext lf; simp only [Function.comp]; split <;> rfl
    rw [this]; exact h.nodup
  · intro lf' hlf'
    obtain ⟨lf, hlf, rfl⟩ := List.mem_map.mp hlf'
    obtain ⟨first, h1, h2, h3, h4, h5, h6, h7⟩ := h.block lf hlf
    by_cases e : lf.file = f
    · rw [if_pos e]
      refine ⟨first, h1, h2, h3, h4, Nat.le_refl _, ?_, fun _ => rfl⟩
      intro hc
      have hc' : cur = some f := by rw [← hc]; simp [e]
      have := (h6 hc).1
      simp only [hc', if_true]
      exact ⟨this, by omega⟩
    · rw [if_neg e]
      refine ⟨first, h1, h2, h3, h4, h5, ?_, h7⟩
      intro hc
      have hne : ¬ cur = some f := by
        rw [← hc]; intro x; exact e (Option.some.inj x)
      simp only [hne, if_false]
      exact h6 hc
  · intro id h1 h2
    obtain ⟨lf, hlf, ws, hws⟩ := h.cover id h1 h2
    refine ⟨_, List.mem_map.mpr ⟨lf, hlf, rfl⟩, ws, ?_⟩
    split <;> exact hws
  · intro lf1' h1' lf2' h2' id ws1 ws2 m1 m2
    obtain ⟨lf1, hlf1, rfl⟩ := List.mem_map.mp h1'
    obtain ⟨lf2, hlf2, rfl⟩ := List.mem_map.mp h2'
    have m1' : (id, ws1) ∈ lf1.recs := by split at m1 <;> exact m1
    have m2' : (id, ws2) ∈ lf2.recs := by split at m2 <;> exact m2
    rw [h.disj lf1 hlf1 lf2 hlf2 id ws1 ws2 m1' m2']

/-- Append of record n+1 to log file `f`, allowed by the discipline: either `f` is the file being
    appended to, or every record is synced and `f` holds no record. -/
theorem LogI.logAppend {logs : List (LogFile V)} {recs : List (Rec Loc V)} {cleaned synced : Nat}
    {cur : Option Nat} (h : LogI logs recs cleaned cur synced) (hcn : cleaned ≤ recs.length)
    (hsn : synced ≤ recs.length) (f : Nat) (ws : Rec Loc V)
    (hok : cur = some f ∨ (synced = recs.length ∧ logs.any (fun lf => lf.file = f) = false)) :
    LogI (logsAppend logs f (recs.length + 1, ws)) (recs ++ [ws]) cleaned (some f) synced := by
  have hlen : (recs ++ [ws]).length = recs.length + 1 := by simp
  -- ids of old records are ≤ n
  have hold : ∀ lf ∈ logs, ∀ id w, (id, w) ∈ lf.recs → id ≤ recs.length := by
    intro lf hlf id w hm
    obtain ⟨first, _, _, h3, h4, _⟩ := h.block lf hlf
    have := (h4.mem id w).mp hm
    omega
  unfold logsAppend
  by_cases hany : logs.any (fun lf => lf.file = f) = true
  · -- the file exists: by `hok` it is the current one
    have hcur : cur = some f := by
      rcases hok with h' | h'
      · exact h'
      · rw [h'.2] at hany; exact absurd hany (by simp)
    rw [if_pos hany]
    refine ⟨?_, ?_, ?_, ?_⟩
    · rw [List.map_map]
      have : ((fun lf : LogFile V => lf.file) ∘
          (fun lf => if lf.file = f then { lf with recs := lf.recs ++ [(recs.length + 1, ws)] }
            else lf)) = fun lf => lf.file := by
        funext lf; simp only [Function.comp]; split <;> rfl
      rw [this]; exact h.nodup
    · intro lf' hlf'
      obtain ⟨lf, hlf, rfl⟩ := List.mem_map.mp hlf'
      obtain ⟨first, h1, h2, h3, h4, h5, h6, h7⟩ := h.block lf hlf
      by_cases e : lf.file = f
      · rw [if_pos e]
        have hc : some lf.file = cur := by rw [hcur, e]
        obtain ⟨h61, h62⟩ := h6 hc
        refine ⟨first, h1, by simp, by simp; omega, ?_, by simp; omega, ?_, ?_⟩
        · exact h4.snoc ws (by omega) h61
        · intro _
          simp only [List.length_append, List.length_cons, List.length_nil]
          omega
        · intro hne; exact absurd (by simp [e]) hne
      · rw [if_neg e]
        have hnc : some lf.file ≠ cur := by
          rw [hcur]; intro x; exact e (Option.some.inj x)
        refine ⟨first, h1, h2, by rw [hlen]; omega, h4.append_recs ws (by omega) h3, h5, ?_,
          fun _ => h7 hnc⟩
        intro x; exact absurd (Option.some.inj x) e
    · intro id h1 h2
      rw [hlen] at h2
      by_cases hid : id ≤ recs.length
      · obtain ⟨lf, hlf, w, hw⟩ := h.cover id h1 hid
        refine ⟨_, List.mem_map.mpr ⟨lf, hlf, rfl⟩, w, ?_⟩
        split
        · exact List.mem_append_left _ hw
        · exact hw
      · have e : id = recs.length + 1 := by omega
        rw [List.any_eq_true] at hany
        obtain ⟨lf, hlf, hf⟩ := hany
        have hf' : lf.file = f := by simpa using hf
        refine ⟨_, List.mem_map.mpr ⟨lf, hlf, rfl⟩, ws, ?_⟩
        rw [if_pos hf', e]
        simp
    · intro lf1' h1' lf2' h2' id ws1 ws2 m1 m2
      obtain ⟨lf1, hlf1, rfl⟩ := List.mem_map.mp h1'
      obtain ⟨lf2, hlf2, rfl⟩ := List.mem_map.mp h2'
      -- membership in an updated file: old member, or the new record in file f
      have key : ∀ (lf : LogFile V) (w : Rec Loc V),
          (id, w) ∈ (if lf.file = f then { lf with recs := lf.recs ++ [(recs.length + 1, ws)] }
            else lf).recs → (id, w) ∈ lf.recs ∨ (lf.file = f ∧ id = recs.length + 1) := by
        intro lf w hm
        split at hm
        · rename_i hf
          simp only [List.mem_append, List.mem_singleton, Prod.mk.injEq] at hm
          rcases hm with hm | hm
          · exact Or.inl hm
          · exact Or.inr ⟨hf, hm.1⟩
        · exact Or.inl hm
      rcases key lf1 ws1 m1 with a1 | a1 <;> rcases key lf2 ws2 m2 with a2 | a2
      · rw [h.disj lf1 hlf1 lf2 hlf2 id ws1 ws2 a1 a2]
      · have := hold lf1 hlf1 id ws1 a1; omega
      · have := hold lf2 hlf2 id ws2 a2; omega
      · have : lf1 = lf2 := eq_of_file_eq h.nodup hlf1 hlf2 (by rw [a1.1, a2.1])
        rw [this]
  · -- a file without records
    have hany' : logs.any (fun lf => lf.file = f) = false := by
      cases hh : logs.any (fun lf => lf.file = f) with
      | true => exact absurd hh hany
      | false => rfl
    rw [hany']
    simp only [Bool.false_eq_true, if_false]
    have hnf : ∀ lf ∈ logs, lf.file ≠ f := by
      intro lf hlf e
      have : logs.any (fun lf => lf.file = f) = true :=
        List.any_eq_true.mpr ⟨lf, hlf, by simp [e]⟩
      rw [hany'] at this; exact absurd this (by simp)
    refine ⟨?_, ?_, ?_, ?_⟩
    · rw [List.map_append, List.nodup_append]
      refine ⟨h.nodup, by simp, ?_⟩
      intro a ha b hb
      simp only [List.map_cons, List.map_nil, List.mem_singleton] at hb
      obtain ⟨lf, hlf, rfl⟩ := List.mem_map.mp ha
      rw [hb]; exact hnf lf hlf
    · intro lf hlf
      rcases List.mem_append.mp hlf with hlf | hlf
      · obtain ⟨first, h1, h2, h3, h4, h5, h6, h7⟩ := h.block lf hlf
        have e := hnf lf hlf
        refine ⟨first, h1, h2, by rw [hlen]; omega, h4.append_recs ws (by omega) h3, h5, ?_, ?_⟩
        · intro x; exact absurd (Option.some.inj x) e
        · intro _
          by_cases hc : some lf.file = cur
          · -- it was the current file: `hok` says everything is synced
            have hs : synced = recs.length := by
              rcases hok with h' | h'
              · rw [h'] at hc; exact absurd (Option.some.inj hc) e
              · exact h'.1
            have := h6 hc
            omega
          · exact h7 hc
      · simp only [List.mem_singleton] at hlf
        subst hlf
        refine ⟨recs.length + 1, by omega, by simp, by simp, ?_, by simp, ?_, ?_⟩
        · intro i hi
          simp only [List.length_cons, List.length_nil] at hi
          have : i = 0 := by omega
          subst this
          simp [recOf_append_new]
        · intro _; simp; omega
        · intro hne; exact absurd rfl hne
    · intro id h1 h2
      rw [hlen] at h2
      by_cases hid : id ≤ recs.length
      · obtain ⟨lf, hlf, w, hw⟩ := h.cover id h1 hid
        exact ⟨lf, List.mem_append_left _ hlf, w, hw⟩
      · have e : id = recs.length + 1 := by omega
        exact ⟨_, List.mem_append_right _ (List.mem_singleton.mpr rfl), ws, by simp [e]⟩
    · intro lf1 h1 lf2 h2 id ws1 ws2 m1 m2
      rcases List.mem_append.mp h1 with h1 | h1 <;> rcases List.mem_append.mp h2 with h2 | h2
      · exact h.disj lf1 h1 lf2 h2 id ws1 ws2 m1 m2
      · simp only [List.mem_singleton] at h2
        subst h2
        simp only [List.mem_singleton, Prod.mk.injEq] at m2
        have := hold lf1 h1 id ws1 m1; omega
      · simp only [List.mem_singleton] at h1
        subst h1
        simp only [List.mem_singleton, Prod.mk.injEq] at m1
        have := hold lf2 h2 id ws2 m2; omega
      · simp only [List.mem_singleton] at h1 h2
        rw [h1, h2]

/-- Reclaiming the oldest log file (its first record is cleaned+1). -/
theorem LogI.drop {logs : List (LogFile V)} {recs : List (Rec Loc V)} {cleaned synced : Nat}
    {cur : Option Nat} (h : LogI logs recs cleaned cur synced) (f : Nat) (lf : LogFile V)
    (hlf : lf ∈ logs) (hf : lf.file = f) (x : Nat × Rec Loc V) (xs : List (Nat × Rec Loc V))
    (hx : lf.recs = x :: xs) (hfirst : x.1 = cleaned + 1) :
    LogI (logsDrop logs f) recs (cleaned + lf.recs.length)
      (if cur = some f then none else cur) synced := by
  obtain ⟨first, g1, g2, g3, g4, g5, g6, g7⟩ := h.block lf hlf
  -- the block of lf starts at cleaned+1
  have hfe : first = cleaned + 1 := by
    have := g4 0 g2
    rw [hx] at this
    simp only [List.getElem?_cons_zero, Option.some.injEq] at this
    rw [this] at hfirst
    simpa using hfirst
  have hmemlf : ∀ id, cleaned < id → id ≤ cleaned + lf.recs.length →
      (id, recOf recs id) ∈ lf.recs := by
    intro id a b
    exact (g4.mem id _).mpr ⟨by omega, by omega, rfl⟩
  unfold logsDrop
  refine ⟨?_, ?_, ?_, ?_⟩
  · have : (List.filter (fun lf => decide (lf.file ≠ f)) logs).map (fun lf => lf.file) =
        (logs.map (fun lf => lf.file)).filter (fun n => decide (n ≠ f)) := by
      rw [List.filter_map]; rfl
    rw [this]
    exact List.Pairwise.filter _ h.nodup
  · intro lf' hlf'
    obtain ⟨hm, hne⟩ := List.mem_filter.mp hlf'
    have hne' : lf'.file ≠ f := by simpa using hne
    obtain ⟨first', k1, k2, k3, k4, k5, k6, k7⟩ := h.block lf' hm
    refine ⟨first', ?_, k2, k3, k4, k5, ?_, ?_⟩
    · -- blocks are disjoint: first' cannot lie inside lf's block
      by_cases hin : first' ≤ cleaned + lf.recs.length
      · have m1 := hmemlf first' k1 hin
        have m2 : (first', recOf recs first') ∈ lf'.recs :=
          (k4.mem first' _).mpr ⟨Nat.le_refl _, by omega, rfl⟩
        have := h.disj lf hlf lf' hm first' _ _ m1 m2
        rw [← this] at hne'
        exact absurd hf hne'
      · omega
    · intro hc
      by_cases hcf : cur = some f
      · simp [hcf] at hc
      · simp only [hcf, if_false] at hc
        exact k6 hc
    · intro hc
      by_cases hcf : cur = some f
      · apply k7
        rw [hcf]; intro x; exact hne' (Option.some.inj x)
      · simp only [hcf, if_false] at hc
        exact k7 hc
  · intro id h1 h2
    obtain ⟨lf', hlf', w, hw⟩ := h.cover id (by omega) h2
    refine ⟨lf', List.mem_filter.mpr ⟨hlf', ?_⟩, w, hw⟩
    simp only [decide_eq_true_eq]
    intro e
    have : lf' = lf := eq_of_file_eq h.nodup hlf' hlf (by rw [e, hf])
    rw [this] at hw
    have := (g4.mem id w).mp hw
    omega
  · intro lf1 h1 lf2 h2 id ws1 ws2 m1 m2
    exact h.disj lf1 (List.mem_filter.mp h1).1 lf2 (List.mem_filter.mp h2).1 id ws1 ws2 m1 m2

end Dur
end Pdb
