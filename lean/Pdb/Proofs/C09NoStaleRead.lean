/-
C09 without A-tail: the abstraction `AbsN` (Pdb/Proofs/C09NoStaleAbs.lean) follows the abstract
map through writes, reindex batches, reopen and re-launched growths of the fixed code.
-/
import Pdb.Proofs.C09NoStaleAbs

namespace Pdb.Index
open Pdb.Gen Pdb.IndexPage

theorem valAt_none_of_tailAt {s : Col} {a : Nat} (h : s.tailAt a = none) : s.valAt a = none := by
  unfold Col.tailAt at h
  cases hv : s.valAt a with
  | none => rfl
  | some sl => rw [hv] at h; cases h

theorem Ent.of_vis {s : Col} (hS : Shape s) {kp1 kp2 a : Nat} (h1 : kp1 < 2 ^ 64) (h2 : kp2 < 2 ^ 64)
    (hv : vis kp1 = vis kp2) (h : Ent s kp1 a) : Ent s kp2 a := by
  obtain ⟨t, ht, hh⟩ := h
  exact ⟨t, ht, Table.has_of_vis t (hS.wf t ht) kp1 kp2 a h1 h2 hv hh⟩

/-- the state-level facts `AbsNF` needs, from the invariants -/
theorem AbsN.of_abs {s : Col} {m : Key → Option Val} (hS : Shape s) (hN : NoStale s)
    (habs : ∀ k, KeyWF k → ∀ v, m k = some v ↔ ∃ a, s.valAt a = some ⟨k.tail, v⟩ ∧ Ent s k.pre a)
    (hone : ∀ k, KeyWF k → ∀ a1 a2 v1 v2, Ent s k.pre a1 → Ent s k.pre a2 →
      s.valAt a1 = some ⟨k.tail, v1⟩ → s.valAt a2 = some ⟨k.tail, v2⟩ → a1 = a2) : AbsN s m := by
  refine ⟨habs, hone, fun kp1 kp2 a h1 h2 hv e => e.of_vis hS h1 h2 hv, ?_, ?_⟩
  · rintro kp1 kp2 a h1 h2 ⟨t1, ht1, e1⟩ ⟨t2, ht2, e2⟩
    exact hN.agree t1 ht1 t2 ht2 kp1 kp2 a h1 h2 e1 e2
  · rintro kp a hkp ⟨t, ht, e⟩
    obtain ⟨tl, htl, _⟩ := hN.live t ht kp a hkp e
    obtain ⟨v, hv⟩ := (tailAt_eq_some s a tl).1 htl
    rw [hv]; rfl

theorem AbsN.init (cfg : Cfg) (b : Nat) : AbsN (Col.init cfg b) (fun _ => none) := by
  have hno : ∀ kp a, ¬ Ent (Col.init cfg b) kp a := by
    rintro kp a ⟨t, ht, hh⟩
    have : t = Table.new b := by simpa [Col.tables, Col.init] using ht
    rw [this] at hh; exact Table.not_has_new _ _ _ hh
  refine ⟨fun k _ v => ⟨(fun h => by cases h), fun ⟨a, _, e⟩ => absurd e (hno _ _)⟩,
    fun _ _ a1 _ _ _ e => absurd e (hno _ _), fun _ _ a _ _ _ e => absurd e (hno _ _),
    fun _ _ a _ _ e => absurd e (hno _ _), fun _ a _ e => absurd e (hno _ _)⟩

/-! ## a new key -/

theorem writeNew_abs {s s' : Col} {m : Key → Option Val} (hS : Shape s) (hSl : SlotInv s)
    (hN : NoStale s) (hA : AbsN s m) (k : Key) (hk : KeyWF k) (tier ext : Nat) (v : Val)
    (htier : tier < 256) (hnone : searchAll s k = none) (h : writeNew s k tier ext v = .ok s')
    (hB : Bounded s') : AbsN s' (upd m k (some v)) := by
  unfold writeNew at h
  simp only at h
  have e2 : ((s.alloc tier).2.setVal (Address.new (s.alloc tier).1 tier) (some ⟨k.tail, v⟩)
        ((s.alloc tier).2.nLive + 1)).resize tier (s.alloc tier).1 ext =
      s.withVals (s.values.set DEPTH (Address.new (s.alloc tier).1 tier) (some ⟨k.tail, v⟩))
        ((s.alloc tier).2.resize tier (s.alloc tier).1 ext).tiers (s.nLive + 1) := by
    rw [Col.alloc_snd s tier]; rfl
  rw [e2, insertLoop_withVals] at h
  obtain ⟨si, hi, hs'⟩ := Res.map_ok h
  subst hs'
  have hbits : si.current.bits ≤ 49 := hB.bits
  obtain ⟨hE, hS', hH⟩ := insertLoop_ok _ _ _ s si hS hi hbits
  have htail : ∀ x, (si.withVals (s.values.set DEPTH (Address.new (s.alloc tier).1 tier)
      (some ⟨k.tail, v⟩)) ((s.alloc tier).2.resize tier (s.alloc tier).1 ext).tiers (s.nLive + 1)).tailAt x =
      if x = Address.new (s.alloc tier).1 tier then some k.tail else s.tailAt x :=
    fun x => tailAt_vals_some s si _ _ _ _ x
  obtain ⟨_, hfresh, ho1, ho56⟩ := SlotInv.alloc_resize
    (s' := si.withVals (s.values.set DEPTH (Address.new (s.alloc tier).1 tier)
      (some ⟨k.tail, v⟩)) ((s.alloc tier).2.resize tier (s.alloc tier).1 ext).tiers (s.nLive + 1))
    hSl tier ext k.tail htier (fun _ => rfl) htail (hB.filled tier htier)
  have ha0 : Address.new (s.alloc tier).1 tier ≠ 0 := address_new_ne_zero _ _ ho56 htier ho1
  have hval : ∀ x, (si.withVals (s.values.set DEPTH (Address.new (s.alloc tier).1 tier)
      (some ⟨k.tail, v⟩)) ((s.alloc tier).2.resize tier (s.alloc tier).1 ext).tiers (s.nLive + 1)).valAt x =
      if x = Address.new (s.alloc tier).1 tier then some ⟨k.tail, v⟩ else s.valAt x :=
    fun x => valAt_vals s si _ _ _ _ x
  generalize Address.new (s.alloc tier).1 tier = an at *
  have hnoHas : ∀ t ∈ s.tables, ∀ kp', kp' < 2 ^ 64 → ¬ t.Has kp' an := by
    intro t ht kp' hkp' hh
    obtain ⟨tl, htl, _⟩ := hN.live t ht kp' _ hkp' hh
    rw [hfresh] at htl; cases htl
  obtain ⟨_, r2, r3⟩ := insertLoop_ns k.pre an hk.pre_lt _ s si hS hi hbits hN.uniq
    (hnoHas _ (by simp [Col.tables]) _ hk.pre_lt)
  have hnone' : ∀ x w, Ent s k.pre x → s.valAt x ≠ some ⟨k.tail, w⟩ := by
    rintro x w ⟨t, ht, hh⟩ hx
    have h1 := searchAll_none s k hnone t ht
    have h2 := searchTable_complete s t k x (hS.wf t ht) hh ((tailAt_eq_some s x k.tail).2 ⟨w, hx⟩)
    rw [h1] at h2; cases h2
  refine (hA.new k hk v an (valAt_none_of_tailAt hfresh) hnone').congr hval (fun kp x hkp => ?_)
  constructor
  · rintro ⟨t', ht', hh⟩
    have ht'' : t' = si.current ∨ t' ∈ si.older := List.mem_cons.1 ht'
    rcases ht'' with e | e
    · rw [e] at hh
      rcases r3 kp x hkp hh with h1 | h1
      · exact Or.inl ⟨s.current, by simp [Col.tables], h1⟩
      · exact Or.inr h1
    · rcases r2 t' e with h1 | h1
      · exact Or.inl ⟨t', h1, hh⟩
      · exact absurd hh (h1 kp x)
  · rintro (⟨t, ht, hh⟩ | ⟨hx, hv⟩)
    · obtain ⟨t', ht', hh'⟩ := hE.has_all kp x t ht hh
      exact ⟨t', ht', hh'⟩
    · subst hx
      refine ⟨si.current, (List.mem_cons_self : si.current ∈ si.current :: si.older),
        Table.has_of_vis si.current (hS'.wf _ (by simp [Col.tables])) k.pre kp _ hk.pre_lt hkp hv.symm (hH ha0)⟩

/-! ## replace in place -/

theorem write_inplace_abs {s : Col} {m : Key → Option Val} (hA : AbsN s m) (hex : s.cfg.exact = true)
    (k : Key) (hk : KeyWF k) (j i a : Nat) (tj : Table) (hF : Found s k j i a tj) (ext : Nat) (v : Val) :
    AbsN ((s.setVal a (some ⟨k.tail, v⟩) s.nLive).resize (Address.size_tier a) (Address.offset a) ext)
      (upd m k (some v)) := by
  obtain ⟨v0, hv0⟩ := (tailAt_eq_some s a k.tail).1 hF.live
  refine (hA.inplace k hk v v0 a hv0 ⟨tj, hF.mem, hF.has hex⟩).congr (fun x => ?_)
    (fun kp x _ => Iff.rfl)
  have e : ((s.setVal a (some ⟨k.tail, v⟩) s.nLive).resize (Address.size_tier a) (Address.offset a)
      ext).valAt x = (s.setVal a (some ⟨k.tail, v⟩) s.nLive).valAt x := rfl
  rw [e, Col.valAt_setVal]
  by_cases h : a = x
  · simp [h]
  · have : ¬ x = a := fun e => h e.symm
    simp [h, this]

/-! ## tables under `setTableAt` and `purgeOlder` -/

theorem setTableAt_tables (s : Col) (j : Nat) (t : Table) :
    (s.setTableAt j t).tables = s.tables.set j t := by
  cases j <;> rfl

/-- forward: every table survives the removal from the queued tables up to entries of `a` -/
theorem purgeOlder_fwd {s : Col} (hwf : ∀ t ∈ s.tables, TableWF t) (kp a : Nat) (t : Table)
    (ht : t ∈ s.tables) : ∃ t' ∈ (purgeOlder s kp a).tables, Sub a t t' := by
  simp only [Col.tables] at ht
  rcases List.mem_cons.1 ht with e | e
  · exact ⟨s.current, by simp [Col.tables], by rw [e]; exact Sub.refl a _ (hwf _ (by simp [Col.tables]))⟩
  · have hw := hwf t (by simp [Col.tables]; exact Or.inr e)
    rcases purgeOlder_cases s kp a with h | h
    · exact ⟨t, by rw [h]; simp [Col.tables]; exact Or.inr e, Sub.refl a t hw⟩
    · refine ⟨purgeTable s.cfg.exact kp a SCAN_FUEL t 0, ?_, purgeTable_sub _ kp a t hw _ _⟩
      rw [h]
      simp only [Col.tables]
      exact List.mem_cons_of_mem _ (List.mem_map_of_mem e)

/-- backward -/
theorem purgeOlder_bwd {s : Col} (hwf : ∀ t ∈ s.tables, TableWF t) (kp a : Nat) (t' : Table)
    (ht' : t' ∈ (purgeOlder s kp a).tables) : ∃ t ∈ s.tables, Sub a t t' := by
  simp only [Col.tables] at ht'
  rcases List.mem_cons.1 ht' with e | e
  · rw [purgeOlder_current] at e
    exact ⟨s.current, by simp [Col.tables], by rw [e]; exact Sub.refl a _ (hwf _ (by simp [Col.tables]))⟩
  · obtain ⟨t, ht, e2⟩ := purgeOlder_mem s kp a t' e
    have hw := hwf t (by simp [Col.tables]; exact Or.inr ht)
    refine ⟨t, by simp [Col.tables]; exact Or.inr ht, ?_⟩
    rcases e2 with e2 | e2
    · rw [e2]; exact Sub.refl a t hw
    · rw [e2]; exact purgeTable_sub _ kp a t hw _ _

/-! ## remove -/

theorem write_remove_abs {s s' : Col} {m : Key → Option Val} (hS : Shape s) (hN : NoStale s)
    (hA : AbsN s m) (hex : s.cfg.exact = true) (k : Key) (hk : KeyWF k)
    (j i a : Nat) (tj : Table) (hF : Found s k j i a tj) (hN' : NoStale s')
    (h : writeExisting s k none j i a = .ok s') : AbsN s' (upd m k none) := by
  rw [writeExisting_none] at h
  obtain ⟨s0, h0, hs'⟩ := Res.map_ok h
  subst hs'
  have htabs : (freed s a (s.nLive - 1)).tables = s.tables := rfl
  have htj : (freed s a (s.nLive - 1)).tableAt j = tj := by
    simp only [Col.tableAt, htabs, List.getD_eq_getElem?_getD, hF.tab, Option.getD_some]
  unfold writeExisting0 at h0
  simp only at h0
  change (match ((freed s a (s.nLive - 1)).tableAt j).remove k.pre i with
    | some t => Res.ok ((freed s a (s.nLive - 1)).setTableAt j t)
    | none => Res.ok (freed s a (s.nLive - 1))) = Res.ok s0 at h0
  rw [htj] at h0
  have hmi : BaseMatch tj.bits k.pre (tj.page (tj.chunk k.pre)) i := hF.exact (Or.inl hex)
  have hrem : ∃ t, tj.remove k.pre i = some t := by
    unfold Table.remove
    have : entryAt (tj.page (tj.chunk k.pre)) i ≠ 0 ∧
        Entry.partial_key (entryAt (tj.page (tj.chunk k.pre)) i) tj.bits = Entry.extract_key k.pre tj.bits :=
      ⟨hmi.2, hmi.1⟩
    rw [if_pos this]
    exact ⟨_, rfl⟩
  obtain ⟨t, hr⟩ := hrem
  rw [hr] at h0
  simp only at h0
  injection h0 with h0
  subst h0
  have hsub : Sub a tj t := Sub.remove hF.wf k.pre i hr hF.addr
  have htab0 : ((freed s a (s.nLive - 1)).setTableAt j t).tables = s.tables.set j t := by
    rw [setTableAt_tables, htabs]
  have hwf0 : ∀ t0 ∈ ((freed s a (s.nLive - 1)).setTableAt j t).tables, TableWF t0 := by
    intro t0 ht0
    rw [htab0] at ht0
    rcases List.mem_or_eq_of_mem_set ht0 with e | e
    · exact hS.wf t0 e
    · rw [e]; exact hsub.wf
  obtain ⟨v0, hv0⟩ := (tailAt_eq_some s a k.tail).1 hF.live
  have hval : ∀ x, (purgeOlder ((freed s a (s.nLive - 1)).setTableAt j t) k.pre a).valAt x =
      if x = a then none else s.valAt x := by
    intro x
    rw [purgeOlder_valAt]
    have : ((freed s a (s.nLive - 1)).setTableAt j t).valAt x = (freed s a (s.nLive - 1)).valAt x := by
      cases j <;> rfl
    rw [this, freed_valAt]
  have hdead : (purgeOlder ((freed s a (s.nLive - 1)).setTableAt j t) k.pre a).tailAt a = none := by
    unfold Col.tailAt; rw [hval a]; simp
  refine (hA.del k hk v0 a hv0 ⟨tj, hF.mem, hF.has hex⟩).congr hval (fun kp x hkp => ?_)
  constructor
  · rintro ⟨t', ht', hh⟩
    obtain ⟨t0, ht0, hs0⟩ := purgeOlder_bwd hwf0 k.pre a t' ht'
    refine ⟨?_, fun hxa => ?_⟩
    · rw [htab0] at ht0
      rcases List.mem_or_eq_of_mem_set ht0 with e | e
      · exact ⟨t0, e, hs0.sub kp x hh⟩
      · rw [e] at hs0
        exact ⟨tj, hF.mem, hsub.sub kp x (hs0.sub kp x hh)⟩
    · subst hxa
      obtain ⟨tl, htl, _⟩ := hN'.live t' ht' kp x hkp hh
      rw [hdead] at htl; cases htl
  · rintro ⟨⟨t0, ht0, hh⟩, hxa⟩
    -- through `setTableAt`
    obtain ⟨n, hn, hget⟩ := List.mem_iff_getElem.1 ht0
    have h1 : ∃ t1 ∈ ((freed s a (s.nLive - 1)).setTableAt j t).tables, t1.Has kp x := by
      rw [htab0]
      by_cases hjn : j = n
      · subst hjn
        have : s.tables[j]? = some t0 := by rw [List.getElem?_eq_getElem hn, hget]
        rw [hF.tab] at this
        injection this with this
        subst this
        exact ⟨t, List.mem_of_getElem? (by rw [List.getElem?_set_self hn]), hsub.keep kp x hh hxa⟩
      · refine ⟨t0, List.mem_of_getElem? (l := s.tables.set j t) (i := n) ?_, hh⟩
        rw [List.getElem?_set_ne hjn, List.getElem?_eq_getElem hn, hget]
    obtain ⟨t1, ht1, hh1⟩ := h1
    obtain ⟨t', ht', hs'⟩ := purgeOlder_fwd hwf0 k.pre a t1 ht1
    exact ⟨t', ht', hs'.keep kp x hh1 hxa⟩

/-! ## move to another size tier -/

theorem write_move_abs {s s' : Col} {m : Key → Option Val} (hS : Shape s) (hSl : SlotInv s)
    (hN : NoStale s) (hA : AbsN s m)
    (hex : s.cfg.exact = true) (hgrow : s.cfg.growOnMove = true)
    (k : Key) (hk : KeyWF k) (j i a : Nat) (tj : Table) (hF : Found s k j i a tj)
    (hs : searchAll s k = some (j, i, a)) (tier' ext : Nat) (v : Val) (htier' : tier' < 256)
    (hne : Address.size_tier a ≠ tier') (hN' : NoStale s')
    (h : writeExisting s k (some (tier', ext, v)) j i a = .ok s') (hB : Bounded s') :
    AbsN s' (upd m k (some v)) := by
  rw [writeExisting_move _ _ _ _ _ _ _ _ hne] at h
  obtain ⟨s0, h0, hs'⟩ := Res.map_ok h
  subst hs'
  have hB0 : Bounded s0 := hB.of_purgeOlder
  have hmv : moveValue s k a tier' ext v =
      (Address.new ((freed s a s.nLive).alloc tier').1 tier',
       (freed s a s.nLive).withVals
         ((freed s a s.nLive).values.set DEPTH (Address.new ((freed s a s.nLive).alloc tier').1 tier')
           (some ⟨k.tail, v⟩))
         (((freed s a s.nLive).alloc tier').2.resize tier' ((freed s a s.nLive).alloc tier').1 ext).tiers
         (freed s a s.nLive).nLive) := by
    unfold moveValue
    simp only
    have : (s.release (Address.size_tier a) (Address.offset a)).setVal a none s.nLive =
        freed s a s.nLive := rfl
    rw [this, Col.alloc_snd (freed s a s.nLive) tier']
    rfl
  unfold writeExisting0 at h0
  simp only [hne, if_false, hgrow, if_true] at h0
  rw [hmv] at h0
  simp only at h0
  have hSlD : SlotInv (freed s a s.nLive) :=
    hSl.free_val a k.tail hF.live (freed_tier s a _) (freed_tailAt s a _)
  have hSD : Shape (freed s a s.nLive) := ⟨hS.wf, hS.order⟩
  have htabD : (freed s a s.nLive).tables = s.tables := rfl
  have hcurD : (freed s a s.nLive).current = s.current := rfl
  have htlD : ∀ x, (freed s a s.nLive).tailAt x = if x = a then none else s.tailAt x :=
    freed_tailAt s a s.nLive
  have hvlD : ∀ x, (freed s a s.nLive).valAt x = if x = a then none else s.valAt x :=
    freed_valAt s a s.nLive
  generalize freed s a s.nLive = sD at h0 hSlD hSD htabD hcurD htlD hvlD
  have htiers : s0.tiers = ((sD.alloc tier').2.resize tier' (sD.alloc tier').1 ext).tiers :=
    insertCont_tiers (s := (sD.withVals (sD.values.set DEPTH (Address.new (sD.alloc tier').1 tier') (some ⟨k.tail, v⟩)) ((sD.alloc tier').2.resize tier' (sD.alloc tier').1 ext).tiers sD.nLive)) _ _ _ _ _ h0
  have hbnd2 : (((sD.alloc tier').2.resize tier' (sD.alloc tier').1 ext).tier tier').filled ≤ 2 ^ 56 := by
    have h1 := hB0.filled tier' htier'
    simp only [Col.tier] at h1 ⊢
    rw [htiers] at h1
    exact h1
  have hbnd : ((sD.alloc tier').2.tier tier').filled ≤ 2 ^ 56 :=
    Nat.le_trans (alloc_filled_le_resize sD tier' _ ext) hbnd2
  have hfreshD := hSlD.alloc_fresh tier' htier' hbnd
  have ha0 : Address.new (sD.alloc tier').1 tier' ≠ 0 :=
    address_new_ne_zero _ _ hfreshD.2.2 htier' hfreshD.2.1
  have haa : a ≠ Address.new (sD.alloc tier').1 tier' := by
    intro e
    apply hne
    rw [e]
    exact address_tier_new _ _ hfreshD.2.2 htier'
  have hdead' : s.tailAt (Address.new (sD.alloc tier').1 tier') = none := by
    have := hfreshD.1
    rw [htlD, if_neg (fun e => haa e.symm)] at this
    exact this
  have hnoHas : ∀ t ∈ s.tables, ∀ kp', kp' < 2 ^ 64 → ¬ t.Has kp' (Address.new (sD.alloc tier').1 tier') := by
    intro t ht kp' hkp' hh
    obtain ⟨tl, htl, _⟩ := hN.live t ht kp' _ hkp' hh
    rw [hdead'] at htl; cases htl
  have hcurmem : s.current ∈ s.tables := by simp [Col.tables]
  obtain ⟨sI, hs0, hSI, _, _, hold, hcurI, _, hfwd, hnew, _⟩ := move_index_ns hSD
    (by rw [htabD]; exact hN.uniq) k.pre a _ hk.pre_lt haa (if j = 0 then some i else none)
    (by rw [hcurD]; exact hnoHas _ hcurmem _ hk.pre_lt)
    (fun i' hi' => by
      by_cases hj : j = 0
      · simp only [hj, if_true] at hi'
        injection hi' with hi'
        rw [← hi']; exact hF.pos
      · simp [hj] at hi')
    (fun i' hi' => by
      by_cases hj : j = 0
      · simp only [hj, if_true] at hi'
        injection hi' with hi'
        have hcur : tj = s.current := by
          have := hF.tab
          rw [hj] at this
          simp only [Col.tables, List.getElem?_cons_zero, Option.some.injEq] at this
          exact this.symm
        rw [hcurD, ← hcur, ← hi']; exact hF.addr
      · simp [hj] at hi')
    (fun x hx hsx hm had => by
      rw [hcurD] at hm had
      by_cases hj : j = 0
      · have hcur : tj = s.current := by
          have := hF.tab
          rw [hj] at this
          simp only [Col.tables, List.getElem?_cons_zero, Option.some.injEq] at this
          exact this.symm
        simp only [hj, if_true] at hsx
        rw [← hcur] at hm had
        exact hF.other hex (hN.uniq tj hF.mem) x hx (fun e => hsx (by rw [e])) hm had
      · obtain ⟨j', hj'⟩ : ∃ j', j = j' + 1 := ⟨j - 1, by omega⟩
        subst hj'
        exact searchAll_succ_current hS k j' i a hs hF.live ⟨x, hx, hm, had⟩)
    _ _ _ _ h0 hB0.bits
  subst hs0
  have hval0 : ∀ x, (sI.withVals (sD.values.set DEPTH (Address.new (sD.alloc tier').1 tier')
      (some ⟨k.tail, v⟩)) ((sD.alloc tier').2.resize tier' (sD.alloc tier').1 ext).tiers sD.nLive).valAt x =
      if x = Address.new (sD.alloc tier').1 tier' then some ⟨k.tail, v⟩ else sD.valAt x :=
    fun x => valAt_vals sD sI _ _ _ _ x
  generalize Address.new (sD.alloc tier').1 tier' = an at *
  have hS0 : Shape (sI.withVals (sD.values.set DEPTH an (some ⟨k.tail, v⟩))
      ((sD.alloc tier').2.resize tier' (sD.alloc tier').1 ext).tiers sD.nLive) := ⟨hSI.wf, hSI.order⟩
  obtain ⟨v0, hv0⟩ := (tailAt_eq_some s a k.tail).1 hF.live
  have hEk : Ent s k.pre a := ⟨tj, hF.mem, hF.has hex⟩
  have hAd := hA.del k hk v0 a hv0 hEk
  have hAn := hAd.new k hk v an
    (by
      have hna : ¬ an = a := fun e => haa e.symm
      show (if an = a then none else s.valAt an) = none
      rw [if_neg hna]; exact valAt_none_of_tailAt hdead')
    (fun x w hex' hx => by
      have hxa := hex'.2
      simp only [hxa, if_false] at hx
      exact hxa (hA.one k hk x a w v0 hex'.1 hEk hx hv0))
  rw [upd_upd] at hAn
  have hvalF : ∀ x, (purgeOlder (sI.withVals (sD.values.set DEPTH an (some ⟨k.tail, v⟩))
      ((sD.alloc tier').2.resize tier' (sD.alloc tier').1 ext).tiers sD.nLive) k.pre a).valAt x =
      if x = an then some ⟨k.tail, v⟩ else if x = a then none else s.valAt x := by
    intro x
    rw [purgeOlder_valAt, hval0, hvlD]
  have hdeadF : (purgeOlder (sI.withVals (sD.values.set DEPTH an (some ⟨k.tail, v⟩))
      ((sD.alloc tier').2.resize tier' (sD.alloc tier').1 ext).tiers sD.nLive) k.pre a).tailAt a = none := by
    unfold Col.tailAt
    rw [hvalF a, if_neg haa]; simp
  -- the new entry is in the current table of the result
  have hnewF : (purgeOlder (sI.withVals (sD.values.set DEPTH an (some ⟨k.tail, v⟩))
      ((sD.alloc tier').2.resize tier' (sD.alloc tier').1 ext).tiers sD.nLive) k.pre a).current.Has k.pre an := by
    rw [purgeOlder_current]; exact hnew ha0
  refine hAn.congr hvalF (fun kp x hkp => ?_)
  constructor
  · rintro ⟨t', ht', hh⟩
    have hxa : x ≠ a := by
      intro hxa; subst hxa
      obtain ⟨tl, htl, _⟩ := hN'.live t' ht' kp x hkp hh
      rw [hdeadF] at htl; cases htl
    by_cases hxn : x = an
    · subst hxn
      right
      exact ⟨rfl, hN'.agree t' ht' _ (by simp [Col.tables]) kp k.pre x hkp hk.pre_lt hh hnewF⟩
    · left
      obtain ⟨t0, ht0, hs0⟩ := purgeOlder_bwd hS0.wf k.pre a t' ht'
      have hh0 := hs0.sub kp x hh
      have ht0' : t0 = sI.current ∨ t0 ∈ sI.older := List.mem_cons.1 ht0
      rcases ht0' with e | e
      · rw [e] at hh0
        rcases hcurI kp x hkp hh0 with h1 | ⟨h1, _⟩
        · rw [hcurD] at h1; exact ⟨⟨s.current, hcurmem, h1⟩, hxa⟩
        · exact absurd h1 hxn
      · rcases hold t0 e with h1 | h1
        · rw [htabD] at h1; exact ⟨⟨t0, h1, hh0⟩, hxa⟩
        · exact absurd hh0 (h1 kp x)
  · rintro (⟨⟨t0, ht0, hh⟩, hxa⟩ | ⟨hxn, hv⟩)
    · obtain ⟨t1, ht1, hh1⟩ := hfwd t0 (by rw [htabD]; exact ht0) kp x hh hxa
      obtain ⟨t', ht', hs'⟩ := purgeOlder_fwd hS0.wf k.pre a t1 ht1
      exact ⟨t', ht', hs'.keep kp x hh1 hxa⟩
    · subst hxn
      refine ⟨_, (List.mem_cons_self : _ ∈ _ :: _), ?_⟩
      exact Table.has_of_vis _ (hS0.purgeOlder k.pre a |>.wf _ (by simp [Col.tables])) k.pre kp _
        hk.pre_lt hkp hv.symm hnewF

/-! ## reindex batches copy entries only -/

theorem writeReindex_ent {s s' : Col} (hS : Shape s) (hN : NoStale s) (kp a : Nat)
    (hkp : kp < 2 ^ 64) (hsrc : ∃ t ∈ s.tables, t.Has kp a)
    (h : writeReindex s kp a = .ok s') (hb : s'.current.bits ≤ 49) :
    ∀ kp' x, kp' < 2 ^ 64 → Ent s' kp' x → Ent s kp' x := by
  unfold writeReindex at h
  by_cases hc : containsAddr s kp a = true
  · simp only [hc, if_true] at h
    injection h with h; subst h
    exact fun _ _ _ e => e
  · simp only [hc] at h
    have hno : ¬ s.current.Has kp a :=
      fun hh => hc (containsAddr_complete s kp a (hS.wf _ (by simp [Col.tables])) hh)
    obtain ⟨_, r2, r3⟩ := insertLoop_ns kp a hkp _ s s' hS h hb hN.uniq hno
    rintro kp' x hkp' ⟨t', ht', hh⟩
    have ht'' : t' = s'.current ∨ t' ∈ s'.older := List.mem_cons.1 ht'
    rcases ht'' with e | e
    · rw [e] at hh
      rcases r3 kp' x hkp' hh with h1 | ⟨h1, h2⟩
      · exact ⟨s.current, by simp [Col.tables], h1⟩
      · obtain ⟨t, ht, hht⟩ := hsrc
        exact ⟨t, ht, Table.has_of_vis t (hS.wf t ht) kp kp' x hkp hkp' h2.symm (by rw [h1]; exact hht)⟩
    · rcases r2 t' e with h1 | h1
      · exact ⟨t', h1, hh⟩
      · exact absurd hh (h1 kp' x)

theorem applyPlan_ent (t0 : Table) : ∀ (plan : List (Nat × Nat)) (s s' : Col), Shape s → NoStale s →
    t0 ∈ s.older → (∀ x ∈ plan, x.1 < 2 ^ 64 ∧ t0.Has x.1 x.2) → applyPlan s plan = .ok s' →
    s'.current.bits ≤ 49 → ∀ kp' x, kp' < 2 ^ 64 → Ent s' kp' x → Ent s kp' x := by
  intro plan
  induction plan with
  | nil =>
    intro s s' _ _ _ _ h _
    simp only [applyPlan] at h
    injection h with h; subst h
    exact fun _ _ _ e => e
  | cons x rest ih =>
    intro s s' hS hN ht0 hsrc h hb
    obtain ⟨kp, a⟩ := x
    simp only [applyPlan] at h
    obtain ⟨s1, h1, h2⟩ := Res.bind_ok h
    have hb1 : s1.current.bits ≤ 49 := Nat.le_trans (applyPlan_bits rest s1 s' h2) hb
    have hx := hsrc (kp, a) (by simp)
    have hsrc1 : ∃ t ∈ s.tables, t.Has kp a := ⟨t0, by simp [Col.tables]; exact Or.inr ht0, hx.2⟩
    obtain ⟨hS1, hN1, hE1⟩ := writeReindex_ns hS hN kp a hx.1 hsrc1 h1 hb1
    have he1 := writeReindex_ent hS hN kp a hx.1 hsrc1 h1 hb1
    have ht01 : t0 ∈ s1.older := by
      obtain ⟨pushed, ho, _⟩ := hE1.tables
      rw [ho]; exact List.mem_append_left _ ht0
    have he2 := ih s1 s' hS1 hN1 ht01 (fun y hy => hsrc y (List.mem_cons_of_mem _ hy)) h2 hb
    exact fun kp' x hkp' e => he1 kp' x hkp' (he2 kp' x hkp' e)

theorem AbsN.frame {s s' : Col} {m : Key → Option Val} (hA : AbsN s m)
    (hv : ∀ x, s'.valAt x = s.valAt x)
    (he : ∀ kp x, kp < 2 ^ 64 → (Ent s' kp x ↔ Ent s kp x)) : AbsN s' m :=
  AbsNF.congr hA hv he

theorem reindexBatch_abs {s s' : Col} {m : Key → Option Val} (hS : Shape s) (hN : NoStale s)
    (hA : AbsN s m) (h : reindexBatch s = .ok s') (hB : Bounded s') : AbsN s' m := by
  unfold reindexBatch at h
  cases hol : s.older with
  | nil =>
    rw [hol] at h
    simp only at h
    injection h with h; subst h
    exact hA
  | cons t0 rest =>
    rw [hol] at h
    simp only at h
    by_cases hp : s.progress = total_chunks t0.bits
    · simp only [hp, if_true] at h
      injection h with h; subst h
      exact hA
    · simp only [hp, if_false] at h
      generalize hplan : collectPlan t0 (total_chunks t0.bits - s.progress) s.progress [] 0 = r at h
      rw [← hol] at h
      have ht0 : t0 ∈ s.older := by rw [hol]; simp
      have hwf0 : TableWF t0 := hS.wf t0 (by simp [Col.tables]; exact Or.inr ht0)
      have hSp : Shape ({ s with progress := r.2 } : Col) := ⟨hS.wf, hS.order⟩
      have hsrc : ∀ x ∈ r.1.reverse, x.1 < 2 ^ 64 ∧ t0.Has x.1 x.2 := fun x hx => by
        have := plan_src t0 hwf0 (total_chunks t0.bits - s.progress) s.progress 0 x
        rw [hplan] at this
        exact this (List.mem_reverse.1 hx)
      obtain ⟨_, _, hE⟩ := applyPlan_ns t0 r.1.reverse _ s' hSp (hN.progress r.2) ht0 hsrc h hB.bits
      have hbwd := applyPlan_ent t0 r.1.reverse _ s' hSp (hN.progress r.2) ht0 hsrc h hB.bits
      refine hA.frame (fun x => hE.valAt x) (fun kp x hkp => ⟨fun e => hbwd kp x hkp e, ?_⟩)
      rintro ⟨t, ht, hh⟩
      obtain ⟨t', ht', hh'⟩ := hE.has_all kp x t ht hh
      exact ⟨t', ht', hh'⟩

/-! ## reopen, re-launched growth -/

theorem reopen_abs {s : Col} {m : Key → Option Val} (hS : Shape s) (hA : AbsN s m) :
    AbsN (reopen s) m := by
  rcases reopen_cases_shape hS with ⟨hf, e⟩ | ⟨init, last, hf, e⟩
  · rw [e]
    refine hA.frame (fun _ => rfl) (fun kp x _ => ⟨?_, ?_⟩)
    · rintro ⟨t, ht, hh⟩
      have : t = Table.new MIN_INDEX_BITS := by simpa [Col.tables] using ht
      rw [this] at hh; exact absurd hh (Table.not_has_new _ _ _)
    · rintro ⟨t, ht, hh⟩
      exfalso
      have hfile := Table.hasFile_of_has t kp x hh
      have : t ∈ s.files := by
        unfold Col.files
        rw [List.mem_filter]
        refine ⟨?_, hfile⟩
        simp only [Col.tables] at ht
        rcases List.mem_cons.1 ht with e1 | e1
        · rw [e1]; simp
        · exact List.mem_append_left _ e1
      rw [hf] at this; cases this
  · rw [e]
    refine hA.frame (fun _ => rfl) (fun kp x _ => ⟨?_, ?_⟩)
    · rintro ⟨t, ht, hh⟩
      have h1 : t ∈ s.files := by
        rw [hf]
        simp only [Col.tables] at ht
        rcases List.mem_cons.1 ht with e1 | e1
        · rw [e1]; simp
        · exact List.mem_append_left _ e1
      have h2 := (List.mem_filter.1 h1).1
      refine ⟨t, ?_, hh⟩
      simp only [Col.tables]
      rcases List.mem_append.1 h2 with e1 | e1
      · exact List.mem_cons_of_mem _ e1
      · have : t = s.current := by simpa using e1
        rw [this]; simp
    · rintro ⟨t, ht, hh⟩
      have hfile := Table.hasFile_of_has t kp x hh
      have h1 : t ∈ s.files := by
        unfold Col.files
        rw [List.mem_filter]
        refine ⟨?_, hfile⟩
        simp only [Col.tables] at ht
        rcases List.mem_cons.1 ht with e1 | e1
        · rw [e1]; simp
        · exact List.mem_append_left _ e1
      rw [hf] at h1
      refine ⟨t, ?_, hh⟩
      simp only [Col.tables]
      rcases List.mem_append.1 h1 with e1 | e1
      · exact List.mem_cons_of_mem _ e1
      · have : t = last := by simpa using e1
        rw [this]; simp

theorem triggerReindex_abs {s : Col} {m : Key → Option Val} (hA : AbsN s m) :
    AbsN (triggerReindex s) m := by
  refine hA.frame (fun _ => rfl) (fun kp x _ => ⟨?_, ?_⟩)
  · rintro ⟨t, ht, hh⟩
    simp only [Col.tables, triggerReindex] at ht
    rcases List.mem_cons.1 ht with h1 | h1
    · rw [h1] at hh; exact absurd hh (Table.not_has_new _ _ _)
    · refine ⟨t, ?_, hh⟩
      rcases List.mem_append.1 h1 with h2 | h2
      · simp [Col.tables, h2]
      · have : t = s.current := by simpa using h2
        simp [Col.tables, this]
  · rintro ⟨t, ht, hh⟩
    refine ⟨t, ?_, hh⟩
    simp only [Col.tables, triggerReindex]
    simp only [Col.tables] at ht
    rcases List.mem_cons.1 ht with h1 | h1
    · rw [h1]; exact List.mem_cons_of_mem _ (List.mem_append_right _ (by simp))
    · exact List.mem_cons_of_mem _ (List.mem_append_left _ h1)

/-! ## `write`, histories without an enacted `DropTable` -/

theorem Abs.del_absent_N {s : Col} {m : Key → Option Val} (hS : Shape s) (hA : AbsN s m) (k : Key)
    (hk : KeyWF k) (hnone : searchAll s k = none) : AbsN s (upd m k none) := by
  have hm : m k = none := by
    cases hmk : m k with
    | none => rfl
    | some v =>
      obtain ⟨a, ha, t, ht, hh⟩ := (hA.abs k hk v).1 hmk
      have h1 := searchAll_none s k hnone t ht
      have h2 := searchTable_complete s t k a (hS.wf t ht) hh ((tailAt_eq_some s a k.tail).2 ⟨v, ha⟩)
      rw [h1] at h2; cases h2
  have : upd m k none = m := by
    funext k'
    unfold upd
    by_cases h : k' = k
    · subst h; simp [hm]
    · simp [h]
  rw [this]; exact hA

theorem write_abs {s s' : Col} {m : Key → Option Val} (hS : Shape s) (hSl : SlotInv s)
    (hN : NoStale s) (hA : AbsN s m)
    (hex : s.cfg.exact = true) (hgrow : s.cfg.growOnMove = true) (hpu : s.cfg.purge = true)
    (k : Key) (hk : KeyWF k) (op : Option (Nat × Nat × Val))
    (hop : ∀ t e v, op = some (t, e, v) → t < 256)
    (h : write s k op = .ok s') (hB : Bounded s') : AbsN s' (upd m k (op.map (·.2.2))) := by
  have hN' := (write_ns hS hSl hN hex hgrow hpu k hk op hop h hB).2.2
  unfold write at h
  cases hs : searchAll s k with
  | none =>
    rw [hs] at h
    simp only at h
    cases op with
    | none =>
      simp only at h
      injection h with h
      subst h
      exact Abs.del_absent_N hS hA k hk hs
    | some tv =>
      obtain ⟨tier, ext, v⟩ := tv
      simp only at h
      exact writeNew_abs hS hSl hN hA k hk tier ext v (hop tier ext v rfl) hs h hB
  | some r =>
    obtain ⟨j, i, a⟩ := r
    rw [hs] at h
    simp only at h
    obtain ⟨tj, hF⟩ := found_of_search_shape hS k j i a hs
    cases op with
    | none => exact write_remove_abs hS hN hA hex k hk j i a tj hF hN' h
    | some tv =>
      obtain ⟨tier', ext, v⟩ := tv
      by_cases hti : Address.size_tier a = tier'
      · rw [writeExisting_inplace _ _ _ _ _ _ _ _ hti] at h
        have : writeExisting0 s k (some (tier', ext, v)) j i a =
            .ok ((s.setVal a (some ⟨k.tail, v⟩) s.nLive).resize (Address.size_tier a)
              (Address.offset a) ext) := by
          unfold writeExisting0
          simp only [hti, if_true]
        rw [this] at h
        injection h with h
        subst h
        exact write_inplace_abs hA hex k hk j i a tj hF ext v
      · exact write_move_abs hS hSl hN hA hex hgrow k hk j i a tj hF hs tier' ext v
          (hop tier' ext v rfl) hti hN' h hB

/-- no `DropTable` is enacted in the history -/
def NoEnact (a : Action) : Prop := a ≠ .enact

theorem stepA_abs {s s' : Col} {m : Key → Option Val} (hG : GoodN s) (hc : FixedCfg s)
    (hA : AbsN s m) (a : Action) (ha : ActWF a) (hne : NoEnact a) (h : stepA s a = .ok s')
    (hB : Bounded s') : AbsN s' (specStep m a) := by
  obtain ⟨hS, hSl, hN⟩ := hG
  obtain ⟨hex, hgrow, hpu⟩ := hc
  cases a with
  | set k tier ext v =>
    exact write_abs hS hSl hN hA hex hgrow hpu k ha.1 (some (tier, ext, v))
      (fun t e' v' e => by injection e with e; injection e with e1 _; rw [← e1]; exact ha.2) h hB
  | del k => exact write_abs hS hSl hN hA hex hgrow hpu k ha none (fun t e' v' e => by cases e) h hB
  | reindex => exact reindexBatch_abs hS hN hA h hB
  | enact => exact absurd rfl hne
  | reopen =>
    simp only [stepA] at h
    injection h with h; subst h
    exact reopen_abs hS hA
  | relaunch =>
    simp only [stepA] at h
    injection h with h; subst h
    exact triggerReindex_abs hA

theorem runA_abs : ∀ (acts : List Action) (s s' : Col) (m : Key → Option Val), GoodN s →
    FixedCfg s → AbsN s m → (∀ a ∈ acts, ActWF a ∧ NoEnact a) → AllBounded s acts →
    runA s acts = .ok s' → AbsN s' (spec m acts) := by
  intro acts
  induction acts with
  | nil =>
    intro s s' m _ _ hA _ _ h
    simp only [runA] at h
    injection h with h; subst h
    exact hA
  | cons a as ih =>
    intro s s' m hG hc hA hact hb h
    simp only [runA] at h
    obtain ⟨s1, h1, h2⟩ := Res.bind_ok h
    obtain ⟨hB1, hb1⟩ := hb s1 h1
    have ha := hact a (by simp)
    exact ih s1 s' _ (stepA_ns hG hc a ha.1 h1 hB1) (hc.step a h1)
      (stepA_abs hG hc hA a ha.1 ha.2 h1 hB1)
      (fun a' ha' => hact a' (List.mem_cons_of_mem _ ha')) hb1 h2

end Pdb.Index
