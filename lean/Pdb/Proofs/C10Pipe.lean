/-
C10: the commit pipeline of the multitree model refines the atomic operations.

  applyPending / drainHeap   what process_commits will do with the queued commits
  Sim s H                    the pipeline state `s` and the atomic heap `H` (all accepted
                             operations executed in commit order) agree once `s` is drained,
                             and the commit overlay of `s` shows the roots of `H`
-/
import Pdb.Proofs.C10Read

namespace Pdb.MultiTree
set_option linter.unusedSectionVars false
variable {K D : Type} [DecidableEq K]

def withNext (m : Addr) (h : Heap K D) : Heap K D := { h with next := m }

/-- everything except the address counter -/
def core (h : Heap K D) : FMap Addr (Node D) × FMap Addr Nat × FMap K (Node D × Nat) :=
  (h.nodes, h.rc, h.roots)

@[simp] theorem core_withNext (m : Addr) (h : Heap K D) : core (withNext m h) = core h := rfl

theorem eq_withNext_of_core (h h' : Heap K D) (e : core h = core h') : h' = withNext h'.next h := by
  cases h; cases h'
  simp only [core, Prod.mk.injEq] at e
  obtain ⟨e1, e2, e3⟩ := e
  subst e1 e2 e3
  rfl

mutual
  /-- number of NEW nodes of a reference -/
  def NRef.size : NRef D → Nat
    | .new _ cs => cs.size + 1
    | .existing _ => 0
  def NRefs.size : NRefs D → Nat
    | .nil => 0
    | .cons r rs => r.size + rs.size
end

/-! ### facts about `insRef` that need no invariant -/

mutual
  theorem insRef_basic (ap : Bool) : ∀ (r : NRef D) (h : Heap K D) (n m : Addr),
      (insRef ap h n r).2.1 = n + r.size ∧
      (insRef ap h n r).1.roots = h.roots ∧
      (insRef ap h n r).1.next = h.next ∧
      insRef ap (withNext m h) n r =
        (withNext m (insRef ap h n r).1, (insRef ap h n r).2.1, (insRef ap h n r).2.2)
    | .existing a, h, n, m => by
      cases ap <;> simp [insRef, NRef.size, incRef, withNext]
    | .new d cs, h, n, m => by
      have ih := insRefs_basic ap cs h n m
      rcases hR : insRefs ap h n cs with ⟨h1, n1, as⟩
      simp only [hR] at ih
      obtain ⟨i1, i2, i3, i4⟩ := ih
      simp only [insRef, hR, i4, NRef.size]
      refine ⟨by omega, i2, i3, ?_⟩
      simp [withNext]
  theorem insRefs_basic (ap : Bool) : ∀ (rs : NRefs D) (h : Heap K D) (n m : Addr),
      (insRefs ap h n rs).2.1 = n + rs.size ∧
      (insRefs ap h n rs).1.roots = h.roots ∧
      (insRefs ap h n rs).1.next = h.next ∧
      insRefs ap (withNext m h) n rs =
        (withNext m (insRefs ap h n rs).1, (insRefs ap h n rs).2.1, (insRefs ap h n rs).2.2)
    | .nil, h, n, m => by simp [insRefs, NRefs.size]
    | .cons r rs, h, n, m => by
      have ih1 := insRef_basic ap r h n m
      rcases hR1 : insRef ap h n r with ⟨h1, n1, a⟩
      simp only [hR1] at ih1
      obtain ⟨a1, a2, a3, a4⟩ := ih1
      have ih2 := insRefs_basic ap rs h1 n1 m
      rcases hR2 : insRefs ap h1 n1 rs with ⟨h2, n2, as⟩
      simp only [hR2] at ih2
      obtain ⟨b1, b2, b3, b4⟩ := ih2
      simp only [insRefs, hR1, hR2, a4, b4, NRefs.size]
      refine ⟨by omega, by rw [b2, a2], by rw [b3, a3], trivial⟩
end

mutual
  /-- counter and addresses do not depend on the heap or the variant -/
  theorem insRef_addrs (ap ap' : Bool) : ∀ (r : NRef D) (h h' : Heap K D) (n : Addr),
      (insRef ap h n r).2 = (insRef ap' h' n r).2
    | .existing a, h, h', n => by simp [insRef]
    | .new d cs, h, h', n => by
      have ih := insRefs_addrs ap ap' cs h h' n
      rcases hR : insRefs ap h n cs with ⟨h1, n1, as⟩
      rcases hR' : insRefs ap' h' n cs with ⟨h1', n1', as'⟩
      simp only [hR, hR', Prod.mk.injEq] at ih
      simp only [insRef, hR, hR', ih.1]
  theorem insRefs_addrs (ap ap' : Bool) : ∀ (rs : NRefs D) (h h' : Heap K D) (n : Addr),
      (insRefs ap h n rs).2 = (insRefs ap' h' n rs).2
    | .nil, h, h', n => by simp [insRefs]
    | .cons r rs, h, h', n => by
      have ih1 := insRef_addrs ap ap' r h h' n
      rcases hR1 : insRef ap h n r with ⟨h1, n1, a⟩
      rcases hR1' : insRef ap' h' n r with ⟨h1', n1', a'⟩
      simp only [hR1, hR1', Prod.mk.injEq] at ih1
      obtain ⟨e1, e2⟩ := ih1
      subst e1 e2
      have ih2 := insRefs_addrs ap ap' rs h1 h1' n1
      rcases hR2 : insRefs ap h1 n1 rs with ⟨h2, n2, as⟩
      rcases hR2' : insRefs ap' h1' n1 rs with ⟨h2', n2', as'⟩
      simp only [hR2, hR2', Prod.mk.injEq] at ih2
      simp only [insRefs, hR1, hR1', hR2, hR2', ih2.1, ih2.2]
end

/-! ### facts about the walk that need no invariant -/

theorem decRef_withNext (h : Heap K D) (a m : Addr) :
    decRef (withNext m h) a = ((decRef h a).1, withNext m (decRef h a).2) := by
  simp only [decRef, withNext]
  cases h.rc.get a <;> rfl

theorem decRef_roots_next (h : Heap K D) (a : Addr) :
    (decRef h a).2.roots = h.roots ∧ (decRef h a).2.next = h.next := by
  simp only [decRef]
  cases h.rc.get a <;> exact ⟨rfl, rfl⟩

theorem derefChildren_withNext : ∀ (fuel : Nat) (cs : List Addr) (h : Heap K D) (m : Addr),
    derefChildren fuel (withNext m h) cs = (derefChildren fuel h cs).map (withNext m)
  | 0, _, _, _ => rfl
  | fuel + 1, cs, h, m => by
    simp only [derefChildren]
    induction cs generalizing h with
    | nil => rfl
    | cons a rest ih =>
      simp only [List.foldlM_cons]
      have hstep : derefStep (derefChildren fuel) (withNext m h) a =
          (derefStep (derefChildren fuel) h a).map (withNext m) := by
        simp only [derefStep, decRef_withNext]
        have hn : (withNext m h).nodes = h.nodes := rfl
        rw [hn]
        rcases hd : decRef h a with ⟨b, h1⟩
        cases b with
        | true => rfl
        | false =>
          simp only
          cases (h.nodes.get a).map (·.children) with
          | none => rfl
          | some kids => exact derefChildren_withNext fuel kids h1 m
      rw [hstep]
      cases hs : derefStep (derefChildren fuel) h a with
      | error e => rfl
      | ok h2 =>
        simp only [Except.map, bind, Except.bind]
        exact ih h2

theorem derefChildren_roots_next : ∀ (fuel : Nat) (cs : List Addr) (h h' : Heap K D),
    derefChildren fuel h cs = .ok h' → h'.roots = h.roots ∧ h'.next = h.next
  | 0, _, _, _, e => by simp [derefChildren] at e
  | fuel + 1, cs, h, h', e => by
    simp only [derefChildren] at e
    induction cs generalizing h with
    | nil =>
      simp only [List.foldlM_nil, pure, Except.pure, Except.ok.injEq] at e
      subst e; exact ⟨rfl, rfl⟩
    | cons a rest ih =>
      simp only [List.foldlM_cons] at e
      cases hs : derefStep (derefChildren fuel) h a with
      | error er => rw [hs] at e; cases e
      | ok h2 =>
        rw [hs] at e
        have h2e := ih h2 e
        have hstep : h2.roots = h.roots ∧ h2.next = h.next := by
          simp only [derefStep] at hs
          have hd := decRef_roots_next h a
          rcases hdd : decRef h a with ⟨b, h1⟩
          rw [hdd] at hs hd
          cases b with
          | true =>
            simp only [Except.ok.injEq] at hs
            subst hs; exact hd
          | false =>
            simp only at hs
            cases hk : (h.nodes.get a).map (·.children) with
            | none => rw [hk] at hs; cases hs
            | some kids =>
              rw [hk] at hs
              have := derefChildren_roots_next fuel kids h1 h2 hs
              exact ⟨by rw [this.1, hd.1], by rw [this.2, hd.2]⟩
        exact ⟨by rw [h2e.1, hstep.1], by rw [h2e.2, hstep.2]⟩

/-! ### what processing a queued commit does -/

def applyPending (v : Variant) (h : Heap K D) : Pending K D → Heap K D
  | .insert k t n0 _ _ => insertTreeAt v h n0 k t
  | .ref k => okOr h (referenceTree v h k)
  | .deref k cs => okOr h (derefProcess v h k cs)

def drainHeap (v : Variant) (h : Heap K D) (q : List (Pending K D)) : Heap K D :=
  q.foldl (applyPending v) h

theorem insertTreeAt_withNext (v : Variant) (h : Heap K D) (n0 m : Addr) (k : K) (t : NewNode D) :
    insertTreeAt v (withNext m h) n0 k t =
      withNext (max m (n0 + t.children.size)) (insertTreeAt v h n0 k t) := by
  have b := insRefs_basic (decide (v = .appendOnly)) t.children h n0 m
  rcases hR : insRefs (decide (v = .appendOnly)) h n0 t.children with ⟨h1, n1, as⟩
  simp only [hR] at b
  obtain ⟨b1, b2, b3, b4⟩ := b
  simp only [insertTreeAt, b4, hR]
  subst b1
  have hr : (withNext m h1).roots = h1.roots := rfl
  simp only [hr]
  simp [withNext]

theorem insertTreeAt_next (v : Variant) (h : Heap K D) (n0 : Addr) (k : K) (t : NewNode D) :
    (insertTreeAt v h n0 k t).next = max h.next (n0 + t.children.size) := by
  have b := insRefs_basic (decide (v = .appendOnly)) t.children h n0 0
  rcases hR : insRefs (decide (v = .appendOnly)) h n0 t.children with ⟨h1, n1, as⟩
  simp only [hR] at b
  simp only [insertTreeAt, hR, b.1, b.2.2.1]

theorem insertTreeAt_roots (v : Variant) (h : Heap K D) (n0 : Addr) (k k' : K) (t : NewNode D) :
    (insertTreeAt v h n0 k t).roots.get k' =
      if k' = k then
        some (rootEntry v (h.roots.get k)
          ⟨t.data, (insRefs (decide (v = .appendOnly)) h n0 t.children).2.2⟩)
      else h.roots.get k' := by
  have b := insRefs_basic (decide (v = .appendOnly)) t.children h n0 0
  rcases hR : insRefs (decide (v = .appendOnly)) h n0 t.children with ⟨h1, n1, as⟩
  simp only [hR] at b
  simp only [insertTreeAt, hR, FMap.get_set, b.2.1]

theorem referenceTree_withNext (v : Variant) (h : Heap K D) (m : Addr) (k : K) :
    referenceTree v (withNext m h) k = (referenceTree v h k).map (withNext m) := by
  cases v with
  | appendOnly => rfl
  | plain => rfl
  | rcRoots =>
    simp only [referenceTree]
    have hr : (withNext m h).roots = h.roots := rfl
    rw [hr]
    cases h.roots.get k with
    | none => rfl
    | some e => rfl

theorem derefProcess_withNext (v : Variant) (h : Heap K D) (m : Addr) (k : K) (cs : List Addr) :
    derefProcess v (withNext m h) k cs = (derefProcess v h k cs).map (withNext m) := by
  simp only [derefProcess]
  have hr : (withNext m h).roots = h.roots := rfl
  rw [hr]
  cases hg : h.roots.get k with
  | none => rfl
  | some e =>
    obtain ⟨r, c⟩ := e
    simp only
    split
    · rfl
    · exact derefChildren_withNext _ cs { h with roots := h.roots.set k none } m

theorem applyPending_withNext (v : Variant) (h : Heap K D) (m : Addr) (p : Pending K D) :
    ∃ m', applyPending v (withNext m h) p = withNext m' (applyPending v h p) := by
  cases p with
  | insert k t n0 root ov => exact ⟨_, insertTreeAt_withNext v h n0 m k t⟩
  | ref k =>
    simp only [applyPending, referenceTree_withNext]
    cases referenceTree v h k with
    | ok h' => exact ⟨m, rfl⟩
    | error e => exact ⟨m, rfl⟩
  | deref k cs =>
    simp only [applyPending, derefProcess_withNext]
    cases derefProcess v h k cs with
    | ok h' => exact ⟨m, rfl⟩
    | error e => exact ⟨m, rfl⟩

theorem drainHeap_withNext (v : Variant) (q : List (Pending K D)) :
    ∀ (h : Heap K D) (m : Addr), ∃ m', drainHeap v (withNext m h) q = withNext m' (drainHeap v h q) := by
  induction q with
  | nil => intro h m; exact ⟨m, rfl⟩
  | cons p q ih =>
    intro h m
    obtain ⟨m1, e1⟩ := applyPending_withNext v h m p
    simp only [drainHeap, List.foldl_cons, e1]
    exact ih _ m1

theorem drainHeap_append (v : Variant) (h : Heap K D) (q : List (Pending K D)) (p : Pending K D) :
    drainHeap v h (q ++ [p]) = applyPending v (drainHeap v h q) p := by
  simp [drainHeap, List.foldl_append]

/-! ### the queue is well formed: every queued InsertTree finds its key free -/

def pendOk (h : Heap K D) : Pending K D → Prop
  | .insert k t n0 root ov =>
    h.roots.get k = none ∧
      root = ⟨t.data, (insRefs true (Heap.empty : Heap K D) n0 t.children).2.2⟩ ∧
      ov = (insRefs true (Heap.empty : Heap K D) n0 t.children).1.nodes
  | _ => True

def QueueOk (v : Variant) : Heap K D → List (Pending K D) → Prop
  | _, [] => True
  | h, p :: q => pendOk h p ∧ QueueOk v (applyPending v h p) q

def pendEnd : Pending K D → Addr
  | .insert _ t n0 _ _ => n0 + t.children.size
  | _ => 0

theorem pendOk_withNext (h : Heap K D) (m : Addr) (p : Pending K D) (hp : pendOk h p) :
    pendOk (withNext m h) p := by
  cases p <;> exact hp

theorem QueueOk_withNext (v : Variant) (q : List (Pending K D)) :
    ∀ (h : Heap K D) (m : Addr), QueueOk v h q → QueueOk v (withNext m h) q := by
  induction q with
  | nil => intro _ _ _; trivial
  | cons p q ih =>
    intro h m hq
    obtain ⟨m1, e1⟩ := applyPending_withNext v h m p
    refine ⟨pendOk_withNext h m p hq.1, ?_⟩
    rw [e1]
    exact ih _ m1 hq.2

theorem QueueOk_append (v : Variant) (q : List (Pending K D)) (p : Pending K D) :
    ∀ (h : Heap K D), QueueOk v h q → pendOk (drainHeap v h q) p → QueueOk v h (q ++ [p]) := by
  induction q with
  | nil => intro h _ hp; exact ⟨hp, trivial⟩
  | cons p0 q ih =>
    intro h hq hp
    exact ⟨hq.1, ih _ hq.2 hp⟩

theorem ovRoot_cons (p : Pending K D) (q : List (Pending K D)) (k : K) :
    ovRoot (p :: q) k = (ovRoot q k).or (pendRoot k p) := by
  simp only [ovRoot, List.reverse_cons, List.findSome?_append, List.findSome?_cons,
    List.findSome?_nil]
  cases pendRoot k p <;> simp

theorem ovRoot_append (q : List (Pending K D)) (p : Pending K D) (k : K) :
    ovRoot (q ++ [p]) k = (pendRoot k p).or (ovRoot q k) := by
  simp only [ovRoot, List.reverse_append, List.reverse_cons, List.reverse_nil, List.nil_append,
    List.singleton_append, List.findSome?_cons]
  cases pendRoot k p <;> simp

/-- the root entries processing a queued commit can produce -/
theorem applyPending_roots (v : Variant) (h : Heap K D) (p : Pending K D) (hp : pendOk h p) (k : K)
    (r : Node D) (c : Nat) (hg : (applyPending v h p).roots.get k = some (r, c)) :
    (pendRoot k p).or ((h.roots.get k).map Prod.fst) = some r := by
  cases p with
  | insert k' t n0 root ov =>
    simp only [applyPending, insertTreeAt_roots] at hg
    simp only [pendOk] at hp
    by_cases hk : k = k'
    · subst hk
      simp only [if_true, hp.1, Option.some.injEq] at hg
      have haddr := insRefs_addrs (decide (v = .appendOnly)) true t.children h
        (Heap.empty : Heap K D) n0
      have : r = root := by
        rw [hp.2.1, ← haddr]
        cases v <;> simp_all [rootEntry]
      simp [pendRoot, this]
    · have hk' : ¬ k' = k := fun e => hk e.symm
      simp only [hk, if_false] at hg
      simp [pendRoot, hk', hg]
  | ref k' =>
    simp only [applyPending] at hg
    simp only [pendRoot, Option.none_or]
    cases v with
    | appendOnly => simp only [referenceTree, okOr] at hg; simp [hg]
    | plain => simp only [referenceTree, okOr] at hg; simp [hg]
    | rcRoots =>
      simp only [referenceTree] at hg
      cases hr : h.roots.get k' with
      | none => simp only [hr, okOr] at hg; simp [hg]
      | some e =>
        obtain ⟨r0, c0⟩ := e
        simp only [hr, okOr, FMap.get_set] at hg
        by_cases hk : k = k'
        · subst hk
          simp only [if_true, Option.some.injEq, Prod.mk.injEq] at hg
          simp [hr, hg.1]
        · simp only [hk, if_false] at hg; simp [hg]
  | deref k' cs =>
    simp only [applyPending] at hg
    simp only [pendRoot, Option.none_or]
    cases hd : derefProcess v h k' cs with
    | error e => simp only [hd, okOr] at hg; simp [hg]
    | ok h' =>
      simp only [hd, okOr] at hg
      simp only [derefProcess] at hd
      cases hr : h.roots.get k' with
      | none =>
        simp only [hr, Except.ok.injEq] at hd
        subst hd; simp [hg]
      | some e =>
        obtain ⟨r0, c0⟩ := e
        simp only [hr] at hd
        split at hd
        · simp only [Except.ok.injEq] at hd
          subst hd
          simp only [FMap.get_set] at hg
          by_cases hk : k = k'
          · subst hk
            simp only [if_true, Option.some.injEq, Prod.mk.injEq] at hg
            simp [hr, hg.1]
          · simp only [hk, if_false] at hg; simp [hg]
        · have := (derefChildren_roots_next _ cs _ h' hd).1
          rw [this] at hg
          simp only [FMap.get_set] at hg
          by_cases hk : k = k'
          · simp [hk] at hg
          · simp only [hk, if_false] at hg; simp [hg]

/-- RootChar: a root of the drained heap is shown by the commit overlay (or the tables). -/
theorem drain_root_view (v : Variant) (q : List (Pending K D)) :
    ∀ (h : Heap K D), QueueOk v h q → ∀ (k : K) (r : Node D) (c : Nat),
      (drainHeap v h q).roots.get k = some (r, c) →
      (ovRoot q k).or ((h.roots.get k).map Prod.fst) = some r := by
  induction q with
  | nil =>
    intro h _ k r c hg
    simp only [drainHeap, List.foldl_nil] at hg
    simp [ovRoot, hg]
  | cons p q ih =>
    intro h hq k r c hg
    have := ih (applyPending v h p) hq.2 k r c hg
    rw [ovRoot_cons]
    cases ho : ovRoot q k with
    | some x => simp only [ho, Option.some_or] at this ⊢; exact this
    | none =>
      simp only [ho, Option.none_or] at this ⊢
      cases hr : (applyPending v h p).roots.get k with
      | none => simp [hr] at this
      | some e =>
        obtain ⟨r1, c1⟩ := e
        simp only [hr, Option.map_some, Option.some.injEq] at this
        subst this
        exact applyPending_roots v h p hq.1 k r1 c1 hr

end Pdb.MultiTree
