/-
C07 / C14 value iteration, part 4: from "the scan reports the live slots of the represented index
model state" (`column_scan`) and C09's invariants of that state (`Good`: every live slot belongs
to a key of the universe, one slot per key tail, the abstract map is the set of live slots) to
"the scan reports exactly the keys of the abstract map, each once, with value and count".
-/
import Pdb.Proofs.C07Iter3

namespace Pdb.ValueIter
open Pdb.Gen Pdb.ValueTable Pdb.Refine Pdb.RefineRc Pdb.Index

/-- the P1 cell coded by a value of the index model -/
def liftG (valF : Val → Bytes) (cntF : Val → Nat) (m : Key → Option Val) : Pdb.Tbl Key Bytes :=
  fun k => (m k).map (fun w => (valF w, cntF w))

theorem liftG_C (m : Key → Option Val) : liftG valOf cntOf m = liftC m := rfl
theorem liftG_B (m : Key → Option Val) : liftG decVal (fun _ => 1) m = liftB m := rfl

/-- a reported item belongs to a key of the universe, and the abstract map holds its cell -/
theorem reports_key {U : Key → Prop} {s : Col} {m : Key → Option Val} {valF : Val → Bytes}
    {cntF : Val → Nat} (hG : Good U s m)
    (ci : CItem) (h : Reports valF cntF s ci) :
    ∃ k, U k ∧ ci.tail = encTail k.tail ∧ liftG valF cntF m k = some (ci.value, ci.rc) := by
  obtain ⟨_, sl, hv, e1, e2, e3⟩ := h
  have ht : s.tailAt (ci.index * 256 + ci.tier) = some sl.tail := by
    simp only [Col.tailAt, hv, Option.map_some]
  obtain ⟨k, hk, hkt, _⟩ := hG.idx.reach _ _ ht
  refine ⟨k, hk, by rw [e1, hkt], ?_⟩
  have hm : m k = some sl.val := by
    rw [hG.abs k hk sl.val]
    exact ⟨ci.index * 256 + ci.tier, by rw [hv, hkt]⟩
  simp only [liftG, hm, Option.map_some, e2, e3]

theorem iter_of_good {cmp : Bytes → Bytes} {thr : Nat} {p : PCol} {s : Col}
    {valF : Val → Bytes} {cntF : Val → Nat}
    {U : Key → Prop} {m : Key → Option Val} (decomp : Bytes → Option Bytes)
    (hA : ∀ v, decomp (cmp v) = some v) (hU : PUniv U) (hS : VRep cmp thr valF cntF p s)
    (hG : Good U s m) :
    ∃ items, pScan decomp p = .ok items ∧
      (∀ k, U k → ∀ v n, (∃ ci ∈ items, ci.tail = encTail k.tail ∧ ci.value = v ∧ ci.rc = n) ↔
        liftG valF cntF m k = some (v, n)) ∧
      (∀ ci ∈ items, ∃ k, U k ∧ ci.tail = encTail k.tail ∧ liftG valF cntF m k = some (ci.value, ci.rc)) ∧
      (items.map (·.tail)).Nodup ∧ items.Pairwise Before := by
  obtain ⟨items, hscan, hmem, hord⟩ := column_scan decomp hA hS
  refine ⟨items, hscan, ?_, ?_, ?_, hord⟩
  · intro k hk v n
    constructor
    · rintro ⟨ci, hci, e1, e2, e3⟩
      obtain ⟨k', hk', e4, e5⟩ := reports_key hG ci ((hmem ci).mp hci)
      have : k.tail = k'.tail := encTail_inj _ _ (hU.tail_lt k hk) (hU.tail_lt k' hk') (e1.symm.trans e4)
      have : k = k' := hU.univ.atail k k' hk hk' this
      subst this
      rw [e5, e2, e3]
    · intro hl
      simp only [liftG] at hl
      cases hm : m k with
      | none => rw [hm] at hl; cases hl
      | some w =>
        rw [hm] at hl
        simp only [Option.map_some, Option.some.injEq, Prod.mk.injEq] at hl
        obtain ⟨a, ha⟩ := (hG.abs k hk w).mp hm
        have hta : s.tailAt a = some k.tail := by simp only [Col.tailAt, ha, Option.map_some]
        obtain ⟨tier, off, ht, h1, h2, e⟩ := hG.slots.addr a k.tail hta
        have hoff : off < 2 ^ 56 := by have := (hG.slots.filled tier ht).2; omega
        rw [address_new_eq off tier hoff ht] at e
        refine ⟨⟨tier, off, encTail k.tail, n, v⟩, (hmem _).mpr ⟨ht, ⟨k.tail, w⟩, ?_, rfl, ?_, ?_⟩, rfl, rfl, rfl⟩
        · show s.valAt (off * 256 + tier) = _
          rw [← e]; exact ha
        · exact hl.2.symm
        · exact hl.1.symm
  · intro ci hci
    exact reports_key hG ci ((hmem ci).mp hci)
  · rw [List.Nodup, List.pairwise_map]
    refine List.Pairwise.imp_of_mem ?_ hord
    intro x y hx hy hb heq
    obtain ⟨htx, slx, hvx, etx, _, _⟩ := (hmem x).mp hx
    obtain ⟨hty, sly, hvy, ety, _, _⟩ := (hmem y).mp hy
    have hax : s.tailAt (x.index * 256 + x.tier) = some slx.tail := by
      simp only [Col.tailAt, hvx, Option.map_some]
    have hay : s.tailAt (y.index * 256 + y.tier) = some sly.tail := by
      simp only [Col.tailAt, hvy, Option.map_some]
    obtain ⟨kx, hkx, ekx, _⟩ := hG.idx.reach _ _ hax
    obtain ⟨ky, hky, eky, _⟩ := hG.idx.reach _ _ hay
    have : slx.tail = sly.tail := by
      rw [← ekx, ← eky]
      apply encTail_inj _ _ (hU.tail_lt kx hkx) (hU.tail_lt ky hky)
      rw [ekx, eky, ← etx, ← ety]; exact heq
    rw [this] at hax
    have := hG.idx.inj _ _ _ hax hay
    rcases hb with hb | ⟨hb1, hb2⟩ <;> omega

/-! ## the state a history reaches -/

/-- ref-counted / preimage column (R5's simulation) -/
theorem iter_run_rc {kind : Pdb.Kind} {cmp : Bytes → Bytes} {thr : Nat} {U : Key → Prop}
    (decomp : Bytes → Option Bytes) (_hA : ∀ v, decomp (cmp v) = some v) (hkind : kind ≠ .plain)
    (hU : PUniv U) (cfg : Cfg) (b0 : Nat) (hex : cfg.exact = true) (hgrow : cfg.growOnMove = true)
    (hbits : 16 ≤ b0 ∧ b0 ≤ 49) (acts : List RAction) (p' : PCol)
    (hact : ∀ a ∈ acts, RActKeys U a) (hb : RAllBounded kind cmp thr (rInit kind cfg b0) acts)
    (hrun : rRun kind cmp thr (rInit kind cfg b0) acts = .ok p') :
    ∃ (s' : Col) (m' : Key → Option Val), VRep cmp thr valOf cntOf p' s' ∧ Good U s' m' ∧
      liftG valOf cntOf m' =
        Pdb.applyOps (fun _ => kind) (fun _ => none) (acts.flatMap RAction.ops) := by
  obtain ⟨s', m', h1, h2, h3⟩ := rsim_run hkind hU acts _ _ p' _ (rInit_sim kind cmp thr cfg b0)
    (Index.init_good U cfg b0 hbits.1 hbits.2) hex hgrow hact (rInit_pbounded kind cfg b0 hbits.2)
    hb hrun
  exact ⟨s', m', VSimR.toVRep h1.vs, h2, h3⟩

/-- plain column (R3's simulation): the table holds count 1 for every live key -/
theorem iter_run_plain {cmp : Bytes → Bytes} {thr : Nat} {U : Key → Prop}
    (decomp : Bytes → Option Bytes) (hA : ∀ v, decomp (cmp v) = some v)
    (hU : PUniv U) (cfg : Cfg) (b0 : Nat) (hex : cfg.exact = true) (hgrow : cfg.growOnMove = true)
    (hbits : 16 ≤ b0 ∧ b0 ≤ 49) (acts : List RAction) (p' : PCol)
    (hact : ∀ a ∈ acts, RActKeys U a) (hb : RAllBounded .plain cmp thr (rInit .plain cfg b0) acts)
    (hrun : rRun .plain cmp thr (rInit .plain cfg b0) acts = .ok p') :
    ∃ (s' : Col) (m' : Key → Option Val), VRep cmp thr decVal (fun _ => 1) p' s' ∧ Good U s' m' ∧
      ∀ k, U k → liftG decVal (fun _ => 1) m' k =
        Pdb.applyOps (fun _ => Pdb.Kind.plain) (fun _ => none) (acts.flatMap RAction.ops) k := by
  rw [init_eq] at hb hrun
  rw [rRun_plain] at hrun
  have hb' := rAllBounded_plain cmp thr acts _ hb
  have hk' := rKeys_plain acts hact
  have hG0 := init_good U cfg b0 hbits.1 hbits.2
  have hS0 := init_sim cmp thr cfg b0
  have hB0 := init_pbounded cfg b0 hbits.2
  obtain ⟨s', _, hS', hG'⟩ := sim_run hU _ _ _ p' _ hS0 hG0 hex hgrow hk' hB0 hb' hrun
  refine ⟨s', _, VSim.toVRep hS'.vs, hG', fun k hk => ?_⟩
  have habs := run_abs decomp hA hU _ _ _ p' _ hS0 hG0 hex hgrow hk' hB0 hb' hrun k hk
  have e0 : pAbs decomp (PCol.init cfg b0) k = none := by
    rw [pAbs_eq decomp hA hS0 hU hG0 k hk]; rfl
  rw [liftG_B, ← pAbs_eq decomp hA hS' hU hG' k hk, plain_ops,
    ← Refine.applyOps_congr_key _ _ _ _ k e0, ← habs]

end Pdb.ValueIter
