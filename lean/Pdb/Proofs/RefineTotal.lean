/-
R3, totality (progress): the BACKWARD direction of the simulation of Pdb/Proofs/Refine3.lean.

`sim_step` (Refine3) says: IF the physical step is `.ok` THEN it is the mirrored step of the index
model.  Here: IF the mirrored step of the index model is `.ok` and leaves the index model within
its physical limits (`Index.Bounded`) THEN the physical step is `.ok` - no `WrErr` of a value
table (`overwrite_chain` assert, corrupt free list, cyclic chain), no panic, no exhausted loop
fuel - and the result states are related by `Sim` again (`prog_step`).  With C09's totality
theorem (`Index.runA_total`: the index model's run is `.ok` and `AllBounded` from hypotheses on
the INPUT alone) this gives the totality of `pRun` (`prog_run`).

The only additional fact about a `set` that progress needs is that the number of parts of the
stored value is below 2^63 (`overwrite_chain` adds it to the fill mark in u64 arithmetic); it
follows from C09's `slots` hypothesis (`nSlots .. + 1 ≤ 2^(K+6)`, every `set` contributes its
number of parts), see `PSmall_of_slots`.
-/
import Pdb.Proofs.Refine3
import Pdb.Proofs.C09Total

namespace Pdb.Refine
open Pdb.Gen Pdb.Index Pdb.ValueTable

/-! ## index-only operations, backward -/

/-- backward `ixop_run`: an index-only operation that succeeds on the index model succeeds on the
index part of the physical column -/
theorem ixop_prog {p : PCol} {s s' : Col} (f : Col → Res)
    (hf : ∀ (s : Col) V T N, f (s.withVals V T N) = (f s).map (·.withVals V T N))
    (hix : p.ix = strip s) (hfs : f s = .ok s') :
    liftIx p (f p.ix) = .ok (p.withIx (strip s')) := by
  rw [hix]
  have e1 : f (strip s) = (f s).map strip := hf s _ _ _
  rw [e1, hfs]
  rfl

theorem sim_ixop_t {cmp thr p s s'} (f : Col → Res)
    (hf : ∀ (s : Col) V T N, f (s.withVals V T N) = (f s).map (·.withVals V T N))
    (hcfg : ∀ s s', f s = .ok s' → s'.cfg = s.cfg)
    (hS : Sim cmp thr p s) (hfs : f s = .ok s') :
    ∃ p', liftIx p (f p.ix) = .ok p' ∧ Sim cmp thr p' s' := by
  have h := ixop_prog f hf hS.ix hfs
  obtain ⟨s'', g1, g2⟩ := sim_ixop f hf hcfg hS h
  rw [hfs] at g1
  injection g1 with g1
  subst g1
  exact ⟨_, h, g2⟩

/-- an index-only operation leaves the allocator state of the value tables alone -/
theorem ix_tiers (f : Col → Res)
    (hf : ∀ (s : Col) V T N, f (s.withVals V T N) = (f s).map (·.withVals V T N)) {s s' : Col}
    (h : f s = .ok s') : s'.tiers = s.tiers := by
  have e2 : f s = (f (strip s)).map (·.withVals s.values s.tiers s.nLive) := by
    rw [← hf, withVals_self]
  rw [h] at e2
  obtain ⟨x, _, hx⟩ := Res.map_ok e2.symm
  rw [hx]; rfl

theorem tier_of_tiers {s s' : Col} (h : s'.tiers = s.tiers) (t : Nat) : s'.tier t = s.tier t := by
  simp only [Col.tier, h]

/-- the physical limits of the column follow from those of the index model it represents -/
theorem Sim.pbounded {cmp thr p s} (hS : Sim cmp thr p s) (hB : Bounded s) : PBounded p := by
  refine ⟨by rw [hS.current]; exact hB.bits, fun tier ht => ?_⟩
  obtain ⟨L, hr⟩ := hS.vs.rep tier ht
  have := hr.filled
  simp only [storeOf] at this
  rw [this]; exact hB.filled tier ht

/-! ## value-table operations: they succeed -/

/-- the bound `overwrite_chain` needs (`filled + parts` in u64), from the fill mark below 2^56 and
the number of parts below 2^63 -/
theorem write_bound_t {cmp thr p s} (h : VSim cmp thr p s) (k : Key) (v : Bytes)
    (hpre : (p.vt (tierFor cmp thr false (tkey k) v).2).filled ≤ 2 ^ 56)
    (hnp : extFor cmp thr k v < 2 ^ 62) :
    (p.vt (tierFor cmp thr false (tkey k) v).2).filled +
      numParts (p.vt (tierFor cmp thr false (tkey k) v).2) (tkey k)
        (tierFor cmp thr false (tkey k) v).1.1 ≤ 2 ^ 64 := by
  have ht := tier_lt cmp thr (tkey k) v
  have hnpe : numParts (p.vt (tierFor cmp thr false (tkey k) v).2) (tkey k)
      (tierFor cmp thr false (tkey k) v).1.1 =
      numParts (tableOfTier false (tierFor cmp thr false (tkey k) v).2) (tkey k)
        (tierFor cmp thr false (tkey k) v).1.1 :=
    numParts_cfg _ _ _ _ (h.cfgs _ ht)
  rw [hnpe]
  unfold extFor at hnp
  have hpos := @numParts_pos (tableOfTier false (tierFor cmp thr false (tkey k) v).2) (tkey k)
    (tierFor cmp thr false (tkey k) v).1.1
  omega

/-- `write_new_value_plan` on bytes succeeds and is `alloc` + `setVal` + `resize` of the index
model (`vsim_insert` without the hypothesis that the write succeeded) -/
theorem vsim_insert_t {cmp thr p s} (h : VSim cmp thr p s) (k : Key) (v : Bytes) (n : Nat)
    (hb : (p.vt (tierFor cmp thr false (tkey k) v).2).filled +
      numParts (p.vt (tierFor cmp thr false (tkey k) v).2) (tkey k)
        (tierFor cmp thr false (tkey k) v).1.1 ≤ 2 ^ 64)
    (hpostS : ((((s.alloc (tierFor cmp thr false (tkey k) v).2).2.tier
        (tierFor cmp thr false (tkey k) v).2).resize
        (s.alloc (tierFor cmp thr false (tkey k) v).2).1 (extFor cmp thr k v)).filled ≤ 2 ^ 56)) :
    ∃ r, writeChain (p.vt (tierFor cmp thr false (tkey k) v).2) (tkey k)
        (tierFor cmp thr false (tkey k) v).1.1 none (tierFor cmp thr false (tkey k) v).1.2 = .ok r ∧
      r.addr = (s.alloc (tierFor cmp thr false (tkey k) v).2).1 ∧
      VSim cmp thr (p.setVT (tierFor cmp thr false (tkey k) v).2 r.table)
        (((s.alloc (tierFor cmp thr false (tkey k) v).2).2.setVal
          (Address.new (s.alloc (tierFor cmp thr false (tkey k) v).2).1
            (tierFor cmp thr false (tkey k) v).2) (some ⟨k.tail, codeVal v⟩) n).resize
          (tierFor cmp thr false (tkey k) v).2 (s.alloc (tierFor cmp thr false (tkey k) v).2).1
          (extFor cmp thr k v)) := by
  have ht := tier_lt cmp thr (tkey k) v
  unfold extFor at hpostS ⊢
  generalize htf : tierFor cmp thr false (tkey k) v = tf at *
  obtain ⟨L, hr⟩ := h.rep tf.2 ht
  have hok : WriteOk (p.vt tf.2) (tkey k) tf.1.1 := by
    rw [← htf]
    exact C06_tier_writeOk cmp thr false (tkey k) v (tkey_ok k) _ (by rw [htf]; exact h.cfgs tf.2 ht)
  obtain ⟨r', h1, h2, h3, h4, h5⟩ := hr.insert (encTail k.tail) tf.1.1 tf.1.2 hok hb
  have hnp : numParts (p.vt tf.2) (TKey.partialKey (encTail k.tail)) tf.1.1 =
      numParts (tableOfTier false tf.2) (tkey k) tf.1.1 := numParts_cfg _ _ _ _ (h.cfgs tf.2 ht)
  rw [hnp] at h2 h3
  have hal := storeOf_alloc (cmp := cmp) (thr := thr) s tf.2
  have ha : r'.addr = (s.alloc tf.2).1 := by rw [h2]; exact hal.1
  refine ⟨r', h1, ha, ?_⟩
  have hfill : r'.table.filled ≤ 2 ^ 56 := by
    have e := h3.filled
    have e' : ((storeOf cmp thr s tf.2).insert (encTail k.tail, tf.1.1, tf.1.2)
        (numParts (tableOfTier false tf.2) (tkey k) tf.1.1 - 1)).2.tier =
        ((s.alloc tf.2).2.tier tf.2).resize (s.alloc tf.2).1
          (numParts (tableOfTier false tf.2) (tkey k) tf.1.1 - 1) := by
      show ((storeOf cmp thr s tf.2).alloc.2.tier).resize (storeOf cmp thr s tf.2).alloc.1 _ = _
      rw [hal.1, hal.2.1]
    rw [e'] at e
    rw [e]; exact hpostS
  have hra : r'.addr < 2 ^ 56 := by
    have hne := h3.ne_nil r'.chain (by simp)
    have := h3.inv.range r'.addr (List.mem_append_right _ (by
      rw [List.flatten_cons]
      exact List.mem_append_left _ (by rw [h5]; exact headD_mem _ hne)))
    omega
  have haddr : Address.new (s.alloc tf.2).1 tf.2 = r'.addr * 256 + tf.2 := by
    rw [← ha]; exact address_new_eq r'.addr tf.2 hra ht
  rw [haddr, ← ha]
  have hx : encSlot cmp thr ⟨k.tail, codeVal v⟩ = (encTail k.tail, tf.1.1, tf.1.2) := by
    simp only [encSlot, decVal_codeVal]
    rw [← htf]; rfl
  refine h.update tf.2 ht r'.table _ h4 ⟨r'.chain :: L, ?_⟩ (fun t htl hne => ?_)
  · have : storeOf cmp thr (((s.alloc tf.2).2.setVal (r'.addr * 256 + tf.2)
          (some ⟨k.tail, codeVal v⟩) n).resize tf.2 r'.addr
          (numParts (tableOfTier false tf.2) (tkey k) tf.1.1 - 1)) tf.2 =
          ((storeOf cmp thr s tf.2).insert (encTail k.tail, tf.1.1, tf.1.2)
            (numParts (tableOfTier false tf.2) (tkey k) tf.1.1 - 1)).2 := by
      apply storeOf_eq
      · intro off
        simp only [AStore.insert, AStore.setCell, AStore.resize, hal.2.2, resize_valAt,
          Col.valAt_setVal, alloc_valAt]
        rw [hal.1, ← ha]
        by_cases e : off = r'.addr
        · subst e; simp [hx]
        · have : ¬ r'.addr * 256 + tf.2 = off * 256 + tf.2 := by omega
          simp only [this, e, if_false]; rfl
      · simp only [AStore.insert, AStore.setCell, AStore.resize]
        rw [Col.tier_resize, if_pos rfl, hal.1, ← ha, hal.2.1]
        rfl
    rw [this]; exact h3
  · apply storeOf_eq
    · intro off
      have : ¬ r'.addr * 256 + tf.2 = off * 256 + t := by omega
      simp only [resize_valAt, Col.valAt_setVal, alloc_valAt, this, if_false]; rfl
    · rw [Col.tier_resize, if_neg (fun e => hne e.symm)]
      exact alloc_tier_other s tf.2 t hne

/-- `write_replace_plan` on bytes succeeds and is `setVal` + `resize` on the same address of the
index model (`vsim_replace` without the hypothesis that the write succeeded) -/
theorem vsim_replace_t {cmp thr p s} (h : VSim cmp thr p s) (k : Key) (v : Bytes) (n a : Nat)
    (old : Slot) (hv : s.valAt a = some old)
    (heq : Address.size_tier a = (tierFor cmp thr false (tkey k) v).2)
    (hb : (p.vt (tierFor cmp thr false (tkey k) v).2).filled +
      numParts (p.vt (tierFor cmp thr false (tkey k) v).2) (tkey k)
        (tierFor cmp thr false (tkey k) v).1.1 ≤ 2 ^ 64) :
    ∃ r, writeChain (p.vt (tierFor cmp thr false (tkey k) v).2) (tkey k)
        (tierFor cmp thr false (tkey k) v).1.1 (some (Address.offset a))
        (tierFor cmp thr false (tkey k) v).1.2 = .ok r ∧
    VSim cmp thr (p.setVT (tierFor cmp thr false (tkey k) v).2 r.table)
      ((s.setVal a (some ⟨k.tail, codeVal v⟩) n).resize (tierFor cmp thr false (tkey k) v).2
        (Address.offset a) (extFor cmp thr k v)) := by
  have ht := tier_lt cmp thr (tkey k) v
  unfold extFor
  generalize htf : tierFor cmp thr false (tkey k) v = tf at *
  obtain ⟨L, hr⟩ := h.rep tf.2 ht
  have hok : WriteOk (p.vt tf.2) (tkey k) tf.1.1 := by
    rw [← htf]
    exact C06_tier_writeOk cmp thr false (tkey k) v (tkey_ok k) _ (by rw [htf]; exact h.cfgs tf.2 ht)
  have hdec : a = Address.offset a * 256 + tf.2 := by rw [← heq]; exact addr_decomp a
  obtain ⟨c0, hc0, hhd⟩ : ∃ c0 ∈ L, c0.headD 0 = Address.offset a := by
    apply hr.live
    simp only [storeOf]
    rw [← hdec, hv]; rfl
  obtain ⟨r', h1, _, h3, h4⟩ := hr.replace c0 hc0 (encTail k.tail) tf.1.1 tf.1.2 hok hb
  rw [hhd] at h1 h3
  refine ⟨r', h1, ?_⟩
  have hnp : numParts (p.vt tf.2) (TKey.partialKey (encTail k.tail)) tf.1.1 =
      numParts (tableOfTier false tf.2) (tkey k) tf.1.1 := numParts_cfg _ _ _ _ (h.cfgs tf.2 ht)
  rw [hnp] at h3
  have hx : encSlot cmp thr ⟨k.tail, codeVal v⟩ = (encTail k.tail, tf.1.1, tf.1.2) := by
    simp only [encSlot, decVal_codeVal]
    rw [← htf]; rfl
  refine h.update tf.2 ht r'.table _ h4 ⟨r'.chain :: L.erase c0, ?_⟩ (fun t htl hne => ?_)
  · have : storeOf cmp thr ((s.setVal a (some ⟨k.tail, codeVal v⟩) n).resize tf.2 (Address.offset a)
          (numParts (tableOfTier false tf.2) (tkey k) tf.1.1 - 1)) tf.2 =
        (storeOf cmp thr s tf.2).replace (Address.offset a) (encTail k.tail, tf.1.1, tf.1.2)
          (numParts (tableOfTier false tf.2) (tkey k) tf.1.1 - 1) := by
      apply storeOf_eq
      · intro off
        simp only [AStore.replace, AStore.setCell, AStore.resize, resize_valAt, Col.valAt_setVal]
        by_cases e : off = Address.offset a
        · subst e; rw [if_pos hdec]; simp [hx]
        · have : ¬ a = off * 256 + tf.2 := by omega
          simp only [this, e, if_false]; rfl
      · simp only [AStore.replace, AStore.setCell, AStore.resize]
        rw [Col.tier_resize, if_pos rfl]
        rfl
    rw [this]; exact h3
  · apply storeOf_eq
    · intro off
      have : ¬ a = off * 256 + t := by omega
      simp only [resize_valAt, Col.valAt_setVal, this, if_false]; rfl
    · rw [Col.tier_resize, if_neg (fun e => hne e.symm)]
      rfl

/-! ## planned writes: they succeed -/

/-- `write_plan_new`, backward -/
theorem prog_writeNew {cmp thr p s s'} (hS : Sim cmp thr p s) (k : Key) (v : Bytes)
    (hB : PBounded p) (hnp : extFor cmp thr k v < 2 ^ 62)
    (hi : writeNew s k (tierFor cmp thr false (tkey k) v).2 (extFor cmp thr k v) (codeVal v) = .ok s')
    (hBs' : Bounded s') :
    ∃ p', pWriteNew p k (tierFor cmp thr false (tkey k) v) = .ok p' ∧ Sim cmp thr p' s' := by
  have ht := tier_lt cmp thr (tkey k) v
  have hb := write_bound_t hS.vs k v (hB.filled _ ht) hnp
  unfold writeNew at hi
  simp only at hi
  have hpostS : ((((s.alloc (tierFor cmp thr false (tkey k) v).2).2.tier
      (tierFor cmp thr false (tkey k) v).2).resize
      (s.alloc (tierFor cmp thr false (tkey k) v).2).1 (extFor cmp thr k v)).filled ≤ 2 ^ 56) := by
    have ht' := insertLoop_tiers _ _ _ _ _ hi
    have := hBs'.filled _ ht
    rw [tier_of_tiers ht', Col.tier_resize, if_pos rfl] at this
    exact this
  obtain ⟨r, hw, e2, e3⟩ := vsim_insert_t hS.vs k v
    ((s.alloc (tierFor cmp thr false (tkey k) v).2).2.nLive + 1) hb hpostS
  unfold pWriteNew pInsertVal
  rw [hw]
  simp only
  rw [e2]
  have hix : (p.setVT (tierFor cmp thr false (tkey k) v).2 r.table).ix =
      strip (((s.alloc (tierFor cmp thr false (tkey k) v).2).2.setVal
        (Address.new (s.alloc (tierFor cmp thr false (tkey k) v).2).1
          (tierFor cmp thr false (tkey k) v).2) (some ⟨k.tail, codeVal v⟩)
        ((s.alloc (tierFor cmp thr false (tkey k) v).2).2.nLive + 1)).resize
        (tierFor cmp thr false (tkey k) v).2 (s.alloc (tierFor cmp thr false (tkey k) v).2).1
        (extFor cmp thr k v)) := by
    rw [setVT_ix]
    show p.ix = strip (s.alloc (tierFor cmp thr false (tkey k) v).2).2
    rw [strip_alloc]; exact hS.ix
  exact sim_ixop_t
    (fun x => insertLoop x k.pre (Address.new (s.alloc (tierFor cmp thr false (tkey k) v).2).1
      (tierFor cmp thr false (tkey k) v).2) LOOP_FUEL)
    (fun x V T N => insertLoop_hf _ _ _ x V T N) (fun x x' hx => insertLoop_cfg _ _ _ x x' hx)
    (Sim.of_parts hix e3) hi

/-- `write_plan_existing` (without the purge), backward -/
theorem prog_writeExisting {cmp thr p s s'} {U : Key → Prop} (hS : Sim cmp thr p s)
    (hI : IdxInv U s) (k : Key) (j sub a : Nat) (hs : searchAll s k = some (j, sub, a))
    (op : Option Bytes) (hB : PBounded p)
    (hnp : ∀ v, op = some v → extFor cmp thr k v < 2 ^ 62)
    (hi : writeExisting0 s k
        (op.map (fun v => ((tierFor cmp thr false (tkey k) v).2, extFor cmp thr k v, codeVal v)))
        j sub a = .ok s') (hBs' : Bounded s') :
    ∃ p', pWriteExisting0 p k (op.map (fun v => tierFor cmp thr false (tkey k) v)) j sub a = .ok p' ∧
      Sim cmp thr p' s' := by
  obtain ⟨w, hw⟩ := found_val hI k j sub a hs
  have hta := size_tier_lt a
  cases op with
  | none =>
    simp only [Option.map_none] at hi ⊢
    unfold pWriteExisting0
    unfold writeExisting0 at hi
    simp only at hi ⊢
    obtain ⟨t', e1, _, e3⟩ := vsim_remove hS.vs (s.nLive - 1) a _ hw (hB.filled _ hta)
    rw [e1]
    simp only
    have hix : (p.setVT (Address.size_tier a) t').ix = strip (freed s a (s.nLive - 1)) := by
      rw [setVT_ix, strip_freed]; exact hS.ix
    have hfr : (s.release (Address.size_tier a) (Address.offset a)).setVal a none (s.nLive - 1) =
        freed s a (s.nLive - 1) := rfl
    rw [hfr] at hi
    have htab : (p.setVT (Address.size_tier a) t').ix.tableAt j = (freed s a (s.nLive - 1)).tableAt j := by
      rw [hix]; rfl
    rw [htab]
    cases hr : ((freed s a (s.nLive - 1)).tableAt j).remove k.pre sub with
    | none =>
      rw [hr] at hi
      simp only at hi ⊢
      injection hi with hi; subst hi
      exact ⟨_, rfl, hix, e3⟩
    | some t =>
      rw [hr] at hi
      simp only at hi ⊢
      injection hi with hi; subst hi
      refine ⟨_, rfl, ?_, e3.congr rfl (by cases j <;> rfl) (by cases j <;> rfl)⟩
      rw [hix]
      have : (strip (freed s a (s.nLive - 1))).setTableAt j t =
          strip ((freed s a (s.nLive - 1)).setTableAt j t) := by cases j <;> rfl
      rw [this]
      exact withIx_ix _ _ (by
        have hc : (p.setVT (Address.size_tier a) t').cfg = (freed s a (s.nLive - 1)).cfg :=
          congrArg Col.cfg hix
        rw [hc]; cases j <;> rfl)
  | some v =>
    have ht := tier_lt cmp thr (tkey k) v
    have hnpv := hnp v rfl
    simp only [Option.map_some] at hi ⊢
    unfold pWriteExisting0
    unfold writeExisting0 at hi
    simp only at hi ⊢
    by_cases heq : Address.size_tier a = (tierFor cmp thr false (tkey k) v).2
    · -- replace in place
      rw [if_pos heq] at hi
      rw [if_pos heq]
      have hb := write_bound_t hS.vs k v (hB.filled _ ht) hnpv
      obtain ⟨r, hwc, e3⟩ := vsim_replace_t hS.vs k v s.nLive a _ hw heq hb
      rw [hwc]
      simp only
      injection hi with hi; subst hi
      exact ⟨_, rfl, by rw [setVT_ix]; exact hS.ix, e3⟩
    · -- move to another tier
      rw [if_neg heq] at hi
      rw [if_neg heq]
      obtain ⟨t1, e1, e1f, e1v⟩ := vsim_remove hS.vs s.nLive a _ hw (hB.filled _ hta)
      rw [e1]
      simp only
      unfold pInsertVal
      have hvt1 : (p.setVT (Address.size_tier a) t1).vt (tierFor cmp thr false (tkey k) v).2 =
          p.vt (tierFor cmp thr false (tkey k) v).2 := by
        rw [setVT_vt, if_neg (fun e => heq e.symm)]
      have hpre : ((p.setVT (Address.size_tier a) t1).vt (tierFor cmp thr false (tkey k) v).2).filled
          ≤ 2 ^ 56 := by
        rw [hvt1]; exact hB.filled _ ht
      have hb := write_bound_t e1v k v hpre hnpv
      have hmv : moveValue s k a (tierFor cmp thr false (tkey k) v).2 (extFor cmp thr k v) (codeVal v) =
          (Address.new ((freed s a s.nLive).alloc (tierFor cmp thr false (tkey k) v).2).1
              (tierFor cmp thr false (tkey k) v).2,
            (((freed s a s.nLive).alloc (tierFor cmp thr false (tkey k) v).2).2.setVal
              (Address.new ((freed s a s.nLive).alloc (tierFor cmp thr false (tkey k) v).2).1
                (tierFor cmp thr false (tkey k) v).2) (some ⟨k.tail, codeVal v⟩)
              ((freed s a s.nLive).alloc (tierFor cmp thr false (tkey k) v).2).2.nLive).resize
              (tierFor cmp thr false (tkey k) v).2
              ((freed s a s.nLive).alloc (tierFor cmp thr false (tkey k) v).2).1
              (extFor cmp thr k v)) := rfl
      rw [hmv] at hi
      simp only at hi
      have hpostS : (((((freed s a s.nLive).alloc (tierFor cmp thr false (tkey k) v).2).2.tier
          (tierFor cmp thr false (tkey k) v).2).resize
          ((freed s a s.nLive).alloc (tierFor cmp thr false (tkey k) v).2).1
          (extFor cmp thr k v)).filled ≤ 2 ^ 56) := by
        have ht' := ix_tiers (moveIx s.cfg.growOnMove k.pre
          (Address.new ((freed s a s.nLive).alloc (tierFor cmp thr false (tkey k) v).2).1
            (tierFor cmp thr false (tkey k) v).2) (if j = 0 then some sub else none))
          (fun x V T N => moveIx_hf _ _ _ _ x V T N) hi
        have := hBs'.filled _ ht
        rw [tier_of_tiers ht', Col.tier_resize, if_pos rfl] at this
        exact this
      obtain ⟨r, hwc, e2a, e2v⟩ := vsim_insert_t e1v k v
        ((freed s a s.nLive).alloc (tierFor cmp thr false (tkey k) v).2).2.nLive hb hpostS
      rw [hwc]
      simp only
      rw [e2a]
      have hix : ((p.setVT (Address.size_tier a) t1).setVT (tierFor cmp thr false (tkey k) v).2
          r.table).ix = strip ((((freed s a s.nLive).alloc (tierFor cmp thr false (tkey k) v).2).2.setVal
              (Address.new ((freed s a s.nLive).alloc (tierFor cmp thr false (tkey k) v).2).1
                (tierFor cmp thr false (tkey k) v).2) (some ⟨k.tail, codeVal v⟩)
              ((freed s a s.nLive).alloc (tierFor cmp thr false (tkey k) v).2).2.nLive).resize
              (tierFor cmp thr false (tkey k) v).2
              ((freed s a s.nLive).alloc (tierFor cmp thr false (tkey k) v).2).1
              (extFor cmp thr k v)) := by
        rw [setVT_ix, setVT_ix]
        show p.ix = strip ((freed s a s.nLive).alloc (tierFor cmp thr false (tkey k) v).2).2
        rw [strip_alloc, strip_freed]; exact hS.ix
      have hg : p.cfg.growOnMove = s.cfg.growOnMove := by rw [hS.cfg]
      rw [hg]
      exact sim_ixop_t
        (moveIx s.cfg.growOnMove k.pre
          (Address.new ((freed s a s.nLive).alloc (tierFor cmp thr false (tkey k) v).2).1
            (tierFor cmp thr false (tkey k) v).2) (if j = 0 then some sub else none))
        (fun x V T N => moveIx_hf _ _ _ _ x V T N) (fun x x' hx => moveIx_cfg _ _ _ _ x x' hx)
        (Sim.of_parts hix e2v) hi

/-- `write_plan_existing` of the fixed code, backward -/
theorem prog_writeExisting' {cmp thr p s s'} {U : Key → Prop} (hS : Sim cmp thr p s)
    (hI : IdxInv U s) (k : Key) (j sub a : Nat) (hs : searchAll s k = some (j, sub, a))
    (op : Option Bytes) (hB : PBounded p)
    (hnp : ∀ v, op = some v → extFor cmp thr k v < 2 ^ 62)
    (hi : writeExisting s k
        (op.map (fun v => ((tierFor cmp thr false (tkey k) v).2, extFor cmp thr k v, codeVal v)))
        j sub a = .ok s') (hBs' : Bounded s') :
    ∃ p', pWriteExisting p k (op.map (fun v => tierFor cmp thr false (tkey k) v)) j sub a = .ok p' ∧
      Sim cmp thr p' s' := by
  have hfr : pFrees (op.map (fun v => tierFor cmp thr false (tkey k) v)) a =
      frees (op.map (fun v => ((tierFor cmp thr false (tkey k) v).2, extFor cmp thr k v, codeVal v))) a := by
    cases op <;> rfl
  unfold pWriteExisting
  rw [hfr]
  cases hf : frees (op.map (fun v => ((tierFor cmp thr false (tkey k) v).2, extFor cmp thr k v, codeVal v))) a
  · simp only [Bool.false_eq_true, if_false]
    rw [writeExisting_of_not_frees _ _ _ _ _ _ hf] at hi
    exact prog_writeExisting hS hI k j sub a hs op hB hnp hi hBs'
  · simp only [if_true]
    rw [writeExisting_of_frees _ _ _ _ _ _ hf] at hi
    obtain ⟨s0, h0, hs0⟩ := Res.map_ok hi
    have hBs0 : Bounded s0 := by
      subst hs0
      refine ⟨?_, fun t ht => ?_⟩
      · have := hBs'.bits; rwa [purgeOlder_current] at this
      · have := hBs'.filled t ht
        rwa [tier_of_tiers (purgeOlder_tiers s0 k.pre a)] at this
    obtain ⟨p0, g1, g2⟩ := prog_writeExisting hS hI k j sub a hs op hB hnp h0 hBs0
    rw [g1]
    subst hs0
    exact ⟨_, rfl, sim_purgeOlder g2 _ _⟩

theorem prog_write {cmp thr p s s'} {U : Key → Prop} {m : Key → Option Val}
    (hS : Sim cmp thr p s) (hU : PUniv U) (hG : Good U s m) (k : Key) (hk : U k) (op : Option Bytes)
    (hB : PBounded p) (hnp : ∀ v, op = some v → extFor cmp thr k v < 2 ^ 62)
    (hi : write s k (op.map (fun v =>
        ((tierFor cmp thr false (tkey k) v).2, extFor cmp thr k v, codeVal v))) = .ok s')
    (hBs' : Bounded s') :
    ∃ p', pWrite cmp thr p k op = .ok p' ∧ Sim cmp thr p' s' := by
  unfold pWrite
  rw [pSearchAll_eq hS hU hG.idx k hk]
  unfold write at hi
  cases hs : searchAll s k with
  | none =>
    rw [hs] at hi
    simp only at hi ⊢
    cases op with
    | none =>
      simp only [Option.map_none] at hi ⊢
      injection hi with hi; subst hi; exact ⟨p, rfl, hS⟩
    | some v =>
      simp only [Option.map_some] at hi ⊢
      exact prog_writeNew hS k v hB (hnp v rfl) hi hBs'
  | some r =>
    obtain ⟨j, sub, a⟩ := r
    rw [hs] at hi
    simp only at hi ⊢
    exact prog_writeExisting' hS hG.idx k j sub a hs op hB hnp hi hBs'

/-! ## steps and runs -/

/-- the number of parts of the value of a `set` is below 2^62 + 1 (a condition on the action) -/
def PSmall (cmp : Bytes → Bytes) (thr : Nat) : PAction → Prop
  | .set k v => extFor cmp thr k v < 2 ^ 62
  | _ => True

/-- PROGRESS: if the mirrored step of the index model succeeds, the step of the physical column
succeeds (no value-table error, no panic, no divergence) and is simulated by it. -/
theorem prog_step {cmp thr p s s'} {U : Key → Prop} {m : Key → Option Val}
    (hS : Sim cmp thr p s) (hU : PUniv U) (hG : Good U s m) (a : PAction)
    (ha : PActKeys U a) (hB : PBounded p) (hsm : PSmall cmp thr a)
    (hi : stepA s (mirror cmp thr a) = .ok s') (hBs' : Bounded s') :
    ∃ p', pStep cmp thr p a = .ok p' ∧ Sim cmp thr p' s' := by
  cases a with
  | set k v =>
    have hsm' : extFor cmp thr k v < 2 ^ 62 := hsm
    exact prog_write hS hU hG k ha (some v) hB
      (fun v' e => by cases e; exact hsm') hi hBs'
  | del k =>
    exact prog_write hS hU hG k ha none hB (fun v' e => by cases e) hi hBs'
  | reindex =>
    exact sim_ixop_t reindexBatch reindexBatch_withVals reindexBatch_cfg hS hi
  | enact =>
    exact sim_ixop_t (fun x => .ok (enactDrop x))
      (fun x V T N => by simp only [enactDrop_withVals]; rfl)
      (fun x x' hx => by injection hx with hx; subst hx; exact enactDrop_cfg x) hS hi
  | reopen =>
    exact sim_ixop_t (fun x => .ok (reopen x))
      (fun x V T N => by simp only [reopen_withVals]; rfl)
      (fun x x' hx => by injection hx with hx; subst hx; exact reopen_cfg x) hS hi
  | relaunch =>
    exact sim_ixop_t (fun x => .ok (triggerReindex x))
      (fun x V T N => rfl)
      (fun x x' hx => by injection hx with hx; subst hx; rfl) hS hi

/-- PROGRESS of runs: if the mirrored run of the index model succeeds within its physical limits,
the run of the physical column succeeds, within its physical limits, and ends in a state that
represents the final state of the index model. -/
theorem prog_run {cmp thr} {U : Key → Prop} (hU : PUniv U) : ∀ (acts : List PAction) (p : PCol)
    (s s' : Col) (m : Key → Option Val), Sim cmp thr p s → Good U s m →
    s.cfg.exact = true → s.cfg.growOnMove = true → (∀ a ∈ acts, PActKeys U a) →
    (∀ a ∈ acts, PSmall cmp thr a) → PBounded p →
    runA s (acts.map (mirror cmp thr)) = .ok s' → AllBounded s (acts.map (mirror cmp thr)) →
    ∃ p', pRun cmp thr p acts = .ok p' ∧ PAllBounded cmp thr p acts ∧ Sim cmp thr p' s' ∧
      Good U s' (Index.spec m (acts.map (mirror cmp thr))) := by
  intro acts
  induction acts with
  | nil =>
    intro p s s' m hS hG _ _ _ _ _ h _
    simp only [List.map_nil, runA] at h
    injection h with h; subst h
    exact ⟨p, rfl, trivial, hS, hG⟩
  | cons a as ih =>
    intro p s s' m hS hG hex hgrow hact hsm hB h hb
    simp only [List.map_cons, runA] at h
    cases h1 : stepA s (mirror cmp thr a) with
    | ok s1 =>
      rw [h1] at h
      simp only [Res.bind] at h
      have ha := hact a (by simp)
      obtain ⟨hBs1, hb1⟩ := hb s1 h1
      obtain ⟨p1, e1, hS1⟩ := prog_step hS hU hG a ha hB (hsm a (by simp)) h1 hBs1
      have hB1 := hS1.pbounded hBs1
      have hG1 := stepA_ok hU.univ hG hex hgrow (mirror cmp thr a) (mirror_ok a ha) h1 hBs1
      have hc := stepA_cfg s s1 _ h1
      obtain ⟨p', e2, hb2, hS', hG'⟩ := ih p1 s1 s' _ hS1 hG1 (by rw [hc]; exact hex)
        (by rw [hc]; exact hgrow) (fun a' ha' => hact a' (List.mem_cons_of_mem _ ha'))
        (fun a' ha' => hsm a' (List.mem_cons_of_mem _ ha')) hB1 h hb1
      refine ⟨p', ?_, ?_, hS', hG'⟩
      · simp only [pRun, e1, PRes.bind]
        exact e2
      · intro q hq
        rw [e1] at hq
        injection hq with hq
        subst hq
        exact ⟨hB1, hb2⟩
    | panic => rw [h1] at h; cases h
    | diverge => rw [h1] at h; cases h

/-! ## the size condition follows from C09's `slots` hypothesis -/

theorem slotCost_le_nSlots : ∀ (acts : List Index.Action) (a : Index.Action), a ∈ acts →
    slotCost a ≤ nSlots acts := by
  intro acts
  induction acts with
  | nil => intro a h; cases h
  | cons b bs ih =>
    intro a h
    simp only [nSlots]
    rcases List.mem_cons.mp h with e | e
    · subst e; omega
    · have := ih a e; omega

theorem PSmall_of_slots {cmp thr} (acts : List PAction) (K : Nat) (hK : K ≤ 49)
    (h : nSlots (acts.map (mirror cmp thr)) + 1 ≤ 2 ^ (K + 6)) :
    ∀ a ∈ acts, PSmall cmp thr a := by
  intro a ha
  cases a with
  | set k v =>
    have hm : mirror cmp thr (.set k v) ∈ acts.map (mirror cmp thr) := List.mem_map_of_mem ha
    have := slotCost_le_nSlots _ _ hm
    simp only [mirror, slotCost] at this
    show extFor cmp thr k v < 2 ^ 62
    have h2 : (2 : Nat) ^ (K + 6) ≤ 2 ^ 55 := Nat.pow_le_pow_right (by decide) (by omega)
    omega
  | del k => trivial
  | reindex => trivial
  | enact => trivial
  | reopen => trivial
  | relaunch => trivial

end Pdb.Refine
