/-
Lemmas for R7 (Pdb/Props/PhysRec.lean): records as location maps (`mapplys`), the physical column
as a memory (`mem`, `applyWrite`), the diff record of a transaction.
-/
import Pdb.Model.PhysRec
import Pdb.Proofs.C09Map
import Pdb.Proofs.C06Chain

namespace Pdb.PhysRec
open Pdb.Gen Pdb.Index Pdb.IndexPage Pdb.ValueTable Pdb.Refine

/-! ## records as location maps -/

theorem mapplys_nil (m : Mem) : mapplys m [] = m := rfl

theorem mapplys_cons (m : Mem) (w : Write) (ws : List Write) :
    mapplys m (w :: ws) = mapplys (mapply m w) ws := rfl

theorem mapplys_append (m : Mem) (a b : List Write) :
    mapplys m (a ++ b) = mapplys (mapplys m a) b := by
  simp [mapplys, List.foldl_append]

/-- `l` is written by some write of `ws` -/
def Written (ws : List Write) (l : Loc) : Prop := ∃ w ∈ ws, w.1 = l

/-- a location no write names keeps its content -/
theorem mapplys_not_written (ws : List Write) (m : Mem) (l : Loc) (h : ¬ Written ws l) :
    mapplys m ws l = m l := by
  induction ws generalizing m with
  | nil => rfl
  | cons w ws ih =>
    rw [mapplys_cons, ih]
    · have : w.1 ≠ l := fun e => h ⟨w, List.mem_cons_self, e⟩
      simp [mapply, Ne.symm this]
    · exact fun ⟨x, hx, e⟩ => h ⟨x, List.mem_cons_of_mem _ hx, e⟩

/-- the content of a written location does not depend on what was there (absolute after-images) -/
theorem mapplys_written (ws : List Write) (m m' : Mem) (l : Loc) (h : Written ws l) :
    mapplys m ws l = mapplys m' ws l := by
  induction ws generalizing m m' with
  | nil => obtain ⟨w, hw, _⟩ := h; cases hw
  | cons w ws ih =>
    rw [mapplys_cons, mapplys_cons]
    by_cases hr : Written ws l
    · exact ih _ _ hr
    · rw [mapplys_not_written ws _ l hr, mapplys_not_written ws _ l hr]
      obtain ⟨x, hx, e⟩ := h
      rcases List.mem_cons.1 hx with rfl | hx
      · simp [mapply, e]
      · exact absurd ⟨x, hx, e⟩ hr

/-- pointwise: the result at `l` depends on the memory only at `l` -/
theorem mapplys_congr (ws : List Write) (m m' : Mem) (l : Loc) (h : m l = m' l) :
    mapplys m ws l = mapplys m' ws l := by
  by_cases hw : Written ws l
  · exact mapplys_written ws m m' l hw
  · rw [mapplys_not_written ws m l hw, mapplys_not_written ws m' l hw, h]

theorem Written.append_left {a b : List Write} {l : Loc} (h : Written a l) : Written (a ++ b) l := by
  obtain ⟨w, hw, e⟩ := h; exact ⟨w, List.mem_append_left _ hw, e⟩

theorem Written.append_right {a b : List Write} {l : Loc} (h : Written b l) : Written (a ++ b) l := by
  obtain ⟨w, hw, e⟩ := h; exact ⟨w, List.mem_append_right _ hw, e⟩

theorem Written.of_take {a : List Write} {j : Nat} {l : Loc} (h : Written (a.take j) l) :
    Written a l := by
  obtain ⟨w, hw, e⟩ := h; exact ⟨w, List.mem_of_mem_take hw, e⟩

/-- TORN + REDO on memories: a crash after the first `j` writes of a record, then the whole record
again = the record once. -/
theorem redo_torn (m : Mem) (ws : List Write) (j : Nat) :
    mapplys (mapplys m (ws.take j)) ws = mapplys m ws := by
  funext l
  by_cases hw : Written ws l
  · exact mapplys_written ws _ _ l hw
  · apply mapplys_congr
    exact mapplys_not_written _ _ _ (fun h => hw h.of_take)

/-- REPLAY OF A SEQUENCE on memories.  `pre`: records enacted and no longer replayed; `mid`: records
enacted AND replayed again (the replay starts at or before the torn record); `r`: the record whose
enactment was torn after `j` writes; `post`: the records after it.  Replaying `mid ++ r :: post`
over the crash state gives the state of the record boundary after all of them. -/
theorem redo_seq (m : Mem) (pre mid post : List (List Write)) (r : List Write) (j : Nat) :
    mapplys (mapplys (mapplys m (pre ++ mid).flatten) (r.take j)) (mid ++ r :: post).flatten =
      mapplys m (pre ++ mid ++ r :: post).flatten := by
  funext l
  have e1 : (pre ++ mid ++ r :: post).flatten = pre.flatten ++ (mid ++ r :: post).flatten := by
    simp [List.append_assoc]
  have e2 : (mid ++ r :: post).flatten = mid.flatten ++ (r ++ post.flatten) := by simp
  rw [e1, mapplys_append]
  by_cases hw : Written (mid ++ r :: post).flatten l
  · exact mapplys_written _ _ _ l hw
  · apply mapplys_congr
    rw [e2] at hw
    have h1 : ¬ Written (r.take j) l := fun h => hw (Written.append_right (Written.append_left h.of_take))
    have h2 : ¬ Written mid.flatten l := fun h => hw (Written.append_left h)
    rw [mapplys_not_written _ _ _ h1, List.flatten_append, mapplys_append,
      mapplys_not_written _ _ _ h2]

/-! ## the diff record -/

theorem mapplys_diff (cs : List Loc) (m0 m' : Mem) (l : Loc) : ∀ m : Mem,
    mapplys m (diffWrites cs m0 m') l = if l ∈ cs ∧ m0 l ≠ m' l then m' l else m l := by
  induction cs with
  | nil => intro m; simp [diffWrites, mapplys]
  | cons c cs ih =>
    intro m
    by_cases hc : m0 c = m' c
    · have : diffWrites (c :: cs) m0 m' = diffWrites cs m0 m' := by
        simp [diffWrites, hc]
      rw [this, ih m]
      by_cases hlc : l = c
      · subst hlc; simp [hc]
      · simp [hlc]
    · have : diffWrites (c :: cs) m0 m' = (c, m' c) :: diffWrites cs m0 m' := by
        simp [diffWrites, hc]
      rw [this, mapplys_cons, ih (mapply m (c, m' c))]
      by_cases hlc : l = c
      · subst hlc; simp [mapply, hc]
      · simp [mapply, hlc]

/-- applying the diff record to the state before gives the state after on every candidate
location and leaves the others alone -/
theorem mapplys_diff_self (cs : List Loc) (m0 m' : Mem) (l : Loc) :
    mapplys m0 (diffWrites cs m0 m') l = if l ∈ cs then m' l else m0 l := by
  rw [mapplys_diff]
  by_cases h : l ∈ cs
  · by_cases h2 : m0 l = m' l
    · simp [h, h2]
    · simp [h, h2]
  · simp [h]

theorem mem_diffWrites {cs : List Loc} {m0 m' : Mem} {w : Write} (h : w ∈ diffWrites cs m0 m') :
    w.1 ∈ cs ∧ w.2 = m' w.1 := by
  simp only [diffWrites, List.mem_filterMap] at h
  obtain ⟨l, hl, hw⟩ := h
  split at hw
  · cases hw
  · cases hw; exact ⟨hl, rfl⟩


/-! ## canonicalisation: rewrites of unchanged content -/

/-- in a record that names every location at most once, a write determines the content -/
theorem mapplys_nodup (ws : List Write) (hnd : (ws.map (·.1)).Nodup) (m : Mem) (w : Write)
    (hw : w ∈ ws) : mapplys m ws w.1 = w.2 := by
  induction ws generalizing m with
  | nil => cases hw
  | cons x xs ih =>
    simp only [List.map_cons, List.nodup_cons] at hnd
    rw [mapplys_cons]
    rcases List.mem_cons.1 hw with rfl | hx
    · rw [mapplys_not_written xs _ _ (fun ⟨y, hy, e⟩ => hnd.1 (List.mem_map.2 ⟨y, hy, e⟩))]
      simp [mapply]
    · exact ih hnd.2 _ hx

/-- CANONICALISATION IS HARMLESS: in a record that names every location at most once (the crate's
records are maps keyed by the location), dropping the writes whose image equals the content the
location has before the record does not change what the record does to that memory. -/
theorem mapplys_dropNoops (m : Mem) (ws : List Write) (hnd : (ws.map (·.1)).Nodup) :
    mapplys m (dropNoops m ws) = mapplys m ws := by
  funext l
  have hndF : ((dropNoops m ws).map (·.1)).Nodup :=
    List.Nodup.sublist (List.Sublist.map _ List.filter_sublist) hnd
  by_cases hw : Written ws l
  · obtain ⟨w, hwm, rfl⟩ := hw
    rw [mapplys_nodup ws hnd m w hwm]
    by_cases hk : m w.1 = w.2
    · have : ¬ Written (dropNoops m ws) w.1 := by
        rintro ⟨y, hy, e⟩
        have hy' := List.mem_filter.1 hy
        have hyw : y = w := by
          -- same location in a record without repeated locations
          clear hndF
          induction ws with
          | nil => cases hwm
          | cons x xs ih =>
            simp only [List.map_cons, List.nodup_cons] at hnd
            rcases List.mem_cons.1 hwm with rfl | hwx <;> rcases List.mem_cons.1 hy'.1 with rfl | hyx
            · rfl
            · exact absurd (List.mem_map.2 ⟨y, hyx, e⟩) hnd.1
            · exact absurd (List.mem_map.2 ⟨w, hwx, e.symm⟩) hnd.1
            · exact ih hnd.2 hwx (List.mem_filter.2 ⟨hyx, hy'.2⟩) ⟨hyx, hy'.2⟩
        subst hyw
        simp [hk] at hy'
      rw [mapplys_not_written _ _ _ this, hk]
    · exact mapplys_nodup _ hndF m w (List.mem_filter.2 ⟨hwm, by simpa using hk⟩)
  · have : ¬ Written (dropNoops m ws) l := fun ⟨y, hy, e⟩ => hw ⟨y, (List.mem_filter.1 hy).1, e⟩
    rw [mapplys_not_written _ _ _ hw, mapplys_not_written _ _ _ this]

/-! ## the physical column as a memory -/

theorem entryAt_setEntry (pg : List Nat) (i e j : Nat) (hj : j < INDEX_CHUNK_ENTRIES) :
    entryAt (setEntry pg i e) j = if j = i then e else entryAt pg j := by
  simp [entryAt, setEntry, List.getD_eq_getElem?_getD, List.getElem?_map, List.getElem?_range hj]

theorem setPage_page (t : Table) (c : Nat) (pg : List Nat) (n c' : Nat) :
    (t.setPage c pg n).page c' = if c = c' then pg else t.page c' := by
  simp only [Table.page, Table.setPage, Trie.get_set]
  split <;> simp

theorem setPage_bits (t : Table) (c : Nat) (pg : List Nat) (n : Nat) :
    (t.setPage c pg n).bits = t.bits := rfl

theorem updTables_bits (ts : List Table) (b c i e : Nat) :
    (updTables ts b c i e).map (·.bits) = ts.map (·.bits) := by
  induction ts with
  | nil => rfl
  | cons t ts ih =>
    simp only [updTables]
    split
    · simp [setPage_bits]
    · simp [ih]

theorem tableByBits_upd (ts : List Table) (b c i e b' : Nat) :
    tableByBits (updTables ts b c i e) b' =
      if b' = b then (tableByBits ts b).map (fun t => t.setPage c (setEntry (t.page c) i e) t.count)
      else tableByBits ts b' := by
  induction ts with
  | nil => simp [updTables, tableByBits]
  | cons t ts ih =>
    simp only [updTables]
    by_cases ht : t.bits = b
    · simp only [ht, if_true, tableByBits, setPage_bits]
      by_cases hb : b' = b
      · subst hb; simp
      · have : ¬ b = b' := fun h => hb h.symm
        simp [hb, this]
    · simp only [ht, if_false, tableByBits, ih]
      by_cases hb : b' = b
      · subst hb; simp [ht]
      · simp only [hb, if_false]

theorem tableByBits_some_mem {ts : List Table} {b : Nat} {t : Table} (h : tableByBits ts b = some t) :
    b ∈ ts.map (·.bits) := by
  induction ts with
  | nil => cases h
  | cons x xs ih =>
    simp only [tableByBits] at h
    split at h
    · simp [*]
    · simp [ih h]

theorem tableByBits_of_mem {ts : List Table} {b : Nat} (h : b ∈ ts.map (·.bits)) :
    ∃ t, tableByBits ts b = some t := by
  induction ts with
  | nil => cases h
  | cons x xs ih =>
    simp only [tableByBits]
    by_cases hx : x.bits = b
    · exact ⟨x, by simp [hx]⟩
    · simp only [hx, if_false]
      apply ih
      simp only [List.map_cons, List.mem_cons] at h
      rcases h with h | h
      · exact absurd h.symm hx
      · exact h

theorem tables_setTables (p : PCol) (t : Table) (ts : List Table) :
    PCol.tables (PCol.setTables p (t :: ts)) = t :: ts := rfl

theorem vt_setTables (p : PCol) (ts : List Table) : (PCol.setTables p ts).vt = p.vt := by
  cases ts <;> rfl

theorem cfg_setTables (p : PCol) (ts : List Table) : (PCol.setTables p ts).cfg = p.cfg := by
  cases ts <;> rfl

theorem progress_setTables (p : PCol) (ts : List Table) :
    (PCol.setTables p ts).progress = p.progress := by
  cases ts <;> rfl

theorem updTables_ne_nil (t : Table) (ts : List Table) (b c i e : Nat) :
    ∃ t' ts', updTables (t :: ts) b c i e = t' :: ts' := by
  simp only [updTables]; split <;> exact ⟨_, _, rfl⟩

theorem tables_upd (p : PCol) (b c i e : Nat) :
    PCol.tables (PCol.setTables p (updTables (PCol.tables p) b c i e)) =
      updTables (PCol.tables p) b c i e := by
  obtain ⟨t', ts', h⟩ := updTables_ne_nil p.current p.older b c i e
  show PCol.tables (PCol.setTables p (updTables (p.current :: p.older) b c i e)) =
    updTables (p.current :: p.older) b c i e
  rw [h]; rfl

/-- what does not change when a write is applied -/
structure Static (p q : PCol) : Prop where
  cfg : q.cfg = p.cfg
  shape : shape q = shape p
  progress : q.progress = p.progress
  vtcfg : ∀ tier, (q.vt tier).entrySize = (p.vt tier).entrySize ∧
    (q.vt tier).multipart = (p.vt tier).multipart ∧ (q.vt tier).refCounted = (p.vt tier).refCounted

theorem Static.refl (p : PCol) : Static p p := ⟨rfl, rfl, rfl, fun _ => ⟨rfl, rfl, rfl⟩⟩

theorem Static.trans {p q r : PCol} (h1 : Static p q) (h2 : Static q r) : Static p r :=
  ⟨h2.cfg.trans h1.cfg, h2.shape.trans h1.shape, h2.progress.trans h1.progress,
    fun t => ⟨(h2.vtcfg t).1.trans (h1.vtcfg t).1, (h2.vtcfg t).2.1.trans (h1.vtcfg t).2.1,
      (h2.vtcfg t).2.2.trans (h1.vtcfg t).2.2⟩⟩

/-- ONE WRITE on the physical column is one update of the memory (for a write the enactment does
not skip), and nothing else changes. -/
theorem mem_applyWrite (p : PCol) (w : Write) (hw : Write.Ok (shape p) w) :
    (∀ l, Loc.Ok l → mem (applyWrite p w) l = mapply (mem p) w l) ∧ Static p (applyWrite p w) := by
  obtain ⟨wl, wi⟩ := w
  cases wl with
  | idx b c i =>
    obtain ⟨hb, hi, e, he⟩ := hw
    simp only at he hb hi
    subst he
    obtain ⟨t, ht⟩ := tableByBits_of_mem (ts := PCol.tables p) hb
    have hap : applyWrite p (Loc.idx b c i, [e]) =
        PCol.setTables p (updTables (PCol.tables p) b c i e) := by
      simp only [applyWrite, ht]
    rw [hap]
    refine ⟨?_, ?_⟩
    · intro l hl
      cases l with
      | idx b' c' i' =>
        simp only [mem, tables_upd, tableByBits_upd, mapply]
        by_cases hbb : b' = b
        · subst hbb
          simp only [if_true, ht, Option.map_some, setPage_page]
          by_cases hcc : c = c'
          · subst hcc
            simp only [if_true]
            rw [entryAt_setEntry _ _ _ _ hl]
            by_cases hii : i' = i
            · subst hii; simp
            · have : ¬ (Loc.idx b' c i' = Loc.idx b' c i) := by simp [hii]
              simp [hii, this]
          · have : ¬ (Loc.idx b' c' i' = Loc.idx b' c i) := by
              intro h; injection h with _ h2 _; exact hcc h2.symm
            simp [hcc, this]
        · have : ¬ (Loc.idx b' c' i' = Loc.idx b c i) := by
            intro h; injection h with h1 _ _; exact hbb h1
          simp [hbb, this]
      | val tier s => simp [mem, mapply, vt_setTables]
      | hdr tier => simp [mem, mapply, vt_setTables]
    · refine ⟨cfg_setTables _ _, ?_, progress_setTables _ _, fun tier => by rw [vt_setTables]; exact ⟨rfl, rfl, rfl⟩⟩
      simp only [shape, tables_upd, updTables_bits]
  | val tier s =>
    have hap : applyWrite p (Loc.val tier s, wi) = p.setVT tier ((p.vt tier).setSlot s wi) := by
      simp [applyWrite]
    rw [hap]
    refine ⟨?_, ⟨rfl, rfl, rfl, ?_⟩⟩
    · intro l _
      cases l with
      | idx b' c' i' => simp [mem, mapply, PCol.tables, PCol.setVT]
      | val t' s' =>
        simp only [mem, mapply, PCol.setVT]
        by_cases ht : t' = tier
        · subst ht
          by_cases hs : s' = s
          · subst hs; simp [VT.setSlot]
          · have : ¬ (Loc.val t' s' = Loc.val t' s) := by simp [hs]
            simp [VT.setSlot, hs, this]
        · have : ¬ (Loc.val t' s' = Loc.val tier s) := by
            intro h; injection h with h1 _; exact ht h1
          simp [ht, this]
      | hdr t' =>
        simp only [mem, mapply, PCol.setVT]
        by_cases ht : t' = tier
        · subst ht; simp [VT.setSlot]
        · simp [ht]
    · intro t'
      simp only [PCol.setVT]
      by_cases ht : t' = tier
      · subst ht; simp [VT.setSlot]
      · simp [ht]
  | hdr tier =>
    obtain ⟨lr, f, he⟩ := hw
    simp only at he
    subst he
    have hap : applyWrite p (Loc.hdr tier, [lr, f]) =
        p.setVT tier { (p.vt tier) with lastRemoved := lr, filled := f } := by
      simp [applyWrite]
    rw [hap]
    refine ⟨?_, ⟨rfl, rfl, rfl, ?_⟩⟩
    · intro l _
      cases l with
      | idx b' c' i' => simp [mem, mapply, PCol.tables, PCol.setVT]
      | val t' s' =>
        simp only [mem, mapply, PCol.setVT]
        by_cases ht : t' = tier
        · subst ht; simp
        · simp [ht]
      | hdr t' =>
        simp only [mem, mapply, PCol.setVT]
        by_cases ht : t' = tier
        · subst ht; simp
        · have : ¬ (Loc.hdr t' = Loc.hdr tier) := by
            intro h; injection h with h1; exact ht h1
          simp [ht, this]
    · intro t'
      simp only [PCol.setVT]
      by_cases ht : t' = tier
      · subst ht; simp
      · simp [ht]

/-- A LIST OF WRITES on the physical column = the same list on its memory. -/
theorem mem_applyWrites (ws : List Write) : ∀ (p : PCol), (∀ w ∈ ws, Write.Ok (shape p) w) →
    (∀ l, Loc.Ok l → mem (applyWrites p ws) l = mapplys (mem p) ws l) ∧
      Static p (applyWrites p ws) := by
  induction ws with
  | nil => intro p _; exact ⟨fun _ _ => rfl, Static.refl p⟩
  | cons w ws ih =>
    intro p hw
    have h1 := mem_applyWrite p w (hw w List.mem_cons_self)
    have h2 := ih (applyWrite p w) (fun x hx => by
      rw [h1.2.shape]; exact hw x (List.mem_cons_of_mem _ hx))
    refine ⟨fun l hl => ?_, h1.2.trans h2.2⟩
    show mem (applyWrites (applyWrite p w) ws) l = mapplys (mapply (mem p) w) ws l
    rw [h2.1 l hl]
    exact mapplys_congr ws _ _ l (h1.1 l hl)

theorem applyWrites_append (p : PCol) (a b : List Write) :
    applyWrites p (a ++ b) = applyWrites (applyWrites p a) b := by
  simp [applyWrites, List.foldl_append]

end Pdb.PhysRec
