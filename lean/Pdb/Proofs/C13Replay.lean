/-
C13 helper lemmas, part 4: a log file, all log files.

Specification vocabulary:
  * `ValidChain cfg last rs`  : `rs` are well-formed records (each in the configuration left by
    its predecessors) numbered `last+1, last+2, ...`
  * `NoValidNext crc cfg last tail` : `tail` does not begin with an encoded record that is
    well formed in `cfg` and numbered `last+1`
  * `StopsAt`  : why the model stopped reading a file at `tail`
  * `Explains` : the list of file reports is exactly what `Log::open` + `replay_all_logs` do
    to the ordered list of log files
-/
import Pdb.Proofs.C13ParseInv

namespace Pdb.Wal
open Pdb.Gen

def ValidChain : Cfg → Nat → List Record → Prop
  | _, _, [] => True
  | cfg, last, r :: rs => r.id = last + 1 ∧ WellFormed cfg r ∧ ValidChain (cfgAfter cfg r) r.id rs

/-- Configuration after a chain of records has been validated and applied. -/
def chainCfg (cfg : Cfg) (rs : List Record) : Cfg := rs.foldl cfgAfter cfg

def NoValidNext (crc : Bytes → Nat) (cfg : Cfg) (last : Nat) (tail : Bytes) : Prop :=
  ∀ r rest, tail = encodeRecord crc r ++ rest → ¬ (r.id = last + 1 ∧ WellFormed cfg r)

/-- The model stopped at `tail` with `stop`, leaving configuration `cfg'`. -/
def StopsAt (crc : Bytes → Nat) (cfg : Cfg) (last : Nat) (tail : Bytes) (stop : Stop)
    (cfg' : Cfg) : Prop :=
  match stop with
  | .endOfLog => parseRecord crc cfg last tail = .endOfLog ∧ cfg' = cfg
  | .invalid why => parseRecord crc cfg last tail = .invalid why cfg'
  | .stuck => False

theorem StopsAt.noValidNext {crc : Bytes → Nat} {cfg cfg' : Cfg} {last : Nat} {tail : Bytes}
    {stop : Stop} (h : StopsAt crc cfg last tail stop cfg') : NoValidNext crc cfg last tail := by
  intro r rest htail ⟨hid, hwf⟩
  subst htail
  have hp := parseRecord_encode crc hwf hid rest
  unfold StopsAt at h
  cases stop with
  | endOfLog => rw [hp] at h; cases h.1
  | invalid why => rw [hp] at h; cases h
  | stuck => exact h

theorem StopsAt.ne_stuck {crc : Bytes → Nat} {cfg cfg' : Cfg} {last : Nat} {tail : Bytes}
    {stop : Stop} (h : StopsAt crc cfg last tail stop cfg') : stop ≠ .stuck := by
  intro hs; subst hs; exact h

theorem validChain_ids {cfg : Cfg} {last : Nat} {rs : List Record} (h : ValidChain cfg last rs) :
    rs.map (·.id) = List.range' (last + 1) rs.length := by
  induction rs generalizing cfg last with
  | nil => rfl
  | cons r rs ih =>
    obtain ⟨hid, _, hc⟩ := h
    simp only [List.map_cons, List.length_cons, List.range'_succ, ih hc, hid]

theorem validChain_append {cfg : Cfg} {last : Nat} {rs ss : List Record}
    (h1 : ValidChain cfg last rs) (h2 : ValidChain (chainCfg cfg rs) (last + rs.length) ss) :
    ValidChain cfg last (rs ++ ss) := by
  induction rs generalizing cfg last with
  | nil => simpa [chainCfg] using h2
  | cons r rs ih =>
    obtain ⟨hid, hwf, hc⟩ := h1
    refine ⟨hid, hwf, ih hc ?_⟩
    have : r.id + rs.length = last + (r :: rs).length := by simp; omega
    simpa [chainCfg, this] using h2

theorem chainCfg_append (cfg : Cfg) (rs ss : List Record) :
    chainCfg cfg (rs ++ ss) = chainCfg (chainCfg cfg rs) ss := by
  simp [chainCfg]

theorem encodeRecords_append (crc : Bytes → Nat) (rs ss : List Record) :
    encodeRecords crc (rs ++ ss) = encodeRecords crc rs ++ encodeRecords crc ss := by
  induction rs with
  | nil => rfl
  | cons r rs ih => simp [encodeRecords, ih]

/-! ### one file -/

theorem replayFile_spec {σ : Type} (step : σ → Action → σ) (crc : Bytes → Nat) :
    ∀ (fuel : Nat) (st : RState σ) (bytes : Bytes) (acc : List Record), bytes.length < fuel →
    ∃ rs, (replayFileWith step crc fuel st bytes acc).2.applied = acc ++ rs ∧
      bytes = encodeRecords crc rs ++ (replayFileWith step crc fuel st bytes acc).2.tail ∧
      ValidChain st.cfg st.lastEnacted rs ∧
      (replayFileWith step crc fuel st bytes acc).1.lastEnacted = st.lastEnacted + rs.length ∧
      (replayFileWith step crc fuel st bytes acc).1.tables =
        (rs.flatMap (·.actions)).foldl step st.tables ∧
      StopsAt crc (chainCfg st.cfg rs) (st.lastEnacted + rs.length)
        (replayFileWith step crc fuel st bytes acc).2.tail
        (replayFileWith step crc fuel st bytes acc).2.stop
        (replayFileWith step crc fuel st bytes acc).1.cfg := by
  intro fuel
  induction fuel with
  | zero => intro st bytes acc h; omega
  | succ fuel ih =>
    intro st bytes acc hf
    unfold replayFileWith
    cases hp : parseRecord crc st.cfg st.lastEnacted bytes with
    | ok r rest cfg' =>
      obtain ⟨hb, hid, hwf, hcfg⟩ := parseRecord_inv hp
      have hsh := parseRecord_ok_shorter hp
      obtain ⟨rs, h1, h2, h3, h4, h5, h6⟩ :=
        ih ⟨cfg', r.id, r.actions.foldl step st.tables⟩ rest (acc ++ [r]) (by omega)
      refine ⟨r :: rs, ?_, ?_, ?_, ?_, ?_, ?_⟩
      · simpa using h1
      · simp only [encodeRecords, List.append_assoc]; rw [← h2]; exact hb
      · subst hcfg; exact ⟨hid, hwf, h3⟩
      · simp only [h4, List.length_cons]; omega
      · simp only [h5, List.flatMap_cons, List.foldl_append]
      · have e : r.id + rs.length = st.lastEnacted + (r :: rs).length := by
          simp only [List.length_cons]; omega
        subst hcfg
        simpa [chainCfg, e] using h6
    | endOfLog =>
      exact ⟨[], by simp, by simp [encodeRecords], trivial, by simp, by simp,
        by simpa [StopsAt, chainCfg] using hp⟩
    | invalid why cfg' =>
      exact ⟨[], by simp, by simp [encodeRecords], trivial, by simp, by simp,
        by simpa [StopsAt, chainCfg] using hp⟩
    | panic => exact absurd hp (parseRecord_ne_panic crc _ _ _)

/-! ### all files -/

/-- `reps` is what replay does to the ordered files `fs`, starting from `cfg`, `last`:
    every visited file is `accepted records ++ tail`, the tail is where the first record that
    is not accepted starts, a stop that clears ends the replay, any other stop moves on to
    the next file with the same `last`. -/
inductive Explains (crc : Bytes → Nat) : Cfg → Nat → List Bytes → List FileReport → Cfg → Nat → Prop
  | done (cfg : Cfg) (last : Nat) : Explains crc cfg last [] [] cfg last
  | clear {cfg cfg' : Cfg} {last : Nat} {f : Bytes} {fs : List Bytes} {rep : FileReport} :
      f = encodeRecords crc rep.applied ++ rep.tail →
      ValidChain cfg last rep.applied →
      StopsAt crc (chainCfg cfg rep.applied) (last + rep.applied.length) rep.tail rep.stop cfg' →
      rep.stop.clears = true →
      Explains crc cfg last (f :: fs) [rep] cfg' (last + rep.applied.length)
  | next {cfg cfg' cfg'' : Cfg} {last last'' : Nat} {f : Bytes} {fs : List Bytes}
      {rep : FileReport} {reps : List FileReport} :
      f = encodeRecords crc rep.applied ++ rep.tail →
      ValidChain cfg last rep.applied →
      StopsAt crc (chainCfg cfg rep.applied) (last + rep.applied.length) rep.tail rep.stop cfg' →
      rep.stop.clears = false →
      Explains crc cfg' (last + rep.applied.length) fs reps cfg'' last'' →
      Explains crc cfg last (f :: fs) (rep :: reps) cfg'' last''

theorem replaySorted_spec {σ : Type} (step : σ → Action → σ) (crc : Bytes → Nat) :
    ∀ (files : List Bytes) (st : RState σ),
    Explains crc st.cfg st.lastEnacted files (replaySortedWith step crc st files).2
      (replaySortedWith step crc st files).1.cfg (replaySortedWith step crc st files).1.lastEnacted ∧
    (replaySortedWith step crc st files).1.tables =
      (((replaySortedWith step crc st files).2.flatMap (·.applied)).flatMap (·.actions)).foldl
        step st.tables := by
  intro files
  induction files with
  | nil => intro st; exact ⟨by simpa [replaySortedWith] using Explains.done _ _, by simp [replaySortedWith]⟩
  | cons f fs ih =>
    intro st
    obtain ⟨rs, h1, h2, h3, h4, h5, h6⟩ := replayFile_spec step crc (f.length + 1) st f [] (by omega)
    simp only [List.nil_append] at h1
    unfold replaySortedWith
    generalize hout : replayFileWith step crc (f.length + 1) st f [] = out at h1 h2 h4 h5 h6
    obtain ⟨st1, rep⟩ := out
    simp only at h1 h2 h4 h5 h6 ⊢
    subst h1
    by_cases hc : rep.stop.clears = true
    · simp only [hc, if_true]
      refine ⟨?_, by simpa using h5⟩
      rw [h4]
      exact Explains.clear h2 h3 h6 hc
    · have hc' : rep.stop.clears = false := by simpa using hc
      obtain ⟨e1, e2⟩ := ih st1
      generalize hout2 : replaySortedWith step crc st1 fs = out2 at e1 e2
      obtain ⟨st2, reps⟩ := out2
      simp only [hc', Bool.false_eq_true, if_false] at e1 e2 ⊢
      refine ⟨?_, ?_⟩
      · rw [h4] at e1
        exact Explains.next h2 h3 h6 hc' e1
      · rw [e2, h5]; simp [List.foldl_append]

/-! ### consequences of `Explains` -/

theorem validChain_wf {cfg : Cfg} {last : Nat} {rs : List Record} (h : ValidChain cfg last rs) :
    ∀ r ∈ rs, ∃ c, WellFormed c r := by
  induction rs generalizing cfg last with
  | nil => intro r hr; cases hr
  | cons r rs ih =>
    obtain ⟨_, hwf, hc⟩ := h
    intro r' hr'
    rcases List.mem_cons.mp hr' with rfl | hr'
    · exact ⟨cfg, hwf⟩
    · exact ih hc r' hr'

/-- Ids of everything applied are consecutive from `last + 1`, across file boundaries too. -/
theorem Explains.ids {crc : Bytes → Nat} {cfg cfg' : Cfg} {last last' : Nat}
    {fs : List Bytes} {reps : List FileReport} (h : Explains crc cfg last fs reps cfg' last') :
    (reps.flatMap (·.applied)).map (·.id) =
        List.range' (last + 1) (reps.flatMap (·.applied)).length ∧
      last' = last + (reps.flatMap (·.applied)).length := by
  induction h with
  | done => exact ⟨rfl, rfl⟩
  | clear _ hv _ _ => exact ⟨by simpa using validChain_ids hv, by simp⟩
  | @next cfg cfg1 cfg2 last last2 f fs rep reps _ hv hs _ _ ih =>
    obtain ⟨ih1, ih2⟩ := ih
    refine ⟨?_, by rw [ih2]; simp; omega⟩
    simp only [List.flatMap_cons, List.map_append, List.length_append, validChain_ids hv, ih1]
    rw [← List.range'_append_1]
    congr 2
    omega

theorem Explains.wf {crc : Bytes → Nat} {cfg cfg' : Cfg} {last last' : Nat}
    {fs : List Bytes} {reps : List FileReport} (h : Explains crc cfg last fs reps cfg' last') :
    ∀ rep ∈ reps, ∀ r ∈ rep.applied, ∃ c, WellFormed c r := by
  induction h with
  | done => intro rep hr; cases hr
  | clear _ hv _ _ =>
    intro rep hr; simp only [List.mem_singleton] at hr; subst hr; exact validChain_wf hv
  | next _ hv _ _ _ ih =>
    intro rep' hr
    rcases List.mem_cons.mp hr with rfl | hr
    · exact validChain_wf hv
    · exact ih rep' hr

/-- Every report is about the file at the same position: the file is the accepted records
    followed by the unread tail; reports exist only for a prefix of the files. -/
theorem Explains.files {crc : Bytes → Nat} {cfg cfg' : Cfg} {last last' : Nat}
    {fs : List Bytes} {reps : List FileReport} (h : Explains crc cfg last fs reps cfg' last') :
    reps.length ≤ fs.length ∧
      ∀ i (hi : i < reps.length) (hf : i < fs.length),
        fs[i] = encodeRecords crc reps[i].applied ++ reps[i].tail := by
  induction h with
  | done => exact ⟨by simp, fun i hi => by simp at hi⟩
  | clear hb _ _ _ =>
    refine ⟨by simp, fun i hi hf => ?_⟩
    have : i = 0 := by simpa using hi
    subst this; simpa using hb
  | next hb _ _ _ _ ih =>
    obtain ⟨ih1, ih2⟩ := ih
    refine ⟨by simp; omega, fun i hi hf => ?_⟩
    cases i with
    | zero => simpa using hb
    | succ i => simpa using ih2 i (by simpa using hi) (by simpa using hf)

/-- No report is `stuck`. -/
theorem Explains.not_stuck {crc : Bytes → Nat} {cfg cfg' : Cfg} {last last' : Nat}
    {fs : List Bytes} {reps : List FileReport} (h : Explains crc cfg last fs reps cfg' last') :
    ∀ rep ∈ reps, rep.stop ≠ .stuck := by
  induction h with
  | done => intro rep hr; cases hr
  | clear _ _ hs _ =>
    intro rep hr; simp only [List.mem_singleton] at hr; subst hr; exact hs.ne_stuck
  | next _ _ hs _ _ ih =>
    intro rep' hr
    rcases List.mem_cons.mp hr with rfl | hr
    · exact hs.ne_stuck
    · exact ih rep' hr

/-- A clearing stop is the last report; without a clearing stop every file is visited. -/
theorem Explains.clears_last {crc : Bytes → Nat} {cfg cfg' : Cfg} {last last' : Nat}
    {fs : List Bytes} {reps : List FileReport} (h : Explains crc cfg last fs reps cfg' last') :
    (∀ i (hi : i < reps.length), reps[i].stop.clears = true → i + 1 = reps.length) ∧
      ((∀ rep ∈ reps, rep.stop.clears = false) → reps.length = fs.length) := by
  induction h with
  | done => exact ⟨fun i hi => by simp at hi, fun _ => rfl⟩
  | clear _ _ _ hc =>
    refine ⟨fun i hi _ => ?_, fun hall => ?_⟩
    · have : i = 0 := by simpa using hi
      subst this; simp
    · have := hall _ (List.mem_singleton.mpr rfl)
      rw [hc] at this; cases this
  | next _ _ _ hc _ ih =>
    obtain ⟨ih1, ih2⟩ := ih
    refine ⟨fun i hi hcl => ?_, fun hall => ?_⟩
    · cases i with
      | zero => simp only [List.getElem_cons_zero] at hcl; rw [hc] at hcl; cases hcl
      | succ i =>
        have := ih1 i (by simpa using hi) (by simpa using hcl)
        simp; omega
    · have := ih2 (fun rep hr => hall rep (List.mem_cons_of_mem _ hr))
      simp [this]


/-- The first file of an explained replay. -/
theorem Explains.head {crc : Bytes → Nat} {cfg cfg' : Cfg} {last last' : Nat} {f : Bytes}
    {fs : List Bytes} {reps : List FileReport}
    (h : Explains crc cfg last (f :: fs) reps cfg' last') :
    ∃ rep reps', reps = rep :: reps' ∧ f = encodeRecords crc rep.applied ++ rep.tail ∧
      ValidChain cfg last rep.applied ∧
      NoValidNext crc (chainCfg cfg rep.applied) (last + rep.applied.length) rep.tail ∧
      (rep.stop.clears = true → reps' = []) := by
  cases h with
  | clear hb hv hs hc => exact ⟨_, [], rfl, hb, hv, hs.noValidNext, fun _ => rfl⟩
  | next hb hv hs hc _ =>
    refine ⟨_, _, rfl, hb, hv, hs.noValidNext, fun h => ?_⟩
    rw [hc] at h; cases h

/-- Every report carries a valid chain (in the configuration in force when its file was opened). -/
theorem Explains.chains {crc : Bytes → Nat} {cfg cfg' : Cfg} {last last' : Nat}
    {fs : List Bytes} {reps : List FileReport} (h : Explains crc cfg last fs reps cfg' last') :
    ∀ rep ∈ reps, ∃ c l, ValidChain c l rep.applied := by
  induction h with
  | done => intro rep hr; cases hr
  | clear _ hv _ _ =>
    intro rep hr; simp only [List.mem_singleton] at hr; subst hr; exact ⟨_, _, hv⟩
  | next _ hv _ _ _ ih =>
    intro rep' hr
    rcases List.mem_cons.mp hr with rfl | hr
    · exact ⟨_, _, hv⟩
    · exact ih rep' hr

theorem encodeRecords_mem (crc : Bytes → Nat) {rs : List Record} {r : Record} (h : r ∈ rs) :
    ∃ pre post, encodeRecords crc rs = pre ++ encodeRecord crc r ++ post := by
  induction rs with
  | nil => cases h
  | cons x rs ih =>
    rcases List.mem_cons.mp h with rfl | h
    · exact ⟨[], encodeRecords crc rs, by simp [encodeRecords]⟩
    · obtain ⟨pre, post, e⟩ := ih h
      exact ⟨encodeRecord crc x ++ pre, post, by simp [encodeRecords, e]⟩

theorem replaySorted_explains (crc : Bytes → Nat) (cfg : Cfg) (last : Nat) (files : List Bytes) :
    Explains crc cfg last files (replaySorted crc cfg last files).reports
      (replaySorted crc cfg last files).cfg (replaySorted crc cfg last files).lastEnacted :=
  (replaySorted_spec (σ := Unit) (fun _ _ => ()) crc files ⟨cfg, last, ()⟩).1

end Pdb.Wal
