/-
C10, transactions: concrete witnesses of what the planning order of `write_plan` (all root
changes, then all node changes) does to transactions that name a root key twice, and of what the
Db accepts outside the property's quantifier.  All by evaluation of the executable model
(`TState Nat Nat`); every one of these histories is replayed on the real crate by the scenarios of
harness/src/c10.rs (model and implementation agree on every observation).
-/
import Pdb.Proofs.C10TxDefs

namespace Pdb.MultiTree.Witness
open Pdb.MultiTree

abbrev S := TState Nat Nat

def run (v : Variant) (cmds : List (CmdT Nat Nat)) : S := cmds.foldl stepT (TState.init v)

/-- root entry as (data, children, count) -/
def rootOf (s : S) (k : Nat) : Option (Nat × List Nat × Nat) :=
  (s.heap.roots.get k).map (fun e => (e.1.data, e.1.children, e.2))
def viewRootOf (s : S) (k : Nat) : Option (Nat × List Nat) :=
  (s.viewRoot k).map (fun n => (n.data, n.children))
def nodeAddrs (s : S) : List Nat := s.heap.nodes.l.map Prod.fst

/-- tree 1: root 10 -> [leaf 11, leaf 12] -/
def t1 : NewNode Nat := ⟨10, .cons (.new 11 .nil) (.cons (.new 12 .nil) .nil)⟩
/-- tree 2: root 20 -> [leaf 21] -/
def t2 : NewNode Nat := ⟨20, .cons (.new 21 .nil) .nil⟩

/-! ### `[DereferenceTree k, ReferenceTree k]` on a root with count 1: the tree is KEPT

The Reference is planned before the dereference (count 1 -> 2 -> 1, no walk); executed in the
order given the dereference would remove the tree and the reference would find nothing.
Admissible: inside one transaction the references are counted before the dereferences - the net
count of the transaction is applied, the count never visibly reaches zero. -/

def derefRef : List (CmdT Nat Nat) :=
  [.commit [.insert 1 t1], .process, .commit [.dereference 1, .reference 1], .process]

theorem deref_ref_same_tx_keeps :
    rootOf (run .rcRoots derefRef) 1 = some (10, [0, 1], 1) ∧ nodeAddrs (run .rcRoots derefRef) = [1, 0] ∧
    (run .rcRoots derefRef).queue.length = 0 := by decide

/-- ... whereas the same two operations executed one after the other remove the tree -/
theorem deref_ref_in_order_drops :
    let h := (run .rcRoots [.commit [.insert 1 t1], .process]).heap
    ((inOrderTx .rcRoots h [] 2 [.dereference 1, .reference 1]).roots.get 1).isNone = true ∧
    (inOrderTx .rcRoots h [] 2 [.dereference 1, .reference 1]).nodes.l.length = 0 := by decide

/-! ### FINDING F41: `[DereferenceTree k, InsertTree k t']` ("replace the tree under k")

Read in order the transaction is legal (k has no live root when it is inserted) and must leave
k -> t'.  The implementation accepts it and shows t' while the commit is queued; when it is
processed the root `Set` comes first:
  plain column        the dereference then removes the NEW root and frees the OLD nodes: k is gone
                      and the node of t' is leaked (unreachable, never reclaimed);
  ref-counted column  the Set only raises the count of the OLD root (2), the dereference lowers it
                      (1): k still shows the OLD tree, the node of t' is leaked. -/

def derefInsert : List (CmdT Nat Nat) :=
  [.commit [.insert 1 t1], .process, .commit [.dereference 1, .insert 1 t2]]

theorem F41_queued_view_shows_new_tree (v : Variant) (hv : v = .plain ∨ v = .rcRoots) :
    viewRootOf (run v derefInsert) 1 = some (20, [2]) := by
  rcases hv with rfl | rfl <;> decide

theorem F41_plain_tree_lost_node_leaked :
    let s := run .plain (derefInsert ++ [.process])
    rootOf s 1 = none ∧ viewRootOf s 1 = none ∧ nodeAddrs s = [2] ∧ s.queue.length = 0 ∧
    (s.countEntries (fun _ => 0)).toOption = some 1 := by decide

theorem F41_rc_old_tree_kept_node_leaked :
    let s := run .rcRoots (derefInsert ++ [.process])
    rootOf s 1 = some (10, [0, 1], 1) ∧ nodeAddrs s = [2, 1, 0] ∧ s.queue.length = 0 ∧
    (s.countEntries (fun _ => 0)).toOption = some 4 := by decide

/-- the reading in order: k -> t', one root and one node -/
theorem F41_in_order_reading (v : Variant) (hv : v = .plain ∨ v = .rcRoots) :
    let h := (run v [.commit [.insert 1 t1], .process]).heap
    ((inOrderTx v h [] 2 [.dereference 1, .insert 1 t2]).roots.get 1).map (fun e => (e.1.data, e.2)) = some (20, 1) ∧
    (inOrderTx v h [] 2 [.dereference 1, .insert 1 t2]).nodes.l.length = 1 := by
  rcases hv with rfl | rfl <;> decide

/-- the transaction is outside `DerefApart` (the hypothesis of the refinement theorems) -/
theorem F41_not_derefApart : ¬ DerefApart [(.dereference 1 : Op Nat Nat), .insert 1 t2] := by
  intro h
  exact h.1 rfl (.insert 1 t2) (List.mem_singleton.mpr rfl) rfl rfl

/-! ### outside the quantifier ("distinct live root keys"), accepted by the Db

InsertTree under a key whose root is live, or twice under one key in one transaction: the nodes
of one of the two trees leak. -/

theorem insert_live_key_plain_replaces_and_leaks :
    let s := run .plain [.commit [.insert 1 t1], .process, .commit [.insert 1 t2], .process,
                         .commit [.dereference 1], .process]
    rootOf s 1 = none ∧ nodeAddrs s = [1, 0] ∧ (s.countEntries (fun _ => 0)).toOption = some 2 := by decide

theorem insert_live_key_rc_counts_and_leaks :
    let s := run .rcRoots [.commit [.insert 1 t1], .process, .commit [.insert 1 t2], .process]
    rootOf s 1 = some (10, [0, 1], 2) ∧ nodeAddrs s = [2, 1, 0] := by decide

theorem insert_twice_one_tx_plain :
    let s := run .plain [.commit [.insert 1 t1, .insert 1 t2], .process]
    rootOf s 1 = some (20, [2], 1) ∧ nodeAddrs s = [2, 1, 0] := by decide

/-! ### outside the quantifier ("children name nodes of live trees"), accepted by the Db

An `Existing` child at an address that holds no node: the tree is stored with a dangling child
and a reference count of 2 is recorded for the empty address (`write_address_inc_ref_plan`: "inc
ref is only called on addresses that already exist"). -/

theorem dangling_existing_accepted :
    let s := run .plain [.commit [.insert 1 ⟨30, .cons (.existing 77) .nil⟩], .process]
    rootOf s 1 = some (30, [77], 1) ∧ (s.heap.nodes.get 77).isNone = true ∧ s.heap.rc.get 77 = some 2 := by decide

end Pdb.MultiTree.Witness
