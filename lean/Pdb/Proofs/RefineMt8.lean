/-
R6 lemmas, part 8: a whole list of node changes (the `node_changes` loop of `IndexedChangeSet::write_plan`) on a plain
multitree column, under a STATIC side condition on the list (`PlanOk`): every NewValue goes to a claimed slot of the tier
`claim_node` selects, no address twice, the tables have room.
-/
import Pdb.Proofs.RefineMt7

namespace Pdb.MultiTreePhys
open Pdb.Gen Pdb.ValueTable Pdb.MultiTree

/-! ## fill marks never move when slots are released -/

theorem clearChain_filled : ∀ (fuel : Nat) (t : VT) (i : Nat) (t' : VT) (l : List Nat),
    clearChain t fuel i = .ok (t', l) → t'.filled = t.filled := by
  intro fuel
  induction fuel with
  | zero => intro t i t' l h; simp [clearChain] at h
  | succ f ih =>
    intro t i t' l h
    simp only [clearChain] at h
    split at h
    · split at h
      · rename_i t2 l2 h2
        simp only [Except.ok.injEq, Prod.mk.injEq] at h
        obtain ⟨rfl, _⟩ := h
        rw [ih _ _ _ _ h2]; rfl
      · simp at h
    · simp only [Except.ok.injEq, Prod.mk.injEq] at h
      obtain ⟨rfl, _⟩ := h
      rfl

theorem removePlan_filled (t : VT) (i : Nat) (t' : VT) (l : List Nat) (h : removePlan t i = .ok (t', l)) :
    t'.filled = t.filled := by
  unfold removePlan at h
  split at h
  · exact clearChain_filled _ _ _ _ _ h
  · simp only [Except.ok.injEq, Prod.mk.injEq] at h
    obtain ⟨rfl, _⟩ := h
    rfl

def SameFilled (p p' : PCol) : Prop := ∀ tier, (p'.vt tier).filled = (p.vt tier).filled

theorem SameFilled.refl (p : PCol) : SameFilled p p := fun _ => rfl
theorem SameFilled.trans {a b c : PCol} (h1 : SameFilled a b) (h2 : SameFilled b c) : SameFilled a c :=
  fun tier => (h2 tier).trans (h1 tier)

theorem setVT_sameFilled (p : PCol) (tier : Nat) (t : VT) (h : t.filled = (p.vt tier).filled) :
    SameFilled p (p.setVT tier t) := by
  intro tier'
  by_cases he : tier' = tier
  · subst he; rw [setVT_same]; exact h
  · rw [setVT_other _ _ _ _ he]

theorem physDecRef_filled (p : PCol) (a : Nat) (b : Bool) (p' : PCol) (h : physDecRef p a = .ok (b, p')) :
    SameFilled p p' := by
  unfold physDecRef at h
  split at h
  · simp only [Except.ok.injEq, Prod.mk.injEq] at h
    obtain ⟨_, rfl⟩ := h
    exact fun _ => rfl
  · split at h
    · rename_i t l hr
      simp only [Except.ok.injEq, Prod.mk.injEq] at h
      obtain ⟨_, rfl⟩ := h
      exact setVT_sameFilled p _ t (removePlan_filled _ _ _ _ hr)
    · simp at h

theorem physStep_filled (rec : PCol → List Nat → Except PErr PCol)
    (hr : ∀ p cs p', rec p cs = .ok p' → SameFilled p p') (p : PCol) (a : Nat) (p' : PCol)
    (h : physDerefStep rec p a = .ok p') : SameFilled p p' := by
  unfold physDerefStep at h
  cases hd : physDecRef p a with
  | error e => rw [hd] at h; simp at h
  | ok x =>
    obtain ⟨b, p1⟩ := x
    rw [hd] at h
    have h1 := physDecRef_filled p a b p1 hd
    cases b with
    | true =>
      simp only [Except.ok.injEq] at h
      subst h; exact h1
    | false =>
      simp only [] at h
      cases hk : physGetChildren p a with
      | none => rw [hk] at h; simp at h
      | some ks => rw [hk] at h; simp only [] at h; exact h1.trans (hr _ _ _ h)

theorem physFold_filled (rec : PCol → List Nat → Except PErr PCol)
    (hr : ∀ p cs p', rec p cs = .ok p' → SameFilled p p') :
    ∀ (cs : List Nat) (p p' : PCol), cs.foldlM (physDerefStep rec) p = .ok p' → SameFilled p p' := by
  intro cs
  induction cs with
  | nil =>
    intro p p' h
    simp only [List.foldlM_nil] at h
    injection h with h
    subst h; exact SameFilled.refl p
  | cons a cs ih =>
    intro p p' h
    simp only [List.foldlM_cons] at h
    cases h1 : physDerefStep rec p a with
    | error e => rw [h1] at h; simp [bind, Except.bind] at h
    | ok pm =>
      rw [h1] at h
      simp only [bind, Except.bind] at h
      exact (physStep_filled rec hr p a pm h1).trans (ih pm p' h)

theorem physDeref_filled : ∀ (f : Nat) (p : PCol) (cs : List Nat) (p' : PCol),
    physDerefChildren f p cs = .ok p' → SameFilled p p' := by
  intro f
  induction f with
  | zero => intro p cs p' h; simp [physDerefChildren] at h
  | succ f ih =>
    intro p cs p' h
    simp only [physDerefChildren] at h
    exact physFold_filled _ ih cs p p' h

theorem physDerefRoot_filled (p : PCol) (k : Key) (b : Bool) (p1 : PCol) (hrc : p.isRc = false)
    (h : physDerefRoot p k = .ok (b, p1)) : SameFilled p p1 := by
  unfold physDerefRoot at h
  cases ha : p.index.get k with
  | none =>
    rw [ha] at h
    simp only [Except.ok.injEq, Prod.mk.injEq] at h
    obtain ⟨_, rfl⟩ := h
    exact SameFilled.refl p
  | some a =>
    rw [ha] at h
    simp only [hrc, Bool.false_eq_true, if_false] at h
    cases hr : removePlan (p.vt (Address.size_tier a)) (Address.offset a) with
    | error e => rw [hr] at h; simp at h
    | ok x =>
      obtain ⟨t, l⟩ := x
      rw [hr] at h
      simp only [Except.ok.injEq, Prod.mk.injEq] at h
      obtain ⟨_, rfl⟩ := h
      exact setVT_sameFilled p _ t (removePlan_filled _ _ _ _ hr)

/-- the DereferenceChildren change of a column without `ref_counted` moves no fill mark -/
theorem physApplyDeref_filled (p : PCol) (k : Key) (cs : List Nat) (p' : PCol) (hrc : p.isRc = false)
    (h : physApplyNode p (.derefChildren k cs) = .ok p') : SameFilled p p' := by
  simp only [physApplyNode] at h
  cases ha : p.index.get k with
  | none =>
    rw [ha] at h
    simp only [Except.ok.injEq] at h
    subst h; exact SameFilled.refl p
  | some a =>
    rw [ha] at h
    simp only [] at h
    cases hd : physDerefRoot p k with
    | error e => rw [hd] at h; simp at h
    | ok x =>
      obtain ⟨b, p1⟩ := x
      rw [hd] at h
      have h1 := physDerefRoot_filled p k b p1 hrc hd
      cases b with
      | false =>
        simp only [Except.ok.injEq] at h
        subst h; exact h1
      | true =>
        simp only [] at h
        exact h1.trans (physDeref_filled _ _ _ _ h)

end Pdb.MultiTreePhys
