/-
C15 helper lemmas (1): the `WaitCondvar<bool>` protocol invariant ("no lost wake-up") and
generic facts about `step` / `run` of the pipeline LTS (Pdb.Conc.Pipe).
-/
import Pdb.Model.Conc

namespace Pdb.Conc.Pipe

/-- A parked waiter that has not been notified finds the flag unset; a pending notification
    implies that the flag is set (so the woken waiter leaves its loop). -/
structure Cv.Ok (c : Cv) : Prop where
  parked : c.waiting = true → c.notified = false → c.flag = false
  noted : c.notified = true → c.flag = true ∧ c.waiting = true

theorem Cv.ok_default : Cv.Ok {} := ⟨by simp, by simp⟩

theorem Cv.ok_signal {c : Cv} (h : c.Ok) : c.signal.Ok := by
  constructor
  · intro hw hn; simp [Cv.signal] at hw hn; simp [hw] at hn
  · intro hn
    refine ⟨rfl, ?_⟩
    show c.waiting = true
    have hn' : (c.notified || c.waiting) = true := hn
    cases hw : c.waiting with
    | true => rfl
    | false => simp [hw] at hn'; exact absurd (h.noted hn').2 (by simp [hw])

theorem Cv.ok_waitStep {c : Cv} (_h : c.Ok) : c.waitStep.1.Ok := by
  unfold Cv.waitStep
  split
  · exact ⟨by simp, by simp⟩
  · rename_i hf
    exact ⟨fun _ _ => by simpa using hf, by simp⟩

/-- the five `WaitCondvar<bool>` of `DbInner` -/
structure CvInv (s : St) : Prop where
  l : s.cvL.Ok
  f : s.cvF.Ok
  c : s.cvC.Ok
  k : s.cvK.Ok
  q : s.cvQ.Ok

theorem cvInv_init (cfg : Cfg) (n r : Nat) : CvInv (init cfg n r) := by
  unfold init; split <;> exact ⟨Cv.ok_default, Cv.ok_default, Cv.ok_default, Cv.ok_default, Cv.ok_default⟩

/-- `CvInv` only looks at the five condvar records -/
theorem cvInv_congr {s s' : St} (h : CvInv s) (hl : s'.cvL = s.cvL) (hf : s'.cvF = s.cvF)
    (hc : s'.cvC = s.cvC) (hk : s'.cvK = s.cvK) (hq : s'.cvQ = s.cvQ) : CvInv s' :=
  ⟨hl ▸ h.l, hf ▸ h.f, hc ▸ h.c, hk ▸ h.k, hq ▸ h.q⟩

theorem cvInv_lqNotify {s : St} (h : CvInv s) : CvInv (lqNotify s) := by
  unfold lqNotify; split <;> exact cvInv_congr h rfl rfl rfl rfl rfl

theorem cvInv_sdNotify (cfg : Cfg) {s : St} (h : CvInv s) : CvInv (sdNotify cfg s) := by
  have h' := cvInv_lqNotify h
  unfold sdNotify
  refine ⟨Cv.ok_signal h'.l, Cv.ok_signal h'.f, Cv.ok_signal h'.c, Cv.ok_signal h'.k, ?_⟩
  simp only
  split
  · exact Cv.ok_signal h'.q
  · exact h'.q

theorem cvInv_notifyAllCm {s : St} (h : CvInv s) : CvInv (notifyAllCm s) :=
  cvInv_congr h rfl rfl rfl rfl rfl

theorem cvInv_reindexStep {s : St} (h : CvInv s) : CvInv (reindexStep s) := by
  unfold reindexStep
  split
  · split
    · exact ⟨h.l, Cv.ok_signal h.f, h.c, h.k, h.q⟩
    · exact cvInv_congr h rfl rfl rfl rfl rfl
  · exact cvInv_congr h rfl rfl rfl rfl rfl

theorem cvInv_errStep {cfg : Cfg} {s s1 : St} {e : ETail} {n : Option ETail} (h : CvInv s)
    (he : errStep cfg s e = some (s1, n)) : CvInv s1 := by
  cases e with
  | e1 =>
    simp only [errStep] at he
    split at he <;> (cases he; first | exact h | exact cvInv_congr h rfl rfl rfl rfl rfl)
  | e2 =>
    simp only [errStep] at he
    split at he
    · cases he
    · cases he; exact cvInv_sdNotify cfg h
  | e3 =>
    simp only [errStep] at he
    split at he
    · cases he
    · cases he; exact cvInv_notifyAllCm h

/-- unpack the `Option.map` of the error tails -/
theorem map_some {α β : Type} {o : Option α} {f : α → β} {b : β} (h : o.map f = some b) :
    ∃ a, o = some a ∧ f a = b := by
  cases o with
  | none => cases h
  | some a => exact ⟨a, rfl, by simpa using h⟩

end Pdb.Conc.Pipe

namespace Pdb.Conc.Pipe

theorem cvInv_tickL {cfg : Cfg} {s s' : St} (hI : CvInv s) (h : tickL cfg s = some s') : CvInv s' := by
  unfold tickL at h
  split at h
  · cases h; exact cvInv_reindexStep (cvInv_congr hI rfl rfl rfl rfl rfl)
  · split at h
    · split at h <;> (cases h; exact cvInv_congr hI rfl rfl rfl rfl rfl)
    · cases h; exact cvInv_congr hI rfl rfl rfl rfl rfl
  · split at h
    · cases h; exact ⟨Cv.ok_waitStep hI.l, hI.f, hI.c, hI.k, hI.q⟩
    · cases h
  · split at h <;> (cases h; exact cvInv_congr hI rfl rfl rfl rfl rfl)
  · cases h; exact cvInv_congr hI rfl rfl rfl rfl rfl
  · split at h
    · cases h; exact cvInv_congr hI rfl rfl rfl rfl rfl
    · cases h
  · split at h
    · split at h
      · cases h; exact cvInv_congr hI rfl rfl rfl rfl rfl
      · cases h
        split
        · exact cvInv_notifyAllCm (cvInv_congr hI rfl rfl rfl rfl rfl)
        · exact cvInv_congr hI rfl rfl rfl rfl rfl
    · cases h
  · cases h; exact cvInv_congr hI rfl rfl rfl rfl rfl
  · cases h; exact ⟨hI.l, Cv.ok_signal hI.f, hI.c, hI.k, hI.q⟩
  · cases h; exact cvInv_reindexStep (cvInv_congr hI rfl rfl rfl rfl rfl)
  · cases h; exact cvInv_congr hI rfl rfl rfl rfl rfl
  · obtain ⟨⟨s1, n⟩, he, hs⟩ := map_some h
    subst hs
    exact cvInv_congr (cvInv_errStep hI he) rfl rfl rfl rfl rfl
  · cases h

theorem cvInv_tickF {cfg : Cfg} {s s' : St} (hI : CvInv s) (h : tickF cfg s = some s') : CvInv s' := by
  unfold tickF at h
  split at h
  · split at h
    · split at h <;> (cases h; exact cvInv_congr hI rfl rfl rfl rfl rfl)
    · cases h; exact cvInv_congr hI rfl rfl rfl rfl rfl
  · split at h
    · cases h; exact ⟨hI.l, Cv.ok_waitStep hI.f, hI.c, hI.k, hI.q⟩
    · cases h
  · split at h <;> (cases h; exact cvInv_congr hI rfl rfl rfl rfl rfl)
  · cases h; exact ⟨hI.l, hI.f, Cv.ok_signal hI.c, hI.k, hI.q⟩
  · obtain ⟨⟨s1, n⟩, he, hs⟩ := map_some h
    subst hs
    exact cvInv_congr (cvInv_errStep hI he) rfl rfl rfl rfl rfl
  · cases h

theorem cvInv_tickC {cfg : Cfg} {s s' : St} (hI : CvInv s) (h : tickC cfg s = some s') : CvInv s' := by
  unfold tickC at h
  split at h
  · split at h
    · split at h <;> (cases h; exact cvInv_congr hI rfl rfl rfl rfl rfl)
    · cases h; exact cvInv_congr hI rfl rfl rfl rfl rfl
  · cases h; exact ⟨hI.l, hI.f, hI.c, Cv.ok_signal hI.k, hI.q⟩
  · split at h <;> (cases h; exact cvInv_congr hI rfl rfl rfl rfl rfl)
  · split at h
    · cases h; exact ⟨hI.l, hI.f, Cv.ok_waitStep hI.c, hI.k, hI.q⟩
    · cases h
  · split at h
    · cases h; exact cvInv_congr hI rfl rfl rfl rfl rfl
    · cases h; exact cvInv_congr hI rfl rfl rfl rfl rfl
    · split at h
      · cases h
        split
        · exact cvInv_lqNotify (cvInv_congr hI rfl rfl rfl rfl rfl)
        · exact cvInv_congr hI rfl rfl rfl rfl rfl
      · cases h
  · split at h <;> (cases h; exact cvInv_congr hI rfl rfl rfl rfl rfl)
  · split at h
    · cases h; exact ⟨hI.l, hI.f, hI.c, hI.k, Cv.ok_waitStep hI.q⟩
    · cases h
  · obtain ⟨⟨s1, n⟩, he, hs⟩ := map_some h
    subst hs
    exact cvInv_congr (cvInv_errStep hI he) rfl rfl rfl rfl rfl
  · cases h

theorem cvInv_tickK {cfg : Cfg} {s s' : St} (hI : CvInv s) (h : tickK cfg s = some s') : CvInv s' := by
  unfold tickK at h
  split at h
  · split at h
    · split at h <;> (cases h; exact cvInv_congr hI rfl rfl rfl rfl rfl)
    · cases h; exact cvInv_congr hI rfl rfl rfl rfl rfl
  · split at h
    · cases h; exact ⟨hI.l, hI.f, hI.c, Cv.ok_waitStep hI.k, hI.q⟩
    · cases h
  · split at h <;> (cases h; exact cvInv_congr hI rfl rfl rfl rfl rfl)
  · cases h; exact ⟨hI.l, hI.f, hI.c, hI.k, Cv.ok_signal hI.q⟩
  · obtain ⟨⟨s1, n⟩, he, hs⟩ := map_some h
    subst hs
    exact cvInv_congr (cvInv_errStep hI he) rfl rfl rfl rfl rfl
  · cases h

end Pdb.Conc.Pipe

namespace Pdb.Conc.Pipe

theorem cvInv_seqEnactOnce {cfg : Cfg} {s s1 : St} {b : Bool} (hI : CvInv s)
    (h : seqEnactOnce cfg s = some (s1, b)) : CvInv s1 := by
  unfold seqEnactOnce at h
  split at h
  · cases h; exact hI
  · cases h; exact cvInv_congr hI rfl rfl rfl rfl rfl
  · simp only at h
    split at h
    · cases h
    · cases h; exact cvInv_congr hI rfl rfl rfl rfl rfl

theorem cvInv_seqEnactLoop {cfg : Cfg} : ∀ (n : Nat) {s s' : St}, CvInv s →
    seqEnactLoop cfg n s = some s' → CvInv s'
  | 0, s, s', hI, h => by simp [seqEnactLoop] at h; subst h; exact hI
  | n + 1, s, s', hI, h => by
    simp only [seqEnactLoop] at h
    split at h
    · cases h
    · rename_i s1 he; exact cvInv_seqEnactLoop n (cvInv_seqEnactOnce hI he) h
    · rename_i s1 he; cases h; exact cvInv_seqEnactOnce hI he

theorem cvInv_seqFlush0 {s : St} (hI : CvInv s) : CvInv (seqFlush0 s) := by
  unfold seqFlush0
  split
  · exact ⟨hI.l, hI.f, Cv.ok_signal hI.c, hI.k, hI.q⟩
  · exact hI

theorem cvInv_seqProcessOnce {s : St} (hI : CvInv s) : CvInv (seqProcessOnce s).1 := by
  unfold seqProcessOnce
  split
  · exact hI
  · exact ⟨hI.l, Cv.ok_signal hI.f, hI.c, hI.k, hI.q⟩

theorem cvInv_seqProcessLoop : ∀ (n : Nat) {s : St}, CvInv s → CvInv (seqProcessLoop n s)
  | 0, s, hI => by simpa [seqProcessLoop] using hI
  | n + 1, s, hI => by
    simp only [seqProcessLoop]
    split
    · exact cvInv_seqProcessLoop n (cvInv_seqProcessOnce hI)
    · exact hI

theorem bind_some {α β : Type} {o : Option α} {f : α → Option β} {b : β} (h : o.bind f = some b) :
    ∃ a, o = some a ∧ f a = some b := by
  cases o with
  | none => cases h
  | some a => exact ⟨a, rfl, by simpa using h⟩

theorem cvInv_killLogsSeq {cfg : Cfg} {s s' : St} (hI : CvInv s) (h : killLogsSeq cfg s = some s') :
    CvInv s' := by
  unfold killLogsSeq at h
  split at h
  · cases h; exact cvInv_congr hI rfl rfl rfl rfl rfl
  · obtain ⟨s1, h1, h⟩ := bind_some h
    have i1 := cvInv_seqEnactLoop _ hI h1
    have i3 := cvInv_seqProcessLoop (fuel s1) (cvInv_seqFlush0 i1)
    split at h
    · cases h
    obtain ⟨s4, h4, h⟩ := bind_some h
    have i4 := cvInv_seqEnactLoop _ i3 h4
    have i5 := cvInv_seqFlush0 i4
    obtain ⟨s6, h6, h⟩ := bind_some h
    have i6 := cvInv_seqEnactLoop _ i5 h6
    cases h
    exact cvInv_congr i6 rfl rfl rfl rfl rfl

theorem cvInv_tickD {cfg : Cfg} {s s' : St} (hI : CvInv s) (h : tickD cfg s = some s') : CvInv s' := by
  unfold tickD at h
  split at h
  · cases h
  · cases h; exact cvInv_congr hI rfl rfl rfl rfl rfl
  · split at h
    · cases h
    · cases h; exact cvInv_congr (cvInv_sdNotify cfg hI) rfl rfl rfl rfl rfl
  · split at h
    · cases h; exact cvInv_congr hI rfl rfl rfl rfl rfl
    · cases h
  · split at h
    · cases h; exact cvInv_congr hI rfl rfl rfl rfl rfl
    · cases h
  · split at h
    · cases h; exact cvInv_congr hI rfl rfl rfl rfl rfl
    · cases h
  · split at h
    · cases h; exact cvInv_congr hI rfl rfl rfl rfl rfl
    · cases h
  · obtain ⟨s1, he, hs⟩ := map_some h
    subst hs
    exact cvInv_congr (cvInv_killLogsSeq hI he) rfl rfl rfl rfl rfl
  · cases h; exact cvInv_congr hI rfl rfl rfl rfl rfl
  · cases h
  · cases h

theorem cvInv_commitFinish {s : St} (i b : Nat) (hI : CvInv s) : CvInv (commitFinish s i b) := by
  unfold commitFinish
  split
  · exact cvInv_congr hI rfl rfl rfl rfl rfl
  · exact ⟨Cv.ok_signal hI.l, hI.f, hI.c, hI.k, hI.q⟩

theorem cvInv_tickCm {s s' : St} {i : Nat} (hI : CvInv s) (h : tickCm s i = some s') : CvInv s' := by
  unfold tickCm at h
  split at h
  · cases h; exact cvInv_congr hI rfl rfl rfl rfl rfl
  · split at h
    · cases h; exact cvInv_commitFinish _ _ hI
    · cases h
  · cases h

theorem tickCg_some {cfg : Cfg} {s s' : St} (h : tickCg cfg s = some s') : tickC cfg s = some s' := by
  unfold tickCg at h
  split at h
  · cases h
  · exact h

theorem cvInv_step {cfg : Cfg} {s s' : St} {a : Act} (hI : CvInv s) (h : step cfg s a = some s') :
    CvInv s' := by
  cases a with
  | tick t =>
    cases t
    · exact cvInv_tickL hI h
    · exact cvInv_tickF hI h
    · exact cvInv_tickC hI (tickCg_some h)
    · exact cvInv_tickK hI h
    · exact cvInv_tickD hI h
  | cmTick i => exact cvInv_tickCm hI h
  | commit i b =>
    simp only [step] at h
    split at h
    · split at h
      · cases h; exact cvInv_congr hI rfl rfl rfl rfl rfl
      · cases h; exact cvInv_commitFinish _ _ hI
    · cases h
  | drop =>
    simp only [step] at h
    split at h
    · cases h; exact cvInv_congr hI rfl rfl rfl rfl rfl
    · cases h
  | fail t =>
    cases t
    · simp only [step] at h
      split at h
      · split at h <;> first | (cases h; done) | (cases h; exact cvInv_congr hI rfl rfl rfl rfl rfl)
      · cases h
    all_goals
      simp only [step] at h
      first
        | cases h
        | (split at h
           · cases h; exact cvInv_congr hI rfl rfl rfl rfl rfl
           · cases h)
  | apiProcess =>
    simp only [step] at h
    split at h
    · cases h; exact cvInv_seqProcessOnce hI
    · cases h
  | apiFlush =>
    simp only [step] at h
    split at h
    · cases h; exact cvInv_seqFlush0 hI
    · cases h
  | apiEnact =>
    simp only [step] at h
    split at h
    · split at h
      · rename_i s1 he; cases h; exact cvInv_seqEnactLoop _ hI he
      · cases h; exact cvInv_congr hI rfl rfl rfl rfl rfl
    · cases h
  | apiClean =>
    simp only [step] at h
    split at h
    · cases h; exact ⟨hI.l, hI.f, hI.c, hI.k, Cv.ok_signal hI.q⟩
    · cases h
  | defer =>
    simp only [step] at h
    split at h
    · split at h <;> first | (cases h; done) | (cases h; exact cvInv_congr hI rfl rfl rfl rfl rfl)
    · cases h
  | panic t =>
    cases t <;> simp only [step] at h <;>
      first | (cases h; done) | (split at h <;> first | (cases h; done) | (cases h; exact cvInv_congr hI rfl rfl rfl rfl rfl))
  | iterHold | iterRelease | dropEnacted k | makeCycle =>
    simp only [step] at h
    split at h <;> first | (cases h; done) | (cases h; exact cvInv_congr hI rfl rfl rfl rfl rfl)
  | lockTree | unlockTree =>
    simp only [step] at h
    cases h; exact cvInv_congr hI rfl rfl rfl rfl rfl
  | grow k =>
    simp only [step] at h
    split at h
    · cases h; exact cvInv_congr hI rfl rfl rfl rfl rfl
    · split at h <;> first | (cases h; done) | (cases h; exact cvInv_congr hI rfl rfl rfl rfl rfl)
    · cases h

/-- generic induction principle: a step-invariant that holds initially holds in every reachable state -/
theorem reachable_induction {cfg : Cfg} {n r : Nat} (P : St → Prop) (h0 : P (init cfg n r))
    (hstep : ∀ s s' a, a.isPanic = false → P s → step cfg s a = some s' → P s') :
    ∀ s, Reachable cfg n r s → P s := by
  intro s ⟨as, hnp, h⟩
  have : ∀ (as : List Act) (x : St), (∀ a ∈ as, a.isPanic = false) → P x → run cfg x as = some s → P s := by
    intro as
    induction as with
    | nil => intro x _ hx h; simp [run] at h; subst h; exact hx
    | cons a as ih =>
      intro x hnp hx h
      simp only [run] at h
      cases hs : step cfg x a with
      | none => rw [hs] at h; cases h
      | some y =>
        rw [hs] at h
        exact ih y (fun b hb => hnp b (List.mem_cons_of_mem _ hb))
          (hstep x y a (hnp a List.mem_cons_self) hx hs) h
  exact this as _ hnp h0 h

/-- the same for schedules with panics -/
theorem reachableP_induction {cfg : Cfg} {n r : Nat} (P : St → Prop) (h0 : P (init cfg n r))
    (hstep : ∀ s s' a, P s → step cfg s a = some s' → P s') : ∀ s, ReachableP cfg n r s → P s := by
  intro s ⟨as, h⟩
  have : ∀ (as : List Act) (x : St), P x → run cfg x as = some s → P s := by
    intro as
    induction as with
    | nil => intro x hx h; simp [run] at h; subst h; exact hx
    | cons a as ih =>
      intro x hx h
      simp only [run] at h
      cases hs : step cfg x a with
      | none => rw [hs] at h; cases h
      | some y => rw [hs] at h; exact ih y (hstep x y a hx hs) h
  exact this as _ h0 h

theorem reachable_of_np {cfg : Cfg} {n r : Nat} {s : St} (h : Reachable cfg n r s) : ReachableP cfg n r s :=
  let ⟨as, _, hr⟩ := h; ⟨as, hr⟩

/-- the `WaitCondvar` protocol invariant does not depend on the absence of panics -/
theorem cvInv_reachableP {cfg : Cfg} {n r : Nat} {s : St} (h : ReachableP cfg n r s) : CvInv s :=
  reachableP_induction CvInv (cvInv_init cfg n r) (fun _ _ _ hI hs => cvInv_step hI hs) s h

theorem cvInv_reachable {cfg : Cfg} {n r : Nat} {s : St} (h : Reachable cfg n r s) : CvInv s :=
  cvInv_reachableP (reachable_of_np h)

end Pdb.Conc.Pipe
