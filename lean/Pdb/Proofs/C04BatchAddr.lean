/-
C04, GAP 3: separators carry value-table addresses.  The address-carrying tree together with
the store abstracts to the value-carrying model; the store invariant (referenced = live,
no slot referenced twice) is kept and every change releases exactly the slot that stops
being referenced.
-/
import Pdb.Model.BTreeBatch
import Pdb.Proofs.C04TreeOcc

namespace Pdb.C04
variable {V : Type}

/-! ### mapping the value component of a key-sorted association list -/

section
variable {β γ : Type}

def onVal (f : β → γ) (e : Key × β) : Key × γ := (e.1, f e.2)

theorem sorted_map_onVal (f : β → γ) (m : List (Key × β)) :
    Sorted (m.map (onVal f)) ↔ Sorted m := by
  unfold Sorted
  rw [List.pairwise_map]
  rfl

theorem map_congr_keys {f g : β → γ} {l : List (Key × β)} {k : Key}
    (h : ∀ e ∈ l, e.1 ≠ k → g e.2 = f e.2) (hk : ∀ e ∈ l, e.1 ≠ k) :
    l.map (onVal g) = l.map (onVal f) := by
  apply List.map_congr_left
  intro e he
  simp only [onVal, h e he (hk e he)]

theorem map_put {f g : β → γ} {m : List (Key × β)} (hs : Sorted m) (k : Key) (b : β)
    (h : ∀ e ∈ m, e.1 ≠ k → g e.2 = f e.2) :
    (put m k b).map (onVal g) = put (m.map (onVal f)) k (g b) := by
  induction m with
  | nil => rfl
  | cons a m ih =>
    obtain ⟨k', b'⟩ := a
    have htl : ∀ e ∈ m, keyLt k' e.1 = true := hs.head_lt
    by_cases h1 : keyLt k k' = true
    · have hne : k' ≠ k := fun e => keyLt_ne h1 e.symm
      have hk : ∀ e ∈ m, e.1 ≠ k := fun e he e' => by
        have := keyLt_trans h1 (htl e he); rw [e'] at this; rw [keyLt_irrefl] at this; cases this
      have hb : g b' = f b' := h (k', b') List.mem_cons_self hne
      simp only [put, h1, if_true, List.map_cons, onVal, hb]
      rw [show m.map (onVal g) = m.map (onVal f) from
        map_congr_keys (fun e he => h e (List.mem_cons_of_mem _ he)) hk]
    · by_cases h2 : k = k'
      · subst h2
        have hk : ∀ e ∈ m, e.1 ≠ k := fun e he e' => by
          have := htl e he; rw [e'] at this; rw [keyLt_irrefl] at this; cases this
        simp only [put, keyLt_irrefl, Bool.false_eq_true, if_false, if_true, List.map_cons, onVal]
        rw [show m.map (onVal g) = m.map (onVal f) from
          map_congr_keys (fun e he => h e (List.mem_cons_of_mem _ he)) hk]
      · have hb : g b' = f b' := h (k', b') List.mem_cons_self (fun e => h2 e.symm)
        simp only [put, h1, h2, if_false, List.map_cons, onVal, hb, Bool.false_eq_true]
        rw [ih hs.tail (fun e he => h e (List.mem_cons_of_mem _ he))]

theorem map_del {f g : β → γ} {m : List (Key × β)} (hs : Sorted m) (k : Key)
    (h : ∀ e ∈ m, e.1 ≠ k → g e.2 = f e.2) :
    (del m k).map (onVal g) = del (m.map (onVal f)) k := by
  induction m with
  | nil => rfl
  | cons a m ih =>
    obtain ⟨k', b'⟩ := a
    have htl : ∀ e ∈ m, keyLt k' e.1 = true := hs.head_lt
    by_cases h1 : k' = k
    · subst h1
      have hk : ∀ e ∈ m, e.1 ≠ k' := fun e he e' => by
        have := htl e he; rw [e'] at this; rw [keyLt_irrefl] at this; cases this
      simp only [del, if_true, List.map_cons, onVal]
      exact map_congr_keys (fun e he => h e (List.mem_cons_of_mem _ he)) hk
    · have hb : g b' = f b' := h (k', b') List.mem_cons_self h1
      simp only [del, h1, if_false, List.map_cons, onVal, hb]
      rw [ih hs.tail (fun e he => h e (List.mem_cons_of_mem _ he))]

theorem mem_put_iff {m : List (Key × β)} (hs : Sorted m) (k : Key) (b : β) (x : Key × β) :
    x ∈ put m k b ↔ x = (k, b) ∨ (x ∈ m ∧ x.1 ≠ k) := by
  obtain ⟨k', b'⟩ := x
  rw [mem_iff_lookup (sorted_put hs k b), lookup_put, mem_iff_lookup hs]
  by_cases h : k = k'
  · subst h
    simp [eq_comm]
  · simp only [h, if_false, Prod.mk.injEq, ne_eq]
    constructor
    · intro hl; exact Or.inr ⟨hl, fun e => h e.symm⟩
    · rintro (⟨e, _⟩ | ⟨hl, _⟩)
      · exact absurd e.symm h
      · exact hl

theorem mem_del_iff {m : List (Key × β)} (hs : Sorted m) (k : Key) (x : Key × β) :
    x ∈ del m k ↔ x ∈ m ∧ x.1 ≠ k := by
  obtain ⟨k', b'⟩ := x
  rw [mem_iff_lookup (sorted_del hs k), lookup_del hs, mem_iff_lookup hs]
  by_cases h : k = k'
  · subst h; simp
  · simp only [h, if_false, ne_eq]
    exact ⟨fun hl => ⟨hl, fun e => h e.symm⟩, fun hl => hl.1⟩

end

/-! ### the store invariant -/

/-- slot `b` is referenced by a separator -/
def Refd (m : List (Key × Addr)) (b : Addr) : Prop := ∃ e ∈ m, e.2 = b

/-- referenced slots are live, no slot is referenced by two separators, every live slot is
    referenced (nothing leaks) -/
structure StoreInv (σ : Store V) (m : List (Key × Addr)) : Prop where
  live : ∀ e ∈ m, (σ e.2).isSome = true
  inj : ∀ e1 ∈ m, ∀ e2 ∈ m, e1.2 = e2.2 → e1.1 = e2.1
  noLeak : ∀ a, (σ a).isSome = true → Refd m a

/-- the address enumeration `m` seen through the store `σ` is the value enumeration `l` -/
def Abs (σ : Store V) (m : List (Key × Addr)) (l : List (Key × V)) : Prop :=
  derefList σ m = l.map (onVal some)

theorem derefList_eq (σ : Store V) (m : List (Key × Addr)) : derefList σ m = m.map (onVal σ) := rfl

theorem Abs.sorted {σ : Store V} {m : List (Key × Addr)} {l : List (Key × V)} (h : Abs σ m l)
    (hs : Sorted m) : Sorted l := by
  have : Sorted (derefList σ m) := (sorted_map_onVal σ m).mpr hs
  rw [h] at this
  exact (sorted_map_onVal _ l).mp this

theorem Store.set_same (σ : Store V) (a : Addr) (o : Option V) : (σ.set a o) a = o := by
  simp [Store.set]

theorem Store.set_other (σ : Store V) {a x : Addr} (o : Option V) (h : x ≠ a) :
    (σ.set a o) x = σ x := by
  simp [Store.set, h]

theorem le_sum_of_mem {l : List Nat} {x : Nat} (h : x ∈ l) : x ≤ l.sum := by
  induction l with
  | nil => simp at h
  | cons a l ih =>
    simp only [List.sum_cons]
    rcases List.mem_cons.mp h with rfl | h
    · omega
    · have := ih h; omega

/-- the live slots are finitely many (each is referenced), so some slot is free -/
theorem StoreInv.exists_free {σ : Store V} {m : List (Key × Addr)} (h : StoreInv σ m) :
    ∃ x, σ x = none := by
  refine ⟨(m.map (·.2)).sum + 1, ?_⟩
  cases hx : σ ((m.map (·.2)).sum + 1) with
  | none => rfl
  | some v =>
    obtain ⟨e, he, hb⟩ := h.noLeak ((m.map (·.2)).sum + 1) (by rw [hx]; rfl)
    have : e.2 ≤ (m.map (·.2)).sum := le_sum_of_mem (List.mem_map.mpr ⟨e, he, rfl⟩)
    rw [hb] at this
    exact absurd this (Nat.not_succ_le_self _)

theorem put_step {σ : Store V} {m : List (Key × Addr)} {l : List (Key × V)} (k : Key) (v : V)
    (a' : Addr) (hs : Sorted m) (hst : StoreInv σ m) (habs : Abs σ m l)
    (hfr : lookup m k = some a' ∨ σ a' = none) :
    StoreInv ((σ.clear (lookup m k)).set a' (some v)) (put m k a') ∧
    Abs ((σ.clear (lookup m k)).set a' (some v)) (put m k a') (put l k v) ∧
    ∀ b, (Refd m b ∧ ¬ Refd (put m k a') b) ↔ (lookup m k = some b ∧ a' ≠ b) := by
  -- separators of other keys keep their slot and its content
  have hne : ∀ e ∈ m, e.1 ≠ k → e.2 ≠ a' := by
    intro e he hk e'
    rcases hfr with h | h
    · have hm : (k, a') ∈ m := (mem_iff_lookup hs k a').mpr h
      exact hk (hst.inj e he (k, a') hm e')
    · have := hst.live e he
      rw [e', h] at this; cases this
  have hold : ∀ e ∈ m, e.1 ≠ k → ∀ a, lookup m k = some a → e.2 ≠ a := by
    intro e he hk a ha e'
    have hm : (k, a) ∈ m := (mem_iff_lookup hs k a).mpr ha
    exact hk (hst.inj e he (k, a) hm e')
  have hkeep : ∀ e ∈ m, e.1 ≠ k → ((σ.clear (lookup m k)).set a' (some v)) e.2 = σ e.2 := by
    intro e he hk
    rw [Store.set_other _ _ (hne e he hk)]
    cases ho : lookup m k with
    | none => rfl
    | some a => exact Store.set_other _ _ (hold e he hk a ho)
  have hnew : ((σ.clear (lookup m k)).set a' (some v)) a' = some v := Store.set_same _ _ _
  refine ⟨⟨?_, ?_, ?_⟩, ?_, ?_⟩
  · intro x hx
    rcases (mem_put_iff hs k a' x).mp hx with rfl | ⟨hx, hk⟩
    · rw [hnew]; rfl
    · rw [hkeep x hx hk]; exact hst.live x hx
  · intro x1 h1 x2 h2 e
    rcases (mem_put_iff hs k a' x1).mp h1 with rfl | ⟨h1, k1⟩
    · rcases (mem_put_iff hs k a' x2).mp h2 with rfl | ⟨h2, k2⟩
      · rfl
      · exact absurd e.symm (hne x2 h2 k2)
    · rcases (mem_put_iff hs k a' x2).mp h2 with rfl | ⟨h2, k2⟩
      · exact absurd e (hne x1 h1 k1)
      · exact hst.inj x1 h1 x2 h2 e
  · intro b hb
    by_cases hba : b = a'
    · exact ⟨(k, a'), (mem_put_iff hs k a' _).mpr (Or.inl rfl), hba.symm⟩
    · rw [Store.set_other _ _ hba] at hb
      have hb' : (σ b).isSome = true ∧ ∀ a, lookup m k = some a → b ≠ a := by
        cases ho : lookup m k with
        | none => rw [ho] at hb; exact ⟨hb, fun a h => by cases h⟩
        | some a =>
          rw [ho] at hb
          by_cases hba' : b = a
          · subst hba'; rw [show (σ.clear (some b)) b = none from Store.set_same _ _ _] at hb; cases hb
          · rw [show (σ.clear (some a)) b = σ b from Store.set_other _ _ hba'] at hb
            exact ⟨hb, fun a2 h => by cases h; exact hba'⟩
      obtain ⟨e, he, heb⟩ := hst.noLeak b hb'.1
      have hk : e.1 ≠ k := by
        intro hk
        have : lookup m k = some e.2 := (mem_iff_lookup hs k e.2).mp (by rw [← hk]; exact he)
        exact hb'.2 e.2 this heb.symm
      exact ⟨e, (mem_put_iff hs k a' e).mpr (Or.inr ⟨he, hk⟩), heb⟩
  · show derefList _ (put m k a') = _
    rw [derefList_eq, map_put (f := σ) hs k a' hkeep, hnew, ← derefList_eq, habs,
      ← map_put (f := some) (g := some) (habs.sorted hs) k v (fun _ _ _ => rfl)]
  · intro b
    constructor
    · rintro ⟨⟨e, he, heb⟩, hn⟩
      have hk : e.1 = k := by
        apply Classical.byContradiction
        intro hk
        exact hn ⟨e, (mem_put_iff hs k a' e).mpr (Or.inr ⟨he, hk⟩), heb⟩
      refine ⟨?_, ?_⟩
      · rw [← heb]; exact (mem_iff_lookup hs k e.2).mp (by rw [← hk]; exact he)
      · intro h
        exact hn ⟨(k, a'), (mem_put_iff hs k a' _).mpr (Or.inl rfl), h⟩
    · rintro ⟨hl, hab⟩
      have hm : (k, b) ∈ m := (mem_iff_lookup hs k b).mpr hl
      refine ⟨⟨(k, b), hm, rfl⟩, ?_⟩
      rintro ⟨x, hx, hxb⟩
      rcases (mem_put_iff hs k a' x).mp hx with rfl | ⟨hx, hk⟩
      · exact hab hxb
      · exact hk (hst.inj x hx (k, b) hm hxb)

theorem del_step {σ : Store V} {m : List (Key × Addr)} {l : List (Key × V)} (k : Key)
    (hs : Sorted m) (hst : StoreInv σ m) (habs : Abs σ m l) :
    StoreInv (σ.clear (lookup m k)) (del m k) ∧
    Abs (σ.clear (lookup m k)) (del m k) (del l k) ∧
    ∀ b, (Refd m b ∧ ¬ Refd (del m k) b) ↔ lookup m k = some b := by
  have hold : ∀ e ∈ m, e.1 ≠ k → ∀ a, lookup m k = some a → e.2 ≠ a := by
    intro e he hk a ha e'
    have hm : (k, a) ∈ m := (mem_iff_lookup hs k a).mpr ha
    exact hk (hst.inj e he (k, a) hm e')
  have hkeep : ∀ e ∈ m, e.1 ≠ k → (σ.clear (lookup m k)) e.2 = σ e.2 := by
    intro e he hk
    cases ho : lookup m k with
    | none => rfl
    | some a => exact Store.set_other _ _ (hold e he hk a ho)
  refine ⟨⟨?_, ?_, ?_⟩, ?_, ?_⟩
  · intro x hx
    obtain ⟨hx, hk⟩ := (mem_del_iff hs k x).mp hx
    rw [hkeep x hx hk]; exact hst.live x hx
  · intro x1 h1 x2 h2 e
    exact hst.inj x1 ((mem_del_iff hs k x1).mp h1).1 x2 ((mem_del_iff hs k x2).mp h2).1 e
  · intro b hb
    have hb' : (σ b).isSome = true ∧ ∀ a, lookup m k = some a → b ≠ a := by
      cases ho : lookup m k with
      | none => rw [ho] at hb; exact ⟨hb, fun a h => by cases h⟩
      | some a =>
        rw [ho] at hb
        by_cases hba' : b = a
        · subst hba'; rw [show (σ.clear (some b)) b = none from Store.set_same _ _ _] at hb; cases hb
        · rw [show (σ.clear (some a)) b = σ b from Store.set_other _ _ hba'] at hb
          exact ⟨hb, fun a2 h => by cases h; exact hba'⟩
    obtain ⟨e, he, heb⟩ := hst.noLeak b hb'.1
    have hk : e.1 ≠ k := by
      intro hk
      have : lookup m k = some e.2 := (mem_iff_lookup hs k e.2).mp (by rw [← hk]; exact he)
      exact hb'.2 e.2 this heb.symm
    exact ⟨e, (mem_del_iff hs k e).mpr ⟨he, hk⟩, heb⟩
  · show derefList _ (del m k) = _
    rw [derefList_eq, map_del (f := σ) hs k hkeep, ← derefList_eq, habs,
      ← map_del (f := some) (g := some) (habs.sorted hs) k (fun _ _ _ => rfl)]
  · intro b
    constructor
    · rintro ⟨⟨e, he, heb⟩, hn⟩
      have hk : e.1 = k := by
        apply Classical.byContradiction
        intro hk
        exact hn ⟨e, (mem_del_iff hs k e).mpr ⟨he, hk⟩, heb⟩
      rw [← heb]; exact (mem_iff_lookup hs k e.2).mp (by rw [← hk]; exact he)
    · intro hl
      have hm : (k, b) ∈ m := (mem_iff_lookup hs k b).mpr hl
      refine ⟨⟨(k, b), hm, rfl⟩, ?_⟩
      rintro ⟨x, hx, hxb⟩
      obtain ⟨hx, hk⟩ := (mem_del_iff hs k x).mp hx
      exact hk (hst.inj x hx (k, b) hm hxb)

/-! ### one change, a list of changes -/

/-- what holds between the address-level state and the value enumeration `l` -/
structure AInv (s : AState V) (l : List (Key × V)) : Prop where
  tree : treeInvB s.tree = true
  ok : s.ok = true
  store : StoreInv s.store s.tree.toList
  abs : Abs s.store s.tree.toList l

theorem applyOneA_spec (al : Alloc V) (hal : AllocOK al) (s : AState V) (l : List (Key × V))
    (op : Op V) (h : AInv s l) :
    AInv (applyOneA al s op) (specApply [op] l) ∧
    ∃ rel, (applyOneA al s op).released = rel ++ s.released ∧
      ∀ b, b ∈ rel ↔ (Refd s.tree.toList b ∧ ¬ Refd (applyOneA al s op).tree.toList b) := by
  obtain ⟨htree, hok, hst, habs⟩ := h
  obtain ⟨hw, ho⟩ := (treeInvB_iff s.tree).mp htree
  have hs : Sorted s.tree.toList := hw.2
  cases op with
  | set k v =>
    -- the slot of the new value
    have hfr : lookup s.tree.toList k = some (al.slot s.store (lookup s.tree.toList k) v) ∨
        s.store (al.slot s.store (lookup s.tree.toList k) v) = none := by
      cases ho' : lookup s.tree.toList k with
      | none => exact Or.inr (hal.1 _ _ hst.exists_free)
      | some a =>
        rcases hal.2 s.store a v hst.exists_free with e | e
        · exact Or.inl (by simp only [Alloc.slot, e])
        · exact Or.inr e
    generalize ha' : al.slot s.store (lookup s.tree.toList k) v = a' at hfr
    obtain ⟨o1, o2⟩ := applyOne_occ s.tree (.set k a') hw ho
    obtain ⟨w1, w2⟩ := applyOne_spec s.tree (.set k a') hw o1
    have w1' : (applyOne s.tree (.set k a')).1.toList = put s.tree.toList k a' := w1
    obtain ⟨p1, p2, p3⟩ := put_step k v a' hs hst habs hfr
    have hstate : applyOneA al s (.set k v) =
        { tree := (applyOne s.tree (.set k a')).1,
          store := (s.store.clear (lookup s.tree.toList k)).set a' (some v),
          released := relOnSet (lookup s.tree.toList k) a' ++ s.released,
          ok := s.ok && (applyOne s.tree (.set k a')).2 } := by
      simp only [applyOneA, ha']
    rw [hstate]
    refine ⟨⟨(treeInvB_iff _).mpr ⟨w2, o2⟩, by simp [hok, o1], ?_, ?_⟩, _, rfl, ?_⟩
    · show StoreInv _ (applyOne s.tree (.set k a')).1.toList
      rw [w1']; exact p1
    · show Abs _ (applyOne s.tree (.set k a')).1.toList _
      rw [w1']; exact p2
    · intro b
      show _ ↔ (_ ∧ ¬ Refd (applyOne s.tree (.set k a')).1.toList b)
      rw [w1', p3 b]
      cases ho' : lookup s.tree.toList k with
      | none => simp [relOnSet]
      | some a =>
        by_cases e : a' = a
        · subst e; simp [relOnSet]
        · simp only [relOnSet, e, if_false, List.mem_singleton, Option.some.injEq]
          constructor
          · rintro rfl; exact ⟨rfl, e⟩
          · rintro ⟨rfl, _⟩; rfl
  | del k =>
    obtain ⟨o1, o2⟩ := applyOne_occ s.tree (.del k) hw ho
    obtain ⟨w1, w2⟩ := applyOne_spec s.tree (.del k) hw o1
    have w1' : (applyOne s.tree (.del k)).1.toList = del s.tree.toList k := w1
    obtain ⟨p1, p2, p3⟩ := del_step k hs hst habs
    have hstate : applyOneA al s (.del k) =
        { tree := (applyOne s.tree (.del k)).1,
          store := s.store.clear (lookup s.tree.toList k),
          released := (lookup s.tree.toList k).toList ++ s.released,
          ok := s.ok && (applyOne s.tree (.del k)).2 } := rfl
    rw [hstate]
    refine ⟨⟨(treeInvB_iff _).mpr ⟨w2, o2⟩, by simp [hok, o1], ?_, ?_⟩, _, rfl, ?_⟩
    · show StoreInv _ (applyOne s.tree (.del k)).1.toList
      rw [w1']; exact p1
    · show Abs _ (applyOne s.tree (.del k)).1.toList _
      rw [w1']; exact p2
    · intro b
      show _ ↔ (_ ∧ ¬ Refd (applyOne s.tree (.del k)).1.toList b)
      rw [w1', p3 b]
      cases lookup s.tree.toList k with
      | none => simp
      | some a => simp [eq_comm]

theorem applyListA_spec (al : Alloc V) (hal : AllocOK al) (ops : List (Op V)) :
    ∀ (s : AState V) (l : List (Key × V)), AInv s l → AInv (applyListA al s ops) (specApply ops l) := by
  induction ops with
  | nil => intro s l h; exact h
  | cons op ops ih =>
    intro s l h
    exact ih _ _ (applyOneA_spec al hal s l op h).1

end Pdb.C04
