/-
Replay absorbs any partial earlier replay (crash during recovery, repeated crashes).
-/
import Pdb.Proofs.PipelineThm

set_option linter.unusedSectionVars false
namespace Pdb
variable {K V : Type} [DecidableEq K]

theorem applyRecs_eq (t : Tbl K V) (rs : List (Rec K V)) (k : K) :
    applyRecs t rs k = (lastW rs.flatten k).getD (t k) := by
  induction rs using list_snoc_induction with
  | nil => simp [applyRecs, lastW]
  | snoc rs r ih =>
    rw [applyRecs_snoc, applyRec_eq, ih]
    simp only [List.flatten_append, List.flatten_cons, List.flatten_nil, List.append_nil]
    rw [lastW_append]
    cases lastW r k <;> simp

/-- If `x` agrees with `t` on every location that the records do not write, replaying the
    records over `x` gives the same tables as replaying them over `t`: whatever part of an
    earlier (interrupted) replay or enactment already reached the files is absorbed. -/
theorem replay_absorbs (t x : Tbl K V) (rs : List (Rec K V))
    (h : ∀ k, lastW rs.flatten k = none → x k = t k) : applyRecs x rs = applyRecs t rs := by
  funext k
  rw [applyRecs_eq, applyRecs_eq]
  cases hk : lastW rs.flatten k with
  | some c => rfl
  | none => simp [h k hk]

theorem lastW_flatten_none_iff {β : Type} (rs : List (List (K × β))) (k : K) :
    lastW rs.flatten k = none ↔ ∀ r ∈ rs, lastW r k = none := by
  induction rs with
  | nil => simp [lastW]
  | cons r rs ih =>
    simp only [List.flatten_cons, lastW_append, List.mem_cons, forall_eq_or_imp]
    cases h1 : lastW rs.flatten k with
    | some x =>
      simp only [Option.some_or, reduceCtorEq, false_iff, not_and]
      intro _ h
      rw [ih.mpr h] at h1
      cases h1
    | none =>
      simp only [Option.none_or]
      exact ⟨fun h => ⟨h, ih.mp h1⟩, fun h => h.1⟩

/-- Any interrupted replay of `rs` over `t` (first `i` records, then `j` writes of the next)
    leaves a state from which a full replay of `rs` still yields `applyRecs t rs`. -/
theorem replay_after_partial_replay (t : Tbl K V) (rs : List (Rec K V)) (i j : Nat) :
    applyRecs (applyRecPrefix j (applyRecs t (rs.take i)) (rs.getD i [])) rs = applyRecs t rs := by
  apply replay_absorbs
  intro k hk
  have hall := (lastW_flatten_none_iff rs k).mp hk
  have h1 : lastW (rs.take i).flatten k = none :=
    (lastW_flatten_none_iff _ k).mpr (fun r hr => hall r (List.mem_of_mem_take hr))
  have h2 : lastW ((rs.getD i []).take j) k = none := by
    apply lastW_take_none
    by_cases hi : i < rs.length
    · have : rs.getD i [] = rs[i] := by simp [List.getD, hi]
      rw [this]
      exact hall _ (List.getElem_mem hi)
    · simp [List.getD, List.getElem?_eq_none (Nat.le_of_not_lt hi), lastW]
  simp only [applyRecPrefix]
  rw [applyRec_eq, h2, applyRecs_eq, h1]
  rfl

end Pdb
