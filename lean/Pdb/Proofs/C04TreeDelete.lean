/-
C04 (c): `rebalance` (both rotations and the merge) keeps the in-order enumeration and the
shape; `remove_last` splits off the greatest entry; `Node::change` for a Dereference refines
`del`.  Everything is conditional on the outcome not being `Res.stuck` (which needs the
occupancy part of TreeInv: C04TreeOcc.lean proves it unreachable).
-/
import Pdb.Proofs.C04TreeInsert

namespace Pdb.C04
variable {V : Type}

/-! ### two adjacent children and the separator between them -/

theorem toList_pair (d : Nat) (A : List (Node V)) (l r : Node V) (B : List (Node V))
    (S1 : List (Key × V)) (sep : Key × V) (S2 : List (Key × V)) (h : A.length = S1.length) :
    toList (d + 1) (.mk (S1 ++ sep :: S2) (A ++ l :: r :: B)) =
      zipL (A.map (toList d)) S1 ++
        ((toList d l ++ sep :: toList d r) ++ zipR S2 (B.map (toList d))) := by
  rw [toList_node d A l (r :: B) S1 (sep :: S2) h]
  simp [zipR, List.append_assoc]

theorem split_pair {cl : List (Node V)} {seps : List (Key × V)} {j : Nat}
    (hlen : cl.length = seps.length + 1) (hj : j < seps.length) :
    ∃ A l r B S1 sep S2, cl = A ++ l :: r :: B ∧ seps = S1 ++ sep :: S2 ∧
      A.length = j ∧ S1.length = j := by
  have h1 : j < cl.length := by omega
  have h2 : j + 1 < cl.length := by omega
  refine ⟨cl.take j, cl[j], cl[j + 1], cl.drop (j + 2), seps.take j, seps[j], seps.drop (j + 1),
    ?_, ?_, ?_, ?_⟩
  · rw [← List.drop_eq_getElem_cons h2, ← List.drop_eq_getElem_cons h1, List.take_append_drop]
  · rw [← List.drop_eq_getElem_cons hj, List.take_append_drop]
  · simp; omega
  · simp; omega

/-- the segment `left, sep, right` of the parent's enumeration -/
def seg (d : Nat) (l : Node V) (sep : Key × V) (r : Node V) : List (Key × V) :=
  toList d l ++ sep :: toList d r

/-! ### snoc / cons on a node -/

theorem toList_snoc (d : Nat) (ls : List (Key × V)) (s : Key × V) (lc : List (Node V))
    (hw : WF d (.mk (ls ++ [s]) lc)) :
    toList d (.mk (ls ++ [s]) lc) =
      toList d (.mk ls lc.dropLast) ++ s :: (lc.getLast?.toList.map (toList (d - 1))).flatten := by
  cases d with
  | zero =>
    have : lc = [] := hw
    subst this
    simp [toList]
  | succ d =>
    obtain ⟨hlen, _⟩ := hw
    simp only [Node.children_mk, Node.seps_mk, List.length_append, List.length_singleton] at hlen
    have hne : lc ≠ [] := by intro e; subst e; simp at hlen
    obtain ⟨lc', c, rfl⟩ : ∃ lc' c, lc = lc' ++ [c] :=
      ⟨lc.dropLast, lc.getLast hne, (List.dropLast_concat_getLast hne).symm⟩
    have hl' : lc'.length = ls.length + 1 := by simpa using hlen
    rw [toList_succ, toList_succ]
    simp only [Node.children_mk, Node.seps_mk, List.map_append, List.map_cons, List.map_nil,
      List.dropLast_concat, List.getLast?_append, List.getLast?_singleton, Option.some_or,
      Option.toList_some, List.flatten_cons, List.flatten_nil, List.append_nil, Nat.add_sub_cancel]
    have := interleave_split (lc'.map (toList d)) [toList d c] ls s [] (by simpa using hl')
      (by simp)
    simpa [interleave, zipR] using this

theorem toList_cons (d : Nat) (s : Key × V) (rs : List (Key × V)) (c : Option (Node V))
    (rc : List (Node V)) (hw : WF d (.mk rs rc)) (hc : d = 0 → c = none) (hc' : d ≠ 0 → c.isSome) :
    toList d (.mk (s :: rs) (c.toList ++ rc)) =
      (c.toList.map (toList (d - 1))).flatten ++ s :: toList d (.mk rs rc) := by
  cases d with
  | zero =>
    have : rc = [] := hw
    subst this
    simp [toList, hc rfl]
  | succ d =>
    obtain ⟨hlen, _⟩ := hw
    simp only [Node.children_mk, Node.seps_mk] at hlen
    have hne : rc ≠ [] := by intro e; subst e; simp at hlen
    cases c with
    | none => simp at hc'
    | some c =>
      rw [toList_succ, toList_succ]
      simp only [Node.children_mk, Node.seps_mk, Option.toList_some, List.cons_append,
        List.nil_append, List.map_cons, List.map_nil, List.flatten_cons, List.flatten_nil,
        List.append_nil, Nat.add_sub_cancel]
      show toList d c ++ zipR (s :: rs) (rc.map (toList d)) = _
      rw [zipR_cons_of_ne_nil s rs (by simpa using hne)]

/-! ### rotations and merge keep the segment -/

theorem WF_children_nil {d : Nat} {n : Node V} (h : WF d n) (hd : d = 0) : n.children = [] := by
  subst hd; exact h

theorem getLast?_decomp {α : Type} {l : List α} {x : α} (h : l.getLast? = some x) :
    ∃ l', l = l' ++ [x] := by
  have hne : l ≠ [] := by intro e; subst e; simp at h
  rw [List.getLast?_eq_some_getLast hne] at h
  refine ⟨l.dropLast, ?_⟩
  have := List.dropLast_concat_getLast hne
  rw [Option.some.inj h] at this
  exact this.symm

theorem rotRight_seg (d : Nat) (ls' : List (Key × V)) (sep2 : Key × V) (lc : List (Node V))
    (r : Node V) (sep : Key × V) (hl : WF d (.mk (ls' ++ [sep2]) lc)) (hr : WF d r) :
    seg d (.mk ls' lc.dropLast) sep2
        (.mk (sep :: r.seps) (lc.getLast?.toList ++ r.children)) =
      seg d (.mk (ls' ++ [sep2]) lc) sep r ∧
    WF d (.mk ls' lc.dropLast) ∧
    WF d (.mk (sep :: r.seps) (lc.getLast?.toList ++ r.children)) := by
  obtain ⟨rs, rc⟩ := r
  simp only [Node.seps_mk, Node.children_mk]
  unfold seg
  rw [toList_snoc d ls' sep2 lc hl]
  cases d with
  | zero =>
    have e1 : lc = [] := hl
    have e2 : rc = [] := hr
    subst e1; subst e2
    simp [toList, WF]
  | succ d =>
    obtain ⟨hll, hlc⟩ := hl
    obtain ⟨hrl, hrc⟩ := hr
    simp only [Node.children_mk, Node.seps_mk, List.length_append, List.length_singleton] at hll hlc hrl hrc
    have hlne : lc ≠ [] := by intro e; subst e; simp at hll
    have hgl : lc.getLast? = some (lc.getLast hlne) := List.getLast?_eq_some_getLast hlne
    rw [hgl]
    have hcons := toList_cons (d + 1) sep rs (some (lc.getLast hlne)) rc ⟨hrl, hrc⟩
      (by intro h; cases h) (by intro _; rfl)
    simp only [Option.toList_some, List.cons_append, List.nil_append] at hcons ⊢
    rw [hcons]
    refine ⟨by simp [List.append_assoc], ⟨?_, ?_⟩, ⟨?_, ?_⟩⟩
    · simp only [Node.children_mk, Node.seps_mk, List.length_dropLast]; omega
    · intro c hc
      exact hlc c (List.dropLast_subset _ hc)
    · simp only [Node.children_mk, Node.seps_mk, List.length_cons]; omega
    · intro c hc
      rcases List.mem_cons.mp hc with rfl | hc
      · exact hlc _ (List.getLast_mem hlne)
      · exact hrc c hc

theorem rotLeft_seg (d : Nat) (l r : Node V) (sep sep2 : Key × V) (hl : WF d l) (hr : WF d r)
    (hs2 : r.seps.head? = some sep2) :
    seg d (.mk (l.seps ++ [sep]) (l.children ++ r.children.head?.toList)) sep2
        (.mk r.seps.tail r.children.tail) = seg d l sep r ∧
    WF d (.mk (l.seps ++ [sep]) (l.children ++ r.children.head?.toList)) ∧
    WF d (.mk r.seps.tail r.children.tail) := by
  obtain ⟨ls, lc⟩ := l
  obtain ⟨rs, rc⟩ := r
  simp only [Node.seps_mk, Node.children_mk] at hs2 ⊢
  cases rs with
  | nil => simp at hs2
  | cons s rs' =>
    have : s = sep2 := by simpa using hs2
    subst this
    simp only [List.tail_cons]
    unfold seg
    cases d with
    | zero =>
      have e1 : lc = [] := hl
      have e2 : rc = [] := hr
      subst e1; subst e2
      simp [toList, WF]
    | succ d =>
      obtain ⟨hll, hlc⟩ := hl
      obtain ⟨hrl, hrc⟩ := hr
      simp only [Node.children_mk, Node.seps_mk, List.length_cons] at hll hlc hrl hrc
      cases rc with
      | nil => simp at hrl
      | cons c rc' =>
        simp only [List.head?_cons, Option.toList_some, List.tail_cons]
        have hw1 : WF (d + 1) (.mk (ls ++ [sep]) (lc ++ [c])) := by
          refine ⟨by simp; omega, ?_⟩
          intro x hx
          simp only [Node.children_mk, List.mem_append, List.mem_singleton] at hx
          rcases hx with hx | rfl
          · exact hlc x hx
          · exact hrc _ (by simp)
        have hw2 : WF (d + 1) (.mk rs' rc') := by
          refine ⟨by simp at hrl ⊢; omega, ?_⟩
          intro x hx
          exact hrc x (List.mem_cons_of_mem _ hx)
        have hsn := toList_snoc (d + 1) ls sep (lc ++ [c]) hw1
        simp only [List.dropLast_concat, List.getLast?_append, List.getLast?_singleton,
          Option.some_or, Option.toList_some, List.map_cons, List.map_nil, List.flatten_cons,
          List.flatten_nil, List.append_nil, Nat.add_sub_cancel] at hsn
        have hcons := toList_cons (d + 1) s rs' (some c) rc' hw2 (by intro h; cases h)
          (by intro _; rfl)
        simp only [Option.toList_some, List.cons_append, List.nil_append, List.map_cons,
          List.map_nil, List.flatten_cons, List.flatten_nil, List.append_nil,
          Nat.add_sub_cancel] at hcons
        rw [hsn, hcons]
        exact ⟨by simp [List.append_assoc], hw1, hw2⟩

theorem merge_seg (d : Nat) (l r : Node V) (sep : Key × V) (hl : WF d l) (hr : WF d r) :
    toList d (.mk (l.seps ++ sep :: r.seps) (l.children ++ r.children)) = seg d l sep r ∧
    WF d (.mk (l.seps ++ sep :: r.seps) (l.children ++ r.children)) := by
  obtain ⟨ls, lc⟩ := l
  obtain ⟨rs, rc⟩ := r
  simp only [Node.seps_mk, Node.children_mk]
  unfold seg
  cases d with
  | zero =>
    have e1 : lc = [] := hl
    have e2 : rc = [] := hr
    subst e1; subst e2
    simp [toList, WF]
  | succ d =>
    obtain ⟨hll, hlc⟩ := hl
    obtain ⟨hrl, hrc⟩ := hr
    simp only [Node.children_mk, Node.seps_mk] at hll hlc hrl hrc
    have hrne : rc ≠ [] := by intro e; subst e; simp at hrl
    refine ⟨?_, ⟨by simp; omega, ?_⟩⟩
    · rw [toList_succ, toList_succ, toList_succ]
      simp only [Node.children_mk, Node.seps_mk, List.map_append]
      exact interleave_split _ _ _ _ _ (by simpa using hll) (by simpa using hrne)
    · intro x hx
      simp only [Node.children_mk, List.mem_append] at hx
      rcases hx with hx | hx
      · exact hlc x hx
      · exact hrc x hx

/-! ### the three moves inside the parent -/

/-- A parent whose children `j`, `j+1` and separator `j` are replaced by a pair with the same
    segment keeps its enumeration. -/
theorem replace_pair (d : Nat) (A : List (Node V)) (l r l' r' : Node V) (B : List (Node V))
    (S1 : List (Key × V)) (sep sep' : Key × V) (S2 : List (Key × V)) (h : A.length = S1.length)
    (hseg : seg d l' sep' r' = seg d l sep r) :
    toList (d + 1) (.mk (S1 ++ sep' :: S2) (A ++ l' :: r' :: B)) =
      toList (d + 1) (.mk (S1 ++ sep :: S2) (A ++ l :: r :: B)) := by
  rw [toList_pair d A l' r' B S1 sep' S2 h, toList_pair d A l r B S1 sep S2 h]
  unfold seg at hseg
  rw [hseg]

theorem WF_pair {d : Nat} {A : List (Node V)} {l r : Node V} {B : List (Node V)}
    {S1 : List (Key × V)} {sep : Key × V} {S2 : List (Key × V)}
    (h : WF (d + 1) (.mk (S1 ++ sep :: S2) (A ++ l :: r :: B))) :
    WF d l ∧ WF d r ∧ (∀ x ∈ A, WF d x) ∧ (∀ x ∈ B, WF d x) ∧
      A.length + B.length = S1.length + S2.length := by
  obtain ⟨hlen, hch⟩ := h
  simp only [Node.children_mk, Node.seps_mk, List.length_append, List.length_cons] at hlen hch
  refine ⟨hch l (by simp), hch r (by simp), fun x hx => hch x (by simp [hx]),
    fun x hx => hch x (by simp [hx]), by omega⟩

theorem WF_pair_mk {d : Nat} {A : List (Node V)} {l r : Node V} {B : List (Node V)}
    {S1 : List (Key × V)} {sep : Key × V} {S2 : List (Key × V)}
    (hl : WF d l) (hr : WF d r) (hA : ∀ x ∈ A, WF d x) (hB : ∀ x ∈ B, WF d x)
    (hlen : A.length + B.length = S1.length + S2.length) :
    WF (d + 1) (.mk (S1 ++ sep :: S2) (A ++ l :: r :: B)) := by
  refine ⟨by simp; omega, ?_⟩
  intro x hx
  simp only [Node.children_mk, List.mem_append, List.mem_cons] at hx
  rcases hx with hx | rfl | rfl | hx
  · exact hA x hx
  · exact hl
  · exact hr
  · exact hB x hx

theorem rotRight_spec (d : Nat) (A : List (Node V)) (l r : Node V) (B : List (Node V))
    (S1 : List (Key × V)) (sep : Key × V) (S2 : List (Key × V)) (h : A.length = S1.length)
    (hw : WF (d + 1) (.mk (S1 ++ sep :: S2) (A ++ l :: r :: B))) (n' : Node V)
    (hr : rotRight (.mk (S1 ++ sep :: S2) (A ++ l :: r :: B)) (A.length + 1) l r = some n') :
    toList (d + 1) n' = toList (d + 1) (.mk (S1 ++ sep :: S2) (A ++ l :: r :: B)) ∧
    WF (d + 1) n' := by
  obtain ⟨hl, hrw, hA, hB, hlen⟩ := WF_pair hw
  unfold rotRight at hr
  simp only [Node.seps_mk, Node.children_mk, Nat.add_sub_cancel] at hr
  rw [getElem?_mid h.symm] at hr
  cases hs2 : l.seps.getLast? with
  | none => simp [hs2] at hr
  | some sep2 =>
    simp only [hs2, Option.some.injEq] at hr
    subst hr
    obtain ⟨ls, lc⟩ := l
    simp only [Node.seps_mk, Node.children_mk] at hs2 ⊢
    obtain ⟨ls', rfl⟩ := getLast?_decomp hs2
    obtain ⟨e1, w1, w2⟩ := rotRight_seg d ls' sep2 lc r sep hl hrw
    rw [List.dropLast_concat, set_mid h.symm, set_mid rfl]
    have e3 : (A ++ Node.mk ls' lc.dropLast :: r :: B).set (A.length + 1)
        (Node.mk (sep :: r.seps) (lc.getLast?.toList ++ r.children)) =
        A ++ Node.mk ls' lc.dropLast ::
          Node.mk (sep :: r.seps) (lc.getLast?.toList ++ r.children) :: B := by
      have : A ++ Node.mk ls' lc.dropLast :: r :: B =
          (A ++ [Node.mk ls' lc.dropLast]) ++ r :: B := by simp
      rw [this, set_mid (by simp)]
      simp
    rw [e3]
    exact ⟨replace_pair d A _ r _ _ B S1 sep sep2 S2 h e1, WF_pair_mk w1 w2 hA hB hlen⟩

theorem rotLeft_spec (d : Nat) (A : List (Node V)) (l r : Node V) (B : List (Node V))
    (S1 : List (Key × V)) (sep : Key × V) (S2 : List (Key × V)) (h : A.length = S1.length)
    (hw : WF (d + 1) (.mk (S1 ++ sep :: S2) (A ++ l :: r :: B))) (n' : Node V)
    (hr : rotLeft (.mk (S1 ++ sep :: S2) (A ++ l :: r :: B)) A.length l r = some n') :
    toList (d + 1) n' = toList (d + 1) (.mk (S1 ++ sep :: S2) (A ++ l :: r :: B)) ∧
    WF (d + 1) n' := by
  obtain ⟨hl, hrw, hA, hB, hlen⟩ := WF_pair hw
  unfold rotLeft at hr
  simp only [Node.seps_mk, Node.children_mk] at hr
  rw [getElem?_mid h.symm] at hr
  cases hs2 : r.seps.head? with
  | none => simp [hs2] at hr
  | some sep2 =>
    simp only [hs2, Option.some.injEq] at hr
    subst hr
    obtain ⟨e1, w1, w2⟩ := rotLeft_seg d l r sep sep2 hl hrw hs2
    rw [set_mid h.symm, set_mid rfl]
    have e3 : (A ++ Node.mk (l.seps ++ [sep]) (l.children ++ r.children.head?.toList) :: r :: B).set
        (A.length + 1) (Node.mk r.seps.tail r.children.tail) =
        A ++ Node.mk (l.seps ++ [sep]) (l.children ++ r.children.head?.toList) ::
          Node.mk r.seps.tail r.children.tail :: B := by
      have : A ++ Node.mk (l.seps ++ [sep]) (l.children ++ r.children.head?.toList) :: r :: B =
          (A ++ [Node.mk (l.seps ++ [sep]) (l.children ++ r.children.head?.toList)]) ++ r :: B := by
        simp
      rw [this, set_mid (by simp)]
      simp
    rw [e3]
    exact ⟨replace_pair d A l r _ _ B S1 sep sep2 S2 h e1, WF_pair_mk w1 w2 hA hB hlen⟩

theorem mergeAt_spec (d : Nat) (A : List (Node V)) (l r : Node V) (B : List (Node V))
    (S1 : List (Key × V)) (sep : Key × V) (S2 : List (Key × V)) (h : A.length = S1.length)
    (hw : WF (d + 1) (.mk (S1 ++ sep :: S2) (A ++ l :: r :: B))) (n' : Node V)
    (hr : mergeAt (.mk (S1 ++ sep :: S2) (A ++ l :: r :: B)) A.length = some n') :
    toList (d + 1) n' = toList (d + 1) (.mk (S1 ++ sep :: S2) (A ++ l :: r :: B)) ∧
    WF (d + 1) n' := by
  obtain ⟨hl, hrw, hA, hB, hlen⟩ := WF_pair hw
  unfold mergeAt at hr
  simp only [Node.seps_mk, Node.children_mk] at hr
  have g1 : (A ++ l :: r :: B)[A.length]? = some l := getElem?_mid rfl
  have g2 : (A ++ l :: r :: B)[A.length + 1]? = some r := by
    have : A ++ l :: r :: B = (A ++ [l]) ++ r :: B := by simp
    rw [this]; exact getElem?_mid (by simp)
  rw [g1, g2, getElem?_mid h.symm] at hr
  simp only [Option.some.injEq] at hr
  subst hr
  obtain ⟨e1, w1⟩ := merge_seg d l r sep hl hrw
  rw [eraseIdx_mid h.symm, set_mid rfl]
  have e3 : (A ++ Node.mk (l.seps ++ sep :: r.seps) (l.children ++ r.children) :: r :: B).eraseIdx
      (A.length + 1) = A ++ Node.mk (l.seps ++ sep :: r.seps) (l.children ++ r.children) :: B := by
    have : A ++ Node.mk (l.seps ++ sep :: r.seps) (l.children ++ r.children) :: r :: B =
        (A ++ [Node.mk (l.seps ++ sep :: r.seps) (l.children ++ r.children)]) ++ r :: B := by simp
    rw [this, eraseIdx_mid (by simp)]
    simp
  rw [e3]
  refine ⟨?_, ⟨by simp; omega, ?_⟩⟩
  · rw [toList_node d A _ B S1 S2 h, toList_pair d A l r B S1 sep S2 h, e1]
    unfold seg
    simp [List.append_assoc]
  · intro x hx
    simp only [Node.children_mk, List.mem_append, List.mem_cons] at hx
    rcases hx with hx | rfl | hx
    · exact hA x hx
    · exact w1
    · exact hB x hx

theorem getElem?_pair {α : Type} {A : List α} {l r : α} {B : List α} {j : Nat}
    (h : A.length = j) : (A ++ l :: r :: B)[j]? = some l ∧ (A ++ l :: r :: B)[j + 1]? = some r := by
  refine ⟨getElem?_mid h, ?_⟩
  have : A ++ l :: r :: B = (A ++ [l]) ++ r :: B := by simp
  rw [this]; exact getElem?_mid (by simp [h])

theorem rebalance_mk (seps : List (Key × V)) (cl : List (Node V)) (i : Nat) :
    rebalance (.mk seps cl) i =
      if sibLarge (if i > 0 then cl[i - 1]? else none) then
        rotRightO (.mk seps cl) i (if i > 0 then cl[i - 1]? else none) cl[i]?
      else if sibLarge (if i + 1 < seps.length + 1 then cl[i + 1]? else none) then
        rotLeftO (.mk seps cl) i cl[i]? (if i + 1 < seps.length + 1 then cl[i + 1]? else none)
      else if i + 1 = seps.length + 1 then
        (if i = 0 then none else mergeAt (.mk seps cl) (i - 1))
      else mergeAt (.mk seps cl) i := rfl

/-- `rebalance` keeps the enumeration and the shape of the parent. -/
theorem rebalance_spec (d : Nat) (n : Node V) (hw : WF (d + 1) n) (i : Nat) (n' : Node V)
    (hr : rebalance n i = some n') :
    toList (d + 1) n' = toList (d + 1) n ∧ WF (d + 1) n' := by
  obtain ⟨seps, cl⟩ := n
  have hlen : cl.length = seps.length + 1 := hw.1
  rw [rebalance_mk] at hr
  -- helper: the pair decomposition at index j
  have pair : ∀ j, j < seps.length → ∃ A l r B S1 sep S2, cl = A ++ l :: r :: B ∧
      seps = S1 ++ sep :: S2 ∧ A.length = j ∧ S1.length = j := fun j hj => split_pair hlen hj
  by_cases hfl : sibLarge (if i > 0 then cl[i - 1]? else none) = true
  · -- take from the left sibling
    rw [if_pos hfl] at hr
    have hi : i > 0 := by
      by_cases hi : i > 0
      · exact hi
      · simp [hi, sibLarge] at hfl
    rw [if_pos hi] at hr
    cases hl : cl[i - 1]? with
    | none => simp [hl, rotRightO] at hr
    | some l =>
      cases hc : cl[i]? with
      | none => simp [hl, hc, rotRightO] at hr
      | some c =>
        simp only [hl, hc, rotRightO] at hr
        have hil : i < cl.length := (List.getElem?_eq_some_iff.mp hc).1
        obtain ⟨A, l0, r0, B, S1, sep, S2, ec, es, hA, hS⟩ := pair (i - 1) (by omega)
        subst ec; subst es
        obtain ⟨e1, e2⟩ := getElem?_pair (l := l0) (r := r0) (B := B) hA
        have hi' : i - 1 + 1 = i := by omega
        rw [hi'] at e2
        rw [e1] at hl; rw [e2] at hc
        have hl' := Option.some.inj hl
        have hc' := Option.some.inj hc
        subst hl'; subst hc'
        have hi'' : i = A.length + 1 := by omega
        rw [hi''] at hr
        exact rotRight_spec d A l0 r0 B S1 sep S2 (by omega) hw n' hr
  · rw [if_neg hfl] at hr
    by_cases hfr : sibLarge (if i + 1 < seps.length + 1 then cl[i + 1]? else none) = true
    · -- take from the right sibling
      rw [if_pos hfr] at hr
      have hi : i + 1 < seps.length + 1 := by
        by_cases hi : i + 1 < seps.length + 1
        · exact hi
        · simp [hi, sibLarge] at hfr
      rw [if_pos hi] at hr
      cases hrr : cl[i + 1]? with
      | none => cases hc : cl[i]? <;> simp [hrr, hc, rotLeftO] at hr
      | some r =>
        cases hc : cl[i]? with
        | none => simp [hrr, hc, rotLeftO] at hr
        | some c =>
          simp only [hrr, hc, rotLeftO] at hr
          obtain ⟨A, l0, r0, B, S1, sep, S2, ec, es, hA, hS⟩ := pair i (by omega)
          subst ec; subst es
          obtain ⟨e1, e2⟩ := getElem?_pair (l := l0) (r := r0) (B := B) hA
          rw [e1] at hc; rw [e2] at hrr
          have hc' := Option.some.inj hc
          have hr' := Option.some.inj hrr
          subst hc'; subst hr'
          rw [← hA] at hr
          exact rotLeft_spec d A l0 r0 B S1 sep S2 (by omega) hw n' hr
    · rw [if_neg hfr] at hr
      by_cases hlast : i + 1 = seps.length + 1
      · rw [if_pos hlast] at hr
        by_cases hi0 : i = 0
        · simp [hi0] at hr
        · rw [if_neg hi0] at hr
          obtain ⟨A, l0, r0, B, S1, sep, S2, ec, es, hA, hS⟩ := pair (i - 1) (by omega)
          subst ec; subst es
          rw [← hA] at hr
          exact mergeAt_spec d A l0 r0 B S1 sep S2 (by omega) hw n' hr
      · rw [if_neg hlast] at hr
        by_cases hi : i < seps.length
        · obtain ⟨A, l0, r0, B, S1, sep, S2, ec, es, hA, hS⟩ := pair i hi
          subst ec; subst es
          rw [← hA] at hr
          exact mergeAt_spec d A l0 r0 B S1 sep S2 (by omega) hw n' hr
        · -- no such child: mergeAt finds no separator
          exfalso
          unfold mergeAt at hr
          have : seps[i]? = none := by
            apply List.getElem?_eq_none; omega
          simp [this] at hr


/-! ### `remove_last` -/

theorem toList_lastChild (d : Nat) (A : List (Node V)) (c : Node V) (S : List (Key × V))
    (h : A.length = S.length) :
    toList (d + 1) (.mk S (A ++ [c])) = zipL (A.map (toList d)) S ++ toList d c := by
  have := toList_node d A c [] S [] h
  simpa [zipR] using this

theorem removeLast_spec (d : Nat) : ∀ (n : Node V), WF d n → ∀ (n' : Node V) (r : Res V)
    (m : Key × V), removeLast d n = (n', r, some m) → r ≠ .stuck →
      toList d n = toList d n' ++ [m] ∧ WF d n' ∧ (r = .ok ∨ r = .underflow) := by
  induction d with
  | zero =>
    intro n hw n' r m h hr
    obtain ⟨seps, cl⟩ := n
    have : cl = [] := hw
    subst this
    unfold removeLast at h
    simp only [Node.seps_mk, Node.children_mk] at h
    cases hg : seps.getLast? with
    | none => simp [hg] at h
    | some lastSep =>
      obtain ⟨ls', rfl⟩ := getLast?_decomp hg
      simp only [hg, List.dropLast_concat, Prod.mk.injEq, Option.some.injEq] at h
      obtain ⟨rfl, rfl, rfl⟩ := h
      refine ⟨rfl, rfl, ?_⟩
      by_cases hb : needRebalance (Node.mk ls' ([] : List (Node V))) = true
      · rw [if_pos hb]; exact Or.inr rfl
      · rw [if_neg hb]; exact Or.inl rfl
  | succ d ih =>
    intro n hw n' r m h hr
    obtain ⟨seps, cl⟩ := n
    obtain ⟨hlen, hch⟩ := hw
    simp only [Node.seps_mk, Node.children_mk] at hlen hch
    unfold removeLast at h
    simp only [Node.seps_mk, Node.children_mk] at h
    cases hg : seps.getLast? with
    | none => simp [hg] at h
    | some lastSep =>
      simp only [hg] at h
      -- the last child
      obtain ⟨A, c, B, ec, hA, hB⟩ := split_children (n := seps.length) (i := seps.length) hlen
        (Nat.le_refl _)
      have hBnil : B = [] := by
        cases B with
        | nil => rfl
        | cons b B => simp at hB
      subst hBnil
      subst ec
      rw [getElem?_mid hA] at h
      simp only at h
      have hcw : WF d c := hch c (by simp)
      have hAw : ∀ x ∈ A, WF d x := fun x hx => hch x (by simp [hx])
      cases hrl : removeLast d c with
      | mk c' rest =>
        obtain ⟨r', o'⟩ := rest
        rw [hrl] at h
        have hset : (A ++ [c]).set seps.length c' = A ++ [c'] := set_mid hA
        have hw1 : WF (d + 1) (.mk seps (A ++ [c'])) → True := fun _ => trivial
        cases r' with
        | underflow =>
          simp only [hset] at h
          cases hreb : rebalance (Node.mk seps (A ++ [c'])) seps.length with
          | none =>
            simp only [hreb, Prod.mk.injEq] at h
            exact absurd h.2.1.symm hr
          | some n2 =>
            simp only [hreb, Prod.mk.injEq] at h
            obtain ⟨rfl, rfl, rfl⟩ := h
            obtain ⟨i1, i2, _⟩ := ih c hcw c' .underflow m hrl (by simp)
            have hw1 : WF (d + 1) (.mk seps (A ++ [c'])) := by
              refine ⟨by simpa using hlen, ?_⟩
              intro x hx
              simp only [Node.children_mk, List.mem_append, List.mem_singleton] at hx
              rcases hx with hx | rfl
              · exact hAw x hx
              · exact i2
            obtain ⟨e1, e2⟩ := rebalance_spec d _ hw1 _ _ hreb
            refine ⟨?_, e2, ?_⟩
            · rw [e1, toList_lastChild d A c seps hA, toList_lastChild d A c' seps hA, i1]
              simp [List.append_assoc]
            · by_cases hb : needRebalance n2 = true
              · rw [if_pos hb]; exact Or.inr rfl
              · rw [if_neg hb]; exact Or.inl rfl
        | ok =>
          simp only [hset, Prod.mk.injEq] at h
          obtain ⟨rfl, rfl, rfl⟩ := h
          obtain ⟨i1, i2, _⟩ := ih c hcw c' .ok m hrl (by simp)
          refine ⟨?_, ⟨by simpa using hlen, ?_⟩, Or.inl rfl⟩
          · rw [toList_lastChild d A c seps hA, toList_lastChild d A c' seps hA, i1]
            simp [List.append_assoc]
          · intro x hx
            simp only [Node.children_mk, List.mem_append, List.mem_singleton] at hx
            rcases hx with hx | rfl
            · exact hAw x hx
            · exact i2
        | stuck =>
          simp only [hset, Prod.mk.injEq] at h
          exact absurd h.2.1.symm hr
        | split sep right =>
          simp only [hset, Prod.mk.injEq] at h
          obtain ⟨rfl, rfl, rfl⟩ := h
          obtain ⟨_, _, i3⟩ := ih c hcw c' (.split sep right) m hrl (by simp)
          rcases i3 with i3 | i3 <;> cases i3


/-! ### Dereference -/

theorem del_at_true {seps : List (Key × V)} (hs : Sorted seps) (k : Key)
    (h : (position seps k).1 = true) : del seps k = seps.eraseIdx (position seps k).2 := by
  obtain ⟨S1, v0, S2, e, hl, h1, h2⟩ := position_true hs h
  rw [← hl]
  conv => lhs; rw [e]
  conv => rhs; rw [e]
  rw [eraseIdx_mid rfl]
  have hs' : Sorted (S1 ++ ([(k, v0)] ++ S2)) := by rw [e] at hs; simpa using hs
  have := del_middle (M := [(k, v0)]) hs' h1 h2
  simpa [del] using this

theorem del_at_false {seps : List (Key × V)} (hs : Sorted seps) (k : Key)
    (h : (position seps k).1 = false) : del seps k = seps := by
  obtain ⟨S1, S2, e, _, h1, h2⟩ := position_false hs h
  apply del_not_mem
  intro x hx
  rw [e] at hx
  rcases List.mem_append.mp hx with hx | hx
  · exact keyLt_ne (h1 x hx)
  · exact fun e' => keyLt_ne (h2 x hx) e'.symm

theorem ite_underflow_cases (b : Bool) :
    ((if b = true then (Res.underflow : Res V) else .ok) = .ok ∨
     (if b = true then (Res.underflow : Res V) else .ok) = .underflow) := by
  cases b <;> simp

theorem change_del_spec (d : Nat) : ∀ (n : Node V), WF d n → Sorted (toList d n) →
    ∀ (k : Key), (change d n (.del k)).2 ≠ .stuck →
      toList d (change d n (.del k)).1 = del (toList d n) k ∧
      WF d (change d n (.del k)).1 ∧
      ((change d n (.del k)).2 = .ok ∨ (change d n (.del k)).2 = .underflow) := by
  induction d with
  | zero =>
    intro n hwf hs k _
    obtain ⟨seps, cl⟩ := n
    have hcl : cl = [] := hwf
    subst hcl
    have hs' : Sorted seps := hs
    cases hp : (position seps k).1 with
    | true =>
      have e : change 0 (.mk seps []) (.del k) =
          (.mk (seps.eraseIdx (position seps k).2) [],
            if needRebalance (Node.mk (seps.eraseIdx (position seps k).2) ([] : List (Node V))) = true
            then .underflow else .ok) := by
        simp [change, Op.key, hp]
        try rfl
      rw [e]
      exact ⟨(del_at_true hs' k hp).symm, rfl, ite_underflow_cases _⟩
    | false =>
      have e : change 0 (.mk seps []) (.del k) = (.mk seps [], .ok) := by
        simp [change, Op.key, hp]
      rw [e]
      exact ⟨(del_at_false hs' k hp).symm, rfl, Or.inl rfl⟩
  | succ d ih =>
    intro n hwf hs k hns
    obtain ⟨seps, cl⟩ := n
    obtain ⟨hlen, hch⟩ := hwf
    simp only [Node.seps_mk, Node.children_mk] at hlen hch
    have hss : Sorted seps := seps_sorted (n := .mk seps cl) hlen hs
    cases hp : (position seps k).1 with
    | true =>
      -- the key is a separator here: replace it by the greatest entry of the left child
      obtain ⟨S1, v0, S2, es, hl, h1, h2⟩ := position_true hss hp
      obtain ⟨A, c, B, ec, hA, hB⟩ := split_children (n := seps.length) (i := S1.length) hlen
        (by rw [es]; simp)
      have hget : cl[(position seps k).2]? = some c := by
        rw [ec, ← hl]; exact getElem?_mid hA
      have hBne : B ≠ [] := by
        intro e; subst e; rw [es] at hB; simp at hB
      have hcw : WF d c := hch c (by rw [ec]; simp)
      have hchA : ∀ x ∈ A, WF d x := fun x hx => hch x (by rw [ec]; simp [hx])
      have hchB : ∀ x ∈ B, WF d x := fun x hx => hch x (by rw [ec]; simp [hx])
      cases hrl : removeLast d c with
      | mk c' rest =>
        obtain ⟨r, o⟩ := rest
        cases o with
        | none =>
          have e : change (d + 1) (.mk seps cl) (.del k) = (.mk seps cl, .stuck) := by
            simp [change, Op.key, hp, hget, hrl]
          rw [e] at hns; exact absurd rfl hns
        | some m =>
          -- the node after the replacement
          have hn1 : (Node.mk (seps.set (position seps k).2 m) (cl.set (position seps k).2 c') :
              Node V) = .mk (S1 ++ m :: S2) (A ++ c' :: B) := by
            rw [← hl, es, ec, set_mid rfl, set_mid hA]
          have hrs : r ≠ .stuck := by
            intro e'; subst e'
            have e : change (d + 1) (.mk seps cl) (.del k) =
                (.mk (seps.set (position seps k).2 m) (cl.set (position seps k).2 c'), .stuck) := by
              simp [change, Op.key, hp, hget, hrl]
            rw [e] at hns; exact absurd rfl hns
          obtain ⟨i1, i2, i3⟩ := removeLast_spec d c hcw c' r m hrl hrs
          have hw1 : WF (d + 1) (.mk (S1 ++ m :: S2) (A ++ c' :: B)) := by
            refine ⟨by rw [es, ec] at hlen; simpa using hlen, ?_⟩
            intro x hx
            simp only [Node.children_mk, List.mem_append, List.mem_cons] at hx
            rcases hx with hx | rfl | hx
            · exact hchA x hx
            · exact i2
            · exact hchB x hx
          -- enumeration
          have t0 := toList_node d A c B S1 ((k, v0) :: S2) hA
          have t1 := toList_node d A c' B S1 (m :: S2) hA
          rw [zipR_cons_of_ne_nil _ _ (by simpa using hBne)] at t0 t1
          have hs0 : Sorted (toList (d + 1) (.mk (S1 ++ (k, v0) :: S2) (A ++ c :: B))) := by
            rw [← es, ← ec]; exact hs
          rw [t0] at hs0
          have hs1 := sorted_append.mp hs0
          have hL : ∀ x ∈ zipL (A.map (toList d)) S1, keyLt x.1 k = true := zipL_lt hs0 h1
          have hs2 := sorted_append.mp hs1.2.1
          have hC : ∀ x ∈ toList d c, keyLt x.1 k = true := fun x hx =>
            hs2.2.2 x hx (k, v0) (List.mem_cons.mpr (Or.inl rfl))
          have hR : ∀ x ∈ interleave (B.map (toList d)) S2, keyLt k x.1 = true :=
            fun x hx => hs2.2.1.head_lt x hx
          have hLC : ∀ x ∈ zipL (A.map (toList d)) S1 ++ toList d c, keyLt x.1 k = true := by
            intro x hx
            rcases List.mem_append.mp hx with hx | hx
            · exact hL x hx
            · exact hC x hx
          have hsd : Sorted ((zipL (A.map (toList d)) S1 ++ toList d c) ++
              ([(k, v0)] ++ interleave (B.map (toList d)) S2)) := by
            simpa [List.append_assoc] using hs0
          have hdel := del_middle (M := [(k, v0)]) hsd hLC hR
          have henum : toList (d + 1) (.mk (S1 ++ m :: S2) (A ++ c' :: B)) =
              del (toList (d + 1) (.mk seps cl)) k := by
            rw [es, ec, t0, t1, i1]
            have : zipL (A.map (toList d)) S1 ++
                (toList d c' ++ [m] ++ (k, v0) :: interleave (B.map (toList d)) S2) =
                (zipL (A.map (toList d)) S1 ++ (toList d c' ++ [m])) ++
                  ([(k, v0)] ++ interleave (B.map (toList d)) S2) := by
              simp [List.append_assoc]
            rw [this, ← i1, hdel]
            simp [del, i1, List.append_assoc]
          cases r with
          | underflow =>
            cases hreb : rebalance (Node.mk (S1 ++ m :: S2) (A ++ c' :: B)) (position seps k).2 with
            | none =>
              have e : change (d + 1) (.mk seps cl) (.del k) =
                  (.mk (S1 ++ m :: S2) (A ++ c' :: B), .stuck) := by
                simp [change, Op.key, hp, hget, hrl, hn1, hreb]
              rw [e] at hns; exact absurd rfl hns
            | some n2 =>
              have e : change (d + 1) (.mk seps cl) (.del k) =
                  (n2, if needRebalance n2 = true then .underflow else .ok) := by
                simp [change, Op.key, hp, hget, hrl, hn1, hreb]
              rw [e]
              obtain ⟨e1, e2⟩ := rebalance_spec d _ hw1 _ _ hreb
              exact ⟨by rw [e1]; exact henum, e2, ite_underflow_cases _⟩
          | ok =>
            have e : change (d + 1) (.mk seps cl) (.del k) =
                (.mk (S1 ++ m :: S2) (A ++ c' :: B),
                  if needRebalance (Node.mk (S1 ++ m :: S2) (A ++ c' :: B)) = true
                  then .underflow else .ok) := by
              simp [change, Op.key, hp, hget, hrl, hn1]
            rw [e]
            exact ⟨henum, hw1, ite_underflow_cases _⟩
          | stuck => exact absurd rfl hrs
          | split sep right => rcases i3 with i3 | i3 <;> cases i3
    | false =>
      obtain ⟨S1, S2, es, hl, h1, h2⟩ := position_false hss hp
      obtain ⟨A, c, B, ec, hA, hB⟩ := split_children (n := seps.length) (i := S1.length) hlen
        (by rw [es]; simp)
      have hget : cl[(position seps k).2]? = some c := by
        rw [ec, ← hl]; exact getElem?_mid hA
      have e : change (d + 1) (.mk seps cl) (.del k) =
          afterChild (.mk seps (cl.set (position seps k).2 (change d c (.del k)).1))
            (position seps k).2 (change d c (.del k)).2 := by
        simp [change, Op.key, hp, hget]
      rw [e] at hns ⊢
      subst es; subst ec
      rw [← hl, set_mid hA] at hns ⊢
      have t1 := toList_node d A c B S1 S2 hA
      rw [t1] at hs ⊢
      have hs1 := sorted_append.mp hs
      have hs2 := sorted_append.mp hs1.2.1
      have hcs : Sorted (toList d c) := hs2.1
      have hcw : WF d c := hch c (by simp)
      have hchA : ∀ x ∈ A, WF d x := fun x hx => hch x (by simp [hx])
      have hchB : ∀ x ∈ B, WF d x := fun x hx => hch x (by simp [hx])
      have hL : ∀ x ∈ zipL (A.map (toList d)) S1, keyLt x.1 k = true := zipL_lt hs h1
      have hR : ∀ x ∈ zipR S2 (B.map (toList d)), keyLt k x.1 = true := zipR_gt hs2.2.1 h2
      have hdel := del_middle (M := toList d c) hs hL hR
      rw [hdel]
      -- the child's outcome
      have hcns : (change d c (.del k)).2 ≠ .stuck := by
        intro e'
        rw [e'] at hns
        exact hns rfl
      obtain ⟨c1, c2, c3⟩ := ih c hcw hcs k hcns
      have hw1 : WF (d + 1) (.mk (S1 ++ S2) (A ++ (change d c (.del k)).1 :: B)) := by
        refine ⟨by simpa using hlen, ?_⟩
        intro x hx
        simp only [Node.children_mk, List.mem_append, List.mem_cons] at hx
        rcases hx with hx | rfl | hx
        · exact hchA x hx
        · exact c2
        · exact hchB x hx
      have henum : toList (d + 1) (.mk (S1 ++ S2) (A ++ (change d c (.del k)).1 :: B)) =
          zipL (A.map (toList d)) S1 ++ (del (toList d c) k ++ zipR S2 (B.map (toList d))) := by
        rw [toList_node d A _ B S1 S2 hA, c1]
      rcases c3 with hok | hun
      · rw [hok] at hns ⊢
        exact ⟨henum, hw1, Or.inl rfl⟩
      · rw [hun] at hns ⊢
        cases hreb : rebalance (Node.mk (S1 ++ S2) (A ++ (change d c (.del k)).1 :: B)) S1.length with
        | none =>
          exfalso
          apply hns
          simp [afterChild, hreb]
        | some n2 =>
          have ea : afterChild (Node.mk (S1 ++ S2) (A ++ (change d c (.del k)).1 :: B)) S1.length
              .underflow = (n2, if needRebalance n2 = true then .underflow else .ok) := by
            simp [afterChild, hreb]
          rw [ea]
          obtain ⟨e1, e2⟩ := rebalance_spec d _ hw1 _ _ hreb
          exact ⟨by rw [e1]; exact henum, e2, ite_underflow_cases _⟩

end Pdb.C04
