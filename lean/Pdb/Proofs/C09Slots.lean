/-
C09 / C14: the abstract slot invariant under the allocator operations.
  chain records      `chainRest` / `chainDrop` / `chainPut` / `ownedOf`
  TierInv.*          one value table: pop / extend (head slot), release (whole chain), resize
  SlotInv.congr      same allocator, same stored tails
  SlotInv.free_val   `clear_slot` / `clear_chain`: the slots of a live value go to the free list
  SlotInv.alloc_set  `next_free` + write: pop the free list or extend the fill mark (head slot)
  SlotInv.resize     `overwrite_chain`: the continuation slots of a live value
-/
import Pdb.Proofs.C09Inv

namespace Pdb.Index
open Pdb.Gen Pdb.IndexPage

theorem address_new_inj (off1 tier1 off2 tier2 : Nat) (h1 : off1 < 2 ^ 56) (t1 : tier1 < 256)
    (h2 : off2 < 2 ^ 56) (t2 : tier2 < 256) (h : Address.new off1 tier1 = Address.new off2 tier2) :
    off1 = off2 ∧ tier1 = tier2 := by
  constructor
  · have a := address_offset_new off1 tier1 h1 t1
    have b := address_offset_new off2 tier2 h2 t2
    rw [h] at a; rw [a] at b; exact b
  · have a := address_tier_new off1 tier1 h1 t1
    have b := address_tier_new off2 tier2 h2 t2
    rw [h] at a; rw [a] at b; exact b

/-! ## chain records -/

theorem chainDrop_of_not_mem : ∀ (l : List (Nat × List Nat)) (h : Nat), h ∉ l.map (·.1) →
    chainDrop l h = l := by
  intro l
  induction l with
  | nil => intro h _; rfl
  | cons x l ih =>
    intro h hn
    obtain ⟨h1, r1⟩ := x
    simp only [List.map_cons, List.mem_cons, not_or] at hn
    have hne : ¬ h1 = h := fun e => hn.1 e.symm
    simp only [chainDrop, hne, if_false]
    rw [ih h hn.2]

theorem mem_heads_chainDrop : ∀ (l : List (Nat × List Nat)) (h h' : Nat),
    h' ∈ (chainDrop l h).map (·.1) ↔ h' ∈ l.map (·.1) ∧ h' ≠ h := by
  intro l
  induction l with
  | nil => intro h h'; simp [chainDrop]
  | cons x l ih =>
    intro h h'
    obtain ⟨h1, r1⟩ := x
    by_cases e : h1 = h
    · simp only [chainDrop, e, if_true, List.map_cons, List.mem_cons]
      rw [ih]
      constructor
      · rintro ⟨a, b⟩; exact ⟨Or.inr a, b⟩
      · rintro ⟨a | a, b⟩
        · exact absurd a b
        · exact ⟨a, b⟩
    · simp only [chainDrop, e, if_false, List.map_cons, List.mem_cons]
      rw [ih]
      constructor
      · rintro (a | ⟨a, b⟩)
        · exact ⟨Or.inl a, by rw [a]; exact e⟩
        · exact ⟨Or.inr a, b⟩
      · rintro ⟨a | a, b⟩
        · exact Or.inl a
        · exact Or.inr ⟨a, b⟩

theorem nodup_heads_chainDrop : ∀ (l : List (Nat × List Nat)) (h : Nat), (l.map (·.1)).Nodup →
    ((chainDrop l h).map (·.1)).Nodup := by
  intro l
  induction l with
  | nil => intro h _; simp [chainDrop]
  | cons x l ih =>
    intro h hnd
    obtain ⟨h1, r1⟩ := x
    simp only [List.map_cons, List.nodup_cons] at hnd
    by_cases e : h1 = h
    · simp only [chainDrop, e, if_true]; exact ih h hnd.2
    · simp only [chainDrop, e, if_false, List.map_cons, List.nodup_cons]
      refine ⟨fun hm => hnd.1 ((mem_heads_chainDrop l h h1).1 hm).1, ih h hnd.2⟩

theorem chainRest_chainDrop : ∀ (l : List (Nat × List Nat)) (h h' : Nat),
    chainRest (chainDrop l h) h' = if h' = h then [] else chainRest l h' := by
  intro l
  induction l with
  | nil => intro h h'; simp [chainDrop, chainRest]
  | cons x l ih =>
    intro h h'
    obtain ⟨h1, r1⟩ := x
    by_cases e : h1 = h
    · simp only [chainDrop, e, if_true]
      rw [ih]
      by_cases e' : h' = h
      · simp [e']
      · have : ¬ h = h' := fun x => e' x.symm
        simp [e', chainRest, this]
    · simp only [chainDrop, e, if_false, chainRest]
      by_cases e1 : h1 = h'
      · have : ¬ h' = h := fun x => e (e1.trans x)
        simp [e1, this]
      · simp only [e1, if_false]; exact ih h h'

theorem chainRest_chainPut (l : List (Nat × List Nat)) (h : Nat) (r : List Nat) (h' : Nat) :
    chainRest (chainPut l h r) h' = if h' = h then r else chainRest l h' := by
  unfold chainPut
  cases r with
  | nil =>
    simp only [List.isEmpty_nil, if_true]
    rw [chainRest_chainDrop]
  | cons a r =>
    simp only [List.isEmpty_cons, Bool.false_eq_true, if_false, chainRest]
    by_cases e : h = h'
    · simp [e]
    · have : ¬ h' = h := fun x => e x.symm
      simp only [e, this, if_false]
      rw [chainRest_chainDrop, if_neg this]

theorem ownedOf_chainPut (l : List (Nat × List Nat)) (h : Nat) (r : List Nat) :
    ownedOf (chainPut l h r) = r ++ ownedOf (chainDrop l h) := by
  unfold chainPut
  cases r with
  | nil => simp
  | cons a r => simp [ownedOf]

theorem ownedOf_count_drop : ∀ (l : List (Nat × List Nat)) (h : Nat), (l.map (·.1)).Nodup →
    ∀ x, (ownedOf l).count x = (chainRest l h).count x + (ownedOf (chainDrop l h)).count x := by
  intro l
  induction l with
  | nil => intro h _ x; simp [ownedOf, chainRest, chainDrop]
  | cons y l ih =>
    intro h hnd x
    obtain ⟨h1, r1⟩ := y
    simp only [List.map_cons, List.nodup_cons] at hnd
    by_cases e : h1 = h
    · have hn : h ∉ l.map (·.1) := by rw [← e]; exact hnd.1
      simp only [ownedOf, chainRest, chainDrop, e, if_true, List.count_append]
      rw [chainDrop_of_not_mem l h hn]
    · simp only [ownedOf, chainRest, chainDrop, e, if_false, List.count_append]
      rw [ih h hnd.2 x]
      omega

theorem mem_ownedOf_drop (l : List (Nat × List Nat)) (h : Nat) (hnd : (l.map (·.1)).Nodup) (x : Nat) :
    x ∈ ownedOf l ↔ x ∈ chainRest l h ∨ x ∈ ownedOf (chainDrop l h) := by
  have := ownedOf_count_drop l h hnd x
  rw [← List.count_pos_iff, ← List.count_pos_iff, ← List.count_pos_iff]
  omega

theorem mem_heads_chainPut (l : List (Nat × List Nat)) (h : Nat) (r : List Nat) (h' : Nat)
    (hm : h' ∈ (chainPut l h r).map (·.1)) : h' = h ∨ (h' ∈ l.map (·.1) ∧ h' ≠ h) := by
  unfold chainPut at hm
  cases r with
  | nil =>
    simp only [List.isEmpty_nil, if_true] at hm
    exact Or.inr ((mem_heads_chainDrop l h h').1 hm)
  | cons a r =>
    simp only [List.isEmpty_cons, Bool.false_eq_true, if_false, List.map_cons, List.mem_cons] at hm
    rcases hm with hm | hm
    · exact Or.inl hm
    · exact Or.inr ((mem_heads_chainDrop l h h').1 hm)

theorem nodup_heads_chainPut (l : List (Nat × List Nat)) (h : Nat) (r : List Nat)
    (hnd : (l.map (·.1)).Nodup) : ((chainPut l h r).map (·.1)).Nodup := by
  unfold chainPut
  cases r with
  | nil => simp only [List.isEmpty_nil, if_true]; exact nodup_heads_chainDrop l h hnd
  | cons a r =>
    simp only [List.isEmpty_cons, Bool.false_eq_true, if_false, List.map_cons, List.nodup_cons]
    exact ⟨fun hm => ((mem_heads_chainDrop l h h).1 hm).2 rfl, nodup_heads_chainDrop l h hnd⟩

/-! ## one value table -/

/-- the invariant of a table depends on the stored tails only at the addresses of its tier -/
theorem TierInv.frame {tl tl' : Nat → Option Nat} {tier : Nat} {T : Tier} (h : TierInv tl tier T)
    (he : tier < 256 → ∀ off, off < 2 ^ 56 →
      tl' (Address.new off tier) = tl (Address.new off tier)) : TierInv tl' tier T := by
  refine ⟨?_, h.nodup, h.range, h.filled, ?_, h.heads, ?_⟩
  · intro off h1 hb h3; rw [he h1 off hb]; exact h.fresh off h1 hb h3
  · intro off h1 hb h2 h3; rw [he h1 off hb]; exact h.cover off h1 hb h2 h3
  · intro hd h1 hm
    obtain ⟨a, b, c⟩ := h.headLive hd h1 hm
    refine ⟨a, b, ?_⟩
    rw [he h1 hd (Nat.lt_of_lt_of_le b (h.filled h1).2)]; exact c

/-- `next_free` pops the head `o` of the free list, a value with tail `tlv` is written there -/
theorem TierInv.pop {tl tl' : Nat → Option Nat} {tier : Nat} {T : Tier} (h : TierInv tl tier T)
    (htier : tier < 256) (o : Nat) (rest : List Nat) (hfree : T.free = o :: rest) (tlv : Nat)
    (ht : ∀ off, off < 2 ^ 56 → tl' (Address.new off tier) =
      if off = o then some tlv else tl (Address.new off tier)) :
    TierInv tl' tier ⟨T.filled, rest, T.chains⟩ := by
  have hnd := h.nodup
  rw [hfree] at hnd
  simp only [List.cons_append, List.nodup_cons] at hnd
  have hsub : ∀ off, off ∈ rest ++ ownedOf T.chains → off ∈ T.free ++ ownedOf T.chains := by
    intro off hm; rw [hfree]; exact List.mem_cons_of_mem _ hm
  have ho := h.range o (by rw [hfree]; simp)
  refine ⟨?_, hnd.2, fun off hm => h.range off (hsub off hm), h.filled, ?_, h.heads, ?_⟩
  · intro off _ hb h3
    rw [ht off hb]
    have hne : off ≠ o := by
      rintro rfl
      rcases h3 with h3 | h3
      · exact hnd.1 h3
      · simp only at h3; omega
    rw [if_neg hne]
    rcases h3 with h3 | h3
    · exact h.fresh off htier hb (Or.inl (hsub off h3))
    · exact h.fresh off htier hb (Or.inr h3)
  · intro off _ hb h2 h3
    rw [ht off hb]
    by_cases e : off = o
    · right; simp [e]
    · rw [if_neg e]
      rcases h.cover off htier hb h2 h3 with h4 | h4
      · left
        rw [hfree] at h4
        simp only [List.cons_append, List.mem_cons] at h4
        rcases h4 with h4 | h4
        · exact absurd h4 e
        · exact h4
      · exact Or.inr h4
  · intro hd _ hm
    obtain ⟨a, b, c⟩ := h.headLive hd htier hm
    refine ⟨a, b, ?_⟩
    rw [ht hd (Nat.lt_of_lt_of_le b (h.filled htier).2)]
    by_cases e : hd = o
    · simp [e]
    · rw [if_neg e]; exact c

/-- `next_free` with an empty free list takes the slot at the fill mark -/
theorem TierInv.extend {tl tl' : Nat → Option Nat} {tier : Nat} {T : Tier} (h : TierInv tl tier T)
    (htier : tier < 256) (hfree : T.free = []) (hb : T.filled + 1 ≤ 2 ^ 56) (tlv : Nat)
    (ht : ∀ off, off < 2 ^ 56 → tl' (Address.new off tier) =
      if off = T.filled then some tlv else tl (Address.new off tier)) :
    TierInv tl' tier ⟨T.filled + 1, [], T.chains⟩ := by
  have hnd := h.nodup
  have hrange := h.range
  rw [hfree] at hnd hrange
  have hf := h.filled htier
  refine ⟨?_, hnd, fun off hm => by have := hrange off hm; simp only; omega, fun _ => ⟨by simp only; omega, hb⟩,
    ?_, h.heads, ?_⟩
  · intro off _ hb' h3
    rw [ht off hb']
    have hne : off ≠ T.filled := by
      rintro rfl
      rcases h3 with h3 | h3
      · have := hrange _ h3; omega
      · simp only at h3; omega
    rw [if_neg hne]
    rcases h3 with h3 | h3
    · exact h.fresh off htier hb' (Or.inl (by rw [hfree]; exact h3))
    · exact h.fresh off htier hb' (Or.inr (by simp only at h3; omega))
  · intro off _ hb' h2 h3
    rw [ht off hb']
    by_cases e : off = T.filled
    · right; simp [e]
    · rw [if_neg e]
      simp only at h3
      rcases h.cover off htier hb' h2 (by omega) with h4 | h4
      · left; rw [hfree] at h4; exact h4
      · exact Or.inr h4
  · intro hd _ hm
    obtain ⟨a, b, c⟩ := h.headLive hd htier hm
    refine ⟨a, by simp only; omega, ?_⟩
    rw [ht hd (by omega)]
    have e : hd ≠ T.filled := by omega
    rw [if_neg e]; exact c

/-- the dead slots after a release: the head slot joins them -/
theorem mem_dead_release (T : Tier) (off : Nat) (hnd : (T.chains.map (·.1)).Nodup) (x : Nat) :
    x ∈ ((off :: chainRest T.chains off).reverse ++ T.free) ++ ownedOf (chainDrop T.chains off) ↔
      x = off ∨ x ∈ T.free ++ ownedOf T.chains := by
  simp only [List.mem_append, List.mem_reverse, List.mem_cons]
  rw [mem_ownedOf_drop T.chains off hnd x]
  constructor
  · rintro (((a | a) | a) | a)
    · exact Or.inl a
    · exact Or.inr (Or.inr (Or.inl a))
    · exact Or.inr (Or.inl a)
    · exact Or.inr (Or.inr (Or.inr a))
  · rintro (a | a | a | a)
    · exact Or.inl (Or.inl (Or.inl a))
    · exact Or.inl (Or.inr a)
    · exact Or.inl (Or.inl (Or.inr a))
    · exact Or.inr a

/-- `write_remove_plan`: the value at `off` is removed, its slots go to the free list -/
theorem TierInv.release {tl tl' : Nat → Option Nat} {tier : Nat} {T : Tier} (h : TierInv tl tier T)
    (htier : tier < 256) (off : Nat) (hlive : (tl (Address.new off tier)).isSome = true)
    (hoff : 1 ≤ off ∧ off < T.filled)
    (ht : ∀ off', off' < 2 ^ 56 → tl' (Address.new off' tier) =
      if off' = off then none else tl (Address.new off' tier)) :
    TierInv tl' tier
      ⟨T.filled, (off :: chainRest T.chains off).reverse ++ T.free, chainDrop T.chains off⟩ := by
  have hf := h.filled htier
  have hoff56 : off < 2 ^ 56 := by omega
  have hmem := mem_dead_release T off h.heads
  have hnotdead : off ∉ T.free ++ ownedOf T.chains := by
    intro hm
    have := h.fresh off htier hoff56 (Or.inl hm)
    rw [this] at hlive; cases hlive
  refine ⟨?_, ?_, ?_, h.filled, ?_, nodup_heads_chainDrop _ _ h.heads, ?_⟩
  · intro off' _ hb h3
    rw [ht off' hb]
    by_cases e : off' = off
    · simp [e]
    · rw [if_neg e]
      rcases h3 with h3 | h3
      · rcases (hmem off').1 h3 with h4 | h4
        · exact absurd h4 e
        · exact h.fresh off' htier hb (Or.inl h4)
      · exact h.fresh off' htier hb (Or.inr h3)
  · -- no duplicates: same multiset as `off :: dead`
    have hperm : (((off :: chainRest T.chains off).reverse ++ T.free) ++
        ownedOf (chainDrop T.chains off)).Perm (off :: (T.free ++ ownedOf T.chains)) := by
      rw [List.perm_iff_count]
      intro x
      have := ownedOf_count_drop T.chains off h.heads x
      simp only [List.count_append, List.count_reverse, List.count_cons] at this ⊢
      omega
    rw [hperm.nodup_iff, List.nodup_cons]
    exact ⟨hnotdead, h.nodup⟩
  · intro off' hm
    rcases (hmem off').1 hm with h4 | h4
    · rw [h4]; exact hoff
    · exact h.range off' h4
  · intro off' _ hb h2 h3
    rw [ht off' hb]
    by_cases e : off' = off
    · left; exact (hmem off').2 (Or.inl e)
    · rw [if_neg e]
      rcases h.cover off' htier hb h2 h3 with h4 | h4
      · exact Or.inl ((hmem off').2 (Or.inr h4))
      · exact Or.inr h4
  · intro hd _ hm
    obtain ⟨hm1, hne⟩ := (mem_heads_chainDrop _ _ _).1 hm
    obtain ⟨a, b, c⟩ := h.headLive hd htier hm1
    refine ⟨a, b, ?_⟩
    rw [ht hd (by omega), if_neg hne]; exact c

/-- the dead slots after a resize: the fresh slots join them -/
theorem count_dead_resize (T : Tier) (hd m : Nat) (hnd : (T.chains.map (·.1)).Nodup) (x : Nat) :
    ((T.resize hd m).free ++ ownedOf (T.resize hd m).chains).count x =
      (T.free ++ ownedOf T.chains).count x +
        (List.range' T.filled (m - (chainRest T.chains hd).length - T.free.length)).count x := by
  have h1 := ownedOf_count_drop T.chains hd hnd x
  simp only [Tier.resize, ownedOf_chainPut, List.count_append, List.count_reverse]
  have h2 : (chainRest T.chains hd).count x =
      ((chainRest T.chains hd).take m).count x + ((chainRest T.chains hd).drop m).count x := by
    rw [← List.count_append, List.take_append_drop]
  have h3 : T.free.count x =
      (T.free.take (m - (chainRest T.chains hd).length)).count x +
        (T.free.drop (m - (chainRest T.chains hd).length)).count x := by
    rw [← List.count_append, List.take_append_drop]
  omega

/-- `overwrite_chain` on the live value at `hd`: `m` continuation slots afterwards -/
theorem TierInv.resize {tl : Nat → Option Nat} {tier : Nat} {T : Tier} (h : TierInv tl tier T)
    (htier : tier < 256) (hd m : Nat) (hlive : (tl (Address.new hd tier)).isSome = true)
    (hr : 1 ≤ hd ∧ hd < T.filled) (hb : (T.resize hd m).filled ≤ 2 ^ 56) :
    TierInv tl tier (T.resize hd m) := by
  have hf := h.filled htier
  have hcount := count_dead_resize T hd m h.heads
  have hfil : (T.resize hd m).filled =
      T.filled + (m - (chainRest T.chains hd).length - T.free.length) := rfl
  have hmem : ∀ x, x ∈ (T.resize hd m).free ++ ownedOf (T.resize hd m).chains ↔
      x ∈ T.free ++ ownedOf T.chains ∨ (T.filled ≤ x ∧ x < (T.resize hd m).filled) := by
    intro x
    have := hcount x
    rw [← List.count_pos_iff, ← List.count_pos_iff, this, hfil]
    have e : 0 < (List.range' T.filled (m - (chainRest T.chains hd).length - T.free.length)).count x ↔
        (T.filled ≤ x ∧ x < T.filled + (m - (chainRest T.chains hd).length - T.free.length)) := by
      rw [List.count_pos_iff, List.mem_range'_1]
    omega
  refine ⟨?_, ?_, ?_, fun _ => ⟨by rw [hfil]; omega, hb⟩, ?_, nodup_heads_chainPut _ _ _ h.heads, ?_⟩
  · intro off _ hb' h3
    rcases h3 with h3 | h3
    · rcases (hmem off).1 h3 with h4 | h4
      · exact h.fresh off htier hb' (Or.inl h4)
      · exact h.fresh off htier hb' (Or.inr h4.1)
    · exact h.fresh off htier hb' (Or.inr (by rw [hfil] at h3; omega))
  · rw [List.nodup_iff_count]
    intro x
    rw [hcount x]
    have h1 := List.nodup_iff_count.1 h.nodup x
    have h2 := List.nodup_iff_count.1
      (List.nodup_range' (s := T.filled) (n := m - (chainRest T.chains hd).length - T.free.length) (step := 1)) x
    by_cases e : 0 < (T.free ++ ownedOf T.chains).count x
    · have := h.range x (List.count_pos_iff.1 e)
      have : (List.range' T.filled (m - (chainRest T.chains hd).length - T.free.length)).count x = 0 := by
        rw [List.count_eq_zero]
        intro hm
        rw [List.mem_range'_1] at hm
        omega
      omega
    · omega
  · intro off hm
    rcases (hmem off).1 hm with h4 | h4
    · have := h.range off h4; rw [hfil]; omega
    · omega
  · intro off _ hb' h2 h3
    by_cases e : off < T.filled
    · rcases h.cover off htier hb' h2 e with h4 | h4
      · exact Or.inl ((hmem off).2 (Or.inl h4))
      · exact Or.inr h4
    · exact Or.inl ((hmem off).2 (Or.inr ⟨by omega, h3⟩))
  · intro h' _ hm
    rcases mem_heads_chainPut _ _ _ _ hm with e | ⟨hm1, _⟩
    · rw [e]; exact ⟨hr.1, by rw [hfil]; omega, hlive⟩
    · obtain ⟨a, b, c⟩ := h.headLive h' htier hm1
      exact ⟨a, by rw [hfil]; omega, c⟩

/-! ## the column -/

theorem SlotInv.congr {s s' : Col} (h : SlotInv s) (htier : ∀ t, s'.tier t = s.tier t)
    (ht : ∀ x, s'.tailAt x = s.tailAt x) : SlotInv s' := by
  refine ⟨fun tier => ?_, ?_⟩
  · rw [htier]; exact (h.tiers tier).frame (fun _ off _ => ht _)
  · intro a tl ha; rw [ht] at ha
    obtain ⟨tier, off, h1, h2, h3, h4⟩ := h.addr a tl ha
    exact ⟨tier, off, h1, h2, by rw [htier]; exact h3, h4⟩

/-- A live address decodes to its tier and offset. -/
theorem SlotInv.decode {s : Col} (h : SlotInv s) (a tl : Nat) (ha : s.tailAt a = some tl) :
    Address.size_tier a < 256 ∧ 1 ≤ Address.offset a ∧
      Address.offset a < (s.tier (Address.size_tier a)).filled ∧
      a = Address.new (Address.offset a) (Address.size_tier a) ∧ a ≠ 0 := by
  obtain ⟨tier, off, h1, h2, h3, h4⟩ := h.addr a tl ha
  have hlt : off < 2 ^ 56 := Nat.lt_of_lt_of_le h3 (h.filled tier h1).2
  subst h4
  rw [address_tier_new off tier hlt h1, address_offset_new off tier hlt h1]
  exact ⟨h1, h2, h3, rfl, address_new_ne_zero off tier hlt h1 h2⟩

/-- the other tiers do not see a change of the stored tail at an address of tier `tier` -/
theorem tier_frame {tl tl' : Nat → Option Nat} (tier o : Nat) (htier : tier < 256) (ho : o < 2 ^ 56)
    (v : Option Nat) (ht : ∀ x, tl' x = if x = Address.new o tier then v else tl x) (t : Nat)
    (hne : tier ≠ t) (_ : t < 256) (off : Nat) (hb : off < 2 ^ 56) :
    tl' (Address.new off t) = tl (Address.new off t) := by
  rw [ht]
  have : ¬ Address.new off t = Address.new o tier := fun e =>
    hne (address_new_inj off t o tier hb ‹t < 256› ho htier e).2.symm
  rw [if_neg this]

theorem tier_point {tl tl' : Nat → Option Nat} (tier o : Nat) (htier : tier < 256) (ho : o < 2 ^ 56)
    (v : Option Nat) (ht : ∀ x, tl' x = if x = Address.new o tier then v else tl x)
    (off : Nat) (hb : off < 2 ^ 56) :
    tl' (Address.new off tier) = if off = o then v else tl (Address.new off tier) := by
  rw [ht]
  by_cases e : off = o
  · simp [e]
  · have : ¬ Address.new off tier = Address.new o tier := fun e' =>
      e (address_new_inj off tier o tier hb htier ho htier e').1
    rw [if_neg this, if_neg e]

/-- `clear_slot` / `clear_chain` of a live value. -/
theorem SlotInv.free_val {s s' : Col} (h : SlotInv s) (a tl : Nat) (ha : s.tailAt a = some tl)
    (htier : ∀ t, s'.tier t = if Address.size_tier a = t then
      ⟨(s.tier t).filled,
        (Address.offset a :: chainRest (s.tier t).chains (Address.offset a)).reverse ++ (s.tier t).free,
        chainDrop (s.tier t).chains (Address.offset a)⟩ else s.tier t)
    (ht : ∀ x, s'.tailAt x = if x = a then none else s.tailAt x) : SlotInv s' := by
  obtain ⟨d1, d2, d3, d4, _⟩ := h.decode a tl ha
  have hoff : Address.offset a < 2 ^ 56 := Nat.lt_of_lt_of_le d3 (h.filled _ d1).2
  have ht' : ∀ x, s'.tailAt x =
      if x = Address.new (Address.offset a) (Address.size_tier a) then none else s.tailAt x := by
    rw [← d4]; exact ht
  refine ⟨fun tier => ?_, ?_⟩
  · rw [htier]
    by_cases htt : Address.size_tier a = tier
    · subst htt
      rw [if_pos rfl]
      refine (h.tiers _).release d1 (Address.offset a) ?_ ⟨d2, d3⟩
        (tier_point _ _ d1 hoff none ht')
      rw [← d4, ha]; rfl
    · rw [if_neg htt]
      exact (h.tiers tier).frame (tier_frame _ _ d1 hoff none ht' tier htt)
  · intro x tl' hx
    rw [ht] at hx
    by_cases hxa : x = a
    · simp [hxa] at hx
    · simp only [hxa, if_false] at hx
      obtain ⟨tier, off, h1, h2, h3, h4⟩ := h.addr x tl' hx
      refine ⟨tier, off, h1, h2, ?_, h4⟩
      rw [htier]
      by_cases htt : Address.size_tier a = tier <;> simp [htt, h3]

theorem Col.alloc_nil (s : Col) (tier : Nat) (h : (s.tier tier).free = []) :
    s.alloc tier = ((s.tier tier).filled,
      { s with tiers := s.tiers.set DEPTH tier (some ⟨(s.tier tier).filled + 1, [], (s.tier tier).chains⟩) }) := by
  unfold Col.alloc
  simp only [h]

theorem Col.alloc_cons (s : Col) (tier o : Nat) (rest : List Nat) (h : (s.tier tier).free = o :: rest) :
    s.alloc tier = (o,
      { s with tiers := s.tiers.set DEPTH tier (some ⟨(s.tier tier).filled, rest, (s.tier tier).chains⟩) }) := by
  unfold Col.alloc
  simp only [h]

/-- `next_free` followed by writing a value with tail `tl` into the slot. -/
theorem SlotInv.alloc_set {s s' : Col} (h : SlotInv s) (tier tl : Nat) (htier : tier < 256)
    (hbound : ((s.alloc tier).2.tier tier).filled ≤ 2 ^ 56)
    (hts : ∀ t, s'.tier t = (s.alloc tier).2.tier t)
    (ht : ∀ x, s'.tailAt x = if x = Address.new (s.alloc tier).1 tier then some tl else s.tailAt x) :
    SlotInv s' ∧ s.tailAt (Address.new (s.alloc tier).1 tier) = none ∧
      1 ≤ (s.alloc tier).1 ∧ (s.alloc tier).1 < 2 ^ 56 := by
  have hf := h.filled tier htier
  -- the two cases of the allocator
  have hcases : (∃ o rest, (s.tier tier).free = o :: rest ∧ (s.alloc tier).1 = o ∧
        ∀ t, (s.alloc tier).2.tier t =
          if tier = t then ⟨(s.tier tier).filled, rest, (s.tier tier).chains⟩ else s.tier t) ∨
      ((s.tier tier).free = [] ∧ (s.alloc tier).1 = (s.tier tier).filled ∧
        ∀ t, (s.alloc tier).2.tier t =
          if tier = t then ⟨(s.tier tier).filled + 1, [], (s.tier tier).chains⟩ else s.tier t) := by
    cases hfr : (s.tier tier).free with
    | nil =>
      right
      rw [Col.alloc_nil s tier hfr]
      exact ⟨rfl, rfl, fun t => Col.tier_set s tier t _⟩
    | cons o rest =>
      left
      rw [Col.alloc_cons s tier o rest hfr]
      exact ⟨o, rest, rfl, rfl, fun t => Col.tier_set s tier t _⟩
  rcases hcases with ⟨o, rest, hfree, hoff, htiers⟩ | ⟨hfree, hoff, htiers⟩
  · -- pop
    have ho := h.range tier o (by simp [Col.dead, hfree])
    have ho56 : o < 2 ^ 56 := Nat.lt_of_lt_of_le ho.2 hf.2
    have hfresh : s.tailAt (Address.new o tier) = none :=
      h.fresh tier o htier ho56 (Or.inl (by simp [Col.dead, hfree]))
    rw [hoff] at ht ⊢
    refine ⟨⟨fun tier0 => ?_, ?_⟩, hfresh, ho.1, ho56⟩
    · rw [hts, htiers]
      by_cases htt : tier = tier0
      · subst htt
        rw [if_pos rfl]
        exact (h.tiers tier).pop htier o rest hfree tl (tier_point tier o htier ho56 _ ht)
      · rw [if_neg htt]
        exact (h.tiers tier0).frame (tier_frame tier o htier ho56 _ ht tier0 htt)
    · intro x tl' hx
      rw [ht] at hx
      by_cases hxa : x = Address.new o tier
      · refine ⟨tier, o, htier, ho.1, ?_, hxa⟩
        rw [hts, htiers]; simp [ho.2]
      · simp only [hxa, if_false] at hx
        obtain ⟨tier0, off, h1, h2, h3, h4⟩ := h.addr x tl' hx
        refine ⟨tier0, off, h1, h2, ?_, h4⟩
        rw [hts, htiers]
        by_cases htt : tier = tier0
        · subst htt; simpa using h3
        · simpa [htt] using h3
  · -- extend
    have hb' : (s.tier tier).filled + 1 ≤ 2 ^ 56 := by
      have := hbound
      rw [htiers] at this
      simpa using this
    have ho56 : (s.tier tier).filled < 2 ^ 56 := by omega
    have hfresh : s.tailAt (Address.new (s.tier tier).filled tier) = none :=
      h.fresh tier _ htier ho56 (Or.inr (Nat.le_refl _))
    rw [hoff] at ht ⊢
    refine ⟨⟨fun tier0 => ?_, ?_⟩, hfresh, hf.1, ho56⟩
    · rw [hts, htiers]
      by_cases htt : tier = tier0
      · subst htt
        rw [if_pos rfl]
        exact (h.tiers tier).extend htier hfree hb' tl (tier_point tier _ htier ho56 _ ht)
      · rw [if_neg htt]
        exact (h.tiers tier0).frame (tier_frame tier _ htier ho56 _ ht tier0 htt)
    · intro x tl' hx
      rw [ht] at hx
      by_cases hxa : x = Address.new (s.tier tier).filled tier
      · refine ⟨tier, _, htier, hf.1, ?_, hxa⟩
        rw [hts, htiers]; simp
      · simp only [hxa, if_false] at hx
        obtain ⟨tier0, off, h1, h2, h3, h4⟩ := h.addr x tl' hx
        refine ⟨tier0, off, h1, h2, ?_, h4⟩
        rw [hts, htiers]
        by_cases htt : tier = tier0
        · subst htt; simp; omega
        · simpa [htt] using h3

theorem Col.tier_resize (s : Col) (tier hd m t : Nat) :
    (s.resize tier hd m).tier t = if tier = t then (s.tier tier).resize hd m else s.tier t :=
  Col.tier_set s tier t _

theorem Tier.resize_filled_le (T : Tier) (hd m : Nat) : T.filled ≤ (T.resize hd m).filled :=
  Nat.le_add_right _ _

/-- `overwrite_chain`: the live value at address `a` takes `m` continuation slots. -/
theorem SlotInv.resize {s s' : Col} (h : SlotInv s) (a tl : Nat) (ha : s.tailAt a = some tl) (m : Nat)
    (hts : ∀ t, s'.tier t = if Address.size_tier a = t then
      (s.tier t).resize (Address.offset a) m else s.tier t)
    (ht : ∀ x, s'.tailAt x = s.tailAt x)
    (hb : (s'.tier (Address.size_tier a)).filled ≤ 2 ^ 56) : SlotInv s' := by
  obtain ⟨d1, d2, d3, d4, _⟩ := h.decode a tl ha
  refine ⟨fun tier => ?_, ?_⟩
  · rw [hts]
    by_cases htt : Address.size_tier a = tier
    · subst htt
      rw [if_pos rfl]
      rw [hts, if_pos rfl] at hb
      refine ((h.tiers _).resize d1 (Address.offset a) m ?_ ⟨d2, d3⟩ hb).frame (fun _ off _ => ht _)
      rw [← d4, ha]; rfl
    · rw [if_neg htt]
      exact (h.tiers tier).frame (fun _ off _ => ht _)
  · intro x tl' hx
    rw [ht] at hx
    obtain ⟨tier, off, h1, h2, h3, h4⟩ := h.addr x tl' hx
    refine ⟨tier, off, h1, h2, ?_, h4⟩
    rw [hts]
    by_cases htt : Address.size_tier a = tier
    · rw [if_pos htt]
      exact Nat.lt_of_lt_of_le h3 (Tier.resize_filled_le _ _ _)
    · rw [if_neg htt]; exact h3

end Pdb.Index
