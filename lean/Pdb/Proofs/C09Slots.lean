/-
C09 / C14: the abstract slot invariant under the allocator operations.
  SlotInv.congr      same allocator, same stored tails
  SlotInv.free_val   `clear_slot`: a live slot goes to the head of its tier's free list
  SlotInv.alloc_set  `next_free` + write: pop the free list or extend the fill mark
-/
import Pdb.Proofs.C09Inv

namespace Pdb.Index
open Pdb.Gen Pdb.IndexPage

theorem address_new_inj (off1 tier1 off2 tier2 : Nat) (h1 : off1 < 2 ^ 56) (t1 : tier1 < 256)
    (h2 : off2 < 2 ^ 56) (t2 : tier2 < 256) (h : Address.new off1 tier1 = Address.new off2 tier2) :
    off1 = off2 ∧ tier1 = tier2 := by
  constructor
  · have a := address_offset_new off1 tier1 h1 t1
    have b := address_offset_new off2 tier2 h2 t2
    rw [h] at a; rw [a] at b; exact b
  · have a := address_tier_new off1 tier1 h1 t1
    have b := address_tier_new off2 tier2 h2 t2
    rw [h] at a; rw [a] at b; exact b

theorem SlotInv.congr {s s' : Col} (h : SlotInv s) (htier : ∀ t, s'.tier t = s.tier t)
    (ht : ∀ x, s'.tailAt x = s.tailAt x) : SlotInv s' := by
  refine ⟨?_, ?_, ?_, ?_, ?_, ?_⟩
  · intro tier off h1 h2 h3; rw [htier] at h3; rw [ht]; exact h.fresh tier off h1 h2 h3
  · intro a tl ha; rw [ht] at ha
    obtain ⟨tier, off, h1, h2, h3, h4⟩ := h.addr a tl ha
    exact ⟨tier, off, h1, h2, by rw [htier]; exact h3, h4⟩
  · intro tier; rw [htier]; exact h.nodup tier
  · intro tier off ho; rw [htier] at ho ⊢; exact h.range tier off ho
  · intro tier hlt; rw [htier]; exact h.filled tier hlt
  · intro tier off h1 h2 h3 h4; rw [htier] at h4 ⊢; rw [ht]; exact h.cover tier off h1 h2 h3 h4

/-- A live address decodes to its tier and offset. -/
theorem SlotInv.decode {s : Col} (h : SlotInv s) (a tl : Nat) (ha : s.tailAt a = some tl) :
    Address.size_tier a < 256 ∧ 1 ≤ Address.offset a ∧
      Address.offset a < (s.tier (Address.size_tier a)).filled ∧
      a = Address.new (Address.offset a) (Address.size_tier a) ∧ a ≠ 0 := by
  obtain ⟨tier, off, h1, h2, h3, h4⟩ := h.addr a tl ha
  have hlt : off < 2 ^ 56 := Nat.lt_of_lt_of_le h3 (h.filled tier h1).2
  subst h4
  rw [address_tier_new off tier hlt h1, address_offset_new off tier hlt h1]
  exact ⟨h1, h2, h3, rfl, address_new_ne_zero off tier hlt h1 h2⟩

/-- `clear_slot`. -/
theorem SlotInv.free_val {s s' : Col} (h : SlotInv s) (a tl : Nat) (ha : s.tailAt a = some tl)
    (htier : ∀ t, s'.tier t = if Address.size_tier a = t then
      ⟨(s.tier t).filled, Address.offset a :: (s.tier t).free⟩ else s.tier t)
    (ht : ∀ x, s'.tailAt x = if x = a then none else s.tailAt x) : SlotInv s' := by
  obtain ⟨d1, d2, d3, d4, _⟩ := h.decode a tl ha
  have hoff : Address.offset a < 2 ^ 56 := Nat.lt_of_lt_of_le d3 (h.filled _ d1).2
  refine ⟨?_, ?_, ?_, ?_, ?_, ?_⟩
  · intro tier off h1 hb h3
    rw [ht]
    by_cases hx : Address.new off tier = a
    · simp [hx]
    · simp only [hx, if_false]
      rw [htier] at h3
      by_cases htt : Address.size_tier a = tier
      · simp only [htt, if_true] at h3
        rcases h3 with h3 | h3
        · rcases List.mem_cons.1 h3 with h4 | h4
          · exfalso; apply hx; rw [d4, ← htt, h4]
          · exact h.fresh tier off h1 hb (Or.inl h4)
        · exact h.fresh tier off h1 hb (Or.inr h3)
      · simp only [htt, if_false] at h3
        exact h.fresh tier off h1 hb h3
  · intro x tl' hx
    rw [ht] at hx
    by_cases hxa : x = a
    · simp [hxa] at hx
    · simp only [hxa, if_false] at hx
      obtain ⟨tier, off, h1, h2, h3, h4⟩ := h.addr x tl' hx
      refine ⟨tier, off, h1, h2, ?_, h4⟩
      rw [htier]
      by_cases htt : Address.size_tier a = tier <;> simp [htt, h3]
  · intro tier
    rw [htier]
    by_cases htt : Address.size_tier a = tier
    · simp only [htt, if_true]
      refine List.nodup_cons.2 ⟨fun hm => ?_, h.nodup tier⟩
      have := h.fresh tier (Address.offset a) (htt ▸ d1) hoff (Or.inl hm)
      rw [← htt, ← d4, ha] at this
      exact absurd this (by simp)
    · simp only [htt, if_false]; exact h.nodup tier
  · intro tier off ho
    rw [htier] at ho ⊢
    by_cases htt : Address.size_tier a = tier
    · simp only [htt, if_true] at ho ⊢
      rcases List.mem_cons.1 ho with h4 | h4
      · rw [h4]; exact ⟨d2, htt ▸ d3⟩
      · exact h.range tier off h4
    · simp only [htt, if_false] at ho ⊢; exact h.range tier off ho
  · intro tier hlt
    rw [htier]
    by_cases htt : Address.size_tier a = tier <;> simp [htt, h.filled tier hlt]
  · intro tier off h1 hb h2 h3
    rw [htier] at h3 ⊢
    rw [ht]
    have hfil : (s.tier tier).filled = (if Address.size_tier a = tier then
        (⟨(s.tier tier).filled, Address.offset a :: (s.tier tier).free⟩ : Tier) else s.tier tier).filled := by
      by_cases htt : Address.size_tier a = tier <;> simp [htt]
    rw [← hfil] at h3
    by_cases hx : Address.new off tier = a
    · left
      rw [d4] at hx
      obtain ⟨e1, e2⟩ := address_new_inj off tier _ _ hb h1 hoff d1 hx
      simp [e2, e1]
    · simp only [hx, if_false]
      rcases h.cover tier off h1 hb h2 h3 with h4 | h4
      · left
        by_cases htt : Address.size_tier a = tier <;> simp [htt, h4]
      · exact Or.inr h4

theorem Col.alloc_nil (s : Col) (tier : Nat) (h : (s.tier tier).free = []) :
    s.alloc tier = ((s.tier tier).filled,
      { s with tiers := s.tiers.set DEPTH tier (some ⟨(s.tier tier).filled + 1, []⟩) }) := by
  unfold Col.alloc
  simp only [h]

theorem Col.alloc_cons (s : Col) (tier o : Nat) (rest : List Nat) (h : (s.tier tier).free = o :: rest) :
    s.alloc tier = (o,
      { s with tiers := s.tiers.set DEPTH tier (some ⟨(s.tier tier).filled, rest⟩) }) := by
  unfold Col.alloc
  simp only [h]

/-- `next_free` followed by writing a value with tail `tl` into the slot. -/
theorem SlotInv.alloc_set {s s' : Col} (h : SlotInv s) (tier tl : Nat) (htier : tier < 256)
    (hbound : ((s.alloc tier).2.tier tier).filled ≤ 2 ^ 56)
    (hts : ∀ t, s'.tier t = (s.alloc tier).2.tier t)
    (ht : ∀ x, s'.tailAt x = if x = Address.new (s.alloc tier).1 tier then some tl else s.tailAt x) :
    SlotInv s' ∧ s.tailAt (Address.new (s.alloc tier).1 tier) = none ∧
      1 ≤ (s.alloc tier).1 ∧ (s.alloc tier).1 < 2 ^ 56 := by
  have hf := h.filled tier htier
  -- the two cases of the allocator
  have hcases : (∃ o rest, (s.tier tier).free = o :: rest ∧ (s.alloc tier).1 = o ∧
        ∀ t, (s.alloc tier).2.tier t = if tier = t then ⟨(s.tier tier).filled, rest⟩ else s.tier t) ∨
      ((s.tier tier).free = [] ∧ (s.alloc tier).1 = (s.tier tier).filled ∧
        ∀ t, (s.alloc tier).2.tier t = if tier = t then ⟨(s.tier tier).filled + 1, []⟩ else s.tier t) := by
    cases hfr : (s.tier tier).free with
    | nil =>
      right
      rw [Col.alloc_nil s tier hfr]
      exact ⟨rfl, rfl, fun t => Col.tier_set s tier t _⟩
    | cons o rest =>
      left
      rw [Col.alloc_cons s tier o rest hfr]
      exact ⟨o, rest, rfl, rfl, fun t => Col.tier_set s tier t _⟩
  rcases hcases with ⟨o, rest, hfree, hoff, htiers⟩ | ⟨hfree, hoff, htiers⟩
  · -- pop
    have ho := h.range tier o (by rw [hfree]; simp)
    have ho56 : o < 2 ^ 56 := Nat.lt_of_lt_of_le ho.2 hf.2
    have hnd := h.nodup tier
    rw [hfree] at hnd
    have hnotin : o ∉ rest := (List.nodup_cons.1 hnd).1
    have hfresh : s.tailAt (Address.new o tier) = none :=
      h.fresh tier o htier ho56 (Or.inl (by rw [hfree]; simp))
    rw [hoff] at ht ⊢
    refine ⟨⟨?_, ?_, ?_, ?_, ?_, ?_⟩, hfresh, ho.1, ho56⟩
    · intro tier0 off h1 hb h3
      rw [hts, htiers] at h3
      rw [ht]
      by_cases hx : Address.new off tier0 = Address.new o tier
      · obtain ⟨e1, e2⟩ := address_new_inj off tier0 o tier hb h1 ho56 htier hx
        subst e1; subst e2
        simp only [if_true] at h3
        rcases h3 with h3 | h3
        · exact absurd h3 hnotin
        · exact absurd ho.2 (Nat.not_lt.2 h3)
      · simp only [hx, if_false]
        by_cases htt : tier = tier0
        · subst htt
          simp only [if_true] at h3
          rcases h3 with h3 | h3
          · exact h.fresh tier off h1 hb (Or.inl (by rw [hfree]; exact List.mem_cons_of_mem _ h3))
          · exact h.fresh tier off h1 hb (Or.inr h3)
        · simp only [htt, if_false] at h3
          exact h.fresh tier0 off h1 hb h3
    · intro x tl' hx
      rw [ht] at hx
      by_cases hxa : x = Address.new o tier
      · refine ⟨tier, o, htier, ho.1, ?_, hxa⟩
        rw [hts, htiers]; simp [ho.2]
      · simp only [hxa, if_false] at hx
        obtain ⟨tier0, off, h1, h2, h3, h4⟩ := h.addr x tl' hx
        refine ⟨tier0, off, h1, h2, ?_, h4⟩
        rw [hts, htiers]
        by_cases htt : tier = tier0
        · subst htt; simpa using h3
        · simpa [htt] using h3
    · intro tier0
      rw [hts, htiers]
      by_cases htt : tier = tier0
      · simp only [htt, if_true]; exact (List.nodup_cons.1 hnd).2
      · simp only [htt, if_false]; exact h.nodup tier0
    · intro tier0 off hm
      rw [hts, htiers] at hm ⊢
      by_cases htt : tier = tier0
      · subst htt
        simp only [if_true] at hm ⊢
        exact h.range tier off (by rw [hfree]; exact List.mem_cons_of_mem _ hm)
      · simp only [htt, if_false] at hm ⊢; exact h.range tier0 off hm
    · intro tier0 hlt0
      rw [hts, htiers]
      by_cases htt : tier = tier0
      · subst htt; simpa using hf
      · simp only [htt, if_false]; exact h.filled tier0 hlt0
    · intro tier0 off h1 hb h2 h3
      rw [hts, htiers] at h3 ⊢
      rw [ht]
      by_cases hx : Address.new off tier0 = Address.new o tier
      · right; simp [hx]
      · simp only [hx, if_false]
        by_cases htt : tier = tier0
        · subst htt
          simp only [if_true] at h3 ⊢
          rcases h.cover tier off h1 hb h2 h3 with h4 | h4
          · rw [hfree] at h4
            rcases List.mem_cons.1 h4 with h5 | h5
            · exfalso; apply hx; rw [h5]
            · exact Or.inl h5
          · exact Or.inr h4
        · simp only [htt, if_false] at h3 ⊢
          exact h.cover tier0 off h1 hb h2 h3
  · -- extend
    have hb' : (s.tier tier).filled + 1 ≤ 2 ^ 56 := by
      have := hbound
      rw [htiers] at this
      simpa using this
    have ho56 : (s.tier tier).filled < 2 ^ 56 := by omega
    have hfresh : s.tailAt (Address.new (s.tier tier).filled tier) = none :=
      h.fresh tier _ htier ho56 (Or.inr (Nat.le_refl _))
    rw [hoff] at ht ⊢
    refine ⟨⟨?_, ?_, ?_, ?_, ?_, ?_⟩, hfresh, hf.1, ho56⟩
    · intro tier0 off h1 hb h3
      rw [hts, htiers] at h3
      rw [ht]
      by_cases hx : Address.new off tier0 = Address.new (s.tier tier).filled tier
      · obtain ⟨e1, e2⟩ := address_new_inj off tier0 _ tier hb h1 ho56 htier hx
        subst e2
        simp only [if_true] at h3
        rcases h3 with h3 | h3
        · simp at h3
        · omega
      · simp only [hx, if_false]
        by_cases htt : tier = tier0
        · subst htt
          simp only [if_true] at h3
          rcases h3 with h3 | h3
          · simp at h3
          · exact h.fresh tier off h1 hb (Or.inr (by omega))
        · simp only [htt, if_false] at h3
          exact h.fresh tier0 off h1 hb h3
    · intro x tl' hx
      rw [ht] at hx
      by_cases hxa : x = Address.new (s.tier tier).filled tier
      · refine ⟨tier, _, htier, hf.1, ?_, hxa⟩
        rw [hts, htiers]; simp
      · simp only [hxa, if_false] at hx
        obtain ⟨tier0, off, h1, h2, h3, h4⟩ := h.addr x tl' hx
        refine ⟨tier0, off, h1, h2, ?_, h4⟩
        rw [hts, htiers]
        by_cases htt : tier = tier0
        · subst htt; simp; omega
        · simpa [htt] using h3
    · intro tier0
      rw [hts, htiers]
      by_cases htt : tier = tier0
      · simp [htt]
      · simp only [htt, if_false]; exact h.nodup tier0
    · intro tier0 off hm
      rw [hts, htiers] at hm ⊢
      by_cases htt : tier = tier0
      · subst htt; simp at hm
      · simp only [htt, if_false] at hm ⊢; exact h.range tier0 off hm
    · intro tier0 hlt0
      rw [hts, htiers]
      by_cases htt : tier = tier0
      · subst htt; simp; omega
      · simp only [htt, if_false]; exact h.filled tier0 hlt0
    · intro tier0 off h1 hb h2 h3
      rw [hts, htiers] at h3 ⊢
      rw [ht]
      by_cases hx : Address.new off tier0 = Address.new (s.tier tier).filled tier
      · right; simp [hx]
      · simp only [hx, if_false]
        by_cases htt : tier = tier0
        · subst htt
          simp only [if_true] at h3 ⊢
          have : off < (s.tier tier).filled := by
            rcases Nat.lt_or_ge off (s.tier tier).filled with h5 | h5
            · exact h5
            · exfalso; apply hx
              have : off = (s.tier tier).filled := by omega
              rw [this]
          rcases h.cover tier off h1 hb h2 this with h4 | h4
          · rw [hfree] at h4; simp at h4
          · exact Or.inr h4
        · simp only [htt, if_false] at h3 ⊢
          exact h.cover tier0 off h1 hb h2 h3

end Pdb.Index
