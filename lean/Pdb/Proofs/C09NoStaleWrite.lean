/-
C09 / C14 / C20: `NoStale` is preserved by the planned writes of the fixed code
(`write` with `cfg.exact`, `cfg.growOnMove`, `cfg.purge`).
-/
import Pdb.Proofs.C09NoStale

namespace Pdb.Index
open Pdb.Gen Pdb.IndexPage

/-! ## `purgeTable` removes EVERY entry (partial key of `kp`, address `a`) -/

/-- no position below `p` holds an entry (partial key of `kp`, address `a`) -/
def CleanP (b kp a : Nat) (page : List Nat) (p : Nat) : Prop :=
  ∀ j, j < p → j < 64 → BaseMatch b kp page j → Entry.address (page.getD j 0) b ≠ a

theorem purgeTable_clean (kp a : Nat) : ∀ (f : Nat) (t : Table) (p : Nat), TableWF t →
    64 ≤ p + f → CleanP t.bits kp a (t.page (t.chunk kp)) p →
    CleanP t.bits kp a ((purgeTable true kp a f t p).page (t.chunk kp)) 64 := by
  intro f
  induction f with
  | zero =>
    intro t p _ hf hc
    rw [purgeTable_zero]
    intro j _ hj hm
    exact hc j (by omega) hj hm
  | succ f ih =>
    intro t p hwf hf hc
    rw [purgeTable_succ]
    have hpw := (hwf.pages (t.chunk kp)).2
    cases hfe : findEntry true t.bits kp p (t.page (t.chunk kp)) with
    | none =>
      simp only
      intro j _ hj hm
      by_cases hjp : j < p
      · exact hc j hjp hj hm
      · obtain ⟨i, hi, _⟩ := findEntry_nomiss true t.bits kp p _ hwf.hi hpw j (by omega) hj hm
        rw [hfe] at hi; cases hi
    | some i =>
      simp only
      have hr := findEntry_range true t.bits kp p _ hwf.hi hpw i hfe
      have hmi : BaseMatch t.bits kp (t.page (t.chunk kp)) i :=
        findEntry_exact true t.bits kp p _ hwf.hi hpw (Or.inl rfl) i hfe
      have hmin : ∀ j, p ≤ j → j < i → ¬ BaseMatch t.bits kp (t.page (t.chunk kp)) j := by
        intro j h1 h2 hm
        obtain ⟨i', hi', hle⟩ := findEntry_nomiss true t.bits kp p _ hwf.hi hpw j h1 (by omega) hm
        rw [hfe] at hi'
        injection hi' with hi'
        omega
      by_cases ha : Entry.address (entryAt (t.page (t.chunk kp)) i) t.bits = a
      · rw [if_pos ha]
        have hrem : ∃ t1, t.remove kp i = some t1 := by
          unfold Table.remove
          have : entryAt (t.page (t.chunk kp)) i ≠ 0 ∧
              Entry.partial_key (entryAt (t.page (t.chunk kp)) i) t.bits = Entry.extract_key kp t.bits :=
            ⟨hmi.2, hmi.1⟩
          rw [if_pos this]
          exact ⟨_, rfl⟩
        obtain ⟨t1, ht1⟩ := hrem
        rw [ht1]
        simp only [Option.getD_some]
        obtain ⟨hb, hp⟩ := Table.remove_some t t1 kp i ht1
        have hwf1 : TableWF t1 := TableWF.of_pages t t1 hwf hb _ i 0 (by decide) hp
        have hch : t1.chunk kp = t.chunk kp := by simp [Table.chunk, hb]
        have hpage : t1.page (t.chunk kp) = (t.page (t.chunk kp)).set i 0 := by
          rw [hp]; simp
        have := ih t1 (i + 1) hwf1 (by omega) (by
          rw [hb, hch, hpage]
          intro j hj1 hj hm
          by_cases hji : i = j
          · subst hji
            unfold BaseMatch at hm
            have hlen : i < (t.page (t.chunk kp)).length := by
              rw [(hwf.pages _).1]; exact hr.2.1
            rw [getD_set _ _ _ _ hlen] at hm
            simp at hm
          · unfold BaseMatch at hm
            rw [getD_set_ne _ _ _ _ hji] at hm ⊢
            by_cases hjp : j < p
            · exact hc j hjp hj hm
            · exact absurd hm (hmin j (by omega) (by omega)))
        rw [hb, hch] at this
        exact this
      · rw [if_neg ha]
        refine ih t (i + 1) hwf (by omega) ?_
        intro j hj1 hj hm
        by_cases hjp : j < p
        · exact hc j hjp hj hm
        · by_cases hji : j = i
          · subst hji; exact ha
          · exact absurd hm (hmin j (by omega) (by omega))

/-- after the removal no entry of the table maps the partial key of `kp` to `a` -/
theorem purgeTable_complete (kp a : Nat) (t : Table) (hwf : TableWF t) :
    ¬ (purgeTable true kp a SCAN_FUEL t 0).Has kp a := by
  rintro ⟨j, hj, hm, ha⟩
  have hb := purgeTable_bits true kp a t SCAN_FUEL 0
  have hch : (purgeTable true kp a SCAN_FUEL t 0).chunk kp = t.chunk kp := by simp [Table.chunk, hb]
  rw [hch, hb] at hm ha
  exact purgeTable_clean kp a SCAN_FUEL t 0 hwf (by simp [SCAN_FUEL, INDEX_CHUNK_ENTRIES])
    (fun j h _ _ => absurd h (by omega)) j hj hj hm ha

theorem Table.Uniq.remove {t t' : Table} (hu : t.Uniq) (hwf : TableWF t) (kp i : Nat)
    (hr : t.remove kp i = some t') : t'.Uniq := by
  obtain ⟨hb, hp⟩ := Table.remove_some t t' kp i hr
  by_cases hi : i < 64
  · exact hu.of_pages hwf hb _ i 0 hi hp (Or.inl rfl)
  · -- nothing is written beyond the page
    intro c x y hx hy
    rw [hp c, hb]
    have : (t.page (t.chunk kp)).set i 0 = t.page (t.chunk kp) :=
      List.set_eq_of_length_le (by rw [(hwf.pages _).1]; omega)
    by_cases hc : t.chunk kp = c
    · subst hc; simp only [if_true, this]; exact hu _ x y hx hy
    · simp only [hc, if_false]; exact hu c x y hx hy

theorem purgeTable_uniq (ex : Bool) (kp a : Nat) (t : Table) (hwf : TableWF t) (hu : t.Uniq) (f p : Nat) :
    (purgeTable ex kp a f t p).Uniq :=
  (purgeTable_ind (fun t' => TableWF t' ∧ t'.Uniq) ex kp a
    (fun t1 i t2 h1 hr _ => ⟨(Sub.remove (a := Entry.address (entryAt (t1.page (t1.chunk kp)) i) t1.bits)
      h1.1 kp i hr rfl).wf, h1.2.remove h1.1 kp i hr⟩) f t p ⟨hwf, hu⟩).2

/-! ## one entry is written -/

/-- a `Has` witness after writing `e` at position `i` of chunk `c0`: an old witness at ANOTHER
position, or `e` -/
theorem Table.has_rev_pos (t t' : Table) (hb : t'.bits = t.bits) (c0 i e : Nat)
    (hlen : i < (t.page c0).length)
    (hp : ∀ c, t'.page c = if c0 = c then (t.page c0).set i e else t.page c)
    (kp a : Nat) (h : t'.Has kp a) :
    (∃ j, j < 64 ∧ (t.chunk kp = c0 → j ≠ i) ∧ BaseMatch t.bits kp (t.page (t.chunk kp)) j ∧
      Entry.address ((t.page (t.chunk kp)).getD j 0) t.bits = a) ∨
    (t.chunk kp = c0 ∧ e ≠ 0 ∧ Entry.address e t.bits = a ∧
      Entry.partial_key e t.bits = Entry.extract_key kp t.bits) := by
  obtain ⟨j, hj, hm, ha⟩ := h
  have hch : t'.chunk kp = t.chunk kp := by simp [Table.chunk, hb]
  rw [hch, hp (t.chunk kp), hb] at hm ha
  by_cases hc : c0 = t.chunk kp
  · subst hc
    simp only [if_true] at hm ha
    by_cases hij : i = j
    · subst hij
      unfold BaseMatch at hm
      rw [getD_set _ _ _ _ hlen] at hm ha
      simp only [if_true] at hm ha
      exact Or.inr ⟨rfl, hm.2, ha, hm.1⟩
    · unfold BaseMatch at hm
      rw [getD_set_ne _ _ _ _ hij] at hm ha
      exact Or.inl ⟨j, hj, fun _ h => hij h.symm, hm, ha⟩
  · simp only [hc, if_false] at hm ha
    exact Or.inl ⟨j, hj, fun h => absurd h.symm hc, hm, ha⟩

/-- The table after `insert` wrote the entry of `(kp, a)` at position `i` of the page of `kp`,
when no OTHER position of that page holds an entry (partial key of `kp`, `a`). -/
theorem Table.written_ns (t t' : Table) (hwf : TableWF t) (hu : t.Uniq) (hb : t'.bits = t.bits)
    (kp a i : Nat) (hkp : kp < 2 ^ 64) (hi : i < 64) (hla : a ≤ Entry.last_address t.bits)
    (hp : ∀ c, t'.page c = if t.chunk kp = c then
      (t.page (t.chunk kp)).set i (Entry.new a (Entry.extract_key kp t.bits) t.bits) else t.page c)
    (hno : ∀ j, j < 64 → j ≠ i → BaseMatch t.bits kp (t.page (t.chunk kp)) j →
      Entry.address ((t.page (t.chunk kp)).getD j 0) t.bits ≠ a) :
    TableWF t' ∧ t'.Uniq ∧ ∀ kp' a', kp' < 2 ^ 64 → t'.Has kp' a' →
      (∃ j, j < 64 ∧ (t.chunk kp' = t.chunk kp → j ≠ i) ∧
        BaseMatch t.bits kp' (t.page (t.chunk kp')) j ∧
        Entry.address ((t.page (t.chunk kp')).getD j 0) t.bits = a') ∨
      (a' = a ∧ vis kp' = vis kp) := by
  have hpk := extract_key_lt kp t.bits hwf.hi
  have epk := entry_partial_key_new a _ t.bits hwf.hi hpk hla
  have ead := entry_address_new a _ t.bits hwf.hi hpk hla
  have hlen : i < (t.page (t.chunk kp)).length := by rw [(hwf.pages _).1]; exact hi
  refine ⟨TableWF.of_pages t t' hwf hb _ i _ (entry_new_lt a _ t.bits hwf.hi hla) hp,
    hu.of_pages hwf hb _ i _ hi hp (Or.inr ?_), fun kp' a' hkp' hh => ?_⟩
  · intro j hj hji hne hpkj
    rw [epk] at hpkj
    rw [ead]
    exact hno j hj hji ⟨hpkj, hne⟩
  · rcases Table.has_rev_pos t t' hb _ i _ hlen hp kp' a' hh with h1 | ⟨hc, _, h3, h4⟩
    · exact Or.inl h1
    · right
      rw [ead] at h3
      exact ⟨h3.symm, vis_of_new_entry t hwf kp kp' a hkp hkp' hla hc h4⟩

/-- the position-free form -/
theorem Table.written_has (t : Table) (kp' a' : Nat)
    (h : ∃ j, j < 64 ∧ BaseMatch t.bits kp' (t.page (t.chunk kp')) j ∧
      Entry.address ((t.page (t.chunk kp')).getD j 0) t.bits = a') : t.Has kp' a' := h

/-! ## growth and insertion -/

/-- `insertLoop` seen from the entries: tables are pushed on the queue unchanged, the current
table of the result holds the entries of the old current table (or none, after a growth) plus
the new entry. -/
theorem insertLoop_ns (kp a : Nat) (hkp : kp < 2 ^ 64) : ∀ (f : Nat) (s s' : Col), Shape s →
    insertLoop s kp a f = .ok s' → s'.current.bits ≤ 49 →
    (∀ t ∈ s.tables, t.Uniq) → ¬ s.current.Has kp a →
    (∀ t' ∈ s'.tables, t'.Uniq) ∧
    (∀ t' ∈ s'.older, t' ∈ s.tables ∨ ∀ kp' a', ¬ t'.Has kp' a') ∧
    (∀ kp' a', kp' < 2 ^ 64 → s'.current.Has kp' a' →
      s.current.Has kp' a' ∨ (a' = a ∧ vis kp' = vis kp)) := by
  intro f
  induction f with
  | zero => intro s s' _ h; exact absurd h (by simp [insertLoop])
  | succ f ih =>
    intro s s' hS h hb hU hno
    have hcur := hS.wf s.current (by simp [Col.tables])
    rw [insertLoop_succ] at h
    rcases Table.insert_none_cases s.current kp a with ⟨t, ht⟩ | ht
    · rw [ht] at h
      simp only [insertCont] at h
      injection h with h
      subst h
      obtain ⟨hla, hbits, i, hi, hz, hp⟩ := Table.insert_none_written _ _ _ _ ht
      obtain ⟨_, hu', hent⟩ := Table.written_ns s.current t hcur (hU _ (by simp [Col.tables])) hbits
        kp a i hkp hi hla hp (fun j hj _ hm had => hno ⟨j, hj, hm, had⟩)
      refine ⟨fun t' ht' => ?_, fun t' ht' => Or.inl (by simp [Col.tables]; exact Or.inr ht'),
        fun kp' a' hkp' hh => ?_⟩
      · simp only [Col.tables] at ht'
        rcases List.mem_cons.1 ht' with h1 | h1
        · rw [h1]; exact hu'
        · exact hU t' (by simp [Col.tables, h1])
      · rcases hent kp' a' hkp' hh with ⟨j, hj, _, hm, had⟩ | h2
        · exact Or.inl ⟨j, hj, hm, had⟩
        · exact Or.inr h2
    · rw [ht] at h
      simp only [insertCont] at h
      have hmono := insertLoop_bits kp a f _ _ h
      have hb1 : s.current.bits + 1 ≤ 49 := by
        simp only [triggerReindex, Table.new] at hmono; omega
      have hU1 : ∀ t ∈ (triggerReindex s).tables, t.Uniq := by
        intro t ht'
        simp only [Col.tables, triggerReindex] at ht'
        rcases List.mem_cons.1 ht' with h1 | h1
        · rw [h1]; exact Table.Uniq.new _
        · rcases List.mem_append.1 h1 with h2 | h2
          · exact hU t (by simp [Col.tables, h2])
          · have : t = s.current := by simpa using h2
            rw [this]; exact hU _ (by simp [Col.tables])
      obtain ⟨r1, r2, r3⟩ := ih _ _ (hS.trigger hb1) h hb hU1 (Table.not_has_new _ _ _)
      refine ⟨r1, fun t' ht' => ?_, fun kp' a' hkp' hh => ?_⟩
      · rcases r2 t' ht' with h1 | h1
        · simp only [Col.tables, triggerReindex] at h1
          rcases List.mem_cons.1 h1 with h2 | h2
          · right; intro kp' a'; rw [h2]; exact Table.not_has_new _ _ _
          · left
            rcases List.mem_append.1 h2 with h3 | h3
            · simp [Col.tables, h3]
            · have : t' = s.current := by simpa using h3
              simp [Col.tables, this]
        · exact Or.inr h1
      · rcases r3 kp' a' hkp' hh with h1 | h1
        · exact absurd h1 (Table.not_has_new _ _ _)
        · exact Or.inr h1

/-! ## the removal from the queued tables -/

theorem Shape.purgeOlder {s : Col} (h : Shape s) (kp a : Nat) : Shape (purgeOlder s kp a) := by
  refine ⟨fun t' ht' => ?_, ?_⟩
  · simp only [Col.tables] at ht'
    rcases List.mem_cons.1 ht' with h1 | h1
    · rw [h1, purgeOlder_current]; exact h.wf _ (by simp [Col.tables])
    · obtain ⟨t, ht, e⟩ := purgeOlder_mem s kp a t' h1
      have hwf : TableWF t := h.wf t (by simp [Col.tables, ht])
      rcases e with e | e
      · rw [e]; exact hwf
      · rw [e]; exact (purgeTable_sub _ kp a t hwf _ _).wf
  · rw [List.map_append, purgeOlder_older_bits, purgeOlder_current, ← List.map_append]
    exact h.order

/-- members of the tables after the removal -/
theorem purgeOlder_tables_mem {s : Col} (hex : s.cfg.exact = true) (hpu : s.cfg.purge = true)
    (kp a : Nat) (t' : Table) (h : t' ∈ (purgeOlder s kp a).tables) :
    t' = s.current ∨ ∃ t ∈ s.older, t' = purgeTable true kp a SCAN_FUEL t 0 := by
  simp only [Col.tables] at h
  rcases List.mem_cons.1 h with h1 | h1
  · left; rw [h1, purgeOlder_current]
  · right
    rw [purgeOlder_on s kp a hpu] at h1
    simp only [List.mem_map] at h1
    obtain ⟨t, ht, e⟩ := h1
    exact ⟨t, ht, by rw [← e, hex]⟩

/-- The last part of a write that frees the slot `a` of the key prefix `kp`: `s0` is the state
before `remove_from_queued_indexes`; its current table holds no entry (`kp`, `a`) any more. -/
theorem NoStale.purge_step {s s0 : Col} (h : NoStale s) (hwf : ∀ t ∈ s0.tables, TableWF t)
    (hex : s0.cfg.exact = true) (hpu : s0.cfg.purge = true) (kp a : Nat) (hkp : kp < 2 ^ 64)
    (N : Nat → Prop) (vn : Nat)
    (hown : ∃ tj ∈ s.tables, tj.Has kp a)
    (hval : ∀ x, x ≠ a → ¬ N x → s0.tailAt x = s.tailAt x)
    (huniq : ∀ t ∈ s0.tables, t.Uniq)
    (hent : ∀ t0 ∈ s0.tables, ∀ kp' x, kp' < 2 ^ 64 → t0.Has kp' x →
      (¬ N x ∧ ∃ t ∈ s.tables, t.Has kp' x) ∨
      (N x ∧ vis kp' = vn ∧ ∃ tl, s0.tailAt x = some tl ∧ vn % 4 = tl / 2 ^ 206))
    (hcur : ¬ s0.current.Has kp a) : NoStale (purgeOlder s0 kp a) := by
  -- every table of the result: well-formed, unique, a part of a table of `s0`, without (`kp`, `a`)
  have hmem : ∀ t' ∈ (purgeOlder s0 kp a).tables, TableWF t' ∧ t'.Uniq ∧ ¬ t'.Has kp a ∧
      ∃ t0 ∈ s0.tables, ∀ kp' x, t'.Has kp' x → t0.Has kp' x := by
    intro t' ht'
    rcases purgeOlder_tables_mem hex hpu kp a t' ht' with e | ⟨t, ht, e⟩
    · rw [e]
      have hm : s0.current ∈ s0.tables := by simp [Col.tables]
      exact ⟨hwf _ hm, huniq _ hm, hcur, s0.current, hm, fun _ _ hh => hh⟩
    · have hm : t ∈ s0.tables := by simp [Col.tables, ht]
      have hs := purgeTable_sub true kp a t (hwf t hm) SCAN_FUEL 0
      rw [e]
      exact ⟨hs.wf, purgeTable_uniq true kp a t (hwf t hm) (huniq t hm) _ _,
        purgeTable_complete kp a t (hwf t hm), t, hm, hs.sub⟩
  refine h.step (fun x => x = a) N vn (fun x hx hn => ?_) (fun t' ht' => (hmem t' ht').2.1)
    (fun t' ht' kp' x hkp' hh => ?_)
  · rw [purgeOlder_tailAt]; exact hval x hx hn
  · obtain ⟨hwf', _, hnot, t0, ht0, hsub⟩ := hmem t' ht'
    rcases hent t0 ht0 kp' x hkp' (hsub kp' x hh) with ⟨hN, t, ht, hh0⟩ | ⟨hN, hv, tl, htl, hb⟩
    · left
      refine ⟨fun hxa => ?_, hN, t, ht, kp', hkp', hh0, rfl⟩
      subst hxa
      obtain ⟨tj, htj, hhj⟩ := hown
      have hv := h.agree t ht tj htj kp' kp x hkp' hkp hh0 hhj
      exact hnot (Table.has_of_vis t' hwf' kp' kp x hkp' hkp hv hh)
    · right
      exact ⟨hN, hv, tl, by rw [purgeOlder_tailAt]; exact htl, hb⟩

/-! ## a new key -/

theorem writeNew_ns {s s' : Col} (hS : Shape s) (hSl : SlotInv s) (hN : NoStale s) (k : Key)
    (hk : KeyWF k) (tier ext : Nat) (v : Val) (htier : tier < 256)
    (h : writeNew s k tier ext v = .ok s') (hB : Bounded s') :
    Shape s' ∧ SlotInv s' ∧ NoStale s' := by
  unfold writeNew at h
  simp only at h
  have e2 : ((s.alloc tier).2.setVal (Address.new (s.alloc tier).1 tier) (some ⟨k.tail, v⟩)
        ((s.alloc tier).2.nLive + 1)).resize tier (s.alloc tier).1 ext =
      s.withVals (s.values.set DEPTH (Address.new (s.alloc tier).1 tier) (some ⟨k.tail, v⟩))
        ((s.alloc tier).2.resize tier (s.alloc tier).1 ext).tiers (s.nLive + 1) := by
    rw [Col.alloc_snd s tier]; rfl
  rw [e2, insertLoop_withVals] at h
  obtain ⟨si, hi, hs'⟩ := Res.map_ok h
  subst hs'
  have hbits : si.current.bits ≤ 49 := hB.bits
  obtain ⟨_, hS', _⟩ := insertLoop_ok _ _ _ s si hS hi hbits
  have htail : ∀ x, (si.withVals (s.values.set DEPTH (Address.new (s.alloc tier).1 tier)
      (some ⟨k.tail, v⟩)) ((s.alloc tier).2.resize tier (s.alloc tier).1 ext).tiers (s.nLive + 1)).tailAt x =
      if x = Address.new (s.alloc tier).1 tier then some k.tail else s.tailAt x :=
    fun x => tailAt_vals_some s si _ _ _ _ x
  obtain ⟨hSl', hfresh, _, _⟩ := SlotInv.alloc_resize
    (s' := si.withVals (s.values.set DEPTH (Address.new (s.alloc tier).1 tier)
      (some ⟨k.tail, v⟩)) ((s.alloc tier).2.resize tier (s.alloc tier).1 ext).tiers (s.nLive + 1))
    hSl tier ext k.tail htier (fun _ => rfl) htail (hB.filled tier htier)
  generalize Address.new (s.alloc tier).1 tier = an at *
  have hnoHas : ∀ t ∈ s.tables, ∀ kp', kp' < 2 ^ 64 → ¬ t.Has kp' an := by
    intro t ht kp' hkp' hh
    obtain ⟨tl, htl, _⟩ := hN.live t ht kp' _ hkp' hh
    rw [hfresh] at htl; cases htl
  obtain ⟨r1, r2, r3⟩ := insertLoop_ns k.pre an hk.pre_lt _ s si hS hi hbits hN.uniq
    (hnoHas _ (by simp [Col.tables]) _ hk.pre_lt)
  refine ⟨⟨hS'.wf, hS'.order⟩, hSl', ?_⟩
  refine hN.step (fun _ => False) (fun x => x = an) (vis k.pre) (fun x _ hx => ?_) r1
    (fun t' ht' kp' x hkp' hh => ?_)
  · rw [htail x, if_neg hx]
  · have hold : ∀ t ∈ s.tables, t.Has kp' x →
        (¬ False ∧ ¬ x = an ∧ ∃ t ∈ s.tables, ∃ kp0, kp0 < 2 ^ 64 ∧ t.Has kp0 x ∧ vis kp0 = vis kp') :=
      fun t ht hh0 => ⟨fun f => f, fun e => hnoHas t ht kp' hkp' (e ▸ hh0), t, ht, kp', hkp', hh0, rfl⟩
    have ht'' : t' = si.current ∨ t' ∈ si.older := List.mem_cons.1 ht'
    rcases ht'' with e | e
    · rw [e] at hh
      rcases r3 kp' x hkp' hh with h1 | ⟨h1, h2⟩
      · exact Or.inl (hold _ (by simp [Col.tables]) h1)
      · right
        refine ⟨h1, h2, k.tail, ?_, hk.vis_tail⟩
        rw [h1, htail an, if_pos rfl]
    · rcases r2 t' e with h1 | h1
      · exact Or.inl (hold t' h1 hh)
      · exact absurd hh (h1 kp' x)

/-! ## a key found by `search_all_indexes` (no universe needed) -/

theorem found_of_search_shape {s : Col} (hS : Shape s) (k : Key) (j i a : Nat)
    (h : searchAll s k = some (j, i, a)) : ∃ tj, Found s k j i a tj := by
  obtain ⟨tj, htab, hs⟩ := searchAll_some s k j i a h
  have hwf := hS.wf tj (List.mem_of_getElem? htab)
  have := searchTable_sound s tj k i a hwf hs
  exact ⟨tj, this.1, htab, hwf, this.2.1, this.2.2.2.1.symm, this.2.2.1, this.2.2.2.2⟩

theorem Found.has {s : Col} {k : Key} {j i a : Nat} {tj : Table} (hF : Found s k j i a tj)
    (hex : s.cfg.exact = true) : tj.Has k.pre a :=
  ⟨i, hF.pos, hF.exact (Or.inl hex), hF.addr⟩

theorem Found.mem {s : Col} {k : Key} {j i a : Nat} {tj : Table} (hF : Found s k j i a tj) :
    tj ∈ s.tables := List.mem_of_getElem? hF.tab

/-- a key found in a queued table is not in the current table -/
theorem searchAll_succ_current {s : Col} (hS : Shape s) (k : Key) (j i a : Nat)
    (h : searchAll s k = some (j + 1, i, a)) (hl : s.tailAt a = some k.tail) :
    ¬ s.current.Has k.pre a := by
  intro hh
  have hc := searchTable_complete s s.current k a (hS.wf _ (by simp [Col.tables])) hh hl
  unfold searchAll Col.tables searchOlder at h
  cases hs : searchTable s s.current k with
  | none => rw [hs] at hc; cases hc
  | some r =>
    obtain ⟨i', a'⟩ := r
    simp only [hs] at h
    injection h with h
    injection h with h
    omega

/-- positions other than the found one do not hold the found entry again -/
theorem Found.other {s : Col} {k : Key} {j i a : Nat} {tj : Table} (hF : Found s k j i a tj)
    (hex : s.cfg.exact = true) (hu : tj.Uniq) (x : Nat) (hx : x < 64) (hxi : x ≠ i)
    (hm : BaseMatch tj.bits k.pre (tj.page (tj.chunk k.pre)) x) :
    Entry.address ((tj.page (tj.chunk k.pre)).getD x 0) tj.bits ≠ a := by
  intro had
  exact hxi (hu.base k.pre x i hx hF.pos hm (hF.exact (Or.inl hex)) (had.trans hF.addr.symm))

/-! ## replace in place -/

theorem write_inplace_ns {s : Col} (hS : Shape s) (hSl : SlotInv s) (hN : NoStale s) (k : Key)
    (a ext : Nat) (v : Val) (hl : s.tailAt a = some k.tail)
    (hB : Bounded ((s.setVal a (some ⟨k.tail, v⟩) s.nLive).resize (Address.size_tier a)
      (Address.offset a) ext)) :
    Shape ((s.setVal a (some ⟨k.tail, v⟩) s.nLive).resize (Address.size_tier a) (Address.offset a) ext) ∧
    SlotInv ((s.setVal a (some ⟨k.tail, v⟩) s.nLive).resize (Address.size_tier a) (Address.offset a) ext) ∧
    NoStale ((s.setVal a (some ⟨k.tail, v⟩) s.nLive).resize (Address.size_tier a) (Address.offset a) ext) := by
  have ht : ∀ x, (s.setVal a (some ⟨k.tail, v⟩) s.nLive).tailAt x = s.tailAt x := by
    intro x
    rw [Col.tailAt_setVal]
    by_cases h : a = x
    · subst h; simp [hl]
    · simp [h]
  have hS1 : SlotInv (s.setVal a (some ⟨k.tail, v⟩) s.nLive) := hSl.congr (fun _ => rfl) ht
  have hd := hSl.decode a k.tail hl
  refine ⟨⟨hS.wf, hS.order⟩, ?_, ?_⟩
  · refine hS1.resize a k.tail (by rw [ht]; exact hl) ext (fun t => ?_) (fun _ => rfl)
      (hB.filled _ hd.1)
    rw [Col.tier_resize]
    by_cases e : Address.size_tier a = t
    · subst e; simp
    · simp [e]
  · exact hN.mono (s' := (s.setVal a (some ⟨k.tail, v⟩) s.nLive).resize (Address.size_tier a)
      (Address.offset a) ext) ht hN.uniq
      (fun t' ht' kp x hkp hh => ⟨t', ht', kp, hkp, hh, rfl⟩)

/-! ## remove -/

theorem write_remove_ns {s s' : Col} (hS : Shape s) (hSl : SlotInv s) (hN : NoStale s)
    (hex : s.cfg.exact = true) (hpu : s.cfg.purge = true) (k : Key) (hk : KeyWF k) (j i a : Nat)
    (tj : Table) (hF : Found s k j i a tj) (hs : searchAll s k = some (j, i, a))
    (h : writeExisting s k none j i a = .ok s') : Shape s' ∧ SlotInv s' ∧ NoStale s' := by
  rw [writeExisting_none] at h
  obtain ⟨s0, h0, hs'⟩ := Res.map_ok h
  subst hs'
  have htabs : (freed s a (s.nLive - 1)).tables = s.tables := rfl
  have htj : (freed s a (s.nLive - 1)).tableAt j = tj := by
    simp only [Col.tableAt, htabs, List.getD_eq_getElem?_getD, hF.tab, Option.getD_some]
  unfold writeExisting0 at h0
  simp only at h0
  change (match ((freed s a (s.nLive - 1)).tableAt j).remove k.pre i with
    | some t => Res.ok ((freed s a (s.nLive - 1)).setTableAt j t)
    | none => Res.ok (freed s a (s.nLive - 1))) = Res.ok s0 at h0
  rw [htj] at h0
  have hSlD : SlotInv (freed s a (s.nLive - 1)) :=
    hSl.free_val a k.tail hF.live (freed_tier s a _) (freed_tailAt s a _)
  have hmi : BaseMatch tj.bits k.pre (tj.page (tj.chunk k.pre)) i := hF.exact (Or.inl hex)
  have hrem : ∃ t, tj.remove k.pre i = some t := by
    unfold Table.remove
    have : entryAt (tj.page (tj.chunk k.pre)) i ≠ 0 ∧
        Entry.partial_key (entryAt (tj.page (tj.chunk k.pre)) i) tj.bits = Entry.extract_key k.pre tj.bits :=
      ⟨hmi.2, hmi.1⟩
    rw [if_pos this]
    exact ⟨_, rfl⟩
  obtain ⟨t, hr⟩ := hrem
  rw [hr] at h0
  simp only at h0
  injection h0 with h0
  subst h0
  obtain ⟨hb, hp⟩ := Table.remove_some tj t k.pre i hr
  have hsub : Sub a tj t := Sub.remove hF.wf k.pre i hr hF.addr
  have hut : t.Uniq := (hN.uniq tj hF.mem).remove hF.wf k.pre i hr
  have hlen : i < (tj.page (tj.chunk k.pre)).length := by rw [(hF.wf.pages _).1]; exact hF.pos
  -- the table the entry was removed from holds no entry (k, a) any more
  have hgone : ¬ t.Has k.pre a := by
    intro hh
    rcases Table.has_rev_pos tj t hb _ i 0 hlen hp k.pre a hh with ⟨x, hx, hxi, hm, had⟩ | ⟨_, h2, _⟩
    · exact hF.other hex (hN.uniq tj hF.mem) x hx (hxi rfl) hm had
    · exact h2 rfl
  -- the state before the removal from the queued tables
  have hpre : ∀ t0 ∈ ((freed s a (s.nLive - 1)).setTableAt j t).tables,
      TableWF t0 ∧ t0.Uniq ∧ ∃ u ∈ s.tables, Sub a u t0 := by
    intro t0 ht0
    cases j with
    | zero =>
      simp only [Col.setTableAt, Col.tables] at ht0
      rcases List.mem_cons.1 ht0 with e | e
      · rw [e]; exact ⟨hsub.wf, hut, tj, hF.mem, hsub⟩
      · have hm : t0 ∈ s.tables := by simp [Col.tables]; exact Or.inr e
        exact ⟨hS.wf t0 hm, hN.uniq t0 hm, t0, hm, Sub.refl a t0 (hS.wf t0 hm)⟩
    | succ j' =>
      simp only [Col.setTableAt, Col.tables] at ht0
      rcases List.mem_cons.1 ht0 with e | e
      · have hm : t0 ∈ s.tables := by rw [e]; simp [Col.tables]; exact Or.inl rfl
        exact ⟨hS.wf t0 hm, hN.uniq t0 hm, t0, hm, Sub.refl a t0 (hS.wf t0 hm)⟩
      · rcases List.mem_or_eq_of_mem_set e with e1 | e1
        · have hm : t0 ∈ s.tables := by simp [Col.tables]; exact Or.inr e1
          exact ⟨hS.wf t0 hm, hN.uniq t0 hm, t0, hm, Sub.refl a t0 (hS.wf t0 hm)⟩
        · rw [e1]; exact ⟨hsub.wf, hut, tj, hF.mem, hsub⟩
  have hcur0 : ¬ ((freed s a (s.nLive - 1)).setTableAt j t).current.Has k.pre a := by
    cases j with
    | zero => exact hgone
    | succ j' => exact searchAll_succ_current hS k j' i a hs hF.live
  have hbitsEq : (((freed s a (s.nLive - 1)).setTableAt j t).older ++
      [((freed s a (s.nLive - 1)).setTableAt j t).current]).map (·.bits) =
      (s.older ++ [s.current]).map (·.bits) := by
    cases j with
    | zero =>
      simp only [Col.setTableAt, List.map_append, List.map_cons, List.map_nil]
      have hcur : tj = s.current := by
        have := hF.tab
        simp only [Col.tables, List.getElem?_cons_zero, Option.some.injEq] at this
        exact this.symm
      rw [hb, hcur]; rfl
    | succ j' =>
      simp only [Col.setTableAt, List.map_append, List.map_cons, List.map_nil]
      have hold : s.older[j']? = some tj := by
        have h1 := hF.tab
        simp only [Col.tables, List.getElem?_cons_succ] at h1
        exact h1
      have : (List.set (freed s a (s.nLive - 1)).older j' t).map (·.bits) = s.older.map (·.bits) := by
        have e0 : (freed s a (s.nLive - 1)).older = s.older := rfl
        rw [e0, List.map_set, hb]
        apply List.ext_getElem?
        intro n
        rw [List.getElem?_set]
        by_cases hn : j' = n
        · subst hn
          simp only [if_true, List.length_map, List.getElem?_map, hold, Option.map_some]
          have : j' < s.older.length := by
            rcases Nat.lt_or_ge j' s.older.length with h | h
            · exact h
            · rw [List.getElem?_eq_none h] at hold; cases hold
          simp [this]
        · simp [hn]
      rw [this]; rfl
  have hS0 : Shape ((freed s a (s.nLive - 1)).setTableAt j t) :=
    ⟨fun t0 ht0 => (hpre t0 ht0).1, by rw [hbitsEq]; exact hS.order⟩
  have hSl0 : SlotInv ((freed s a (s.nLive - 1)).setTableAt j t) :=
    hSlD.congr (fun _ => by cases j <;> rfl) (fun _ => by cases j <;> rfl)
  have hcfg : ((freed s a (s.nLive - 1)).setTableAt j t).cfg = s.cfg := by cases j <;> rfl
  have htl0 : ∀ x, ((freed s a (s.nLive - 1)).setTableAt j t).tailAt x =
      if x = a then none else s.tailAt x := by
    intro x
    have : ((freed s a (s.nLive - 1)).setTableAt j t).tailAt x = (freed s a (s.nLive - 1)).tailAt x := by
      cases j <;> rfl
    rw [this, freed_tailAt]
  refine ⟨hS0.purgeOlder _ _, ?_, ?_⟩
  · exact hSl0.congr (fun tt => purgeOlder_tier _ _ _ tt) (fun x => purgeOlder_tailAt _ _ _ x)
  · refine hN.purge_step hS0.wf (by rw [hcfg]; exact hex) (by rw [hcfg]; exact hpu) k.pre a
      hk.pre_lt (fun _ => False) 0 ⟨tj, hF.mem, hF.has hex⟩ (fun x hx _ => ?_)
      (fun t0 ht0 => (hpre t0 ht0).2.1) (fun t0 ht0 kp' x _ hh => ?_) hcur0
    · rw [htl0, if_neg hx]
    · obtain ⟨_, _, u, hu, hsu⟩ := hpre t0 ht0
      exact Or.inl ⟨fun f => f, u, hu, hsu.sub kp' x hh⟩

/-! ## move to another size tier -/

/-- the index part of a move: the new entry (`kp`, `a'`) replaces the found entry of the current
table (`sub = some i`), is added to the current table, or goes to a fresh table after a growth -/
theorem move_index_ns {sD s' : Col} (hS : Shape sD) (hU : ∀ t ∈ sD.tables, t.Uniq) (kp a a' : Nat)
    (hkp : kp < 2 ^ 64) (haa : a ≠ a') (sub : Option Nat)
    (hfresh : ¬ sD.current.Has kp a')
    (hsubpos : ∀ i, sub = some i → i < 64)
    (hsubaddr : ∀ i, sub = some i → Entry.address
      ((sD.current.page (sD.current.chunk kp)).getD i 0) sD.current.bits = a)
    (hA : ∀ x, x < 64 → sub ≠ some x →
      BaseMatch sD.current.bits kp (sD.current.page (sD.current.chunk kp)) x →
      Entry.address ((sD.current.page (sD.current.chunk kp)).getD x 0) sD.current.bits ≠ a)
    (VS : Trie Slot) (TS : Trie Tier) (N F : Nat)
    (h : insertCont (sD.withVals VS TS N) (sD.current.insert kp a' sub)
      (fun _ => insertLoop (triggerReindex (sD.withVals VS TS N)) kp a' F) = .ok s')
    (hbits : s'.current.bits ≤ 49) :
    ∃ sI, s' = sI.withVals VS TS N ∧ Shape sI ∧ sI.cfg = sD.cfg ∧ (∀ t ∈ sI.tables, t.Uniq) ∧
      (∀ t' ∈ sI.older, t' ∈ sD.tables ∨ ∀ kp' x, ¬ t'.Has kp' x) ∧
      (∀ kp' x, kp' < 2 ^ 64 → sI.current.Has kp' x →
        sD.current.Has kp' x ∨ (x = a' ∧ vis kp' = vis kp)) ∧
      ¬ sI.current.Has kp a ∧
      (∀ t ∈ sD.tables, ∀ kp' x, t.Has kp' x → x ≠ a → ∃ t' ∈ sI.tables, t'.Has kp' x) ∧
      (a' ≠ 0 → sI.current.Has kp a') ∧
      (Ext sD sI ∨ (sI.older = sD.older ∧ sI.progress = sD.progress ∧
        ∀ kp' x, sD.current.Has kp' x → x ≠ a → sI.current.Has kp' x)) := by
  have hwfc : TableWF sD.current := hS.wf _ (by simp [Col.tables])
  have hucur : sD.current.Uniq := hU _ (by simp [Col.tables])
  have hno : ∀ i x, x < 64 → x ≠ i →
      BaseMatch sD.current.bits kp (sD.current.page (sD.current.chunk kp)) x →
      Entry.address ((sD.current.page (sD.current.chunk kp)).getD x 0) sD.current.bits ≠ a' :=
    fun _ x hx _ hm had => hfresh ⟨x, hx, hm, had⟩
  cases hins : sD.current.insert kp a' sub with
  | skipped => exact absurd hins (Table.insert_ne_skipped _ _ _ _)
  | panic => rw [hins] at h; simp only [insertCont] at h; cases h
  | needReindex =>
    rw [hins] at h
    simp only [insertCont] at h
    have e1 : triggerReindex (sD.withVals VS TS N) = (triggerReindex sD).withVals VS TS N := rfl
    rw [e1, insertLoop_withVals] at h
    cases hi : insertLoop (triggerReindex sD) kp a' F with
    | panic => rw [hi] at h; simp only [Res.map] at h; cases h
    | diverge => rw [hi] at h; simp only [Res.map] at h; cases h
    | ok sI =>
      rw [hi] at h
      simp only [Res.map] at h
      injection h with h
      have hs' : s' = sI.withVals VS TS N := h.symm
      have hb : sI.current.bits ≤ 49 := by rw [hs'] at hbits; exact hbits
      have hmono := insertLoop_bits kp a' F _ _ hi
      have hb1 : sD.current.bits + 1 ≤ 49 := by
        simp only [triggerReindex, Table.new] at hmono; omega
      have hS1 := hS.trigger hb1
      obtain ⟨hE, hSI, hHas⟩ := insertLoop_ok kp a' _ _ sI hS1 hi hb
      have hEE := (Ext.trigger sD).trans hE
      have hU1 : ∀ t ∈ (triggerReindex sD).tables, t.Uniq := by
        intro t ht'
        simp only [Col.tables, triggerReindex] at ht'
        rcases List.mem_cons.1 ht' with h1 | h1
        · rw [h1]; exact Table.Uniq.new _
        · rcases List.mem_append.1 h1 with h2 | h2
          · exact hU t (by simp [Col.tables, h2])
          · have : t = sD.current := by simpa using h2
            rw [this]; exact hucur
      obtain ⟨r1, r2, r3⟩ := insertLoop_ns kp a' hkp _ _ sI hS1 hi hb hU1 (Table.not_has_new _ _ _)
      refine ⟨sI, hs', hSI, hE.cfg, r1, fun t' ht' => ?_, fun kp' x hkp' hh => ?_, fun hh => ?_,
        fun t ht kp' x hh _ => hEE.has_all kp' x t ht hh, hHas, Or.inl hEE⟩
      · rcases r2 t' ht' with h1 | h1
        · simp only [Col.tables, triggerReindex] at h1
          rcases List.mem_cons.1 h1 with h2 | h2
          · right; intro kp' x; rw [h2]; exact Table.not_has_new _ _ _
          · left
            rcases List.mem_append.1 h2 with h3 | h3
            · simp [Col.tables, h3]
            · have : t' = sD.current := by simpa using h3
              simp [Col.tables, this]
        · exact Or.inr h1
      · rcases r3 kp' x hkp' hh with h1 | h1
        · exact absurd h1 (Table.not_has_new _ _ _)
        · exact Or.inr h1
      · rcases r3 kp a hkp hh with h1 | ⟨h1, _⟩
        · exact absurd h1 (Table.not_has_new _ _ _)
        · exact haa h1
  | written t =>
    rw [hins] at h
    simp only [insertCont] at h
    injection h with h
    have hs' : s' = ({ sD with current := t } : Col).withVals VS TS N := h.symm
    -- in both cases one position `i` of the page of `kp` was written
    have hw : ∃ i, i < 64 ∧ (sub = none ∨ sub = some i) ∧ a' ≤ Entry.last_address sD.current.bits ∧
        t.bits = sD.current.bits ∧
        (sub = none → (sD.current.page (sD.current.chunk kp)).getD i 0 = 0) ∧
        ∀ c, t.page c = if sD.current.chunk kp = c then
          (sD.current.page (sD.current.chunk kp)).set i
            (Entry.new a' (Entry.extract_key kp sD.current.bits) sD.current.bits) else sD.current.page c := by
      cases sub with
      | none =>
        obtain ⟨hla, hbt, i, hi, hz, hp⟩ := Table.insert_none_written _ _ _ _ hins
        exact ⟨i, hi, Or.inl rfl, hla, hbt, fun _ => hz, hp⟩
      | some i =>
        obtain ⟨hla, hbt, _, hp⟩ := Table.insert_some_written _ _ _ _ _ hwfc hins
        exact ⟨i, hsubpos i rfl, Or.inr rfl, hla, hbt, (fun e => by cases e), hp⟩
    obtain ⟨i, hi, hsub, hla, hbt, hz, hp⟩ := hw
    obtain ⟨hwft, hut, hent⟩ := Table.written_ns sD.current t hwfc hucur hbt kp a' i hkp hi hla hp
      (hno i)
    have hkeep : ∀ kp' x, sD.current.Has kp' x → x ≠ a → t.Has kp' x := by
      intro kp' x hh hxa
      refine Table.has_of_pages sD.current t hbt _ i _ hp kp' x hh (fun _ => ?_)
      rcases hsub with e1 | e1
      · exact Or.inr (hz e1)
      · left; rw [hsubaddr i e1]; exact fun e2 => hxa e2.symm
    have hSI : Shape ({ sD with current := t } : Col) := by
      refine ⟨fun t' ht' => ?_, ?_⟩
      · simp only [Col.tables] at ht'
        rcases List.mem_cons.1 ht' with e | e
        · rw [e]; exact hwft
        · exact hS.wf t' (by simp [Col.tables, e])
      · have := hS.order
        simp only [List.map_append, List.map_cons, List.map_nil] at this ⊢
        rw [hbt]; exact this
    refine ⟨_, hs', hSI, rfl, fun t' ht' => ?_, fun t' ht' => Or.inl (by simp [Col.tables]; exact Or.inr ht'),
      fun kp' x hkp' hh => ?_, fun hh => ?_, fun t0 ht0 kp' x hh hxa => ?_, fun ha0 => ?_,
      Or.inr ⟨rfl, rfl, hkeep⟩⟩
    rotate_left 3
    · simp only [Col.tables] at ht0
      rcases List.mem_cons.1 ht0 with e | e
      · refine ⟨t, by simp [Col.tables], ?_⟩
        rw [e] at hh
        exact hkeep kp' x hh hxa
      · exact ⟨t0, by simp [Col.tables]; exact Or.inr e, hh⟩
    · exact Table.has_written sD.current t hwfc hbt kp a' i hi hla ha0 hp
    · simp only [Col.tables] at ht'
      rcases List.mem_cons.1 ht' with e | e
      · rw [e]; exact hut
      · exact hU t' (by simp [Col.tables, e])
    · rcases hent kp' x hkp' hh with ⟨y, hy, _, hm, had⟩ | h2
      · exact Or.inl ⟨y, hy, hm, had⟩
      · exact Or.inr h2
    · rcases hent kp a hkp hh with ⟨y, hy, hyi, hm, had⟩ | ⟨h2, _⟩
      · have hyi' : y ≠ i := hyi rfl
        refine hA y hy ?_ hm had
        rcases hsub with e | e
        · rw [e]; simp
        · rw [e]; intro e2; injection e2 with e2; exact hyi' e2.symm
      · exact haa h2

theorem write_move_ns {s s' : Col} (hS : Shape s) (hSl : SlotInv s) (hN : NoStale s)
    (hex : s.cfg.exact = true) (hgrow : s.cfg.growOnMove = true) (hpu : s.cfg.purge = true)
    (k : Key) (hk : KeyWF k) (j i a : Nat) (tj : Table) (hF : Found s k j i a tj)
    (hs : searchAll s k = some (j, i, a)) (tier' ext : Nat) (v : Val) (htier' : tier' < 256)
    (hne : Address.size_tier a ≠ tier')
    (h : writeExisting s k (some (tier', ext, v)) j i a = .ok s') (hB : Bounded s') :
    Shape s' ∧ SlotInv s' ∧ NoStale s' := by
  rw [writeExisting_move _ _ _ _ _ _ _ _ hne] at h
  obtain ⟨s0, h0, hs'⟩ := Res.map_ok h
  subst hs'
  have hB0 : Bounded s0 := hB.of_purgeOlder
  have hmv : moveValue s k a tier' ext v =
      (Address.new ((freed s a s.nLive).alloc tier').1 tier',
       (freed s a s.nLive).withVals
         ((freed s a s.nLive).values.set DEPTH (Address.new ((freed s a s.nLive).alloc tier').1 tier')
           (some ⟨k.tail, v⟩))
         (((freed s a s.nLive).alloc tier').2.resize tier' ((freed s a s.nLive).alloc tier').1 ext).tiers
         (freed s a s.nLive).nLive) := by
    unfold moveValue
    simp only
    have : (s.release (Address.size_tier a) (Address.offset a)).setVal a none s.nLive =
        freed s a s.nLive := rfl
    rw [this, Col.alloc_snd (freed s a s.nLive) tier']
    rfl
  unfold writeExisting0 at h0
  simp only [hne, if_false, hgrow, if_true] at h0
  rw [hmv] at h0
  simp only at h0
  have hSlD : SlotInv (freed s a s.nLive) :=
    hSl.free_val a k.tail hF.live (freed_tier s a _) (freed_tailAt s a _)
  have hSD : Shape (freed s a s.nLive) := ⟨hS.wf, hS.order⟩
  have htabD : (freed s a s.nLive).tables = s.tables := rfl
  have hcurD : (freed s a s.nLive).current = s.current := rfl
  have hcfgD : (freed s a s.nLive).cfg = s.cfg := rfl
  have htlD : ∀ x, (freed s a s.nLive).tailAt x = if x = a then none else s.tailAt x :=
    freed_tailAt s a s.nLive
  generalize freed s a s.nLive = sD at h0 hSlD hSD htabD hcurD hcfgD htlD
  have htiers : s0.tiers = ((sD.alloc tier').2.resize tier' (sD.alloc tier').1 ext).tiers :=
    insertCont_tiers (s := (sD.withVals (sD.values.set DEPTH (Address.new (sD.alloc tier').1 tier') (some ⟨k.tail, v⟩)) ((sD.alloc tier').2.resize tier' (sD.alloc tier').1 ext).tiers sD.nLive)) _ _ _ _ _ h0
  have hbnd2 : (((sD.alloc tier').2.resize tier' (sD.alloc tier').1 ext).tier tier').filled ≤ 2 ^ 56 := by
    have h1 := hB0.filled tier' htier'
    simp only [Col.tier] at h1 ⊢
    rw [htiers] at h1
    exact h1
  have hbnd : ((sD.alloc tier').2.tier tier').filled ≤ 2 ^ 56 :=
    Nat.le_trans (alloc_filled_le_resize sD tier' _ ext) hbnd2
  have hfreshD := hSlD.alloc_fresh tier' htier' hbnd
  have haa : a ≠ Address.new (sD.alloc tier').1 tier' := by
    intro e
    apply hne
    rw [e]
    exact address_tier_new _ _ hfreshD.2.2 htier'
  have hdead' : s.tailAt (Address.new (sD.alloc tier').1 tier') = none := by
    have := hfreshD.1
    rw [htlD, if_neg (fun e => haa e.symm)] at this
    exact this
  have hnoHas : ∀ t ∈ s.tables, ∀ kp', kp' < 2 ^ 64 → ¬ t.Has kp' (Address.new (sD.alloc tier').1 tier') := by
    intro t ht kp' hkp' hh
    obtain ⟨tl, htl, _⟩ := hN.live t ht kp' _ hkp' hh
    rw [hdead'] at htl; cases htl
  have hcurmem : s.current ∈ s.tables := by simp [Col.tables]
  obtain ⟨sI, hs0, hSI, hcfgI, hUI, hold, hcurI, hgone, _, _, _⟩ := move_index_ns hSD
    (by rw [htabD]; exact hN.uniq) k.pre a _ hk.pre_lt haa (if j = 0 then some i else none)
    (by rw [hcurD]; exact hnoHas _ hcurmem _ hk.pre_lt)
    (fun i' hi' => by
      by_cases hj : j = 0
      · simp only [hj, if_true] at hi'
        injection hi' with hi'
        rw [← hi']; exact hF.pos
      · simp [hj] at hi')
    (fun i' hi' => by
      by_cases hj : j = 0
      · simp only [hj, if_true] at hi'
        injection hi' with hi'
        have hcur : tj = s.current := by
          have := hF.tab
          rw [hj] at this
          simp only [Col.tables, List.getElem?_cons_zero, Option.some.injEq] at this
          exact this.symm
        rw [hcurD, ← hcur, ← hi']; exact hF.addr
      · simp [hj] at hi')
    (fun x hx hsx hm had => by
      rw [hcurD] at hm had
      by_cases hj : j = 0
      · have hcur : tj = s.current := by
          have := hF.tab
          rw [hj] at this
          simp only [Col.tables, List.getElem?_cons_zero, Option.some.injEq] at this
          exact this.symm
        simp only [hj, if_true] at hsx
        rw [← hcur] at hm had
        exact hF.other hex (hN.uniq tj hF.mem) x hx (fun e => hsx (by rw [e])) hm had
      · obtain ⟨j', hj'⟩ : ∃ j', j = j' + 1 := ⟨j - 1, by omega⟩
        subst hj'
        exact searchAll_succ_current hS k j' i a hs hF.live ⟨x, hx, hm, had⟩)
    _ _ _ _ h0 hB0.bits
  subst hs0
  have htail : ∀ x, (sI.withVals (sD.values.set DEPTH (Address.new (sD.alloc tier').1 tier')
      (some ⟨k.tail, v⟩)) ((sD.alloc tier').2.resize tier' (sD.alloc tier').1 ext).tiers sD.nLive).tailAt x =
      if x = Address.new (sD.alloc tier').1 tier' then some k.tail else sD.tailAt x :=
    fun x => tailAt_vals_some sD sI _ _ _ _ x
  obtain ⟨hSl0, _, _, _⟩ := SlotInv.alloc_resize
    (s' := sI.withVals (sD.values.set DEPTH (Address.new (sD.alloc tier').1 tier')
      (some ⟨k.tail, v⟩)) ((sD.alloc tier').2.resize tier' (sD.alloc tier').1 ext).tiers sD.nLive)
    hSlD tier' ext k.tail htier' (fun _ => rfl) htail hbnd2
  generalize Address.new (sD.alloc tier').1 tier' = an at *
  have hS0 : Shape (sI.withVals (sD.values.set DEPTH an (some ⟨k.tail, v⟩))
      ((sD.alloc tier').2.resize tier' (sD.alloc tier').1 ext).tiers sD.nLive) := ⟨hSI.wf, hSI.order⟩
  refine ⟨hS0.purgeOlder _ _, ?_, ?_⟩
  · exact hSl0.congr (fun tt => purgeOlder_tier _ _ _ tt) (fun x => purgeOlder_tailAt _ _ _ x)
  · have hcfg0 : (sI.withVals (sD.values.set DEPTH an (some ⟨k.tail, v⟩))
        ((sD.alloc tier').2.resize tier' (sD.alloc tier').1 ext).tiers sD.nLive).cfg = s.cfg := by
      have : (sI.withVals (sD.values.set DEPTH an (some ⟨k.tail, v⟩))
        ((sD.alloc tier').2.resize tier' (sD.alloc tier').1 ext).tiers sD.nLive).cfg = sI.cfg := rfl
      rw [this, hcfgI, hcfgD]
    refine hN.purge_step hS0.wf (by rw [hcfg0]; exact hex) (by rw [hcfg0]; exact hpu) k.pre a
      hk.pre_lt (fun x => x = an) (vis k.pre) ⟨tj, hF.mem, hF.has hex⟩ (fun x hx hxn => ?_)
      hUI (fun t0 ht0 kp' x hkp' hh => ?_) hgone
    · rw [htail x, if_neg hxn, htlD, if_neg hx]
    · have hold' : ∀ t ∈ s.tables, t.Has kp' x → (¬ x = an ∧ ∃ t ∈ s.tables, t.Has kp' x) :=
        fun t ht hh0 => ⟨fun e => hnoHas t ht kp' hkp' (e ▸ hh0), t, ht, hh0⟩
      have ht0' : t0 = sI.current ∨ t0 ∈ sI.older := List.mem_cons.1 ht0
      rcases ht0' with e | e
      · rw [e] at hh
        rcases hcurI kp' x hkp' hh with h1 | ⟨h1, h2⟩
        · rw [hcurD] at h1
          exact Or.inl (hold' _ hcurmem h1)
        · right
          refine ⟨h1, h2, k.tail, ?_, hk.vis_tail⟩
          rw [h1, htail an, if_pos rfl]
      · rcases hold t0 e with h1 | h1
        · rw [htabD] at h1
          exact Or.inl (hold' t0 h1 hh)
        · exact absurd hh (h1 kp' x)

/-! ## `write` -/

/-- `HashColumn::write_plan` of the fixed code keeps "no stale index entry". -/
theorem write_ns {s s' : Col} (hS : Shape s) (hSl : SlotInv s) (hN : NoStale s)
    (hex : s.cfg.exact = true) (hgrow : s.cfg.growOnMove = true) (hpu : s.cfg.purge = true)
    (k : Key) (hk : KeyWF k) (op : Option (Nat × Nat × Val))
    (hop : ∀ t e v, op = some (t, e, v) → t < 256)
    (h : write s k op = .ok s') (hB : Bounded s') : Shape s' ∧ SlotInv s' ∧ NoStale s' := by
  unfold write at h
  cases hs : searchAll s k with
  | none =>
    rw [hs] at h
    simp only at h
    cases op with
    | none =>
      simp only at h
      injection h with h
      subst h
      exact ⟨hS, hSl, hN⟩
    | some tv =>
      obtain ⟨tier, ext, v⟩ := tv
      simp only at h
      exact writeNew_ns hS hSl hN k hk tier ext v (hop tier ext v rfl) h hB
  | some r =>
    obtain ⟨j, i, a⟩ := r
    rw [hs] at h
    simp only at h
    obtain ⟨tj, hF⟩ := found_of_search_shape hS k j i a hs
    cases op with
    | none => exact write_remove_ns hS hSl hN hex hpu k hk j i a tj hF hs h
    | some tv =>
      obtain ⟨tier', ext, v⟩ := tv
      by_cases hti : Address.size_tier a = tier'
      · rw [writeExisting_inplace _ _ _ _ _ _ _ _ hti] at h
        have : writeExisting0 s k (some (tier', ext, v)) j i a =
            .ok ((s.setVal a (some ⟨k.tail, v⟩) s.nLive).resize (Address.size_tier a)
              (Address.offset a) ext) := by
          unfold writeExisting0
          simp only [hti, if_true]
        rw [this] at h
        injection h with h
        subst h
        exact write_inplace_ns hS hSl hN k a ext v hF.live hB
      · exact write_move_ns hS hSl hN hex hgrow hpu k hk j i a tj hF hs tier' ext v
          (hop tier' ext v rfl) hti h hB

end Pdb.Index
