/-
T0, storage layer, third file: GENERATED = MODEL for the free-list functions of src/table.rs
(`ValueTable::next_free`, `read_next_free`, `clear_slot`, `write_remove_plan`).  See Pdb/Proofs/OrderStorage.lean for the
reach of the tie; kept apart so that the three files build in parallel.
-/
import Pdb.Gen.Storage
import Pdb.Model.ValueTable

namespace Pdb.OrdS
open Pdb.Gen.Storage Marker

/-! ## the free-list functions RUN: generated statement trees under a fixed semantics = the model functions

`tools/rs2lean_storage.py` emits for `next_free`, `read_next_free`, `clear_slot`, `write_remove_plan` the statement TREE
(`<fn>_prog : List Prog`): every marker occurrence with the complete statement around it, nested in the block headers
it depends on.  Below, each pinned statement TEXT and each header TEXT gets a meaning on a small machine state
(`sem`, `condSem`: the table of the model plus the locals these functions use); a text that is not in the table is an
error, so the theorems fail rather than guess.  Running the generated tree is then proved EQUAL to the hand-written
model function for every table state.  Consequences for edits of the Rust: a reordering that does not change the result
(two independent loads swapped, the head stored before the slot image is logged) keeps these theorems; moving
`dirty_header.store` into one branch, linking the tombstone to something else, returning the wrong slot, dropping the
bound check of the link, or negating the `multipart` test breaks them.
Modelling decisions (not derived): the in-memory stack `free_entries` (a mirror of the on-disk chain, multitree columns
only) is not part of `ValueTable.VT`, its two blocks are skipped; the trees contain marker occurrences only, so an early
exit that is not a marker would be invisible here: `OrdS.no_early_exit` (OrderStorage.lean) shows there is none in
`next_free` / `clear_slot` / `write_remove_plan` and exactly the corruption return in `read_next_free`; "log overlay, else file" is one read of the model
state (file + overlay); `clear_chain` (a loop) is taken from the model (`ValueTable.clearChain`), its text is pinned. -/

inductive RErr where
  | wr (e : ValueTable.WrErr)
  | unknown (what : String)

/-- machine state: the table, the parameter / locals of the four functions, the header flag, the result -/
structure RSt where
  t : ValueTable.VT
  index : Nat := 0
  filled : Nat := 0
  lastRemoved : Nat := 0
  nextRemoved : Nat := 0
  next : Nat := 0
  buf : ValueTable.Bytes := []
  dirty : Bool := false
  cleared : List Nat := []
  ret : Option Nat := none

/-- meaning of the block headers -/
def condSem (h : String) : Option (RSt → Bool) :=
  if h = "if last_removed!=0" then some (fun s => s.lastRemoved != 0)
  else if h = "if last_removed!=0{}else" then some (fun s => s.lastRemoved == 0)
  else if h = "if next>=filled" then some (fun s => decide (s.filled ≤ s.next))
  else if h = "if self.multipart" then some (fun s => s.t.multipart)
  else if h = "if self.multipart{}else" then some (fun s => !s.t.multipart)
  else if h = "if let Some(free_entries)=&self.free_entries" then some (fun _ => false)
  else if h = "if let Some(mut free_entries)=free_entries_guard" then some (fun _ => false)
  else if h = "if!log.value(self.id,index,buf.as_mut())" then some (fun _ => true)
  else none

/-- `stmt` must be the expected text -/
def expect (stmt want : String) (r : RSt) : Except RErr RSt :=
  if stmt = want then .ok r else .error (.unknown stmt)

/-- meaning of the marker occurrences; `callRead` / `callSlot` / `callChain` interpret the calls of `read_next_free`,
    `clear_slot`, `clear_chain` -/
def sem (callRead : ValueTable.VT → Nat → Except RErr Nat) (callSlot : ValueTable.VT → Nat → Except RErr ValueTable.VT)
    (callChain : ValueTable.VT → Nat → Except RErr (ValueTable.VT × List Nat))
    (m : Marker) (stmt : String) (s : RSt) : Except RErr RSt :=
  match m with
  | .lockFree | .ifStack | .popStack | .pushStack | .ifHaveRemoved | .ifBadNext => .ok s
  | .loadFilled => expect stmt "let filled=self.filled.load(Ordering::Relaxed)" { s with filled := s.t.filled }
  | .loadLastRemoved =>
    expect stmt "let last_removed=self.last_removed.load(Ordering::Relaxed)" { s with lastRemoved := s.t.lastRemoved }
  | .readNextFree =>
    if stmt = "let next_removed=self.read_next_free(last_removed,log)?" then
      match callRead s.t s.lastRemoved with
      | .ok n => .ok { s with nextRemoved := n }
      | .error e => .error e
    else .error (.unknown stmt)
  | .storeLastRemoved =>
    if stmt = "self.last_removed.store(next_removed,Ordering::Relaxed)" then
      .ok { s with t := { s.t with lastRemoved := s.nextRemoved } }
    else if stmt = "self.last_removed.store(index,Ordering::Relaxed)" then
      .ok { s with t := { s.t with lastRemoved := s.index } }
    else .error (.unknown stmt)
  | .storeFilled =>
    expect stmt "self.filled.store(filled+1,Ordering::Relaxed)" { s with t := { s.t with filled := s.filled + 1 } }
  | .tailLastRemoved => expect stmt "last_removed" { s with index := s.lastRemoved }
  | .tailFilled => expect stmt "filled" { s with index := s.filled }
  | .setDirtyHeader => expect stmt "self.dirty_header.store(true,Ordering::Relaxed)" { s with dirty := true }
  | .returnIndex => expect stmt "Ok(index)" { s with ret := some s.index }
  | .readBuf => .ok { s with buf := s.t.slots s.index }
  | .readFile =>
    expect stmt "self.file.read_at(buf.as_mut(),index*self.entry_size as u64)?" { s with buf := s.t.slots s.index }
  | .skipSize => expect stmt "buf.skip_size()" { s with buf := s.buf.drop Pdb.Gen.SIZE_SIZE }
  | .readNext =>
    expect stmt "let next=buf.read_next()" { s with next := ValueTable.fromLe (s.buf.take Pdb.Gen.INDEX_SIZE) }
  | .returnCorruption => .error (.wr .corruption)
  | .returnNext => expect stmt "Ok(next)" { s with ret := some s.next }
  | .writeTombstone => expect stmt "buf.write_tombstone()" { s with buf := Pdb.Gen.TOMBSTONE }
  | .writeNext =>
    expect stmt "buf.write_next(last_removed)"
      { s with buf := s.buf ++ ValueTable.leBytes Pdb.Gen.INDEX_SIZE s.lastRemoved }
  | .insertValue =>
    expect stmt "log.insert_value(self.id,index,buf[0..buf.offset()].to_vec())" { s with t := s.t.setSlot s.index s.buf }
  | .callClearChain =>
    if stmt = "self.clear_chain(index,log)?" then
      match callChain s.t s.index with
      | .ok r => .ok { s with t := r.1, cleared := r.2 }
      | .error e => .error e
    else .error (.unknown stmt)
  | .callClearSlot =>
    if stmt = "self.clear_slot(index,log)?" then
      match callSlot s.t s.index with
      | .ok t' => .ok { s with t := t', cleared := [s.index] }
      | .error e => .error e
    else .error (.unknown stmt)
  | .returnOkTail => expect stmt "Ok(())" { s with ret := some 0 }
  | _ => .error (.unknown stmt)

/-- the header of the `else` part that belongs to node `p`, if `p` is a block that is entered in state `s` -/
def takenElse (p : Prog) (s : RSt) : Option String :=
  match p with
  | .act _ _ => none
  | .blk h _ => match condSem h with
    | some c => if c s then some (h ++ "{}else") else none
    | none => none

/-- `p` is the `else` part with header `skip` -/
def isElseOf (skip : Option String) (p : Prog) : Bool :=
  match skip, p with
  | some h', .blk h _ => h == h'
  | _, _ => false

mutual
/-- run one node: an action, or a block whose body runs iff its header holds -/
def runP (sm : Marker → String → RSt → Except RErr RSt) : Prog → RSt → Except RErr RSt
  | .act m stmt, s => sm m stmt s
  | .blk h body, s =>
    match condSem h with
    | none => .error (.unknown h)
    | some c => if c s then runL sm none body s else .ok s
/-- run a statement list; a `return` (result set) ends it; the `else` part of a block that was entered is skipped
    (`skip` = its header), the `else` part of a block that was not entered runs in the unchanged state -/
def runL (sm : Marker → String → RSt → Except RErr RSt) : Option String → List Prog → RSt → Except RErr RSt
  | _, [], s => .ok s
  | skip, p :: ps, s =>
    if isElseOf skip p then runL sm none ps s
    else
      match runP sm p s with
      | .error e => .error e
      | .ok s' => if s'.ret.isSome then .ok s' else runL sm (takenElse p s) ps s'
end

def noRead : ValueTable.VT → Nat → Except RErr Nat := fun _ _ => .error (.unknown "call")
def noSlot : ValueTable.VT → Nat → Except RErr ValueTable.VT := fun _ _ => .error (.unknown "call")
def noChain : ValueTable.VT → Nat → Except RErr (ValueTable.VT × List Nat) := fun _ _ => .error (.unknown "call")

/-- `read_next_free(index, log)` as generated -/
def readNextFreeRun (t : ValueTable.VT) (i : Nat) : Except RErr Nat :=
  match runL (sem noRead noSlot noChain) none readNextFreeFn_prog { t := t, index := i } with
  | .ok s => .ok (s.ret.getD 0)
  | .error e => .error e

/-- `next_free(log)` as generated: (table, result, dirty_header) -/
def nextFreeRun (t : ValueTable.VT) : Except RErr (ValueTable.VT × Nat × Bool) :=
  match runL (sem readNextFreeRun noSlot noChain) none nextFree_prog { t := t } with
  | .ok s => .ok (s.t, s.ret.getD 0, s.dirty)
  | .error e => .error e

/-- `clear_slot(index, log)` as generated: (table, dirty_header) -/
def clearSlotRun (t : ValueTable.VT) (i : Nat) : Except RErr (ValueTable.VT × Bool) :=
  match runL (sem noRead noSlot noChain) none clearSlot_prog { t := t, index := i } with
  | .ok s => .ok (s.t, s.dirty)
  | .error e => .error e

/-- `write_remove_plan(index, log)` as generated, for given meanings of its two callees: (table, cleared slots) -/
def removePlanRunWith (cs : ValueTable.VT → Nat → Except RErr ValueTable.VT)
    (cc : ValueTable.VT → Nat → Except RErr (ValueTable.VT × List Nat)) (t : ValueTable.VT) (i : Nat) :
    Except RErr (ValueTable.VT × List Nat) :=
  match runL (sem noRead cs cc) none removePlanFn_prog { t := t, index := i } with
  | .ok s => .ok (s.t, s.cleared)
  | .error e => .error e

/-- lift of a model result -/
def ofModel {α : Type} : Except ValueTable.WrErr α → Except RErr α
  | .ok a => .ok a
  | .error e => .error (.wr e)

theorem readNextFree_run_eq (t : ValueTable.VT) (i : Nat) :
    readNextFreeRun t i =
      if t.filled ≤ ValueTable.linkOf (t.slots i) then .error (.wr .corruption) else .ok (ValueTable.linkOf (t.slots i)) := by
  unfold ValueTable.linkOf
  by_cases h : t.filled ≤ ValueTable.fromLe (((t.slots i).drop Pdb.Gen.SIZE_SIZE).take Pdb.Gen.INDEX_SIZE)
  · simp [readNextFreeRun, readNextFreeFn_prog, runL, runP, sem, condSem, expect, takenElse, isElseOf, h]
  · simp [readNextFreeRun, readNextFreeFn_prog, runL, runP, sem, condSem, expect, takenElse, isElseOf, h]

/-- GENERATED = MODEL.  Running the generated tree of `ValueTable::next_free` gives exactly `ValueTable.nextFree`, and
    `dirty_header` is set on every successful path. -/
theorem nextFree_run_eq_model (t : ValueTable.VT) :
    nextFreeRun t = ofModel ((ValueTable.nextFree t).map (fun r => (r.1, r.2, true))) := by
  by_cases h0 : t.lastRemoved = 0
  · simp [nextFreeRun, nextFree_prog, runL, runP, sem, condSem, expect, takenElse, isElseOf, ValueTable.nextFree, ofModel, h0, Except.map]
  · by_cases hb : t.filled ≤ ValueTable.linkOf (t.slots t.lastRemoved)
    · simp [nextFreeRun, nextFree_prog, runL, runP, sem, condSem, expect, takenElse, isElseOf, ValueTable.nextFree, ofModel, h0, hb,
        readNextFree_run_eq, Except.map]
    · simp [nextFreeRun, nextFree_prog, runL, runP, sem, condSem, expect, takenElse, isElseOf, ValueTable.nextFree, ofModel, h0, hb,
        readNextFree_run_eq, Except.map]

/-- GENERATED = MODEL.  `ValueTable::clear_slot` = `ValueTable.clearSlot`, with `dirty_header` set. -/
theorem clearSlot_run_eq_model (t : ValueTable.VT) (i : Nat) :
    clearSlotRun t i = .ok (ValueTable.clearSlot t i, true) := by
  simp [clearSlotRun, clearSlot_prog, runL, runP, sem, condSem, expect, takenElse, isElseOf, ValueTable.clearSlot, ValueTable.VT.setSlot]

/-- the generated `write_remove_plan` for ANY meaning of its two callees: chain iff `multipart` -/
theorem removePlan_run_with (cs : ValueTable.VT → Nat → Except RErr ValueTable.VT)
    (cc : ValueTable.VT → Nat → Except RErr (ValueTable.VT × List Nat)) (t : ValueTable.VT) (i : Nat) :
    removePlanRunWith cs cc t i =
      if t.multipart then cc t i else (match cs t i with | .ok t' => .ok (t', [i]) | .error e => .error e) := by
  cases hm : t.multipart
  · cases hs : cs t i <;>
      simp [removePlanRunWith, removePlanFn_prog, runL, runP, sem, condSem, expect, takenElse, isElseOf, hm, hs]
  · cases hc : cc t i <;>
      simp [removePlanRunWith, removePlanFn_prog, runL, runP, sem, condSem, expect, takenElse, isElseOf, hm, hc]

/-- `write_remove_plan(index, log)` as generated, `clear_slot` = the generated one, `clear_chain` = the model's -/
def removePlanRun (t : ValueTable.VT) (i : Nat) : Except RErr (ValueTable.VT × List Nat) :=
  removePlanRunWith (fun t i => (clearSlotRun t i).map (·.1)) (fun t i => ofModel (ValueTable.clearChain t t.filled i)) t i

/-- GENERATED = MODEL.  `ValueTable::write_remove_plan` = `ValueTable.removePlan`. -/
theorem removePlan_run_eq_model (t : ValueTable.VT) (i : Nat) :
    removePlanRun t i = ofModel (ValueTable.removePlan t i) := by
  rw [removePlanRun, removePlan_run_with]
  cases hm : t.multipart <;> simp [ValueTable.removePlan, hm, clearSlot_run_eq_model, Except.map, ofModel]

/-- non-vacuity: the generated `next_free` on a table with one freed slot pops it -/
example : (match nextFreeRun (ValueTable.clearSlot ({ ValueTable.VT.empty 32 false false with filled := 3 }) 2) with
    | .ok r => some (r.2.1, r.1.lastRemoved, r.1.filled, r.2.2) | .error _ => none) = some (2, 0, 3, true) := by
  rw [nextFree_run_eq_model]; decide

end Pdb.OrdS

#print axioms Pdb.OrdS.readNextFree_run_eq
#print axioms Pdb.OrdS.nextFree_run_eq_model
#print axioms Pdb.OrdS.clearSlot_run_eq_model
#print axioms Pdb.OrdS.removePlan_run_with
#print axioms Pdb.OrdS.removePlan_run_eq_model
