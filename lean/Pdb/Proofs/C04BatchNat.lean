/-
C04, GAP 3, tree level: the tree update never looks at the value component of a separator:
it is natural in the value type.  `mapTree f (applyList t ops) = applyList (mapTree f t)
(ops.map (mapOp f))` for every `f : V → W`; with `f = fun _ => ()` the SHAPE (keys in every
node) of the address-carrying tree is the shape of the value-carrying tree.
-/
import Pdb.Proofs.C04BatchAddr
import Pdb.Proofs.C04Batch

namespace Pdb.C04
variable {V W : Type}

def mapNode (f : V → W) : Node V → Node W
  | .mk s c => .mk (s.map (onVal f)) (c.map (mapNode f))

def mapRes (f : V → W) : Res V → Res W
  | .ok => .ok
  | .split sep right => .split (onVal f sep) (mapNode f right)
  | .underflow => .underflow
  | .stuck => .stuck

def mapOp (f : V → W) : Op V → Op W
  | .set k v => .set k (f v)
  | .del k => .del k

def mapTree (f : V → W) (t : Tree V) : Tree W := { root := mapNode f t.root, depth := t.depth }

theorem mapNode_mk (f : V → W) (s : List (Key × V)) (c : List (Node V)) :
    mapNode f (.mk s c) = .mk (s.map (onVal f)) (c.map (mapNode f)) := by
  simp [mapNode]

@[simp] theorem mapNode_seps (f : V → W) (n : Node V) :
    (mapNode f n).seps = n.seps.map (onVal f) := by
  cases n; simp [mapNode_mk]

@[simp] theorem mapNode_children (f : V → W) (n : Node V) :
    (mapNode f n).children = n.children.map (mapNode f) := by
  cases n; simp [mapNode_mk]

theorem mapNode_eq (f : V → W) (n : Node V) :
    mapNode f n = .mk (n.seps.map (onVal f)) (n.children.map (mapNode f)) := by
  cases n; simp [mapNode_mk]

@[simp] theorem mapOp_key (f : V → W) (op : Op V) : (mapOp f op).key = op.key := by
  cases op <;> rfl

theorem position_map (f : V → W) (s : List (Key × V)) (k : Key) :
    position (s.map (onVal f)) k = position s k := by
  induction s with
  | nil => rfl
  | cons a s ih =>
    obtain ⟨k', v⟩ := a
    simp only [List.map_cons, onVal, position, ih]

theorem insertAt_map {α β : Type} (g : α → β) (l : List α) (i : Nat) (x : α) :
    insertAt (l.map g) i (g x) = (insertAt l i x).map g := by
  simp [insertAt, List.map_take, List.map_drop]

theorem getD_map {α β : Type} (g : α → β) (l : List α) (i : Nat) (x : α) :
    (l.map g).getD i (g x) = g (l.getD i x) := by
  simp only [List.getD_eq_getElem?_getD, List.getElem?_map]
  cases l[i]? <;> rfl

theorem insertSep_map (f : V → W) (n : Node V) (i : Nat) (x : Key × V) (r : Option (Node V)) :
    insertSep (mapNode f n) i (onVal f x) (r.map (mapNode f)) =
      (mapNode f (insertSep n i x r).1, mapRes f (insertSep n i x r).2) := by
  cases r with
  | none =>
    simp only [insertSep, Option.map_none, mapNode_seps, mapNode_children, List.length_map,
      insertAt_map, getD_map]
    by_cases h : n.seps.length = ORDER
    · simp only [h, if_true, mapNode_mk, mapRes, List.map_take, List.map_drop]
    · simp only [h, if_false, mapNode_mk, mapRes]
  | some r =>
    simp only [insertSep, Option.map_some, mapNode_seps, mapNode_children, List.length_map,
      insertAt_map, getD_map]
    by_cases h : n.seps.length = ORDER
    · simp only [h, if_true, mapNode_mk, mapRes, List.map_take, List.map_drop]
    · simp only [h, if_false, mapNode_mk, mapRes]

theorem needRebalance_map (f : V → W) (n : Node V) :
    needRebalance (mapNode f n) = needRebalance n := by
  simp [needRebalance]

theorem toList_map_opt {α β : Type} (g : α → β) (o : Option α) :
    (o.map g).toList = o.toList.map g := by
  cases o <;> rfl

theorem rotRight_map (f : V → W) (n : Node V) (i : Nat) (l r : Node V) :
    rotRight (mapNode f n) i (mapNode f l) (mapNode f r) = (rotRight n i l r).map (mapNode f) := by
  simp only [rotRight, mapNode_seps, mapNode_children, List.getLast?_map, List.getElem?_map]
  cases l.seps.getLast? <;> cases n.seps[i - 1]? <;>
    simp [mapNode_mk, List.map_dropLast, List.map_set, toList_map_opt]

theorem rotLeft_map (f : V → W) (n : Node V) (i : Nat) (l r : Node V) :
    rotLeft (mapNode f n) i (mapNode f l) (mapNode f r) = (rotLeft n i l r).map (mapNode f) := by
  simp only [rotLeft, mapNode_seps, mapNode_children, List.head?_map, List.getElem?_map]
  cases r.seps.head? <;> cases n.seps[i]? <;>
    simp [mapNode_mk, List.map_set, toList_map_opt, List.map_tail]

theorem map_eraseIdx' {α β : Type} (g : α → β) (l : List α) (i : Nat) :
    (l.map g).eraseIdx i = (l.eraseIdx i).map g := by
  simp only [List.eraseIdx_eq_take_drop_succ, List.map_append, List.map_take, List.map_drop]

theorem mergeAt_map (f : V → W) (n : Node V) (l : Nat) :
    mergeAt (mapNode f n) l = (mergeAt n l).map (mapNode f) := by
  simp only [mergeAt, mapNode_seps, mapNode_children, List.getElem?_map]
  cases n.children[l]? <;> cases n.children[l + 1]? <;> cases n.seps[l]? <;>
    simp [mapNode_mk, ← map_eraseIdx', List.map_set]

theorem sibLarge_map (f : V → W) (o : Option (Node V)) :
    sibLarge (o.map (mapNode f)) = sibLarge o := by
  cases o <;> simp [sibLarge]

theorem rotRightO_map (f : V → W) (n : Node V) (i : Nat) (l c : Option (Node V)) :
    rotRightO (mapNode f n) i (l.map (mapNode f)) (c.map (mapNode f)) =
      (rotRightO n i l c).map (mapNode f) := by
  cases l <;> cases c <;> simp [rotRightO, rotRight_map]

theorem rotLeftO_map (f : V → W) (n : Node V) (i : Nat) (c r : Option (Node V)) :
    rotLeftO (mapNode f n) i (c.map (mapNode f)) (r.map (mapNode f)) =
      (rotLeftO n i c r).map (mapNode f) := by
  cases c <;> cases r <;> simp [rotLeftO, rotLeft_map]

theorem ite_map_opt {α β : Type} (g : α → β) (c : Prop) [Decidable c] (o : Option α) :
    (if c then o.map g else none) = (if c then o else none).map g := by
  by_cases h : c <;> simp [h]

theorem rebalance_def (n : Node V) (i : Nat) :
    rebalance n i =
      if sibLarge (if i > 0 then n.children[i - 1]? else none) then
        rotRightO n i (if i > 0 then n.children[i - 1]? else none) n.children[i]?
      else if sibLarge (if i + 1 < n.seps.length + 1 then n.children[i + 1]? else none) then
        rotLeftO n i n.children[i]? (if i + 1 < n.seps.length + 1 then n.children[i + 1]? else none)
      else if i + 1 = n.seps.length + 1 then
        (if i = 0 then none else mergeAt n (i - 1))
      else mergeAt n i := rfl

theorem rebalance_map (f : V → W) (n : Node V) (i : Nat) :
    rebalance (mapNode f n) i = (rebalance n i).map (mapNode f) := by
  have e1 : (if i > 0 then (mapNode f n).children[i - 1]? else none) =
      (if i > 0 then n.children[i - 1]? else none).map (mapNode f) := by
    rw [mapNode_children, List.getElem?_map]; exact ite_map_opt _ _ _
  have e2 : (mapNode f n).children[i]? = (n.children[i]?).map (mapNode f) := by
    rw [mapNode_children, List.getElem?_map]
  have e3 : (if i + 1 < (mapNode f n).seps.length + 1 then (mapNode f n).children[i + 1]? else none) =
      (if i + 1 < n.seps.length + 1 then n.children[i + 1]? else none).map (mapNode f) := by
    rw [mapNode_children, mapNode_seps, List.getElem?_map, List.length_map]
    exact ite_map_opt _ _ _
  have e4 : (mapNode f n).seps.length = n.seps.length := by simp
  rw [rebalance_def (mapNode f n), rebalance_def n, e1, e2, e3, e4, sibLarge_map, sibLarge_map,
    rotRightO_map, rotLeftO_map, mergeAt_map, mergeAt_map]
  simp only [apply_ite (Option.map (mapNode f)), Option.map_none]

theorem mapRes_flag (f : V → W) (b : Bool) :
    mapRes f (if b = true then (Res.underflow : Res V) else .ok) =
      (if b = true then (Res.underflow : Res W) else .ok) := by
  cases b <;> rfl

@[simp] theorem mapRes_ok (f : V → W) : mapRes f (Res.ok : Res V) = .ok := rfl
@[simp] theorem mapRes_underflow (f : V → W) : mapRes f (Res.underflow : Res V) = .underflow := rfl
@[simp] theorem mapRes_stuck (f : V → W) : mapRes f (Res.stuck : Res V) = .stuck := rfl
@[simp] theorem mapRes_split (f : V → W) (sep : Key × V) (right : Node V) :
    mapRes f (.split sep right) = .split (onVal f sep) (mapNode f right) := rfl

theorem afterChild_map (f : V → W) (n1 : Node V) (i : Nat) (r : Res V) :
    afterChild (mapNode f n1) i (mapRes f r) =
      (mapNode f (afterChild n1 i r).1, mapRes f (afterChild n1 i r).2) := by
  cases r with
  | ok => rfl
  | stuck => rfl
  | split sep right =>
    simp only [afterChild, mapRes_split]
    exact insertSep_map f n1 i sep (some right)
  | underflow =>
    simp only [afterChild, mapRes_underflow, rebalance_map]
    cases rebalance n1 i with
    | none => rfl
    | some n2 => simp only [Option.map_some, needRebalance_map, mapRes_flag]

theorem removeLast_map (f : V → W) : ∀ (d : Nat) (n : Node V),
    removeLast d (mapNode f n) =
      (mapNode f (removeLast d n).1, mapRes f (removeLast d n).2.1,
        (removeLast d n).2.2.map (onVal f)) := by
  intro d
  induction d with
  | zero =>
    intro n
    unfold removeLast
    simp only [mapNode_seps, List.getLast?_map, mapNode_children]
    cases n.seps.getLast? with
    | none => rfl
    | some s =>
      simp only [Option.map_some, mapRes_flag, mapNode_mk, List.map_dropLast, needRebalance,
        Node.seps_mk, List.length_dropLast, List.length_map]
  | succ d ih =>
    intro n
    unfold removeLast
    simp only [mapNode_seps, List.getLast?_map, mapNode_children, List.length_map,
      List.getElem?_map]
    cases n.seps.getLast? with
    | none => rfl
    | some s =>
      simp only [Option.map_some]
      cases n.children[n.seps.length]? with
      | none => rfl
      | some child =>
        simp only [Option.map_some, ih child]
        cases hrl : removeLast d child with
        | mk c' rest =>
          obtain ⟨r', o'⟩ := rest
          have hn1 : Node.mk (n.seps.map (onVal f)) ((n.children.map (mapNode f)).set n.seps.length (mapNode f c')) =
              mapNode f (.mk n.seps (n.children.set n.seps.length c')) := by
            rw [mapNode_mk, List.map_set]
          cases r' with
          | underflow =>
            simp only [mapRes_underflow, hn1, rebalance_map]
            cases rebalance (Node.mk n.seps (n.children.set n.seps.length c')) n.seps.length with
            | none => simp
            | some n2 => simp only [Option.map_some, needRebalance_map, mapRes_flag]
          | ok => simp only [mapRes_ok, hn1]
          | stuck => simp only [mapRes_stuck, hn1]
          | split sep right => simp only [mapRes_split, hn1]

theorem set_child_map (f : V → W) (n : Node V) (i : Nat) (c : Node V) :
    Node.mk (n.seps.map (onVal f)) ((n.children.map (mapNode f)).set i (mapNode f c)) =
      mapNode f (.mk n.seps (n.children.set i c)) := by
  rw [mapNode_mk, List.map_set]

theorem change_map (f : V → W) : ∀ (d : Nat) (n : Node V) (op : Op V),
    change d (mapNode f n) (mapOp f op) =
      (mapNode f (change d n op).1, mapRes f (change d n op).2) := by
  intro d
  induction d with
  | zero =>
    intro n op
    cases op with
    | set k v =>
      unfold change
      simp only [mapOp, Op.key, mapNode_seps, position_map, mapNode_children]
      cases (position n.seps k).1 with
      | true => simp only [mapNode_mk, List.map_set, onVal, mapRes_ok]
      | false => exact insertSep_map f n _ (k, v) none
    | del k =>
      unfold change
      simp only [mapOp, Op.key, mapNode_seps, position_map, mapNode_children]
      cases (position n.seps k).1 with
      | true =>
        simp only [mapNode_mk, map_eraseIdx', needRebalance, Node.seps_mk, List.length_map]
        exact Prod.ext rfl (mapRes_flag f _).symm
      | false => simp only [mapRes_ok]
  | succ d ih =>
    intro n op
    cases op with
    | set k v =>
      unfold change
      simp only [mapOp, Op.key, mapNode_seps, position_map, mapNode_children, List.getElem?_map]
      cases (position n.seps k).1 with
      | true => simp only [mapNode_mk, List.map_set, onVal, mapRes_ok]
      | false =>
        cases n.children[(position n.seps k).2]? with
        | none => simp only [Option.map_none, mapRes_ok]
        | some child =>
          simp only [Option.map_some]
          have := ih child (.set k v)
          simp only [mapOp] at this
          rw [this, set_child_map]
          exact afterChild_map f _ _ _
    | del k =>
      unfold change
      simp only [mapOp, Op.key, mapNode_seps, position_map, mapNode_children, List.getElem?_map]
      cases (position n.seps k).1 with
      | true =>
        cases n.children[(position n.seps k).2]? with
        | none => simp only [Option.map_none, mapRes_stuck]
        | some child =>
          simp only [Option.map_some, removeLast_map]
          cases hrl : removeLast d child with
          | mk c' rest =>
            obtain ⟨r', o'⟩ := rest
            cases o' with
            | none => simp only [Option.map_none, mapRes_stuck]
            | some sep =>
              have hn1 : Node.mk ((n.seps.map (onVal f)).set (position n.seps k).2 (onVal f sep))
                  ((n.children.map (mapNode f)).set (position n.seps k).2 (mapNode f c')) =
                  mapNode f (.mk (n.seps.set (position n.seps k).2 sep)
                    (n.children.set (position n.seps k).2 c')) := by
                rw [mapNode_mk, List.map_set, List.map_set]
              simp only [Option.map_some, hn1]
              cases r' with
              | underflow =>
                simp only [mapRes_underflow, rebalance_map]
                cases rebalance (Node.mk (n.seps.set (position n.seps k).2 sep)
                    (n.children.set (position n.seps k).2 c')) (position n.seps k).2 with
                | none => simp
                | some n2 => simp only [Option.map_some, needRebalance_map, mapRes_flag]
              | ok =>
                simp only [mapRes_ok, needRebalance_map]
                exact Prod.ext rfl (mapRes_flag f _).symm
              | stuck => simp only [mapRes_stuck]
              | split sep' right =>
                simp only [mapRes_split, needRebalance_map]
                exact Prod.ext rfl (mapRes_flag f _).symm
      | false =>
        cases n.children[(position n.seps k).2]? with
        | none => simp only [Option.map_none, mapRes_ok]
        | some child =>
          simp only [Option.map_some]
          have := ih child (.del k)
          simp only [mapOp] at this
          rw [this, set_child_map]
          exact afterChild_map f _ _ _

theorem finishRoot_map (f : V → W) (d : Nat) (n : Node V) (r : Res V) :
    finishRoot d (mapNode f n) (mapRes f r) =
      (mapTree f (finishRoot d n r).1, (finishRoot d n r).2) := by
  cases r with
  | ok => rfl
  | stuck => rfl
  | split sep right => simp [finishRoot, mapTree, mapNode_mk]
  | underflow =>
    simp only [finishRoot, mapRes_underflow, mapNode_seps, List.length_map, mapNode_children,
      List.getElem?_map]
    by_cases h : n.seps.length = 0
    · simp only [h, if_true]
      cases n.children[0]? <;> rfl
    · simp only [h, if_false]; rfl

theorem applyOne_map (f : V → W) (t : Tree V) (op : Op V) :
    applyOne (mapTree f t) (mapOp f op) = (mapTree f (applyOne t op).1, (applyOne t op).2) := by
  rw [applyOne_eq_finishRoot, applyOne_eq_finishRoot]
  show finishRoot t.depth (change t.depth (mapNode f t.root) (mapOp f op)).1
    (change t.depth (mapNode f t.root) (mapOp f op)).2 = _
  rw [change_map]
  exact finishRoot_map f _ _ _

/-- The tree update is natural in the value type. -/
theorem applyList_map (f : V → W) (ops : List (Op V)) : ∀ (t : Tree V),
    applyList (mapTree f t) (ops.map (mapOp f)) =
      (mapTree f (applyList t ops).1, (applyList t ops).2) := by
  induction ops with
  | nil => intro t; rfl
  | cons op ops ih =>
    intro t
    simp only [List.map_cons, applyList, applyOne_map]
    by_cases h : (applyOne t op).2 = true
    · simp only [h, if_true]; exact ih _
    · have h' : (applyOne t op).2 = false := by simpa using h
      simp [h']

/-! ### the enumeration of a mapped tree -/

theorem zipR_map {α β : Type} (g : α → β) (ss : List α) (cs : List (List α)) :
    zipR (ss.map g) (cs.map (List.map g)) = (zipR ss cs).map g := by
  induction ss generalizing cs with
  | nil => cases cs <;> rfl
  | cons s ss ih =>
    cases cs with
    | nil => rfl
    | cons c cs => simp [zipR, ih]

theorem interleave_map {α β : Type} (g : α → β) (cs : List (List α)) (ss : List α) :
    interleave (cs.map (List.map g)) (ss.map g) = (interleave cs ss).map g := by
  cases cs with
  | nil => rfl
  | cons c cs => simp [interleave, zipR_map]

theorem toList_map (f : V → W) : ∀ (d : Nat) (n : Node V),
    toList d (mapNode f n) = (toList d n).map (onVal f) := by
  intro d
  induction d with
  | zero => intro n; simp [toList]
  | succ d ih =>
    intro n
    simp only [toList, mapNode_children, mapNode_seps, List.map_map]
    rw [← interleave_map, List.map_map]
    congr 1
    apply List.map_congr_left
    intro c _
    exact ih c

theorem mapTree_toList (f : V → W) (t : Tree V) :
    (mapTree f t).toList = t.toList.map (onVal f) := toList_map f t.depth t.root

/-! ### the shape of the address-carrying tree -/

/-- the tree with the values erased: depth and the keys of every node -/
def shapeOf {U : Type} (t : Tree U) : Tree Unit := mapTree (fun _ => ()) t

theorem applyOneA_shape (al : Alloc V) (s : AState V) (op : Op V) :
    shapeOf (applyOneA al s op).tree =
      (applyOne (shapeOf s.tree) (mapOp (fun _ => ()) op)).1 := by
  cases op with
  | set k v =>
    show mapTree _ (applyOne s.tree (.set k _)).1 = _
    have := applyOne_map (fun _ : Addr => ()) s.tree (.set k (al.slot s.store (lookup s.tree.toList k) v))
    exact (congrArg Prod.fst this).symm
  | del k =>
    show mapTree _ (applyOne s.tree (.del k)).1 = _
    have := applyOne_map (fun _ : Addr => ()) s.tree (.del k)
    exact (congrArg Prod.fst this).symm

theorem applyListA_shape (al : Alloc V) (hal : AllocOK al) (ops : List (Op V)) :
    ∀ (s : AState V) (tV : Tree V), AInv s tV.toList → treeInvB tV = true →
      shapeOf s.tree = shapeOf tV →
      shapeOf (applyListA al s ops).tree = shapeOf (applyList tV ops).1 := by
  induction ops with
  | nil => intro s tV _ _ h; exact h
  | cons op ops ih =>
    intro s tV hinv hV hsh
    obtain ⟨hw, ho⟩ := (treeInvB_iff tV).mp hV
    obtain ⟨o1, o2⟩ := applyOne_occ tV op hw ho
    obtain ⟨w1, w2⟩ := applyOne_spec tV op hw o1
    have hinv' := (applyOneA_spec al hal s tV.toList op hinv).1
    rw [← w1] at hinv'
    have hsh' : shapeOf (applyOneA al s op).tree = shapeOf (applyOne tV op).1 := by
      rw [applyOneA_shape, hsh]
      have := applyOne_map (fun _ : V => ()) tV op
      exact congrArg Prod.fst this
    show shapeOf (applyListA al (applyOneA al s op) ops).tree = _
    simp only [applyList, o1, if_true]
    exact ih _ _ hinv' ((treeInvB_iff _).mpr ⟨w2, o2⟩) hsh'

end Pdb.C04
