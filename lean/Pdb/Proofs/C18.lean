/-
C18 helper lemmas: the lock invariant of the open / drop life cycle model (Pdb.Conc.Lock).
-/
import Pdb.Model.Conc

namespace Pdb.Conc.Lock
open Pdb.Gen.Order

def phaseOk : Phase → Bool → Bool
  | .idle, h => !h
  | .dead, h => !h
  | .live, h => h
  | .opening r, true => openPost r
  | .opening r, false => openPre r
  | .dropping r, true => dropOk r
  | .dropping r, false => r.isEmpty

structure Inv (s : St) : Prop where
  own : ∀ t, (s.th t).holds = true ↔ s.holder = some t
  ph : ∀ t, phaseOk (s.th t).phase (s.th t).holds = true
  good : s.bad = false

theorem inv_init : Inv init := by
  constructor <;> simp [init, phaseOk]

@[simp] theorem setTh_same (s : St) (t : Nat) (x : Th) : (setTh s t x).th t = x := by simp [setTh]
theorem setTh_other (s : St) (t u : Nat) (x : Th) (h : u ≠ t) : (setTh s t x).th u = s.th u := by
  simp [setTh, h]
@[simp] theorem setTh_holder (s : St) (t : Nat) (x : Th) : (setTh s t x).holder = s.holder := rfl
@[simp] theorem setTh_bad (s : St) (t : Nat) (x : Th) : (setTh s t x).bad = s.bad := rfl
@[simp] theorem setTh_content (s : St) (t : Nat) (x : Th) : (setTh s t x).content = s.content := rfl

theorem openPost_cons {m : Marker} {r : List Marker} (h : openPost (m :: r) = true) :
    m ≠ .tryLock ∧ m ≠ .unlockFile ∧ openPost r = true := by
  simp [openPost] at h
  refine ⟨h.1.1, h.1.2, ?_⟩
  simp [openPost]; exact h.2

theorem openPre_cons_ne {m : Marker} {r : List Marker} (h : openPre (m :: r) = true) (hm : m ≠ .tryLock) :
    isFree m = true ∧ m ≠ .unlockFile ∧ openPre r = true := by
  simp [openPre, hm] at h
  exact ⟨h.1.1, h.1.2, h.2⟩

theorem openPre_tryLock {r : List Marker} (h : openPre (.tryLock :: r) = true) : openPost r = true := by
  simpa [openPre] using h

theorem dropOk_cons {m : Marker} {r : List Marker} (h : dropOk (m :: r) = true) :
    (r = [] ∧ m = .unlockFile) ∨ (r ≠ [] ∧ m ≠ .tryLock ∧ m ≠ .unlockFile ∧ dropOk r = true) := by
  cases r with
  | nil => left; simpa [dropOk] using h
  | cons a r => right; simp [dropOk] at h; exact ⟨by simp, h.1.1, h.1.2, h.2⟩

/-- A thread that holds nothing: changing it to another lock-free thread state keeps `own`. -/
theorem own_setTh_free {s : St} (hI : Inv s) (t : Nat) (x : Th) (hx : x.holds = (s.th t).holds) :
    ∀ u, ((setTh s t x).th u).holds = true ↔ (setTh s t x).holder = some u := by
  intro u
  by_cases hu : u = t
  · subst hu; simp [hx, hI.own]
  · simp [setTh_other _ _ _ _ hu, hI.own]

theorem inv_setTh {s : St} (hI : Inv s) (t : Nat) (x : Th) (hx : x.holds = (s.th t).holds)
    (hp : phaseOk x.phase x.holds = true) : Inv (setTh s t x) := by
  refine ⟨own_setTh_free hI t x hx, ?_, by simpa using hI.good⟩
  intro u
  by_cases hu : u = t
  · subst hu; simpa using hp
  · simpa [setTh_other _ _ _ _ hu] using hI.ph u

theorem inv_release {s : St} (hI : Inv s) (t : Nat) : Inv (release s t) := by
  unfold release
  split
  · rename_i hh
    have hown := (hI.own t).1 hh
    refine ⟨?_, ?_, by simpa using hI.good⟩
    · intro u
      by_cases hu : u = t
      · subst hu; simp
      · have : (s.th u).holds = false := by
          cases hb : (s.th u).holds with
          | false => rfl
          | true => have := (hI.own u).1 hb; rw [hown] at this; exact absurd (Option.some.inj this).symm hu
        simp [setTh_other _ _ _ _ hu, this]
    · intro u
      by_cases hu : u = t
      · subst hu; simp [phaseOk]
      · simpa [setTh_other _ _ _ _ hu] using hI.ph u
  · rename_i hh
    exact inv_setTh hI t _ (by simpa using hh) (by simp [phaseOk])

/-- Common part of the four "ordinary marker" branches of `exec`. -/
theorem inv_exec_plain {s : St} (hI : Inv s) (t : Nat) (ph : Phase) (d l : Bool) (c : Nat) (b : Bool)
    (hp : phaseOk ph (s.th t).holds = true) (hb : b = false) :
    Inv { setTh s t { (s.th t) with phase := ph } with dirExists := d, lockFile := l, content := c, bad := b } := by
  have h0 := inv_setTh hI t { (s.th t) with phase := ph } rfl hp
  exact ⟨h0.own, h0.ph, hb⟩

theorem inv_exec {s : St} (hI : Inv s) (t : Nat) (m : Marker) (r : List Marker) (k : List Marker → Phase)
    (hk : (k = .opening ∧ (s.th t).phase = .opening (m :: r)) ∨ (k = .dropping ∧ (s.th t).phase = .dropping (m :: r))) :
    Inv (exec s t m r k) := by
  have hph := hI.ph t
  unfold exec
  by_cases h1 : m = .tryLock
  · subst h1
    simp only [beq_self_eq_true, if_true]
    -- only an opening thread that does not hold the lock can be at `tryLock`
    have hnh : (s.th t).holds = false ∧ k = .opening ∧ openPost r = true := by
      rcases hk with ⟨hk, hp⟩ | ⟨hk, hp⟩
      · rw [hp] at hph
        cases hh : (s.th t).holds with
        | true => rw [hh] at hph; exact absurd rfl (openPost_cons (m := .tryLock) (r := r) (by simpa [phaseOk] using hph)).1
        | false => rw [hh] at hph; exact ⟨rfl, hk, openPre_tryLock (by simpa [phaseOk] using hph)⟩
      · rw [hp] at hph
        cases hh : (s.th t).holds with
        | true =>
          rw [hh] at hph
          rcases dropOk_cons (by simpa [phaseOk] using hph) with ⟨_, h⟩ | ⟨_, h, _⟩
          · cases h
          · exact absurd rfl h
        | false => rw [hh] at hph; simp [phaseOk] at hph
    obtain ⟨hh, hk', hpost⟩ := hnh
    subst hk'
    cases hho : s.holder with
    | none =>
      simp only
      refine ⟨?_, ?_, by simpa using hI.good⟩
      · intro u
        by_cases hu : u = t
        · subst hu; simp
        · have : (s.th u).holds = false := by
            cases hb : (s.th u).holds with
            | false => rfl
            | true => have := (hI.own u).1 hb; rw [hho] at this; cases this
          simp [setTh_other _ _ _ _ hu, this]; exact fun h => hu h.symm
      · intro u
        by_cases hu : u = t
        · subst hu; simpa [phaseOk] using hpost
        · simpa [setTh_other _ _ _ _ hu] using hI.ph u
    | some h =>
      simp only
      exact inv_setTh hI t _ (by simp [hh]) (by simp [phaseOk])
  · have h1' : (m == Marker.tryLock) = false := by simpa using h1
    simp only [h1', Bool.false_eq_true, if_false]
    by_cases h2 : m = .unlockFile
    · subst h2
      simp only [beq_self_eq_true, if_true]
      -- only a dropping thread that holds the lock, with nothing left to do, can be here
      have hd : (s.th t).holds = true ∧ k = .dropping ∧ r = [] := by
        rcases hk with ⟨hk, hp⟩ | ⟨hk, hp⟩
        · rw [hp] at hph
          cases hh : (s.th t).holds with
          | true => rw [hh] at hph; exact absurd rfl (openPost_cons (by simpa [phaseOk] using hph)).2.1
          | false =>
            rw [hh] at hph
            exact absurd rfl (openPre_cons_ne (by simpa [phaseOk] using hph) (by decide)).2.1
        · rw [hp] at hph
          cases hh : (s.th t).holds with
          | true =>
            rw [hh] at hph
            rcases dropOk_cons (by simpa [phaseOk] using hph) with ⟨h, _⟩ | ⟨_, _, h, _⟩
            · exact ⟨rfl, hk, h⟩
            · exact absurd rfl h
          | false => rw [hh] at hph; simp [phaseOk] at hph
      obtain ⟨hh, hk', hr⟩ := hd
      subst hk' hr
      simp only [hh, if_true]
      have hown := (hI.own t).1 hh
      refine ⟨?_, ?_, by simpa using hI.good⟩
      · intro u
        by_cases hu : u = t
        · subst hu; simp
        · have : (s.th u).holds = false := by
            cases hb : (s.th u).holds with
            | false => rfl
            | true => have := (hI.own u).1 hb; rw [hown] at this; exact absurd (Option.some.inj this).symm hu
          simp [setTh_other _ _ _ _ hu, this]
      · intro u
        by_cases hu : u = t
        · subst hu; simp [phaseOk]
        · simpa [setTh_other _ _ _ _ hu] using hI.ph u
    · have h2' : (m == Marker.unlockFile) = false := by simpa using h2
      simp only [h2', Bool.false_eq_true, if_false]
      -- ordinary marker: the phase advances; content may be touched only by the holder
      have hnext : phaseOk (k r) (s.th t).holds = true ∧ (isFree m = false → (s.th t).holds = true) := by
        rcases hk with ⟨hk, hp⟩ | ⟨hk, hp⟩
        · subst hk; rw [hp] at hph
          cases hh : (s.th t).holds with
          | true => rw [hh] at hph; exact ⟨by simpa [phaseOk] using (openPost_cons (by simpa [phaseOk] using hph)).2.2, fun _ => rfl⟩
          | false =>
            rw [hh] at hph
            have := openPre_cons_ne (by simpa [phaseOk] using hph) h1
            exact ⟨by simpa [phaseOk] using this.2.2, fun hf => by rw [this.1] at hf; cases hf⟩
        · subst hk; rw [hp] at hph
          cases hh : (s.th t).holds with
          | true =>
            rw [hh] at hph
            rcases dropOk_cons (by simpa [phaseOk] using hph) with ⟨_, h⟩ | ⟨_, _, _, h⟩
            · exact absurd h h2
            · exact ⟨by simpa [phaseOk] using h, fun _ => rfl⟩
          | false => rw [hh] at hph; simp [phaseOk] at hph
      split
      · exact inv_exec_plain hI t _ _ _ _ _ hnext.1 hI.good
      · split
        · exact inv_exec_plain hI t _ _ _ _ _ hnext.1 hI.good
        · split
          · exact inv_setTh hI t _ rfl hnext.1
          · rename_i hf
            refine inv_exec_plain hI t _ _ _ _ _ hnext.1 ?_
            have := hnext.2 (by simpa using hf)
            simp [hI.good, this]

theorem inv_step {P : Prog} (hP : P.ok = true) {pid : Nat → Nat} {s s' : St} {a : Act}
    (hI : Inv s) (h : step P pid s a = some s') : Inv s' := by
  have hPo : openPre P.openP = true ∧ dropOk P.dropP = true := by
    simpa [Prog.ok] using hP
  cases a with
  | start t =>
    simp only [step] at h
    split at h
    · rename_i hp
      cases h
      have := hI.ph t
      rw [hp] at this
      have hh : (s.th t).holds = false := by simpa [phaseOk] using this
      exact inv_setTh hI t _ rfl (by simp [phaseOk, hh, hPo.1])
    · cases h
  | run t =>
    simp only [step] at h
    split at h
    · rename_i hp
      cases h
      have := hI.ph t
      rw [hp] at this
      cases hh : (s.th t).holds with
      | true => exact inv_setTh hI t _ (by simp [hh]) (by simp [phaseOk, hh])
      | false => rw [hh] at this; simp [phaseOk, openPre] at this
    · rename_i m r hp
      cases h
      exact inv_exec hI t m r _ (Or.inl ⟨rfl, hp⟩)
    · cases h; exact inv_release hI t
    · rename_i m r hp
      cases h
      exact inv_exec hI t m r _ (Or.inr ⟨rfl, hp⟩)
    · cases h
  | failOpen t =>
    simp only [step] at h
    split at h
    · cases h; exact inv_release hI t
    · cases h
  | drop t =>
    simp only [step] at h
    split at h
    · rename_i hp
      cases h
      have := hI.ph t
      rw [hp] at this
      have hh : (s.th t).holds = true := by simpa [phaseOk] using this
      exact inv_setTh hI t _ rfl (by simp [phaseOk, hh, hPo.2])
    · cases h
  | die p =>
    simp only [step] at h
    cases h
    refine ⟨?_, ?_, hI.good⟩
    · intro u
      by_cases hu : pid u = p
      · simp only [hu, if_true]
        cases hho : s.holder with
        | none => simp
        | some h =>
          by_cases hh : pid h = p
          · simp [hh]
          · simp only [hh, if_false]
            constructor
            · intro x; cases x
            · intro x; cases x; exact absurd hu hh
      · simp only [hu, if_false]
        rw [hI.own u]
        cases hho : s.holder with
        | none => simp
        | some h =>
          by_cases hh : pid h = p
          · simp only [hh, if_true]
            constructor
            · intro x; cases x; exact absurd hh hu
            · intro x; cases x
          · simp [hh]
    · intro u
      by_cases hu : pid u = p
      · simp [hu, phaseOk]
      · simpa [hu] using hI.ph u

theorem inv_run {P : Prog} (hP : P.ok = true) {pid : Nat → Nat} :
    ∀ (as : List Act) {s s' : St}, Inv s → run P pid s as = some s' → Inv s'
  | [], s, s', hI, h => by simp [run] at h; subst h; exact hI
  | a :: as, s, s', hI, h => by
    simp only [run] at h
    split at h
    · rename_i s1 hs
      exact inv_run hP as (inv_step hP hI hs) h
    · cases h

theorem inv_reachable {P : Prog} (hP : P.ok = true) {pid : Nat → Nat} {s : St}
    (h : Reachable P pid s) : Inv s := by
  obtain ⟨as, h⟩ := h
  exact inv_run hP as inv_init h

end Pdb.Conc.Lock
