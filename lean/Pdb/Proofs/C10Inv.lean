/-
C10: invariants of the multitree heap model and their preservation.

  Shape h      structural soundness: maps well formed, children older than parents (acyclic),
               every child reference of a node or root points to a present node, root counts ≥ 1
  Below h n    every present address is below the counter n
  Counts h P   RcInv with a multiset P of pending references: for every present node
               count = (references from present nodes and roots, with multiplicity) + P.count;
               ref-count entries are ≥ 2 and belong to present nodes.  `Counts h []` is RcInv.
-/
import Pdb.Proofs.C10Map

namespace Pdb.MultiTree
set_option linter.unusedSectionVars false
variable {K D : Type} [DecidableEq K]

def present (h : Heap K D) (a : Addr) : Prop := (h.nodes.get a).isSome = true

/-- references to `a` from present nodes, with multiplicity -/
def nodeRefs (h : Heap K D) (a : Addr) : Nat := h.nodes.sum (fun n => n.children.count a)
/-- references to `a` from roots, with multiplicity (a root entry refers to its children once,
    whatever its own count) -/
def rootRefs (h : Heap K D) (a : Addr) : Nat := h.roots.sum (fun e => e.1.children.count a)
def refs (h : Heap K D) (a : Addr) : Nat := nodeRefs h a + rootRefs h a

structure Shape (h : Heap K D) : Prop where
  wfN : h.nodes.WF
  wfRc : h.rc.WF
  wfRoots : h.roots.WF
  acyclic : ∀ a n, h.nodes.get a = some n → ∀ c ∈ n.children, c < a
  closedN : ∀ a n, h.nodes.get a = some n → ∀ c ∈ n.children, present h c
  closedR : ∀ k e, h.roots.get k = some e → ∀ c ∈ e.1.children, present h c
  rootPos : ∀ k e, h.roots.get k = some e → 1 ≤ e.2

def Below (h : Heap K D) (n : Addr) : Prop := ∀ a, present h a → a < n

structure Counts (h : Heap K D) (P : List Addr) : Prop where
  rcEntries : ∀ a c, h.rc.get a = some c → 2 ≤ c ∧ present h a
  rcEq : ∀ a, present h a → h.count a = refs h a + P.count a
  pend : ∀ a ∈ P, present h a

theorem present_iff (h : Heap K D) (a : Addr) : present h a ↔ ∃ n, h.nodes.get a = some n := by
  simp [present, Option.isSome_iff_exists]

theorem not_present_iff (h : Heap K D) (a : Addr) : ¬ present h a ↔ h.nodes.get a = none := by
  simp [present]

theorem Shape.empty : Shape (Heap.empty : Heap K D) where
  wfN := FMap.WF_empty
  wfRc := FMap.WF_empty
  wfRoots := FMap.WF_empty
  acyclic := by intro a n h; simp [Heap.empty] at h
  closedN := by intro a n h; simp [Heap.empty] at h
  closedR := by intro a n h; simp [Heap.empty] at h
  rootPos := by intro a n h; simp [Heap.empty] at h

theorem Counts.empty : Counts (Heap.empty : Heap K D) [] where
  rcEntries := by intro a c h; simp [Heap.empty] at h
  rcEq := by intro a h; simp [present, Heap.empty] at h
  pend := by simp

theorem nodeRefs_absent (h : Heap K D) (hs : Shape h) (a : Addr) (ha : ¬ present h a) :
    nodeRefs h a = 0 := by
  apply FMap.sum_eq_zero
  intro k v hm
  have hg := (FMap.mem_iff h.nodes hs.wfN k v).mp hm
  apply List.count_eq_zero_of_not_mem
  intro hc
  exact ha (hs.closedN k v hg a hc)

theorem rootRefs_absent (h : Heap K D) (hs : Shape h) (a : Addr) (ha : ¬ present h a) :
    rootRefs h a = 0 := by
  apply FMap.sum_eq_zero
  intro k v hm
  have hg := (FMap.mem_iff h.roots hs.wfRoots k v).mp hm
  apply List.count_eq_zero_of_not_mem
  intro hc
  exact ha (hs.closedR k v hg a hc)

/-! ### writing a new node -/

theorem write_new_shape (h : Heap K D) (hs : Shape h) (b : Addr) (hb : Below h b) (d : D)
    (cs : List Addr) (hcs : ∀ c ∈ cs, present h c) :
    Shape { h with nodes := h.nodes.set b (some ⟨d, cs⟩) } where
  wfN := FMap.WF_set _ hs.wfN _ _
  wfRc := hs.wfRc
  wfRoots := hs.wfRoots
  acyclic := by
    intro a n hg c hc
    simp only [FMap.get_set] at hg
    split at hg
    · subst a; simp only [Option.some.injEq] at hg; subst hg
      exact hb c (hcs c hc)
    · exact hs.acyclic a n hg c hc
  closedN := by
    intro a n hg c hc
    simp only [present, FMap.get_set]
    simp only [FMap.get_set] at hg
    by_cases hcb : c = b
    · simp [hcb]
    · simp only [hcb, if_false]
      split at hg
      · simp only [Option.some.injEq] at hg; subst hg; exact hcs c hc
      · exact hs.closedN a n hg c hc
  closedR := by
    intro k e hg c hc
    simp only [present, FMap.get_set]
    by_cases hcb : c = b
    · simp [hcb]
    · simp only [hcb, if_false]; exact hs.closedR k e hg c hc
  rootPos := hs.rootPos

theorem write_new_below (h : Heap K D) (b : Addr) (hb : Below h b) (nd : Node D) :
    Below { h with nodes := h.nodes.set b (some nd) } (b + 1) := by
  intro a ha
  simp only [present, FMap.get_set] at ha
  by_cases hab : a = b
  · omega
  · simp only [hab, if_false] at ha
    have := hb a ha
    omega

theorem write_new_counts (h : Heap K D) (hs : Shape h) (b : Addr) (hb : Below h b) (d : D)
    (cs P : List Addr) (hc : Counts h (cs ++ P)) :
    Counts { h with nodes := h.nodes.set b (some ⟨d, cs⟩) } (b :: P) := by
  have hbn : ¬ present h b := fun hp => Nat.lt_irrefl _ (hb b hp)
  have hbnone : h.nodes.get b = none := (not_present_iff h b).mp hbn
  have hsum : ∀ a, nodeRefs { h with nodes := h.nodes.set b (some ⟨d, cs⟩) } a =
      nodeRefs h a + cs.count a := by
    intro a
    have := FMap.sum_set h.nodes hs.wfN b (some ⟨d, cs⟩) (fun n => n.children.count a)
    simp only [hbnone, Option.map_none, Option.getD_none, Option.map_some, Option.getD_some] at this
    simp only [nodeRefs]
    omega
  have hcsb : cs.count b = 0 := by
    apply List.count_eq_zero_of_not_mem
    intro hm
    exact hbn (hc.pend b (List.mem_append_left _ hm))
  have hPb : P.count b = 0 := by
    apply List.count_eq_zero_of_not_mem
    intro hm
    exact hbn (hc.pend b (List.mem_append_right _ hm))
  constructor
  · intro a c hg
    have := hc.rcEntries a c hg
    refine ⟨this.1, ?_⟩
    simp only [present, FMap.get_set]
    split
    · rfl
    · exact this.2
  · intro a ha
    simp only [refs, hsum, rootRefs]
    by_cases hab : a = b
    · subst hab
      have hrc : h.rc.get a = none := by
        cases hr : h.rc.get a with
        | none => rfl
        | some c => exact absurd (hc.rcEntries a c hr).2 hbn
      have h1 := nodeRefs_absent h hs a hbn
      have h2 := rootRefs_absent h hs a hbn
      simp only [rootRefs] at h2
      simp only [Heap.count, hrc, Option.getD_none, h1, hcsb, h2, List.count_cons_self, hPb]
    · have hpa : present h a := by
        simp only [present, FMap.get_set, hab, if_false] at ha
        exact ha
      have := hc.rcEq a hpa
      simp only [refs, rootRefs, List.count_append] at this
      have hne : (b == a) = false := by simp; exact fun e => hab e.symm
      simp only [Heap.count] at this ⊢
      rw [List.count_cons, hne]
      simp only [Bool.false_eq_true, if_false, Nat.add_zero]
      omega
  · intro a ha
    simp only [present, FMap.get_set]
    simp only [List.mem_cons] at ha
    rcases ha with rfl | ha
    · simp
    · split
      · rfl
      · exact hc.pend a (List.mem_append_right _ ha)

/-! ### incrementing the count of an existing node -/

theorem incRef_shape (h : Heap K D) (hs : Shape h) (a : Addr) : Shape (incRef h a) where
  wfN := hs.wfN
  wfRc := FMap.WF_set _ hs.wfRc _ _
  wfRoots := hs.wfRoots
  acyclic := hs.acyclic
  closedN := hs.closedN
  closedR := hs.closedR
  rootPos := hs.rootPos

theorem incRef_counts (h : Heap K D) (a : Addr) (ha : present h a) (P : List Addr)
    (hc : Counts h P) : Counts (incRef h a) (a :: P) := by
  constructor
  · intro b c hg
    simp only [incRef, FMap.get_set] at hg
    split at hg
    · subst b
      simp only [Option.some.injEq] at hg
      refine ⟨?_, ha⟩
      cases hr : h.rc.get a with
      | none => simp only [hr] at hg; omega
      | some c0 =>
        simp only [hr] at hg
        have := (hc.rcEntries a c0 hr).1
        omega
    · exact hc.rcEntries b c hg
  · intro b hb
    have hb' : present h b := hb
    have := hc.rcEq b hb'
    have hrefs : refs (incRef h a) b = refs h b := rfl
    rw [hrefs]
    simp only [Heap.count, incRef, FMap.get_set] at this ⊢
    by_cases hba : b = a
    · subst hba
      simp only [if_true, Option.getD_some, List.count_cons_self]
      cases hr : h.rc.get b with
      | none => simp only [hr, Option.getD_none] at this ⊢; omega
      | some c0 => simp only [hr, Option.getD_some] at this ⊢; omega
    · have hne : (a == b) = false := by simp; exact fun e => hba e.symm
      simp only [hba, if_false]
      rw [List.count_cons, hne]
      simp only [Bool.false_eq_true, if_false, Nat.add_zero]
      exact this
  · intro b hb
    simp only [List.mem_cons] at hb
    rcases hb with rfl | hb
    · exact ha
    · exact hc.pend b hb

theorem Counts.congr (h : Heap K D) (P Q : List Addr) (hpq : ∀ x, P.count x = Q.count x)
    (hc : Counts h P) : Counts h Q where
  rcEntries := hc.rcEntries
  rcEq := by intro a ha; rw [← hpq a]; exact hc.rcEq a ha
  pend := by
    intro a ha
    apply hc.pend a
    have : 0 < Q.count a := List.count_pos_iff.mpr ha
    rw [← hpq a] at this
    exact List.count_pos_iff.mp this

/-! ### inserting the nodes of a tree -/

mutual
  /-- every `Existing` address names a present node -/
  def NRef.live (h : Heap K D) : NRef D → Prop
    | .new _ cs => cs.live h
    | .existing a => present h a
  def NRefs.live (h : Heap K D) : NRefs D → Prop
    | .nil => True
    | .cons r rs => r.live h ∧ rs.live h
end

mutual
  theorem NRef.live_mono (h h' : Heap K D) (hm : ∀ b, present h b → present h' b) :
      ∀ r : NRef D, r.live h → r.live h'
    | .new _ cs => by simp only [NRef.live]; exact NRefs.live_mono h h' hm cs
    | .existing a => by simp only [NRef.live]; exact hm a
  theorem NRefs.live_mono (h h' : Heap K D) (hm : ∀ b, present h b → present h' b) :
      ∀ rs : NRefs D, rs.live h → rs.live h'
    | .nil => by simp [NRefs.live]
    | .cons r rs => by
      simp only [NRefs.live]
      exact fun ⟨a, b⟩ => ⟨NRef.live_mono h h' hm r a, NRefs.live_mono h h' hm rs b⟩
end

/-- What inserting a (list of) node reference(s) guarantees. -/
structure InsOk (ap : Bool) (h : Heap K D) (n : Addr) (h' : Heap K D) (n' : Addr)
    (as : List Addr) : Prop where
  mono : n ≤ n'
  frame : ∀ b, b < n → h'.nodes.get b = h.nodes.get b
  roots : h'.roots = h.roots
  next : h'.next = h.next
  shape : Shape h'
  below : Below h' n'
  res : ∀ a ∈ as, present h' a
  counts : ∀ P, ap = false → Counts h P → Counts h' (as ++ P)

theorem InsOk.present_mono {ap : Bool} {h : Heap K D} {n : Addr} {h' : Heap K D} {n' : Addr}
    {as : List Addr} (ok : InsOk ap h n h' n' as) (hb : Below h n) :
    ∀ b, present h b → present h' b := by
  intro b hp
  have := ok.frame b (hb b hp)
  simp only [present, this]; exact hp

mutual
  theorem insRef_ok (ap : Bool) : ∀ (r : NRef D) (h : Heap K D) (n : Addr),
      Shape h → Below h n → r.live h →
      InsOk ap h n (insRef ap h n r).1 (insRef ap h n r).2.1 [(insRef ap h n r).2.2]
    | .existing a, h, n, hs, hb, hl => by
      simp only [NRef.live] at hl
      cases ap with
      | true =>
        simp only [insRef, if_true]
        exact { mono := Nat.le_refl _, frame := fun _ _ => rfl, roots := rfl, next := rfl,
                shape := hs, below := hb, res := by simpa using hl,
                counts := by intro P h; cases h }
      | false =>
        simp only [insRef, Bool.false_eq_true, if_false]
        exact { mono := Nat.le_refl _, frame := fun _ _ => rfl, roots := rfl, next := rfl,
                shape := incRef_shape h hs a, below := hb,
                res := by intro x hx; simp only [List.mem_singleton] at hx; subst hx; exact hl,
                counts := by intro P _ hc; exact incRef_counts h a hl P hc }
    | .new d cs, h, n, hs, hb, hl => by
      simp only [NRef.live] at hl
      have ih := insRefs_ok ap cs h n hs hb hl
      rcases hR : insRefs ap h n cs with ⟨h1, n1, as⟩
      simp only [hR] at ih
      simp only [insRef, hR]
      exact {
        mono := by have := ih.mono; omega
        frame := by
          intro b hbn
          have hne : b ≠ n1 := by have := ih.mono; omega
          simp only [FMap.get_set, hne, if_false]
          exact ih.frame b hbn
        roots := ih.roots
        next := ih.next
        shape := write_new_shape h1 ih.shape n1 ih.below d as ih.res
        below := write_new_below h1 n1 ih.below _
        res := by
          intro a ha
          simp only [List.mem_singleton] at ha
          subst ha
          simp [present, FMap.get_set]
        counts := by
          intro P hap hc
          exact write_new_counts h1 ih.shape n1 ih.below d as P (ih.counts P hap hc) }
  theorem insRefs_ok (ap : Bool) : ∀ (rs : NRefs D) (h : Heap K D) (n : Addr),
      Shape h → Below h n → rs.live h →
      InsOk ap h n (insRefs ap h n rs).1 (insRefs ap h n rs).2.1 (insRefs ap h n rs).2.2
    | .nil, h, n, hs, hb, _ => by
      simp only [insRefs]
      exact { mono := Nat.le_refl _, frame := fun _ _ => rfl, roots := rfl, next := rfl,
              shape := hs, below := hb, res := by simp,
              counts := by intro P _ hc; simpa using hc }
    | .cons r rs, h, n, hs, hb, hl => by
      simp only [NRefs.live] at hl
      have ih1 := insRef_ok ap r h n hs hb hl.1
      rcases hR1 : insRef ap h n r with ⟨h1, n1, a⟩
      simp only [hR1] at ih1
      have hl2 : rs.live h1 := NRefs.live_mono h h1 (ih1.present_mono hb) rs hl.2
      have ih2 := insRefs_ok ap rs h1 n1 ih1.shape ih1.below hl2
      rcases hR2 : insRefs ap h1 n1 rs with ⟨h2, n2, as⟩
      simp only [hR2] at ih2
      simp only [insRefs, hR1, hR2]
      exact {
        mono := by have := ih1.mono; have := ih2.mono; omega
        frame := by
          intro b hbn
          rw [ih2.frame b (by have := ih1.mono; omega), ih1.frame b hbn]
        roots := by rw [ih2.roots, ih1.roots]
        next := by rw [ih2.next, ih1.next]
        shape := ih2.shape
        below := ih2.below
        res := by
          intro x hx
          simp only [List.mem_cons] at hx
          rcases hx with rfl | hx
          · exact ih2.present_mono ih1.below x (ih1.res x (by simp))
          · exact ih2.res x hx
        counts := by
          intro P hap hc
          have := ih2.counts _ hap (ih1.counts P hap hc)
          apply Counts.congr _ _ _ _ this
          intro x
          simp only [List.count_append, List.count_cons, List.count_nil]
          omega }
end

/-! ### root entries -/

theorem rootRefs_set (h : Heap K D) (hs : Shape h) (k : K) (e : Option (Node D × Nat)) (a : Addr) :
    rootRefs { h with roots := h.roots.set k e } a +
        ((h.roots.get k).map (fun e => e.1.children.count a)).getD 0 =
      rootRefs h a + (e.map (fun e => e.1.children.count a)).getD 0 :=
  FMap.sum_set h.roots hs.wfRoots k e (fun e => e.1.children.count a)

/-- Writing a root entry whose children are all present. -/
theorem setRoot_shape (h : Heap K D) (hs : Shape h) (k : K) (e : Node D × Nat)
    (hpos : 1 ≤ e.2) (hcs : ∀ c ∈ e.1.children, present h c) :
    Shape { h with roots := h.roots.set k (some e) } where
  wfN := hs.wfN
  wfRc := hs.wfRc
  wfRoots := FMap.WF_set _ hs.wfRoots _ _
  acyclic := hs.acyclic
  closedN := hs.closedN
  closedR := by
    intro k' e' hg c hc
    simp only [FMap.get_set] at hg
    split at hg
    · simp only [Option.some.injEq] at hg; subst hg; exact hcs c hc
    · exact hs.closedR k' e' hg c hc
  rootPos := by
    intro k' e' hg
    simp only [FMap.get_set] at hg
    split at hg
    · simp only [Option.some.injEq] at hg; subst hg; exact hpos
    · exact hs.rootPos k' e' hg

/-- A new root entry takes over the pending references to its children. -/
theorem setRoot_new_counts (h : Heap K D) (hs : Shape h) (k : K) (hk : h.roots.get k = none)
    (e : Node D × Nat) (P : List Addr) (hc : Counts h (e.1.children ++ P)) :
    Counts { h with roots := h.roots.set k (some e) } P where
  rcEntries := hc.rcEntries
  rcEq := by
    intro a ha
    have h1 := hc.rcEq a ha
    have h2 := rootRefs_set h hs k (some e) a
    simp only [hk, Option.map_none, Option.getD_none, Option.map_some, Option.getD_some] at h2
    simp only [refs, List.count_append] at h1 ⊢
    have hn : nodeRefs { h with roots := h.roots.set k (some e) } a = nodeRefs h a := rfl
    have hcnt : Heap.count { h with roots := h.roots.set k (some e) } a = Heap.count h a := rfl
    omega
  pend := fun a ha => hc.pend a (List.mem_append_right _ ha)

/-- Changing only the count of a root entry. -/
theorem setRoot_count_counts (h : Heap K D) (hs : Shape h) (k : K) (r : Node D) (c c' : Nat)
    (hk : h.roots.get k = some (r, c)) (P : List Addr) (hc : Counts h P) :
    Counts { h with roots := h.roots.set k (some (r, c')) } P where
  rcEntries := hc.rcEntries
  rcEq := by
    intro a ha
    have h1 := hc.rcEq a ha
    have h2 := rootRefs_set h hs k (some (r, c')) a
    simp only [hk, Option.map_some, Option.getD_some] at h2
    simp only [refs] at h1 ⊢
    have hn : nodeRefs { h with roots := h.roots.set k (some (r, c')) } a = nodeRefs h a := rfl
    have hcnt : Heap.count { h with roots := h.roots.set k (some (r, c')) } a = Heap.count h a := rfl
    omega
  pend := hc.pend

/-- Removing a root entry leaves its child references pending. -/
theorem removeRoot_counts (h : Heap K D) (hs : Shape h) (k : K) (e : Node D × Nat)
    (hk : h.roots.get k = some e) (hc : Counts h []) :
    Counts { h with roots := h.roots.set k none } e.1.children where
  rcEntries := hc.rcEntries
  rcEq := by
    intro a ha
    have h1 := hc.rcEq a ha
    have h2 := rootRefs_set h hs k none a
    simp only [hk, Option.map_some, Option.getD_some, Option.map_none, Option.getD_none] at h2
    simp only [refs, List.count_nil] at h1 ⊢
    have hn : nodeRefs { h with roots := h.roots.set k none } a = nodeRefs h a := rfl
    have hcnt : Heap.count { h with roots := h.roots.set k none } a = Heap.count h a := rfl
    omega
  pend := fun a ha => hs.closedR k e hk a ha

theorem removeRoot_shape (h : Heap K D) (hs : Shape h) (k : K) :
    Shape { h with roots := h.roots.set k none } where
  wfN := hs.wfN
  wfRc := hs.wfRc
  wfRoots := FMap.WF_set _ hs.wfRoots _ _
  acyclic := hs.acyclic
  closedN := hs.closedN
  closedR := by
    intro k' e' hg c hc
    simp only [FMap.get_set] at hg
    split at hg
    · cases hg
    · exact hs.closedR k' e' hg c hc
  rootPos := by
    intro k' e' hg
    simp only [FMap.get_set] at hg
    split at hg
    · cases hg
    · exact hs.rootPos k' e' hg

theorem Shape.withNext {h : Heap K D} (hs : Shape h) (m : Addr) : Shape { h with next := m } :=
  ⟨hs.wfN, hs.wfRc, hs.wfRoots, hs.acyclic, hs.closedN, hs.closedR, hs.rootPos⟩

theorem Counts.withNext {h : Heap K D} {P : List Addr} (hc : Counts h P) (m : Addr) :
    Counts { h with next := m } P :=
  ⟨hc.rcEntries, hc.rcEq, hc.pend⟩

/-! ### the invariant of reachable heaps -/

/-- `Inv`: structural soundness, addresses below the counter and, on columns that count
    (everything except append-only), RcInv. -/
structure Inv (v : Variant) (h : Heap K D) : Prop where
  shape : Shape h
  below : Below h h.next
  counts : v ≠ .appendOnly → Counts h []

theorem Inv.empty (v : Variant) : Inv v (Heap.empty : Heap K D) where
  shape := Shape.empty
  below := by intro a ha; simp [present, Heap.empty] at ha
  counts := fun _ => Counts.empty

/-- Facts about `insertTreeAt` on a fresh key, starting from any counter above the heap. -/
theorem insertTreeAt_spec (v : Variant) (h : Heap K D) (n0 : Addr) (k : K) (t : NewNode D)
    (hs : Shape h) (hb : Below h n0) (hl : t.children.live h) (hk : h.roots.get k = none)
    (hc : v ≠ .appendOnly → Counts h []) :
    let R := insRefs (decide (v = .appendOnly)) h n0 t.children
    insertTreeAt v h n0 k t =
        { R.1 with roots := R.1.roots.set k (some (⟨t.data, R.2.2⟩, 1)),
                   next := max h.next R.2.1 } ∧
      Shape (insertTreeAt v h n0 k t) ∧ Below (insertTreeAt v h n0 k t) R.2.1 ∧
      (v ≠ .appendOnly → Counts (insertTreeAt v h n0 k t) []) := by
  intro R
  have ok := insRefs_ok (decide (v = .appendOnly)) t.children h n0 hs hb hl
  have hk1 : R.1.roots.get k = none := by rw [ok.roots]; exact hk
  have heq : insertTreeAt v h n0 k t =
      { R.1 with roots := R.1.roots.set k (some (⟨t.data, R.2.2⟩, 1)),
                 next := max h.next R.2.1 } := by
    simp only [insertTreeAt]
    rcases hR : insRefs (decide (v = .appendOnly)) h n0 t.children with ⟨h1, n1, as⟩
    have e1 : R.1 = h1 := by simp only [R, hR]
    have e2 : R.2.1 = n1 := by simp only [R, hR]
    have e3 : R.2.2 = as := by simp only [R, hR]
    rw [e1] at hk1
    simp only [hk1, e1, e2, e3]
    have hn : h1.next = h.next := by rw [← e1]; exact ok.next
    cases v <;> simp [hn, rootEntry]
  refine ⟨heq, ?_⟩
  rw [heq]
  refine ⟨?_, ?_, ?_⟩
  · exact (setRoot_shape R.1 ok.shape k (⟨t.data, R.2.2⟩, 1) (Nat.le_refl 1) ok.res).withNext _
  · exact ok.below
  · intro hv
    have hd : decide (v = .appendOnly) = false := by simp [hv]
    have := ok.counts [] hd (hc hv)
    exact (setRoot_new_counts R.1 ok.shape k hk1 (⟨t.data, R.2.2⟩, 1) [] this).withNext _

theorem Below.mono {h : Heap K D} {n m : Addr} (hb : Below h n) (hnm : n ≤ m) : Below h m :=
  fun a ha => Nat.lt_of_lt_of_le (hb a ha) hnm

/-- InsertTree (atomic) preserves the invariant. -/
theorem insertTree_inv (v : Variant) (h h' : Heap K D) (k : K) (t : NewNode D) (hi : Inv v h)
    (hl : t.children.live h) (hk : h.roots.get k = none) (he : insertTree v h k t = .ok h') :
    Inv v h' := by
  simp only [insertTree] at he
  split at he
  · simp only [Except.ok.injEq] at he
    subst he
    have sp := insertTreeAt_spec v h h.next k t hi.shape hi.below hl hk hi.counts
    simp only at sp
    refine ⟨sp.2.1, ?_, sp.2.2.2⟩
    have hnext : (insertTreeAt v h h.next k t).next =
        max h.next (insRefs (decide (v = .appendOnly)) h h.next t.children).2.1 := by
      rw [sp.1]
    rw [hnext]
    exact sp.2.2.1.mono (Nat.le_max_right _ _)
  · cases he

/-- ReferenceTree preserves the invariant. -/
theorem referenceTree_inv (v : Variant) (h h' : Heap K D) (k : K) (hi : Inv v h)
    (he : referenceTree v h k = .ok h') : Inv v h' := by
  cases v with
  | appendOnly => simp only [referenceTree, Except.ok.injEq] at he; subst he; exact hi
  | plain => simp [referenceTree] at he
  | rcRoots =>
    simp only [referenceTree] at he
    split at he
    · rename_i r c hg
      simp only [Except.ok.injEq] at he
      subst he
      refine ⟨?_, hi.below, ?_⟩
      · exact setRoot_shape h hi.shape k (r, c + 1) (by simp)
          (hi.shape.closedR k (r, c) hg)
      · intro hv
        exact setRoot_count_counts h hi.shape k r c (c + 1) hg [] (hi.counts hv)
    · simp only [Except.ok.injEq] at he; subst he; exact hi

end Pdb.MultiTree
