/-
C09 helper: facts about the generated bit-level expressions (index bits 16..49).

  entry_address_new / entry_partial_key_new / entry_new_ne_zero / entry_new_lt
  address_tier_new / address_offset_new
  recover_spec   (the key prefix recovered from (chunk, entry) indexes the same page and has the
                  same partial key in every table with at least as many bits)
-/
import Pdb.Model.Index
import Pdb.Proofs.C19

namespace Pdb.Index
open Pdb.Gen Pdb.IndexPage

/-! ## plain forms -/

theorem last_address_eq (b : Nat) (hb : b ≤ 49) : Entry.last_address b = 2 ^ (b + 14) - 1 := by
  have hab := address_bits_eq b hb
  simp only [Entry.last_address, hab, wsub, wshl]
  have h1 : (b + 14) % 64 = b + 14 := Nat.mod_eq_of_lt (by omega)
  rw [h1, Nat.one_shiftLeft]
  have hlt : 2 ^ (b + 14) < 2 ^ 64 := Nat.pow_lt_pow_right (by omega) (by omega)
  have hpos : 0 < 2 ^ (b + 14) := Nat.two_pow_pos _
  rw [Nat.mod_eq_of_lt hlt]
  have : (1 : Nat) % 2 ^ 64 = 1 := by decide
  rw [this]
  omega

theorem chunk_index_eq (b kp : Nat) (hb : 1 ≤ b) (hb' : b ≤ 64) :
    chunk_index b kp = kp >>> (64 - b) := by
  simp only [chunk_index, wshr, wsub, INDEX_ENTRY_BITS]
  have : (64 + 2 ^ 8 - b % 2 ^ 8) % 2 ^ 8 % 64 = 64 - b := by
    have : (2 : Nat) ^ 8 = 256 := by decide
    rw [this]; omega
  rw [this]

theorem extract_key_plain (kp b : Nat) (hb : b ≤ 49) :
    Entry.extract_key kp b = ((kp <<< b) % 2 ^ 64) >>> (b + 14) := by
  rw [extract_key_eq kp b hb, address_bits_eq b hb]
  simp only [wshl]
  rw [Nat.mod_eq_of_lt (by omega : b < 64)]

theorem partial_key_plain (e b : Nat) (hb : b ≤ 49) :
    Entry.partial_key e b = e >>> (b + 14) := by
  rw [partial_key_eq e b hb, address_bits_eq b hb]

theorem extract_key_lt (kp b : Nat) (hb : b ≤ 49) : Entry.extract_key kp b < 2 ^ (50 - b) := by
  rw [extract_key_plain kp b hb, Nat.shiftRight_eq_div_pow,
    Nat.div_lt_iff_lt_mul (Nat.two_pow_pos _), ← Nat.pow_add]
  have : 50 - b + (b + 14) = 64 := by omega
  rw [this]
  exact Nat.mod_lt _ (Nat.two_pow_pos 64)

theorem entry_new_plain (a pk b : Nat) (hb : b ≤ 49) (hpk : pk < 2 ^ (50 - b)) :
    Entry.new a pk b = pk <<< (b + 14) ||| a := by
  simp only [Entry.new, wor, wshl, address_bits_eq b hb]
  rw [Nat.mod_eq_of_lt (by omega : b + 14 < 64)]
  have : pk <<< (b + 14) < 2 ^ 64 := by
    rw [Nat.shiftLeft_eq]
    calc pk * 2 ^ (b + 14) < 2 ^ (50 - b) * 2 ^ (b + 14) :=
          Nat.mul_lt_mul_of_pos_right hpk (Nat.two_pow_pos _)
      _ = 2 ^ 64 := by rw [← Nat.pow_add]; congr 1; omega
  rw [Nat.mod_eq_of_lt this]

/-! ## entries -/

theorem entry_address_new (a pk b : Nat) (hb : b ≤ 49) (hpk : pk < 2 ^ (50 - b))
    (ha : a ≤ Entry.last_address b) : Entry.address (Entry.new a pk b) b = a := by
  have hla := last_address_eq b hb
  have hpos : 0 < 2 ^ (b + 14) := Nat.two_pow_pos _
  have ha' : a < 2 ^ (b + 14) := by omega
  simp only [Entry.address, wand]
  rw [hla, entry_new_plain a pk b hb hpk, Nat.and_two_pow_sub_one_eq_mod, Nat.or_mod_two_pow,
    Nat.shiftLeft_eq, Nat.mul_mod_left, Nat.zero_or, Nat.mod_eq_of_lt ha']

theorem entry_partial_key_new (a pk b : Nat) (hb : b ≤ 49) (hpk : pk < 2 ^ (50 - b))
    (ha : a ≤ Entry.last_address b) : Entry.partial_key (Entry.new a pk b) b = pk := by
  have hla := last_address_eq b hb
  have hpos : 0 < 2 ^ (b + 14) := Nat.two_pow_pos _
  have ha' : a < 2 ^ (b + 14) := by omega
  rw [partial_key_plain _ b hb, entry_new_plain a pk b hb hpk, Nat.shiftRight_or_distrib,
    Nat.shiftLeft_shiftRight, Nat.shiftRight_eq_div_pow a, Nat.div_eq_of_lt ha', Nat.or_zero]

theorem entry_new_lt (a pk b : Nat) (hb : b ≤ 49) (ha : a ≤ Entry.last_address b) :
    Entry.new a pk b < 2 ^ 64 := by
  have hla := last_address_eq b hb
  have hpos : 0 < 2 ^ (b + 14) := Nat.two_pow_pos _
  have hlt : 2 ^ (b + 14) ≤ 2 ^ 64 := Nat.pow_le_pow_right (by omega) (by omega)
  simp only [Entry.new, wor]
  exact Nat.or_lt_two_pow (wshl_lt _ _) (by omega)

theorem entry_new_ne_zero (a pk b : Nat) (hb : b ≤ 49) (hpk : pk < 2 ^ (50 - b))
    (ha : a ≤ Entry.last_address b) (h0 : a ≠ 0) : Entry.new a pk b ≠ 0 := by
  intro h
  have := entry_address_new a pk b hb hpk ha
  rw [h] at this
  simp only [Entry.address, wand, Nat.zero_and] at this
  exact h0 this.symm

/-! ## addresses -/

theorem address_new_plain (off tier : Nat) (ho : off < 2 ^ 56) (ht : tier < 256) :
    Address.new off tier = off <<< 8 ||| tier := by
  simp only [Address.new, wor, wshl, wcast, SIZE_TIERS_BITS]
  have h1 : off <<< (8 % 64) < 2 ^ 64 := by
    rw [Nat.shiftLeft_eq]
    have : (8 : Nat) % 64 = 8 := by decide
    rw [this]
    have : (2 : Nat) ^ 64 = 2 ^ 56 * 2 ^ 8 := by decide
    rw [this]
    exact Nat.mul_lt_mul_of_pos_right ho (by decide)
  rw [Nat.mod_eq_of_lt h1, Nat.mod_eq_of_lt (by omega : tier < 2 ^ 64)]

theorem address_tier_new (off tier : Nat) (ho : off < 2 ^ 56) (ht : tier < 256) :
    Address.size_tier (Address.new off tier) = tier := by
  rw [address_new_plain off tier ho ht]
  simp only [Address.size_tier, wcast, wand, wsub, wshl, SIZE_TIERS_BITS]
  have hm : ((1 <<< (8 % 64) % 2 ^ 64 % 2 ^ 64 + 2 ^ 64 - 1 % 2 ^ 64) % 2 ^ 64) = 2 ^ 8 - 1 := by decide
  rw [hm, Nat.and_two_pow_sub_one_eq_mod, Nat.or_mod_two_pow, Nat.shiftLeft_eq, Nat.mul_mod_left,
    Nat.zero_or]
  have : (2 : Nat) ^ 8 = 256 := by decide
  rw [this]
  omega

theorem address_offset_new (off tier : Nat) (ho : off < 2 ^ 56) (ht : tier < 256) :
    Address.offset (Address.new off tier) = off := by
  rw [address_new_plain off tier ho ht]
  simp only [Address.offset, wshr, SIZE_TIERS_BITS]
  have : (8 : Nat) % 64 = 8 := by decide
  rw [this, Nat.shiftRight_or_distrib, Nat.shiftLeft_shiftRight, Nat.shiftRight_eq_div_pow tier,
    Nat.div_eq_of_lt (by omega : tier < 2 ^ 8), Nat.or_zero]

theorem address_new_ne_zero (off tier : Nat) (ho : off < 2 ^ 56) (ht : tier < 256) (h1 : 1 ≤ off) :
    Address.new off tier ≠ 0 := by
  intro h
  have := address_offset_new off tier ho ht
  rw [h] at this
  simp [Address.offset, wshr] at this
  omega

/-! ## the key prefix recovered by `recover_key_prefix` -/

theorem recover_plain (b c e : Nat) (hb16 : 16 ≤ b) (hb : b ≤ 49) :
    recover_index_key b c e =
      (c <<< (64 - b)) % 2 ^ 64 ||| (Entry.partial_key e b <<< 14) % 2 ^ 64 := by
  simp only [recover_index_key, recover_partial_key, recover_k, wor, wshl, wsub, address_bits_eq b hb]
  have h8 : (2 : Nat) ^ 8 = 256 := by decide
  rw [h8]
  have h1 : (64 + 256 - b % 256) % 256 % 64 = 64 - b := by omega
  have h2 : ((64 + 256 - (64 + 256 - (b + 14) % 256) % 256 % 256) % 256 + 256 - b % 256) % 256 % 64
      = 14 := by omega
  rw [h1, h2]

/-- bit `j` of the recovered prefix: bits 63..14 of the original prefix, zero below. -/
theorem recover_testBit (b kp e : Nat) (hb16 : 16 ≤ b) (hb : b ≤ 49) (hkp : kp < 2 ^ 64)
    (hpk : Entry.partial_key e b = Entry.extract_key kp b) (j : Nat) :
    (recover_index_key b (chunk_index b kp) e).testBit j = (decide (14 ≤ j) && kp.testBit j) := by
  rw [recover_plain b _ e hb16 hb, hpk, extract_key_plain kp b hb,
    chunk_index_eq b kp (by omega) (by omega)]
  simp only [Nat.testBit_or, Nat.testBit_mod_two_pow, Nat.testBit_shiftLeft, Nat.testBit_shiftRight]
  have hhi : ∀ i, 64 ≤ i → kp.testBit i = false := fun i hi =>
    Nat.testBit_lt_two_pow (Nat.lt_of_lt_of_le hkp (Nat.pow_le_pow_right (by omega) hi))
  by_cases h64 : j < 64
  · by_cases h14 : 14 ≤ j
    · by_cases hc : 64 - b ≤ j
      · have e1 : 64 - b + (j - (64 - b)) = j := by omega
        have e6 : b + 14 + (j - 14) - b = j := by omega
        simp [h64, h14, hc, e1, e6]
      · have e2 : b + 14 + (j - 14) = b + j := by omega
        have e3 : b + j - b = j := by omega
        have e4 : b + j < 64 := by omega
        have e5 : b ≤ b + j := by omega
        simp [h64, h14, hc, e2, e3, e4, e5]
    · have hc : ¬ 64 - b ≤ j := by omega
      simp [h64, h14, hc]
  · have := hhi j (by omega)
    simp [h64, this]

theorem recover_spec (b kp e : Nat) (hb16 : 16 ≤ b) (hb : b ≤ 49) (hkp : kp < 2 ^ 64)
    (hpk : Entry.partial_key e b = Entry.extract_key kp b) (b' : Nat) (h1 : b ≤ b') (h2 : b' ≤ 49) :
    chunk_index b' (recover_index_key b (chunk_index b kp) e) = chunk_index b' kp ∧
    Entry.extract_key (recover_index_key b (chunk_index b kp) e) b' = Entry.extract_key kp b' := by
  have hhi : ∀ i, 64 ≤ i → kp.testBit i = false := fun i hi =>
    Nat.testBit_lt_two_pow (Nat.lt_of_lt_of_le hkp (Nat.pow_le_pow_right (by omega) hi))
  constructor
  · rw [chunk_index_eq b' _ (by omega) (by omega), chunk_index_eq b' kp (by omega) (by omega)]
    apply Nat.eq_of_testBit_eq
    intro i
    rw [Nat.testBit_shiftRight, Nat.testBit_shiftRight, recover_testBit b kp e hb16 hb hkp hpk]
    have : 14 ≤ 64 - b' + i := by omega
    simp [this]
  · rw [extract_key_plain _ b' h2, extract_key_plain kp b' h2]
    apply Nat.eq_of_testBit_eq
    intro i
    simp only [Nat.testBit_shiftRight, Nat.testBit_mod_two_pow, Nat.testBit_shiftLeft,
      recover_testBit b kp e hb16 hb hkp hpk]
    by_cases h : b' + 14 + i < 64
    · have e1 : b' ≤ b' + 14 + i := by omega
      have e2 : 14 ≤ b' + 14 + i - b' := by omega
      simp [h, e1, e2]
    · simp [h]

theorem chunk_index_lt (b kp : Nat) (hb1 : 1 ≤ b) (hb : b ≤ 64) (hkp : kp < 2 ^ 64) :
    chunk_index b kp < total_chunks b ∨ b = 64 := by
  by_cases h : b = 64
  · exact Or.inr h
  · left
    rw [chunk_index_eq b kp hb1 hb]
    simp only [total_chunks, wshl]
    rw [Nat.mod_eq_of_lt (by omega : b < 64), Nat.one_shiftLeft,
      Nat.mod_eq_of_lt (Nat.pow_lt_pow_right (by omega) (by omega)),
      Nat.shiftRight_eq_div_pow, Nat.div_lt_iff_lt_mul (Nat.two_pow_pos _), ← Nat.pow_add]
    have : b + (64 - b) = 64 := by omega
    rw [this]; exact hkp

end Pdb.Index
