/-
C17 helper lemmas, part 3: option check at open, column-file prefixes (with the T0
obligations on the generated `file_name` / `is_file_name` / `drop_files` / `log{id}` /
`metadata` / `lock` constants), and the administration calls on the directory model.
Core Lean only.
-/
import Pdb.Proofs.C17Meta

namespace Pdb.C17

/-! ### `validate` -/

theorem firstMismatch_none {a b : List ColumnOptions} (hlen : a.length = b.length) (i : Nat) :
    firstMismatch i a b = none ↔ a = b := by
  induction a generalizing b i with
  | nil =>
    cases b with
    | nil => simp [firstMismatch]
    | cons _ _ => simp at hlen
  | cons x xs ih =>
    cases b with
    | nil => simp at hlen
    | cons y ys =>
      have hl : xs.length = ys.length := by simpa using hlen
      unfold firstMismatch
      by_cases hxy : x = y
      · simp [hxy, ih hl (i + 1)]
      · simp [hxy]

/-- A reported index is the first position where the lists differ. -/
theorem firstMismatch_some {a b : List ColumnOptions} {i c : Nat}
    (h : firstMismatch i a b = some c) :
    ∃ j, c = i + j ∧ j < a.length ∧ j < b.length ∧ a[j]? ≠ b[j]? ∧ a.take j = b.take j := by
  induction a generalizing b i with
  | nil => simp [firstMismatch] at h
  | cons x xs ih =>
    cases b with
    | nil => simp [firstMismatch] at h
    | cons y ys =>
      unfold firstMismatch at h
      by_cases hxy : x = y
      · simp only [hxy, if_true] at h
        obtain ⟨j, hc, h1, h2, h3, h4⟩ := ih h
        refine ⟨j + 1, by omega, by simpa using h1, by simpa using h2, by simpa using h3, ?_⟩
        simp [hxy, h4]
      · simp only [hxy, if_false] at h
        cases h
        exact ⟨0, by omega, by simp, by simp, by simpa using hxy, by simp⟩

theorem validate_isOk_iff (stored requested : List ColumnOptions) :
    (validate stored requested).isOk = true ↔ stored = requested := by
  unfold validate
  by_cases hlen : stored.length = requested.length
  · simp only [hlen, ne_eq, not_true_eq_false, if_false]
    cases hm : firstMismatch 0 stored requested with
    | none =>
      have := (firstMismatch_none hlen 0).mp hm
      simp [this, Except.isOk, Except.toBool]
    | some c =>
      have hne : stored ≠ requested := by
        intro heq
        rw [(firstMismatch_none hlen 0).mpr heq] at hm
        cases hm
      simp [hne, Except.isOk, Except.toBool]
  · have hne : stored ≠ requested := fun h => hlen (by rw [h])
    simp [hlen, hne, Except.isOk, Except.toBool]

theorem validate_ok_iff (stored requested : List ColumnOptions) :
    validate stored requested = .ok () ↔ stored = requested := by
  rw [← validate_isOk_iff]
  cases validate stored requested <;> simp [Except.isOk, Except.toBool]

theorem validate_count {stored requested : List ColumnOptions}
    (h : stored.length ≠ requested.length) :
    validate stored requested = .error .invalidConfigColumnCount := by
  simp [validate, h]

theorem validate_mismatch {stored requested : List ColumnOptions}
    (hlen : stored.length = requested.length) (hne : stored ≠ requested) :
    ∃ j, validate stored requested = .error (.incompatibleColumnConfig (j % 256)) ∧
      j < stored.length ∧ stored[j]? ≠ requested[j]? ∧ stored.take j = requested.take j := by
  unfold validate
  simp only [hlen, ne_eq, not_true_eq_false, if_false]
  cases hm : firstMismatch 0 stored requested with
  | none => exact absurd ((firstMismatch_none hlen 0).mp hm) hne
  | some c =>
    obtain ⟨j, hc, h1, _, h3, h4⟩ := firstMismatch_some hm
    have : c = j := by omega
    subst this
    exact ⟨c, rfl, hlen ▸ h1, h3, h4⟩

/-! ### file-name prefixes -/

/-- Two texts that continue with the same separator after separator-free heads have the
same head. -/
theorem sep_unique {s : Char} {a b x y : Text} (ha : s ∉ a) (hb : s ∉ b)
    (h : a ++ s :: x = b ++ s :: y) : a = b ∧ x = y := by
  induction a generalizing b with
  | nil =>
    cases b with
    | nil => simpa using h
    | cons c cs =>
      simp only [List.nil_append, List.cons_append, List.cons.injEq] at h
      exact absurd (h.1 ▸ List.mem_cons_self) hb
  | cons c cs ih =>
    cases b with
    | nil =>
      simp only [List.nil_append, List.cons_append, List.cons.injEq] at h
      exact absurd (h.1 ▸ List.mem_cons_self) ha
    | cons d ds =>
      simp only [List.cons_append, List.cons.injEq] at h
      have := ih (b := ds) (fun hm => ha (List.mem_cons_of_mem _ hm))
        (fun hm => hb (List.mem_cons_of_mem _ hm)) h.2
      exact ⟨by rw [h.1, this.1], this.2⟩

/-! #### T0 obligations on the generated file-name formats -/

/-- The text in front of the column number in the `is_file_name` prefix, without its last
character: `index`, `table`, `refcount`. -/
def FileKind.name (k : FileKind) : Text := (k.isFileNameFmt.1.headD []).dropLast

/-- Zero-pad width of the column number in the `is_file_name` prefix. -/
def FileKind.width (k : FileKind) : Nat := k.isFileNameFmt.2.headD 0

/-- T0 obligation: every `is_file_name` prefix is `<name>_{col:0w}_`: the column number sits
between two `_` (so that `index_10_` is not a prefix of `index_100_..`). -/
theorem isFileName_shape (k : FileKind) :
    k.isFileNameFmt = ([k.name ++ ['_'], ['_']], [k.width]) := by
  cases k <;> decide

/-- T0 obligation: `file_name` starts with the text `is_file_name` tests for (same literal, same
zero padding of the same argument `self.col()`), followed by one more hole. -/
theorem fileName_shape (k : FileKind) :
    k.fileNameFmt = ([k.name ++ ['_'], ['_'], (k.fileNameFmt.1.drop 2).headD []],
      [k.width, (k.fileNameFmt.2.drop 1).headD 0]) ∧
    k.fileNameArgs = [t!"self.col()", (k.fileNameArgs.drop 1).headD []] := by
  cases k <;> decide

/-- T0 obligation: the kind names contain no `_` ... -/
theorem underscore_not_mem_kind (k : FileKind) : '_' ∉ k.name := by
  cases k <;> decide

/-- T0 obligation: ... and are pairwise different. -/
theorem kind_name_injective {k k' : FileKind} (h : k.name = k'.name) : k = k' := by
  cases k <;> cases k' <;> first | rfl | (exact absurd h (by decide))

/-- T0 obligation: no kind name starts like `metadata`, `lock` or `log<n>`. -/
theorem kind_heads (k : FileKind) : k.name = k.name.headD ' ' :: k.name.tail ∧
    k.name.headD ' ' ≠ metadataName.headD ' ' ∧ k.name.headD ' ' ≠ lockName.headD ' ' ∧
    k.name.headD ' ' ≠ (Gen.Text.logNamePieces.headD []).headD ' ' := by
  cases k <;> decide

/-- T0 obligation: `metadata`, `lock` and the `log` prefix are not empty. -/
theorem other_names_cons : metadataName = metadataName.headD ' ' :: metadataName.tail ∧
    lockName = lockName.headD ' ' :: lockName.tail ∧
    Gen.Text.logNamePieces = [(Gen.Text.logNamePieces.headD []).headD ' ' ::
      (Gen.Text.logNamePieces.headD []).tail, []] := by decide

/-- T0 obligation: the three sites that name the metadata file (`write_metadata_with_version`,
`load_metadata`, the existence test in `DbInner::open`) use the same literal. -/
theorem metadataName_sites : Gen.Text.metadataNameWrite = metadataName ∧
    Gen.Text.metadataNameOpen = metadataName := by decide

/-- T0 obligation: `Log::open` recognises what `Log::log_path` writes: same prefix, and the
number starts right after it (`&name[3..]`). -/
theorem logName_shape : Gen.Text.logNamePieces = [Gen.Text.logOpenPrefix, []] ∧
    Gen.Text.logOpenPrefix.length = Gen.Text.logOpenSkip := by decide

/-- T0 obligation: `Column::drop_files` tests the names of all three kinds of table files of the
column (index, value tables, reference-count tables). -/
theorem isColumnFile_eq (col : Nat) (name : FileName) : isColumnFile col name =
    ((filePrefix .index col).isPrefixOf name || (filePrefix .table col).isPrefixOf name ||
      (filePrefix .refcount col).isPrefixOf name) := by
  have h : Gen.Text.dropFilesTests.map FileKind.ofModule =
      [some .index, some .table, some .refcount] := by decide
  simp only [isColumnFile, Gen.Text.dropFilesTests, List.any_cons, List.any_nil, Bool.or_false] at h ⊢
  simp only [List.map_cons, List.map_nil, List.cons.injEq, and_true] at h
  simp only [h.1, h.2.1, h.2.2, Bool.or_assoc]

theorem filePrefix_eq (k : FileKind) (c : Nat) :
    filePrefix k c = k.name ++ '_' :: (padTo k.width (dec c) ++ ['_']) := by
  unfold filePrefix
  rw [isFileName_shape k]
  simp [fmtW, fmt]

theorem fileName_eq (k : FileKind) (c x : Nat) : ∃ rest, fileName k c x = filePrefix k c ++ rest := by
  obtain ⟨h1, h2⟩ := fileName_shape k
  generalize (k.fileNameFmt.1.drop 2).headD [] = r at h1
  generalize (k.fileNameFmt.2.drop 1).headD 0 = w at h1
  generalize (k.fileNameArgs.drop 1).headD [] = e at h2
  refine ⟨padTo w (nameArg c x e) ++ r, ?_⟩
  have hcol : nameArg c x t!"self.col()" = dec c := rfl
  rw [filePrefix_eq]
  unfold fileName
  rw [h1, h2]
  simp [fmtW, fmt, hcol]

theorem logName_eq (i : Nat) : logName i = Gen.Text.logOpenPrefix ++ dec i := by
  unfold logName
  rw [logName_shape.1]
  simp [fmt]

/-- `Log::open` reads back the id `log_path` printed. -/
theorem logName_roundtrip {i : Nat} (h : i ≤ u32Max) :
    Gen.Text.logOpenPrefix.isPrefixOf (logName i) = true ∧
    parseUnsigned u32Max ((logName i).drop Gen.Text.logOpenSkip) = some i := by
  rw [logName_eq]
  refine ⟨List.isPrefixOf_iff_prefix.mpr (List.prefix_append _ _), ?_⟩
  rw [← logName_shape.2, List.drop_left]
  exact parseUnsigned_dec h

theorem underscore_not_mem_padTo (w n : Nat) : '_' ∉ padTo w (dec n) := fun h =>
  isDigit_ne_underscore (isDigit_of_mem_padTo (fun _ hx => isDigit_of_mem_dec hx) h) rfl

/-- A name that starts with the prefix of `(k', c')` starts with the prefix of `(k, c)` only
if the kind and the column are the same. -/
theorem filePrefix_isPrefixOf {k k' : FileKind} {c c' : Nat} {rest : Text}
    (h : (filePrefix k c).isPrefixOf (filePrefix k' c' ++ rest) = true) : k = k' ∧ c = c' := by
  obtain ⟨t, ht⟩ := List.isPrefixOf_iff_prefix.mp h
  rw [filePrefix_eq, filePrefix_eq] at ht
  have e1 : k.name ++ '_' :: (padTo k.width (dec c) ++ '_' :: t) =
      k'.name ++ '_' :: (padTo k'.width (dec c') ++ '_' :: rest) := by
    simpa [List.append_assoc] using ht
  obtain ⟨hk, e2⟩ := sep_unique (underscore_not_mem_kind k) (underscore_not_mem_kind k') e1
  obtain ⟨hc, _⟩ := sep_unique (underscore_not_mem_padTo _ c) (underscore_not_mem_padTo _ c') e2
  exact ⟨kind_name_injective hk, padTo_dec_injective hc⟩

theorem isColumnFile_prefix_iff (c : Nat) (k' : FileKind) (c' : Nat) (rest : Text) :
    isColumnFile c (filePrefix k' c' ++ rest) = true ↔ c = c' := by
  constructor
  · intro h
    rw [isColumnFile_eq] at h
    simp only [Bool.or_eq_true] at h
    rcases h with (h | h) | h <;> exact (filePrefix_isPrefixOf h).2
  · intro h
    subst h
    have hp : (filePrefix k' c).isPrefixOf (filePrefix k' c ++ rest) = true :=
      List.isPrefixOf_iff_prefix.mpr (List.prefix_append _ _)
    rw [isColumnFile_eq]
    cases k' <;> simp [hp]

/-- Files that belong to no column: names whose first character differs from the first
character of `index`, `table` and `refcount` (metadata, lock, log<n>). -/
theorem isColumnFile_other (c : Nat) (a : Char) (r : Text)
    (ha : ∀ k : FileKind, ∃ b t, k.name = b :: t ∧ b ≠ a) : isColumnFile c (a :: r) = false := by
  have hk : ∀ k : FileKind, (filePrefix k c).isPrefixOf (a :: r) = false := by
    intro k
    obtain ⟨b, t, hb, hne⟩ := ha k
    rw [filePrefix_eq, hb]
    have : (b == a) = false := by simpa using hne
    simp [List.isPrefixOf, this]
  simp [isColumnFile_eq, hk]

theorem isColumnFile_metadata (c : Nat) : isColumnFile c metadataName = false := by
  rw [other_names_cons.1]
  exact isColumnFile_other c _ _ fun k => by
    obtain ⟨h, h1, _, _⟩ := kind_heads k; exact ⟨_, _, h, h1⟩

theorem isColumnFile_lock (c : Nat) : isColumnFile c lockName = false := by
  rw [other_names_cons.2.1]
  exact isColumnFile_other c _ _ fun k => by
    obtain ⟨h, _, h2, _⟩ := kind_heads k; exact ⟨_, _, h, h2⟩

theorem logName_cons (i : Nat) : logName i = (Gen.Text.logNamePieces.headD []).headD ' ' ::
    ((Gen.Text.logNamePieces.headD []).tail ++ dec i) := by
  unfold logName
  rw [other_names_cons.2.2]
  simp [fmt]

theorem isColumnFile_log (c i : Nat) : isColumnFile c (logName i) = false := by
  rw [logName_cons]
  exact isColumnFile_other c _ _ fun k => by
    obtain ⟨h, _, _, h3⟩ := kind_heads k; exact ⟨_, _, h, h3⟩

/-- A column file is never the metadata file. -/
theorem filePrefix_ne_metadata (k : FileKind) (c : Nat) (rest : Text) :
    filePrefix k c ++ rest ≠ metadataName := by
  intro h
  have h1 := (isColumnFile_prefix_iff c k c rest).mpr rfl
  rw [h, isColumnFile_metadata] at h1
  cases h1

/-- T0 obligation: a log file is never the metadata file. -/
theorem logName_ne_metadata (i : Nat) : logName i ≠ metadataName := by
  intro h
  have hne : (Gen.Text.logNamePieces.headD []).headD ' ' ≠ metadataName.headD ' ' := by decide
  rw [logName_cons, other_names_cons.1] at h
  exact hne (List.cons.inj h).1

/-! ### open -/

theorem ensureLock_of_ne {β : Type} (d : Dir β) {n : FileName} (h : n ≠ lockName) :
    ensureLock d n = d n := by
  simp [ensureLock, h]

theorem ensureLock_eq_self {β : Type} (d : Dir β) (h : d lockName ≠ none) : ensureLock d = d := by
  funext n
  unfold ensureLock
  split
  · rename_i hn
    subst hn
    split
    · rename_i c hc; exact hc.symm
    · rename_i hc; exact absurd hc h
  · rfl

theorem metadata_ne_lock : metadataName ≠ lockName := by decide

/-- What `precheck` can return. -/
theorem precheck_cases {β : Type} (replay : Dir β → Dir β) (fs : Option (Dir β))
    (requested : List ColumnOptions) (salt : Option (List Nat)) :
    (fs = none ∧ precheck replay fs requested salt = ⟨.err .databaseNotFound, none⟩) ∨
    (∃ d, fs = some d ∧
      ((∃ m, loadMetadataFile (d metadataName) = .ok (some m) ∧ m.columns = requested ∧
          precheck replay fs requested salt =
            ⟨.ok (m.salt, m.version), some (replay (ensureLock d))⟩) ∨
       (∃ r fs', (∀ s, r ≠ .ok s) ∧ precheck replay fs requested salt = ⟨r, fs'⟩))) := by
  cases fs with
  | none => exact Or.inl ⟨rfl, rfl⟩
  | some d =>
    refine Or.inr ⟨d, rfl, ?_⟩
    unfold precheck openDb
    simp only [Option.getD_some]
    cases hmd : d metadataName with
    | none =>
      exact Or.inr ⟨.err .databaseNotFound, some d, fun s h => (by cases h), by simp⟩
    | some c =>
      simp only [Bool.not_false, Option.isNone_some, Bool.and_false, Bool.false_eq_true, if_false,
        ensureLock_of_ne d metadata_ne_lock, hmd]
      cases hl : loadMetadataFile (some c) with
      | err e => exact Or.inr ⟨.err e, _, fun s h => (by cases h), rfl⟩
      | panic => exact Or.inr ⟨.panic, _, fun s h => (by cases h), rfl⟩
      | ok om =>
        cases om with
        | none =>
          exact Or.inr ⟨.err .databaseNotFound, some (ensureLock d), fun s h => (by cases h), by simp⟩
        | some m =>
          cases hv : validate m.columns requested with
          | error e =>
            exact Or.inr ⟨.err e, some (ensureLock d), fun s h => (by cases h), by simp [hv]⟩
          | ok u =>
            cases u
            exact Or.inl ⟨m, rfl, (validate_ok_iff _ _).mp hv, by simp [hv]⟩

theorem metadata_present {β : Type} {d : Dir β} {m : Metadata}
    (hm : loadMetadataFile (d metadataName) = .ok (some m)) : ∃ c, d metadataName = some c := by
  cases hmd : d metadataName with
  | none => rw [hmd] at hm; simp [loadMetadataFile] at hm
  | some c => exact ⟨c, rfl⟩

/-- Open with stored columns different from the requested ones: the error of `validate`,
and the directory is left as it was except that the `lock` file now exists. -/
theorem openDb_mismatch {β : Type} (replay : Dir β → Dir β) (d : Dir β)
    (requested : List ColumnOptions) (salt : Option (List Nat)) (create : Bool)
    (fresh : List Nat) {m : Metadata} {e : Err}
    (hm : loadMetadataFile (d metadataName) = .ok (some m))
    (hv : validate m.columns requested = .error e) :
    openDb replay (some d) requested salt create fresh = ⟨.err e, some (ensureLock d)⟩ := by
  obtain ⟨c, hc⟩ := metadata_present hm
  unfold openDb
  simp only [Option.getD_some, hc, Option.isNone_some, Bool.and_false, Bool.false_eq_true,
    if_false, ensureLock_of_ne d metadata_ne_lock]
  rw [hc] at hm
  simp only [hm, hv]

/-- Open without create of a directory that has no metadata file: `DatabaseNotFound`, and
nothing at all is created (not even the `lock` file). -/
theorem openDb_no_metadata {β : Type} (replay : Dir β → Dir β) (d : Dir β)
    (requested : List ColumnOptions) (salt : Option (List Nat)) (fresh : List Nat)
    (hm : d metadataName = none) :
    openDb replay (some d) requested salt false fresh = ⟨.err .databaseNotFound, some d⟩ := by
  unfold openDb
  simp [hm]

/-- The precheck succeeds exactly with the stored columns; it returns the stored salt and
version whatever `options.salt` is. -/
theorem precheck_ok {β : Type} (replay : Dir β → Dir β) (d : Dir β)
    (salt : Option (List Nat)) {m : Metadata}
    (hm : loadMetadataFile (d metadataName) = .ok (some m)) :
    precheck replay (some d) m.columns salt =
      ⟨.ok (m.salt, m.version), some (replay (ensureLock d))⟩ := by
  have hv : validate m.columns m.columns = .ok () := (validate_ok_iff _ _).mpr rfl
  obtain ⟨c, hc⟩ := metadata_present hm
  unfold precheck openDb
  simp only [Option.getD_some, hc, Option.isNone_some, Bool.and_false, Bool.false_eq_true,
    if_false, ensureLock_of_ne d metadata_ne_lock]
  rw [hc] at hm
  simp only [hm, hv]

/-! ### a concrete directory for the non-vacuity examples -/

def exampleCols : List ColumnOptions :=
  [⟨false, false, false, .NoCompression, false, false, false, false⟩,
   ⟨false, false, false, .NoCompression, true, false, false, false⟩]

/-- A two-column database directory (one hash column, one btree column) with a log file. -/
def exampleDir : Dir Nat := Dir.ofList
  [(metadataName, .text (encodeMeta 8 (List.replicate 32 1) exampleCols)),
   (lockName, .text []),
   (t!"index_00_16", .data 10), (t!"table_00_00", .data 11),
   (t!"table_01_00", .data 12), (t!"table_01_01", .data 13),
   (t!"log0", .data 14)]

theorem exampleDir_meta : loadMetadataFile (exampleDir metadataName) =
    .ok (some ⟨List.replicate 32 1, 8, exampleCols⟩) := by
  have : exampleDir metadataName = some (.text (encodeMeta 8 (List.replicate 32 1) exampleCols)) :=
    rfl
  rw [this]
  simp only [loadMetadataFile]
  rw [decodeMeta_encodeMeta (by decide) (by decide) (by decide) (by decide)]

theorem example_precheck (salt : Option (List Nat)) :
    precheck id (some exampleDir) exampleCols salt =
      ⟨.ok (List.replicate 32 1, 8), some (ensureLock exampleDir)⟩ := by
  have h := precheck_ok (m := ⟨List.replicate 32 1, 8, exampleCols⟩) id exampleDir salt
    exampleDir_meta
  exact h

/-! ### administration calls -/

theorem writeMeta_of_ne {β : Type} (d : Dir β) (v : Nat) (s : List Nat) (cols : List ColumnOptions)
    {n : FileName} (h : n ≠ metadataName) : writeMeta d v s cols n = d n := by
  simp [writeMeta, Dir.write, h]

theorem writeMeta_self {β : Type} (d : Dir β) (v : Nat) (s : List Nat) (cols : List ColumnOptions) :
    writeMeta d v s cols metadataName = some (.text (encodeMeta v s cols)) := by
  simp [writeMeta, Dir.write]

theorem dropFiles_of_not {β : Type} (col : Nat) (d : Dir β) {n : FileName}
    (h : isColumnFile col n = false) : dropFiles col d n = d n := by
  simp [dropFiles, h]

theorem dropFiles_of {β : Type} (col : Nat) (d : Dir β) {n : FileName}
    (h : isColumnFile col n = true) : dropFiles col d n = none := by
  simp [dropFiles, h]

/-- The three calls that start with `precheck`: when the precheck fails they fail and
leave the directory as the failed open left it. -/
theorem admin_precheck_fail {β : Type} (replay : Dir β → Dir β) (fs : Option (Dir β))
    (requested : List ColumnOptions) (salt : Option (List Nat)) (op : AdminOp)
    (hop : ∀ c, op ≠ .clear c)
    {r : Outcome (List Nat × Nat)} {fs' : Option (Dir β)} (hr : ∀ s, r ≠ .ok s)
    (hp : precheck replay fs requested salt = ⟨r, fs'⟩) :
    (applyAdmin replay fs requested salt op).fs = fs' ∧
    (applyAdmin replay fs requested salt op).result ≠ .ok () := by
  cases op with
  | clear c => exact absurd rfl (hop c)
  | add new =>
    cases r with
    | ok s => exact absurd rfl (hr s)
    | err e => simp [applyAdmin, addColumn, hp]
    | panic => simp [applyAdmin, addColumn, hp]
  | dropLast =>
    cases r with
    | ok s => exact absurd rfl (hr s)
    | err e => simp [applyAdmin, dropLastColumn, hp]
    | panic => simp [applyAdmin, dropLastColumn, hp]
  | reset i o =>
    cases r with
    | ok s => exact absurd rfl (hr s)
    | err e => simp [applyAdmin, resetColumn, hp]
    | panic => simp [applyAdmin, resetColumn, hp]

theorem addColumn_ok {β : Type} (replay : Dir β → Dir β) (fs : Option (Dir β))
    (requested : List ColumnOptions) (salt : Option (List Nat)) (new : ColumnOptions)
    {s : List Nat} {v : Nat} {d : Dir β}
    (hp : precheck replay fs requested salt = ⟨.ok (s, v), some d⟩) :
    addColumn replay fs requested salt new =
      if requested.length > 255 then ⟨.err .invalidConfigTooManyColumns, some d⟩
      else ⟨.ok (), some (writeMeta d v s (requested ++ [new]))⟩ := by
  simp only [addColumn, hp]

theorem dropLastColumn_ok {β : Type} (replay : Dir β → Dir β) (fs : Option (Dir β))
    (requested : List ColumnOptions) (salt : Option (List Nat))
    {s : List Nat} {v : Nat} {d : Dir β}
    (hp : precheck replay fs requested salt = ⟨.ok (s, v), some d⟩) :
    dropLastColumn replay fs requested salt =
      if requested.length = 0 then ⟨.ok (), some d⟩
      else if requested.length > 256 then ⟨.err .invalidConfigTooManyColumns, some d⟩
      else ⟨.ok (), some (writeMeta (dropFiles (requested.length - 1) d) v s
        requested.dropLast)⟩ := by
  simp only [dropLastColumn, hp]

theorem resetColumn_ok {β : Type} (replay : Dir β → Dir β) (fs : Option (Dir β))
    (requested : List ColumnOptions) (salt : Option (List Nat)) (index : Nat)
    (newOptions : Option ColumnOptions)
    {s : List Nat} {v : Nat} {d : Dir β}
    (hp : precheck replay fs requested salt = ⟨.ok (s, v), some d⟩) :
    resetColumn replay fs requested salt index newOptions =
      if index ≥ requested.length then ⟨.err (.incompatibleColumnConfig index), some d⟩
      else match newOptions with
        | some o => ⟨.ok (), some (writeMeta (dropFiles index d) v s (requested.set index o))⟩
        | none => ⟨.ok (), some (dropFiles index d)⟩ := by
  simp only [resetColumn, hp]
  split
  · rfl
  · cases newOptions <;> rfl

/-- `clear_column` once the metadata is loaded and the index is in range: the outcome of its
open/close decides. -/
theorem clearColumn_loaded {β : Type} (replay : Dir β → Dir β) (d : Dir β) (column : Nat)
    {m : Metadata} (hm : loadMetadataFile (d metadataName) = .ok (some m))
    (hc : ¬ column ≥ m.columns.length) :
    (∃ x d', clearPrecheck replay (some d) m = ⟨.ok x, some d'⟩ ∧
      clearColumn replay (some d) column = ⟨.ok (), some (dropFiles column d')⟩ ∧
      clearBase replay (some d) column = some d') ∨
    ((clearColumn replay (some d) column).result ≠ .ok () ∧
      (clearColumn replay (some d) column).fs = clearBase replay (some d) column) ∨
    ((clearColumn replay (some d) column).fs = none ∧ clearBase replay (some d) column = none) := by
  simp only [clearColumn, clearBase, hm, hc, if_false]
  cases hp : clearPrecheck replay (some d) m with
  | mk r fs' =>
    cases r with
    | ok x =>
      cases fs' with
      | none => exact Or.inr (Or.inr ⟨rfl, rfl⟩)
      | some d' => exact Or.inl ⟨x, d', rfl, rfl, rfl⟩
    | err e => exact Or.inr (Or.inl ⟨by simp, rfl⟩)
    | panic => exact Or.inr (Or.inl ⟨by simp, rfl⟩)

/-- Frame: a name that is not the metadata file (or any name, if the call does not
rewrite the metadata) and is not matched by the deletion prefixes of the affected column
keeps its content. -/
theorem admin_frame {β : Type} (replay : Dir β → Dir β) (fs : Option (Dir β))
    (requested : List ColumnOptions) (salt : Option (List Nat)) (op : AdminOp) (n : FileName)
    (hmeta : n ≠ metadataName ∨ op.newColumns requested = none)
    (hcol : ∀ c, op.affected requested = some c → isColumnFile c n = false) :
    fsGet (applyAdmin replay fs requested salt op).fs n =
      fsGet (adminBase replay fs requested salt op) n := by
  by_cases hclear : ∃ c, op = .clear c
  · obtain ⟨c, rfl⟩ := hclear
    have hc := hcol c rfl
    simp only [applyAdmin, adminBase]
    cases fs with
    | none => rfl
    | some d =>
      cases hl : loadMetadataFile (d metadataName) with
      | err e => simp only [clearColumn, clearBase, hl]
      | panic => simp only [clearColumn, clearBase, hl]
      | ok om =>
        cases om with
        | none => simp only [clearColumn, clearBase, hl]
        | some m =>
          by_cases hrange : c ≥ m.columns.length
          · simp only [clearColumn, clearBase, hl, hrange, if_true]
          · rcases clearColumn_loaded replay d c hl hrange with
              ⟨x, d', _, h1, h2⟩ | ⟨_, h1⟩ | ⟨h1, h2⟩
            · rw [h1, h2]; simp only [fsGet, dropFiles_of_not c d' hc]
            · rw [h1]
            · rw [h1, h2]
  · have hop : ∀ c, op ≠ .clear c := fun c h => hclear ⟨c, h⟩
    have hbase : adminBase replay fs requested salt op = (precheck replay fs requested salt).fs := by
      cases op with
      | clear c => exact absurd rfl (hop c)
      | _ => rfl
    rw [hbase]
    rcases precheck_cases replay fs requested salt with
      ⟨_, hp⟩ | ⟨d, _, ⟨m, _, _, hp⟩ | ⟨r, fs', hr, hp⟩⟩
    · rw [(admin_precheck_fail replay fs requested salt op hop (fun s h => by cases h) hp).1, hp]
    · rw [hp]
      cases op with
      | clear c => exact absurd rfl (hop c)
      | add new =>
        simp only [applyAdmin, addColumn_ok replay fs requested salt new hp]
        split
        · rfl
        · rename_i h0
          have hn : n ≠ metadataName := by
            rcases hmeta with h | h
            · exact h
            · simp [AdminOp.newColumns, h0] at h
          simp only [fsGet, writeMeta_of_ne _ _ _ _ hn]
      | dropLast =>
        simp only [applyAdmin, dropLastColumn_ok replay fs requested salt hp]
        split
        · rfl
        · rename_i h0
          split
          · rfl
          · rename_i h1
            have hn : n ≠ metadataName := by
              rcases hmeta with h | h
              · exact h
              · simp [AdminOp.newColumns, h0, h1] at h
            have hc := hcol (requested.length - 1) (by simp [AdminOp.affected, h0, h1])
            simp only [fsGet, writeMeta_of_ne _ _ _ _ hn, dropFiles_of_not _ _ hc]
      | reset i o =>
        have hc := hcol i rfl
        simp only [applyAdmin, resetColumn_ok replay fs requested salt i o hp]
        split
        · rfl
        · cases o with
          | none => simp only [fsGet, dropFiles_of_not _ _ hc]
          | some o =>
            have hn : n ≠ metadataName := by
              rcases hmeta with h | h
              · exact h
              · simp [AdminOp.newColumns] at h
            simp only [fsGet, writeMeta_of_ne _ _ _ _ hn, dropFiles_of_not _ _ hc]
    · rw [(admin_precheck_fail replay fs requested salt op hop hr hp).1, hp]

/-- After a successful call no file matched by the deletion prefixes of the affected column
is left. -/
theorem admin_affected_empty {β : Type} (replay : Dir β → Dir β) (fs : Option (Dir β))
    (requested : List ColumnOptions) (salt : Option (List Nat)) (op : AdminOp)
    (hok : (applyAdmin replay fs requested salt op).result = .ok ())
    {c : Nat} (hc : op.affected requested = some c) {n : FileName}
    (hn : isColumnFile c n = true) :
    fsGet (applyAdmin replay fs requested salt op).fs n = none := by
  have hnm : n ≠ metadataName := by
    intro h; rw [h, isColumnFile_metadata] at hn; cases hn
  by_cases hclear : ∃ c', op = .clear c'
  · obtain ⟨c', rfl⟩ := hclear
    cases hc
    simp only [applyAdmin] at hok ⊢
    cases fs with
    | none => rfl
    | some d =>
      cases hl : loadMetadataFile (d metadataName) with
      | err e => simp [clearColumn, hl] at hok
      | panic => simp [clearColumn, hl] at hok
      | ok om =>
        cases om with
        | none => simp [clearColumn, hl] at hok
        | some m =>
          by_cases hrange : c ≥ m.columns.length
          · simp [clearColumn, hl, hrange] at hok
          · rcases clearColumn_loaded replay d c hl hrange with
              ⟨x, d', _, h1, _⟩ | ⟨h1, _⟩ | ⟨h1, _⟩
            · rw [h1]; simp only [fsGet, dropFiles_of _ _ hn]
            · exact absurd hok h1
            · rw [h1]; rfl
  · have hop : ∀ c, op ≠ .clear c := fun c h => hclear ⟨c, h⟩
    rcases precheck_cases replay fs requested salt with
      ⟨_, hp⟩ | ⟨d, _, ⟨m, _, _, hp⟩ | ⟨r, fs', hr, hp⟩⟩
    · exact absurd hok
        (admin_precheck_fail replay fs requested salt op hop (fun s h => by cases h) hp).2
    · cases op with
      | clear c => exact absurd rfl (hop c)
      | add new => cases hc
      | dropLast =>
        simp only [applyAdmin, dropLastColumn_ok replay fs requested salt hp] at hok ⊢
        split
        · rename_i h0; simp [AdminOp.affected, h0] at hc
        · rename_i h0
          split
          · rename_i h1; simp [AdminOp.affected, h1] at hc
          · rename_i h1
            have : c = requested.length - 1 := by
              simp [AdminOp.affected, h0, h1] at hc; exact hc.symm
            subst this
            simp only [fsGet, writeMeta_of_ne _ _ _ _ hnm, dropFiles_of _ _ hn]
      | reset i o =>
        have : c = i := by simp [AdminOp.affected] at hc; exact hc.symm
        subst this
        simp only [applyAdmin, resetColumn_ok replay fs requested salt c o hp] at hok ⊢
        split
        · rename_i h; simp [h] at hok
        · cases o with
          | none => simp only [fsGet, dropFiles_of _ _ hn]
          | some o => simp only [fsGet, writeMeta_of_ne _ _ _ _ hnm, dropFiles_of _ _ hn]
    · exact absurd hok (admin_precheck_fail replay fs requested salt op hop hr hp).2

/-- After a successful call that rewrites the metadata, the metadata file holds the new
column list together with the STORED salt and the STORED format version. -/
theorem admin_metadata {β : Type} (replay : Dir β → Dir β) (fs : Option (Dir β))
    (requested : List ColumnOptions) (salt : Option (List Nat)) (op : AdminOp)
    (hok : (applyAdmin replay fs requested salt op).result = .ok ())
    {cols : List ColumnOptions} (hcols : op.newColumns requested = some cols) :
    ∃ d m, fs = some d ∧ loadMetadataFile (d metadataName) = .ok (some m) ∧
      m.columns = requested ∧
      fsGet (applyAdmin replay fs requested salt op).fs metadataName =
        some (.text (encodeMeta m.version m.salt cols)) := by
  have hop : ∀ c, op ≠ .clear c := by
    intro c h; subst h; simp [AdminOp.newColumns] at hcols
  rcases precheck_cases replay fs requested salt with
    ⟨_, hp⟩ | ⟨d, hfs, ⟨m, hm, hmc, hp⟩ | ⟨r, fs', hr, hp⟩⟩
  · exact absurd hok
      (admin_precheck_fail replay fs requested salt op hop (fun s h => by cases h) hp).2
  · refine ⟨d, m, hfs, hm, hmc, ?_⟩
    cases op with
    | clear c => exact absurd rfl (hop c)
    | add new =>
      simp only [applyAdmin, addColumn_ok replay fs requested salt new hp] at hok ⊢
      split
      · rename_i h0; simp [h0] at hok
      · rename_i h0
        simp only [AdminOp.newColumns, h0, if_false, Option.some.injEq] at hcols
        subst hcols
        simp only [fsGet, writeMeta_self]
    | dropLast =>
      simp only [applyAdmin, dropLastColumn_ok replay fs requested salt hp] at hok ⊢
      split
      · rename_i h0; simp [AdminOp.newColumns, h0] at hcols
      · rename_i h0
        split
        · rename_i h1; simp [AdminOp.newColumns, h1] at hcols
        · rename_i h1
          simp only [AdminOp.newColumns, h0, h1, or_self, if_false, Option.some.injEq] at hcols
          subst hcols
          simp only [fsGet, writeMeta_self]
    | reset i o =>
      simp only [applyAdmin, resetColumn_ok replay fs requested salt i o hp] at hok ⊢
      split
      · rename_i h; simp [h] at hok
      · cases o with
        | none => simp [AdminOp.newColumns] at hcols
        | some o =>
          simp only [AdminOp.newColumns, Option.some.injEq] at hcols
          subst hcols
          simp only [fsGet, writeMeta_self]
  · exact absurd hok (admin_precheck_fail replay fs requested salt op hop hr hp).2

theorem loadMetadataFile_decode {β : Type} {c : Option (Content β)} {m : Metadata}
    (h : loadMetadataFile c = .ok (some m)) : ∃ t, decodeMeta t = .ok m := by
  unfold loadMetadataFile at h
  split at h
  · cases h
  · cases h
  · rename_i t
    cases hd : decodeMeta t with
    | ok m' =>
      rw [hd] at h
      cases h
      exact ⟨t, hd⟩
    | err e => rw [hd] at h; cases h
    | panic => rw [hd] at h; cases h

theorem loadMetadataFile_salt {β : Type} {c : Option (Content β)} {m : Metadata}
    (h : loadMetadataFile c = .ok (some m)) : m.salt.length = 32 ∧ ∀ b ∈ m.salt, b < 256 := by
  obtain ⟨t, ht⟩ := loadMetadataFile_decode h
  exact decodeMeta_salt ht

theorem loadMetadataFile_version {β : Type} {c : Option (Content β)} {m : Metadata}
    (h : loadMetadataFile c = .ok (some m)) :
    Pdb.Gen.LAST_SUPPORTED_VERSION ≤ m.version ∧ m.version ≤ u32Max := by
  obtain ⟨t, ht⟩ := loadMetadataFile_decode h
  exact ⟨decodeMeta_version ht, decodeMeta_version_le ht⟩

end Pdb.C17
