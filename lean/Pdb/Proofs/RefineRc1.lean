/-
R5, part 1: `ValueTable.changeRef` (`ValueTable::change_ref`) at the byte level.

On the head slot of a live value of a ref-counted table, `change_ref` rewrites the four counter
bytes and nothing else: the marker / size field, the link, the key tail and the payload are
untouched, so the keyed read returns the same value with the new counter, every other chain reads
as before, and the structural invariant of C06 (`SlotInv`) and the representation relation of R2
(`RepL`) are preserved with the SAME abstract store.
-/
import Pdb.Proofs.Refine4

namespace Pdb.RefineRc
open Pdb.Gen Pdb.Index Pdb.ValueTable Pdb.Refine

/-! ## lists -/

/-- `b` with the four bytes at `off` replaced by `B`, cut at `size` (the `buf[0..size]` of
`change_ref`) -/
def pokeAt (b : Bytes) (off size : Nat) (B : Bytes) : Bytes :=
  (b.take off ++ B ++ b.drop (off + REFS_SIZE)).take size

theorem abc_take (A B C : Bytes) (size m : Nat) (hm : m ≤ A.length) (hs : A.length ≤ size) :
    ((A ++ B ++ C).take size).take m = A.take m := by
  rw [List.take_take, Nat.min_eq_left (by omega), List.append_assoc,
    List.take_append_of_le_length hm]

theorem abc_mid (A B C : Bytes) (size : Nat) (hs : A.length + B.length ≤ size) :
    (((A ++ B ++ C).take size).drop A.length).take B.length = B := by
  rw [List.drop_take, List.take_take, Nat.min_eq_left (by omega), List.append_assoc,
    List.drop_left, List.take_left]

theorem abc_after (A B C : Bytes) (size m n : Nat) (hn : A.length + B.length + m + n ≤ size) :
    (((A ++ B ++ C).take size).drop (A.length + B.length + m)).take n = (C.drop m).take n := by
  rw [List.drop_take, List.take_take, Nat.min_eq_left (by omega)]
  have e : A.length + B.length + m = (A ++ B).length + m := by rw [List.length_append]
  rw [e, List.drop_append, List.drop_of_length_le (by omega), List.nil_append,
    Nat.add_sub_cancel_left]

theorem pokeAt_take (b : Bytes) (off size m : Nat) (B : Bytes) (hb : off ≤ b.length)
    (hm : m ≤ off) (hs : off ≤ size) : (pokeAt b off size B).take m = b.take m := by
  unfold pokeAt
  have hl : (b.take off).length = off := by rw [List.length_take]; omega
  rw [abc_take _ _ _ _ _ (by omega) (by omega), List.take_take, Nat.min_eq_left hm]

theorem pokeAt_rc (b : Bytes) (off size : Nat) (B : Bytes) (hb : off ≤ b.length)
    (hB : B.length = REFS_SIZE) (hs : off + REFS_SIZE ≤ size) :
    ((pokeAt b off size B).drop off).take REFS_SIZE = B := by
  unfold pokeAt
  have hl : (b.take off).length = off := by rw [List.length_take]; omega
  have := abc_mid (b.take off) B (b.drop (off + REFS_SIZE)) size (by omega)
  rw [hl, hB] at this
  exact this

theorem pokeAt_after (b : Bytes) (off size m n : Nat) (B : Bytes) (hb : off + REFS_SIZE ≤ b.length)
    (hB : B.length = REFS_SIZE) (hm : off + REFS_SIZE ≤ m) (hn : m + n ≤ size) :
    ((pokeAt b off size B).drop m).take n = (b.drop m).take n := by
  unfold pokeAt
  have hl : (b.take off).length = off := by rw [List.length_take]; omega
  have := abc_after (b.take off) B (b.drop (off + REFS_SIZE)) size (m - (off + REFS_SIZE)) n
    (by omega)
  rw [hl, hB, List.drop_drop] at this
  have e1 : off + REFS_SIZE + (m - (off + REFS_SIZE)) = m := by omega
  rw [e1] at this
  exact this

/-! ## the head slot of a live value -/

/-- what a successful keyed read says about the bytes of the head slot -/
structure HeadFacts (t : VT) (i : Nat) (tl v : Bytes) (c : Bool) (n : Nat) : Prop where
  notTomb : ¬ isTombstone (t.slots i)
  head : t.multipart = true → isMultiHead (t.slots i)
  /-- the key tail is stored behind the counter -/
  tail : (((t.slots i).drop (keyOff t i)).take PARTIAL_SIZE) = tl
  /-- the entry is long enough for counter and key -/
  fits : keyOff t i + PARTIAL_SIZE ≤
    (if (decide (t.multipart = true ∧ isMulti (t.slots i)) : Bool) then t.entrySize
      else SIZE_SIZE + (readSize (t.slots i)).1)
  pos : 0 < n

/-- offset of the counter in slot `i` -/
def rcOff (t : VT) (i : Nat) : Nat :=
  if (decide (t.multipart = true ∧ isMulti (t.slots i)) : Bool) then SIZE_SIZE + INDEX_SIZE
  else SIZE_SIZE

/-- `size` of `change_ref`: the bytes of the entry that are logged -/
def entEnd (t : VT) (i : Nat) : Nat :=
  if (decide (t.multipart = true ∧ isMulti (t.slots i)) : Bool) then t.entrySize
  else SIZE_SIZE + (readSize (t.slots i)).1

theorem keyOff_eq (t : VT) (i : Nat) : keyOff t i = rcOff t i + refSize t := rfl

/-- the stored counter of slot `i` -/
def rcAt (t : VT) (i : Nat) : Nat := fromLe (((t.slots i).drop (rcOff t i)).take REFS_SIZE)

/-- the counter after `change_ref(+1)` / `change_ref(-1)` -/
def newCount (inc : Bool) (n : Nat) : Nat :=
  if inc then (if LOCKED_REF - 1 ≤ n then LOCKED_REF else n + 1)
  else if n ≠ LOCKED_REF then n - 1 else n

/-- `change_ref` says "the entry has to go" -/
def goes (inc : Bool) (n : Nat) : Prop := ¬ inc ∧ n ≠ LOCKED_REF ∧ newCount inc n = 0

instance (inc : Bool) (n : Nat) : Decidable (goes inc n) := by unfold goes; infer_instance

/-- `changeRef` unfolded on a slot that is not a tombstone -/
theorem changeRef_eq (t : VT) (i : Nat) (inc : Bool) (h : ¬ isTombstone (t.slots i)) :
    changeRef t i inc =
      if goes inc (rcAt t i) then (t, false)
      else (t.setSlot i (pokeAt (t.slots i) (rcOff t i) (entEnd t i)
        (leBytes REFS_SIZE (newCount inc (rcAt t i)))), true) := by
  unfold changeRef
  simp only [if_neg h]
  rfl

/-- the pieces `readChain` looks at -/
theorem readChain_eq (t : VT) (key : TKey) (i : Nat) :
    readChain t key i =
      if isTombstone (t.slots i) then .ok none
      else if t.multipart = true ∧ ¬ isMultiHead (t.slots i) then .ok none
      else if ¬ keyMatches key (t.slots i) (keyOff t i) then .ok none
      else if entEnd t i < keyOff t i + key.encodedSize then .error .corruption
      else
        if (if (decide (t.multipart = true ∧ isMulti (t.slots i)) : Bool) then linkOf (t.slots i) else 0) = 0 then
          .ok (if 0 < (if t.refCounted then rcAt t i else 1) then
            some (((t.slots i).drop (keyOff t i + key.encodedSize)).take
              (entEnd t i - (keyOff t i + key.encodedSize)),
              (if (decide (t.multipart = true ∧ isMulti (t.slots i)) : Bool) then
                decide (isMultiHeadCompressed (t.slots i)) else (readSize (t.slots i)).2),
              (if t.refCounted then rcAt t i else 1)) else none)
        else
          match readRest t t.filled
            (if (decide (t.multipart = true ∧ isMulti (t.slots i)) : Bool) then linkOf (t.slots i) else 0) with
          | .ok (some r) => .ok (if 0 < (if t.refCounted then rcAt t i else 1) then
              some (((t.slots i).drop (keyOff t i + key.encodedSize)).take
                (entEnd t i - (keyOff t i + key.encodedSize)) ++ r,
                (if (decide (t.multipart = true ∧ isMulti (t.slots i)) : Bool) then
                  decide (isMultiHeadCompressed (t.slots i)) else (readSize (t.slots i)).2),
                (if t.refCounted then rcAt t i else 1)) else none)
          | .ok none => .ok none
          | .error e => .error e := rfl

/-! ## slots that agree on the first `SIZE_SIZE` bytes -/

theorem hdr_tomb (b b' : Bytes) (h : b'.take SIZE_SIZE = b.take SIZE_SIZE) :
    isTombstone b' ↔ isTombstone b := by unfold isTombstone; rw [h]

theorem hdr_multi (b b' : Bytes) (h : b'.take SIZE_SIZE = b.take SIZE_SIZE) :
    isMulti b' ↔ isMulti b := by
  unfold isMulti isMultipart isMultiHead isMultiHeadCompressed; rw [h]

theorem hdr_head (b b' : Bytes) (h : b'.take SIZE_SIZE = b.take SIZE_SIZE) :
    isMultiHead b' ↔ isMultiHead b := by
  unfold isMultiHead isMultiHeadCompressed; rw [h]

theorem hdr_headc (b b' : Bytes) (h : b'.take SIZE_SIZE = b.take SIZE_SIZE) :
    isMultiHeadCompressed b' ↔ isMultiHeadCompressed b := by
  unfold isMultiHeadCompressed; rw [h]

theorem hdr_size (b b' : Bytes) (h : b'.take SIZE_SIZE = b.take SIZE_SIZE) :
    readSize b' = readSize b := by unfold readSize; rw [h]

theorem link_of_take (b b' : Bytes)
    (h : b'.take (SIZE_SIZE + INDEX_SIZE) = b.take (SIZE_SIZE + INDEX_SIZE)) :
    linkOf b' = linkOf b := by
  unfold linkOf
  have e : ∀ l : Bytes, (l.drop SIZE_SIZE).take INDEX_SIZE = (l.take (SIZE_SIZE + INDEX_SIZE)).drop SIZE_SIZE := by
    intro l; rw [List.drop_take]; rfl
  rw [e, e, h]

/-- the last stage of `readChain`: the counter is returned as stored, and it is positive -/
theorem tailShape (nx : Nat) (X : Except RdErr (Option Bytes)) (P : Bytes) (C : Bool) (R : Nat)
    (v : Bytes) (c : Bool) (n : Nat) (rcd : Bool)
    (h : (if nx = 0 then
        (.ok (if 0 < (if rcd then R else 1) then some (P, C, (if rcd then R else 1)) else none) :
          Except RdErr (Option (Bytes × Bool × Nat)))
      else
        match X with
        | .ok (some r) => .ok (if 0 < (if rcd then R else 1) then
            some (P ++ r, C, (if rcd then R else 1)) else none)
        | .ok none => .ok none
        | .error e => .error e) = .ok (some (v, c, n))) :
    n = (if rcd then R else 1) ∧ 0 < n := by
  by_cases hpos : 0 < (if rcd then R else 1)
  · simp only [hpos, if_true] at h
    by_cases h0 : nx = 0
    · rw [if_pos h0] at h
      injection h with h; injection h with h; injection h with _ h; injection h with _ h
      rw [← h]; exact ⟨rfl, hpos⟩
    · rw [if_neg h0] at h
      cases X with
      | error e => cases h
      | ok o =>
        cases o with
        | none => simp only at h; injection h with h; cases h
        | some r =>
          simp only at h
          injection h with h; injection h with h; injection h with _ h; injection h with _ h
          rw [← h]; exact ⟨rfl, hpos⟩
  · exfalso
    simp only [hpos, if_false] at h
    by_cases h0 : nx = 0
    · rw [if_pos h0] at h; injection h with h; cases h
    · rw [if_neg h0] at h
      cases X with
      | error e => cases h
      | ok o =>
        cases o with
        | none => simp only at h; injection h with h; cases h
        | some r => simp only at h; injection h with h; cases h

/-- facts about the head slot of a live value, read off a successful keyed read -/
theorem head_facts (t : VT) (tl : Bytes) (i : Nat) (v : Bytes) (c : Bool) (n : Nat)
    (htl : tl.length = PARTIAL_SIZE) (hrc : t.refCounted = true)
    (h : readChain t (.partialKey tl) i = .ok (some (v, c, n))) :
    ¬ isTombstone (t.slots i) ∧ (t.multipart = true → isMultiHead (t.slots i)) ∧
    ((t.slots i).drop (keyOff t i)).take PARTIAL_SIZE = tl ∧
    keyOff t i + PARTIAL_SIZE ≤ entEnd t i ∧ keyOff t i + PARTIAL_SIZE ≤ (t.slots i).length ∧
    n = rcAt t i ∧ 0 < n := by
  rw [readChain_eq] at h
  by_cases h1 : isTombstone (t.slots i)
  · rw [if_pos h1] at h; cases h
  rw [if_neg h1] at h
  by_cases h2 : t.multipart = true ∧ ¬ isMultiHead (t.slots i)
  · rw [if_pos h2] at h; cases h
  rw [if_neg h2] at h
  by_cases h3 : ¬ keyMatches (.partialKey tl) (t.slots i) (keyOff t i)
  · rw [if_pos h3] at h; cases h
  rw [if_neg h3] at h
  have h3' := Decidable.not_not.mp h3
  have htail : ((t.slots i).drop (keyOff t i)).take PARTIAL_SIZE = tl := by
    rcases h3' with e | e
    · cases e
    · injection e with e; exact e.symm
  by_cases h4 : entEnd t i < keyOff t i + (TKey.partialKey tl).encodedSize
  · rw [if_pos h4] at h; cases h
  rw [if_neg h4] at h
  have hlen : keyOff t i + PARTIAL_SIZE ≤ (t.slots i).length := by
    have := congrArg List.length htail
    rw [List.length_take, List.length_drop, htl] at this
    have := Nat.min_le_right PARTIAL_SIZE ((t.slots i).length - keyOff t i)
    have h26 : PARTIAL_SIZE = 26 := rfl
    omega
  have hend : keyOff t i + PARTIAL_SIZE ≤ entEnd t i := by
    simp only [TKey.encodedSize] at h4; omega
  refine ⟨h1, fun hm => Classical.byContradiction (fun hn => h2 ⟨hm, hn⟩), htail, hend, hlen, ?_⟩
  have := tailShape _ _ _ _ _ _ _ _ _ h
  rw [hrc] at this
  exact this

/-! ## a slot rewritten outside marker, link, key and payload -/

/-- the keyed read of slot `i` in a table that differs from `t` only in the counter bytes of
slot `i`: same value, same flag, the new counter -/
theorem readChain_bump (t t' : VT) (key : TKey) (i : Nat) (hcfg : SameCfg t t')
    (hfill : t'.filled = t.filled)
    (htake : (t'.slots i).take SIZE_SIZE = (t.slots i).take SIZE_SIZE)
    (hlink : t.multipart = true ∧ isMulti (t.slots i) → linkOf (t'.slots i) = linkOf (t.slots i))
    (hkeyb : ((t'.slots i).drop (keyOff t i)).take PARTIAL_SIZE =
      ((t.slots i).drop (keyOff t i)).take PARTIAL_SIZE)
    (hpay : ∀ m, keyOff t i ≤ m →
      ((t'.slots i).drop m).take (entEnd t i - m) = ((t.slots i).drop m).take (entEnd t i - m))
    (hrest : t.multipart = true ∧ isMulti (t.slots i) → linkOf (t.slots i) ≠ 0 →
      readRest t' t.filled (linkOf (t.slots i)) = readRest t t.filled (linkOf (t.slots i)))
    (hrc : t.refCounted = true) (c' : Nat) (hc : rcAt t' i = c') (hpos : 0 < c')
    (v : Bytes) (c : Bool) (n : Nat) (h : readChain t key i = .ok (some (v, c, n))) :
    readChain t' key i = .ok (some (v, c, c')) := by
  have e_tomb : isTombstone (t'.slots i) = isTombstone (t.slots i) := propext (hdr_tomb _ _ htake)
  have e_head : isMultiHead (t'.slots i) = isMultiHead (t.slots i) := propext (hdr_head _ _ htake)
  have e_multi : isMulti (t'.slots i) = isMulti (t.slots i) := propext (hdr_multi _ _ htake)
  have e_headc : isMultiHeadCompressed (t'.slots i) = isMultiHeadCompressed (t.slots i) :=
    propext (hdr_headc _ _ htake)
  have e_size : readSize (t'.slots i) = readSize (t.slots i) := hdr_size _ _ htake
  have e_dec : (decide (t'.multipart = true ∧ isMulti (t'.slots i)) : Bool) =
      decide (t.multipart = true ∧ isMulti (t.slots i)) := by
    simp only [hcfg.2.1, e_multi]
  have e_keyOff : keyOff t' i = keyOff t i := by
    unfold keyOff; rw [e_dec, hcfg.refSize_eq]
  have e_entEnd : entEnd t' i = entEnd t i := by
    unfold entEnd; rw [e_dec, e_size, hcfg.1]
  have e_km : keyMatches key (t'.slots i) (keyOff t i) = keyMatches key (t.slots i) (keyOff t i) := by
    unfold keyMatches; rw [hkeyb]
  have hrc' : t'.refCounted = true := by rw [hcfg.2.2]; exact hrc
  rw [readChain_eq] at h ⊢
  simp only [e_tomb, hcfg.2.1, e_head, e_keyOff, e_km, e_entEnd, e_headc, e_size, hfill, hc, hrc']
  simp only [hrc] at h
  by_cases h1 : isTombstone (t.slots i)
  · rw [if_pos h1] at h; cases h
  rw [if_neg h1] at h ⊢
  by_cases h2 : t.multipart = true ∧ ¬ isMultiHead (t.slots i)
  · rw [if_pos h2] at h; cases h
  rw [if_neg h2] at h ⊢
  by_cases h3 : ¬ keyMatches key (t.slots i) (keyOff t i)
  · rw [if_pos h3] at h; cases h
  rw [if_neg h3] at h ⊢
  by_cases h4 : entEnd t i < keyOff t i + key.encodedSize
  · rw [if_pos h4] at h; cases h
  rw [if_neg h4] at h ⊢
  rw [hpay _ (Nat.le_add_right _ _)]
  simp only [if_true, hpos] at h ⊢
  by_cases hm : t.multipart = true ∧ isMulti (t.slots i)
  · have hd : (decide (t.multipart = true ∧ isMulti (t.slots i)) : Bool) = true := decide_eq_true hm
    have hd' : (decide (t.multipart = true ∧ isMulti (t'.slots i)) : Bool) = true :=
      decide_eq_true (by rw [e_multi]; exact hm)
    simp only [hd, hd', if_true, hlink hm] at h ⊢
    by_cases h0 : linkOf (t.slots i) = 0
    · rw [if_pos h0] at h ⊢
      have hp : 0 < rcAt t i := by
        apply Classical.byContradiction; intro hn
        rw [if_neg hn] at h; injection h with h; cases h
      rw [if_pos hp] at h
      injection h with h; injection h with h; injection h with h5 h; injection h with h6 _
      rw [h5, h6]
    · rw [if_neg h0] at h ⊢
      rw [hrest hm h0]
      cases hx : readRest t t.filled (linkOf (t.slots i)) with
      | error e => rw [hx] at h; cases h
      | ok o =>
        rw [hx] at h
        cases o with
        | none => simp only at h; injection h with h; cases h
        | some r =>
          simp only at h ⊢
          have hp : 0 < rcAt t i := by
            apply Classical.byContradiction; intro hn
            rw [if_neg hn] at h; injection h with h; cases h
          rw [if_pos hp] at h
          injection h with h; injection h with h; injection h with h5 h; injection h with h6 _
          rw [h5, h6]
  · have hd : (decide (t.multipart = true ∧ isMulti (t.slots i)) : Bool) = false := decide_eq_false hm
    have hd' : (decide (t.multipart = true ∧ isMulti (t'.slots i)) : Bool) = false :=
      decide_eq_false (by rw [e_multi]; exact hm)
    simp only [hd, hd', Bool.false_eq_true, if_false, if_true] at h ⊢
    have hp : 0 < rcAt t i := by
      apply Classical.byContradiction; intro hn
      rw [if_neg hn] at h; injection h with h; cases h
    rw [if_pos hp] at h
    injection h with h; injection h with h; injection h with h5 h; injection h with h6 _
    rw [h5, h6]

/-! ## `change_ref` on the head of a live chain -/

/-- the table after `change_ref` rewrote the counter of slot `i` to `c'` -/
def bumped (t : VT) (i c' : Nat) : VT :=
  t.setSlot i (pokeAt (t.slots i) (rcOff t i) (entEnd t i) (leBytes REFS_SIZE c'))

theorem bumped_slot (t : VT) (i c' : Nat) :
    (bumped t i c').slots i = pokeAt (t.slots i) (rcOff t i) (entEnd t i) (leBytes REFS_SIZE c') := by
  simp [bumped, VT.setSlot]

theorem bumped_ne (t : VT) (i c' j : Nat) (h : j ≠ i) : (bumped t i c').slots j = t.slots j :=
  setSlot_ne t i j _ h

theorem bumped_cfg (t : VT) (i c' : Nat) : SameCfg t (bumped t i c') := ⟨rfl, rfl, rfl⟩

theorem rcOff_ge (t : VT) (i : Nat) : SIZE_SIZE ≤ rcOff t i := by
  unfold rcOff; split <;> simp [SIZE_SIZE, INDEX_SIZE]

theorem leBytes_length (n x : Nat) : (leBytes n x).length = n := by
  induction n generalizing x with
  | zero => rfl
  | succ n ih => simp [leBytes, ih]

theorem IsChain_of_nextPart (t t' : VT) : ∀ (c : List Nat),
    (∀ x ∈ c, nextPart t' x = nextPart t x) → IsChain t c → IsChain t' c := by
  intro c
  induction c with
  | nil => intro _ h; exact h
  | cons a r ih =>
    intro hn h
    cases r with
    | nil => simp only [IsChain] at h ⊢; rw [hn a (by simp)]; exact h
    | cons b r' =>
      simp only [IsChain] at h ⊢
      exact ⟨by rw [hn a (by simp)]; exact h.1, ih (fun x hx => hn x (List.mem_cons_of_mem _ hx)) h.2⟩

/-- the bytes of slot `i` that `change_ref` leaves alone -/
structure BumpOk (t : VT) (i : Nat) : Prop where
  rc : t.refCounted = true
  len : keyOff t i + PARTIAL_SIZE ≤ (t.slots i).length
  fits : keyOff t i + PARTIAL_SIZE ≤ entEnd t i

theorem keyOff_rc (t : VT) (i : Nat) (h : t.refCounted = true) : keyOff t i = rcOff t i + REFS_SIZE := by
  rw [keyOff_eq]; unfold refSize; rw [if_pos h]

theorem bumped_take (t : VT) (i c' : Nat) (h : BumpOk t i) :
    ((bumped t i c').slots i).take SIZE_SIZE = (t.slots i).take SIZE_SIZE := by
  have hk := keyOff_rc t i h.rc
  have h1 := h.len
  have h2 := h.fits
  rw [bumped_slot]
  exact pokeAt_take _ _ _ _ _ (by omega) (rcOff_ge t i) (by omega)

theorem bumped_dec (t : VT) (i c' : Nat) (h : BumpOk t i) :
    (decide ((bumped t i c').multipart = true ∧ isMulti ((bumped t i c').slots i)) : Bool) =
      decide (t.multipart = true ∧ isMulti (t.slots i)) := by
  have e : isMulti ((bumped t i c').slots i) = isMulti (t.slots i) :=
    propext (hdr_multi _ _ (bumped_take t i c' h))
  have e2 : (bumped t i c').multipart = t.multipart := rfl
  simp only [e, e2]

theorem bumped_rcOff (t : VT) (i c' : Nat) (h : BumpOk t i) :
    rcOff (bumped t i c') i = rcOff t i := by
  unfold rcOff; rw [bumped_dec t i c' h]

theorem bumped_rcAt (t : VT) (i c' : Nat) (h : BumpOk t i) (hc : c' < 256 ^ REFS_SIZE) :
    rcAt (bumped t i c') i = c' := by
  have hk := keyOff_rc t i h.rc
  have h1 := h.len
  have h2 := h.fits
  unfold rcAt
  rw [bumped_rcOff t i c' h, bumped_slot,
    pokeAt_rc _ _ _ _ (by omega) (leBytes_length _ _) (by omega)]
  exact fromLe_leBytes _ _ hc

theorem bumped_link (t : VT) (i c' : Nat) (h : BumpOk t i)
    (hm : t.multipart = true ∧ isMulti (t.slots i)) :
    linkOf ((bumped t i c').slots i) = linkOf (t.slots i) := by
  have hk := keyOff_rc t i h.rc
  have h1 := h.len
  have h2 := h.fits
  have hoff : rcOff t i = SIZE_SIZE + INDEX_SIZE := by
    unfold rcOff; rw [decide_eq_true hm]; rfl
  apply link_of_take
  rw [bumped_slot]
  exact pokeAt_take _ _ _ _ _ (by omega) (by omega) (by omega)

theorem bumped_after (t : VT) (i c' m n : Nat) (h : BumpOk t i) (hm : keyOff t i ≤ m)
    (hn : m + n ≤ entEnd t i) :
    (((bumped t i c').slots i).drop m).take n = ((t.slots i).drop m).take n := by
  have hk := keyOff_rc t i h.rc
  have h1 := h.len
  rw [bumped_slot]
  exact pokeAt_after _ _ _ _ _ _ (by omega) (leBytes_length _ _) (by omega) hn

/-- `change_ref` on the head of a live chain: configuration, fill mark and free-list head are
untouched, the structural invariant holds with the same witnesses, the keyed read of the chain
returns the same value with the new counter, every other chain reads as before. -/
theorem bumped_spec (t : VT) (i c' : Nat) (F : List Nat) (L : List (List Nat)) (c0 : List Nat)
    (hinv : ValueTable.SlotInv t F L) (hc0 : c0 ∈ L) (hhd : c0.headD 0 = i) (h : BumpOk t i)
    (hc : c' < 256 ^ REFS_SIZE) (hpos : 0 < c') :
    ValueTable.SlotInv (bumped t i c') F L ∧
    (∀ key v c n, readChain t key i = .ok (some (v, c, n)) →
      readChain (bumped t i c') key i = .ok (some (v, c, c'))) ∧
    (∀ c ∈ L, c ≠ c0 → ∀ key', readChain (bumped t i c') key' (c.headD 0) =
      readChain t key' (c.headD 0)) ∧
    storedTail (bumped t i c') i = storedTail t i ∧
    (∀ c ∈ L, ∀ j ∈ c.tail, (bumped t i c').slots j = t.slots j) := by
  have hcfg := bumped_cfg t i c'
  have hne0 : c0 ≠ [] := IsChain_ne_nil t c0 (hinv.chains c0 hc0)
  obtain ⟨rest, hc0e⟩ : ∃ rest, c0 = i :: rest := by
    cases c0 with
    | nil => exact absurd rfl hne0
    | cons a r => simp only [List.headD_cons] at hhd; exact ⟨r, by rw [hhd]⟩
  subst hc0e
  have hinvP : ValueTable.SlotInv t F ((i :: rest) :: L.erase (i :: rest)) :=
    SlotInv_perm t _ _ _ (List.perm_cons_erase hc0) hinv
  have hnd := hinvP.nodup
  rw [List.flatten_cons] at hnd
  have hndF := (List.nodup_append.mp hnd)
  have hiF : i ∉ F := fun hm => hndF.2.2 i hm i (by simp) rfl
  have hndc := hndF.2.1
  have hirest : i ∉ rest := by
    have := (List.nodup_append.mp hndc).1
    exact (List.nodup_cons.mp this).1
  have hiothers : ∀ c ∈ L, c ≠ (i :: rest) → i ∉ c := by
    intro c hcL hne hm
    have hce : c ∈ L.erase (i :: rest) := (List.mem_erase_of_ne hne).mpr hcL
    exact (List.nodup_append.mp hndc).2.2 i (by simp) i (List.mem_flatten.mpr ⟨c, hce, hm⟩) rfl
  have hnp : ∀ x, nextPart (bumped t i c') x = nextPart t x := by
    intro x
    by_cases e : x = i
    · subst e
      unfold nextPart
      have e1 : isMulti ((bumped t x c').slots x) = isMulti (t.slots x) :=
        propext (hdr_multi _ _ (bumped_take t x c' h))
      have e2 : (bumped t x c').multipart = t.multipart := rfl
      by_cases hm : t.multipart = true ∧ isMulti (t.slots x)
      · rw [if_pos hm, if_pos (by rw [e1, e2]; exact hm), bumped_link t x c' h hm]
      · rw [if_neg hm, if_neg (by rw [e1, e2]; exact hm)]
    · exact nextPart_congr t _ x (bumped_ne t i c' x e) rfl
  have hcount := hinv.count
  refine ⟨⟨?_, hinv.nodup, hinv.range, hinv.count, ?_⟩, ?_, ?_, ?_, ?_⟩
  · exact FreeChain_congr t _ F (fun x hx => bumped_ne t i c' x (fun e => hiF (e ▸ hx)))
      (Nat.le_refl _) _ hinv.free
  · intro c hc'
    exact IsChain_of_nextPart t _ c (fun x _ => hnp x) (hinv.chains c hc')
  · intro key v c n hr
    have hk := keyOff_rc t i h.rc
    refine readChain_bump t (bumped t i c') key i hcfg rfl (bumped_take t i c' h)
      (bumped_link t i c' h) ?_ ?_ ?_ h.rc c' (bumped_rcAt t i c' h hc) hpos v c n hr
    · exact bumped_after t i c' _ _ h (Nat.le_refl _) h.fits
    · intro m hm
      by_cases hle : m ≤ entEnd t i
      · exact bumped_after t i c' _ _ h hm (by omega)
      · have : entEnd t i - m = 0 := by omega
        rw [this]; simp
    · intro hm h0
      have hchain : IsChain t (i :: rest) := hinv.chains _ hc0
      cases rest with
      | nil =>
        simp only [IsChain, nextPart] at hchain
        rw [if_pos hm] at hchain; cases hchain
      | cons r0 rs =>
        simp only [IsChain, nextPart] at hchain
        rw [if_pos hm] at hchain
        obtain ⟨hl, hch⟩ := hchain
        injection hl with hl
        have hlen : (r0 :: rs).length ≤ t.filled := by
          have := length_le_flatten L _ hc0
          simp only [List.length_cons] at this ⊢
          omega
        have := readRest_congr t (bumped t i c') hcfg (r0 :: rs) t.filled t.filled hch
          (fun x hx => bumped_ne t i c' x (fun e => hirest (e ▸ hx))) hlen hlen
        simp only [List.headD_cons] at this
        rw [hl]; exact this
  · intro c hcL hne key'
    have hl := length_le_flatten L c hcL
    exact readChain_congr t _ hcfg key' c (hinv.chains c hcL)
      (fun x hx => bumped_ne t i c' x (fun e => hiothers c hcL hne (e ▸ hx))) (by omega)
      (by show c.length ≤ t.filled; omega)
  · have hk := keyOff_rc t i h.rc
    unfold storedTail
    have e : keyOff (bumped t i c') i = keyOff t i := by
      unfold keyOff; rw [bumped_dec t i c' h, hcfg.refSize_eq]
    rw [e]
    exact bumped_after t i c' _ _ h (Nat.le_refl _) h.fits
  · intro c hcL j hj
    apply bumped_ne
    intro e
    rw [e] at hj
    by_cases hce : c = (i :: rest)
    · rw [hce] at hj
      simp only [List.tail_cons] at hj
      exact hirest hj
    · exact hiothers c hcL hce (List.mem_of_mem_tail hj)

/-! ## the representation relation survives `change_ref` -/

theorem newCount_le (inc : Bool) (n : Nat) (h : n ≤ LOCKED_REF) : newCount inc n ≤ LOCKED_REF := by
  unfold newCount
  cases inc with
  | true =>
    simp only [if_true]
    split
    · exact Nat.le_refl _
    · omega
  | false =>
    simp only [Bool.false_eq_true, if_false]
    split <;> omega

theorem newCount_pos (inc : Bool) (n : Nat) (hn : 0 < n) (h : ¬ goes inc n) : 0 < newCount inc n := by
  unfold goes at h
  cases inc with
  | true =>
    unfold newCount
    simp only [if_true]
    split
    · decide
    · omega
  | false =>
    by_cases e : n = LOCKED_REF
    · unfold newCount
      simp only [Bool.false_eq_true, if_false, e, ne_eq, not_true_eq_false]
      decide
    · have : ¬ newCount false n = 0 := fun h0 => h ⟨by simp, e, h0⟩
      omega

theorem locked_lt : LOCKED_REF < 256 ^ REFS_SIZE := by decide

theorem repL_bump {t : VT} {A : AStore} {L : List (List Nat)} (h : RepL t A L) (c0 : List Nat)
    (hc0 : c0 ∈ L) (i : Nat) (hhd : c0.headD 0 = i) (hb : BumpOk t i) (c' : Nat)
    (hc : c' < 256 ^ REFS_SIZE) (hpos : 0 < c') : RepL (bumped t i c') A L := by
  obtain ⟨g1, g2, g3, g4, g5⟩ := bumped_spec t i c' A.tier.free L c0 h.inv hc0 hhd hb hc hpos
  have hi : 1 ≤ i ∧ i < t.filled := by
    have := h.inv.range i (List.mem_append_right _ (List.mem_flatten.mpr
      ⟨c0, hc0, hhd ▸ headD_mem c0 (h.ne_nil c0 hc0)⟩))
    exact this
  refine ⟨h.filled, g1, ?_, ?_, h.off, h.recorded, h.chainsNodup, ?_⟩
  · intro c hcL j hj
    rw [g5 c hcL j hj]
    exact h.parts c hcL j hj
  · intro c hcL
    obtain ⟨a, b, d⟩ := h.heads c hcL
    refine ⟨?_, b, d⟩
    by_cases e : c = c0
    · rw [e, hhd] at a b ⊢
      cases hcell : A.cell i with
      | none => rw [hcell] at b; cases b
      | some x =>
        obtain ⟨tl, v, cf⟩ := x
        rw [hcell] at a
        obtain ⟨n, hn⟩ := read_of_absVT t tl i v cf a
        exact absVT_of_read _ tl i v cf c' (g2 _ v cf n hn)
    · rw [← a]
      exact absVT_congr_read t _ _ (g3 c hcL e)
  · intro j hj
    have hne : j ≠ i := by
      rcases hj with e | e
      · omega
      · have : (bumped t i c').filled = t.filled := rfl
        rw [this] at e; omega
    rw [bumped_ne t i c' j hne]
    exact h.blank j hj

/-- `change_ref` at the head slot `i` of a live value of a ref-counted table representing `A`:
either it answers "the entry has to go" and changes nothing, or it rewrites the counter: the table
still represents `A` (same chains), the keyed read returns the same value with the new counter,
the other live values read as before. -/
theorem repL_changeRef {t : VT} {A : AStore} {L : List (List Nat)} (h : RepL t A L)
    (hrc : t.refCounted = true) (i : Nat) (tl v : Bytes) (c : Bool)
    (hcell : A.cell i = some (tl, v, c)) (htl : tl.length = PARTIAL_SIZE) (inc : Bool) :
    ∃ n, readChain t (.partialKey tl) i = .ok (some (v, c, n)) ∧ 0 < n ∧
      (goes inc n → ValueTable.changeRef t i inc = (t, false)) ∧
      (¬ goes inc n → n ≤ LOCKED_REF →
        ValueTable.changeRef t i inc = (bumped t i (newCount inc n), true) ∧
        RepL (bumped t i (newCount inc n)) A L ∧
        readChain (bumped t i (newCount inc n)) (.partialKey tl) i =
          .ok (some (v, c, newCount inc n)) ∧
        (∀ c' ∈ L, c'.headD 0 ≠ i → ∀ key', readChain (bumped t i (newCount inc n)) key' (c'.headD 0) =
          readChain t key' (c'.headD 0))) := by
  obtain ⟨n, hn⟩ := (h.read tl i v c).2 hcell
  obtain ⟨f1, _, _, f4, f5, f6, f7⟩ := head_facts t tl i v c n htl hrc hn
  have hb : BumpOk t i := ⟨hrc, f5, f4⟩
  obtain ⟨c0, hc0, hhd⟩ := h.live i (by rw [hcell]; rfl)
  refine ⟨n, hn, f7, ?_, ?_⟩
  · intro hg
    rw [changeRef_eq t i inc f1, ← f6, if_pos hg]
  · intro hg hle
    have hc : newCount inc n < 256 ^ REFS_SIZE :=
      Nat.lt_of_le_of_lt (newCount_le inc n hle) locked_lt
    have hpos := newCount_pos inc n f7 hg
    obtain ⟨g1, g2, g3, g4, g5⟩ := bumped_spec t i (newCount inc n) A.tier.free L c0 h.inv hc0 hhd hb hc hpos
    refine ⟨?_, repL_bump h c0 hc0 i hhd hb _ hc hpos, g2 _ v c n hn, ?_⟩
    · rw [changeRef_eq t i inc f1, ← f6, if_neg hg]; rfl
    · intro c1 hc1 hne key'
      exact g3 c1 hc1 (fun e => hne (e ▸ hhd)) key'

end Pdb.RefineRc
