/-
C10: lemmas about the finite maps (`FMap`) of the multitree model.
-/
import Pdb.Model.MultiTree

namespace Pdb.MultiTree
variable {K V : Type} [DecidableEq K]

theorem alLookup_alErase (k a : K) (l : List (K × V)) :
    alLookup a (alErase k l) = if a = k then none else alLookup a l := by
  induction l with
  | nil => simp [alErase, alLookup]
  | cons e l ih =>
    obtain ⟨k', v⟩ := e
    by_cases h : k' = k
    · subst h
      simp only [alErase, if_true, ih, alLookup]
      by_cases h2 : a = k'
      · simp [h2]
      · have : ¬ k' = a := fun e => h2 e.symm
        simp [h2, this]
    · simp only [alErase, h, if_false, alLookup, ih]
      by_cases h2 : k' = a
      · subst h2; simp [h]
      · simp [h2]

theorem alErase_keys_sub (k : K) (l : List (K × V)) (x : K) :
    x ∈ (alErase k l).map Prod.fst → x ∈ l.map Prod.fst ∧ x ≠ k := by
  induction l with
  | nil => simp [alErase]
  | cons e l ih =>
    obtain ⟨k', v⟩ := e
    by_cases h : k' = k
    · subst h
      simp only [alErase, if_true]
      intro hx
      have := ih hx
      exact ⟨by simp [this.1], this.2⟩
    · simp only [alErase, h, if_false, List.map_cons, List.mem_cons]
      rintro (hx | hx)
      · subst hx; exact ⟨Or.inl rfl, h⟩
      · have := ih hx
        exact ⟨Or.inr this.1, this.2⟩

theorem alErase_nodup (k : K) (l : List (K × V)) (h : (l.map Prod.fst).Nodup) :
    ((alErase k l).map Prod.fst).Nodup := by
  induction l with
  | nil => simp [alErase]
  | cons e l ih =>
    obtain ⟨k', v⟩ := e
    simp only [List.map_cons, List.nodup_cons] at h
    by_cases hk : k' = k
    · simp only [alErase, hk, if_true]; exact ih h.2
    · simp only [alErase, hk, if_false, List.map_cons, List.nodup_cons]
      refine ⟨?_, ih h.2⟩
      intro hm
      exact h.1 (alErase_keys_sub k l k' hm).1

theorem alLookup_of_mem (l : List (K × V)) (h : (l.map Prod.fst).Nodup) (k : K) (v : V)
    (hm : (k, v) ∈ l) : alLookup k l = some v := by
  induction l with
  | nil => simp at hm
  | cons e l ih =>
    obtain ⟨k', v'⟩ := e
    simp only [List.map_cons, List.nodup_cons] at h
    simp only [List.mem_cons, Prod.mk.injEq] at hm
    rcases hm with ⟨rfl, rfl⟩ | hm
    · simp [alLookup]
    · have : k' ≠ k := by
        intro e; subst e
        exact h.1 (List.mem_map.mpr ⟨(k', v), hm, rfl⟩)
      simp only [alLookup, this, if_false]
      exact ih h.2 hm

theorem mem_of_alLookup (l : List (K × V)) (k : K) (v : V) (h : alLookup k l = some v) :
    (k, v) ∈ l := by
  induction l with
  | nil => simp [alLookup] at h
  | cons e l ih =>
    obtain ⟨k', v'⟩ := e
    by_cases hk : k' = k
    · subst hk; simp only [alLookup, if_true, Option.some.injEq] at h; subst h; simp
    · simp only [alLookup, hk, if_false] at h
      exact List.mem_cons_of_mem _ (ih h)

theorem alErase_sum (k : K) (l : List (K × V)) (h : (l.map Prod.fst).Nodup) (f : V → Nat) :
    ((alErase k l).map (fun e => f e.2)).sum + ((alLookup k l).map f).getD 0 =
      (l.map (fun e => f e.2)).sum := by
  induction l with
  | nil => simp [alErase, alLookup]
  | cons e l ih =>
    obtain ⟨k', v⟩ := e
    simp only [List.map_cons, List.nodup_cons] at h
    by_cases hk : k' = k
    · subst hk
      have hnot : alLookup k' l = none := by
        cases hl : alLookup k' l with
        | none => rfl
        | some x =>
          exact absurd (List.mem_map.mpr ⟨(k', x), mem_of_alLookup l k' x hl, rfl⟩) h.1
      have := ih h.2
      rw [hnot] at this
      simp only [alErase, if_true, alLookup, Option.map_some, Option.getD_some, List.map_cons,
        List.sum_cons]
      simp only [Option.map_none, Option.getD_none, Nat.add_zero] at this
      omega
    · simp only [alErase, hk, if_false, alLookup, List.map_cons, List.sum_cons]
      have := ih h.2
      omega

theorem alErase_length_le (k : K) (l : List (K × V)) : (alErase k l).length ≤ l.length := by
  induction l with
  | nil => simp [alErase]
  | cons e l ih =>
    obtain ⟨k', v⟩ := e
    by_cases hk : k' = k
    · simp only [alErase, hk, if_true, List.length_cons]; omega
    · simp only [alErase, hk, if_false, List.length_cons]; omega

theorem alErase_length_lt (k : K) (l : List (K × V)) (v : V) (h : alLookup k l = some v) :
    (alErase k l).length < l.length := by
  induction l with
  | nil => simp [alLookup] at h
  | cons e l ih =>
    obtain ⟨k', v'⟩ := e
    by_cases hk : k' = k
    · simp only [alErase, hk, if_true, List.length_cons]
      have := alErase_length_le k l
      omega
    · simp only [alLookup, hk, if_false] at h
      simp only [alErase, hk, if_false, List.length_cons]
      have := ih h
      omega

namespace FMap

@[simp] theorem get_empty (k : K) : (FMap.empty : FMap K V).get k = none := rfl

theorem get_set (m : FMap K V) (k : K) (v : Option V) (a : K) :
    (m.set k v).get a = if a = k then v else m.get a := by
  cases v with
  | none => simp only [set, get, alLookup_alErase]
  | some v =>
    simp only [set, get, alLookup]
    by_cases h : a = k
    · subst h; simp
    · have : ¬ k = a := fun e => h e.symm
      simp [h, this, alLookup_alErase]

theorem get_set_same (m : FMap K V) (k : K) (v : Option V) : (m.set k v).get k = v := by
  simp [get_set]

theorem get_set_other (m : FMap K V) (k a : K) (v : Option V) (h : a ≠ k) :
    (m.set k v).get a = m.get a := by
  simp [get_set, h]

omit [DecidableEq K] in
theorem WF_empty : (FMap.empty : FMap K V).WF := by simp [WF, empty]

theorem WF_set (m : FMap K V) (h : m.WF) (k : K) (v : Option V) : (m.set k v).WF := by
  cases v with
  | none => exact alErase_nodup k m.l h
  | some v =>
    simp only [WF, set, List.map_cons, List.nodup_cons]
    refine ⟨?_, alErase_nodup k m.l h⟩
    intro hm
    exact (alErase_keys_sub k m.l k hm).2 rfl

theorem mem_iff (m : FMap K V) (h : m.WF) (k : K) (v : V) : (k, v) ∈ m.l ↔ m.get k = some v :=
  ⟨alLookup_of_mem m.l h k v, mem_of_alLookup m.l k v⟩

theorem sum_set (m : FMap K V) (h : m.WF) (k : K) (v : Option V) (f : V → Nat) :
    (m.set k v).sum f + ((m.get k).map f).getD 0 = m.sum f + (v.map f).getD 0 := by
  have := alErase_sum k m.l h f
  cases v with
  | none => simp only [set, sum, get, Option.map_none, Option.getD_none] at *; omega
  | some v =>
    simp only [set, sum, get, List.map_cons, List.sum_cons, Option.map_some, Option.getD_some] at *
    omega

theorem le_sum (m : FMap K V) (k : K) (v : V) (f : V → Nat) (h : m.get k = some v) :
    f v ≤ m.sum f := by
  have hm := mem_of_alLookup m.l k v h
  simp only [sum]
  have : ∀ (l : List (K × V)), (k, v) ∈ l → f v ≤ (l.map (fun e => f e.2)).sum := by
    intro l
    induction l with
    | nil => simp
    | cons e l ih =>
      simp only [List.mem_cons, List.map_cons, List.sum_cons]
      rintro (rfl | h)
      · simp
      · have := ih h; omega
  exact this m.l hm

omit [DecidableEq K] in
theorem sum_eq_zero (m : FMap K V) (f : V → Nat) (h : ∀ k v, (k, v) ∈ m.l → f v = 0) :
    m.sum f = 0 := by
  simp only [sum]
  have : ∀ (l : List (K × V)), (∀ k v, (k, v) ∈ l → f v = 0) → (l.map (fun e => f e.2)).sum = 0 := by
    intro l
    induction l with
    | nil => simp
    | cons e l ih =>
      intro hl
      simp only [List.map_cons, List.sum_cons]
      rw [hl e.1 e.2 (by simp), ih (fun k v hm => hl k v (List.mem_cons_of_mem _ hm))]
  exact this m.l h

omit [DecidableEq K] in
theorem exists_of_sum_pos (m : FMap K V) (f : V → Nat) (h : 0 < m.sum f) :
    ∃ k v, (k, v) ∈ m.l ∧ 0 < f v := by
  apply Classical.byContradiction
  intro hn
  have : m.sum f = 0 := by
    apply sum_eq_zero
    intro k v hm
    apply Classical.byContradiction
    intro hf
    exact hn ⟨k, v, hm, by omega⟩
  omega

theorem size_set_none_le (m : FMap K V) (k : K) : (m.set k none).size ≤ m.size :=
  alErase_length_le k m.l

theorem size_set_none_lt (m : FMap K V) (k : K) (v : V) (h : m.get k = some v) :
    (m.set k none).size < m.size :=
  alErase_length_lt k m.l v h

theorem eq_nil_of_get_none (m : FMap K V) (h : ∀ k, m.get k = none) : m.l = [] := by
  cases hl : m.l with
  | nil => rfl
  | cons e l =>
    have := h e.1
    simp [get, hl, alLookup] at this

theorem size_eq_zero_of_get_none (m : FMap K V) (h : ∀ k, m.get k = none) : m.size = 0 := by
  simp [size, eq_nil_of_get_none m h]

end FMap
end Pdb.MultiTree
