/-
C04 pipeline, part 3: the commit overlay against the commit queue.

`ovOf queue k` is what `copy_to_overlay` / `clean_overlay` leave in the overlay for key `k`: the
tagged value of the LAST queued transaction that touches `k` (the value of its last operation
on `k`).  Lemmas: commit (`lookup_ovPut_fold`, `ovOf_snoc`), processed commit
(`lookup_cleanOverlay`, `ovOf_tail`), and the view of a reader (`view_eq_effect`): overlay
first, backend otherwise = the queued operations applied to the backend.
-/
import Pdb.Proofs.C04PipeTree
import Pdb.Model.BTreePipe

namespace Pdb.C04

/-- the value an operation leaves in the overlay -/
def opVal : Op String → Option String
  | .set _ v => some v
  | .del _ => none

/-- overlay entry of `k` owed to the transaction `(id, ops)` -/
def txEntry (id : Nat) (ops : List (Op String)) (k : Key) : Option (Nat × Option String) :=
  (lastOp ops k).map (fun op => (id, opVal op))

def ovOf : List (Nat × List (Op String)) → Key → Option (Nat × Option String)
  | [], _ => none
  | (id, ops) :: q, k => (ovOf q k).or (txEntry id ops k)

/-- all queued operations in commit order -/
def flatQ (q : List (Nat × List (Op String))) : List (Op String) := q.flatMap (·.2)

theorem flatQ_cons (id : Nat) (ops : List (Op String)) (q : List (Nat × List (Op String))) :
    flatQ ((id, ops) :: q) = ops ++ flatQ q := by
  simp [flatQ]

theorem flatQ_snoc (id : Nat) (ops : List (Op String)) (q : List (Nat × List (Op String))) :
    flatQ (q ++ [(id, ops)]) = flatQ q ++ ops := by
  simp [flatQ]

/-! ### commit -/

theorem lookup_ovPut (id : Nat) (ov : Overlay) (op : Op String) (k : Key) :
    lookup (ovPut id ov op) k = if op.key = k then some (id, opVal op) else lookup ov k := by
  cases op with
  | set k0 v => simp only [ovPut, lookup_put, Op.key, opVal]; by_cases h : k0 = k <;> simp [h]
  | del k0 => simp only [ovPut, lookup_put, Op.key, opVal]; by_cases h : k0 = k <;> simp [h]

theorem sorted_ovPut (id : Nat) {ov : Overlay} (h : Sorted ov) (op : Op String) :
    Sorted (ovPut id ov op) := by
  cases op <;> exact sorted_put h _ _

theorem sorted_ovPut_fold (id : Nat) (ops : List (Op String)) {ov : Overlay} (h : Sorted ov) :
    Sorted (ops.foldl (ovPut id) ov) := by
  induction ops generalizing ov with
  | nil => exact h
  | cons op ops ih => exact ih (sorted_ovPut id h op)

theorem lookup_ovPut_fold (id : Nat) (ops : List (Op String)) (ov : Overlay) (k : Key) :
    lookup (ops.foldl (ovPut id) ov) k = (txEntry id ops k).or (lookup ov k) := by
  induction ops generalizing ov with
  | nil => simp [txEntry, lastOp]
  | cons op ops ih =>
    rw [List.foldl_cons, ih, lookup_ovPut, txEntry, txEntry, lastOp_cons]
    cases lastOp ops k with
    | some o => simp
    | none =>
      by_cases h : op.key = k <;> simp [h]

theorem ovOf_snoc (q : List (Nat × List (Op String))) (id : Nat) (ops : List (Op String)) (k : Key) :
    ovOf (q ++ [(id, ops)]) k = (txEntry id ops k).or (ovOf q k) := by
  induction q with
  | nil => simp [ovOf]
  | cons e q ih =>
    obtain ⟨i, o⟩ := e
    simp only [List.cons_append, ovOf, ih, Option.or_assoc]

/-! ### a processed commit -/

theorem lookup_cleanKey (id : Nat) {ov : Overlay} (hs : Sorted ov) (k0 k : Key) :
    lookup (cleanKey id ov k0) k =
      if k0 = k ∧ (lookup ov k).map Prod.fst = some id then none else lookup ov k := by
  unfold cleanKey
  by_cases hk : k0 = k
  · subst hk
    cases hl : lookup ov k0 with
    | none => simp [hl]
    | some e =>
      obtain ⟨i, o⟩ := e
      by_cases hi : i = id
      · simp [hi, lookup_del hs]
      · simp [hi, hl]
  · cases hl : lookup ov k0 with
    | none => simp [hk]
    | some e =>
      obtain ⟨i, o⟩ := e
      by_cases hi : i = id
      · simp [hi, hk, lookup_del hs]
      · simp [hi, hk]

theorem sorted_cleanKey (id : Nat) {ov : Overlay} (hs : Sorted ov) (k0 : Key) :
    Sorted (cleanKey id ov k0) := by
  unfold cleanKey
  cases lookup ov k0 with
  | none => exact hs
  | some e =>
    obtain ⟨i, o⟩ := e
    by_cases hi : i = id
    · simp only [hi, if_true]; exact sorted_del hs k0
    · simp only [hi, if_false]; exact hs

theorem sorted_cleanOverlay (id : Nat) (keys : List Key) {ov : Overlay} (hs : Sorted ov) :
    Sorted (cleanOverlay id keys ov) := by
  unfold cleanOverlay
  induction keys generalizing ov with
  | nil => exact hs
  | cons k0 keys ih => exact ih (sorted_cleanKey id hs k0)

theorem lookup_cleanOverlay (id : Nat) (keys : List Key) {ov : Overlay} (hs : Sorted ov) (k : Key) :
    lookup (cleanOverlay id keys ov) k =
      if k ∈ keys ∧ (lookup ov k).map Prod.fst = some id then none else lookup ov k := by
  unfold cleanOverlay
  induction keys generalizing ov with
  | nil => simp
  | cons k0 keys ih =>
    rw [List.foldl_cons, ih (sorted_cleanKey id hs k0), lookup_cleanKey id hs]
    by_cases h0 : k0 = k
    · subst h0
      by_cases ht : (lookup ov k0).map Prod.fst = some id
      · simp [ht]
      · simp [ht]
    · have : (k ∈ k0 :: keys) ↔ k ∈ keys := by
        simp only [List.mem_cons]
        constructor
        · rintro (h | h)
          · exact absurd h.symm h0
          · exact h
        · exact Or.inr
      simp only [h0, false_and, if_false, this]

theorem lastOp_mem {ops : List (Op String)} {k : Key} {op : Op String}
    (h : lastOp ops k = some op) : op ∈ ops ∧ op.key = k := by
  unfold lastOp at h
  have hm := List.mem_of_getLast? h
  simp only [List.mem_filter, decide_eq_true_eq] at hm
  exact hm

theorem ovOf_id_mem {q : List (Nat × List (Op String))} {k : Key} {i : Nat} {o : Option String}
    (h : ovOf q k = some (i, o)) : i ∈ q.map Prod.fst := by
  induction q with
  | nil => simp [ovOf] at h
  | cons e q ih =>
    obtain ⟨id, ops⟩ := e
    simp only [ovOf] at h
    cases hq : ovOf q k with
    | some x =>
      rw [hq, Option.some_or] at h
      cases h
      exact List.mem_cons_of_mem _ (ih hq)
    | none =>
      rw [hq, Option.none_or] at h
      simp only [txEntry, Option.map_eq_some_iff] at h
      obtain ⟨_, _, he⟩ := h
      cases he
      simp

/-- The overlay after `clean_overlay` of the processed head of the queue. -/
theorem lookup_clean_head' {ov : Overlay} (hs : Sorted ov) (id : Nat) (ops : List (Op String))
    (keys : List Key) (hkeys : ∀ op ∈ ops, op.key ∈ keys)
    (q : List (Nat × List (Op String))) (hid : id ∉ q.map Prod.fst)
    (hov : ∀ k, lookup ov k = ovOf ((id, ops) :: q) k) (k : Key) :
    lookup (cleanOverlay id keys ov) k = ovOf q k := by
  rw [lookup_cleanOverlay id _ hs, hov k]
  have e : ovOf ((id, ops) :: q) k = (ovOf q k).or (txEntry id ops k) := rfl
  by_cases h : k ∈ keys ∧
      Option.map Prod.fst (ovOf ((id, ops) :: q) k) = some id
  · rw [if_pos h]
    rw [e] at h
    obtain ⟨hmem, htag⟩ := h
    cases hq : ovOf q k with
    | none => rfl
    | some x =>
      obtain ⟨i, o⟩ := x
      rw [hq, Option.some_or] at htag
      simp only [Option.map_some, Option.some.injEq] at htag
      exact absurd (htag ▸ ovOf_id_mem hq) hid
  · rw [if_neg h, e]
    rw [e] at h
    cases hq : ovOf q k with
    | some x => rfl
    | none =>
      rw [Option.none_or]
      cases hl : lastOp ops k with
      | none => simp [txEntry, hl]
      | some op =>
        exfalso
        apply h
        obtain ⟨hm, hk⟩ := lastOp_mem hl
        refine ⟨hk ▸ hkeys op hm, ?_⟩
        rw [hq, Option.none_or]
        simp [txEntry, hl]

theorem lookup_clean_head {ov : Overlay} (hs : Sorted ov) (id : Nat) (ops : List (Op String))
    (q : List (Nat × List (Op String))) (hid : id ∉ q.map Prod.fst)
    (hov : ∀ k, lookup ov k = ovOf ((id, ops) :: q) k) (k : Key) :
    lookup (cleanOverlay id (ops.map Op.key) ov) k = ovOf q k :=
  lookup_clean_head' hs id ops _ (fun op hop => List.mem_map.mpr ⟨op, hop, rfl⟩) q hid hov k

/-! ### what a reader sees -/

theorem lastOp_append (a b : List (Op String)) (k : Key) :
    lastOp (a ++ b) k = (lastOp b k).or (lastOp a k) := by
  induction a with
  | nil => simp [lastOp]
  | cons op a ih =>
    rw [List.cons_append, lastOp_cons, lastOp_cons, ih, Option.or_assoc]

/-- overlay first, otherwise `old` -/
def viewOf (e : Option (Nat × Option String)) (old : Option String) : Option String :=
  match e with
  | some (_, o) => o
  | none => old

theorem effect_opVal (op : Op String) (old : Option String) : effect (some op) old = opVal op := by
  cases op <;> rfl

theorem ovOf_isSome (q : List (Nat × List (Op String))) (k : Key) :
    (ovOf q k).isSome = (lastOp (flatQ q) k).isSome := by
  induction q with
  | nil => rfl
  | cons e q ih =>
    obtain ⟨id, ops⟩ := e
    rw [flatQ_cons, lastOp_append, ovOf, Option.isSome_or, Option.isSome_or, ih, txEntry,
      Option.isSome_map]

theorem view_eq_effect (q : List (Nat × List (Op String))) (k : Key) (old : Option String) :
    viewOf (ovOf q k) old = effect (lastOp (flatQ q) k) old := by
  induction q with
  | nil => rfl
  | cons e q ih =>
    obtain ⟨id, ops⟩ := e
    have hs := ovOf_isSome q k
    rw [flatQ_cons, lastOp_append, ovOf]
    cases hq : ovOf q k with
    | some x =>
      rw [hq] at ih hs
      cases hl : lastOp (flatQ q) k with
      | none => rw [hl] at hs; cases hs
      | some op => rw [hl] at ih; rw [Option.some_or, Option.some_or]; exact ih
    | none =>
      rw [hq] at hs
      cases hl : lastOp (flatQ q) k with
      | some op => rw [hl] at hs; cases hs
      | none =>
        rw [Option.none_or, Option.none_or]
        cases hl2 : lastOp ops k with
        | none => simp [txEntry, hl2, viewOf, effect]
        | some op =>
          simp only [txEntry, hl2, Option.map_some, viewOf]
          exact (effect_opVal op old).symm

theorem lookup_map_snd (ov : Overlay) (k : Key) :
    lookup (ov.map (fun e => (e.1, e.2.2))) k = (lookup ov k).map Prod.snd := by
  induction ov with
  | nil => rfl
  | cons a ov ih =>
    obtain ⟨k', i, o⟩ := a
    simp only [List.map_cons, lookup]
    by_cases h : k' = k
    · simp [h]
    · simp [h, ih]

theorem sorted_map_snd {ov : Overlay} (h : Sorted ov) : Sorted (ov.map (fun e => (e.1, e.2.2))) := by
  unfold Sorted at *
  rw [List.pairwise_map]
  exact h

theorem specApply_append (a b : List (Op String)) (l : List (Key × String)) :
    specApply (a ++ b) l = specApply b (specApply a l) := by
  simp [specApply, List.foldl_append]

end Pdb.C04
