/-
Real recovery on a set of log files (Model/Recover.lean), generic part: for files whose record
ids continue one another (`Chain`), listed in ANY directory order, the replay queue built by
`Log::open` is the age order and replay accepts every record.
-/
import Pdb.Model.Recover

namespace Pdb
variable {ρ : Type}

/-- The files hold records numbered `a, a+1, ...` without a gap, none of them is empty. -/
def Chain (a : Nat) : List (LFile ρ) → Prop
  | [] => True
  | f :: fs => f.recs ≠ [] ∧ f.recs.map (·.1) = List.range' a f.recs.length ∧
      Chain (a + f.recs.length) fs

/-- First record id of a file (0 if it has none). -/
def fid (f : LFile ρ) : Nat := f.firstId.getD 0

/-! ### acceptance -/

theorem acceptRecs_range (recs : List (Nat × ρ)) (b : Nat)
    (h : recs.map (·.1) = List.range' (b + 1) recs.length) :
    acceptRecs b recs = ⟨recs.map (·.2), b + recs.length, false⟩ := by
  induction recs generalizing b with
  | nil => simp [acceptRecs]
  | cons x rest ih =>
    obtain ⟨id, r⟩ := x
    simp only [List.map_cons, List.length_cons, List.range'_succ, List.cons.injEq] at h
    obtain ⟨hid, hrest⟩ := h
    subst hid
    have := ih (b + 1) hrest
    simp only [acceptRecs, if_true, this, List.map_cons, List.length_cons]
    congr 1
    omega

theorem acceptFiles_chain (files : List (LFile ρ)) (b : Nat) (h : Chain (b + 1) files) :
    acceptFiles b (files.map (·.recs)) = (allRecs files).map (·.2) := by
  induction files generalizing b with
  | nil => simp [acceptFiles, allRecs]
  | cons f fs ih =>
    obtain ⟨_, hids, hc⟩ := h
    have hacc := acceptRecs_range f.recs b hids
    have hc' : Chain (b + f.recs.length + 1) fs := by
      have e : b + 1 + f.recs.length = b + f.recs.length + 1 := by omega
      rw [← e]; exact hc
    simp only [List.map_cons, acceptFiles, hacc, Bool.false_eq_true, if_false, ih _ hc', allRecs,
      List.flatMap_cons, List.map_append]

/-! ### replay order -/

theorem insertKeyed_mid {α : Type} (k : Nat) (a : α) (l1 l2 : List (Nat × α))
    (h1 : ∀ x ∈ l1, x.1 < k) (h2 : ∀ y ∈ l2, k ≤ y.1) :
    insertKeyed k a (l1 ++ l2) = l1 ++ (k, a) :: l2 := by
  induction l1 with
  | nil =>
    cases l2 with
    | nil => rfl
    | cons y ys =>
      obtain ⟨k', y'⟩ := y
      have := h2 (k', y') List.mem_cons_self
      simp only [List.nil_append, insertKeyed]
      simp only at this
      simp [this]
  | cons x xs ih =>
    obtain ⟨k', x'⟩ := x
    have hlt := h1 (k', x') List.mem_cons_self
    simp only at hlt
    have hn : ¬ k ≤ k' := by omega
    simp only [List.cons_append, insertKeyed, hn, if_false]
    rw [ih (fun x hx => h1 x (List.mem_cons_of_mem _ hx))]

theorem orderKeyed_cons_some {α : Type} (key : α → Option Nat) (f : α) (fs : List α) (k : Nat)
    (h : key f = some k) : orderKeyed key (f :: fs) = insertKeyed k f (orderKeyed key fs) := by
  simp [orderKeyed, h]

theorem orderKeyed_cons_none {α : Type} (key : α → Option Nat) (f : α) (fs : List α)
    (h : key f = none) : orderKeyed key (f :: fs) = orderKeyed key fs := by
  simp [orderKeyed, h]

/-- Sorting any permutation of a list with strictly increasing keys gives that list. -/
theorem orderKeyed_perm {α : Type} (key : α → Option Nat) (ks : α → Nat) (fs : List α) :
    ∀ (l : List α), (∀ x ∈ l, key x = some (ks x)) → l.Pairwise (fun x y => ks x < ks y) →
    fs.Perm l → orderKeyed key fs = l.map (fun x => (ks x, x)) := by
  induction fs with
  | nil =>
    intro l _ _ hp
    rw [← hp.nil_eq]; rfl
  | cons a fs ih =>
    intro l hk hs hp
    have ha : a ∈ l := hp.mem_iff.mp List.mem_cons_self
    obtain ⟨l1, l2, rfl⟩ := List.append_of_mem ha
    have hp' : fs.Perm (l1 ++ l2) := (hp.trans List.perm_middle).cons_inv
    rw [List.pairwise_append, List.pairwise_cons] at hs
    obtain ⟨hs1, ⟨ha2, hs2⟩, h12⟩ := hs
    have hs' : (l1 ++ l2).Pairwise (fun x y => ks x < ks y) := by
      rw [List.pairwise_append]
      exact ⟨hs1, hs2, fun x hx y hy => h12 x hx y (List.mem_cons_of_mem _ hy)⟩
    have hk' : ∀ x ∈ l1 ++ l2, key x = some (ks x) := by
      intro x hx
      apply hk
      rcases List.mem_append.mp hx with h | h
      · exact List.mem_append_left _ h
      · exact List.mem_append_right _ (List.mem_cons_of_mem _ h)
    rw [orderKeyed_cons_some key a fs (ks a) (hk a ha), ih _ hk' hs' hp', List.map_append,
      insertKeyed_mid, List.map_append, List.map_cons]
    · intro x hx
      obtain ⟨y, hy, rfl⟩ := List.mem_map.mp hx
      exact h12 y hy a List.mem_cons_self
    · intro x hx
      obtain ⟨y, hy, rfl⟩ := List.mem_map.mp hx
      exact Nat.le_of_lt (ha2 y hy)

/-! ### chains: keys, truncation -/

theorem chain_head {a : Nat} {f : LFile ρ} {fs : List (LFile ρ)} (h : Chain a (f :: fs)) :
    f.firstId = some a := by
  obtain ⟨hne, hids, _⟩ := h
  unfold LFile.firstId
  cases hr : f.recs with
  | nil => exact absurd hr hne
  | cons x xs =>
    rw [hr] at hids
    simp only [List.map_cons, List.length_cons, List.range'_succ, List.cons.injEq] at hids
    simp [hids.1]

theorem chain_keys {a : Nat} {files : List (LFile ρ)} (h : Chain a files) :
    (∀ f ∈ files, f.firstId = some (fid f) ∧ a ≤ fid f) ∧
    files.Pairwise (fun f g => fid f < fid g) := by
  induction files generalizing a with
  | nil => simp
  | cons f fs ih =>
    have hf := chain_head h
    obtain ⟨hne, _, hc⟩ := h
    have hpos : 0 < f.recs.length := List.length_pos_iff.mpr hne
    obtain ⟨ih1, ih2⟩ := ih hc
    have hfid : fid f = a := by simp [fid, hf]
    refine ⟨?_, ?_⟩
    · intro g hg
      rcases List.mem_cons.mp hg with rfl | hg
      · rw [hfid]; exact ⟨hf, Nat.le_refl _⟩
      · have := ih1 g hg
        exact ⟨this.1, by omega⟩
    · rw [List.pairwise_cons]
      refine ⟨?_, ih2⟩
      intro g hg
      have := (ih1 g hg).2
      omega

theorem map_take_range {α : Type} (f : α → Nat) (l : List α) (a m : Nat)
    (h : l.map f = List.range' a l.length) :
    (l.take m).map f = List.range' a (l.take m).length := by
  induction l generalizing a m with
  | nil => simp
  | cons x xs ih =>
    cases m with
    | zero => simp
    | succ m =>
      simp only [List.map_cons, List.length_cons, List.range'_succ, List.cons.injEq] at h
      simp only [List.take_succ_cons, List.map_cons, List.length_cons, List.range'_succ, h.1,
        ih (a + 1) m h.2]

theorem chain_trunc {a : Nat} {files : List (LFile ρ)} (h : Chain a files) (m : Nat) :
    Chain a (truncFiles m files) := by
  induction files generalizing a m with
  | nil => simp [truncFiles, Chain]
  | cons f fs ih =>
    obtain ⟨hne, hids, hc⟩ := h
    unfold truncFiles
    by_cases hm : m = 0
    · simp [hm, Chain]
    · by_cases hle : f.recs.length ≤ m
      · simp only [hm, hle, if_false, if_true]
        exact ⟨hne, hids, ih hc _⟩
      · simp only [hm, hle, if_false]
        refine ⟨?_, map_take_range _ _ _ _ hids, trivial⟩
        simp only
        cases hr : f.recs with
        | nil => exact absurd hr hne
        | cons x xs =>
          cases m with
          | zero => exact absurd rfl hm
          | succ m => simp

theorem allRecs_trunc (files : List (LFile ρ)) (m : Nat) :
    allRecs (truncFiles m files) = (allRecs files).take m := by
  induction files generalizing m with
  | nil => simp [truncFiles, allRecs]
  | cons f fs ih =>
    unfold truncFiles
    by_cases hm : m = 0
    · simp [hm, allRecs]
    · by_cases hle : f.recs.length ≤ m
      · simp only [hm, hle, if_false, if_true]
        have := ih (m - f.recs.length)
        simp only [allRecs, List.flatMap_cons] at this ⊢
        rw [this, List.take_append, List.take_of_length_le hle]
      · simp only [hm, hle, if_false]
        have hlt : m - f.recs.length = 0 := by omega
        simp only [allRecs, List.flatMap_cons, List.flatMap_nil, List.append_nil, List.take_append,
          hlt, List.take_zero]

theorem truncFiles_all {a : Nat} {files : List (LFile ρ)} (h : Chain a files) (m : Nat)
    (hm : (allRecs files).length ≤ m) : truncFiles m files = files := by
  induction files generalizing a m with
  | nil => simp [truncFiles]
  | cons f fs ih =>
    obtain ⟨hne, _, hc⟩ := h
    have hpos : 0 < f.recs.length := List.length_pos_iff.mpr hne
    simp only [allRecs, List.flatMap_cons, List.length_append] at hm
    have hm0 : m ≠ 0 := by omega
    have hle : f.recs.length ≤ m := by omega
    unfold truncFiles
    simp only [hm0, hle, if_false, if_true]
    rw [ih hc (m - f.recs.length) (by simp only [allRecs]; omega)]

/-! ### the replay of a chain, in any directory order -/

theorem replayOrder_chain {a : Nat} {files : List (LFile ρ)} (h : Chain a files)
    (fs : List (LFile ρ)) (hp : fs.Perm files) : replayOrder LFile.firstId fs = files := by
  obtain ⟨hk, hs⟩ := chain_keys h
  unfold replayOrder
  rw [orderKeyed_perm LFile.firstId fid fs files (fun f hf => (hk f hf).1) hs hp, List.map_map]
  simp [Function.comp_def]

theorem startId_chain {a : Nat} {files : List (LFile ρ)} (h : Chain a files) (hne : files ≠ []) :
    startId files = a - 1 := by
  cases files with
  | nil => exact absurd rfl hne
  | cons f fs => simp [startId, chain_head h]

/-- Real recovery accepts exactly the records of a chain of files, whatever the order in
    which the directory lists them. -/
theorem realAccepted_chain {a : Nat} {files : List (LFile ρ)} (h : Chain a files) (ha : 1 ≤ a)
    (fs : List (LFile ρ)) (hp : fs.Perm files) :
    realAccepted fs = (allRecs files).map (·.2) := by
  unfold realAccepted acceptedWith
  rw [replayOrder_chain h fs hp]
  by_cases hne : files = []
  · subst hne; simp [acceptFiles, allRecs]
  · rw [startId_chain h hne]
    apply acceptFiles_chain
    have : a - 1 + 1 = a := by omega
    rw [this]; exact h

end Pdb
