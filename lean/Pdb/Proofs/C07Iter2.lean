/-
C07 / C14 value iteration, part 2: under C06's `SlotInv` (plus "continuation parts are not heads"
and "heads are readable", both part of R2's `RepL`) the scan of a table has no error and reports
exactly the head slots of the live chains, in increasing index order.
-/
import Pdb.Proofs.C07Iter1

namespace Pdb.ValueIter
open Pdb.Gen Pdb.ValueTable Pdb.Refine

/-- the `absVT` cell of an item -/
def Item.cell (it : Item) : Bytes × Bytes × Bool := (it.tail, it.value, it.compressed)

/-- no invariant needed: what the scan reports for a slot is the `absVT` cell of the slot -/
theorem slotItem_map_abs (t : VT) (hes : PARTIAL_SIZE ≤ t.entrySize) (j : Nat) :
    (slotItem t j).map Item.cell = absVT t j := by
  cases ha : absVT t j with
  | some x =>
    obtain ⟨n, hf, _⟩ := slotItem_of_abs t hes j x ha
    simp only [slotItem, hf, Option.map_some, Item.cell]
  | none =>
    cases hs : slotItem t j with
    | none => rfl
    | some it =>
      have := (slotItem_some t hes j it hs).2.2.2
      rw [ha] at this; cases this

theorem filterMap_index (g : Nat → Option Item) (hg : ∀ j it, g j = some it → it.index = j) :
    ∀ l : List Nat, (l.filterMap g).map (·.index) = l.filter (fun j => (g j).isSome) := by
  intro l
  induction l with
  | nil => rfl
  | cons a l ih =>
    cases h : g a with
    | none => simp only [List.filterMap_cons, h, List.filter_cons, Option.isSome_none,
        Bool.false_eq_true, if_false]; exact ih
    | some it =>
      simp only [List.filterMap_cons, h, List.map_cons, List.filter_cons, Option.isSome_some, if_true]
      rw [ih, hg a it h]

/-- the slots below the fill mark, classified by the invariant -/
theorem slot_class (t : VT) (F : List Nat) (L : List (List Nat)) (hinv : SlotInv t F L)
    (j : Nat) (h1 : 1 ≤ j) (h2 : j < t.filled) :
    j ∈ F ∨ (∃ c ∈ L, j ∈ c.tail) ∨ (∃ c ∈ L, c.headD 0 = j) := by
  have hi := cover_of_count (F ++ L.flatten) t.filled hinv.nodup hinv.range
    (by rw [List.length_append]; exact hinv.count) j h1 h2
  rcases List.mem_append.mp hi with hf | hl
  · exact Or.inl hf
  · obtain ⟨c, hc, hic⟩ := List.mem_flatten.mp hl
    have hne : c ≠ [] := IsChain_ne_nil t c (hinv.chains c hc)
    rw [chain_decomp c hne] at hic
    rcases List.mem_cons.mp hic with e | e
    · exact Or.inr (Or.inr ⟨c, hc, e.symm⟩)
    · exact Or.inr (Or.inl ⟨c, hc, e⟩)

structure ScanExact (t : VT) (F : List Nat) (L : List (List Nat)) (items : List Item) : Prop where
  /-- the `absVT` image of the table, in index order -/
  cells : items.map Item.cell = (List.range' 1 (t.filled - 1)).filterMap (absVT t)
  /-- increasing index order: in particular every slot is reported at most once -/
  sorted : (items.map (·.index)).Pairwise (· < ·)
  /-- exactly the head slots of the live chains -/
  heads : ∀ i, i ∈ items.map (·.index) ↔ ∃ c ∈ L, c.headD 0 = i
  /-- no free-list member (tombstone) -/
  noFree : ∀ i ∈ F, i ∉ items.map (·.index)
  /-- no continuation part -/
  noPart : ∀ c ∈ L, ∀ j ∈ c.tail, j ∉ items.map (·.index)
  /-- value bytes, flag and counter are what the keyed read of the slot returns; the reported tail
  is the one stored in the slot -/
  read : ∀ it ∈ items, it.tail = storedTail t it.index ∧
    readChain t (.partialKey it.tail) it.index = .ok (some (it.value, it.compressed, it.rc))

theorem scan_exact (t : VT) (F : List Nat) (L : List (List Nat)) (hes : PARTIAL_SIZE ≤ t.entrySize)
    (hinv : SlotInv t F L)
    (hparts : ∀ c ∈ L, ∀ j ∈ c.tail, t.multipart = true ∧ ¬ isMultiHead (t.slots j))
    (hheads : ∀ c ∈ L, (absVT t (c.headD 0)).isSome = true) :
    ∃ items, t.scan = .ok items ∧ ScanExact t F L items := by
  have hF : ∀ j ∈ F, isTombstone (t.slots j) := fun j hj => (FreeChain_mem t _ _ hinv.free j hj).2.2
  -- no error below the fill mark
  have hok : ∀ j, 1 ≤ j → j < 1 + (t.filled - 1) → ∃ o, fetchSlot t j = .ok o := by
    intro j h1 h2
    rcases slot_class t F L hinv j h1 (by omega) with hf | ⟨c, hc, hj⟩ | ⟨c, hc, hj⟩
    · exact ⟨none, fetchSlot_tombstone t j (hF j hf)⟩
    · exact ⟨none, fetchSlot_part t j (hparts c hc j hj).1 (hparts c hc j hj).2⟩
    · have := hheads c hc
      rw [hj] at this
      cases ha : absVT t j with
      | none => rw [ha] at this; cases this
      | some x =>
        obtain ⟨n, hf, _⟩ := slotItem_of_abs t hes j x ha
        exact ⟨_, hf⟩
  have hscan := scanFrom_ok t (t.filled - 1) 1 hok
  have hidx : ∀ j it, slotItem t j = some it → it.index = j :=
    fun j it h => (slotItem_some t hes j it h).1
  have hmap := filterMap_index (slotItem t) hidx (List.range' 1 (t.filled - 1))
  have hmem : ∀ i, i ∈ ((List.range' 1 (t.filled - 1)).filterMap (slotItem t)).map (·.index) ↔
      (1 ≤ i ∧ i < t.filled) ∧ (absVT t i).isSome = true := by
    intro i
    rw [hmap, List.mem_filter, List.mem_range'_1, ← slotItem_map_abs t hes i, Option.isSome_map]
    constructor
    · rintro ⟨⟨a, b⟩, c⟩; exact ⟨⟨a, by omega⟩, c⟩
    · rintro ⟨⟨a, b⟩, c⟩; exact ⟨⟨a, by omega⟩, c⟩
  refine ⟨_, hscan, ⟨?_, ?_, ?_, ?_, ?_, ?_⟩⟩
  · rw [List.map_filterMap]
    congr 1
    funext j
    exact slotItem_map_abs t hes j
  · rw [hmap]
    exact List.Pairwise.sublist List.filter_sublist List.pairwise_lt_range'
  · intro i
    rw [hmem]
    constructor
    · rintro ⟨⟨h1, h2⟩, hs⟩
      rcases slot_class t F L hinv i h1 h2 with hf | ⟨c, hc, hj⟩ | h
      · rw [absVT_tombstone t i (hF i hf)] at hs; cases hs
      · rw [absVT_nonhead t i (hparts c hc i hj).1 (hparts c hc i hj).2] at hs; cases hs
      · exact h
    · rintro ⟨c, hc, rfl⟩
      have hne : c ≠ [] := IsChain_ne_nil t c (hinv.chains c hc)
      exact ⟨hinv.range _ (List.mem_append_right _ (List.mem_flatten.mpr ⟨c, hc, headD_mem c hne⟩)),
        hheads c hc⟩
  · intro i hi hm
    have := ((hmem i).mp hm).2
    rw [absVT_tombstone t i (hF i hi)] at this; cases this
  · intro c hc j hj hm
    have := ((hmem j).mp hm).2
    rw [absVT_nonhead t j (hparts c hc j hj).1 (hparts c hc j hj).2] at this; cases this
  · intro it hit
    obtain ⟨j, _, hj⟩ := List.mem_filterMap.mp hit
    obtain ⟨e1, e2, e3, _⟩ := slotItem_some t hes j it hj
    rw [e1]; exact ⟨e2, e3⟩

/-- the same from R2's `RepL`: the scan reports the cells of the abstract store `A`, in slot order,
one item per live chain -/
theorem scan_exact_rep (t : VT) (A : AStore) (L : List (List Nat))
    (hes : PARTIAL_SIZE ≤ t.entrySize) (hr : RepL t A L) :
    ∃ items, t.scan = .ok items ∧ ScanExact t A.tier.free L items ∧
      items.map Item.cell = (List.range' 1 (t.filled - 1)).filterMap A.cell := by
  obtain ⟨items, h1, h2⟩ := scan_exact t A.tier.free L hes hr.inv hr.parts
    (fun c hc => by rw [(hr.heads c hc).1]; exact (hr.heads c hc).2.1)
  refine ⟨items, h1, h2, ?_⟩
  rw [h2.cells]
  congr 1
  funext i
  exact hr.cells i

end Pdb.ValueIter
