/-
C12: life times.  The state `Db::open` finds after a power loss (`crashSt`) satisfies the same
invariant as the states of a first life time (with the replay horizon `hz` = newest surviving
record), so the discipline and the recovery theorem carry over to any number of life times;
records that were synced at any instant are never lost nor changed afterwards.
-/
import Pdb.Proofs.C12Same

set_option linter.unusedSectionVars false
set_option linter.unusedSimpArgs false
set_option linter.unusedVariables false
namespace Pdb
namespace Dur
variable {V : Type}

/-! ### how many records survive -/

theorem foldl_max_le (xs : List (Nat × Rec Loc V)) (m b : Nat) (hm : m ≤ b)
    (h : ∀ x ∈ xs, x.1 ≤ b) : xs.foldl (fun m y => max m y.1) m ≤ b := by
  induction xs generalizing m with
  | nil => exact hm
  | cons a xs ih =>
    simp only [List.foldl_cons]
    apply ih
    · have := h a List.mem_cons_self; omega
    · intro x hx; exact h x (List.mem_cons_of_mem _ hx)

/-- `keepOf` is the bound of `survivors_spec`. -/
theorem keepOf_spec {t0 : Tbl Loc V} {s : St V} (h : Inv t0 s) (c : Choice) :
    s.synced ≤ keepOf s c ∧ keepOf s c ≤ s.recs.length ∧ s.cleaned ≤ keepOf s c ∧
      ∀ id ws, (id, ws) ∈ survivors s c ↔
        (s.cleaned < id ∧ id ≤ keepOf s c ∧ ws = recOf s.recs id) := by
  obtain ⟨keep, k1, k2, k3, k4⟩ := survivors_spec h c
  have hk : keepOf s c = keep := by
    unfold keepOf
    have hle : maxId (survivors s c) ≤ keep := by
      unfold maxId
      apply foldl_max_le _ _ _ (Nat.zero_le _)
      intro x hx
      obtain ⟨a, b⟩ := x
      exact ((k4 a b).mp hx).2.1
    by_cases e : s.cleaned < keep
    · have hm := (k4 keep (recOf s.recs keep)).mpr ⟨e, Nat.le_refl _, rfl⟩
      have hge : keep ≤ maxId (survivors s c) := (le_foldl_max _ 0).2 _ hm
      omega
    · omega
  rw [hk]
  exact ⟨k1, k2, k3, k4⟩

theorem recOf_take (recs : List (Rec Loc V)) (k id : Nat) (h1 : 1 ≤ id) (h2 : id ≤ k) :
    recOf (recs.take k) id = recOf recs id := by
  unfold recOf
  simp only [List.getD_eq_getElem?_getD]
  rw [List.getElem?_take]
  have : id - 1 < k := by omega
  simp [this]

theorem tablesAfter_take (t0 : Tbl Loc V) (recs : List (Rec Loc V)) (k n : Nat) (h : n ≤ k) :
    tablesAfter t0 (recs.take k) n = tablesAfter t0 recs n := by
  unfold tablesAfter
  rw [List.take_take]
  congr 2
  omega

/-! ### the invariant holds in the state `Db::open` starts from -/

theorem mem_crashLogs {s : St V} {c : Choice} {lf' : LogFile V} (h : lf' ∈ crashLogs s c) :
    ∃ lf ∈ s.logs, lf'.file = lf.file ∧ lf'.recs = imgLog c lf ∧
      lf'.nsynced = (imgLog c lf).length ∧ imgLog c lf ≠ [] := by
  unfold crashLogs at h
  obtain ⟨hm, hne⟩ := List.mem_filter.mp h
  obtain ⟨lf, hlf, rfl⟩ := List.mem_map.mp hm
  refine ⟨lf, hlf, rfl, rfl, rfl, ?_⟩
  intro e
  have : (imgFile c lf).recs = [] := e
  simp [this] at hne

theorem crashLogs_mem {s : St V} {c : Choice} {lf : LogFile V} (h : lf ∈ s.logs)
    (hne : imgLog c lf ≠ []) :
    imgFile c lf ∈ crashLogs s c := by
  unfold crashLogs
  refine List.mem_filter.mpr ⟨List.mem_map.mpr ⟨lf, h, rfl⟩, ?_⟩
  show (!(imgLog c lf).isEmpty) = true
  cases hh : imgLog c lf with
  | nil => exact absurd hh hne
  | cons a as => simp

theorem LogI.crash {t0 : Tbl Loc V} {s : St V} (h : Inv t0 s) (c : Choice) :
    LogI (crashLogs s c) (s.recs.take (keepOf s c)) s.cleaned none (keepOf s c) := by
  obtain ⟨k1, k2, k3, k4⟩ := keepOf_spec h c
  have hlen : (s.recs.take (keepOf s c)).length = keepOf s c := by
    rw [List.length_take]; omega
  -- a member of the image of a log file is a survivor
  have hsurv : ∀ lf ∈ s.logs, ∀ id ws, (id, ws) ∈ imgLog c lf →
      s.cleaned < id ∧ id ≤ keepOf s c ∧ ws = recOf s.recs id := by
    intro lf hlf id ws hm
    apply (k4 id ws).mp
    unfold survivors
    exact List.mem_flatMap.mpr ⟨lf, hlf, hm⟩
  refine ⟨?_, ?_, ?_, ?_⟩
  · have hsub : ((crashLogs s c).map (fun lf => lf.file)).Sublist (s.logs.map (fun lf => lf.file)) := by
      unfold crashLogs
      have e : s.logs.map (fun lf => lf.file) =
          (s.logs.map (imgFile c)).map (fun lf => lf.file) := by
        rw [List.map_map]; rfl
      rw [e]
      exact List.Sublist.map _ List.filter_sublist
    exact List.Pairwise.sublist hsub h.log.nodup
  · intro lf' hlf'
    obtain ⟨lf, hlf, e1, e2, e3, e4⟩ := mem_crashLogs hlf'
    obtain ⟨first, g1, g2, g3, g4, g5, g6, g7⟩ := h.log.block lf hlf
    have hb : IsBlock s.recs (imgLog c lf) first := by
      unfold imgLog; exact g4.take _
    have hpos : 0 < (imgLog c lf).length := List.length_pos_iff.mpr e4
    -- the last record of the image survives
    have hlast : first + (imgLog c lf).length ≤ keepOf s c + 1 := by
      have hm : (first + ((imgLog c lf).length - 1), recOf s.recs (first + ((imgLog c lf).length - 1))) ∈
          imgLog c lf :=
        (hb.mem _ _).mpr ⟨by omega, by omega, rfl⟩
      have := (hsurv lf hlf _ _ hm).2.1
      omega
    refine ⟨first, g1, by rw [e2]; exact hpos, by rw [e2, hlen]; exact hlast, ?_,
      by rw [e2, e3]; exact Nat.le_refl _, ?_, ?_⟩
    · rw [e2]
      intro i hi
      rw [hb i hi, recOf_take s.recs (keepOf s c) (first + i) (by omega) (by omega)]
    · intro x; cases x
    · intro _; rw [e2, e3]
  · intro id h1 h2
    rw [hlen] at h2
    have hm := (k4 id (recOf s.recs id)).mpr ⟨h1, h2, rfl⟩
    unfold survivors at hm
    obtain ⟨lf, hlf, hin⟩ := List.mem_flatMap.mp hm
    exact ⟨_, crashLogs_mem hlf (List.ne_nil_of_mem hin), recOf s.recs id, hin⟩
  · intro lf1' h1' lf2' h2' id ws1 ws2 m1 m2
    obtain ⟨lf1, hlf1, a1, a2, a3, a4⟩ := mem_crashLogs h1'
    obtain ⟨lf2, hlf2, b1, b2, b3, b4⟩ := mem_crashLogs h2'
    rw [a2] at m1
    rw [b2] at m2
    have m1' : (id, ws1) ∈ lf1.recs := List.mem_of_mem_take m1
    have m2' : (id, ws2) ∈ lf2.recs := List.mem_of_mem_take m2
    have e := h.log.disj lf1 hlf1 lf2 hlf2 id ws1 ws2 m1' m2'
    subst e
    cases lf1'
    cases lf2'
    simp only at a1 a2 a3 b1 b2 b3
    simp only [LogFile.mk.injEq]
    exact ⟨by rw [a1, b1], by rw [a2, b2], by rw [a3, b3]⟩

/-- The state found by `Db::open` after a power loss satisfies the invariant (same `t0`: the
    history of the tables goes on). -/
theorem Inv.crashSt {t0 : Tbl Loc V} {s : St V} (h : Inv t0 s) (c : Choice) :
    Inv t0 (crashSt s c) := by
  obtain ⟨k1, k2, k3, k4⟩ := keepOf_spec h c
  have hlen : (s.recs.take (keepOf s c)).length = keepOf s c := by
    rw [List.length_take]; omega
  refine ⟨⟨Nat.le_refl _, ?_, ?_, Nat.zero_le _, Nat.le_refl _⟩, ⟨?_, ?_, ?_⟩, LogI.crash h c⟩
  · show busyOf s.cleaned 0 ≤ keepOf s c
    simp [busyOf]; exact k3
  · show keepOf s c ≤ (s.recs.take (keepOf s c)).length
    rw [hlen]; exact Nat.le_refl _
  · intro l hl
    show imgTables s c l = ideal t0 (s.recs.take (keepOf s c)) s.cleaned 0 l
    have hl' : ¬ Pend (s.recs.take (keepOf s c)) s.cleaned 0 (keepOf s c) l := hl
    rw [ideal_zero, tablesAfter_take t0 s.recs _ _ k3]
    apply image_agree h c (keepOf s c) k1 l
    intro id a b
    rw [← recOf_take s.recs (keepOf s c) id (by omega) b]
    cases hw : lastW (recOf (s.recs.take (keepOf s c)) id) l with
    | none => rfl
    | some x =>
      exfalso
      apply hl'
      by_cases e : id = s.cleaned + 1
      · left
        subst e
        refine ⟨b, ?_⟩
        simp only [List.drop_zero]
        rw [hw]; simp
      · right
        exact ⟨id, by omega, b, by rw [hw]; simp⟩
  · intro l _; rfl
  · intro d hd
    exact absurd hd (by simp [Dur.crashSt])

/-- Recovery of an image is the table content after the surviving records. -/
theorem recoverImage_keepOf {t0 : Tbl Loc V} {s : St V} (h : Inv t0 s) (c : Choice) :
    recoverImage s c = tablesAfter t0 s.recs (keepOf s c) := by
  obtain ⟨k1, k2, k3, k4⟩ := keepOf_spec h c
  unfold recoverImage
  rw [recover_spec s.recs (survivors s c) s.cleaned (keepOf s c) k3 k2 k4,
    image_core h c (keepOf s c) k1 k2]

/-! ### any number of life times -/

theorem Inv.lives [DecidableEq V] {t0 : Tbl Loc V} (ls : List (Journal V × Choice)) (s : St V)
    (h : Inv t0 s) (ha : livesAccepted s ls = true) : Inv t0 (livesFrom s ls) := by
  induction ls generalizing s with
  | nil => exact h
  | cons x ls ih =>
    obtain ⟨j, c⟩ := x
    simp only [livesAccepted, Bool.and_eq_true] at ha
    exact ih _ ((Inv.stateFrom j s h ha.1).crashSt c) ha.2

/-! ### synced records are never lost nor changed -/

/-- `s'` extends the durable history of `s`. -/
def Keeps (s s' : St V) : Prop :=
  s.synced ≤ s'.synced ∧ s'.recs.take s.synced = s.recs.take s.synced

theorem Keeps.refl (s : St V) : Keeps s s := ⟨Nat.le_refl _, rfl⟩

theorem Keeps.trans {a b c : St V} (h1 : Keeps a b) (h2 : Keeps b c) : Keeps a c := by
  refine ⟨Nat.le_trans h1.1 h2.1, ?_⟩
  have e1 : c.recs.take a.synced = (c.recs.take b.synced).take a.synced := by
    rw [List.take_take]; congr 1; have := h1.1; omega
  have e2 : b.recs.take a.synced = (b.recs.take a.synced) := rfl
  rw [e1, h2.2, List.take_take]
  have : min a.synced b.synced = a.synced := by have := h1.1; omega
  rw [this, h1.2]

theorem dropLog_fields (s : St V) (f : Nat) :
    (dropLog s f).synced = s.synced ∧ (dropLog s f).recs = s.recs := by
  unfold dropLog
  split <;> exact ⟨rfl, rfl⟩

theorem Keeps.step [DecidableEq V] {t0 : Tbl Loc V} {s : St V} (h : Inv t0 s) (e : Ev V) :
    Keeps s (step s e) := by
  have hsn := h.ctl.sn
  cases e with
  | logAppend r f ws =>
    refine ⟨Nat.le_refl _, ?_⟩
    show (s.recs ++ [ws]).take s.synced = _
    rw [List.take_append_of_le_length hsn]
  | logSync f =>
    refine ⟨?_, rfl⟩
    show s.synced ≤ (if s.cur = some f then s.recs.length else s.synced)
    split
    · exact hsn
    · exact Nat.le_refl _
  | tableWrite r loc val => exact ⟨Nat.le_refl _, rfl⟩
  | enactEnd r => exact ⟨Nat.le_refl _, rfl⟩
  | tableSync t => exact ⟨Nat.le_refl _, rfl⟩
  | tableDelete r t val => exact ⟨Nat.le_refl _, rfl⟩
  | logTruncate f | logDelete f | logReuse f =>
    all_goals
      obtain ⟨e1, e2⟩ := dropLog_fields s f
      exact ⟨by show s.synced ≤ (dropLog s f).synced; rw [e1]; exact Nat.le_refl _,
        by show (dropLog s f).recs.take s.synced = _; rw [e2]⟩

theorem Keeps.journal [DecidableEq V] {t0 : Tbl Loc V} (j : Journal V) (s : St V) (h : Inv t0 s)
    (ha : acceptsFrom s j = true) : Keeps s (stateFrom s j) := by
  induction j generalizing s with
  | nil => exact Keeps.refl s
  | cons e es ih =>
    simp only [acceptsFrom, Bool.and_eq_true, Option.isNone_iff_eq_none] at ha
    have := ih (Dur.step s e) (h.step e ha.1) ha.2
    exact (Keeps.step h e).trans this

theorem Keeps.crash {t0 : Tbl Loc V} {s : St V} (h : Inv t0 s) (c : Choice) :
    Keeps s (crashSt s c) := by
  obtain ⟨k1, k2, k3, k4⟩ := keepOf_spec h c
  refine ⟨k1, ?_⟩
  show (s.recs.take (keepOf s c)).take s.synced = _
  rw [List.take_take]
  congr 1
  omega

theorem Keeps.lives [DecidableEq V] {t0 : Tbl Loc V} (ls : List (Journal V × Choice)) (s : St V)
    (h : Inv t0 s) (ha : livesAccepted s ls = true) : Keeps s (livesFrom s ls) := by
  induction ls generalizing s with
  | nil => exact Keeps.refl s
  | cons x ls ih =>
    obtain ⟨j, c⟩ := x
    simp only [livesAccepted, Bool.and_eq_true] at ha
    have hI := Inv.stateFrom j s h ha.1
    exact ((Keeps.journal j s h ha.1).trans (Keeps.crash hI c)).trans
      (ih _ (hI.crashSt c) ha.2)

theorem livesAccepted_append [DecidableEq V] (s : St V) (l1 l2 : List (Journal V × Choice)) :
    livesAccepted s (l1 ++ l2) = (livesAccepted s l1 && livesAccepted (livesFrom s l1) l2) := by
  induction l1 generalizing s with
  | nil => simp [livesAccepted, livesFrom]
  | cons x l1 ih =>
    obtain ⟨j, c⟩ := x
    simp only [List.cons_append, livesAccepted, livesFrom, ih, Bool.and_assoc]

theorem livesFrom_append (s : St V) (l1 l2 : List (Journal V × Choice)) :
    livesFrom s (l1 ++ l2) = livesFrom (livesFrom s l1) l2 := by
  induction l1 generalizing s with
  | nil => rfl
  | cons x l1 ih =>
    obtain ⟨j, c⟩ := x
    simp only [List.cons_append, livesFrom, ih]

end Dur
end Pdb
