/-
C20, logical level: what a destination column holds after `migrate` re-committed the walk
of a source column.
-/
import Pdb.Model.Migrate

namespace Pdb.Migrate
open Pdb Pdb.Gen

set_option linter.unusedSectionVars false

variable {K V : Type} [DecidableEq K]

/-! ### batching into commits does not matter -/

theorem batch_flatten {α : Type} (size : Nat) (l cur : List α) (nb : Nat) :
    (batch size l cur nb).flatten = cur ++ l := by
  induction l generalizing cur nb with
  | nil => simp [batch]
  | cons x xs ih =>
    unfold batch
    split
    · simp [ih]
    · simp [ih]

theorem commitsOf_flatten (ops : List (Op K V)) : (commitsOf ops).flatten = ops := by
  simp [commitsOf, batch_flatten]

theorem batch_ne_nil {α : Type} (size : Nat) (l cur : List α) (nb : Nat) :
    batch size l cur nb ≠ [] := by
  induction l generalizing cur nb with
  | nil => simp [batch]
  | cons x xs ih =>
    unfold batch
    split
    · simp
    · exact ih _ _

/-- Every commit except possibly the last holds exactly `size` operations. -/
theorem batch_sizes {α : Type} (size : Nat) (l cur : List α) (nb : Nat) (hnb : cur.length = nb)
    (hlt : nb < size) :
    ∀ c ∈ (batch size l cur nb).dropLast, c.length = size := by
  induction l generalizing cur nb with
  | nil => simp [batch]
  | cons x xs ih =>
    unfold batch
    split
    · rename_i h
      intro c hc
      have hne : batch size xs [] 0 ≠ [] := batch_ne_nil size xs [] 0
      rw [List.dropLast_cons_of_ne_nil hne] at hc
      rcases List.mem_cons.mp hc with rfl | hc
      · simp [hnb, h]
      · exact ih [] 0 rfl (by omega) c hc
    · rename_i h
      exact ih (cur ++ [x]) (nb + 1) (by simp [hnb]) (by omega)

theorem migrateWith_eq (walk : List (Item K V)) (sets : Item K V → List (Op K V)) (kd : Kind) :
    migrateWith walk sets kd = applyOps (fun _ => kd) (fun _ => none) (walk.flatMap sets) := by
  simp [migrateWith, spec, commitsOf_flatten]

/-! ### the executable form used by the driver -/

theorem alGet_cons (p : K × Cell V) (al : List (K × Cell V)) (x : K) :
    alGet (p :: al) x = if x = p.1 then p.2 else alGet al x := by
  unfold alGet
  simp only [List.find?_cons]
  by_cases h : p.1 = x
  · simp [h]
  · have h' : ¬ x = p.1 := fun e => h e.symm
    simp [h, h']

theorem alGet_applyOp (kd : Kind) (al : List (K × Cell V)) (op : Op K V) :
    alGet (alApplyOp kd al op) = applyOp (fun _ => kd) (alGet al) op := by
  funext x
  simp [alApplyOp, alGet_cons, applyOp, upd]

theorem alGet_foldl (kd : Kind) (ops : List (Op K V)) (al : List (K × Cell V)) :
    alGet (ops.foldl (alApplyOp kd) al) = applyOps (fun _ => kd) (alGet al) ops := by
  induction ops generalizing al with
  | nil => rfl
  | cons op ops ih => simp only [List.foldl_cons, applyOps, ih, alGet_applyOp]

theorem migrateExec_get (walk : List (Item K V)) (sets : Item K V → List (Op K V)) (kd : Kind) :
    alGet (migrateExec walk sets kd) = migrateWith walk sets kd := by
  unfold migrateExec
  rw [alGet_foldl, migrateWith_eq, commitsOf_flatten]
  rfl

/-! ### operations on one key -/

/-- Folding operations over one cell. -/
def cellFold (kd : Kind) (ops : List (Op K V)) (c : Cell V) : Cell V :=
  ops.foldl (fun c op => applyCell kd op c) c

theorem applyOps_same_key (kd : Kind) (k : K) (ops : List (Op K V)) (hk : ∀ op ∈ ops, op.key = k)
    (t : Tbl K V) (x : K) :
    applyOps (fun _ => kd) t ops x = if x = k then cellFold kd ops (t k) else t x := by
  induction ops generalizing t with
  | nil =>
    by_cases hx : x = k
    · subst hx; simp [applyOps, cellFold]
    · simp [applyOps, hx]
  | cons op ops ih =>
    have hop : op.key = k := hk op (by simp)
    have ih' := ih (fun o ho => hk o (by simp [ho])) (applyOp (fun _ => kd) t op)
    simp only [applyOps, List.foldl_cons] at ih' ⊢
    rw [ih']
    simp only [applyOp, upd, hop, cellFold, List.foldl_cons]
    by_cases hx : x = k
    · simp [hx]
    · simp [hx]

theorem applyOps_append (kind : K → Kind) (t : Tbl K V) (a b : List (Op K V)) :
    applyOps kind t (a ++ b) = applyOps kind (applyOps kind t a) b := by
  simp [applyOps, List.foldl_append]

/-! ### the walk -/

theorem mem_dedup (l : List K) (k : K) : k ∈ dedup l ↔ k ∈ l := by
  induction l with
  | nil => simp [dedup]
  | cons x xs ih =>
    simp only [dedup, List.mem_cons, List.mem_filter, ih, decide_eq_true_eq]
    constructor
    · rintro (h | ⟨h, _⟩)
      · exact Or.inl h
      · exact Or.inr h
    · rintro (h | h)
      · exact Or.inl h
      · by_cases hk : k = x
        · exact Or.inl hk
        · exact Or.inr ⟨h, hk⟩

theorem nodup_dedup (l : List K) : (dedup l).Nodup := by
  induction l with
  | nil => simp [dedup]
  | cons x xs ih =>
    simp only [dedup, List.nodup_cons, List.mem_filter, decide_eq_true_eq]
    exact ⟨fun h => h.2 rfl, ih.filter _⟩

theorem mem_dedup_all (s : SrcCol K V) (k : K) :
    k ∈ dedup (s.older.flatten ++ s.top) ↔ s.indexed k = true := by
  rw [mem_dedup]
  simp only [SrcCol.indexed, List.mem_append, Bool.or_eq_true, decide_eq_true_eq]
  exact Or.comm

/-- All operations `sets` emits for an item act on the item's key. -/
def KeyLocal (sets : Item K V → List (Op K V)) : Prop := ∀ e, ∀ op ∈ sets e, op.key = e.1

theorem keyLocal_setsOf : KeyLocal (setsOf (K := K) (V := V)) := by
  intro e op h
  simp only [setsOf, List.mem_replicate] at h
  rw [h.2]; rfl

theorem keyLocal_setsOfBuggy (empty : V) : KeyLocal (setsOfBuggy (K := K) empty) := by
  intro e op h
  unfold setsOfBuggy at h
  split at h
  · simp at h
  · simp only [List.mem_cons, List.mem_replicate] at h
    rcases h with rfl | ⟨_, rfl⟩ <;> rfl

/-- Destination cell by cell: the walk of a duplicate-free key list. -/
theorem applyOps_walk (s : SrcCol K V) (sets : Item K V → List (Op K V)) (hs : KeyLocal sets)
    (kd : Kind) (keys : List K) (hn : keys.Nodup) (t : Tbl K V) (x : K) :
    applyOps (fun _ => kd) t ((keys.filterMap (itemOf s)).flatMap sets) x =
      if x ∈ keys then
        (match s.cell x with
         | some c => cellFold kd (sets (x, c.2, c.1)) (t x)
         | none => t x)
      else t x := by
  induction keys generalizing t with
  | nil => simp [applyOps]
  | cons k ks ih =>
    have hk : k ∉ ks := (List.nodup_cons.mp hn).1
    have hks : ks.Nodup := (List.nodup_cons.mp hn).2
    cases hc : s.cell k with
    | none =>
      have : itemOf s k = none := by simp [itemOf, hc]
      rw [List.filterMap_cons_none this, ih hks]
      by_cases hx : x = k
      · subst hx; simp [hk, hc]
      · simp [hx]
    | some c =>
      have : itemOf s k = some (k, c.2, c.1) := by simp [itemOf, hc]
      rw [List.filterMap_cons_some this, List.flatMap_cons, applyOps_append, ih hks]
      rw [applyOps_same_key kd k _ (hs (k, c.2, c.1)) t x]
      by_cases hx : x = k
      · subst hx; simp [hk, hc]
      · simp [hx]

/-! ### what `rc` Sets leave in a cell -/

theorem cellFold_nil (kd : Kind) (c : Cell V) : cellFold (K := K) kd [] c = c := rfl

theorem cellFold_cons (kd : Kind) (op : Op K V) (ops : List (Op K V)) (c : Cell V) :
    cellFold kd (op :: ops) c = cellFold kd ops (applyCell kd op c) := rfl

theorem applyCell_set_none (kd : Kind) (k : K) (v : V) :
    applyCell kd (Op.set k v) none = some (v, 1) := by cases kd <;> rfl

theorem applyCell_set_plain (k : K) (v : V) (c : Cell V) :
    applyCell .plain (Op.set k v) c = some (v, 1) := rfl

theorem applyCell_set_pre_some (k : K) (v : V) (c : V × Nat) :
    applyCell .preimage (Op.set k v) (some c) = some c := rfl

theorem applyCell_set_rc_some (k : K) (v v0 : V) (n : Nat) :
    applyCell .rc (Op.set k v) (some (v0, n)) = some (v0, incRc n) := rfl

theorem incRc_lt (m : Nat) (h : m + 1 < LOCKED) : incRc m = m + 1 := by
  unfold incRc
  have : ¬ (m ≥ LOCKED - 1) := by omega
  simp [this]

theorem cellFold_replicate_rc_some (k : K) (v v0 : V) (j m : Nat) (h : m + j < LOCKED) :
    cellFold .rc (List.replicate j (Op.set k v)) (some (v0, m)) = some (v0, m + j) := by
  induction j generalizing m with
  | zero => rfl
  | succ j ih =>
    rw [List.replicate_succ, cellFold_cons, applyCell_set_rc_some, incRc_lt m (by omega),
      ih (m + 1) (by omega)]
    congr 2; omega

theorem cellFold_replicate_pre_some (k : K) (v : V) (c0 : V × Nat) (j : Nat) :
    cellFold .preimage (List.replicate j (Op.set k v)) (some c0) = some c0 := by
  induction j with
  | zero => rfl
  | succ j ih => rw [List.replicate_succ, cellFold_cons, applyCell_set_pre_some, ih]

theorem cellFold_replicate_plain (k : K) (v : V) (c : Cell V) (j : Nat) :
    cellFold .plain (List.replicate (j + 1) (Op.set k v)) c = some (v, 1) := by
  induction j generalizing c with
  | zero => rfl
  | succ j ih => rw [List.replicate_succ, cellFold_cons, ih]

/-- `n` Sets of `(k, v)` into an absent cell. -/
theorem cellFold_setsOf (kd : Kind) (k : K) (v : V) (n : Nat) (h1 : 1 ≤ n) (hl : n < LOCKED) :
    cellFold kd (setsOf (k, n, v)) none = expectCell kd (some (v, n)) := by
  obtain ⟨j, rfl⟩ : ∃ j, n = j + 1 := ⟨n - 1, by omega⟩
  show cellFold kd (List.replicate (j + 1) (Op.set k v)) none = _
  cases kd with
  | plain => rw [cellFold_replicate_plain]; rfl
  | preimage =>
    rw [List.replicate_succ, cellFold_cons, applyCell_set_none, cellFold_replicate_pre_some]; rfl
  | rc =>
    rw [List.replicate_succ, cellFold_cons, applyCell_set_none,
      cellFold_replicate_rc_some k v v j 1 (by omega)]
    simp [expectCell]; omega

/-- The loop before fix F6 into an absent cell: right unless the destination is plain. -/
theorem cellFold_setsOfBuggy (empty : V) (kd : Kind) (k : K) (v : V) (n : Nat) (h1 : 1 ≤ n)
    (hl : n < LOCKED) :
    cellFold kd (setsOfBuggy empty (k, n, v)) none =
      if kd = .plain ∧ 2 ≤ n then some (empty, 1) else expectCell kd (some (v, n)) := by
  obtain ⟨j, rfl⟩ : ∃ j, n = j + 1 := ⟨n - 1, by omega⟩
  show cellFold kd (Op.set k v :: List.replicate j (Op.set k empty)) none = _
  rw [cellFold_cons, applyCell_set_none]
  cases kd with
  | plain =>
    cases j with
    | zero => simp [cellFold_nil, expectCell]
    | succ j => rw [cellFold_replicate_plain]; simp
  | preimage => rw [cellFold_replicate_pre_some]; simp [expectCell]
  | rc =>
    rw [cellFold_replicate_rc_some k empty v j 1 (by omega)]
    simp [expectCell]; omega

/-! ### destination = source -/

/-- Destination content for any walk over a duplicate-free key list, in terms of the cells. -/
theorem migrateWith_keys (s : SrcCol K V) (sets : Item K V → List (Op K V)) (hs : KeyLocal sets)
    (kd : Kind) (keys : List K) (hn : keys.Nodup) (x : K) :
    migrateWith (keys.filterMap (itemOf s)) sets kd x =
      if x ∈ keys then
        (match s.cell x with
         | some c => cellFold kd (sets (x, c.2, c.1)) none
         | none => none)
      else none := by
  rw [migrateWith_eq, applyOps_walk s sets hs kd keys hn]

theorem migrateCol_eq (s : SrcCol K V) (hwf : s.WF) (kd : Kind) (k : K) :
    migrateCol kd s k = expectCell kd (s.content k) := by
  unfold migrateCol iterIndexAll
  rw [migrateWith_keys s setsOf keyLocal_setsOf kd _ (nodup_dedup _)]
  simp only [mem_dedup_all, SrcCol.content]
  by_cases hi : s.indexed k = true
  · simp only [hi, if_true]
    cases hc : s.cell k with
    | none => simp [expectCell]
    | some c =>
      obtain ⟨v, n⟩ := c
      have := hwf.count_ok k v n hc
      simpa using cellFold_setsOf kd k v n this.1 this.2
  · simp [hi, expectCell]

theorem migrateColTopOnly_eq (s : SrcCol K V) (hwf : s.WF) (hn : s.top.Nodup) (kd : Kind) (k : K) :
    migrateColTopOnly kd s k = if k ∈ s.top then expectCell kd (s.cell k) else none := by
  unfold migrateColTopOnly iterIndex
  rw [migrateWith_keys s setsOf keyLocal_setsOf kd _ hn]
  by_cases hi : k ∈ s.top
  · simp only [hi, if_true]
    cases hc : s.cell k with
    | none => simp [expectCell]
    | some c =>
      obtain ⟨v, n⟩ := c
      have := hwf.count_ok k v n hc
      simpa using cellFold_setsOf kd k v n this.1 this.2
  · simp [hi]

theorem migrateColBuggy_eq (empty : V) (s : SrcCol K V) (hwf : s.WF) (hn : s.top.Nodup) (kd : Kind)
    (k : K) :
    migrateColBuggy empty kd s k =
      if k ∈ s.top then
        (match s.cell k with
         | some c => if kd = .plain ∧ 2 ≤ c.2 then some (empty, 1) else expectCell kd (some c)
         | none => none)
      else none := by
  unfold migrateColBuggy iterIndex
  rw [migrateWith_keys s (setsOfBuggy empty) (keyLocal_setsOfBuggy empty) kd _ hn]
  by_cases hi : k ∈ s.top
  · simp only [hi, if_true]
    cases hc : s.cell k with
    | none => rfl
    | some c =>
      obtain ⟨v, n⟩ := c
      have := hwf.count_ok k v n hc
      simpa using cellFold_setsOfBuggy empty kd k v n this.1 this.2
  · simp [hi]

/-! ### completeness of the walks -/

theorem mem_iterIndexAll (s : SrcCol K V) (k : K) (v : V) (n : Nat) :
    (k, n, v) ∈ iterIndexAll s ↔ s.content k = some (v, n) := by
  simp only [iterIndexAll, List.mem_filterMap, itemOf, mem_dedup_all, SrcCol.content]
  constructor
  · rintro ⟨k', hk', h⟩
    cases hc : s.cell k' with
    | none => simp [hc] at h
    | some c =>
      simp only [hc, Option.map_some, Option.some.injEq, Prod.mk.injEq] at h
      obtain ⟨rfl, rfl, rfl⟩ := h
      simp [hk', hc]
  · intro h
    by_cases hi : s.indexed k = true
    · simp only [hi, if_true] at h
      exact ⟨k, hi, by simp [h]⟩
    · simp [hi] at h

theorem mem_iterIndex (s : SrcCol K V) (k : K) (v : V) (n : Nat) :
    (k, n, v) ∈ iterIndex s ↔ k ∈ s.top ∧ s.cell k = some (v, n) := by
  simp only [iterIndex, List.mem_filterMap, itemOf]
  constructor
  · rintro ⟨k', hk', h⟩
    cases hc : s.cell k' with
    | none => simp [hc] at h
    | some c =>
      simp only [hc, Option.map_some, Option.some.injEq, Prod.mk.injEq] at h
      obtain ⟨rfl, rfl, rfl⟩ := h
      exact ⟨hk', hc⟩
  · rintro ⟨hk, hc⟩
    exact ⟨k, hk, by simp [hc]⟩

theorem iterIndexAll_keys_nodup (s : SrcCol K V) : ((iterIndexAll s).map (·.1)).Nodup := by
  have key : ∀ keys : List K, keys.Nodup → ((keys.filterMap (itemOf s)).map (·.1)).Nodup := by
    intro keys
    induction keys with
    | nil => simp
    | cons k ks ih =>
      intro hn
      have hk : k ∉ ks := (List.nodup_cons.mp hn).1
      have hks := ih (List.nodup_cons.mp hn).2
      cases hc : itemOf s k with
      | none => rw [List.filterMap_cons_none hc]; exact hks
      | some e =>
        rw [List.filterMap_cons_some hc, List.map_cons, List.nodup_cons]
        refine ⟨?_, hks⟩
        have he : e.1 = k := by
          simp only [itemOf] at hc
          cases h : s.cell k with
          | none => simp [h] at hc
          | some c => simp [h] at hc; rw [← hc]
        rw [he]
        intro hmem
        obtain ⟨e', he', hk'⟩ := List.mem_map.mp hmem
        obtain ⟨k', hk'', h'⟩ := List.mem_filterMap.mp he'
        have : e'.1 = k' := by
          simp only [itemOf] at h'
          cases h : s.cell k' with
          | none => simp [h] at h'
          | some c => simp [h] at h'; rw [← h']
        exact hk (by rw [← hk', this]; exact hk'')
  exact key _ (nodup_dedup _)

end Pdb.Migrate
