/-
C10: reading trees back (`readNode` / `readTree`) after insertions and dereferences.
-/
import Pdb.Proofs.C10Thm

namespace Pdb.MultiTree
set_option linter.unusedSectionVars false
variable {K D : Type} [DecidableEq K]

/-- The logical subtree at `a` (fuel chosen by the address: children are older). -/
def readAt (view : Addr → Option (Node D)) (a : Addr) : Option (LTree D) :=
  readNode view (a + 1) a

mutual
  /-- The logical tree a `NodeRef` denotes, `Existing a` standing for the subtree `rd a`. -/
  def NRef.expand (rd : Addr → Option (LTree D)) : NRef D → Option (LTree D)
    | .new d cs => (cs.expand rd).map (LTree.node d)
    | .existing a => rd a
  def NRefs.expand (rd : Addr → Option (LTree D)) : NRefs D → Option (List (LTree D))
    | .nil => some []
    | .cons r rs =>
      match r.expand rd with
      | none => none
      | some t => (rs.expand rd).map (t :: ·)
end

theorem mapOpt_congr {α β : Type} (f g : α → Option β) (l : List α)
    (h : ∀ c ∈ l, f c = g c) : mapOpt f l = mapOpt g l := by
  induction l with
  | nil => rfl
  | cons a l ih =>
    simp only [mapOpt]
    rw [h a (by simp), ih (fun c hc => h c (List.mem_cons_of_mem _ hc))]

theorem mapOpt_isSome {α β : Type} (f : α → Option β) (l : List α)
    (h : ∀ c ∈ l, (f c).isSome = true) : (mapOpt f l).isSome = true := by
  induction l with
  | nil => rfl
  | cons a l ih =>
    simp only [mapOpt]
    have ha := h a (by simp)
    obtain ⟨b, hb⟩ := Option.isSome_iff_exists.mp ha
    rw [hb]
    have := ih (fun c hc => h c (List.mem_cons_of_mem _ hc))
    obtain ⟨bs, hbs⟩ := Option.isSome_iff_exists.mp this
    simp [hbs]

def AcyclicView (view : Addr → Option (Node D)) : Prop :=
  ∀ a n, view a = some n → ∀ c ∈ n.children, c < a

/-- With children older than parents any fuel above the address gives the same result. -/
theorem readNode_fuel (view : Addr → Option (Node D)) (hac : AcyclicView view) :
    ∀ (f f' a : Nat), f' ≤ f → a < f' → readNode view f' a = readAt view a := by
  intro f
  induction f with
  | zero => intro f' a h1 h2; omega
  | succ f ih =>
    intro f' a h1 h2
    by_cases hle : f' ≤ f
    · exact ih f' a hle h2
    · have hf' : f' = f + 1 := by omega
      subst hf'
      simp only [readAt, readNode]
      cases hv : view a with
      | none => rfl
      | some n =>
        simp only
        congr 1
        apply mapOpt_congr
        intro c hc
        have hca := hac a n hv c hc
        rw [ih f c (Nat.le_refl _) (by omega), ih a c (by omega) hca]

/-- Views that agree below `n` (one of them acyclic) read the same below `n`. -/
theorem readNode_agree (v1 v2 : Addr → Option (Node D)) (hac : AcyclicView v1) (n : Nat)
    (hag : ∀ b, b < n → v1 b = v2 b) :
    ∀ (f a : Nat), a < n → readNode v1 f a = readNode v2 f a := by
  intro f
  induction f with
  | zero => intro a _; rfl
  | succ f ih =>
    intro a han
    simp only [readNode]
    rw [← hag a han]
    cases hv : v1 a with
    | none => rfl
    | some m =>
      simp only
      congr 1
      apply mapOpt_congr
      intro c hc
      exact ih c (by have := hac a m hv c hc; omega)

theorem readAt_agree (v1 v2 : Addr → Option (Node D)) (hac : AcyclicView v1) (n : Nat)
    (hag : ∀ b, b < n → v1 b = v2 b) (a : Nat) (ha : a < n) : readAt v1 a = readAt v2 a :=
  readNode_agree v1 v2 hac n hag (a + 1) a ha

theorem Shape.acyclicView {h : Heap K D} (hs : Shape h) : AcyclicView h.nodes.get := hs.acyclic

/-- Every present node of a sound heap reads back as some logical tree. -/
theorem readAt_total (h : Heap K D) (hs : Shape h) :
    ∀ (m a : Nat), a ≤ m → present h a → (readAt h.nodes.get a).isSome = true := by
  intro m
  induction m with
  | zero =>
    intro a ham ha
    obtain ⟨n, hn⟩ := (present_iff h a).mp ha
    have ha0 : a = 0 := by omega
    subst ha0
    simp only [readAt, readNode, hn]
    have : n.children = [] := by
      cases hc : n.children with
      | nil => rfl
      | cons c cs => have := hs.acyclic 0 n hn c (by simp [hc]); omega
    simp [this, mapOpt]
  | succ m ih =>
    intro a ham ha
    obtain ⟨n, hn⟩ := (present_iff h a).mp ha
    simp only [readAt, readNode, hn]
    have : (mapOpt (readNode h.nodes.get a) n.children).isSome = true := by
      apply mapOpt_isSome
      intro c hc
      have hca := hs.acyclic a n hn c hc
      rw [readNode_fuel _ hs.acyclicView a a c (Nat.le_refl _) hca]
      exact ih c (by omega) (hs.closedN a n hn c hc)
    obtain ⟨ts, hts⟩ := Option.isSome_iff_exists.mp this
    simp [hts]

/-- A sub-heap (nodes only removed) that is itself sound reads every one of its nodes exactly as
    the bigger heap does. -/
theorem readAt_sub (h h' : Heap K D) (hs : Shape h) (hs' : Shape h')
    (hsub : ∀ b n, h'.nodes.get b = some n → h.nodes.get b = some n) :
    ∀ (m a : Nat), a ≤ m → present h' a → readAt h'.nodes.get a = readAt h.nodes.get a := by
  intro m
  induction m with
  | zero =>
    intro a ham ha
    obtain ⟨n, hn⟩ := (present_iff h' a).mp ha
    have ha0 : a = 0 := by omega
    subst ha0
    simp only [readAt, readNode, hn, hsub 0 n hn]
  | succ m ih =>
    intro a ham ha
    obtain ⟨n, hn⟩ := (present_iff h' a).mp ha
    simp only [readAt, readNode, hn, hsub a n hn]
    congr 1
    apply mapOpt_congr
    intro c hc
    have hca := hs'.acyclic a n hn c hc
    rw [readNode_fuel _ hs'.acyclicView a a c (Nat.le_refl _) hca,
      readNode_fuel _ hs.acyclicView a a c (Nat.le_refl _) hca]
    exact ih c (by omega) (hs'.closedN a n hn c hc)

mutual
  theorem NRef.expand_congr (h : Heap K D) (rd1 rd2 : Addr → Option (LTree D))
      (hag : ∀ x, present h x → rd1 x = rd2 x) :
      ∀ r : NRef D, r.live h → r.expand rd1 = r.expand rd2
    | .new d cs, hl => by
      simp only [NRef.live] at hl
      simp only [NRef.expand, NRefs.expand_congr h rd1 rd2 hag cs hl]
    | .existing a, hl => by
      simp only [NRef.live] at hl
      simp only [NRef.expand]; exact hag a hl
  theorem NRefs.expand_congr (h : Heap K D) (rd1 rd2 : Addr → Option (LTree D))
      (hag : ∀ x, present h x → rd1 x = rd2 x) :
      ∀ rs : NRefs D, rs.live h → rs.expand rd1 = rs.expand rd2
    | .nil, _ => rfl
    | .cons r rs, hl => by
      simp only [NRefs.live] at hl
      simp only [NRefs.expand, NRef.expand_congr h rd1 rd2 hag r hl.1,
        NRefs.expand_congr h rd1 rd2 hag rs hl.2]
end

mutual
  theorem NRef.expand_isSome (h : Heap K D) (rd : Addr → Option (LTree D))
      (hrd : ∀ x, present h x → (rd x).isSome = true) :
      ∀ r : NRef D, r.live h → (r.expand rd).isSome = true
    | .new d cs, hl => by
      simp only [NRef.live] at hl
      have := NRefs.expand_isSome h rd hrd cs hl
      obtain ⟨ts, hts⟩ := Option.isSome_iff_exists.mp this
      simp [NRef.expand, hts]
    | .existing a, hl => by
      simp only [NRef.live] at hl
      simp only [NRef.expand]; exact hrd a hl
  theorem NRefs.expand_isSome (h : Heap K D) (rd : Addr → Option (LTree D))
      (hrd : ∀ x, present h x → (rd x).isSome = true) :
      ∀ rs : NRefs D, rs.live h → (rs.expand rd).isSome = true
    | .nil, _ => rfl
    | .cons r rs, hl => by
      simp only [NRefs.live] at hl
      have h1 := NRef.expand_isSome h rd hrd r hl.1
      have h2 := NRefs.expand_isSome h rd hrd rs hl.2
      obtain ⟨t, ht⟩ := Option.isSome_iff_exists.mp h1
      obtain ⟨ts, hts⟩ := Option.isSome_iff_exists.mp h2
      simp [NRefs.expand, ht, hts]
end

/- The nodes written for a reference read back as the tree the reference denotes. -/
mutual
  theorem insRef_read (ap : Bool) : ∀ (r : NRef D) (h : Heap K D) (n : Addr),
      Shape h → Below h n → r.live h →
      readAt (insRef ap h n r).1.nodes.get (insRef ap h n r).2.2 =
        r.expand (readAt h.nodes.get)
    | .existing a, h, n, hs, hb, hl => by
      cases ap <;> simp [insRef, NRef.expand, incRef]
    | .new d cs, h, n, hs, hb, hl => by
      simp only [NRef.live] at hl
      have ok := insRefs_ok ap cs h n hs hb hl
      have ih := insRefs_read ap cs h n hs hb hl
      rcases hR : insRefs ap h n cs with ⟨h1, n1, as⟩
      simp only [hR] at ok ih
      simp only [insRef, hR, NRef.expand, ← ih]
      have hs2 := write_new_shape h1 ok.shape n1 ok.below d as ok.res
      simp only [readAt, readNode, FMap.get_set, if_true]
      congr 1
      apply mapOpt_congr
      intro c hc
      have hcn : c < n1 := ok.below c (ok.res c hc)
      rw [readNode_fuel _ hs2.acyclicView n1 n1 c (Nat.le_refl _) hcn]
      apply readAt_agree _ _ hs2.acyclicView n1 _ c hcn
      intro b hbn
      have : b ≠ n1 := by omega
      simp [FMap.get_set, this]
  theorem insRefs_read (ap : Bool) : ∀ (rs : NRefs D) (h : Heap K D) (n : Addr),
      Shape h → Below h n → rs.live h →
      mapOpt (readAt (insRefs ap h n rs).1.nodes.get) (insRefs ap h n rs).2.2 =
        rs.expand (readAt h.nodes.get)
    | .nil, h, n, _, _, _ => by simp [insRefs, mapOpt, NRefs.expand]
    | .cons r rs, h, n, hs, hb, hl => by
      simp only [NRefs.live] at hl
      have ok1 := insRef_ok ap r h n hs hb hl.1
      have ih1 := insRef_read ap r h n hs hb hl.1
      rcases hR1 : insRef ap h n r with ⟨h1, n1, a⟩
      simp only [hR1] at ok1 ih1
      have hl2 : rs.live h1 := NRefs.live_mono h h1 (ok1.present_mono hb) rs hl.2
      have ok2 := insRefs_ok ap rs h1 n1 ok1.shape ok1.below hl2
      have ih2 := insRefs_read ap rs h1 n1 ok1.shape ok1.below hl2
      rcases hR2 : insRefs ap h1 n1 rs with ⟨h2, n2, as⟩
      simp only [hR2] at ok2 ih2
      simp only [insRefs, hR1, hR2, mapOpt, NRefs.expand]
      -- the first child is below n1, where h2 and h1 agree
      have han : a < n1 := ok1.below a (ok1.res a (by simp))
      have e1 : readAt h2.nodes.get a = readAt h1.nodes.get a :=
        readAt_agree _ _ ok2.shape.acyclicView n1 ok2.frame a han
      rw [e1, ih1, ih2]
      -- existing references denote the same trees in h1 as in h
      have e2 : rs.expand (readAt h1.nodes.get) = rs.expand (readAt h.nodes.get) := by
        apply NRefs.expand_congr h _ _ _ rs hl.2
        intro x hx
        exact readAt_agree _ _ ok1.shape.acyclicView n ok1.frame x (hb x hx)
      rw [e2]
      cases NRef.expand (readAt h.nodes.get) r <;> rfl
end

end Pdb.MultiTree
