/-
C09: `open_index` (clean reopen and crash recovery): the tables are re-detected from the files
present, the queue order is restored, only the progress counter is lost.
-/
import Pdb.Proofs.C09Reindex

namespace Pdb.Index
open Pdb.Gen Pdb.IndexPage

def SortedBits (l : List Table) : Prop := List.Pairwise (· < ·) (l.map (·.bits))

theorem SortedBits.head_lt {x : Table} {l : List Table} (h : SortedBits (x :: l)) :
    ∀ u ∈ l, x.bits < u.bits := by
  intro u hu
  unfold SortedBits at h
  simp only [List.map_cons] at h
  exact (List.pairwise_cons.1 h).1 u.bits (List.mem_map.2 ⟨u, hu, rfl⟩)

theorem SortedBits.tail {x : Table} {l : List Table} (h : SortedBits (x :: l)) : SortedBits l := by
  unfold SortedBits at h ⊢
  simp only [List.map_cons] at h
  exact (List.pairwise_cons.1 h).2

theorem SortedBits.filter {l : List Table} (h : SortedBits l) (p : Table → Bool) :
    SortedBits (l.filter p) := by
  unfold SortedBits at h ⊢
  exact List.Pairwise.sublist (List.Sublist.map _ List.filter_sublist) h

theorem insertByBits_min (t : Table) (l : List Table) (h : ∀ u ∈ l, t.bits < u.bits) :
    insertByBits t l = t :: l := by
  cases l with
  | nil => rfl
  | cons u us =>
    have := h u (by simp)
    simp only [insertByBits]
    rw [if_pos (Nat.le_of_lt this)]

theorem insertByBits_max (t : Table) (l : List Table) (h : ∀ u ∈ l, u.bits < t.bits) :
    insertByBits t l = l ++ [t] := by
  induction l with
  | nil => rfl
  | cons u us ih =>
    have h1 := h u (by simp)
    simp only [insertByBits]
    rw [if_neg (by omega), ih (fun v hv => h v (List.mem_cons_of_mem _ hv))]
    rfl

theorem sortByBits_sorted (l : List Table) (h : SortedBits l) : sortByBits l = l := by
  induction l with
  | nil => rfl
  | cons x l ih =>
    have : sortByBits (x :: l) = insertByBits x (sortByBits l) := rfl
    rw [this, ih h.tail, insertByBits_min x l h.head_lt]

theorem sortByBits_cons_max (c : Table) (l : List Table) (h : SortedBits l)
    (hc : ∀ u ∈ l, u.bits < c.bits) : sortByBits (c :: l) = l ++ [c] := by
  have : sortByBits (c :: l) = insertByBits c (sortByBits l) := rfl
  rw [this, sortByBits_sorted l h, insertByBits_max c l hc]

/-- `Has` needs a written page: a table without a file holds no entry. -/
theorem Table.hasFile_of_has (t : Table) (kp a : Nat) (h : t.Has kp a) : t.hasFile = true := by
  obtain ⟨i, _, hm, _⟩ := h
  unfold Table.hasFile
  cases hp : t.pages with
  | node l r => rfl
  | bucket l =>
    cases l with
    | cons x xs => rfl
    | nil =>
      exfalso
      have : t.page (t.chunk kp) = emptyPage := by
        simp only [Table.page, hp, Trie.get, alGet, Option.getD_none]
      rw [this] at hm
      exact hm.2 (emptyPage_getD i)

/-- the tables in file order (oldest first, current last) -/
def Col.files (s : Col) : List Table := (s.older ++ [s.current]).filter Table.hasFile

theorem IdxInv.sorted {U : Key → Prop} {s : Col} (h : IdxInv U s) :
    SortedBits (s.older ++ [s.current]) := h.order

theorem sort_files {U : Key → Prop} {s : Col} (h : IdxInv U s) :
    sortByBits ((s.current :: s.older).filter Table.hasFile) = s.files := by
  have hs := h.sorted
  have hold : SortedBits s.older := by
    unfold SortedBits at hs ⊢
    simp only [List.map_append] at hs
    exact (List.pairwise_append.1 hs).1
  have hmax : ∀ u ∈ s.older, u.bits < s.current.bits := by
    intro u hu
    unfold SortedBits at hs
    simp only [List.map_append, List.map_cons, List.map_nil] at hs
    exact (List.pairwise_append.1 hs).2.2 u.bits (List.mem_map.2 ⟨u, hu, rfl⟩) s.current.bits (by simp)
  unfold Col.files
  rw [List.filter_append]
  by_cases hc : s.current.hasFile = true
  · simp only [List.filter_cons, hc, if_true, List.filter_nil]
    exact sortByBits_cons_max s.current _ (hold.filter _)
      (fun u hu => hmax u (List.mem_filter.1 hu).1)
  · have hc' : s.current.hasFile = false := by
      cases h0 : s.current.hasFile with
      | true => exact absurd h0 hc
      | false => rfl
    simp only [List.filter_cons, hc', List.filter_nil, Bool.false_eq_true, if_false, List.append_nil]
    exact sortByBits_sorted _ (hold.filter _)

/-- What `reopen` produces, in terms of the file list. -/
theorem reopen_cases {U : Key → Prop} {s : Col} (h : IdxInv U s) :
    (s.files = [] ∧ reopen s = { s with current := Table.new MIN_INDEX_BITS, older := [], progress := 0 }) ∨
    (∃ init last, s.files = init ++ [last] ∧
      reopen s = { s with current := last, older := init, progress := 0 }) := by
  unfold reopen openIndex
  simp only [sort_files h]
  cases hl : s.files.getLast? with
  | none =>
    left
    exact ⟨List.getLast?_eq_none_iff.1 hl, rfl⟩
  | some last =>
    right
    obtain ⟨ys, hys⟩ := List.getLast?_eq_some_iff.1 hl
    refine ⟨ys, last, hys, ?_⟩
    rw [hys, List.dropLast_concat]

theorem reopen_ok {U : Key → Prop} {s : Col} {m : Key → Option Val} (hG : Good U s m) :
    Good U (reopen s) m := by
  have hI := hG.idx
  have hmemfiles : ∀ t, t ∈ s.files → t ∈ s.tables := by
    intro t ht
    have := (List.mem_filter.1 ht).1
    simp only [Col.tables]
    rcases List.mem_append.1 this with h1 | h1
    · exact List.mem_cons_of_mem _ h1
    · have : t = s.current := by simpa using h1
      rw [this]; simp
  have hfilesmem : ∀ t, t ∈ s.tables → t.hasFile = true → t ∈ s.files := by
    intro t ht hf
    unfold Col.files
    apply List.mem_filter.2
    refine ⟨?_, hf⟩
    simp only [Col.tables] at ht
    rcases List.mem_cons.1 ht with h1 | h1
    · rw [h1]; simp
    · exact List.mem_append_left _ h1
  have hsortedF : SortedBits s.files := hI.sorted.filter _
  rcases reopen_cases hI with ⟨hnil, hre⟩ | ⟨init, last, hfl, hre⟩
  · rw [hre]
    refine hG.frame ?_ (fun _ => rfl) (fun _ => rfl)
    refine ⟨?_, ?_, ?_, hI.inj, ?_, fun _ => rfl⟩
    · intro t ht
      have : t = Table.new MIN_INDEX_BITS := by simpa [Col.tables] using ht
      rw [this]
      exact TableWF.new _ (by decide) (by decide)
    · simp
    · intro a tl ha
      obtain ⟨k, hk, htl, t, ht, hh⟩ := hI.reach a tl ha
      have := hfilesmem t ht (Table.hasFile_of_has t _ _ hh)
      rw [hnil] at this
      exact absurd this (by simp)
    · intro t0 rest hol
      exact absurd hol (by simp)
  · rw [hre]
    refine hG.frame ?_ (fun _ => rfl) (fun _ => rfl)
    have hmem' : ∀ t, t ∈ s.files ↔ t ∈ last :: init := by
      intro t
      rw [hfl]
      simp only [List.mem_append, List.mem_cons, List.not_mem_nil, or_false]
      exact Or.comm
    refine ⟨?_, ?_, ?_, hI.inj, ?_, fun _ => rfl⟩
    · intro t ht
      exact hI.wf t (hmemfiles t ((hmem' t).2 ht))
    · have := hsortedF
      rw [hfl] at this
      exact this
    · intro a tl ha
      obtain ⟨k, hk, htl, t, ht, hh⟩ := hI.reach a tl ha
      have := hfilesmem t ht (Table.hasFile_of_has t _ _ hh)
      exact ⟨k, hk, htl, t, (hmem' t).1 this, hh⟩
    · intro t0 rest _ k a _ _ hch
      exact absurd hch (Nat.not_lt_zero _)

/-- C09_growth_recover (exact form): when every table has its file, reopening restores the same
current table and the same queue in the same order; only the progress counter is lost. -/
theorem reopen_redetects {U : Key → Prop} {s : Col} (hI : IdxInv U s)
    (hc : s.current.hasFile = true) (ho : ∀ t ∈ s.older, t.hasFile = true) :
    reopen s = { s with progress := 0 } := by
  have hfiles : s.files = s.older ++ [s.current] := by
    unfold Col.files
    apply List.filter_eq_self.2
    intro t ht
    rcases List.mem_append.1 ht with h1 | h1
    · exact ho t h1
    · have : t = s.current := by simpa using h1
      rw [this]; exact hc
  rcases reopen_cases hI with ⟨hnil, _⟩ | ⟨init, last, hfl, hre⟩
  · rw [hfiles] at hnil
    exact absurd hnil (by simp)
  · rw [hfiles] at hfl
    have h1 := List.append_inj' hfl (by simp)
    have h2 : s.current = last := by simpa using h1.2
    rw [hre, ← h1.1, ← h2]

theorem recover_ok {U : Key → Prop} {s : Col} {m : Key → Option Val} (hU : Univ U)
    (hG : Good U s m) : Good U (recover s) m :=
  reopen_ok (enactDrop_ok hU hG)

end Pdb.Index
