/-
R6 lemmas, part 15: the DereferenceTree transaction on a plain multitree column, and histories of transactions.
-/
import Pdb.Proofs.RefineMt14

namespace Pdb.MultiTreePhys
open Pdb.Gen Pdb.ValueTable Pdb.MultiTree

/-- `get_root` on a live key returns the abstract root and its count -/
theorem Rep.getRoot {p : PCol} {h : Heap Key Bytes} {ly : Layout} (r : Rep p h ly) (k : Key) (n : Node Bytes)
    (c : Nat) (hg : h.roots.get k = some (n, c)) : physGetRoot p k = some (n, c) := by
  obtain ⟨a, ha, hok, _, hrd⟩ := r.roots.root k n c hg
  unfold physGetRoot
  simp only [ha, Option.bind_some, hrd]
  rw [decode_encode n hok]
  rfl

/-- `get_root` on a key without root entry -/
theorem Rep.getRoot_none {p : PCol} {h : Heap Key Bytes} {ly : Layout} (r : Rep p h ly) (k : Key)
    (hg : h.roots.get k = none) : physGetRoot p k = none := by
  unfold physGetRoot
  simp only [r.roots.rootNone k hg, Option.bind_none]

/-- DereferenceTree(k) as one transaction on a plain multitree column with an empty commit queue: `commit` reads the
    root (children as stored), queues `DereferenceChildren(k, children)`; `process` removes the root entry and walks.
    `hw`: C10's `derefProcess` succeeds (it does under `RcInv`, `C10_walk_fuel`). -/
theorem sim_tx_deref (db : PDb) (h h' : Heap Key Bytes) (ly : Layout) (r : Rep db.col h ly)
    (hv : db.col.variant = .plain) (hq : db.queue = []) (k : Key) (n : Node Bytes) (c : Nat)
    (hg : h.roots.get k = some (n, c)) (hw : derefProcess .plain h k n.children = .ok h') :
    ∃ (db1 : PDb) (p' : PCol) (ly' : Layout),
      db.commit [.dereference k] = (db1, .ok []) ∧ db1.col = db.col ∧
      db1.queue = [⟨[], [.derefChildren k n.children]⟩] ∧
      applyChangeSetH .plain h ⟨[], [.derefChildren k n.children]⟩ = .ok h' ∧
      db1.process = (⟨p', []⟩, .ok ()) ∧ Rep p' h' ly' ∧ p'.variant = .plain ∧ ly'.claimed = ly.claimed := by
  have hview : db.viewRoot k = some n := by
    simp only [PDb.viewRoot, hq, ovRootT, List.reverse_nil, List.findSome?_nil, Option.none_or,
      r.getRoot k n c hg, Option.map_some]
  obtain ⟨p', ly', hp, r', hv', hcl⟩ := sim_derefChange_plain_full db.col h h' ly r k n.children hv (by simp [hg]) hw
  refine ⟨⟨db.col, [⟨[], [.derefChildren k n.children]⟩]⟩, p', ly', ?_, rfl, rfl, ?_, ?_, r', hv'.trans hv, hcl⟩
  · have hval : validateOps db.col.variant db.viewRoot ([POp.dereference k].map POp.toOp) = .ok := by
      simp [List.map_cons, List.map_nil, POp.toOp, validateOps, Op.kind, Validate.validateChange, hv, Variant.opts,
        hview]
    unfold PDb.commit
    rw [hval]
    simp only [List.foldlM_cons, List.foldlM_nil, PDb.asmOp, hview, bind, Except.bind, ChangeSet.empty,
      List.nil_append, hq, pure, Except.pure]
    rfl
  · simp only [applyChangeSetH, ChangeSet.early, ChangeSet.late, List.filter_nil, applyChangeSetF41H, List.foldl_nil,
      List.foldlM_cons, List.foldlM_nil, applyNodeChangeH, hw, bind, Except.bind, pure, Except.pure, Except.map]
  · simp only [PDb.process, physApplyChangeSet, List.foldlM_nil, List.foldlM_cons, pure, Except.pure, bind,
      Except.bind, hp]

end Pdb.MultiTreePhys
