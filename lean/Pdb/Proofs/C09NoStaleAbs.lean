/-
C09 without A-tail: the abstraction relation over (stored values, index entries) that needs no
key universe, and how the elementary changes of a write act on it.

`AbsNF val ent m`: `m k = some v` iff some slot holds `k`'s tail and `v` AND some index entry
with the index-visible bits of `k` points to it (the slot is OWNED by `k`; with `NoStale` all
entries of a slot agree on these bits); a key owns at most one slot.
-/
import Pdb.Proofs.C09NoStaleRun

namespace Pdb.Index
open Pdb.Gen Pdb.IndexPage

/-- some table holds an entry (partial key of `kp`, address `a`) -/
def Ent (s : Col) (kp a : Nat) : Prop := ∃ t ∈ s.tables, t.Has kp a

structure AbsNF (val : Nat → Option Slot) (ent : Nat → Nat → Prop) (m : Key → Option Val) : Prop where
  abs : ∀ k, KeyWF k → ∀ v, m k = some v ↔ ∃ a, val a = some ⟨k.tail, v⟩ ∧ ent k.pre a
  one : ∀ k, KeyWF k → ∀ a1 a2 v1 v2, ent k.pre a1 → ent k.pre a2 →
    val a1 = some ⟨k.tail, v1⟩ → val a2 = some ⟨k.tail, v2⟩ → a1 = a2
  /-- entries depend on the index-visible bits only -/
  visible : ∀ kp1 kp2 a, kp1 < 2 ^ 64 → kp2 < 2 ^ 64 → vis kp1 = vis kp2 → ent kp1 a → ent kp2 a
  /-- all entries of a slot agree on the index-visible bits (`NoStale.agree`) -/
  agree : ∀ kp1 kp2 a, kp1 < 2 ^ 64 → kp2 < 2 ^ 64 → ent kp1 a → ent kp2 a → vis kp1 = vis kp2
  /-- entries point to live slots (`NoStale.live`) -/
  live : ∀ kp a, kp < 2 ^ 64 → ent kp a → (val a).isSome = true

def AbsN (s : Col) (m : Key → Option Val) : Prop := AbsNF s.valAt (Ent s) m

theorem AbsNF.congr {val val' : Nat → Option Slot} {ent ent' : Nat → Nat → Prop}
    {m : Key → Option Val} (h : AbsNF val ent m) (hv : ∀ x, val' x = val x)
    (he : ∀ kp x, kp < 2 ^ 64 → (ent' kp x ↔ ent kp x)) : AbsNF val' ent' m := by
  refine ⟨fun k hk v => ?_, fun k hk a1 a2 v1 v2 e1 e2 h1 h2 => ?_, fun kp1 kp2 a h1 h2 hv' e => ?_,
    fun kp1 kp2 a h1 h2 e1 e2 => ?_, fun kp a hkp e => ?_⟩
  · rw [h.abs k hk v]
    constructor
    · rintro ⟨a, ha, hea⟩; exact ⟨a, by rw [hv]; exact ha, (he _ _ hk.pre_lt).2 hea⟩
    · rintro ⟨a, ha, hea⟩; exact ⟨a, by rw [← hv]; exact ha, (he _ _ hk.pre_lt).1 hea⟩
  · rw [hv] at h1 h2
    exact h.one k hk a1 a2 v1 v2 ((he _ _ hk.pre_lt).1 e1) ((he _ _ hk.pre_lt).1 e2) h1 h2
  · exact (he _ _ h2).2 (h.visible kp1 kp2 a h1 h2 hv' ((he _ _ h1).1 e))
  · exact h.agree kp1 kp2 a h1 h2 ((he _ _ h1).1 e1) ((he _ _ h2).1 e2)
  · rw [hv]; exact h.live kp a hkp ((he _ _ hkp).1 e)

/-- the value of `k` at its slot `a` is replaced -/
theorem AbsNF.inplace {val : Nat → Option Slot} {ent : Nat → Nat → Prop} {m : Key → Option Val}
    (h : AbsNF val ent m) (k : Key) (hk : KeyWF k) (v v0 : Val) (a : Nat)
    (hl : val a = some ⟨k.tail, v0⟩) (hE : ent k.pre a) :
    AbsNF (fun x => if x = a then some ⟨k.tail, v⟩ else val x) ent (upd m k (some v)) := by
  refine ⟨fun k' hk' v' => ?_, fun k' hk' a1 a2 v1 v2 e1 e2 h1 h2 => ?_, h.visible, h.agree,
    fun kp x hkp e => ?_⟩
  · unfold upd
    by_cases hkk : k' = k
    · subst hkk
      simp only [if_true]
      constructor
      · intro e; injection e with e; subst e
        exact ⟨a, by simp, hE⟩
      · rintro ⟨x, hx, hex⟩
        by_cases hxa : x = a
        · subst hxa; simp only [if_true] at hx; injection hx with hx; injection hx with _ hx; rw [hx]
        · simp only [hxa, if_false] at hx
          exact absurd (h.one k' hk' x a _ _ hex hE hx hl) hxa
    · simp only [hkk, if_false]
      rw [h.abs k' hk' v']
      constructor
      · rintro ⟨x, hx, hex⟩
        refine ⟨x, ?_, hex⟩
        by_cases hxa : x = a
        · subst hxa
          exfalso
          rw [hl] at hx
          injection hx with hx; injection hx with ht _
          exact hkk (hk'.ext hk (h.agree _ _ x hk'.pre_lt hk.pre_lt hex hE) ht.symm)
        · simp [hxa, hx]
      · rintro ⟨x, hx, hex⟩
        by_cases hxa : x = a
        · subst hxa
          exfalso
          simp only [if_true] at hx
          injection hx with hx; injection hx with ht _
          exact hkk (hk'.ext hk (h.agree _ _ x hk'.pre_lt hk.pre_lt hex hE) ht.symm)
        · simp only [hxa, if_false] at hx
          exact ⟨x, hx, hex⟩
  · have key : ∀ x w, (if x = a then some (⟨k.tail, v⟩ : Slot) else val x) = some ⟨k'.tail, w⟩ →
        ∃ w', val x = some ⟨k'.tail, w'⟩ := by
      intro x w hx
      by_cases hxa : x = a
      · subst hxa
        simp only [if_true] at hx
        injection hx with hx; injection hx with ht _
        exact ⟨v0, by rw [hl, ht]⟩
      · simp only [hxa, if_false] at hx; exact ⟨w, hx⟩
    obtain ⟨w1, g1⟩ := key a1 v1 h1
    obtain ⟨w2, g2⟩ := key a2 v2 h2
    exact h.one k' hk' a1 a2 w1 w2 e1 e2 g1 g2
  · by_cases hxa : x = a
    · simp [hxa]
    · simp only [hxa, if_false]; exact h.live kp x hkp e

/-- the slot `a` of `k` is freed and all its entries are removed -/
theorem AbsNF.del {val : Nat → Option Slot} {ent : Nat → Nat → Prop} {m : Key → Option Val}
    (h : AbsNF val ent m) (k : Key) (hk : KeyWF k) (v0 : Val) (a : Nat)
    (hl : val a = some ⟨k.tail, v0⟩) (hE : ent k.pre a) :
    AbsNF (fun x => if x = a then none else val x) (fun kp x => ent kp x ∧ x ≠ a) (upd m k none) := by
  refine ⟨fun k' hk' v' => ?_, fun k' hk' a1 a2 v1 v2 e1 e2 h1 h2 => ?_,
    fun kp1 kp2 x h1 h2 hv e => ⟨h.visible kp1 kp2 x h1 h2 hv e.1, e.2⟩,
    fun kp1 kp2 x h1 h2 e1 e2 => h.agree kp1 kp2 x h1 h2 e1.1 e2.1, fun kp x hkp e => ?_⟩
  · unfold upd
    by_cases hkk : k' = k
    · subst hkk
      simp only [if_true]
      constructor
      · intro e; cases e
      · rintro ⟨x, hx, hex, hxa⟩
        simp only [hxa, if_false] at hx
        exact absurd (h.one k' hk' x a _ _ hex hE hx hl) hxa
    · simp only [hkk, if_false]
      rw [h.abs k' hk' v']
      constructor
      · rintro ⟨x, hx, hex⟩
        have hxa : x ≠ a := by
          intro hxa; subst hxa
          rw [hl] at hx
          injection hx with hx; injection hx with ht _
          exact hkk (hk'.ext hk (h.agree _ _ x hk'.pre_lt hk.pre_lt hex hE) ht.symm)
        exact ⟨x, by simp [hxa, hx], hex, hxa⟩
      · rintro ⟨x, hx, hex, hxa⟩
        simp only [hxa, if_false] at hx
        exact ⟨x, hx, hex⟩
  · have hx1 := e1.2
    have hx2 := e2.2
    simp only [hx1, hx2, if_false] at h1 h2
    exact h.one k' hk' a1 a2 v1 v2 e1.1 e2.1 h1 h2
  · have hxa := e.2
    simp only [hxa, if_false]; exact h.live kp x hkp e.1

/-- a value of `k`, which owns no slot, appears at the dead address `an` with entries for `k` -/
theorem AbsNF.new {val : Nat → Option Slot} {ent : Nat → Nat → Prop} {m : Key → Option Val}
    (h : AbsNF val ent m) (k : Key) (hk : KeyWF k) (v : Val) (an : Nat)
    (hdead : val an = none)
    (hnone : ∀ x w, ent k.pre x → val x ≠ some ⟨k.tail, w⟩) :
    AbsNF (fun x => if x = an then some ⟨k.tail, v⟩ else val x)
      (fun kp x => ent kp x ∨ (x = an ∧ vis kp = vis k.pre)) (upd m k (some v)) := by
  have hnoent : ∀ kp, kp < 2 ^ 64 → ¬ ent kp an := by
    intro kp hkp e
    have := h.live kp an hkp e
    rw [hdead] at this; cases this
  refine ⟨fun k' hk' v' => ?_, fun k' hk' a1 a2 v1 v2 e1 e2 h1 h2 => ?_,
    fun kp1 kp2 x h1 h2 hv e => ?_, fun kp1 kp2 x h1 h2 e1 e2 => ?_, fun kp x hkp e => ?_⟩
  · unfold upd
    by_cases hkk : k' = k
    · subst hkk
      simp only [if_true]
      constructor
      · intro e; injection e with e; subst e
        exact ⟨an, by simp, Or.inr (by simp)⟩
      · rintro ⟨x, hx, hex⟩
        by_cases hxa : x = an
        · subst hxa; simp only [if_true] at hx; injection hx with hx; injection hx with _ hx; rw [hx]
        · simp only [hxa, if_false] at hx
          rcases hex with hex | ⟨hex, _⟩
          · exact absurd hx (hnone x v' hex)
          · exact absurd hex hxa
    · simp only [hkk, if_false]
      rw [h.abs k' hk' v']
      constructor
      · rintro ⟨x, hx, hex⟩
        have hxa : x ≠ an := fun e => hnoent _ hk'.pre_lt (e ▸ hex)
        exact ⟨x, by simp [hxa, hx], Or.inl hex⟩
      · rintro ⟨x, hx, hex⟩
        by_cases hxa : x = an
        · subst hxa
          exfalso
          simp only [if_true] at hx
          injection hx with hx; injection hx with ht _
          rcases hex with hex | ⟨_, hex⟩
          · exact hnoent _ hk'.pre_lt hex
          · exact hkk (hk'.ext hk hex ht.symm)
        · simp only [hxa, if_false] at hx
          rcases hex with hex | ⟨hex, _⟩
          · exact ⟨x, hx, hex⟩
          · exact absurd hex hxa
  · -- one slot per key
    have key : ∀ x w, (x = an ∨ ent k'.pre x) →
        (ent k'.pre x ∨ (x = an ∧ vis k'.pre = vis k.pre)) →
        (if x = an then some (⟨k.tail, v⟩ : Slot) else val x) = some ⟨k'.tail, w⟩ →
        (x = an ∧ k' = k) ∨ (x ≠ an ∧ ent k'.pre x ∧ val x = some ⟨k'.tail, w⟩) := by
      intro x w _ hex hx
      by_cases hxa : x = an
      · subst hxa
        simp only [if_true] at hx
        injection hx with hx; injection hx with ht _
        rcases hex with hex | ⟨_, hex⟩
        · exact absurd hex (hnoent _ hk'.pre_lt)
        · exact Or.inl ⟨rfl, hk'.ext hk hex ht.symm⟩
      · simp only [hxa, if_false] at hx
        rcases hex with hex | ⟨hex, _⟩
        · exact Or.inr ⟨hxa, hex, hx⟩
        · exact absurd hex hxa
    have t1 : a1 = an ∨ ent k'.pre a1 := by rcases e1 with e | ⟨e, _⟩; exact Or.inr e; exact Or.inl e
    have t2 : a2 = an ∨ ent k'.pre a2 := by rcases e2 with e | ⟨e, _⟩; exact Or.inr e; exact Or.inl e
    rcases key a1 v1 t1 e1 h1 with ⟨g1, gk⟩ | ⟨g1, ge1, gv1⟩
    · rcases key a2 v2 t2 e2 h2 with ⟨g2, _⟩ | ⟨_, ge2, gv2⟩
      · rw [g1, g2]
      · subst gk; exact absurd gv2 (hnone a2 v2 ge2)
    · rcases key a2 v2 t2 e2 h2 with ⟨_, gk⟩ | ⟨_, ge2, gv2⟩
      · subst gk; exact absurd gv1 (hnone a1 v1 ge1)
      · exact h.one k' hk' a1 a2 v1 v2 ge1 ge2 gv1 gv2
  · rcases e with e | ⟨e1, e2⟩
    · exact Or.inl (h.visible kp1 kp2 x h1 h2 hv e)
    · exact Or.inr ⟨e1, by rw [← hv]; exact e2⟩
  · rcases e1 with e1 | ⟨e1, g1⟩
    · rcases e2 with e2 | ⟨e2, _⟩
      · exact h.agree kp1 kp2 x h1 h2 e1 e2
      · subst e2; exact absurd e1 (hnoent _ h1)
    · rcases e2 with e2 | ⟨_, g2⟩
      · subst e1; exact absurd e2 (hnoent _ h2)
      · rw [g1, g2]
  · by_cases hxa : x = an
    · simp [hxa]
    · simp only [hxa, if_false]
      rcases e with e | ⟨e, _⟩
      · exact h.live kp x hkp e
      · exact absurd e hxa

/-! ## reads -/

/-- C09 read theorem without A-tail: `get` returns the abstract map's value. -/
theorem lookup_eq_N {s : Col} {m : Key → Option Val} (hS : Shape s) (hex : s.cfg.exact = true)
    (hA : AbsN s m) (k : Key) (hk : KeyWF k) : lookup s k = m k := by
  unfold lookup
  cases h : searchAll s k with
  | none =>
    simp only [Option.bind_none]
    cases hm : m k with
    | none => rfl
    | some v =>
      obtain ⟨a, ha, t, ht, hh⟩ := (hA.abs k hk v).1 hm
      have h1 := searchAll_none s k h t ht
      have h2 := searchTable_complete s t k a (hS.wf t ht) hh ((tailAt_eq_some s a k.tail).2 ⟨v, ha⟩)
      rw [h1] at h2; cases h2
  | some r =>
    obtain ⟨j, i, a⟩ := r
    simp only [Option.bind_some]
    obtain ⟨tj, hF⟩ := found_of_search_shape hS k j i a h
    obtain ⟨v, hv⟩ := (tailAt_eq_some s a k.tail).1 hF.live
    rw [hv]
    simp only [Option.map_some]
    exact ((hA.abs k hk v).2 ⟨a, hv, tj, hF.mem, hF.has hex⟩).symm

end Pdb.Index
