/-
C14's multitree clause stated on the DUMP itself (lists of roots / nodes / ref-count entries, no
finite maps, no model heap), and its equivalence with the model invariant on `heapOf d`.

  ForestCore d   (a) no dangling child, (b) count = number of (parent, position) references,
                 (d) acyclic by a rank witness, + addresses identify nodes / roots / entries,
                 ref-count entries ≥ 2 and only for live nodes, root counts ≥ 1
  ForestInv d    ForestCore + (c) every dumped slot reachable or an allowed orphan, allowed orphans
                 isolated, cache = table, column-option rules

  forestCore_iff_invR   ForestCore d ↔ InvR (variantOf d) (heapOf d)
  forestInv_of_ok       RcOk d → ForestInv d
-/
import Pdb.Proofs.DumpCheckRc

namespace Pdb.DumpCheckRc
open Pdb.MultiTree
set_option linter.unusedSectionVars false

/-- addresses of the node slots of the forest -/
def liveAddrs (d : RcDump) : List Nat := (liveNodes d).map Prod.fst

/-- number of (parent, position) references to `a` from live nodes: a child list that contains
    `a` k times contributes k -/
def nodeRefsD (d : RcDump) (a : Nat) : Nat := ((liveNodes d).map fun e => e.2.count a).sum

/-- number of (root entry, position) references to `a` -/
def rootRefsD (d : RcDump) (a : Nat) : Nat := (d.roots.map fun r => r.2.2.count a).sum

/-- the reference count the database holds for `a`: the table entry, else 1
    (ref_count.rs: entries only for counts > 1; no entry = exactly one reference) -/
def countD (d : RcDump) (a : Nat) : Nat := (alLookup a d.rc).getD 1

/-- reachable from a root entry through child lists of live nodes -/
inductive ReachD (d : RcDump) : Nat → Prop where
  | root (r : Nat × Nat × List Nat) (a : Nat) : r ∈ d.roots → a ∈ r.2.2 → ReachD d a
  | step (b : Nat) (cs : List Nat) (a : Nat) :
      ReachD d b → (b, cs) ∈ liveNodes d → a ∈ cs → ReachD d a

structure ForestCore (d : RcDump) : Prop where
  /-- an address is dumped once as a node, once as a root, once in the ref-count tables -/
  nodupN : (liveAddrs d).Nodup
  nodupR : (d.roots.map fun r => r.1).Nodup
  nodupRc : (d.rc.map Prod.fst).Nodup
  /-- (a) no dangling child: every child address of a live node / of a root is a live node -/
  closedN : ∀ e ∈ liveNodes d, ∀ c ∈ e.2, c ∈ liveAddrs d
  closedR : ∀ r ∈ d.roots, ∀ c ∈ r.2.2, c ∈ liveAddrs d
  rootPos : ∀ r ∈ d.roots, 1 ≤ r.2.1
  /-- (b) on columns with a ref-count table: table entries are ≥ 2 and belong to live nodes;
      for every live node count (entry, else 1) = number of referencing (parent, position)
      pairs among live nodes and roots -/
  rcEntries : d.hasRc = true → ∀ e ∈ d.rc, 2 ≤ e.2 ∧ e.1 ∈ liveAddrs d
  counts : d.hasRc = true → ∀ a ∈ liveAddrs d, countD d a = nodeRefsD d a + rootRefsD d a
  /-- (d) acyclic: some rank decreases strictly along every parent → child edge -/
  acyclic : ∃ rank : Nat → Nat, ∀ e ∈ liveNodes d, ∀ c ∈ e.2, rank c < rank e.1

structure ForestInv (d : RcDump) : Prop where
  core : ForestCore d
  /-- ref-count entries name live nodes with counts ≥ 2 on EVERY column (none without table) -/
  rcEntries : ∀ e ∈ d.rc, 2 ≤ e.2 ∧ e.1 ∈ liveAddrs d
  /-- every live node has a referencing parent or root (all variants, also append-only) -/
  parent : ∀ a ∈ liveAddrs d, 0 < nodeRefsD d a + rootRefsD d a
  /-- (c) no leaked node: every dumped slot is reachable from a root or an allowed orphan -/
  reach : ∀ a ∈ slotsOf d, a ∈ d.allowed ∨ ReachD d a
  /-- nothing refers to an allowed orphan -/
  isolated : ∀ a ∈ d.allowed, a ∉ liveAddrs d ∧ nodeRefsD d a + rootRefsD d a = 0 ∧
    alLookup a d.rc = none
  /-- undecodable slots are allowed orphans -/
  bad : ∀ a ∈ d.bad, a ∈ d.allowed
  /-- the in-memory cache equals the table -/
  cache : ∀ a, alLookup a d.cache = alLookup a d.rc
  /-- column options: no table ⇒ no entries; no `ref_counted` ⇒ every root count is 1 -/
  noTable : d.hasRc = false → d.rc = [] ∧ d.cache = []
  rootCount : d.refCounted = false → ∀ r ∈ d.roots, r.2.1 = 1

/-! ### dump lists vs. the maps of `heapOf d` -/

theorem heapOf_nodes_keys (d : RcDump) : (heapOf d).nodes.l.map Prod.fst = liveAddrs d := by
  simp [heapOf, liveAddrs, List.map_map, Function.comp_def]

theorem heapOf_roots_keys (d : RcDump) :
    (heapOf d).roots.l.map Prod.fst = d.roots.map fun r => r.1 := by
  simp [heapOf, List.map_map, Function.comp_def]

theorem present_iff_live (d : RcDump) (a : Nat) : present (heapOf d) a ↔ a ∈ liveAddrs d :=
  present_heapOf d a

theorem node_of_get (d : RcDump) (a : Nat) (n : Node Unit) (h : (heapOf d).nodes.get a = some n) :
    (a, n.children) ∈ liveNodes d := by
  have hm := mem_of_alLookup _ a n h
  simp only [heapOf, List.mem_map] at hm
  obtain ⟨e, he, heq⟩ := hm
  simp only [Prod.mk.injEq] at heq
  obtain ⟨rfl, rfl⟩ := heq
  exact he

theorem get_of_node (d : RcDump) (hn : (liveAddrs d).Nodup) (e : Nat × List Nat)
    (he : e ∈ liveNodes d) : (heapOf d).nodes.get e.1 = some ⟨(), e.2⟩ := by
  apply alLookup_of_mem _ (by rw [heapOf_nodes_keys]; exact hn)
  simp only [heapOf, List.mem_map]
  exact ⟨e, he, rfl⟩

theorem root_of_get (d : RcDump) (k : Nat) (e : Node Unit × Nat)
    (h : (heapOf d).roots.get k = some e) : (k, e.2, e.1.children) ∈ d.roots := by
  have hm := mem_of_alLookup _ k e h
  simp only [heapOf, List.mem_map] at hm
  obtain ⟨r, hr, heq⟩ := hm
  simp only [Prod.mk.injEq] at heq
  obtain ⟨rfl, rfl⟩ := heq
  exact hr

theorem get_of_root (d : RcDump) (hn : (d.roots.map fun r => r.1).Nodup) (r : Nat × Nat × List Nat)
    (hr : r ∈ d.roots) : (heapOf d).roots.get r.1 = some (⟨(), r.2.2⟩, r.2.1) := by
  apply alLookup_of_mem _ (by rw [heapOf_roots_keys]; exact hn)
  simp only [heapOf, List.mem_map]
  exact ⟨r, hr, rfl⟩

theorem nodeRefs_heapOf (d : RcDump) (a : Nat) : nodeRefs (heapOf d) a = nodeRefsD d a := by
  simp [nodeRefs, nodeRefsD, heapOf, FMap.sum, List.map_map, Function.comp_def]

theorem rootRefs_heapOf (d : RcDump) (a : Nat) : rootRefs (heapOf d) a = rootRefsD d a := by
  simp [rootRefs, rootRefsD, heapOf, FMap.sum, List.map_map, Function.comp_def]

theorem count_heapOf (d : RcDump) (a : Nat) : (heapOf d).count a = countD d a := rfl

theorem reachD_of_reach (d : RcDump) (a : Nat) (h : Reach (heapOf d) a) : ReachD d a := by
  induction h with
  | root k e a hg hm => exact ReachD.root (k, e.2, e.1.children) a (root_of_get d k e hg) hm
  | step b n a _ hg hm ih => exact ReachD.step b n.children a ih (node_of_get d b n hg) hm

theorem reach_of_reachD (d : RcDump) (hn : (liveAddrs d).Nodup)
    (hr : (d.roots.map fun r => r.1).Nodup) (a : Nat) (h : ReachD d a) : Reach (heapOf d) a := by
  induction h with
  | root r a hm ha => exact Reach.root r.1 _ a (get_of_root d hr r hm) ha
  | step b cs a _ hm ha ih => exact Reach.step b ⟨(), cs⟩ a ih (get_of_node d hn (b, cs) hm) ha

/-! ### ForestCore = the model invariant on `heapOf d` -/

theorem forestCore_of_invR (d : RcDump) (hi : InvR (variantOf d) (heapOf d)) : ForestCore d := by
  obtain ⟨rank, hs⟩ := hi.shape
  have hN : (liveAddrs d).Nodup := by rw [← heapOf_nodes_keys]; exact hs.core.wfN
  have hR : (d.roots.map fun r => r.1).Nodup := by rw [← heapOf_roots_keys]; exact hs.core.wfRoots
  exact {
    nodupN := hN
    nodupR := hR
    nodupRc := hs.core.wfRc
    closedN := fun e he c hc =>
      (present_iff_live d c).mp (hs.core.closedN e.1 _ (get_of_node d hN e he) c hc)
    closedR := fun r hr c hc =>
      (present_iff_live d c).mp (hs.core.closedR r.1 _ (get_of_root d hR r hr) c hc)
    rootPos := fun r hr => hs.core.rootPos r.1 _ (get_of_root d hR r hr)
    rcEntries := by
      intro hrc e he
      have hc := hi.counts ((variantOf_ne_appendOnly d).mpr hrc)
      have := hc.rcEntries e.1 e.2 (alLookup_of_mem d.rc hs.core.wfRc e.1 e.2 he)
      exact ⟨this.1, (present_iff_live d e.1).mp this.2⟩
    counts := by
      intro hrc a ha
      have hc := hi.counts ((variantOf_ne_appendOnly d).mpr hrc)
      have := hc.rcEq a ((present_iff_live d a).mpr ha)
      simpa [refs, nodeRefs_heapOf, rootRefs_heapOf, count_heapOf] using this
    acyclic := ⟨rank, fun e he c hc => hs.acyclic e.1 _ (get_of_node d hN e he) c hc⟩ }

theorem invR_of_forestCore (d : RcDump) (fc : ForestCore d) : InvR (variantOf d) (heapOf d) := by
  obtain ⟨rank, hrank⟩ := fc.acyclic
  refine ⟨⟨rank, ⟨?_, ?_⟩⟩, ?_⟩
  · exact {
      wfN := by show ((heapOf d).nodes.l.map Prod.fst).Nodup; rw [heapOf_nodes_keys]; exact fc.nodupN
      wfRc := fc.nodupRc
      wfRoots := by
        show ((heapOf d).roots.l.map Prod.fst).Nodup; rw [heapOf_roots_keys]; exact fc.nodupR
      closedN := fun a n hg c hc =>
        (present_iff_live d c).mpr (fc.closedN (a, n.children) (node_of_get d a n hg) c hc)
      closedR := fun k e hg c hc =>
        (present_iff_live d c).mpr (fc.closedR (k, e.2, e.1.children) (root_of_get d k e hg) c hc)
      rootPos := fun k e hg => fc.rootPos (k, e.2, e.1.children) (root_of_get d k e hg) }
  · intro a n hg c hc
    exact hrank (a, n.children) (node_of_get d a n hg) c hc
  · intro hv
    have hrc := (variantOf_ne_appendOnly d).mp hv
    exact {
      rcEntries := by
        intro a c hg
        have := fc.rcEntries hrc (a, c) (mem_of_alLookup d.rc a c hg)
        exact ⟨this.1, (present_iff_live d a).mpr this.2⟩
      rcEq := by
        intro a ha
        have := fc.counts hrc a ((present_iff_live d a).mp ha)
        simpa [refs, nodeRefs_heapOf, rootRefs_heapOf, count_heapOf] using this
      pend := by simp }

/-- (a), (b), (d) on the dump are exactly the rank-generalised model invariant of the heap
    rebuilt from the dump. -/
theorem forestCore_iff_invR (d : RcDump) : ForestCore d ↔ InvR (variantOf d) (heapOf d) :=
  ⟨invR_of_forestCore d, forestCore_of_invR d⟩

/-! ### the checker's verdict in dump terms -/

theorem forestInv_of_ok (d : RcDump) (ok : RcOk d) : ForestInv d := by
  have fc := forestCore_of_invR d ok.invR
  exact {
    core := fc
    rcEntries := by
      intro e he
      have := ok.rcEntries e.1 e.2 (alLookup_of_mem d.rc fc.nodupRc e.1 e.2 he)
      exact ⟨this.1, (present_iff_live d e.1).mp this.2⟩
    parent := by
      intro a ha
      have := ok.parent a ((present_iff_live d a).mpr ha)
      simpa [refs, nodeRefs_heapOf, rootRefs_heapOf] using this
    reach := by
      intro a ha
      rcases ok.reach a ha with h | h
      · exact Or.inl h
      · exact Or.inr (reachD_of_reach d a h)
    isolated := by
      intro a ha
      obtain ⟨h1, h2, h3⟩ := ok.allowed_isolated a ha
      refine ⟨fun hl => h1 ((present_iff_live d a).mpr hl), ?_, h3⟩
      simpa [refs, nodeRefs_heapOf, rootRefs_heapOf] using h2
    bad := ok.bad
    cache := ok.cache
    noTable := ok.noTable
    rootCount := ok.rootCount }

end Pdb.DumpCheckRc
