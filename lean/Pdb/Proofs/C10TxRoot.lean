/-
C10, transactions: which root a processed transaction leaves under a key.

  inOrder_root_plan    executed in the order given, a legal transaction leaves under every key the
                       root of its LAST InsertTree of that key (the root its change set shows in the
                       commit overlay), or, if it inserts none, the root that was there before - if
                       it leaves a root at all
  specTx_root_view     the same for the planning order of `write_plan` (through E5), i.e. the
                       hypothesis `CsOk.rootView` of the simulation (Pdb/Proofs/C10TxSim3.lean) for
                       the change set of a legal transaction.  Since the fix of finding F41 this
                       covers `[DereferenceTree k, InsertTree k t']`: the key set by the commit has a
                       root when the commit is queued.
-/
import Pdb.Proofs.C10TxInv
import Pdb.Proofs.C10TxSim3

namespace Pdb.MultiTree
set_option linter.unusedSectionVars false
variable {K D : Type} [DecidableEq K]

/-- the root the planned root changes `R` show for `k` in the commit overlay (`csRoot`) -/
def planRoot (k : K) (R : List (RootChange K D)) : Option (Node D) := R.reverse.findSome? (rootHit k)

theorem planRoot_append (k : K) (R1 R2 : List (RootChange K D)) :
    planRoot k (R1 ++ R2) = (planRoot k R2).or (planRoot k R1) := by
  simp only [planRoot, List.reverse_append, List.findSome?_append]

theorem csRoot_eq_planRoot (k : K) (cs : ChangeSet K D) : csRoot k cs = planRoot k cs.changes := rfl

/-- the allocator after one operation, as the plan threads it -/
theorem inOrderOp_alloc (v : Variant) (view : K → Option (Node D)) (x : Heap K D × List Addr × Addr)
    (op : Op K D) :
    (inOrderOp v x op).2 = ((planOp v view x.2.1 x.2.2 op).2.2.1, (planOp v view x.2.1 x.2.2 op).2.2.2) := by
  cases op with
  | insert k t =>
    rcases hC : claimEntries t.children.news x.2.1 x.2.2 with ⟨claimed, f, n⟩
    simp only [inOrderOp, planOp, hC]
  | reference k => rfl
  | dereference k => rfl

/-- one operation: a root found under `k` afterwards is the root the operation's plan shows, or
    the root that was there -/
theorem inOrderOp_root_plan (v : Variant) (view : K → Option (Node D))
    (x : Heap K D × List Addr × Addr) (op : Op K D) (hl : op.legal x.1) (k : K) (r : Node D)
    (hg : viewOf (inOrderOp v x op).1 k = some r) :
    (planRoot k (planOp v view x.2.1 x.2.2 op).1).or (viewOf x.1 k) = some r := by
  cases op with
  | insert k' t =>
    rcases hC : claimEntries t.children.news x.2.1 x.2.2 with ⟨claimed, f, n⟩
    simp only [inOrderOp, hC] at hg
    simp only [planOp, hC, planRoot, List.reverse_cons, List.reverse_nil, List.nil_append,
      List.findSome?_cons, List.findSome?_nil, rootHit]
    by_cases hk : k' = k
    · subst hk
      simp only [if_true]
      have hnone : x.1.roots.get k' = none := hl.1
      have hr := (insertTreeA_roots v x.1 claimed k' t).1
      have hp := (eqv_planRefs (K := K) v (decide (v = .appendOnly)) t.children x.1 claimed).2
      simp only [viewOf, hr, FMap.get_set_same, hnone, Option.map_some] at hg
      have hre : (rootEntry v (none : Option (Node D × Nat))
          ⟨t.data, (insRefsA (decide (v = .appendOnly)) x.1 claimed t.children).2.2⟩).1 =
          ⟨t.data, (insRefsA (decide (v = .appendOnly)) x.1 claimed t.children).2.2⟩ := by
        cases v <;> rfl
      rw [hre] at hg
      rw [hp]
      simpa using hg
    · simp only [hk, if_false]
      have := (sim_insertTreeA_roots v x.1 claimed k' t k).2 (fun e => hk e.symm)
      simp only [viewOf, this] at hg
      simpa [viewOf] using hg
  | reference k' =>
    have hv := (sim_referenceTree_okOr v x.1 k').2.2.2 k
    simp only [inOrderOp] at hg
    rw [hv] at hg
    have hp : planRoot k (planOp v view x.2.1 x.2.2 (.reference k')).1 = none := by
      simp only [planOp]
      split
      · rfl
      · simp [planRoot, rootHit]
    rw [hp]
    simpa using hg
  | dereference k' =>
    have hp : planRoot k (planOp v view x.2.1 x.2.2 (.dereference k')).1 = none := rfl
    rw [hp]
    simp only [Option.none_or]
    simp only [inOrderOp] at hg
    cases hd : dereferenceTree v x.1 k' with
    | error e => simpa [hd, okOr] using hg
    | ok h' =>
      simp only [hd, okOr] at hg
      simp only [dereferenceTree] at hd
      split at hd
      · cases hd
      · split at hd
        · cases hd
        · exact (sim_derefProcess_roots v x.1 h' k' _ hd k).2 r hg

/-- executed in the order given: a root found under `k` after a legal transaction is the root of
    its last InsertTree of `k`, or, if there is none, the root that was there before -/
theorem inOrder_root_plan (v : Variant) (view : K → Option (Node D)) :
    ∀ (ops : List (Op K D)) (x : Heap K D × List Addr × Addr), LegalInOrder v x ops →
      ∀ (k : K) (r : Node D), viewOf (ops.foldl (inOrderOp v) x).1 k = some r →
      (planRoot k (planTx v view x.2.1 x.2.2 ops).1).or (viewOf x.1 k) = some r := by
  intro ops
  induction ops with
  | nil => intro x _ k r hg; simpa [planTx, planRoot] using hg
  | cons op ops ih =>
    intro x hl k r hg
    simp only [List.foldl_cons] at hg
    have ha := inOrderOp_alloc v view x op
    have IH := ih (inOrderOp v x op) hl.2 k r hg
    rw [ha] at IH
    simp only [planTx, planRoot_append]
    cases hR : planRoot k (planTx v view (planOp v view x.2.1 x.2.2 op).2.2.1
        (planOp v view x.2.1 x.2.2 op).2.2.2 ops).1 with
    | some y =>
      rw [hR] at IH
      simpa using IH
    | none =>
      rw [hR] at IH
      simp only [Option.none_or] at IH ⊢
      exact inOrderOp_root_plan v view x op hl.1 k r IH

/-- `CsOk.rootView` for the change set of a legal transaction on a heap satisfying the invariant: a
    root found under a key after the transaction has been processed (fixed planning order) is the
    root the change set shows for that key, or the root that was there before. -/
theorem specTx_root_view (v : Variant) (H : Heap K D) (free : List Addr) (next : Addr)
    (ops : List (Op K D)) (hi : InvR v H) (hs : SupplyOk H free next) (hda : DerefApart ops)
    (hl : LegalInOrder v (H, free, next) ops) (hval : validateOps v (viewOf H) ops = .ok)
    (k : K) (r : Node D) (hg : viewOf (specTx v H free next ops) k = some r) :
    (csRoot k (specCs v H free next ops)).or (viewOf H k) = some r := by
  have e := specTx_eqv_inOrder_of_inv v H free next ops hi hs hda hl hval
  rw [e.viewOf (specTx_wf v H free next ops hi.rootsWF)] at hg
  rw [csRoot_eq_planRoot, specCs_plan v H free next ops hval]
  exact inOrder_root_plan v (viewOf H) ops (H, free, next) hl k r hg

end Pdb.MultiTree

#print axioms Pdb.MultiTree.inOrder_root_plan
#print axioms Pdb.MultiTree.specTx_root_view
