/-
C04, GAP 1 (cursor), part 1: the enumeration of a node around a separator / a child given by
INDEX (`pre`, `post`, `preC`, `postA`), well-formed ancestor chains of a node stack
(`AncOK`) and the elements left / right of the hanging subtree (`ancL`, `ancR`).
-/
import Pdb.Model.BTreeCursor
import Pdb.Proofs.C04TreeOcc

namespace Pdb.C04
variable {V : Type}

/-! ### lists -/

section
variable {α : Type}

theorem list_split_at {l : List α} {j : Nat} {c : α} (h : l[j]? = some c) :
    l = l.take j ++ c :: l.drop (j + 1) := by
  obtain ⟨hj, hc⟩ := List.getElem?_eq_some_iff.mp h
  conv => lhs; rw [← List.take_append_drop j l, List.drop_eq_getElem_cons hj, hc]

theorem drop_cons_of_getElem? {l : List α} {j : Nat} {c : α} (h : l[j]? = some c) :
    l.drop j = c :: l.drop (j + 1) := by
  obtain ⟨hj, hc⟩ := List.getElem?_eq_some_iff.mp h
  rw [List.drop_eq_getElem_cons hj, hc]

theorem take_succ_of_getElem? {l : List α} {j : Nat} {c : α} (h : l[j]? = some c) :
    l.take (j + 1) = l.take j ++ [c] := by
  rw [List.take_add_one, h]; rfl

theorem lt_of_getElem?_some {l : List α} {j : Nat} {c : α} (h : l[j]? = some c) : j < l.length :=
  (List.getElem?_eq_some_iff.mp h).1

theorem zipL_snoc (A : List (List α)) (S : List α) (c : List α) (s : α) (h : A.length = S.length) :
    zipL (A ++ [c]) (S ++ [s]) = zipL A S ++ (c ++ [s]) := by
  induction A generalizing S with
  | nil =>
    cases S with
    | nil => simp [zipL]
    | cons _ _ => simp at h
  | cons a A ih =>
    cases S with
    | nil => simp at h
    | cons t S =>
      simp only [List.cons_append, zipL]
      rw [ih S (by simpa using h)]
      simp

theorem zipL_nil_right (A : List (List α)) : zipL A ([] : List α) = [] := by
  cases A <;> rfl

theorem zipR_nil_left (B : List (List α)) : zipR ([] : List α) B = [] := by
  cases B <;> rfl

end

/-! ### a node around separator `i` / child `j` -/

/-- the elements of an internal node (children at level `dl`) left of child `j` -/
def preC (dl : Nat) (n : Node V) (j : Nat) : List (Key × V) :=
  zipL ((n.children.take j).map (toList dl)) (n.seps.take j)

/-- the elements of a node at level `lvl` from separator `i` on -/
def post : Nat → Node V → Nat → List (Key × V)
  | 0, n, i => n.seps.drop i
  | dl + 1, n, i => zipR (n.seps.drop i) ((n.children.drop (i + 1)).map (toList dl))

/-- the elements of a node left of separator `i` (child `i` included) -/
def pre : Nat → Node V → Nat → List (Key × V)
  | 0, n, i => n.seps.take i
  | dl + 1, n, i => preC dl n i ++ ((n.children[i]?).map (toList dl)).getD []

/-- the elements of a node right of separator `i` -/
def postA : Nat → Node V → Nat → List (Key × V)
  | 0, n, i => n.seps.drop (i + 1)
  | dl + 1, n, i => ((n.children[i + 1]?).map (toList dl)).getD [] ++ post (dl + 1) n (i + 1)

theorem preC_zero (dl : Nat) (n : Node V) : preC dl n 0 = [] := by
  simp [preC, zipL]

theorem pre_succ_of_child {dl : Nat} {n : Node V} {j : Nat} {c : Node V}
    (h : n.children[j]? = some c) : pre (dl + 1) n j = preC dl n j ++ toList dl c := by
  simp [pre, h]

theorem postA_succ_of_child {dl : Nat} {n : Node V} {i : Nat} {c : Node V}
    (h : n.children[i + 1]? = some c) :
    postA (dl + 1) n i = toList dl c ++ post (dl + 1) n (i + 1) := by
  simp [postA, h]

/-- internal node = left of child `j`, child `j`, from separator `j` on -/
theorem toList_at_child {dl : Nat} {n : Node V} {j : Nat} {c : Node V}
    (hc : n.children[j]? = some c) (hj : j ≤ n.seps.length) :
    toList (dl + 1) n = preC dl n j ++ (toList dl c ++ post (dl + 1) n j) := by
  obtain ⟨seps, cl⟩ := n
  simp only [Node.children_mk, Node.seps_mk] at hc hj
  have hjl : j < cl.length := lt_of_getElem?_some hc
  have e : (Node.mk seps cl) =
      .mk (seps.take j ++ seps.drop j) (cl.take j ++ c :: cl.drop (j + 1)) := by
    rw [List.take_append_drop, ← list_split_at hc]
  have hlen : (cl.take j).length = (seps.take j).length := by
    simp only [List.length_take]; omega
  calc toList (dl + 1) (Node.mk seps cl)
      = toList (dl + 1) (.mk (seps.take j ++ seps.drop j) (cl.take j ++ c :: cl.drop (j + 1))) := by
        rw [← e]
    _ = _ := toList_node dl _ c _ _ _ hlen

theorem post_eq_cons_leaf {n : Node V} {i : Nat} {e : Key × V} (h : n.seps[i]? = some e) :
    post 0 n i = e :: postA 0 n i := drop_cons_of_getElem? h

theorem post_eq_cons_node {dl : Nat} {n : Node V} {i : Nat} {e : Key × V} {c : Node V}
    (h : n.seps[i]? = some e) (hc : n.children[i + 1]? = some c) :
    post (dl + 1) n i = e :: postA (dl + 1) n i := by
  rw [postA_succ_of_child hc]
  simp only [post]
  rw [drop_cons_of_getElem? h, drop_cons_of_getElem? hc]
  simp [zipR]

theorem post_of_none (lvl : Nat) {n : Node V} {i : Nat} (h : n.seps[i]? = none) :
    post lvl n i = [] := by
  have hi : n.seps.length ≤ i := by
    rcases Nat.lt_or_ge i n.seps.length with h' | h'
    · rw [List.getElem?_eq_getElem h'] at h; cases h
    · exact h'
  cases lvl with
  | zero => simp [post, List.drop_eq_nil_of_le hi]
  | succ dl => simp [post, List.drop_eq_nil_of_le hi, zipR_nil_left]

theorem preC_succ {dl : Nat} {n : Node V} {j : Nat} {c : Node V} {s : Key × V}
    (hc : n.children[j]? = some c) (hs : n.seps[j]? = some s) :
    preC dl n (j + 1) = pre (dl + 1) n j ++ [s] := by
  rw [pre_succ_of_child hc]
  simp only [preC]
  rw [take_succ_of_getElem? hc, take_succ_of_getElem? hs, List.map_append, List.map_cons,
    List.map_nil, zipL_snoc]
  · simp
  · have h1 := lt_of_getElem?_some hc
    have h2 := lt_of_getElem?_some hs
    simp only [List.length_map, List.length_take]; omega

theorem pre_succ_leaf {n : Node V} {i : Nat} {s : Key × V} (hs : n.seps[i]? = some s) :
    pre 0 n (i + 1) = pre 0 n i ++ [s] := take_succ_of_getElem? hs

/-! ### nodes on the stack -/

/-- what every node reachable in a tree satisfying TreeInv satisfies -/
def Good (dl : Nat) (n : Node V) : Prop :=
  WF dl n ∧ Occ (rootLb dl) dl n ∧ Sorted (toList dl n)

theorem Good.len {dl : Nat} {n : Node V} (h : Good (dl + 1) n) :
    n.children.length = n.seps.length + 1 := h.1.1

theorem Good.one {dl : Nat} {n : Node V} (h : Good (dl + 1) n) : 1 ≤ n.seps.length := by
  have := h.2.1
  simp only [Occ, rootLb] at this
  exact this.1

theorem Good.le_order {dl : Nat} {n : Node V} (h : Good dl n) : n.seps.length ≤ ORDER :=
  (occ_iff.mp h.2.1).2.1

theorem Good.child_some {dl : Nat} {n : Node V} (h : Good (dl + 1) n) {j : Nat}
    (hj : j ≤ n.seps.length) : ∃ c, n.children[j]? = some c := by
  have : j < n.children.length := by rw [h.len]; omega
  exact ⟨n.children[j], List.getElem?_eq_getElem this⟩

theorem Good.child {dl : Nat} {n : Node V} (h : Good (dl + 1) n) {j : Nat} {c : Node V}
    (hc : n.children[j]? = some c) : Good dl c ∧ MIDDLE ≤ c.seps.length := by
  have hmem : c ∈ n.children := List.mem_of_getElem? hc
  have hj : j ≤ n.seps.length := by
    have := lt_of_getElem?_some hc
    rw [h.len] at this; omega
  have hocc : Occ MIDDLE dl c := by
    have := h.2.1
    simp only [Occ] at this
    exact this.2.2 c hmem
  have hs : Sorted (toList dl c) := by
    have := h.2.2
    rw [toList_at_child hc hj] at this
    exact (sorted_append.mp (sorted_append.mp this).2.1).1
  exact ⟨⟨h.1.2 c hmem, hocc.mono (rootLb_le dl), hs⟩, (occ_iff.mp hocc).1⟩

/-- `anc` is the chain of ancestors (nearest first, every one with `Descend(c)`) of the node
    `n` at level `dl` (countdown: leaves are level 0) in the tree `t`. -/
def AncOK (t : Tree V) : Nat → Node V → Stack V → Prop
  | dl, n, [] => dl = t.depth ∧ n = t.root ∧ Good dl n
  | dl, n, (ix, p) :: rest =>
    (∃ c, ix = .descend c ∧ p.children[c]? = some n) ∧ Good dl n ∧ AncOK t (dl + 1) p rest

theorem AncOK.good {t : Tree V} {dl : Nat} {n : Node V} {anc : Stack V} (h : AncOK t dl n anc) :
    Good dl n := by
  cases anc with
  | nil => exact h.2.2
  | cons a rest => obtain ⟨ix, p⟩ := a; exact h.2.1

theorem AncOK.len {t : Tree V} {dl : Nat} {n : Node V} {anc : Stack V} (h : AncOK t dl n anc) :
    dl + anc.length = t.depth := by
  induction anc generalizing dl n with
  | nil => exact h.1
  | cons a rest ih =>
    obtain ⟨ix, p⟩ := a
    have := ih h.2.2
    simp only [List.length_cons]; omega

theorem AncOK.push {t : Tree V} {dl : Nat} {n : Node V} {anc : Stack V}
    (h : AncOK t (dl + 1) n anc) {j : Nat} {c : Node V} (hc : n.children[j]? = some c) :
    AncOK t dl c ((.descend j, n) :: anc) :=
  ⟨⟨j, rfl, hc⟩, (h.good.child hc).1, h⟩

/-- elements of the tree left of the subtree hanging below the chain -/
def ancL : Nat → Stack V → List (Key × V)
  | _, [] => []
  | dl, (ix, p) :: rest =>
    ancL (dl + 1) rest ++ preC dl p (match ix with
                                     | .descend c => c
                                     | _ => 0)

/-- elements of the tree right of the subtree hanging below the chain -/
def ancR : Nat → Stack V → List (Key × V)
  | _, [] => []
  | dl, (ix, p) :: rest =>
    post (dl + 1) p (match ix with
                     | .descend c => c
                     | _ => 0) ++ ancR (dl + 1) rest

theorem ancL_cons (dl : Nat) (c : Nat) (p : Node V) (rest : Stack V) :
    ancL dl ((.descend c, p) :: rest) = ancL (dl + 1) rest ++ preC dl p c := rfl

theorem ancR_cons (dl : Nat) (c : Nat) (p : Node V) (rest : Stack V) :
    ancR dl ((.descend c, p) :: rest) = post (dl + 1) p c ++ ancR (dl + 1) rest := rfl

theorem AncOK.toList {t : Tree V} {dl : Nat} {n : Node V} {anc : Stack V} (h : AncOK t dl n anc) :
    t.toList = ancL dl anc ++ (C04.toList dl n ++ ancR dl anc) := by
  induction anc generalizing dl n with
  | nil =>
    obtain ⟨h1, h2, _⟩ := h
    subst h1 h2
    simp [ancL, ancR, Tree.toList]
  | cons a rest ih =>
    obtain ⟨ix, p⟩ := a
    obtain ⟨⟨c, rfl, hc⟩, _, hp⟩ := h
    have hj : c ≤ p.seps.length := by
      have := lt_of_getElem?_some hc
      rw [hp.good.len] at this; omega
    rw [ih hp, toList_at_child hc hj, ancL_cons, ancR_cons]
    simp only [List.append_assoc]

end Pdb.C04
