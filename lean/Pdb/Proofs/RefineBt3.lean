/-
R8 (physical btree column), part 3: the primitive steps on the column keep the per-tier slot
invariant for the updated owner list and do not disturb the other owners (C06's
`writeChain_spec` / `removePlan_spec` + the frame lemma of part 2).
-/
import Pdb.Proofs.RefineBt2

namespace Pdb.BTreePhys
open Pdb.Gen Pdb.ValueTable

/-- Per-tier invariant of the column for the owner list `own`: every table has the configuration
of its tier, owners lie in existing tables, and in every tier the free list and the chains of the
owners partition the used slots. -/
structure ColInv (c : PCol) (own : List Nat) : Prop where
  cfg : ∀ tier, SameCfg (tableOfTier c.rc tier) (c.tables tier)
  tiers : ∀ a ∈ own, Address.size_tier a < NTABLES
  slots : ∀ tier, tier < NTABLES → ∃ F, SlotInv (c.tables tier) F (tierChains c own tier)

/-- tier `Column::compress` selects for `v` -/
def newTier (cp : Cmp) (c : PCol) (v : Bytes) : Nat :=
  tierOfLen c.rc .noHash (storedForm cp.cmp cp.threshold v).1.length

theorem NTABLES_eq : NTABLES = 256 := rfl

theorem NTABLES_tables : NTABLES = tableSizes.length := by rw [tableSizes_length]; rfl

theorem newTier_lt (cp : Cmp) (c : PCol) (v : Bytes) : newTier cp c v < NTABLES := by
  rw [NTABLES_eq]; exact tierOfLen_lt _ _ _

theorem noHash_ok : TKey.Ok .noHash := rfl

theorem newTier_writeOk (cp : Cmp) (c : PCol) (v : Bytes) (t : VT)
    (hcfg : SameCfg (tableOfTier c.rc (newTier cp c v)) t) :
    WriteOk t .noHash (storedForm cp.cmp cp.threshold v).1 :=
  C06_tier_writeOk cp.cmp cp.threshold c.rc .noHash v noHash_ok t hcfg

theorem addr_parts (off τ : Nat) (ho : off < 2 ^ 56) (hτ : τ < 256) :
    Address.size_tier (Address.new off τ) = τ ∧ Address.offset (Address.new off τ) = off := by
  rw [Refine.address_new_eq off τ ho hτ, Refine.size_tier_eq, Refine.offset_eq]
  omega

theorem headD_mem_of_ne_nil (l : List Nat) (h : l ≠ []) : l.headD 0 ∈ l := by
  cases l with
  | nil => exact absurd rfl h
  | cons a r => simp

theorem head?_of_headD (l : List Nat) (h : l ≠ []) : l.head? = some (l.headD 0) := by
  cases l with
  | nil => exact absurd rfl h
  | cons a r => simp

/-- fill mark after a write -/
theorem filled_after_write (t t' : VT) (F c0 : List Nat) (Lr : List (List Nat)) (k : Nat) (ch : List Nat)
    (hch : ch = newChain t F c0 k)
    (hold : F.length + (c0.length + Lr.flatten.length) + 1 = t.filled)
    (hnew : SlotInv t' (newFree F c0 k) (ch :: Lr)) : t'.filled ≤ t.filled + k := by
  have h := hnew.count
  rw [List.flatten_cons, List.length_append, hch] at h
  simp only [newChain, extChain, newFree, List.length_append, List.length_take, List.length_drop,
    List.length_reverse, List.length_range'] at h
  omega

/-! ## insert -/

theorem step_insert (cp : Cmp) (c : PCol) (own : List Nat) (v : Bytes) (h : ColInv c own)
    (hb : (c.tables (newTier cp c v)).filled +
      numParts (c.tables (newTier cp c v)) .noHash (storedForm cp.cmp cp.threshold v).1 ≤ 2 ^ 56) :
    ∃ c' a, physWriteNew cp c v = .ok (c', a) ∧
      entryAt c' a = .ok (some (storedForm cp.cmp cp.threshold v)) ∧
      a ∉ own ∧ ColInv c' (a :: own) ∧ (∀ b ∈ own, entryAt c' b = entryAt c b) ∧
      c'.rc = c.rc ∧ a < 2 ^ 64 ∧
      (∀ tier, (c'.tables tier).filled ≤ (c.tables tier).filled +
        numParts (c.tables (newTier cp c v)) .noHash (storedForm cp.cmp cp.threshold v).1) := by
  have hτ := newTier_lt cp c v
  generalize hτe : newTier cp c v = τ at hτ hb
  generalize hsf : storedForm cp.cmp cp.threshold v = sf at hb
  obtain ⟨F, hinv⟩ := h.slots τ hτ
  have hok : WriteOk (c.tables τ) .noHash sf.1 := by
    rw [← hsf]; exact newTier_writeOk cp c v _ (by rw [hτe]; exact h.cfg τ)
  obtain ⟨r, hw, hchain, haddr, _, hread, hinv', hsame, hcfg'⟩ :=
    writeChain_spec (c.tables τ) .noHash sf.1 sf.2 F [] (tierChains c own τ) hok hinv.free
      (by simpa using hinv.nodup) (by simpa using hinv.range) (by simpa using hinv.count)
      hinv.chains (Or.inl rfl) (by have : (2:Nat) ^ 56 ≤ 2 ^ 64 := by decide
                                   omega)
  have hfill : r.table.filled ≤ (c.tables τ).filled + numParts (c.tables τ) .noHash sf.1 :=
    filled_after_write _ _ F [] _ _ r.chain hchain (by simpa using hinv.count) hinv'
  have hcf := hinv'.chain_facts r.chain (by simp)
  have hne := IsChain_ne_nil _ _ hcf.1
  have hmem : r.addr ∈ r.chain := by rw [haddr]; exact headD_mem_of_ne_nil _ hne
  have hra : r.addr < 2 ^ 56 := by
    have := hinv'.range r.addr (List.mem_append_right _ (by
      rw [List.flatten_cons]; exact List.mem_append_left _ hmem))
    omega
  have hτ256 : τ < 256 := by rw [NTABLES_eq] at hτ; exact hτ
  obtain ⟨ha1, ha2⟩ := addr_parts r.addr τ hra hτ256
  refine ⟨c.setTbl τ r.table, Address.new r.addr τ, ?_, ?_, ?_, ?_, ?_, rfl, ?_, ?_⟩
  rotate_right 2
  · rw [Refine.address_new_eq r.addr τ hra hτ256]
    have : (2:Nat) ^ 56 * 256 = 2 ^ 64 := by decide
    omega
  · intro tier
    by_cases e : tier = τ
    · subst e; rw [setTbl_same]; exact hfill
    · rw [setTbl_other _ _ _ _ e]; omega
  · unfold physWriteNew
    simp only [hsf]
    have : tierOfLen c.rc .noHash sf.1.length = τ := by rw [← hτe, newTier, hsf]
    rw [this]
    have hw' : writeChain (c.tables τ) .noHash sf.1 none sf.2 = .ok r := by simpa using hw
    rw [hw']
  · unfold entryAt
    rw [ha1, ha2, setTbl_same, if_neg (by omega), hread]
  · -- the new address is not an owner: its head slot would lie in two chains
    intro hown
    have hm : chainOf (c.tables τ) (Address.offset (Address.new r.addr τ)) ∈ tierChains c own τ :=
      (mem_tierChains c own τ _).mpr ⟨_, hown, ha1, rfl⟩
    rw [ha2] at hm
    have hpos := (hinv.chain_facts _ hm).2.2
    have hin : r.addr ∈ (tierChains c own τ).flatten :=
      List.mem_flatten.mpr ⟨_, hm, by
        have := chainOf_head (c.tables τ) r.addr hpos
        have hne' := IsChain_ne_nil _ _ (hinv.chain_facts _ hm).1
        have hh := headD_mem_of_ne_nil _ hne'
        rw [this] at hh; exact hh⟩
    have hnd := hinv'.nodup
    rw [List.flatten_cons] at hnd
    have := (List.nodup_append.mp (List.nodup_append.mp hnd).2.1).2.2 r.addr hmem r.addr hin
    exact this rfl
  · have hfr := frame c τ r.table own hcfg'
      (fun ch hc => ⟨(hinv.chain_facts ch hc).1, (hinv.chain_facts ch hc).2.1,
        (hinv'.chain_facts ch (List.mem_cons_of_mem _ hc)).2.1⟩) hsame
    refine ⟨?_, ?_, ?_⟩
    · intro tier
      by_cases e : tier = τ
      · subst e; rw [setTbl_same]; exact (h.cfg tier).trans hcfg'
      · rw [setTbl_other _ _ _ _ e]; exact h.cfg tier
    · intro b hb'
      rcases List.mem_cons.mp hb' with rfl | hb'
      · rw [ha1]; exact hτ
      · exact h.tiers b hb'
    · intro tier htier
      by_cases e : tier = τ
      · subst e
        refine ⟨newFree F [] (numParts (c.tables tier) .noHash sf.1), ?_⟩
        rw [tierChains_cons_same _ _ _ _ ha1, hfr.2, setTbl_same, ha2, haddr,
          chainOf_isChain r.table r.chain hcf.1 hcf.2.1]
        exact hinv'
      · obtain ⟨F', hF'⟩ := h.slots tier htier
        refine ⟨F', ?_⟩
        rw [tierChains_cons_other _ _ _ _ (by rw [ha1]; exact fun x => e x.symm),
          tierChains_other _ _ _ _ _ e, setTbl_other _ _ _ _ e]
        exact hF'
  · exact (frame c τ r.table own hcfg'
      (fun ch hc => ⟨(hinv.chain_facts ch hc).1, (hinv.chain_facts ch hc).2.1,
        (hinv'.chain_facts ch (List.mem_cons_of_mem _ hc)).2.1⟩) hsame).1

/-! ## replace in place (the tier stays) -/

theorem step_replace (cp : Cmp) (c : PCol) (a : Nat) (own : List Nat) (v : Bytes)
    (h : ColInv c (a :: own)) (hτe : Address.size_tier a = newTier cp c v)
    (hb : (c.tables (newTier cp c v)).filled +
      numParts (c.tables (newTier cp c v)) .noHash (storedForm cp.cmp cp.threshold v).1 ≤ 2 ^ 56) :
    ∃ c', physWriteExisting cp c a v = .ok (c', none) ∧
      entryAt c' a = .ok (some (storedForm cp.cmp cp.threshold v)) ∧
      ColInv c' (a :: own) ∧ (∀ b ∈ own, entryAt c' b = entryAt c b) ∧ c'.rc = c.rc ∧
      (∀ tier, (c'.tables tier).filled ≤ (c.tables tier).filled +
        numParts (c.tables (newTier cp c v)) .noHash (storedForm cp.cmp cp.threshold v).1) := by
  have hτ := newTier_lt cp c v
  generalize hτe' : newTier cp c v = τ at hτ hb hτe
  generalize hsf : storedForm cp.cmp cp.threshold v = sf at hb
  obtain ⟨F, hinv⟩ := h.slots τ hτ
  rw [tierChains_cons_same _ _ _ _ hτe] at hinv
  have hok : WriteOk (c.tables τ) .noHash sf.1 := by
    rw [← hsf]; exact newTier_writeOk cp c v _ (by rw [hτe']; exact h.cfg τ)
  generalize hc0 : chainOf (c.tables τ) (Address.offset a) = c0 at hinv
  have hc0f := hinv.chain_facts c0 (by simp)
  have hc0ne := IsChain_ne_nil _ _ hc0f.1
  have hc0head : c0.headD 0 = Address.offset a := by
    rw [← hc0]; exact chainOf_head _ _ hc0f.2.2
  have hnd := hinv.nodup
  have hrg := hinv.range
  have hct := hinv.count
  rw [List.flatten_cons] at hnd hrg hct
  rw [List.length_append] at hct
  obtain ⟨r, hw, hchain, haddr, _, hread, hinv', hsame, hcfg'⟩ :=
    writeChain_spec (c.tables τ) .noHash sf.1 sf.2 F c0 (tierChains c own τ) hok hinv.free
      hnd hrg hct (fun ch hc => hinv.chains ch (List.mem_cons_of_mem _ hc)) (Or.inr hc0f.1)
      (by have : (2:Nat) ^ 56 ≤ 2 ^ 64 := by decide
          omega)
  have hcf := hinv'.chain_facts r.chain (by simp)
  have hkpos : 0 < numParts (c.tables τ) .noHash sf.1 := numParts_pos
  have hra : r.addr = Address.offset a := by
    rw [haddr, hchain, ← hc0head]
    cases c0 with
    | nil => exact absurd rfl hc0ne
    | cons x rest =>
      obtain ⟨k, hk⟩ : ∃ k, numParts (c.tables τ) .noHash sf.1 = k + 1 :=
        ⟨numParts (c.tables τ) .noHash sf.1 - 1, by omega⟩
      rw [hk]
      simp [newChain, extChain]
  have hfr := frame c τ r.table own hcfg'
    (fun ch hc => ⟨(hinv.chain_facts ch (List.mem_cons_of_mem _ hc)).1,
      (hinv.chain_facts ch (List.mem_cons_of_mem _ hc)).2.1,
      (hinv'.chain_facts ch (List.mem_cons_of_mem _ hc)).2.1⟩) hsame
  have hfill : r.table.filled ≤ (c.tables τ).filled + numParts (c.tables τ) .noHash sf.1 :=
    filled_after_write _ _ F c0 _ _ r.chain hchain hct hinv'
  refine ⟨c.setTbl τ r.table, ?_, ?_, ?_, hfr.1, rfl, ?_⟩
  rotate_right
  · intro tier
    by_cases e : tier = τ
    · subst e; rw [setTbl_same]; exact hfill
    · rw [setTbl_other _ _ _ _ e]; omega
  · unfold physWriteExisting
    simp only [hsf]
    have e1 : tierOfLen c.rc .noHash sf.1.length = τ := by rw [← hτe', newTier, hsf]
    rw [e1, if_neg (by rw [hτe]; omega), if_pos hτe]
    have hw' : writeChain (c.tables τ) .noHash sf.1 (some (Address.offset a)) sf.2 = .ok r := by
      rw [← hc0head, ← head?_of_headD c0 hc0ne]; exact hw
    rw [hw']
  · unfold entryAt
    rw [hτe, setTbl_same, if_neg (by omega), ← hra, hread]
  · refine ⟨?_, ?_, ?_⟩
    · intro tier
      by_cases e : tier = τ
      · subst e; rw [setTbl_same]; exact (h.cfg tier).trans hcfg'
      · rw [setTbl_other _ _ _ _ e]; exact h.cfg tier
    · exact h.tiers
    · intro tier htier
      by_cases e : tier = τ
      · subst e
        refine ⟨newFree F c0 (numParts (c.tables tier) .noHash sf.1), ?_⟩
        rw [tierChains_cons_same _ _ _ _ hτe, hfr.2, setTbl_same, ← hra, haddr,
          chainOf_isChain r.table r.chain hcf.1 hcf.2.1]
        exact hinv'
      · obtain ⟨F', hF'⟩ := h.slots tier htier
        refine ⟨F', ?_⟩
        rw [tierChains_other _ _ _ _ _ e, setTbl_other _ _ _ _ e]
        exact hF'

/-! ## remove -/

theorem step_remove (c : PCol) (a : Nat) (own : List Nat) (h : ColInv c (a :: own))
    (hb : (c.tables (Address.size_tier a)).filled ≤ 2 ^ 64) :
    ∃ c', physRemove c a = .ok c' ∧ ColInv c' own ∧ (∀ b ∈ own, entryAt c' b = entryAt c b) ∧
      c'.rc = c.rc ∧ (∀ tier, (c'.tables tier).filled = (c.tables tier).filled) ∧
      (∀ tier, tier ≠ Address.size_tier a → c'.tables tier = c.tables tier) := by
  have hτ := h.tiers a (by simp)
  generalize hτe : Address.size_tier a = τ at hτ hb
  obtain ⟨F, hinv⟩ := h.slots τ hτ
  rw [tierChains_cons_same _ _ _ _ hτe] at hinv
  generalize hc0 : chainOf (c.tables τ) (Address.offset a) = c0 at hinv
  have hc0f := hinv.chain_facts c0 (by simp)
  have hc0head : c0.headD 0 = Address.offset a := by
    rw [← hc0]; exact chainOf_head _ _ hc0f.2.2
  obtain ⟨t', hrm, hinv', hsame, hcfg', hfilled⟩ :=
    removePlan_spec (c.tables τ) F c0 (tierChains c own τ) hinv hb
  have hfr := frame c τ t' own hcfg'
    (fun ch hc => ⟨(hinv.chain_facts ch (List.mem_cons_of_mem _ hc)).1,
      (hinv.chain_facts ch (List.mem_cons_of_mem _ hc)).2.1,
      by rw [hfilled]; exact (hinv.chain_facts ch (List.mem_cons_of_mem _ hc)).2.1⟩) hsame
  refine ⟨c.setTbl τ t', ?_, ?_, hfr.1, rfl, ?_, fun tier e => setTbl_other _ _ _ _ e⟩
  · unfold physRemove
    rw [hτe, if_neg (by omega), ← hc0head, hrm]
  · refine ⟨?_, fun b hb' => h.tiers b (List.mem_cons_of_mem _ hb'), ?_⟩
    · intro tier
      by_cases e : tier = τ
      · subst e; rw [setTbl_same]; exact (h.cfg tier).trans hcfg'
      · rw [setTbl_other _ _ _ _ e]; exact h.cfg tier
    · intro tier htier
      by_cases e : tier = τ
      · subst e
        refine ⟨c0.reverse ++ F, ?_⟩
        rw [hfr.2, setTbl_same]
        exact hinv'
      · obtain ⟨F', hF'⟩ := h.slots tier htier
        refine ⟨F', ?_⟩
        rw [tierChains_other _ _ _ _ _ e, setTbl_other _ _ _ _ e]
        rw [tierChains_cons_other _ _ _ _ (by rw [hτe]; exact fun x => e x.symm)] at hF'
        exact hF'
  · intro tier
    by_cases e : tier = τ
    · subst e; rw [setTbl_same]; exact hfilled
    · rw [setTbl_other _ _ _ _ e]

/-! ## replace with a change of tier: removal, then insertion into the new tier -/

theorem step_move (cp : Cmp) (c : PCol) (a : Nat) (own : List Nat) (v : Bytes)
    (h : ColInv c (a :: own)) (hne : Address.size_tier a ≠ newTier cp c v)
    (hb1 : (c.tables (Address.size_tier a)).filled ≤ 2 ^ 64)
    (hb2 : (c.tables (newTier cp c v)).filled +
      numParts (c.tables (newTier cp c v)) .noHash (storedForm cp.cmp cp.threshold v).1 ≤ 2 ^ 56) :
    ∃ c' na, physWriteExisting cp c a v = .ok (c', some na) ∧
      entryAt c' na = .ok (some (storedForm cp.cmp cp.threshold v)) ∧
      na ∉ own ∧ ColInv c' (na :: own) ∧ (∀ b ∈ own, entryAt c' b = entryAt c b) ∧
      c'.rc = c.rc ∧ na < 2 ^ 64 ∧
      (∀ tier, (c'.tables tier).filled ≤ (c.tables tier).filled +
        numParts (c.tables (newTier cp c v)) .noHash (storedForm cp.cmp cp.threshold v).1) := by
  obtain ⟨c1, hr, hinv1, hfr1, hrc1, hfl1, hoth⟩ := step_remove c a own h hb1
  have hnt : newTier cp c1 v = newTier cp c v := by unfold newTier; rw [hrc1]
  have htb : c1.tables (newTier cp c v) = c.tables (newTier cp c v) :=
    hoth _ (fun e => hne e.symm)
  obtain ⟨c2, na, hw, hrd, hnew, hinv2, hfr2, hrc2, hlt2, hfl2⟩ :=
    step_insert cp c1 own v hinv1 (by rw [hnt, htb]; exact hb2)
  refine ⟨c2, na, ?_, hrd, hnew, hinv2, fun b hb => (hfr2 b hb).trans (hfr1 b hb), hrc2.trans hrc1,
    hlt2, fun tier => by have := hfl2 tier; rw [hnt, htb, hfl1 tier] at this; exact this⟩
  unfold physWriteExisting
  simp only
  have hτ := h.tiers a (by simp)
  rw [if_neg (by omega), if_neg (by unfold newTier at hne; exact hne), hr]
  simp only [hw]

end Pdb.BTreePhys
