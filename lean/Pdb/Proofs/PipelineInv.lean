/-
The pipeline invariant `Inv`, its preservation by every action, and the consequences
used by the property theorems (C01, C02, C03, C07, C08, C16).
-/
import Pdb.Proofs.Pipeline

set_option linter.unusedSectionVars false
set_option linter.unusedSimpArgs false
namespace Pdb
variable {K V : Type} [DecidableEq K]

/-! ### overlay writes -/

/-- The overlay write performed by one operation of commit `id` (if any). -/
def opW (kind : K → Kind) (id : Nat) : Op K V → Option (K × (Nat × Option V))
  | .set k v => some (k, (id, some v))
  | .deref k => if kind k = .rc then none else some (k, (id, none))
  | .ref _ => none

def opsW (kind : K → Kind) (id : Nat) (ops : List (Op K V)) : List (K × (Nat × Option V)) :=
  ops.filterMap (opW kind id)

def queueW (kind : K → Kind) (q : List (Commit K V)) : List (K × (Nat × Option V)) :=
  q.flatMap (fun c => opsW kind c.id c.ops)

def qops (q : List (Commit K V)) : List (Op K V) := q.flatMap (fun c => c.ops)

/-- keys whose overlay entry `clean_overlay` inspects -/
def cleanKey : Op K V → Option K
  | .set k _ => some k
  | .deref k => some k
  | .ref _ => none

theorem ovOp_eq (kind : K → Kind) (id : Nat) (ov : K → Option (Nat × Option V)) (op : Op K V)
    (k : K) : ovOp kind id ov op k = (lastW (opW kind id op).toList k).or (ov k) := by
  cases op with
  | set k' v =>
    by_cases h : k' = k
    · subst h; simp [ovOp, opW, lastW]
    · have : k ≠ k' := fun e => h e.symm
      simp [ovOp, opW, lastW, h, upd_other _ _ _ _ this]
  | deref k' =>
    by_cases hr : kind k' = .rc
    · simp [ovOp, opW, hr, lastW]
    · by_cases h : k' = k
      · subst h; simp [ovOp, opW, lastW, hr]
      · have : k ≠ k' := fun e => h e.symm
        simp [ovOp, opW, lastW, h, hr, upd_other _ _ _ _ this]
  | ref k' => simp [ovOp, opW, lastW]

theorem ovOp_fold (kind : K → Kind) (id : Nat) (ops : List (Op K V))
    (ov : K → Option (Nat × Option V)) (k : K) :
    (ops.foldl (ovOp kind id) ov) k = (lastW (opsW kind id ops) k).or (ov k) := by
  induction ops generalizing ov with
  | nil => simp [opsW, lastW]
  | cons op ops ih =>
    simp only [List.foldl_cons]
    rw [ih, ovOp_eq]
    have : opsW kind id (op :: ops) = (opW kind id op).toList ++ opsW kind id ops := by
      unfold opsW
      cases h : opW kind id op <;> simp [h]
    rw [this, lastW_append]
    cases lastW (opsW kind id ops) k <;> simp

theorem opW_tag (kind : K → Kind) (id : Nat) (op : Op K V) (k : K) (i : Nat) (v : Option V)
    (h : lastW (opW kind id op).toList k = some (i, v)) : i = id ∧ cleanKey op = some k := by
  cases op with
  | set k' v' =>
    by_cases hk : k' = k
    · subst hk; simp [opW, lastW] at h; simp [cleanKey, h.1]
    · simp [opW, lastW, hk] at h
  | deref k' =>
    by_cases hr : kind k' = .rc
    · simp [opW, hr, lastW] at h
    · by_cases hk : k' = k
      · subst hk; simp [opW, lastW, hr] at h; simp [cleanKey, h.1]
      · simp [opW, lastW, hk, hr] at h
  | ref k' => simp [opW, lastW] at h

theorem opsW_cons (kind : K → Kind) (id : Nat) (op : Op K V) (ops : List (Op K V)) :
    opsW kind id (op :: ops) = (opW kind id op).toList ++ opsW kind id ops := by
  unfold opsW
  cases h : opW kind id op <;> simp [h]

theorem opsW_tag (kind : K → Kind) (id : Nat) (ops : List (Op K V)) (k : K) (i : Nat)
    (v : Option V) (h : lastW (opsW kind id ops) k = some (i, v)) :
    i = id ∧ k ∈ ops.filterMap cleanKey := by
  induction ops with
  | nil => simp [opsW, lastW] at h
  | cons op ops ih =>
    rw [opsW_cons, lastW_append] at h
    cases h2 : lastW (opsW kind id ops) k with
    | some x =>
      rw [h2] at h
      simp at h
      subst h
      have := ih h2
      refine ⟨this.1, ?_⟩
      simp only [List.filterMap_cons]
      cases cleanKey op <;> simp [this.2]
    | none =>
      rw [h2] at h
      simp at h
      have := opW_tag kind id op k i v h
      refine ⟨this.1, ?_⟩
      simp [List.filterMap_cons, this.2]

theorem queueW_tag (kind : K → Kind) (q : List (Commit K V)) (k : K) (i : Nat) (v : Option V)
    (h : lastW (queueW kind q) k = some (i, v)) : ∃ c ∈ q, c.id = i := by
  induction q with
  | nil => simp [queueW, lastW] at h
  | cons c q ih =>
    have e : queueW kind (c :: q) = opsW kind c.id c.ops ++ queueW kind q := by simp [queueW]
    rw [e, lastW_append] at h
    cases h2 : lastW (queueW kind q) k with
    | some x =>
      rw [h2] at h; simp at h; subst h
      obtain ⟨c', hc', hid⟩ := ih h2
      exact ⟨c', List.mem_cons_of_mem _ hc', hid⟩
    | none =>
      rw [h2] at h; simp at h
      exact ⟨c, List.mem_cons_self, (opsW_tag kind c.id c.ops k i v h).1.symm⟩

/-! ### clean_overlay -/

theorem cleanOp_other (id : Nat) (ov : K → Option (Nat × Option V)) (op : Op K V) (k : K)
    (h : ∀ v, ov k ≠ some (id, v)) : cleanOp id ov op k = ov k := by
  have aux : ∀ k', (fun x => if x = k' then
        (match ov k' with
         | some (i, v) => if i = id then none else some (i, v)
         | none => none)
      else ov x) k = ov k := by
    intro k'
    simp only
    by_cases hkk : k = k'
    · subst hkk
      simp only [if_true]
      cases hk : ov k with
      | none => rfl
      | some x =>
        obtain ⟨i, v⟩ := x
        by_cases hi : i = id
        · subst hi; exact absurd hk (h v)
        · simp [hi]
    · simp [hkk]
  cases op with
  | set k' v => exact aux k'
  | deref k' => exact aux k'
  | ref k' => rfl

theorem clean_fold_other (id : Nat) (ops : List (Op K V)) (ov : K → Option (Nat × Option V))
    (k : K) (h : ∀ v, ov k ≠ some (id, v)) : (ops.foldl (cleanOp id) ov) k = ov k := by
  induction ops generalizing ov with
  | nil => rfl
  | cons op ops ih =>
    simp only [List.foldl_cons]
    have e := cleanOp_other id ov op k h
    rw [ih (cleanOp id ov op) (by intro v; rw [e]; exact h v), e]

theorem cleanOp_hit (id : Nat) (ov : K → Option (Nat × Option V)) (op : Op K V) (k : K)
    (v : Option V) (h : ov k = some (id, v)) :
    (cleanKey op = some k → cleanOp id ov op k = none) ∧
    (cleanKey op ≠ some k → cleanOp id ov op k = ov k) := by
  have aux : ∀ k', (k' = k → (fun x => if x = k' then
        (match ov k' with
         | some (i, v) => if i = id then none else some (i, v)
         | none => none)
      else ov x) k = none) ∧ (k' ≠ k → (fun x => if x = k' then
        (match ov k' with
         | some (i, v) => if i = id then none else some (i, v)
         | none => none)
      else ov x) k = ov k) := by
    intro k'
    constructor
    · intro e; subst e; simp [h]
    · intro ne
      have : ¬ k = k' := fun e => ne e.symm
      simp [this]
  cases op with
  | set k' w =>
    constructor
    · intro e; simp [cleanKey] at e; exact (aux k').1 e
    · intro e; simp [cleanKey] at e; exact (aux k').2 e
  | deref k' =>
    constructor
    · intro e; simp [cleanKey] at e; exact (aux k').1 e
    · intro e; simp [cleanKey] at e; exact (aux k').2 e
  | ref k' =>
    constructor
    · intro e; simp [cleanKey] at e
    · intro _; rfl

theorem clean_fold_hit (id : Nat) (ops : List (Op K V)) (ov : K → Option (Nat × Option V))
    (k : K) (v : Option V) (h : ov k = some (id, v)) (hk : k ∈ ops.filterMap cleanKey) :
    (ops.foldl (cleanOp id) ov) k = none := by
  induction ops generalizing ov with
  | nil => simp at hk
  | cons op ops ih =>
    simp only [List.foldl_cons]
    have hh := cleanOp_hit id ov op k v h
    by_cases e : cleanKey op = some k
    · have := hh.1 e
      rw [clean_fold_other id ops _ k (by intro w; rw [this]; simp), this]
    · have e2 := hh.2 e
      apply ih (cleanOp id ov op) (by rw [e2]; exact h)
      cases hc : cleanKey op with
      | none => rw [List.filterMap_cons_none hc] at hk; exact hk
      | some k' =>
        rw [List.filterMap_cons_some hc, List.mem_cons] at hk
        rcases hk with hk | hk
        · subst hk; exact absurd hc e
        · exact hk

/-! ### applyOps facts -/

theorem applyOps_append (kind : K → Kind) (t : Tbl K V) (a b : List (Op K V)) :
    applyOps kind t (a ++ b) = applyOps kind (applyOps kind t a) b := by
  simp [applyOps, List.foldl_append]

theorem applyOps_notin (kind : K → Kind) (t : Tbl K V) (ops : List (Op K V)) (k : K)
    (h : k ∉ ops.map Op.key) : applyOps kind t ops k = t k := by
  induction ops generalizing t with
  | nil => rfl
  | cons op ops ih =>
    simp only [List.map_cons, List.mem_cons, not_or] at h
    have : applyOps kind t (op :: ops) = applyOps kind (applyOp kind t op) ops := rfl
    rw [this, ih _ h.2]
    exact upd_other _ _ _ _ h.1

theorem lastW_map_const {β : Type} (l : List (Op K V)) (f : K → β) (k : K) :
    lastW (l.map (fun op => (op.key, f op.key))) k =
      if k ∈ l.map Op.key then some (f k) else none := by
  induction l with
  | nil => simp [lastW]
  | cons op l ih =>
    simp only [List.map_cons, lastW, ih, List.mem_cons]
    by_cases h1 : k ∈ l.map Op.key
    · simp [h1]
    · by_cases h2 : op.key = k
      · subst h2; simp [h1]
      · have : ¬ k = op.key := fun e => h2 e.symm
        simp [h1, h2, this]

theorem planRec_apply (kind : K → Kind) (t : Tbl K V) (ops : List (Op K V)) :
    applyRec t (planRec kind t ops) = applyOps kind t ops := by
  funext k
  rw [applyRec_eq]
  unfold planRec
  simp only
  rw [lastW_map_const]
  by_cases h : k ∈ ops.map Op.key
  · simp [h]
  · simp [h, applyOps_notin kind t ops k h]

theorem spec_snoc (kind : K → Kind) (txs : List (List (Op K V))) (tx : List (Op K V)) :
    spec kind (txs ++ [tx]) = applyOps kind (spec kind txs) tx := by
  simp [spec, applyOps_append]

theorem spec_append (kind : K → Kind) (a b : List (List (Op K V))) :
    spec kind (a ++ b) = applyOps kind (spec kind a) b.flatten := by
  simp [spec, applyOps_append]

theorem drop_cons_take {α : Type} (l : List α) (n : Nat) (x : α) (rest : List α)
    (h : l.drop n = x :: rest) : l.take (n + 1) = l.take n ++ [x] ∧ l.drop (n + 1) = rest := by
  induction n generalizing l with
  | zero =>
    simp at h; subst h; simp
  | succ n ih =>
    cases l with
    | nil => simp at h
    | cons a l =>
      simp only [List.drop_succ_cons] at h
      have := ih l h
      simp [this.1, this.2]

/-! ### the invariant -/

structure Inv (kind : K → Kind) (s : St K V) : Prop where
  ov : ∀ k, s.overlay k = lastW (queueW kind s.queue) k
  ids : ∀ c ∈ s.queue, c.id ≤ s.nextId
  nodup : s.queue.Pairwise (fun a b => a.id ≠ b.id)
  data : ∀ i, i ≤ s.logged.length →
    applyRecs s.tables (s.logged.take i) = spec kind (s.hist.take (s.nEnacted + i))
  queue : s.queue.map (·.ops) = s.hist.drop (s.nEnacted + s.logged.length)
  len : s.nEnacted + s.logged.length + s.queue.length = s.hist.length
  fl : s.flushed ≤ s.logged.length

theorem Inv.init (kind : K → Kind) : Inv kind (St.init : St K V) := by
  constructor <;> simp [St.init, queueW, lastW, applyRecs, spec, applyOps]

theorem Inv.tables_eq {kind : K → Kind} {s : St K V} (h : Inv kind s) :
    s.tables = spec kind (s.hist.take s.nEnacted) := by
  have := h.data 0 (Nat.zero_le _)
  simpa [applyRecs] using this

theorem Inv.view_eq {kind : K → Kind} {s : St K V} (h : Inv kind s) :
    view s = spec kind (s.hist.take (s.nEnacted + s.logged.length)) := by
  rw [Pdb.view_eq]
  have := h.data s.logged.length (Nat.le_refl _)
  simpa using this

theorem Inv.commit {kind : K → Kind} {s : St K V} (h : Inv kind s) (tx : List (Op K V)) :
    Inv kind (commit kind s tx).1 := by
  unfold Pdb.commit
  by_cases hv : tx.all (opValid kind)
  · by_cases he : s.bgErr
    · simp [hv, he]; exact h
    · simp only [hv, he, Bool.not_true, Bool.false_eq_true, if_false]
      constructor
      · intro k
        simp only
        rw [ovOp_fold, h.ov k]
        have : queueW kind (s.queue ++ [{ id := s.nextId + 1, ops := tx }]) =
            queueW kind s.queue ++ opsW kind (s.nextId + 1) tx := by
          simp [queueW]
        rw [this, lastW_append]
      · intro c hc
        simp only [List.mem_append, List.mem_singleton] at hc
        rcases hc with hc | hc
        · exact Nat.le_succ_of_le (h.ids c hc)
        · subst hc; exact Nat.le_refl _
      · simp only
        rw [List.pairwise_append]
        refine ⟨h.nodup, by simp, ?_⟩
        intro a ha b hb
        simp only [List.mem_singleton] at hb
        subst hb
        have := h.ids a ha
        simp only
        omega
      · intro i hi
        simp only at hi ⊢
        have hlen := h.len
        have : (s.hist ++ [tx]).take (s.nEnacted + i) = s.hist.take (s.nEnacted + i) := by
          apply List.take_append_of_le_length
          omega
        rw [this]
        exact h.data i hi
      · simp only [List.map_append, List.map_cons, List.map_nil]
        have hlen := h.len
        rw [List.drop_append_of_le_length (by omega), h.queue]
      · simp only [List.length_append, List.length_cons, List.length_nil]
        have := h.len
        omega
      · exact h.fl
  · simp [hv]; exact h

theorem Inv.flush {kind : K → Kind} {s : St K V} (h : Inv kind s) : Inv kind (flush s) := by
  constructor
  · exact h.ov
  · exact h.ids
  · exact h.nodup
  · exact h.data
  · exact h.queue
  · exact h.len
  · simp [Pdb.flush]

theorem Inv.enactOne {kind : K → Kind} {s : St K V} (h : Inv kind s) : Inv kind (enactOne s) := by
  unfold Pdb.enactOne
  cases hf : s.flushed with
  | zero => simpa [hf] using h
  | succ f =>
    cases hl : s.logged with
    | nil => simpa [hf, hl] using h
    | cons r rs =>
      simp only
      constructor
      · exact h.ov
      · exact h.ids
      · exact h.nodup
      · intro i hi
        simp only at hi ⊢
        have := h.data (i + 1) (by rw [hl]; simp; omega)
        rw [hl] at this
        simp only [List.take_succ_cons, applyRecs, List.foldl_cons] at this
        simp only [applyRecs]
        rw [this]
        congr 2
        omega
      · simp only
        have := h.queue
        rw [hl] at this
        simp only [List.length_cons] at this
        rw [this]
        congr 1
        omega
      · simp only
        have := h.len
        rw [hl] at this
        simp only [List.length_cons] at this
        omega
      · simp only
        have := h.fl
        rw [hl, hf] at this
        simp only [List.length_cons] at this
        omega

theorem Inv.process {kind : K → Kind} {s : St K V} (h : Inv kind s) :
    Inv kind (process kind s) := by
  unfold Pdb.process
  cases hq : s.queue with
  | nil => simpa [hq] using h
  | cons c q =>
    simp only
    have hqueue := h.queue
    rw [hq] at hqueue
    simp only [List.map_cons] at hqueue
    have hdt := drop_cons_take s.hist _ _ _ hqueue.symm
    have hnod := h.nodup
    rw [hq, List.pairwise_cons] at hnod
    constructor
    · -- overlay
      intro k
      simp only
      have hov := h.ov k
      rw [hq] at hov
      have e : queueW kind (c :: q) = opsW kind c.id c.ops ++ queueW kind q := by simp [queueW]
      rw [e, lastW_append] at hov
      cases h2 : lastW (queueW kind q) k with
      | some x =>
        obtain ⟨i, v⟩ := x
        rw [h2] at hov
        simp at hov
        obtain ⟨c', hc', hid⟩ := queueW_tag kind q k i v h2
        have hne : c.id ≠ i := by rw [← hid]; exact hnod.1 c' hc'
        rw [clean_fold_other c.id c.ops s.overlay k
          (by intro w; rw [hov]; simp; intro e; exact absurd e.symm hne), hov]
      | none =>
        rw [h2] at hov
        simp at hov
        cases h3 : lastW (opsW kind c.id c.ops) k with
        | none =>
          rw [h3] at hov
          rw [clean_fold_other c.id c.ops s.overlay k (by intro w; rw [hov]; simp), hov]
        | some x =>
          obtain ⟨i, v⟩ := x
          rw [h3] at hov
          have := opsW_tag kind c.id c.ops k i v h3
          rw [this.1] at hov
          exact clean_fold_hit c.id c.ops s.overlay k v hov this.2
    · intro c' hc'
      exact h.ids c' (by rw [hq]; exact List.mem_cons_of_mem _ hc')
    · exact hnod.2
    · intro i hi
      simp only [List.length_append, List.length_cons, List.length_nil] at hi
      simp only
      by_cases hlt : i ≤ s.logged.length
      · rw [List.take_append_of_le_length hlt]
        exact h.data i hlt
      · have : i = s.logged.length + 1 := by omega
        subst this
        have : (s.logged ++ [planRec kind (view s) c.ops]).take (s.logged.length + 1) =
            s.logged ++ [planRec kind (view s) c.ops] := by
          apply List.take_of_length_le; simp
        rw [this, applyRecs_snoc, ← Pdb.view_eq, planRec_apply, h.view_eq]
        rw [← Nat.add_assoc, hdt.1, spec_snoc]
    · simp only [List.length_append, List.length_cons, List.length_nil]
      rw [← Nat.add_assoc, hdt.2]
    · simp only [List.length_append, List.length_cons, List.length_nil]
      have := h.len
      rw [hq] at this
      simp only [List.length_cons] at this
      omega
    · simp only [List.length_append, List.length_cons, List.length_nil]
      have := h.fl
      omega

theorem Inv.enactAll {kind : K → Kind} (n : Nat) {s : St K V} (h : Inv kind s) :
    Inv kind (enactAll n s) := by
  induction n generalizing s with
  | zero => exact h
  | succ n ih => exact ih h.enactOne

theorem Inv.processAll {kind : K → Kind} (n : Nat) {s : St K V} (h : Inv kind s) :
    Inv kind (processAll kind n s) := by
  induction n generalizing s with
  | zero => exact h
  | succ n ih => exact ih h.process

end Pdb
