/-
C04 (c): `Node::change` for a Set refines `put` on the in-order enumeration, at every depth,
through node splits; shape invariant `WF` (children = separators + 1, uniform depth).
-/
import Pdb.Proofs.C04TreeList

namespace Pdb.C04
variable {V : Type}

@[simp] theorem Node.seps_mk (s : List (Key × V)) (c : List (Node V)) : (Node.mk s c).seps = s := rfl
@[simp] theorem Node.children_mk (s : List (Key × V)) (c : List (Node V)) :
    (Node.mk s c).children = c := rfl

theorem Node.eta (n : Node V) : n = .mk n.seps n.children := by cases n; rfl

/-- Shape: every leaf `d` levels below, an internal node has one child more than separators. -/
def WF : Nat → Node V → Prop
  | 0, n => n.children = []
  | d + 1, n => n.children.length = n.seps.length + 1 ∧ ∀ c ∈ n.children, WF d c

/-- The in-order enumeration of the result of a change: a split result is the left node,
    the separator moved up, the right node. -/
def flat (d : Nat) (n : Node V) (r : Res V) : List (Key × V) :=
  match r with
  | .split sep right => toList d n ++ sep :: toList d right
  | _ => toList d n

def resWF (d : Nat) (r : Res V) : Prop :=
  match r with
  | .split _ right => WF d right
  | _ => True

/-! ### list surgery around index `A.length` -/

section
variable {α : Type}

theorem getElem?_mid {A : List α} {c : α} {B : List α} {i : Nat} (h : A.length = i) :
    (A ++ c :: B)[i]? = some c := by
  subst h; simp

theorem set_mid {A : List α} {c c1 : α} {B : List α} {i : Nat} (h : A.length = i) :
    (A ++ c :: B).set i c1 = A ++ c1 :: B := by
  subst h; simp

theorem insertAt_mid {A : List α} {B : List α} {i : Nat} (x : α) (h : A.length = i) :
    insertAt (A ++ B) i x = A ++ x :: B := by
  subst h; simp [insertAt]

theorem insertAt_mid_succ {A : List α} {c : α} {B : List α} {i : Nat} (x : α)
    (h : A.length = i) : insertAt (A ++ c :: B) (i + 1) x = A ++ c :: x :: B := by
  have : A ++ c :: B = (A ++ [c]) ++ B := by simp
  rw [this, insertAt_mid x (by simp [h])]
  simp

theorem eraseIdx_mid {A : List α} {c : α} {B : List α} {i : Nat} (h : A.length = i) :
    (A ++ c :: B).eraseIdx i = A ++ B := by
  subst h
  rw [List.eraseIdx_append_of_length_le (Nat.le_refl _)]
  simp

theorem take_getD_drop {l : List α} {m : Nat} (x : α) (h : m < l.length) :
    l.take m ++ l.getD m x :: l.drop (m + 1) = l := by
  have : l.getD m x = l[m] := by simp [List.getD, h]
  rw [this, ← List.drop_eq_getElem_cons h, List.take_append_drop]

theorem split_children {cl : List α} {n i : Nat} (hlen : cl.length = n + 1) (hi : i ≤ n) :
    ∃ A c B, cl = A ++ c :: B ∧ A.length = i ∧ B.length = n - i := by
  have hlt : i < cl.length := by omega
  refine ⟨cl.take i, cl[i], cl.drop (i + 1), ?_, ?_, ?_⟩
  · rw [← List.drop_eq_getElem_cons hlt, List.take_append_drop]
  · simp; omega
  · simp; omega

end

/-! ### `position` in decomposed form -/

theorem position_false {seps : List (Key × V)} (hs : Sorted seps) {k : Key}
    (h : (position seps k).1 = false) :
    ∃ S1 S2, seps = S1 ++ S2 ∧ S1.length = (position seps k).2 ∧
      (∀ x ∈ S1, keyLt x.1 k = true) ∧ (∀ x ∈ S2, keyLt k x.1 = true) := by
  obtain ⟨h1, h2, _, h4⟩ := position_spec hs k
  refine ⟨seps.take (position seps k).2, seps.drop (position seps k).2,
    (List.take_append_drop _ _).symm, ?_, h2, h4 h⟩
  simp; omega

theorem position_true {seps : List (Key × V)} (hs : Sorted seps) {k : Key}
    (h : (position seps k).1 = true) :
    ∃ S1 v S2, seps = S1 ++ (k, v) :: S2 ∧ S1.length = (position seps k).2 ∧
      (∀ x ∈ S1, keyLt x.1 k = true) ∧ (∀ x ∈ S2, keyLt k x.1 = true) := by
  obtain ⟨h1, h2, h3, _⟩ := position_spec hs k
  obtain ⟨v, hv⟩ := h3 h
  have e : seps = seps.take (position seps k).2 ++ (k, v) :: seps.drop ((position seps k).2 + 1) := by
    rw [← hv, List.take_append_drop]
  refine ⟨seps.take (position seps k).2, v, seps.drop ((position seps k).2 + 1), e, ?_, h2, ?_⟩
  · simp; omega
  · intro x hx
    rw [e] at hs
    have := (sorted_append.mp hs).2.1
    exact this.head_lt x hx

/-! ### the separators and the children inside the enumeration -/

theorem toList_succ (d : Nat) (n : Node V) :
    toList (d + 1) n = interleave (n.children.map (toList d)) n.seps := rfl

theorem toList_node (d : Nat) (A : List (Node V)) (c : Node V) (B : List (Node V))
    (S1 S2 : List (Key × V)) (h : A.length = S1.length) :
    toList (d + 1) (.mk (S1 ++ S2) (A ++ c :: B)) =
      zipL (A.map (toList d)) S1 ++ (toList d c ++ zipR S2 (B.map (toList d))) := by
  rw [toList_succ]
  simp only [Node.children_mk, Node.seps_mk, List.map_append, List.map_cons]
  exact interleave_decomp _ _ _ _ _ (by simpa using h)

theorem zipR_sublist {α : Type} (ss : List α) (cs : List (List α)) (h : ss.length ≤ cs.length) :
    ss.Sublist (zipR ss cs) := by
  induction ss generalizing cs with
  | nil => exact List.nil_sublist _
  | cons s ss ih =>
    cases cs with
    | nil => simp at h
    | cons c cs =>
      simp only [zipR]
      exact ((ih cs (by simpa using h)).trans (List.sublist_append_right c _)).cons_cons s

theorem seps_sorted {d : Nat} {n : Node V} (hlen : n.children.length = n.seps.length + 1)
    (hs : Sorted (toList (d + 1) n)) : Sorted n.seps := by
  rw [toList_succ] at hs
  cases hc : n.children.map (toList d) with
  | nil => simp at hc; rw [hc] at hlen; simp at hlen
  | cons c cs =>
    rw [hc] at hs
    have hl : n.seps.length ≤ cs.length := by
      have : (n.children.map (toList d)).length = n.seps.length + 1 := by simpa using hlen
      rw [hc] at this; simp at this; omega
    have : n.seps.Sublist (c ++ zipR n.seps cs) :=
      (zipR_sublist _ _ hl).trans (List.sublist_append_right c _)
    exact List.Pairwise.sublist this hs

/-! ### `insertSep` -/

theorem MIDDLE_lt : MIDDLE < ORDER + 1 := by decide

/-- The result of `insertSep` enumerates like the (possibly oversized) node with the
    separator (and child) inserted. -/
theorem insertSep_flat_leaf (seps : List (Key × V)) (i : Nat) (x : Key × V) :
    flat 0 (insertSep (.mk seps []) i x none).1 (insertSep (.mk seps []) i x none).2 =
      insertAt seps i x := by
  unfold insertSep
  simp only [Node.seps_mk, Node.children_mk]
  by_cases hfull : seps.length = ORDER
  · simp only [hfull, if_true, flat, toList, Node.seps_mk]
    apply take_getD_drop
    have : (insertAt seps i x).length = ORDER + 1 := by
      simp [insertAt]; omega
    rw [this]; exact MIDDLE_lt
  · simp only [hfull, if_false, flat, toList, Node.seps_mk]

theorem insertAt_length {α : Type} (l : List α) (i : Nat) (x : α) :
    (insertAt l i x).length = l.length + 1 := by
  simp [insertAt]; omega

theorem insertSep_flat_node (d : Nat) (seps : List (Key × V)) (cl : List (Node V)) (i : Nat)
    (x : Key × V) (r : Node V) (hlen : cl.length = seps.length + 1) :
    flat (d + 1) (insertSep (.mk seps cl) i x (some r)).1 (insertSep (.mk seps cl) i x (some r)).2 =
      toList (d + 1) (.mk (insertAt seps i x) (insertAt cl (i + 1) r)) := by
  unfold insertSep
  simp only [Node.seps_mk, Node.children_mk]
  by_cases hfull : seps.length = ORDER
  · simp only [hfull, if_true, flat]
    have hs : (insertAt seps i x).length = ORDER + 1 := by rw [insertAt_length, hfull]
    have hc : (insertAt cl (i + 1) r).length = ORDER + 2 := by rw [insertAt_length, hlen, hfull]
    have hm : MIDDLE < (insertAt seps i x).length := by rw [hs]; exact MIDDLE_lt
    rw [toList_succ, toList_succ, toList_succ]
    simp only [Node.seps_mk, Node.children_mk]
    have e1 := take_getD_drop x hm
    have e2 : (insertAt cl (i + 1) r).take (MIDDLE + 1) ++ (insertAt cl (i + 1) r).drop (MIDDLE + 1) =
        insertAt cl (i + 1) r := List.take_append_drop _ _
    conv => rhs; rw [← e1, ← e2]
    rw [List.map_append]
    symm
    apply interleave_split
    · simp only [List.length_map, List.length_take]
      rw [hs, hc]
      have : MIDDLE = 4 := rfl
      have : ORDER = 8 := rfl
      omega
    · intro h
      have := congrArg List.length h
      simp only [List.length_map, List.length_drop, List.length_nil] at this
      rw [hc] at this
      have : MIDDLE = 4 := rfl
      have : ORDER = 8 := rfl
      omega
  · simp only [hfull, if_false, flat]

theorem insertSep_res (n : Node V) (i : Nat) (x : Key × V) (r : Option (Node V)) :
    (insertSep n i x r).2 = .ok ∨ ∃ sep right, (insertSep n i x r).2 = .split sep right := by
  unfold insertSep
  by_cases hfull : n.seps.length = ORDER
  · simp only [hfull, if_true]; exact Or.inr ⟨_, _, rfl⟩
  · simp [hfull]

theorem insertSep_WF_leaf (seps : List (Key × V)) (i : Nat) (x : Key × V) :
    WF 0 (insertSep (.mk seps []) i x none).1 ∧ resWF 0 (insertSep (.mk seps []) i x none).2 := by
  unfold insertSep
  simp only [Node.seps_mk, Node.children_mk]
  by_cases hfull : seps.length = ORDER
  · simp [hfull, WF, resWF]
  · simp [hfull, WF, resWF]

theorem insertSep_WF_node (d : Nat) (seps : List (Key × V)) (cl : List (Node V)) (i : Nat)
    (x : Key × V) (r : Node V) (hlen : cl.length = seps.length + 1)
    (hcl : ∀ c ∈ cl, WF d c) (hr : WF d r) :
    WF (d + 1) (insertSep (.mk seps cl) i x (some r)).1 ∧
    resWF (d + 1) (insertSep (.mk seps cl) i x (some r)).2 := by
  have hmem : ∀ c ∈ insertAt cl (i + 1) r, WF d c := by
    intro c hc
    simp only [insertAt, List.mem_append, List.mem_cons] at hc
    rcases hc with hc | rfl | hc
    · exact hcl c (List.mem_of_mem_take hc)
    · exact hr
    · exact hcl c (List.mem_of_mem_drop hc)
  unfold insertSep
  simp only [Node.seps_mk, Node.children_mk]
  by_cases hfull : seps.length = ORDER
  · simp only [hfull, if_true, resWF]
    have hs : (insertAt seps i x).length = ORDER + 1 := by rw [insertAt_length, hfull]
    have hc : (insertAt cl (i + 1) r).length = ORDER + 2 := by rw [insertAt_length, hlen, hfull]
    have hM : MIDDLE = 4 := rfl
    have hO : ORDER = 8 := rfl
    refine ⟨⟨?_, ?_⟩, ⟨?_, ?_⟩⟩
    · simp only [Node.seps_mk, Node.children_mk, List.length_take]; omega
    · intro c hc'
      exact hmem c (List.mem_of_mem_take hc')
    · simp only [Node.seps_mk, Node.children_mk, List.length_drop]; omega
    · intro c hc'
      exact hmem c (List.mem_of_mem_drop hc')
  · simp only [hfull, if_false, resWF, and_true]
    refine ⟨?_, hmem⟩
    simp only [Node.seps_mk, Node.children_mk, insertAt_length]; omega

/-! ### Set at a leaf and at a separator -/

theorem put_at_false {seps : List (Key × V)} (hs : Sorted seps) (k : Key) (v : V)
    (h : (position seps k).1 = false) :
    put seps k v = insertAt seps (position seps k).2 (k, v) := by
  obtain ⟨S1, S2, e, hl, h1, h2⟩ := position_false hs h
  rw [← hl]
  conv => lhs; rw [e]
  conv => rhs; rw [e]
  rw [insertAt_mid _ rfl]
  have := put_middle (M := []) v h1 h2
  simpa [put] using this

theorem put_at_true {seps : List (Key × V)} (hs : Sorted seps) (k : Key) (v : V)
    (h : (position seps k).1 = true) :
    put seps k v = seps.set (position seps k).2 (k, v) := by
  obtain ⟨S1, v0, S2, e, hl, h1, h2⟩ := position_true hs h
  rw [← hl]
  conv => lhs; rw [e]
  conv => rhs; rw [e]
  rw [set_mid rfl]
  have := put_middle (M := [(k, v0)]) v h1 h2
  simpa [put, keyLt_irrefl] using this

/-- Elements of an in-order enumeration left of a separator position are below every key
    above the separators to the left; used through `zipL_lt` / `zipR_gt`. -/
theorem change_set_spec (d : Nat) : ∀ (n : Node V), WF d n → Sorted (toList d n) →
    ∀ (k : Key) (v : V),
      flat d (change d n (.set k v)).1 (change d n (.set k v)).2 = put (toList d n) k v ∧
      WF d (change d n (.set k v)).1 ∧ resWF d (change d n (.set k v)).2 ∧
      ((change d n (.set k v)).2 = .ok ∨
        ∃ sep right, (change d n (.set k v)).2 = .split sep right) := by
  induction d with
  | zero =>
    intro n hwf hs k v
    obtain ⟨seps, cl⟩ := n
    have hcl : cl = [] := hwf
    subst hcl
    have hs' : Sorted seps := hs
    cases hp : (position seps k).1 with
    | true =>
      have e : change 0 (.mk seps []) (.set k v) =
          (.mk (seps.set (position seps k).2 (k, v)) [], .ok) := by
        simp [change, Op.key, hp]
      rw [e]
      exact ⟨(put_at_true hs' k v hp).symm, rfl, trivial, Or.inl rfl⟩
    | false =>
      have e : change 0 (.mk seps []) (.set k v) =
          insertSep (.mk seps []) (position seps k).2 (k, v) none := by
        simp [change, Op.key, hp]
      rw [e]
      refine ⟨?_, (insertSep_WF_leaf _ _ _).1, (insertSep_WF_leaf _ _ _).2, insertSep_res _ _ _ _⟩
      rw [insertSep_flat_leaf]
      exact (put_at_false hs' k v hp).symm
  | succ d ih =>
    intro n hwf hs k v
    obtain ⟨seps, cl⟩ := n
    obtain ⟨hlen, hch⟩ := hwf
    simp only [Node.seps_mk, Node.children_mk] at hlen hch
    have hss : Sorted seps := seps_sorted (n := .mk seps cl) hlen hs
    cases hp : (position seps k).1 with
    | true =>
      -- the key is a separator of this node: replace its value
      have e : change (d + 1) (.mk seps cl) (.set k v) =
          (.mk (seps.set (position seps k).2 (k, v)) cl, .ok) := by
        simp [change, Op.key, hp]
      rw [e]
      obtain ⟨S1, v0, S2, es, hl, h1, h2⟩ := position_true hss hp
      -- split the children after child number i
      obtain ⟨A, c, B, ec, hA, hB⟩ := split_children (n := seps.length) (i := S1.length) hlen
        (by rw [es]; simp)
      subst es; subst ec
      rw [← hl, set_mid rfl]
      refine ⟨?_, ⟨by simpa using hlen, hch⟩, trivial, Or.inl rfl⟩
      -- enumerate both nodes around child number i (= S1.length)
      have hB' : B ≠ [] := by
        intro e; subst e
        simp at hB
      have t1 := toList_node d A c B S1 ((k, v0) :: S2) hA
      have t2 := toList_node d A c B S1 ((k, v) :: S2) hA
      simp only [flat]
      rw [t2]
      rw [t1] at hs ⊢
      rw [zipR_cons_of_ne_nil _ _ (by simpa using hB')] at hs ⊢
      rw [zipR_cons_of_ne_nil _ _ (by simpa using hB')]
      -- L ++ (c ++ ((k,v0) :: R)): everything left of (k, v0) is below k, R above
      have hs1 := sorted_append.mp hs
      have hL : ∀ x ∈ zipL (A.map (toList d)) S1, keyLt x.1 k = true := zipL_lt hs h1
      have hs2 := sorted_append.mp hs1.2.1
      have hC : ∀ x ∈ toList d c, keyLt x.1 k = true := by
        intro x hx
        exact hs2.2.2 x hx (k, v0) (List.mem_cons.mpr (Or.inl rfl))
      have hR : ∀ x ∈ interleave (B.map (toList d)) S2, keyLt k x.1 = true :=
        fun x hx => hs2.2.1.head_lt x hx
      have hLC : ∀ x ∈ zipL (A.map (toList d)) S1 ++ toList d c, keyLt x.1 k = true := by
        intro x hx
        rcases List.mem_append.mp hx with hx | hx
        · exact hL x hx
        · exact hC x hx
      have := put_middle (L := zipL (A.map (toList d)) S1 ++ toList d c) (M := [(k, v0)])
        (R := interleave (B.map (toList d)) S2) v hLC hR
      simp only [put, keyLt_irrefl, List.append_assoc, List.cons_append, List.nil_append,
        if_true, Bool.false_eq_true, if_false] at this
      exact this.symm
    | false =>
      obtain ⟨S1, S2, es, hl, h1, h2⟩ := position_false hss hp
      obtain ⟨A, c, B, ec, hA, hB⟩ := split_children (n := seps.length) (i := S1.length) hlen
        (by rw [es]; simp)
      have hget : cl[(position seps k).2]? = some c := by
        rw [ec, ← hl]; exact getElem?_mid hA
      have e : change (d + 1) (.mk seps cl) (.set k v) =
          afterChild (.mk seps (cl.set (position seps k).2 (change d c (.set k v)).1))
            (position seps k).2 (change d c (.set k v)).2 := by
        simp [change, Op.key, hp, hget]
      rw [e]
      subst es; subst ec
      rw [← hl, set_mid hA]
      -- the child
      have t1 := toList_node d A c B S1 S2 hA
      rw [t1] at hs ⊢
      have hs1 := sorted_append.mp hs
      have hs2 := sorted_append.mp hs1.2.1
      have hcs : Sorted (toList d c) := hs2.1
      have hcw : WF d c := hch c (by simp)
      obtain ⟨c1, c2, c3, c4⟩ := ih c hcw hcs k v
      have hL : ∀ x ∈ zipL (A.map (toList d)) S1, keyLt x.1 k = true := zipL_lt hs h1
      have hR : ∀ x ∈ zipR S2 (B.map (toList d)), keyLt k x.1 = true := zipR_gt hs2.2.1 h2
      have hput := put_middle (M := toList d c) v hL hR
      rw [hput, ← c1]
      have hchA : ∀ x ∈ A, WF d x := fun x hx => hch x (by simp [hx])
      have hchB : ∀ x ∈ B, WF d x := fun x hx => hch x (by simp [hx])
      rcases c4 with hok | ⟨sep, right, hsp⟩
      · -- no split below
        rw [hok] at c1 ⊢
        have ea : ∀ n1 : Node V, afterChild n1 S1.length .ok = (n1, .ok) := fun _ => rfl
        rw [ea]
        refine ⟨toList_node d A _ B S1 S2 hA, ⟨by simpa using hlen, ?_⟩, trivial, Or.inl rfl⟩
        intro x hx
        simp only [Node.children_mk, List.mem_append, List.mem_cons] at hx
        rcases hx with hx | rfl | hx
        · exact hchA x hx
        · exact c2
        · exact hchB x hx
      · -- the child split: insert the separator and the right node here
        rw [hsp] at c3 c1 ⊢
        have ea : ∀ n1 : Node V, afterChild n1 S1.length (.split sep right) =
            insertSep n1 S1.length sep (some right) := fun _ => rfl
        rw [ea]
        have hlen' : (A ++ (change d c (.set k v)).1 :: B).length = (S1 ++ S2).length + 1 := by
          simpa using hlen
        have hmem' : ∀ x ∈ A ++ (change d c (.set k v)).1 :: B, WF d x := by
          intro x hx
          simp only [List.mem_append, List.mem_cons] at hx
          rcases hx with hx | rfl | hx
          · exact hchA x hx
          · exact c2
          · exact hchB x hx
        refine ⟨?_, (insertSep_WF_node d _ _ _ _ _ hlen' hmem' c3).1,
          (insertSep_WF_node d _ _ _ _ _ hlen' hmem' c3).2, insertSep_res _ _ _ _⟩
        rw [insertSep_flat_node d _ _ _ _ _ hlen', insertAt_mid _ rfl, insertAt_mid_succ _ hA]
        rw [toList_node d A _ (right :: B) S1 (sep :: S2) hA]
        simp [zipR, flat, List.append_assoc]

end Pdb.C04
