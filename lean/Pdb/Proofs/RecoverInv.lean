/-
The wrapper invariant `RInv` of Model/Recover.lean (file structure vs. P1 state), its
preservation by every wrapper action, the projection onto P1, and the composition theorem:
real recovery on the files a reachable wrapper state leaves on disk yields `crashRecover`'s
tables.
-/
import Pdb.Proofs.Recover
import Pdb.Proofs.PipelineCrash

set_option linter.unusedSectionVars false
set_option linter.unusedSimpArgs false
namespace Pdb
variable {K V : Type} [DecidableEq K]

/-- Number of records in the youngest file. -/
def lastLen {ρ : Type} (files : List (LFile ρ)) : Nat :=
  (files.getLast?.map (·.recs.length)).getD 0

structure RInv (w : RSt K V) : Prop where
  /-- record ids are consecutive across the files (oldest first), start at `≥ 1`, end at `nextRec` -/
  chain : ∃ a, 1 ≤ a ∧ Chain a w.files ∧ a + (allRecs w.files).length = w.nextRec
  done_le : w.done ≤ (allRecs w.files).length
  /-- the records not yet enacted are P1's `logged` -/
  logged : w.st.logged = ((allRecs w.files).drop w.done).map (·.2)
  /-- the enacted records still on disk lead from the ghost base to the tables -/
  tables : w.st.tables = applyRecs w.base (((allRecs w.files).take w.done).map (·.2))
  /-- every record outside the appending file is flushed or enacted -/
  flushed : w.st.flushed + w.done + (if w.openTail then lastLen w.files else 0) =
    (allRecs w.files).length
  open_ne : w.openTail = true → w.files ≠ []

/-! ### list helpers -/

section Files
variable {ρ : Type}

theorem allRecs_cons (f : LFile ρ) (fs : List (LFile ρ)) : allRecs (f :: fs) = f.recs ++ allRecs fs := by
  simp [allRecs]

theorem allRecs_append_one (files : List (LFile ρ)) (f : LFile ρ) :
    allRecs (files ++ [f]) = allRecs files ++ f.recs := by
  simp [allRecs]

theorem lastLen_cons_cons (f g : LFile ρ) (fs : List (LFile ρ)) :
    lastLen (f :: g :: fs) = lastLen (g :: fs) := by
  simp [lastLen, List.getLast?_cons_cons]

theorem lastLen_append_one (files : List (LFile ρ)) (f : LFile ρ) :
    lastLen (files ++ [f]) = f.recs.length := by
  simp [lastLen]

theorem snocRec_spec (files : List (LFile ρ)) (x : Nat × ρ) (hne : files ≠ []) :
    allRecs (snocRec files x) = allRecs files ++ [x] ∧ snocRec files x ≠ [] ∧
    lastLen (snocRec files x) = lastLen files + 1 := by
  induction files with
  | nil => exact absurd rfl hne
  | cons f fs ih =>
    cases fs with
    | nil => simp [snocRec, allRecs, lastLen]
    | cons g gs =>
      obtain ⟨i1, i2, i3⟩ := ih (by simp)
      refine ⟨?_, by simp [snocRec], ?_⟩
      · simp only [snocRec, allRecs_cons] at i1 ⊢
        rw [i1]; simp
      · cases hs : snocRec (g :: gs) x with
        | nil => exact absurd hs i2
        | cons y ys =>
          simp only [snocRec, hs, lastLen_cons_cons]
          rw [← hs]; exact i3

theorem chain_snocRec {a : Nat} (files : List (LFile ρ)) (x : Nat × ρ) (hne : files ≠ [])
    (h : Chain a files) (hx : x.1 = a + (allRecs files).length) : Chain a (snocRec files x) := by
  induction files generalizing a with
  | nil => exact absurd rfl hne
  | cons f fs ih =>
    obtain ⟨hn, hids, hc⟩ := h
    cases fs with
    | nil =>
      simp only [allRecs, List.flatMap_cons, List.flatMap_nil, List.append_nil] at hx
      refine ⟨by simp, ?_, trivial⟩
      simp only [List.map_append, List.map_cons, List.map_nil, List.length_append, List.length_cons,
        List.length_nil, hids, hx]
      rw [← List.range'_append]
      simp
    | cons g gs =>
      refine ⟨hn, hids, ?_⟩
      apply ih (by simp) hc
      rw [hx, allRecs_cons, List.length_append]
      omega

theorem chain_append_one {a : Nat} (files : List (LFile ρ)) (f : LFile ρ) (h : Chain a files)
    (hn : f.recs ≠ []) (hids : f.recs.map (·.1) = List.range' (a + (allRecs files).length) f.recs.length) :
    Chain a (files ++ [f]) := by
  induction files generalizing a with
  | nil =>
    simp only [allRecs, List.flatMap_nil, List.length_nil, Nat.add_zero] at hids
    exact ⟨hn, hids, trivial⟩
  | cons g gs ih =>
    obtain ⟨h1, h2, hc⟩ := h
    refine ⟨h1, h2, ih hc ?_⟩
    rw [allRecs_cons, List.length_append] at hids
    rw [Nat.add_assoc]; exact hids

end Files

theorem applyRecs_append (t : Tbl K V) (a b : List (Rec K V)) :
    applyRecs t (a ++ b) = applyRecs (applyRecs t a) b := by
  simp [applyRecs, List.foldl_append]

theorem applyRecPrefix_zero_r (t : Tbl K V) (r : Rec K V) : applyRecPrefix 0 t r = t := by
  simp [applyRecPrefix, applyRec]

/-! ### P1 field facts -/

theorem process_queue_cons (kind : K → Kind) (s : St K V) (c : Commit K V) (q : List (Commit K V))
    (hq : s.queue = c :: q) :
    (process kind s).logged = s.logged ++ [planRec kind (view s) c.ops] ∧
    (process kind s).tables = s.tables ∧ (process kind s).flushed = s.flushed := by
  unfold process; rw [hq]; exact ⟨rfl, rfl, rfl⟩

theorem process_queue_nil (kind : K → Kind) (s : St K V) (hq : s.queue = []) : process kind s = s := by
  unfold process; rw [hq]

theorem commit_fields (kind : K → Kind) (s : St K V) (tx : List (Op K V)) :
    (commit kind s tx).1.logged = s.logged ∧ (commit kind s tx).1.tables = s.tables ∧
    (commit kind s tx).1.flushed = s.flushed := by
  unfold commit
  by_cases hv : tx.all (opValid kind) <;> by_cases hb : s.bgErr <;> simp [hv, hb]

theorem enactOne_fires (s : St K V) (f : Nat) (r : Rec K V) (rs : List (Rec K V))
    (hf : s.flushed = f + 1) (hl : s.logged = r :: rs) :
    (enactOne s).logged = rs ∧ (enactOne s).tables = applyRec s.tables r ∧ (enactOne s).flushed = f := by
  unfold enactOne; rw [hf, hl]; exact ⟨rfl, rfl, rfl⟩

theorem enactOne_idle (s : St K V) (h : ¬ (0 < s.flushed ∧ 0 < s.logged.length)) : enactOne s = s := by
  unfold enactOne
  cases hf : s.flushed with
  | zero => rfl
  | succ f =>
    cases hl : s.logged with
    | nil => rfl
    | cons r rs => rw [hf, hl] at h; simp at h

/-! ### preservation -/

theorem RInv.init : RInv (RSt.init : RSt K V) := by
  constructor
  · exact ⟨1, Nat.le_refl _, trivial, rfl⟩
  · simp [RSt.init, allRecs]
  · simp [RSt.init, allRecs, St.init]
  · simp [RSt.init, allRecs, St.init, applyRecs]
  · simp [RSt.init, allRecs, St.init]
  · simp [RSt.init]

theorem RInv.commit {kind : K → Kind} {w : RSt K V} (h : RInv w) (tx : List (Op K V)) :
    RInv ({ w with st := (commit kind w.st tx).1 } : RSt K V) := by
  obtain ⟨c1, c2, c3⟩ := commit_fields kind w.st tx
  constructor
  · exact h.chain
  · exact h.done_le
  · simp only [c1]; exact h.logged
  · simp only [c2]; exact h.tables
  · simp only [c3]; exact h.flushed
  · exact h.open_ne

theorem RInv.rflush {w : RSt K V} (h : RInv w) : RInv (rflush w) := by
  constructor
  · exact h.chain
  · exact h.done_le
  · exact h.logged
  · exact h.tables
  · have hl := h.logged
    have hd := h.done_le
    simp only [Pdb.rflush, flush, hl, List.length_map, List.length_drop, Bool.false_eq_true, if_false]
    omega
  · intro hc; simp [Pdb.rflush] at hc

theorem RInv.rprocess {kind : K → Kind} {w : RSt K V} (h : RInv w) : RInv (rprocess kind w) := by
  unfold Pdb.rprocess
  cases hq : w.st.queue with
  | nil => simpa [hq] using h
  | cons c q =>
    obtain ⟨p1, p2, p3⟩ := process_queue_cons kind w.st c q hq
    obtain ⟨a, ha, hc, hnext⟩ := h.chain
    have hd := h.done_le
    by_cases ho : w.openTail = true
    · have hne := h.open_ne ho
      obtain ⟨s1, s2, s3⟩ := snocRec_spec w.files (w.nextRec, planRec kind (view w.st) c.ops) hne
      simp only [ho, if_true]
      constructor
      · refine ⟨a, ha, chain_snocRec _ _ hne hc (by simp only; omega), ?_⟩
        simp only [s1, List.length_append, List.length_cons, List.length_nil]; omega
      · simp only [s1, List.length_append]; omega
      · simp only [p1, s1, h.logged]
        rw [List.drop_append_of_le_length hd]; simp
      · simp only [p2, s1]
        rw [List.take_append_of_le_length hd]; exact h.tables
      · have hf := h.flushed
        simp only [ho, if_true] at hf
        simp only [p3, s1, s3, ho, if_true, List.length_append, List.length_cons, List.length_nil]
        omega
      · intro _; exact s2
    · have ho' : w.openTail = false := by simpa using ho
      simp only [ho', Bool.false_eq_true, if_false]
      constructor
      · refine ⟨a, ha, chain_append_one _ _ hc (by simp) (by simp only [List.map_cons, List.map_nil, List.length_cons, List.length_nil]; rw [hnext]; rfl), ?_⟩
        simp only [allRecs_append_one, List.length_append, List.length_cons, List.length_nil]; omega
      · simp only [allRecs_append_one, List.length_append]; omega
      · simp only [p1, allRecs_append_one, h.logged]
        rw [List.drop_append_of_le_length hd]; simp
      · simp only [p2, allRecs_append_one]
        rw [List.take_append_of_le_length hd]; exact h.tables
      · have hf := h.flushed
        simp only [ho', Bool.false_eq_true, if_false] at hf
        simp only [p3, allRecs_append_one, lastLen_append_one, if_true, List.length_append,
          List.length_cons, List.length_nil]
        omega
      · intro _; simp

theorem RInv.renact {w : RSt K V} (h : RInv w) : RInv (renact w) := by
  unfold Pdb.renact
  by_cases hfire : 0 < w.st.flushed ∧ 0 < w.st.logged.length
  · simp only [hfire, and_self, if_true]
    obtain ⟨f, hf⟩ : ∃ f, w.st.flushed = f + 1 := ⟨w.st.flushed - 1, by omega⟩
    cases hl : w.st.logged with
    | nil => rw [hl] at hfire; simp at hfire
    | cons r rs =>
      obtain ⟨e1, e2, e3⟩ := enactOne_fires w.st f r rs hf hl
      have hlog := h.logged
      rw [hl] at hlog
      cases hdrop : (allRecs w.files).drop w.done with
      | nil => rw [hdrop] at hlog; simp at hlog
      | cons x rest =>
        rw [hdrop] at hlog
        simp only [List.map_cons, List.cons.injEq] at hlog
        obtain ⟨hr, hrs⟩ := hlog
        obtain ⟨t1, t2⟩ := drop_cons_take _ _ _ _ hdrop
        have hlen : w.done < (allRecs w.files).length := by
          have := congrArg List.length hdrop
          simp only [List.length_drop, List.length_cons] at this
          omega
        constructor
        · exact h.chain
        · simp only; omega
        · simp only [e1, t2]; exact hrs
        · simp only [e2, t1, List.map_append, List.map_cons, List.map_nil, applyRecs_append]
          rw [← h.tables, hr]; rfl
        · have hfl := h.flushed
          simp only [e3]
          omega
        · exact h.open_ne
  · simp only [hfire, if_false]; exact h

theorem RInv.reclaim (c : Nat) {w : RSt K V} (h : RInv w) : RInv (reclaim c w) := by
  induction c generalizing w with
  | zero => exact h
  | succ c ih =>
    unfold Pdb.reclaim
    cases hfiles : w.files with
    | nil => simpa [hfiles] using h
    | cons f fs =>
      simp only
      by_cases hle : f.recs.length ≤ w.done
      · simp only [hle, if_true]
        apply ih
        obtain ⟨a, ha, hc, hnext⟩ := h.chain
        rw [hfiles] at hc hnext
        obtain ⟨hne, _, hc'⟩ := hc
        have hpos : 0 < f.recs.length := List.length_pos_iff.mpr hne
        have hd := h.done_le
        have hlog := h.logged
        have htab := h.tables
        have hfl := h.flushed
        rw [hfiles, allRecs_cons] at hd hlog htab hfl
        rw [allRecs_cons] at hnext
        simp only [List.length_append] at hd hnext hfl
        -- the reclaimed file is not the open appending file
        have hfs : w.openTail = true → fs ≠ [] := by
          intro ho hnil
          subst hnil
          simp only [ho, if_true, lastLen, List.getLast?_singleton, Option.map_some,
            Option.getD_some, allRecs, List.flatMap_nil, List.length_nil] at hfl
          omega
        constructor
        · exact ⟨a + f.recs.length, by omega, hc', by simp only; omega⟩
        · simp only; omega
        · simp only
          rw [hlog, List.drop_append, List.drop_of_length_le hle, List.nil_append]
        · simp only
          rw [htab, List.take_append, List.take_of_length_le hle, List.map_append, applyRecs_append]
        · simp only
          by_cases ho : w.openTail = true
          · have := hfs ho
            cases fs with
            | nil => exact absurd rfl this
            | cons g gs =>
              simp only [ho, if_true, lastLen_cons_cons] at hfl ⊢
              omega
          · have ho' : w.openTail = false := by simpa using ho
            simp only [ho', Bool.false_eq_true, if_false] at hfl ⊢
            omega
        · exact hfs
      · simp only [hle, if_false]
        exact h

theorem afterOpen_inv (st : St K V) (left : List (LFile (Rec K V))) (x : Nat) (hx : 1 ≤ x)
    (hl : st.logged = []) (hf : st.flushed = 0) : RInv (afterOpen st left x) := by
  constructor
  · refine ⟨(afterOpen st left x).nextRec, ?_, trivial, rfl⟩
    simp only [afterOpen]
    split <;> omega
  · simp [afterOpen, allRecs]
  · simp [afterOpen, allRecs, hl]
  · simp [afterOpen, allRecs, applyRecs]
  · simp [afterOpen, allRecs, hf]
  · simp [afterOpen]

theorem RInv.nextRec_pos {w : RSt K V} (h : RInv w) : 1 ≤ w.nextRec := by
  obtain ⟨a, ha, _, hn⟩ := h.chain
  omega

theorem RInv.iter {f : RSt K V → RSt K V} (hf : ∀ w, RInv w → RInv (f w)) (n : Nat) {w : RSt K V}
    (h : RInv w) : RInv (iter f n w) := by
  induction n generalizing w with
  | zero => exact h
  | succ n ih => exact ih (hf w h)

theorem RInv.dropSeq {kind : K → Kind} {w : RSt K V} (h : RInv w) : RInv (dropSeq kind w) := by
  unfold Pdb.dropSeq renactFile
  simp only
  apply RInv.reclaim
  apply RInv.iter (fun _ h => h.renact)
  apply RInv.rflush
  apply RInv.iter (fun _ h => h.renact)
  apply RInv.iter (fun _ h => h.rprocess)
  apply RInv.rflush
  exact RInv.iter (fun _ h => h.renact) _ h

theorem RInv.rstep {kind : K → Kind} {w : RSt K V} (h : RInv w) (a : RAction K V) :
    RInv (rstep kind w a) := by
  cases a with
  | cleanSome c => exact h.reclaim c
  | act a =>
    cases a with
    | commit tx => exact h.commit tx
    | process => exact h.rprocess
    | flush => exact h.rflush
    | enact => exact h.renact
    | clean => exact h.reclaim _
    | reindex => exact h
    | reopen => exact afterOpen_inv _ _ _ (h.dropSeq (kind := kind)).nextRec_pos rfl rfl
    | crash j n => exact afterOpen_inv _ _ _ (by omega) rfl rfl

theorem RInv.rrun {kind : K → Kind} {w : RSt K V} (h : RInv w) (as : List (RAction K V)) :
    RInv (rrun kind w as) := by
  induction as generalizing w with
  | nil => exact h
  | cons a as ih => exact ih (h.rstep a)

/-! ### projection onto P1 -/

theorem reclaim_st (c : Nat) (w : RSt K V) : (reclaim c w).st = w.st := by
  induction c generalizing w with
  | zero => rfl
  | succ c ih =>
    unfold reclaim
    cases hfiles : w.files with
    | nil => simp [hfiles]
    | cons f fs =>
      simp only
      by_cases hle : f.recs.length ≤ w.done
      · simp only [hle, if_true]; rw [ih]
      · simp only [hle, if_false]

theorem rstep_st (kind : K → Kind) (w : RSt K V) (a : RAction K V) :
    (rstep kind w a).st = step kind w.st a.toAction := by
  cases a with
  | cleanSome c => exact reclaim_st c w
  | act a =>
    cases a with
    | commit tx => rfl
    | process =>
      simp only [rstep, RAction.toAction, step]
      unfold rprocess
      cases hq : w.st.queue with
      | nil => simp only [hq]; exact (process_queue_nil kind w.st hq).symm
      | cons c q => simp only [hq]; split <;> rfl
    | flush => rfl
    | enact =>
      simp only [rstep, RAction.toAction, step]
      unfold renact
      by_cases hfire : 0 < w.st.flushed ∧ 0 < w.st.logged.length
      · simp only [hfire, and_self, if_true]
      · simp only [hfire, if_false]; exact (enactOne_idle w.st hfire).symm
    | clean => exact reclaim_st _ w
    | reindex => rfl
    | reopen => rfl
    | crash j n => rfl

/-- The P1 component of a wrapper run is the P1 run of the projected actions: every
    reachable P1 state is the projection of a reachable wrapper state. -/
theorem rrun_st (kind : K → Kind) (w : RSt K V) (as : List (RAction K V)) :
    (rrun kind w as).st = run kind w.st (as.map RAction.toAction) := by
  induction as generalizing w with
  | nil => rfl
  | cons a as ih =>
    show (rrun kind (rstep kind w a) as).st = run kind (step kind w.st a.toAction) (as.map _)
    rw [ih, rstep_st]

/-! ### the composition theorem -/

theorem crashRecover_tables (s : St K V) (j n : Nat) :
    (crashRecover s j n).tables = applyRecs (crashImage s j) (s.logged.take n) := by
  unfold crashRecover crashImage
  cases s.flushed <;> cases s.logged <;> rfl

/-- Replaying the enacted-but-retained records `D` and then the surviving records over the
    crash image gives the same tables as replaying only the surviving records. -/
theorem replay_retained (base : Tbl K V) (D kept : List (Rec K V)) (r : Rec K V) (j : Nat)
    (h : j = 0 ∨ kept.head? = some r) :
    applyRecs (applyRecPrefix j (applyRecs base D) r) (D ++ kept) =
      applyRecs (applyRecPrefix j (applyRecs base D) r) kept := by
  rcases h with rfl | hk
  · simp only [applyRecPrefix_zero_r]
    rw [applyRecs_append]
    have := replay_after_partial_replay base D D.length 0
    simp only [List.take_length, applyRecPrefix_zero_r] at this
    rw [this]
  · cases kept with
    | nil => simp at hk
    | cons r' rest =>
      simp only [List.head?_cons, Option.some.injEq] at hk
      subst hk
      have := replay_after_partial_replay base (D ++ r' :: rest) D.length j
      have e1 : (D ++ r' :: rest).take D.length = D := by simp
      have e2 : (D ++ r' :: rest).getD D.length [] = r' := by simp [List.getD]
      rw [e1, e2] at this
      rw [this, applyRecs_append]
      simp only [applyRecs, List.foldl_cons]
      rw [overwrite_idempotent]

/-- COMPOSITION.  For a wrapper state satisfying the invariant (every reachable one), a crash
    with `j` writes of the record being enacted done and `n ≥ flushed` un-enacted records
    surviving: whatever the order in which the directory lists the surviving files, the real
    recovery algorithm (order by first record id, start at first id − 1, accept consecutive
    ids, re-apply the enacted-but-retained records too) yields exactly the tables P1's
    `crashRecover` postulates. -/
theorem RInv.realRecover_eq {w : RSt K V} (h : RInv w) (j n : Nat) (hn : w.st.flushed ≤ n)
    (fs : List (LFile (Rec K V))) (hp : fs.Perm (diskFiles w n)) :
    realRecover (crashImage w.st j) fs = (crashRecover w.st j n).tables := by
  obtain ⟨a, ha, hc, _⟩ := h.chain
  have hacc := realAccepted_chain (chain_trunc hc (w.done + n)) ha fs hp
  unfold realRecover
  have ekept : ((allRecs w.files).drop w.done |>.take n).map (·.2) = w.st.logged.take n := by
    rw [h.logged, List.map_take]
  rw [crashRecover_tables, hacc, allRecs_trunc, List.take_add, List.map_append, ekept]
  have htab := h.tables
  unfold crashImage
  cases hf : w.st.flushed with
  | zero =>
    simp only
    have := replay_retained w.base (((allRecs w.files).take w.done).map (·.2)) (w.st.logged.take n)
      [] 0 (Or.inl rfl)
    simp only [applyRecPrefix_zero_r] at this
    rw [htab]; exact this
  | succ f =>
    cases hl : w.st.logged with
    | nil =>
      simp only
      have := replay_retained w.base (((allRecs w.files).take w.done).map (·.2)) ([] : List (Rec K V))
        [] 0 (Or.inl rfl)
      simp only [applyRecPrefix_zero_r] at this
      simp only [List.take_nil]
      rw [htab]; exact this
    | cons r rs =>
      simp only
      rw [htab]
      apply replay_retained
      right
      cases n with
      | zero => omega
      | succ n => simp

/-- Nothing is cut when the appending file is closed (every record is synced): the crash
    image holds exactly the model's files. -/
theorem RInv.diskFiles_closed {w : RSt K V} (h : RInv w) (n : Nat) (ho : w.openTail = false)
    (hn : w.st.flushed ≤ n) : diskFiles w n = w.files := by
  obtain ⟨a, _, hc, _⟩ := h.chain
  have hfl := h.flushed
  simp only [ho, Bool.false_eq_true, if_false] at hfl
  exact truncFiles_all hc _ (by omega)

/-- The crash image holds the first `done + n` records: every enacted-but-retained record
    and the `n` oldest un-enacted ones. -/
theorem diskFiles_recs (w : RSt K V) (n : Nat) :
    allRecs (diskFiles w n) = (allRecs w.files).take (w.done + n) := allRecs_trunc _ _

/-! ### recovery interrupted and restarted -/

theorem chain_drop {ρ : Type} {a : Nat} {files : List (LFile ρ)} (h : Chain a files) (c : Nat) :
    ∃ a', a ≤ a' ∧ Chain a' (files.drop c) := by
  induction c generalizing a files with
  | zero => exact ⟨a, Nat.le_refl _, h⟩
  | succ c ih =>
    cases files with
    | nil => exact ⟨a, Nat.le_refl _, trivial⟩
    | cons f fs =>
      obtain ⟨_, _, hc⟩ := h
      obtain ⟨a', ha', hc'⟩ := ih hc
      exact ⟨a', by omega, hc'⟩

theorem applyRecs_twice (t : Tbl K V) (S : List (Rec K V)) :
    applyRecs (applyRecs t S) S = applyRecs t S := by
  have := replay_after_partial_replay t S S.length 0
  simp only [List.take_length, applyRecPrefix_zero_r] at this
  exact this

/-- A crash DURING recovery.  (a) While the records are being replayed (`i` records done, `j`
    writes of the next): the log files are untouched, and a second recovery yields what the
    first would have.  (b) After the replay, while `clean_all_logs` reclaims the files OLDEST
    FIRST (`c` files gone): the second recovery replays the remaining, younger records over
    tables that already hold all of them, and changes nothing. -/
theorem realRecover_restart {a : Nat} {files : List (LFile (Rec K V))} (h : Chain a files)
    (ha : 1 ≤ a) (t : Tbl K V) (fs : List (LFile (Rec K V))) (hp : fs.Perm files) :
    (∀ i j, realRecover (applyRecPrefix j (applyRecs t ((realAccepted fs).take i))
        ((realAccepted fs).getD i [])) fs = realRecover t fs) ∧
    (∀ c (fs' : List (LFile (Rec K V))), fs'.Perm (files.drop c) →
      realRecover (realRecover t fs) fs' = realRecover t fs) := by
  refine ⟨fun i j => replay_after_partial_replay t _ i j, ?_⟩
  intro c fs' hp'
  obtain ⟨a', ha', hc'⟩ := chain_drop h c
  unfold realRecover
  rw [realAccepted_chain h ha fs hp, realAccepted_chain hc' (by omega) fs' hp']
  have e : allRecs files = allRecs (files.take c) ++ allRecs (files.drop c) := by
    unfold allRecs
    rw [← List.flatMap_append, List.take_append_drop]
  rw [e, List.map_append, applyRecs_append, applyRecs_twice]

end Pdb
