/-
C04, GAP 1 (cursor), part 3: `Node::seek`, the representation relation between node stacks
and the abstract cursor `Cur` of Pdb/Model/BTreeIter.lean, and the refinement of whole call
sequences.
-/
import Pdb.Proofs.C04CursorStep

namespace Pdb.C04
variable {V : Type}

/-! ### answers of the abstract cursor on a sorted list split at the position -/

section
variable {α : Type}

theorem first_append_skip {p : α → Bool} {L R : List α} (h : ∀ x ∈ L, p x = false) :
    first p (L ++ R) = first p R := by
  induction L with
  | nil => rfl
  | cons a L ih =>
    simp only [List.cons_append, first, h a List.mem_cons_self, Bool.false_eq_true, if_false]
    exact ih (fun x hx => h x (List.mem_cons_of_mem _ hx))

theorem first_eq_head {p : α → Bool} {R : List α} (h : ∀ e, R.head? = some e → p e = true) :
    first p R = R.head? := by
  cases R with
  | nil => rfl
  | cons e R => simp [first, h e rfl]

theorem last_append_skip {p : α → Bool} {L R : List α} (h : ∀ x ∈ R, p x = false) :
    last p (L ++ R) = last p L := by
  induction L with
  | nil =>
    simp only [List.nil_append]
    exact last_none.mpr h
  | cons a L ih => simp only [List.cons_append, last, ih]

theorem last_snoc_true {p : α → Bool} (L : List α) {e : α} (h : p e = true) :
    last p (L ++ [e]) = some e := by
  induction L with
  | nil => simp [last, h]
  | cons a L ih => simp only [List.cons_append, last, ih]; rfl

theorem last_eq_getLast {p : α → Bool} {L : List α} (h : ∀ e, L.getLast? = some e → p e = true) :
    last p L = L.getLast? := by
  rcases List.eq_nil_or_concat L with rfl | ⟨L', e, rfl⟩
  · rfl
  · rw [List.concat_eq_append] at h ⊢
    have he : p e = true := h e (by simp)
    rw [last_snoc_true L' he]; simp

end

theorem keyLt_false_of_lt {a b : Key} (h : keyLt a b = true) : keyLt b a = false := keyLt_asymm h

/-- position strictly between `L` and `R` -/
theorem gap_answers {L R : List (Key × V)} {k : Key} (hL : ∀ x ∈ L, keyLt x.1 k = true)
    (hR : ∀ x ∈ R, keyLt k x.1 = true) :
    first (fun e => !keyLt e.1 k) (L ++ R) = R.head? ∧
    last (fun e => !keyLt k e.1) (L ++ R) = L.getLast? ∧
    first (fun e => keyLt k e.1) (L ++ R) = R.head? ∧
    last (fun e => keyLt e.1 k) (L ++ R) = L.getLast? := by
  have hhead : ∀ e, R.head? = some e → e ∈ R := fun e he => List.mem_of_mem_head? he
  have hlast : ∀ e, L.getLast? = some e → e ∈ L := fun e he => List.mem_of_getLast? he
  refine ⟨?_, ?_, ?_, ?_⟩
  · rw [first_append_skip (fun x hx => by simp [hL x hx])]
    exact first_eq_head (fun e he => by simp [keyLt_asymm (hR e (hhead e he))])
  · rw [last_append_skip (fun x hx => by simp [hR x hx])]
    exact last_eq_getLast (fun e he => by simp [keyLt_asymm (hL e (hlast e he))])
  · rw [first_append_skip (fun x hx => by simp [keyLt_asymm (hL x hx)])]
    exact first_eq_head (fun e he => hR e (hhead e he))
  · rw [last_append_skip (fun x hx => by simp [keyLt_asymm (hR x hx)])]
    exact last_eq_getLast (fun e he => hL e (hlast e he))

/-- position at the element `e` of a sorted list -/
theorem at_answers {L R : List (Key × V)} {e : Key × V} (hs : Sorted (L ++ e :: R)) :
    first (fun x => keyLt e.1 x.1) (L ++ e :: R) = R.head? ∧
    last (fun x => keyLt x.1 e.1) (L ++ e :: R) = L.getLast? ∧
    first (fun x => !keyLt x.1 e.1) (L ++ e :: R) = some e ∧
    last (fun x => !keyLt e.1 x.1) (L ++ e :: R) = some e := by
  obtain ⟨_, h2, h3⟩ := sorted_append.mp hs
  have hL : ∀ x ∈ L, keyLt x.1 e.1 = true := fun x hx => h3 x hx e List.mem_cons_self
  have hR : ∀ x ∈ R, keyLt e.1 x.1 = true := h2.head_lt
  have hhead : ∀ x, R.head? = some x → x ∈ R := fun x he => List.mem_of_mem_head? he
  have hlast : ∀ x, L.getLast? = some x → x ∈ L := fun x he => List.mem_of_getLast? he
  refine ⟨?_, ?_, ?_, ?_⟩
  · rw [first_append_skip (fun x hx => by simp [keyLt_asymm (hL x hx)])]
    simp only [first, keyLt_irrefl, Bool.false_eq_true, if_false]
    exact first_eq_head (fun x he => hR x (hhead x he))
  · have : L ++ e :: R = L ++ ([e] ++ R) := rfl
    rw [this, ← List.append_assoc, last_append_skip (fun x hx => by simp [keyLt_asymm (hR x hx)])]
    rw [last_append_skip (R := [e]) (fun x hx => by
      simp only [List.mem_singleton] at hx; rw [hx]; exact keyLt_irrefl _)]
    exact last_eq_getLast (fun x he => hL x (hlast x he))
  · rw [first_append_skip (fun x hx => by simp [hL x hx])]
    simp [first, keyLt_irrefl]
  · have : L ++ e :: R = (L ++ [e]) ++ R := by simp
    rw [this, last_append_skip (fun x hx => by simp [hR x hx])]
    exact last_snoc_true L (by simp [keyLt_irrefl])

/-! ### the representation relation -/

theorem toList_pre_post {dl : Nat} {n : Node V} {i : Nat} {e : Key × V} (hg : Good dl n)
    (hs : n.seps[i]? = some e) : toList dl n = pre dl n i ++ e :: postA dl n i := by
  have hi : i < n.seps.length := lt_of_getElem?_some hs
  cases dl with
  | zero => exact list_split_at hs
  | succ dl =>
    obtain ⟨ci, hci⟩ := hg.child_some (j := i) (by omega)
    obtain ⟨c1, hc1⟩ := hg.child_some (j := i + 1) (by omega)
    rw [toList_at_child hci (by omega), post_eq_cons_node hs hc1, pre_succ_of_child hci]
    simp

theorem AtPos.toList {t : Tree V} {st : Stack V} {L R : List (Key × V)} {e : Key × V}
    (h : AtPos t st L e R) : t.toList = L ++ e :: R := by
  obtain ⟨dl, n, i, anc, _, hanc, hs, rfl, rfl⟩ := h
  rw [hanc.toList, toList_pre_post hanc.good hs]
  simp

/-- `nextLoop` from `st` with the fuel of `nextC` behaves as a forward step from the gap
    `Lf | Rf` / a backward step from the gap `Lb | Rb`. -/
def FwdOK (t : Tree V) (st : Stack V) (Lf Rf : List (Key × V)) : Prop :=
  FwdRes t (nextLoop t.depth .fwd (t.depth + 2) st) Lf Rf

def BwdOK (t : Tree V) (st : Stack V) (Lb Rb : List (Key × V)) : Prop :=
  BwdRes t (nextLoop t.depth .bwd (t.depth + 2) st) Lb Rb

/-- The node stack `st` over the tree `t` stands where the abstract cursor `c` stands in
    `toList t`. -/
def Rep (t : Tree V) (st : Stack V) (c : Cur) : Prop :=
  (st = [] ∧ c = .fresh) ∨
  (st ≠ [] ∧ ∃ Lf Rf Lb Rb, FwdOK t st Lf Rf ∧ BwdOK t st Lb Rb ∧
      t.toList = Lf ++ Rf ∧ t.toList = Lb ++ Rb ∧
      curAns t.toList c .fwd = Rf.head? ∧ curAns t.toList c .bwd = Lb.getLast?)

theorem atPos_fwdOK {t : Tree V} {st : Stack V} {L R : List (Key × V)} {e : Key × V}
    (h : AtPos t st L e R) : FwdOK t st (L ++ [e]) R ∧ BwdOK t st L (e :: R) := by
  obtain ⟨dl, n, i, anc, rfl, hanc, hs, rfl, rfl⟩ := h
  have hd : dl + 2 ≤ t.depth + 2 := by have := hanc.len; omega
  exact ⟨stepFwd_at _ hanc hs hd, stepBwd_at _ hanc hs hd⟩

theorem atPos_ne_nil {t : Tree V} {st : Stack V} {L R : List (Key × V)} {e : Key × V}
    (h : AtPos t st L e R) : st ≠ [] := by
  obtain ⟨dl, n, i, anc, rfl, _⟩ := h
  simp

theorem atPos_rep {t : Tree V} (hsrt : Sorted t.toList) {st : Stack V} {L R : List (Key × V)}
    {e : Key × V} (h : AtPos t st L e R) : Rep t st (.excl e.1) := by
  have htl := h.toList
  obtain ⟨h1, h2⟩ := atPos_fwdOK h
  refine Or.inr ⟨atPos_ne_nil h, L ++ [e], R, L, e :: R, h1, h2, by rw [htl]; simp, htl, ?_, ?_⟩
  · show first (fun x => keyLt e.1 x.1) t.toList = _
    rw [htl]; exact (at_answers (by rw [← htl]; exact hsrt)).1
  · show last (fun x => keyLt x.1 e.1) t.toList = _
    rw [htl]; exact (at_answers (by rw [← htl]; exact hsrt)).2.1

/-- the outcome of a forward step is the answer of the abstract cursor, and the new stack
    represents the new abstract cursor -/
theorem fwdRes_step {t : Tree V} (hsrt : Sorted t.toList) {res : Stack V × CurOut V}
    {Lf Rf : List (Key × V)} (h : FwdRes t res Lf Rf) :
    res.2 = .ok Rf.head? ∧ Rep t res.1 (curAfter Rf.head?) := by
  rcases h with ⟨h1, h2⟩ | ⟨e, R', st', h1, h2, h3⟩
  · subst h1 h2
    exact ⟨rfl, Or.inl ⟨rfl, rfl⟩⟩
  · subst h1 h2
    exact ⟨rfl, atPos_rep hsrt h3⟩

theorem bwdRes_step {t : Tree V} (hsrt : Sorted t.toList) {res : Stack V × CurOut V}
    {Lb Rb : List (Key × V)} (h : BwdRes t res Lb Rb) :
    res.2 = .ok Lb.getLast? ∧ Rep t res.1 (curAfter Lb.getLast?) := by
  rcases h with ⟨h1, h2⟩ | ⟨e, L', st', h1, h2, h3⟩
  · subst h1 h2
    exact ⟨rfl, Or.inl ⟨rfl, rfl⟩⟩
  · subst h1 h2
    have hl : (L' ++ [e]).getLast? = some e := by simp
    rw [hl]
    exact ⟨rfl, atPos_rep hsrt h3⟩

/-! ### the first step of a new cursor (empty stack) -/

theorem rootAnc {t : Tree V} (hg : Good t.depth t.root) : AncOK t t.depth t.root [] :=
  ⟨rfl, rfl, hg⟩

theorem freshFwd {t : Tree V} (hg : Good t.depth t.root) :
    FwdRes t (nextLoop t.depth .fwd (t.depth + 2) [(nodeStart t.root .fwd (t.depth == 0), t.root)])
      [] t.toList := by
  have hanc := rootAnc hg
  cases hd : t.depth with
  | zero =>
    rw [hd] at hanc
    have := stepFwd_before (i := 0) 0 hanc
    rw [hd] at this
    simpa [nodeStart, pre, post, ancL, ancR, Tree.toList, C04.toList, hd] using this
  | succ dl =>
    rw [hd] at hanc
    obtain ⟨e, tl, st', e1, e2, e3⟩ := descFwd (dl + 1) t.root [] (dl + 1 + 2) hanc
      (by rw [hd] at hg; exact hg.one) (by omega)
    rw [hd] at e2
    rw [e2]
    refine Or.inr ⟨e, tl, st', ?_, rfl, ?_⟩
    · simp only [Tree.toList, hd]; exact e1
    · simpa [ancL, ancR] using e3

theorem freshBwd {t : Tree V} (hg : Good t.depth t.root) :
    BwdRes t (nextLoop t.depth .bwd (t.depth + 2) [(nodeStart t.root .bwd (t.depth == 0), t.root)])
      t.toList [] := by
  have hanc := rootAnc hg
  cases hd : t.depth with
  | zero =>
    rw [hd] at hanc
    have := stepBwd_before (i := t.root.seps.length) 0 hanc (Nat.le_refl _)
    rw [hd] at this
    simpa [nodeStart, pre, post, ancL, ancR, Tree.toList, C04.toList, hd] using this
  | succ dl =>
    rw [hd] at hanc
    obtain ⟨e, hd', st', e1, e2, e3⟩ := descBwd (dl + 1) t.root [] (dl + 1 + 2) hanc
      (by rw [hd] at hg; exact hg.one) (by omega)
    rw [hd] at e2
    rw [e2]
    refine Or.inr ⟨e, hd', st', ?_, rfl, ?_⟩
    · simp only [Tree.toList, hd]; exact e1
    · simpa [ancL, ancR] using e3

/-! ### `Node::seek` -/

/-- `(at, i)` of one pass of the loop of `Node::seek` -/
def seekPos (to : SeekTo) (seps : List (Key × V)) : Bool × Nat :=
  match to with
  | .incl k => position seps k
  | .excl k => position seps k
  | .last => (false, seps.length)

def hitIx (to : SeekTo) (i : Nat) : LastIndex :=
  match to with
  | .excl _ => .at i
  | _ => .seeked i

theorem seekNode_zero (to : SeekTo) (n : Node V) (st : Stack V) :
    seekNode to 0 n st =
      if (seekPos to n.seps).1 = true then some ((hitIx to (seekPos to n.seps).2, n) :: st)
      else some ((.before (seekPos to n.seps).2, n) :: st) := by
  cases to <;> rfl

theorem seekNode_succ (to : SeekTo) (d : Nat) (n : Node V) (st : Stack V) :
    seekNode to (d + 1) n st =
      if (seekPos to n.seps).1 = true then some ((hitIx to (seekPos to n.seps).2, n) :: st)
      else match n.children[(seekPos to n.seps).2]? with
           | some child => seekNode to d child ((.descend (seekPos to n.seps).2, n) :: st)
           | none => none := by
  cases to <;> rfl

/-- elements left of the seek position -/
def LB (to : SeekTo) (x : Key × V) : Prop :=
  match to with
  | .incl k => keyLt x.1 k = true
  | .excl k => keyLt x.1 k = true
  | .last => True

/-- elements right of the seek position (none for `Last`) -/
def RB (to : SeekTo) (x : Key × V) : Prop :=
  match to with
  | .incl k => keyLt k x.1 = true
  | .excl k => keyLt k x.1 = true
  | .last => False

def HitKey (to : SeekTo) (e : Key × V) : Prop :=
  match to with
  | .incl k => e.1 = k
  | .excl k => e.1 = k
  | .last => False

theorem seekPos_spec (to : SeekTo) {seps : List (Key × V)} (hs : Sorted seps) :
    (seekPos to seps).2 ≤ seps.length ∧
    (∀ x ∈ seps.take (seekPos to seps).2, LB to x) ∧
    ((seekPos to seps).1 = false → ∀ x ∈ seps.drop (seekPos to seps).2, RB to x) ∧
    ((seekPos to seps).1 = true → ∃ e, seps[(seekPos to seps).2]? = some e ∧ HitKey to e) := by
  have key : ∀ k : Key, (position seps k).2 ≤ seps.length ∧
      (∀ x ∈ seps.take (position seps k).2, keyLt x.1 k = true) ∧
      ((position seps k).1 = false → ∀ x ∈ seps.drop (position seps k).2, keyLt k x.1 = true) ∧
      ((position seps k).1 = true → ∃ e, seps[(position seps k).2]? = some e ∧ e.1 = k) := by
    intro k
    obtain ⟨p1, p2, p3, p4⟩ := position_spec hs k
    refine ⟨p1, p2, p4, ?_⟩
    intro h
    obtain ⟨v, hv⟩ := p3 h
    refine ⟨(k, v), ?_, rfl⟩
    have : (seps.drop (position seps k).2)[0]? = some (k, v) := by rw [hv]; rfl
    simpa using this
  cases to with
  | incl k => exact key k
  | excl k => exact key k
  | last =>
    refine ⟨Nat.le_refl _, fun _ _ => trivial, ?_, fun h => by simp [seekPos] at h⟩
    intro _ x hx
    simp [seekPos] at hx

theorem preC_LB (to : SeekTo) {dl : Nat} {n : Node V} {j : Nat} {c : Node V} (hg : Good (dl + 1) n)
    (hc : n.children[j]? = some c) (hj : j ≤ n.seps.length)
    (h : ∀ x ∈ n.seps.take j, LB to x) : ∀ x ∈ preC dl n j, LB to x := by
  have hs := hg.2.2
  rw [toList_at_child hc hj] at hs
  cases to with
  | incl k => exact zipL_lt hs h
  | excl k => exact zipL_lt hs h
  | last => intro _ _; trivial

theorem post_RB (to : SeekTo) {dl : Nat} {n : Node V} {j : Nat} {c : Node V} (hg : Good (dl + 1) n)
    (hc : n.children[j]? = some c) (hj : j ≤ n.seps.length)
    (h : ∀ x ∈ n.seps.drop j, RB to x) : ∀ x ∈ post (dl + 1) n j, RB to x := by
  have hs := hg.2.2
  rw [toList_at_child hc hj] at hs
  have hs' : Sorted (post (dl + 1) n j) :=
    (sorted_append.mp (sorted_append.mp hs).2.1).2.1
  cases to with
  | incl k => exact zipR_gt hs' h
  | excl k => exact zipR_gt hs' h
  | last =>
    intro x hx
    simp only [post] at hx
    cases hd : n.seps.drop j with
    | nil => rw [hd, zipR_nil_left] at hx; simp at hx
    | cons s _ => exact h s (by rw [hd]; exact List.mem_cons_self)

/-- Where `Node::seek` leaves the stack: on a hit `Seeked(i)` / `At(i)` at the separator with
    the key; otherwise `Before(i)` in a leaf with everything left of the position below and
    everything right of it above the key (for `Last`: nothing right of it). -/
def SeekRes (t : Tree V) (to : SeekTo) (st : Stack V) : Prop :=
  (∃ dl n i anc e, st = (hitIx to i, n) :: anc ∧ AncOK t dl n anc ∧ n.seps[i]? = some e ∧
      HitKey to e) ∨
  (∃ n i anc, st = (.before i, n) :: anc ∧ AncOK t 0 n anc ∧ i ≤ n.seps.length ∧
      (∀ x ∈ ancL 0 anc ++ pre 0 n i, LB to x) ∧ (∀ x ∈ post 0 n i ++ ancR 0 anc, RB to x))

theorem Good.seps_sorted' {dl : Nat} {n : Node V} (hg : Good dl n) : Sorted n.seps := by
  cases dl with
  | zero => exact hg.2.2
  | succ dl => exact seps_sorted hg.len hg.2.2

theorem seekNode_spec {t : Tree V} (to : SeekTo) : ∀ (dl : Nat) (n : Node V) (anc : Stack V),
    AncOK t dl n anc → (∀ x ∈ ancL dl anc, LB to x) → (∀ x ∈ ancR dl anc, RB to x) →
    ∃ st, seekNode to dl n anc = some st ∧ SeekRes t to st := by
  intro dl
  induction dl with
  | zero =>
    intro n anc h hL hR
    obtain ⟨p1, p2, p3, p4⟩ := seekPos_spec to h.good.seps_sorted'
    rw [seekNode_zero]
    cases hp : (seekPos to n.seps).1 with
    | true =>
      obtain ⟨e, he, hk⟩ := p4 hp
      exact ⟨_, by simp, Or.inl ⟨0, n, _, anc, e, rfl, h, he, hk⟩⟩
    | false =>
      refine ⟨_, by simp, Or.inr ⟨n, _, anc, rfl, h, p1, ?_, ?_⟩⟩
      · intro x hx
        rcases List.mem_append.mp hx with hx | hx
        · exact hL x hx
        · exact p2 x hx
      · intro x hx
        rcases List.mem_append.mp hx with hx | hx
        · exact p3 hp x hx
        · exact hR x hx
  | succ dl ih =>
    intro n anc h hL hR
    obtain ⟨p1, p2, p3, p4⟩ := seekPos_spec to h.good.seps_sorted'
    rw [seekNode_succ]
    cases hp : (seekPos to n.seps).1 with
    | true =>
      obtain ⟨e, he, hk⟩ := p4 hp
      exact ⟨_, by simp, Or.inl ⟨dl + 1, n, _, anc, e, rfl, h, he, hk⟩⟩
    | false =>
      obtain ⟨c, hc⟩ := h.good.child_some p1
      simp only [Bool.false_eq_true, if_false, hc]
      refine ih c _ (h.push hc) ?_ ?_
      · intro x hx
        rw [ancL_cons] at hx
        rcases List.mem_append.mp hx with hx | hx
        · exact hL x hx
        · exact preC_LB to h.good hc p1 p2 x hx
      · intro x hx
        rw [ancR_cons] at hx
        rcases List.mem_append.mp hx with hx | hx
        · exact post_RB to h.good hc p1 (p3 hp) x hx
        · exact hR x hx

theorem seekC_spec {t : Tree V} (hg : Good t.depth t.root) (to : SeekTo) :
    ∃ st, seekC t to = some st ∧ SeekRes t to st :=
  seekNode_spec to t.depth t.root [] (rootAnc hg) (fun _ hx => by simp [ancL] at hx)
    (fun _ hx => by simp [ancR] at hx)

theorem seekRes_rep {t : Tree V} (hsrt : Sorted t.toList) {to : SeekTo} {st : Stack V}
    (h : SeekRes t to st) : Rep t st (curSeek to) := by
  rcases h with ⟨dl, n, i, anc, e, rfl, hanc, hs, hk⟩ | ⟨n, i, anc, rfl, hanc, hi, hL, hR⟩
  · -- hit
    have hat : AtPos t ((.at i, n) :: anc) (ancL dl anc ++ pre dl n i) e (postA dl n i ++ ancR dl anc) :=
      ⟨dl, n, i, anc, rfl, hanc, hs, rfl, rfl⟩
    cases to with
    | last => exact absurd hk (by simp [HitKey])
    | excl k =>
      have hk' : e.1 = k := hk
      have := atPos_rep hsrt hat
      rw [hk'] at this
      exact this
    | incl k =>
      have hk' : e.1 = k := hk
      have htl := hat.toList
      have hstep : ∀ d, nextLoop t.depth d (t.depth + 2) ((.seeked i, n) :: anc) =
          ((.at i, n) :: anc, .ok (some e)) := fun d => step_seeked anc d (t.depth + 1) hs
      refine Or.inr ⟨by simp [hitIx], ancL dl anc ++ pre dl n i, e :: (postA dl n i ++ ancR dl anc),
        ancL dl anc ++ pre dl n i ++ [e], postA dl n i ++ ancR dl anc, ?_, ?_, htl, ?_, ?_, ?_⟩
      · exact Or.inr ⟨e, _, _, rfl, hstep .fwd, hat⟩
      · exact Or.inr ⟨e, _, _, rfl, hstep .bwd, hat⟩
      · rw [htl]; simp
      · show first (fun x => !keyLt x.1 k) t.toList = _
        rw [htl, ← hk']
        exact (at_answers (by rw [← htl]; exact hsrt)).2.2.1
      · show last (fun x => !keyLt k x.1) t.toList = _
        rw [htl, ← hk']
        rw [(at_answers (by rw [← htl]; exact hsrt)).2.2.2]
        simp
  · -- between two elements of a leaf
    have htl : t.toList = (ancL 0 anc ++ pre 0 n i) ++ (post 0 n i ++ ancR 0 anc) := by
      rw [hanc.toList]
      have : toList 0 n = pre 0 n i ++ post 0 n i := (List.take_append_drop i n.seps).symm
      rw [this]; simp
    refine Or.inr ⟨by simp, _, _, _, _, stepFwd_before t.depth hanc, stepBwd_before t.depth hanc hi,
      htl, htl, ?_, ?_⟩
    · cases to with
      | incl k =>
        show first (fun x => !keyLt x.1 k) t.toList = _
        rw [htl]; exact (gap_answers hL hR).1
      | excl k =>
        show first (fun x => keyLt k x.1) t.toList = _
        rw [htl]; exact (gap_answers hL hR).2.2.1
      | last =>
        have : post 0 n i ++ ancR 0 anc = [] := by
          cases hr : post 0 n i ++ ancR 0 anc with
          | nil => rfl
          | cons x _ => exact absurd (hR x (by rw [hr]; exact List.mem_cons_self)) (by simp [RB])
        rw [this]; rfl
    · cases to with
      | incl k =>
        show last (fun x => !keyLt k x.1) t.toList = _
        rw [htl]; exact (gap_answers hL hR).2.1
      | excl k =>
        show last (fun x => keyLt x.1 k) t.toList = _
        rw [htl]; exact (gap_answers hL hR).2.2.2
      | last =>
        have : post 0 n i ++ ancR 0 anc = [] := by
          cases hr : post 0 n i ++ ancR 0 anc with
          | nil => rfl
          | cons x _ => exact absurd (hR x (by rw [hr]; exact List.mem_cons_self)) (by simp [RB])
        show t.toList.getLast? = _
        rw [htl, this, List.append_nil]

/-! ### calls and call sequences -/

theorem nextC_nil (t : Tree V) (d : Dir) :
    nextC t d [] =
      nextLoop t.depth d (t.depth + 2) [(nodeStart t.root d (t.depth == 0), t.root)] := rfl

theorem nextC_ne_nil (t : Tree V) (d : Dir) {st : Stack V} (h : st ≠ []) :
    nextC t d st = nextLoop t.depth d (t.depth + 2) st := by
  cases st with
  | nil => exact absurd rfl h
  | cons a st => rfl

theorem stepC_refines {t : Tree V} (hg : Good t.depth t.root) {st : Stack V} {c : Cur}
    (hrep : Rep t st c) (call : CCall) :
    (stepC t st call).2 = (stepA t.toList c call).2 ∧
      Rep t (stepC t st call).1 (stepA t.toList c call).1 := by
  have hsrt : Sorted t.toList := hg.2.2
  cases call with
  | seek to =>
    obtain ⟨st', h1, h2⟩ := seekC_spec hg to
    refine ⟨?_, ?_⟩
    · simp only [stepC, h1, stepA]
    · simp only [stepC, h1, stepA]; exact seekRes_rep hsrt h2
  | step d =>
    -- the result of `nextLoop` in both cases
    have key : ∃ r, (nextC t d st).2 = .ok r ∧ r = curAns t.toList c d ∧
        Rep t (nextC t d st).1 (curAfter r) := by
      rcases hrep with ⟨rfl, rfl⟩ | ⟨hne, Lf, Rf, Lb, Rb, hf, hb, _, _, af, ab⟩
      · rw [nextC_nil]
        cases d with
        | fwd =>
          obtain ⟨h1, h2⟩ := fwdRes_step hsrt (freshFwd hg)
          exact ⟨_, h1, rfl, h2⟩
        | bwd =>
          obtain ⟨h1, h2⟩ := bwdRes_step hsrt (freshBwd hg)
          exact ⟨_, h1, rfl, h2⟩
      · rw [nextC_ne_nil t d hne]
        cases d with
        | fwd =>
          obtain ⟨h1, h2⟩ := fwdRes_step hsrt hf
          exact ⟨_, h1, af.symm, h2⟩
        | bwd =>
          obtain ⟨h1, h2⟩ := bwdRes_step hsrt hb
          exact ⟨_, h1, ab.symm, h2⟩
    obtain ⟨r, h1, h2, h3⟩ := key
    subst h2
    refine ⟨?_, ?_⟩
    · simp only [stepC, stepA, h1]
    · simp only [stepC, stepA]; exact h3

theorem runC_refines {t : Tree V} (hg : Good t.depth t.root) : ∀ (calls : List CCall) (st : Stack V)
    (c : Cur), Rep t st c →
    (runC t st calls).2 = (runA t.toList c calls).2 ∧
      Rep t (runC t st calls).1 (runA t.toList c calls).1 := by
  intro calls
  induction calls with
  | nil => intro st c h; exact ⟨rfl, h⟩
  | cons x xs ih =>
    intro st c h
    obtain ⟨h1, h2⟩ := stepC_refines hg h x
    obtain ⟨i1, i2⟩ := ih _ _ h2
    simp only [runC, runA]
    exact ⟨by rw [h1, i1], i2⟩

theorem good_of_treeInv {t : Tree V} (h : treeInvB t = true) : Good t.depth t.root := by
  obtain ⟨hw, ho⟩ := (treeInvB_iff t).mp h
  exact ⟨hw.1, ho, hw.2⟩

end Pdb.C04
